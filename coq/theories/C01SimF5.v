(* C01, simulation, fragment F5: compile_correct for the while-language with local variables of main.
   The value stack of the VM holds the locals (slot i = the i-th declared local) below the
   temporaries of the expression being evaluated. *)
From Coq Require Import List NArith ZArith Bool Lia.
From Cao Require Import ListUtil CheckUtil Bits CardAst Bytecode Compiler CompilerProofs CompilerWf CompilerResolve.
From Cao Require Import Stacks Vm VmProofs C04VmProofs C15Link.
From Cao Require RefSem TableProofs.
From Cao Require Import C01SimKeep C01SimVm C01SimVmLocals C01SimDefs C01SimComp C01SimRef C01SimF1 C01SimDefs2 C01SimComp2 C01SimF2.
From Cao Require Import C01SimDefs3 C01SimF3 C01SimDefs4 C01SimF4 C01SimDefs5 C01SimRef5 C01SimComp5.
Import ListNotations.
Local Open Scope N_scope.

(* ------------------------------------------------------------------ locals on the stack *)
Definition lstack (R : lstore) : list value := rev (map (fun nv => to_vm (snd nv)) R).
Definition lnames (R : lstore) : list str := map fst R.

Lemma lstack_cons x v R : lstack ((x, v) :: R) = lstack R ++ [to_vm v].
Proof. reflexivity. Qed.
Lemma lstack_length R : length (lstack R) = length R.
Proof. unfold lstack. rewrite rev_length, map_length. reflexivity. Qed.
Lemma lnames_length R : length (lnames R) = length R.
Proof. apply map_length. Qed.

Lemma upd_app_l' {A} (l r : list A) i x : (i < length l)%nat -> upd (l ++ r) i x = upd l i x ++ r.
Proof. revert i. induction l as [|y l IH]; intros [|i] H; cbn in *; try lia; auto. rewrite IH by lia. reflexivity. Qed.
Lemma upd_app_len' {A} (l : list A) y x : upd (l ++ [y]) (length l) x = l ++ [x].
Proof. induction l as [|z l IH]; cbn; [reflexivity|]. rewrite IH. reflexivity. Qed.

(* the slot of a local holds its value; assigning it updates that slot *)
Lemma slot_local n R v : RefSem.assoc n R = Some v ->
  exists i, slot (lnames R) n = Some i /\ (i < length (lstack R))%nat /\ nth i (lstack R) VNil = to_vm v /\
            forall w, upd (lstack R) i (to_vm w) = lstack (RefSem.set_assoc n w R) /\
                      lnames (RefSem.set_assoc n w R) = lnames R.
Proof.
  induction R as [|[x u] r IH]; cbn [RefSem.assoc]; [discriminate|].
  unfold slot. cbn [lnames map fst find_first length RefSem.set_assoc].
  destruct (RefSem.str_eqb n x) eqn:E.
  - intros H. injection H as <-. exists (length r). rewrite ?lnames_length, ?map_length.
    split; [f_equal; lia|]. rewrite !lstack_cons, <- (lstack_length r).
    split; [rewrite app_length; cbn; lia|]. split.
    + rewrite app_nth2 by lia. rewrite Nat.sub_diag. reflexivity.
    + intros w. split; [rewrite lstack_cons; apply upd_app_len' | reflexivity].
  - intros H. destruct (IH H) as (i & A & B & C & D). unfold slot in A. fold (lnames r) in *.
    destruct (find_first n (lnames r)) as [p|] eqn:Ef; [|discriminate]. injection A as <-.
    pose proof (find_first_lt _ _ _ Ef) as Hp. rewrite lnames_length in *.
    exists (length r - 1 - p)%nat. rewrite ?lnames_length, ?map_length.
    split; [f_equal; lia|]. rewrite !lstack_cons.
    split; [rewrite app_length; cbn; lia|]. split.
    + rewrite app_nth1 by exact B. exact C.
    + intros w. destruct (D w) as [D1 D2]. split.
      * rewrite lstack_cons, upd_app_l' by exact B. rewrite D1. reflexivity.
      * cbn [lnames map fst]. fold (lnames (RefSem.set_assoc n w r)). rewrite D2. reflexivity.
Qed.

Lemma lmem_none n R : lmem n (lnames R) = false -> RefSem.assoc n R = None /\ slot (lnames R) n = None.
Proof.
  unfold lnames. rewrite lmem_assoc. unfold slot. intros H.
  destruct (RefSem.assoc n R) eqn:E; [discriminate|]. split; [reflexivity|].
  pose proof (lmem_assoc n R) as H2. rewrite E in H2. unfold lmem in H2.
  destruct (find_first n (map fst R)); [discriminate | reflexivity].
Qed.
Lemma lmem_some n R : lmem n (lnames R) = true -> exists v, RefSem.assoc n R = Some v.
Proof. unfold lnames. rewrite lmem_assoc. destruct (RefSem.assoc n R); [eauto | discriminate]. Qed.

Section Run5.
Variable F : fops.
Variable bld : build.
Variable P : program.
Variable T : list (N * N).
Variable names : list str.

Hypothesis T_lt : forall h id, nm_find h T = Some id -> id < two32.
Hypothesis T_inj : forall h1 h2 id, nm_find h1 T = Some id -> nm_find h2 T = Some id -> h1 = h2.
Hypothesis names_inj : handles_inj names = true.
Hypothesis P_small : code_len P < 2147483648.

Notation steps' := (steps F bld P cap calls0 (@nil obj) None (@nil (list tval))).
Notation exec1' := (exec1 F bld P cap calls0 (@nil obj) None (@nil (list tval))).
Notation exec_err' := (exec_err F bld P cap calls0 (@nil obj) None (@nil (list tval))).
Notation seg' := (seg P).
Notation grel' := (grel T names).

Lemma main_frame0 : exists f r, calls0 = f :: r /\ fr_off f = 0.
Proof. eexists _, _. split; reflexivity. Qed.

(* the stack [stk] holds the locals R in its lowest slots *)
Definition holds (R : lstore) (stk : list value) : Prop :=
  forall n v, RefSem.assoc n R = Some v ->
    exists i, slot (lnames R) n = Some i /\ (i < length stk)%nat /\ nth i stk VNil = to_vm v.

Lemma holds_lstack R temps : holds R (lstack R ++ temps).
Proof.
  intros n v H. destruct (slot_local n R v H) as (i & A & B & C & _). exists i.
  split; [exact A|]. split; [rewrite app_length; lia|]. rewrite app_nth1 by exact B. exact C.
Qed.
Lemma holds_snoc R stk x : holds R stk -> holds R (stk ++ [x]).
Proof.
  intros H n v Hn. destruct (H n v Hn) as (i & A & B & C). exists i. split; [exact A|].
  split; [rewrite app_length; lia|]. rewrite app_nth1 by exact B. exact C.
Qed.

Definition expr_sim5 (e : card) : Prop :=
  forall pre stk R g gv,
    seg' pre (code_expr5 T (lnames R) e) ->
    (forall n, In n (expr_gnames (lnames R) e) -> In n names /\ nm_find (handle_of_bytes n) T <> None) ->
    holds R stk -> grel' g gv -> gsimple (R ++ g) -> (S (length stk + depth e) < cap)%nat ->
    match ev (R ++ g) e with
    | Some v => steps' (length (code_expr5 T (lnames R) e)) (bytes pre, stk, gv)
                       (bytes (pre ++ code_expr5 T (lnames R) e), stk ++ [to_vm v], gv)
    | None => exists k c1 nm, (k < length (code_expr5 T (lnames R) e))%nat /\ steps' k (bytes pre, stk, gv) c1 /\
                              exec_err' c1 (EVarNotFound nm) /\ snd c1 = gv
    end.

Lemma expr_f1_sim5 e : expr_f1 e = true -> expr_sim5 e.
Proof.
  induction e; intros He; cbn [expr_f1] in He; try discriminate He;
    intros pre stk R g gv Hseg Hnames Hloc Hrel Hsimp Hroom; cbn [code_expr5 ev depth expr_gnames] in *.
  - (* CBin *)
    apply andb_true_iff in He. destruct He as [He He2]. apply andb_true_iff in He. destruct He as [Hop He1].
    set (ca := code_expr5 T (lnames R) e1) in *. set (cb := code_expr5 T (lnames R) e2) in *.
    pose proof (seg_app_l _ _ _ _ Hseg) as Sa.
    pose proof (seg_app_r _ _ _ _ Hseg) as Sbi.
    pose proof (seg_app_l _ _ _ _ Sbi) as Sb.
    pose proof (seg_app_r _ _ _ _ Sbi) as Si.
    assert (Hna : forall n, In n (expr_gnames (lnames R) e1) -> In n names /\ nm_find (handle_of_bytes n) T <> None)
      by (intros n Hn; apply Hnames, in_or_app; auto).
    assert (Hnb : forall n, In n (expr_gnames (lnames R) e2) -> In n names /\ nm_find (handle_of_bytes n) T <> None)
      by (intros n Hn; apply Hnames, in_or_app; auto).
    pose proof (IHe1 He1 pre stk R g gv Sa Hna Hloc Hrel Hsimp ltac:(lia)) as Ha. fold ca in Ha.
    destruct (ev (R ++ g) e1) as [x|] eqn:Ex.
    + pose proof (IHe2 He2 (pre ++ ca) (stk ++ [to_vm x]) R g gv Sb Hnb (holds_snoc _ _ _ Hloc) Hrel Hsimp
                      ltac:(rewrite app_length; cbn [length]; lia)) as Hb. fold cb in Hb.
      destruct (ev (R ++ g) e2) as [y|] eqn:Ey.
      * destruct (vm_binop F [] op x y Hop (ev_simple _ _ _ Hsimp Ex) (ev_simple _ _ _ Hsimp Ey)) as (f & Hf & Hv).
        rewrite <- !app_assoc in Si. pose proof (seg_instr _ _ _ _ Si) as Hc.
        assert (X : exec1' (bytes (pre ++ ca ++ cb), stk ++ [to_vm x; to_vm y], gv)
                           (bytes (pre ++ ca ++ cb) + 1, stk ++ [to_vm (binval op x y)], gv)).
        { eapply ex_binop; eauto. lia. }
        rewrite !app_length. cbn [length].
        eapply steps_trans; [exact Ha|]. rewrite <- !app_assoc in Hb. cbn [app] in Hb.
        eapply steps_trans; [exact Hb|].
        replace (pre ++ ca ++ cb ++ [simple_binop op]) with ((pre ++ ca ++ cb) ++ [simple_binop op])
          by (rewrite <- !app_assoc; reflexivity).
        rewrite bytes_snoc.
        replace (spanN (simple_binop op)) with 1 by (destruct op; try discriminate Hop; reflexivity).
        apply steps_1. exact X.
      * destruct Hb as (k & c1 & nm & Hk & Hst & Herr & Hg).
        exists (length ca + k)%nat, c1, nm. split; [rewrite !app_length; lia|].
        split; [eapply steps_trans; eauto | auto].
    + destruct Ha as (k & c1 & nm & Hk & Hst & Herr & Hg).
      exists k, c1, nm. split; [rewrite !app_length; lia | auto].
  - (* CUn UNot *)
    destruct op; try discriminate He. cbn [code_expr5 ev expr_gnames] in *.
    set (ca := code_expr5 T (lnames R) e) in *.
    pose proof (seg_app_l _ _ _ _ Hseg) as Sa. pose proof (seg_app_r _ _ _ _ Hseg) as Si.
    pose proof (IHe He pre stk R g gv Sa Hnames Hloc Hrel Hsimp Hroom) as Ha. fold ca in Ha.
    destruct (ev (R ++ g) e) as [x|] eqn:Ex.
    + pose proof (seg_instr _ _ _ _ Si) as Hc.
      rewrite app_length. cbn [length]. eapply steps_trans; [exact Ha|].
      rewrite app_assoc, bytes_snoc. change (spanN INot) with 1.
      apply steps_1. rewrite to_vm_bool.
      eapply ex_not; eauto; [apply vm_not; eapply ev_simple; eauto | lia].
    + destruct Ha as (k & c1 & nm & Hk & Hst & Herr & Hg).
      exists k, c1, nm. split; [rewrite !app_length; lia | auto].
  - (* CScalarNil *)
    pose proof (seg_instr _ _ _ _ Hseg) as Hc. rewrite bytes_snoc. change (spanN IScalarNil) with 1.
    apply steps_1. eapply ex_scalar_nil; eauto. lia.
  - (* CScalarInt *)
    pose proof (seg_instr _ _ _ _ Hseg) as Hc. rewrite bytes_snoc. change (spanN (IScalarInt i)) with 9.
    apply steps_1. unfold lit_ok in He. apply andb_true_iff in He. destruct He as [H1 H2].
    apply Z.leb_le in H1. apply Z.ltb_lt in H2.
    eapply ex_scalar_int; eauto; lia.
  - (* CReadVar *)
    rewrite assoc_app.
    destruct (lmem name (lnames R)) eqn:Em.
    + (* a local *)
      destruct (lmem_some _ _ Em) as [v Ev]. rewrite Ev.
      destruct (Hloc name v Ev) as (i & Hi & Hlt & Hnth). rewrite Hi in *. cbn [length].
      pose proof (seg_instr _ _ _ _ Hseg) as Hc.
      rewrite bytes_snoc. change (spanN (IReadLocalVar (N.of_nat i))) with 5.
      apply steps_1. rewrite <- Hnth.
      pose proof (@ex_read_local F bld P cap calls0 [] None [] main_frame0 (bytes pre) (N.of_nat i) stk gv Hc) as X.
      rewrite Nat2N.id in X. apply X; [unfold cap, stack_size in *; lia | lia].
    + destruct (lmem_none _ _ Em) as [Ev Hs]. rewrite Ev, Hs in *.
      pose proof (seg_instr _ _ _ _ Hseg) as Hc.
      destruct (Hnames name (or_introl eq_refl)) as [Hin Hfound].
      pose proof (Hrel name (no_collision_name _ names_inj _ Hin)) as Hr. unfold gread in Hr.
      unfold idT in *. destruct (nm_find (handle_of_bytes name) T) as [id|] eqn:Eid; [|congruence].
      assert (Hid : id < 4294967296) by (rewrite <- two32_eq; eapply T_lt; eauto).
      destruct (RefSem.assoc name g) as [v|] eqn:Ea; cbn [option_map] in Hr.
      * rewrite bytes_snoc. change (spanN (IReadGlobalVar id)) with 5.
        apply steps_1. eapply ex_read_global; eauto; [|lia].
        destruct (nth_error gv (N.to_nat id)) as [[w|]|]; congruence.
      * destruct (@ex_read_global_err F bld P cap calls0 [] None [] (bytes pre) id stk gv Hc Hid) as [nm Herr].
        { intros w Hw. rewrite Hw in Hr. discriminate. }
        exists 0%nat, (bytes pre, stk, gv), (Some nm). split; [cbn; lia|]. split; [constructor | auto].
Qed.


(* ------------------------------------------------------------------ statements *)
Definition cont5 (start : N) (R : lstore) (gv : list (option value)) (endp : N)
           (okf : bool) (R' : lstore) (g' : gl) : Prop :=
  gsimple (R' ++ g') /\
  if okf then exists k gv', steps' k (start, lstack R, gv) (endp, lstack R', gv') /\ grel' g' gv'
  else exists k c1 nm, steps' k (start, lstack R, gv) c1 /\ exec_err' c1 (EVarNotFound nm) /\ grel' g' (snd c1).

Lemma cont5_prepend k a b endp R gv R1 gv1 okf R' g' :
  steps' k (a, lstack R, gv) (b, lstack R1, gv1) -> cont5 b R1 gv1 endp okf R' g' -> cont5 a R gv endp okf R' g'.
Proof.
  intros Hst [Hs H]. split; [exact Hs|]. destruct okf.
  - destruct H as (k2 & gv' & H2 & Hr). exists (k + k2)%nat, gv'. split; [eapply steps_trans; eauto | exact Hr].
  - destruct H as (k2 & c1 & nm & H2 & He & Hr). exists (k + k2)%nat, c1, nm. split; [eapply steps_trans; eauto | auto].
Qed.

Lemma cont5_done a R g gv : gsimple (R ++ g) -> grel' g gv -> cont5 a R gv a true R g.
Proof. intros Hs Hr. split; [exact Hs|]. exists 0%nat, gv. split; [constructor | exact Hr]. Qed.

Lemma cont5_err a R g gv k c1 nm :
  gsimple (R ++ g) -> grel' g gv -> steps' k (a, lstack R, gv) c1 -> exec_err' c1 (EVarNotFound nm) -> snd c1 = gv ->
  forall endp, cont5 a R gv endp false R g.
Proof. intros Hs Hr Hst He Hg endp. split; [exact Hs|]. exists k, c1, nm. rewrite Hg. auto. Qed.

(* an expression on the stack of the locals *)
Lemma expr_on_locals e pre R g gv :
  expr_f1 e = true -> seg' pre (code_expr5 T (lnames R) e) ->
  (forall n, In n (expr_gnames (lnames R) e) -> In n names /\ nm_find (handle_of_bytes n) T <> None) ->
  grel' g gv -> gsimple (R ++ g) -> (S (length R + depth e) < cap)%nat ->
  match ev (R ++ g) e with
  | Some v => steps' (length (code_expr5 T (lnames R) e)) (bytes pre, lstack R, gv)
                     (bytes (pre ++ code_expr5 T (lnames R) e), lstack R ++ [to_vm v], gv)
  | None => exists k c1 nm, steps' k (bytes pre, lstack R, gv) c1 /\ exec_err' c1 (EVarNotFound nm) /\ snd c1 = gv
  end.
Proof.
  intros He Hseg Hn Hrel Hsimp Hroom.
  pose proof (expr_f1_sim5 e He pre (lstack R) R g gv Hseg Hn) as H.
  assert (Hh : holds R (lstack R)) by (rewrite <- (app_nil_r (lstack R)); apply holds_lstack).
  specialize (H Hh Hrel Hsimp ltac:(rewrite lstack_length; exact Hroom)).
  destruct (ev (R ++ g) e); [exact H|]. destruct H as (k & c1 & nm & _ & A & B & C). eauto 6.
Qed.

Lemma cond_sim5 e pre (jump_if : bool) tgt rest R g gv :
  expr_f1 e = true ->
  seg' pre (code_expr5 T (lnames R) e ++ (if jump_if then IGotoIfTrue else IGotoIfFalse) (u32_to_i32 tgt) :: rest) ->
  tgt < 2147483648 ->
  (forall n, In n (expr_gnames (lnames R) e) -> In n names /\ nm_find (handle_of_bytes n) T <> None) ->
  (S (length R + depth e) < cap)%nat -> grel' g gv -> gsimple (R ++ g) ->
  match ev (R ++ g) e with
  | Some v =>
      steps' (length (code_expr5 T (lnames R) e) + 1) (bytes pre, lstack R, gv)
             (if Bool.eqb (RefSem.v_bool [] v) jump_if then tgt else bytes pre + bytes (code_expr5 T (lnames R) e) + 5,
              lstack R, gv)
  | None => exists k c1 nm, steps' k (bytes pre, lstack R, gv) c1 /\ exec_err' c1 (EVarNotFound nm) /\ snd c1 = gv
  end.
Proof.
  intros He Hseg Htgt Hn Hd Hrel Hsimp. destruct (seg_mid P _ _ _ _ Hseg) as (Se & Hc & _).
  pose proof (expr_on_locals e pre R g gv He Se Hn Hrel Hsimp Hd) as Hex.
  destruct (ev (R ++ g) e) as [v|] eqn:Ev; [|exact Hex].
  eapply steps_trans; [exact Hex|]. apply steps_1.
  pose proof (@ex_goto_if F bld P cap calls0 [] None [] jump_if (bytes (pre ++ code_expr5 T (lnames R) e)) tgt (lstack R)
                (to_vm v) (RefSem.v_bool [] v) gv Hc Htgt (vm_not F [] v (ev_simple _ _ _ Hsimp Ev))) as X.
  rewrite bytes_app in X. rewrite bytes_app. exact X.
Qed.

Lemma branch_sim5 (jump_if : bool) e pre rest tgt R g gv okf R' g' :
  let J := (if jump_if then IGotoIfTrue else IGotoIfFalse) (u32_to_i32 tgt) in
  let whole := code_expr5 T (lnames R) e ++ J :: rest in
  expr_f1 e = true -> seg' pre whole -> tgt < 2147483648 ->
  (forall x, In x (expr_gnames (lnames R) e) -> In x names /\ nm_find (handle_of_bytes x) T <> None) ->
  (S (length R + depth e) < cap)%nat -> grel' g gv -> gsimple (R ++ g) ->
  match ev (R ++ g) e with
  | None => (okf, R', g') = (false, R, g)
  | Some v =>
      cont5 (if Bool.eqb (RefSem.v_bool [] v) jump_if then tgt else bytes pre + bytes (code_expr5 T (lnames R) e) + 5)
            R gv (bytes (pre ++ whole)) okf R' g'
  end ->
  cont5 (bytes pre) R gv (bytes (pre ++ whole)) okf R' g'.
Proof.
  intros J whole He Hseg Htgt Hn Hd Hrel Hsimp Hk.
  pose proof (cond_sim5 e pre jump_if tgt rest R g gv He Hseg Htgt Hn Hd Hrel Hsimp) as Hcond.
  destruct (ev (R ++ g) e) as [v|].
  - eapply cont5_prepend; [exact Hcond | exact Hk].
  - injection Hk as -> -> ->. destruct Hcond as (k & c1 & nm & Hst & Herr & Hg).
    eapply cont5_err; eauto.
Qed.

Lemma gsimple_app a b : gsimple (a ++ b) <-> gsimple a /\ gsimple b.
Proof. unfold gsimple. apply Forall_app. Qed.

Definition stmt_sim5 (n : nat) : Prop :=
  forall c R g okf R' g', stmt5 (lnames R) c = true -> run5 n R g c = Some (okf, R', g') ->
  forall pre gv,
    seg' pre (code5 T (lnames R) (bytes pre) c) ->
    (forall x, In x (stmt_gnames (lnames R) c) -> In x names /\ nm_find (handle_of_bytes x) T <> None) ->
    (S (length R + stmt_depth5 c) < cap)%nat -> grel' g gv -> gsimple (R ++ g) ->
    cont5 (bytes pre) R gv (bytes (pre ++ code5 T (lnames R) (bytes pre) c)) okf R' g' /\ lnames R' = lnames R.

Lemma seq_sim5 n : stmt_sim5 n ->
  forall cs R g okf R' g', forallb (stmt5 (lnames R)) cs = true -> runs5 n R g cs = Some (okf, R', g') ->
  forall pre gv,
    seg' pre (code_seq5 T (lnames R) (bytes pre) cs) ->
    (forall x, In x (flat_map (stmt_gnames (lnames R)) cs) -> In x names /\ nm_find (handle_of_bytes x) T <> None) ->
    (forall c, In c cs -> (S (length R + stmt_depth5 c) < cap)%nat) -> grel' g gv -> gsimple (R ++ g) ->
    cont5 (bytes pre) R gv (bytes (pre ++ code_seq5 T (lnames R) (bytes pre) cs)) okf R' g' /\ lnames R' = lnames R.
Proof.
  intros Hn. induction cs as [|c r IH]; intros R g okf R' g' Hc Hrun pre gv Hseg Hnames Hd Hrel Hsimp.
  - cbn [runs5] in Hrun. injection Hrun as <- <- <-. cbn [code_seq5]. rewrite app_nil_r.
    split; [apply cont5_done; assumption | reflexivity].
  - cbn [forallb] in Hc. apply andb_true_iff in Hc. destruct Hc as [Hc Hcr].
    cbn [runs5 code_seq5 flat_map] in *. cbv zeta in *.
    set (cc := code5 T (lnames R) (bytes pre) c) in *.
    assert (Hnc : forall x, In x (stmt_gnames (lnames R) c) -> In x names /\ nm_find (handle_of_bytes x) T <> None)
      by (intros x Hx; apply Hnames, in_or_app; auto).
    assert (Hnr : forall x, In x (flat_map (stmt_gnames (lnames R)) r) -> In x names /\ nm_find (handle_of_bytes x) T <> None)
      by (intros x Hx; apply Hnames, in_or_app; auto).
    assert (Eb : bytes (pre ++ cc) = bytes pre + bytes cc) by apply bytes_app.
    destruct (run5 n R g c) as [[[[|] R1] g1]|] eqn:E1; try discriminate.
    + destruct (Hn c R g true R1 g1 Hc E1 pre gv (seg_app_l _ _ _ _ Hseg) Hnc (Hd c (or_introl eq_refl)) Hrel Hsimp)
        as [[Hs1 (k1 & gv1 & Hst1 & Hr1)] Hl1]. fold cc in Hst1.
      assert (HlenR : length R1 = length R) by (rewrite <- (lnames_length R1), Hl1, lnames_length; reflexivity).
      destruct (IH R1 g1 okf R' g' ltac:(rewrite Hl1; exact Hcr) Hrun (pre ++ cc) gv1
                   ltac:(rewrite Hl1, Eb; apply seg_app_r; exact Hseg) ltac:(rewrite Hl1; exact Hnr)
                   ltac:(intros c0 H0; rewrite HlenR; apply Hd; right; exact H0) Hr1 Hs1) as [H2 Hl2].
      rewrite Hl1, Eb in H2. rewrite <- app_assoc in H2. split; [|rewrite Hl2; exact Hl1].
      rewrite Eb in Hst1. eapply cont5_prepend; [exact Hst1 | exact H2].
    + injection Hrun as <- <- <-.
      destruct (Hn c R g false R1 g1 Hc E1 pre gv (seg_app_l _ _ _ _ Hseg) Hnc (Hd c (or_introl eq_refl)) Hrel Hsimp)
        as [[Hs1 H1] Hl1]. split; [|exact Hl1]. split; [exact Hs1|]. exact H1.
Qed.

Lemma sim5 n : stmt_sim5 n.
Proof.
  induction n as [|n IH]; intros c R g okf R' g' Hc Hrun pre gv Hseg Hnames Hdepth Hrel Hsimp; [discriminate|].
  pose proof Hsimp as Hsimp2. apply gsimple_app in Hsimp2. destruct Hsimp2 as [HsR Hsg].
  destruct c; cbn [stmt5] in Hc; try discriminate Hc.
  - (* CBin *)
    destruct op; try discriminate Hc; apply andb_true_iff in Hc; destruct Hc as [He Hb];
      cbn [run5 code5 stmt_gnames stmt_depth5] in *; cbv zeta in *;
      set (ce := code_expr5 T (lnames R) c1) in *;
      set (cb := code5 T (lnames R) (bytes pre + bytes ce + 5) c2) in *;
      assert (Hne : forall x, In x (expr_gnames (lnames R) c1) -> In x names /\ nm_find (handle_of_bytes x) T <> None)
        by (intros x Hx; apply Hnames, in_or_app; auto);
      assert (Hnb : forall x, In x (stmt_gnames (lnames R) c2) -> In x names /\ nm_find (handle_of_bytes x) T <> None)
        by (intros x Hx; apply Hnames, in_or_app; auto).
    + (* IfTrue *)
      set (tgt := bytes pre + bytes ce + 5 + bytes cb) in *.
      set (J := IGotoIfFalse (u32_to_i32 tgt)) in *.
      assert (Hend : bytes (pre ++ ce ++ J :: cb) = tgt).
      { rewrite !bytes_app. cbn [bytes]. change (spanN J) with 5. unfold tgt. lia. }
      assert (Hsmall : tgt < 2147483648) by (pose proof (seg_bound P P_small _ _ Hseg) as Hb'; rewrite Hend in Hb'; lia).
      destruct (ev (R ++ g) c1) as [v|] eqn:Ev.
      * destruct (RefSem.v_bool [] v) eqn:Ebv.
        -- destruct (seg_mid P _ _ _ _ Hseg) as (_ & _ & Sb).
           assert (Hpre' : bytes (pre ++ ce ++ [J]) = bytes pre + bytes ce + 5).
           { rewrite !bytes_app. cbn [bytes]. change (spanN J) with 5. lia. }
           destruct (IH c2 R g okf R' g' Hb Hrun (pre ++ ce ++ [J]) gv ltac:(rewrite Hpre'; exact Sb) Hnb ltac:(lia) Hrel Hsimp) as [Hbody Hl].
           rewrite Hpre' in Hbody. fold cb in Hbody. rewrite <- !app_assoc in Hbody. cbn [app] in Hbody.
           split; [|exact Hl].
           apply (branch_sim5 false c1 pre cb tgt R g gv okf R' g' He Hseg Hsmall Hne ltac:(lia) Hrel Hsimp).
           rewrite Ev, Ebv. cbn [Bool.eqb]. fold ce. exact Hbody.
        -- injection Hrun as <- <- <-. split; [|reflexivity].
           apply (branch_sim5 false c1 pre cb tgt R g gv true R g He Hseg Hsmall Hne ltac:(lia) Hrel Hsimp).
           rewrite Ev, Ebv. cbn [Bool.eqb]. fold ce. fold J. rewrite Hend. apply cont5_done; assumption.
      * injection Hrun as <- <- <-. split; [|reflexivity].
        apply (branch_sim5 false c1 pre cb tgt R g gv false R g He Hseg Hsmall Hne ltac:(lia) Hrel Hsimp).
        rewrite Ev. reflexivity.
    + (* IfFalse *)
      set (tgt := bytes pre + bytes ce + 5 + bytes cb) in *.
      set (J := IGotoIfTrue (u32_to_i32 tgt)) in *.
      assert (Hend : bytes (pre ++ ce ++ J :: cb) = tgt).
      { rewrite !bytes_app. cbn [bytes]. change (spanN J) with 5. unfold tgt. lia. }
      assert (Hsmall : tgt < 2147483648) by (pose proof (seg_bound P P_small _ _ Hseg) as Hb'; rewrite Hend in Hb'; lia).
      destruct (ev (R ++ g) c1) as [v|] eqn:Ev.
      * destruct (RefSem.v_bool [] v) eqn:Ebv.
        -- injection Hrun as <- <- <-. split; [|reflexivity].
           apply (branch_sim5 true c1 pre cb tgt R g gv true R g He Hseg Hsmall Hne ltac:(lia) Hrel Hsimp).
           rewrite Ev, Ebv. cbn [Bool.eqb]. fold ce. fold J. rewrite Hend. apply cont5_done; assumption.
        -- destruct (seg_mid P _ _ _ _ Hseg) as (_ & _ & Sb).
           assert (Hpre' : bytes (pre ++ ce ++ [J]) = bytes pre + bytes ce + 5).
           { rewrite !bytes_app. cbn [bytes]. change (spanN J) with 5. lia. }
           destruct (IH c2 R g okf R' g' Hb Hrun (pre ++ ce ++ [J]) gv ltac:(rewrite Hpre'; exact Sb) Hnb ltac:(lia) Hrel Hsimp) as [Hbody Hl].
           rewrite Hpre' in Hbody. fold cb in Hbody. rewrite <- !app_assoc in Hbody. cbn [app] in Hbody.
           split; [|exact Hl].
           apply (branch_sim5 true c1 pre cb tgt R g gv okf R' g' He Hseg Hsmall Hne ltac:(lia) Hrel Hsimp).
           rewrite Ev, Ebv. cbn [Bool.eqb]. fold ce. exact Hbody.
      * injection Hrun as <- <- <-. split; [|reflexivity].
        apply (branch_sim5 true c1 pre cb tgt R g gv false R g He Hseg Hsmall Hne ltac:(lia) Hrel Hsimp).
        rewrite Ev. reflexivity.
    + (* While *)
      set (tgt := bytes pre + bytes ce + 5 + (bytes cb + 5)) in *.
      set (J := IGotoIfFalse (u32_to_i32 tgt)) in *.
      set (jg := IGoto (u32_to_i32 (bytes pre))) in *.
      assert (Hend : bytes (pre ++ ce ++ J :: cb ++ [jg]) = tgt).
      { rewrite !bytes_app. cbn [bytes]. rewrite bytes_app. cbn [bytes].
        change (spanN J) with 5. change (spanN jg) with 5. unfold tgt. lia. }
      assert (Hsmall : tgt < 2147483648) by (pose proof (seg_bound P P_small _ _ Hseg) as Hb'; rewrite Hend in Hb'; lia).
      assert (Hpre_small : bytes pre < 2147483648) by (unfold tgt in Hsmall; lia).
      destruct (ev (R ++ g) c1) as [v|] eqn:Ev.
      * destruct (RefSem.v_bool [] v) eqn:Ebv.
        -- destruct (seg_mid P _ _ _ _ Hseg) as (_ & _ & Srest).
           assert (Hpre' : bytes (pre ++ ce ++ [J]) = bytes pre + bytes ce + 5).
           { rewrite !bytes_app. cbn [bytes]. change (spanN J) with 5. lia. }
           destruct (run5 n R g c2) as [[[[|] R1] g1]|] eqn:Eb; try discriminate.
           ++ destruct (IH c2 R g true R1 g1 Hb Eb (pre ++ ce ++ [J]) gv
                           ltac:(rewrite Hpre'; eapply seg_app_l; exact Srest) Hnb ltac:(lia) Hrel Hsimp)
                as [[Hs1 (kb & gv1 & Hstb & Hr1)] Hl1].
              rewrite Hpre' in Hstb. fold cb in Hstb.
              assert (HlenR : length R1 = length R) by (rewrite <- (lnames_length R1), Hl1, lnames_length; reflexivity).
              assert (Hcg : code_at P (bytes ((pre ++ ce ++ [J]) ++ cb)) jg).
              { eapply seg_instr. eapply seg_app_r. exact Srest. }
              pose proof (@ex_goto F bld P cap calls0 [] None [] _ (bytes pre) (lstack R1) gv1 Hcg Hpre_small) as Hgo.
              destruct (IH (CBin BWhile c1 c2) R1 g1 okf R' g' ltac:(cbn [stmt5]; rewrite Hl1, He, Hb; reflexivity) Hrun pre gv1
                           ltac:(cbn [code5]; cbv zeta; rewrite Hl1; exact Hseg)
                           ltac:(cbn [stmt_gnames]; rewrite Hl1; exact Hnames)
                           ltac:(cbn [stmt_depth5]; rewrite HlenR; exact Hdepth) Hr1 Hs1) as [Hrest Hl2].
              cbn [code5] in Hrest. cbv zeta in Hrest. rewrite Hl1 in Hrest. fold ce cb tgt J jg in Hrest. rewrite Hend in Hrest.
              split; [|rewrite Hl2; exact Hl1].
              apply (branch_sim5 false c1 pre (cb ++ [jg]) tgt R g gv okf R' g' He Hseg Hsmall Hne ltac:(lia) Hrel Hsimp).
              rewrite Ev, Ebv. cbn [Bool.eqb]. fold ce. fold J. rewrite Hend.
              eapply cont5_prepend; [exact Hstb|]. eapply cont5_prepend; [apply steps_1; exact Hgo | exact Hrest].
           ++ injection Hrun as <- <- <-.
              destruct (IH c2 R g false R1 g1 Hb Eb (pre ++ ce ++ [J]) gv
                           ltac:(rewrite Hpre'; eapply seg_app_l; exact Srest) Hnb ltac:(lia) Hrel Hsimp)
                as [[Hs1 (kb & c1' & nm & Hstb & Herr & Hr1)] Hl1].
              rewrite Hpre' in Hstb. split; [|exact Hl1].
              apply (branch_sim5 false c1 pre (cb ++ [jg]) tgt R g gv false R1 g1 He Hseg Hsmall Hne ltac:(lia) Hrel Hsimp).
              rewrite Ev, Ebv. cbn [Bool.eqb]. split; [exact Hs1|]. exists kb, c1', nm. auto.
        -- injection Hrun as <- <- <-. split; [|reflexivity].
           apply (branch_sim5 false c1 pre (cb ++ [jg]) tgt R g gv true R g He Hseg Hsmall Hne ltac:(lia) Hrel Hsimp).
           rewrite Ev, Ebv. cbn [Bool.eqb]. fold ce. fold J. rewrite Hend. apply cont5_done; assumption.
      * injection Hrun as <- <- <-. split; [|reflexivity].
        apply (branch_sim5 false c1 pre (cb ++ [jg]) tgt R g gv false R g He Hseg Hsmall Hne ltac:(lia) Hrel Hsimp).
        rewrite Ev. reflexivity.
  - (* IfElse *)
    destruct op; try discriminate Hc. apply andb_true_iff in Hc. destruct Hc as [Hc Hb].
    apply andb_true_iff in Hc. destruct Hc as [He Ha].
    cbn [run5 code5 stmt_gnames stmt_depth5] in *; cbv zeta in *.
    set (ce := code_expr5 T (lnames R) c1) in *.
    set (ca := code5 T (lnames R) (bytes pre + bytes ce + 5) c2) in *.
    set (else_at := bytes pre + bytes ce + 5 + bytes ca + 5) in *.
    set (cb := code5 T (lnames R) else_at c3) in *.
    set (jf := IGotoIfFalse (u32_to_i32 else_at)) in *.
    set (jg := IGoto (u32_to_i32 (else_at + bytes cb))) in *.
    assert (Hend : bytes (pre ++ ce ++ jf :: ca ++ jg :: cb) = else_at + bytes cb).
    { rewrite !bytes_app. cbn [bytes]. rewrite bytes_app. cbn [bytes].
      change (spanN jf) with 5. change (spanN jg) with 5. unfold else_at. lia. }
    assert (Hsmall : else_at + bytes cb < 2147483648) by (pose proof (seg_bound P P_small _ _ Hseg) as Hb'; rewrite Hend in Hb'; lia).
    assert (Hne : forall x, In x (expr_gnames (lnames R) c1) -> In x names /\ nm_find (handle_of_bytes x) T <> None)
      by (intros x Hx; apply Hnames, in_or_app; auto).
    assert (Hna : forall x, In x (stmt_gnames (lnames R) c2) -> In x names /\ nm_find (handle_of_bytes x) T <> None)
      by (intros x Hx; apply Hnames, in_or_app; right; apply in_or_app; auto).
    assert (Hnb : forall x, In x (stmt_gnames (lnames R) c3) -> In x names /\ nm_find (handle_of_bytes x) T <> None)
      by (intros x Hx; apply Hnames, in_or_app; right; apply in_or_app; auto).
    destruct (seg_mid P _ _ _ _ Hseg) as (_ & _ & Srest).
    destruct (seg_mid P _ _ _ _ Srest) as (Sa & Hcg & Sb).
    assert (Hpre1 : bytes (pre ++ ce ++ [jf]) = bytes pre + bytes ce + 5).
    { rewrite !bytes_app. cbn [bytes]. change (spanN jf) with 5. lia. }
    assert (Hpre2 : bytes ((pre ++ ce ++ [jf]) ++ ca ++ [jg]) = else_at).
    { rewrite bytes_app, Hpre1, bytes_app. cbn [bytes]. change (spanN jg) with 5. unfold else_at. lia. }
    destruct (ev (R ++ g) c1) as [v|] eqn:Ev.
    + destruct (RefSem.v_bool [] v) eqn:Ebv.
      * destruct (IH c2 R g okf R' g' Ha Hrun (pre ++ ce ++ [jf]) gv ltac:(rewrite Hpre1; exact Sa) Hna ltac:(lia) Hrel Hsimp) as [[Hs1 Hbody] Hl].
        rewrite Hpre1 in Hbody. fold ca in Hbody. split; [|exact Hl].
        apply (branch_sim5 false c1 pre (ca ++ jg :: cb) else_at R g gv okf R' g' He Hseg ltac:(lia) Hne ltac:(lia) Hrel Hsimp).
        rewrite Ev, Ebv. cbn [Bool.eqb]. fold ce. fold jf. rewrite Hend.
        split; [exact Hs1|]. destruct okf.
        -- destruct Hbody as (k & gv' & Hst & Hr'). exists (k + 1)%nat, gv'. split; [|exact Hr'].
           eapply steps_trans; [exact Hst|]. apply steps_1.
           apply (@ex_goto F bld P cap calls0 [] None [] _ (else_at + bytes cb) (lstack R') gv' Hcg Hsmall).
        -- exact Hbody.
      * destruct (IH c3 R g okf R' g' Hb Hrun ((pre ++ ce ++ [jf]) ++ ca ++ [jg]) gv ltac:(rewrite Hpre2; exact Sb) Hnb ltac:(lia) Hrel Hsimp) as [Hbody Hl].
        rewrite Hpre2 in Hbody. fold cb in Hbody.
        replace (((pre ++ ce ++ [jf]) ++ ca ++ [jg]) ++ cb) with (pre ++ ce ++ jf :: ca ++ jg :: cb) in Hbody
          by (rewrite <- ?app_assoc; cbn [app]; rewrite <- ?app_assoc; cbn [app]; reflexivity).
        split; [|exact Hl].
        apply (branch_sim5 false c1 pre (ca ++ jg :: cb) else_at R g gv okf R' g' He Hseg ltac:(lia) Hne ltac:(lia) Hrel Hsimp).
        rewrite Ev, Ebv. cbn [Bool.eqb]. fold ce. fold jf. exact Hbody.
    + injection Hrun as <- <- <-. split; [|reflexivity].
      apply (branch_sim5 false c1 pre (ca ++ jg :: cb) else_at R g gv false R g He Hseg ltac:(lia) Hne ltac:(lia) Hrel Hsimp).
      rewrite Ev. reflexivity.
  - (* Comment *)
    cbn [run5] in Hrun. injection Hrun as <- <- <-. cbn [code5]. rewrite app_nil_r.
    split; [apply cont5_done; assumption | reflexivity].
  - (* SetGlobalVar *)
    apply andb_true_iff in Hc. destruct Hc as [Hne He].
    cbn [run5 code5 stmt_gnames stmt_depth5] in *.
    set (ce := code_expr5 T (lnames R) c) in *.
    pose proof (seg_app_l _ _ _ _ Hseg) as Se. pose proof (seg_app_r _ _ _ _ Hseg) as Si.
    assert (Hne' : forall x, In x (expr_gnames (lnames R) c) -> In x names /\ nm_find (handle_of_bytes x) T <> None)
      by (intros x Hx; apply Hnames, in_or_app; auto).
    destruct (Hnames name) as [Hgin Hgfound]; [apply in_or_app; right; left; reflexivity|].
    pose proof (expr_on_locals c pre R g gv He Se Hne' Hrel Hsimp Hdepth) as Hex. fold ce in Hex.
    destruct (ev (R ++ g) c) as [v|] eqn:Ev.
    + injection Hrun as <- <- <-. split; [|reflexivity].
      pose proof (ev_simple _ _ _ Hsimp Ev) as Hv.
      unfold idT in *. destruct (nm_find (handle_of_bytes name) T) as [id|] eqn:Eid; [|congruence].
      assert (Hid : id < 4294967296) by (rewrite <- two32_eq; eapply T_lt; eauto).
      pose proof (seg_instr _ _ _ _ Si) as Hci.
      pose proof (@ex_set_global F bld P cap calls0 [] None [] _ id (lstack R) (to_vm v) gv Hci Hid) as Hset.
      split.
      { apply gsimple_app. split; [exact HsR | apply set_assoc_simple; assumption]. }
      exists (length ce + 1)%nat, (gset gv id (to_vm v)). split; [|apply grel_set; auto].
      eapply steps_trans; [exact Hex|]. apply steps_1.
      rewrite app_assoc, bytes_snoc. change (spanN (ISetGlobalVar id)) with 5. exact Hset.
    + injection Hrun as <- <- <-. split; [|reflexivity].
      destruct Hex as (k & c1 & nm & Hst & Herr & Hg). eapply cont5_err; eauto.
  - (* SetVar of an existing local *)
    apply andb_true_iff in Hc. destruct Hc as [Hc He]. apply andb_true_iff in Hc. destruct Hc as [Hx Hm].
    cbn [run5 code5 stmt_gnames stmt_depth5] in *.
    set (ce := code_expr5 T (lnames R) c) in *.
    pose proof (seg_app_l _ _ _ _ Hseg) as Se. pose proof (seg_app_r _ _ _ _ Hseg) as Si.
    pose proof (expr_on_locals c pre R g gv He Se Hnames Hrel Hsimp Hdepth) as Hex. fold ce in Hex.
    destruct (lmem_some _ _ Hm) as [old Eold].
    destruct (slot_local name R old Eold) as (i & Hi & Hlt & _ & Hupd).
    destruct (ev (R ++ g) c) as [v|] eqn:Ev.
    + injection Hrun as <- <- <-.
      pose proof (ev_simple _ _ _ Hsimp Ev) as Hv.
      unfold sets_local. change (map fst R) with (lnames R). rewrite Hm.
      destruct (Hupd v) as [Hu Hl]. split; [|exact Hl].
      unfold set_slot in *. rewrite Hi in *.
      pose proof (seg_instr _ _ _ _ Si) as Hci.
      assert (Hi32 : N.of_nat i < 4294967296) by (rewrite lstack_length in Hlt; unfold cap, stack_size in *; lia).
      pose proof (@ex_set_local F bld P cap calls0 [] None [] main_frame0 _ (N.of_nat i) (lstack R) (to_vm v) gv Hci Hi32) as Hset.
      rewrite Nat2N.id in Hset. specialize (Hset ltac:(lia) ltac:(rewrite lstack_length; lia)).
      replace (i =? length (lstack R))%nat with false in Hset by (symmetry; apply Nat.eqb_neq; lia).
      rewrite Hu in Hset.
      split.
      { apply gsimple_app. split; [apply set_assoc_simple; assumption | exact Hsg]. }
      exists (length ce + 1)%nat, gv. split; [|exact Hrel].
      eapply steps_trans; [exact Hex|]. apply steps_1.
      rewrite app_assoc, bytes_snoc. change (spanN (ISetLocalVar (N.of_nat i))) with 5. exact Hset.
    + injection Hrun as <- <- <-. split; [|reflexivity].
      destruct Hex as (k & c1 & nm & Hst & Herr & Hg). eapply cont5_err; eauto.
  - (* Composite *)
    rewrite code5_composite in *. rewrite run5_composite in Hrun.
    apply (seq_sim5 n IH cards R g okf R' g' Hc Hrun pre gv Hseg Hnames); [|exact Hrel | exact Hsimp].
    intros c0 H0. pose proof (stmt_depth5_composite ty cards c0 H0). lia.
Qed.


(* ------------------------------------------------------------------ the cards of main *)
Lemma names_next_length Ln c : (length Ln <= length (names_next Ln c) <= S (length Ln))%nat.
Proof.
  destruct c; cbn [names_next]; try lia.
  match goal with |- context [lmem ?x Ln] => destruct (lmem x Ln) end; cbn [length]; lia.
Qed.
Lemma names_end_length cards : forall Ln, (length Ln <= length (names_end Ln cards))%nat.
Proof.
  induction cards as [|c r IH]; intros Ln; cbn [names_end]; [lia|].
  etransitivity; [|apply IH]. apply names_next_length.
Qed.

Lemma top_sim5 n c R g okf R' g' :
  top5 (lnames R) c = true -> run5 n R g c = Some (okf, R', g') ->
  forall pre gv,
    seg' pre (code5 T (lnames R) (bytes pre) c) ->
    (forall x, In x (stmt_gnames (lnames R) c) -> In x names /\ nm_find (handle_of_bytes x) T <> None) ->
    (S (S (length R) + stmt_depth5 c) < cap)%nat -> grel' g gv -> gsimple (R ++ g) ->
    cont5 (bytes pre) R gv (bytes (pre ++ code5 T (lnames R) (bytes pre) c)) okf R' g' /\
    (okf = true -> lnames R' = names_next (lnames R) c).
Proof.
  intros Hc Hrun pre gv Hseg Hnames Hdepth Hrel Hsimp.
  assert (Hstmt : stmt5 (lnames R) c = true -> names_next (lnames R) c = lnames R ->
                  cont5 (bytes pre) R gv (bytes (pre ++ code5 T (lnames R) (bytes pre) c)) okf R' g' /\
                  (okf = true -> lnames R' = names_next (lnames R) c)).
  { intros H5 Hnx. destruct (sim5 n c R g okf R' g' H5 Hrun pre gv Hseg Hnames ltac:(lia) Hrel Hsimp) as [A B].
    split; [exact A|]. intros _. rewrite Hnx. exact B. }
  destruct c; try (apply Hstmt; [exact Hc | reflexivity]).
  (* SetVar *)
  cbn [top5] in Hc. apply andb_true_iff in Hc. destruct Hc as [Hx He].
  destruct (lmem name (lnames R)) eqn:Hm.
  - apply Hstmt; [cbn [stmt5]; rewrite Hx, Hm, He; reflexivity | cbn [names_next]; rewrite Hm; reflexivity].
  - (* the declaration *)
    destruct n as [|n]; [discriminate|]. cbn [run5 code5 stmt_gnames stmt_depth5 names_next] in *. rewrite Hm.
    pose proof Hsimp as Hsimp2. apply gsimple_app in Hsimp2. destruct Hsimp2 as [HsR Hsg].
    set (ce := code_expr5 T (lnames R) c) in *.
    pose proof (seg_app_l _ _ _ _ Hseg) as Se. pose proof (seg_app_r _ _ _ _ Hseg) as Si.
    pose proof (expr_on_locals c pre R g gv He Se Hnames Hrel Hsimp ltac:(lia)) as Hex. fold ce in Hex.
    destruct (lmem_none _ _ Hm) as [_ Hs]. unfold set_slot in *. rewrite Hs in *.
    destruct (ev (R ++ g) c) as [v|] eqn:Ev.
    + injection Hrun as <- <- <-.
      pose proof (ev_simple _ _ _ Hsimp Ev) as Hv.
      unfold sets_local. change (map fst R) with (lnames R). rewrite Hm.
      split; [|intros _; reflexivity].
      pose proof (seg_instr _ _ _ _ Si) as Hci. rewrite lnames_length in *.
      assert (Hi32 : N.of_nat (length R) < 4294967296) by (unfold cap, stack_size in *; lia).
      pose proof (@ex_set_local F bld P cap calls0 [] None [] main_frame0 _ (N.of_nat (length R)) (lstack R) (to_vm v) gv Hci Hi32) as Hset.
      rewrite Nat2N.id, lstack_length in Hset. specialize (Hset ltac:(lia) ltac:(lia)).
      rewrite Nat.eqb_refl in Hset. rewrite <- lstack_cons with (x := name) in Hset.
      split.
      { cbn [app]. constructor; [exact Hv | exact Hsimp]. }
      exists (length ce + 1)%nat, gv. split; [|exact Hrel].
      eapply steps_trans; [exact Hex|]. apply steps_1.
      rewrite app_assoc, bytes_snoc. change (spanN (ISetLocalVar _)) with 5. exact Hset.
    + injection Hrun as <- <- <-. split; [|discriminate].
      destruct Hex as (k & c1 & nm & Hst & Herr & Hg). eapply cont5_err; eauto.
Qed.

Lemma main_sim5 n : forall cards R g okf R' g',
  cards5 (lnames R) cards = true -> runs5 n R g cards = Some (okf, R', g') ->
  forall pre gv,
    seg' pre (code_main5 T (lnames R) (bytes pre) cards) ->
    (forall x, In x (main_gnames (lnames R) cards) -> In x names /\ nm_find (handle_of_bytes x) T <> None) ->
    (forall c, In c cards -> (S (S (length (names_end (lnames R) cards) + stmt_depth5 c)) < cap)%nat) ->
    grel' g gv -> gsimple (R ++ g) ->
    cont5 (bytes pre) R gv (bytes (pre ++ code_main5 T (lnames R) (bytes pre) cards)) okf R' g' /\
    (okf = true -> lnames R' = names_end (lnames R) cards).
Proof.
  induction cards as [|c r IH]; intros R g okf R' g' Hc Hrun pre gv Hseg Hnames Hd Hrel Hsimp.
  - cbn [runs5] in Hrun. injection Hrun as <- <- <-. cbn [code_main5 names_end]. rewrite app_nil_r.
    split; [apply cont5_done; assumption | reflexivity].
  - cbn [cards5] in Hc. apply andb_true_iff in Hc. destruct Hc as [Hc Hcr].
    cbn [runs5 code_main5 main_gnames names_end] in *. cbv zeta in *.
    set (cc := code5 T (lnames R) (bytes pre) c) in *.
    assert (Hnc : forall x, In x (stmt_gnames (lnames R) c) -> In x names /\ nm_find (handle_of_bytes x) T <> None)
      by (intros x Hx; apply Hnames, in_or_app; auto).
    assert (Hnr : forall x, In x (main_gnames (names_next (lnames R) c) r) -> In x names /\ nm_find (handle_of_bytes x) T <> None)
      by (intros x Hx; apply Hnames, in_or_app; auto).
    assert (Eb : bytes (pre ++ cc) = bytes pre + bytes cc) by apply bytes_app.
    pose proof (names_end_length r (names_next (lnames R) c)) as Hlen1.
    pose proof (names_next_length (lnames R) c) as Hlen0. rewrite lnames_length in Hlen0.
    assert (Hdc : (S (S (length R) + stmt_depth5 c) < cap)%nat).
    { specialize (Hd c (or_introl eq_refl)). lia. }
    destruct (run5 n R g c) as [[[[|] R1] g1]|] eqn:E1; try discriminate.
    + destruct (top_sim5 n c R g true R1 g1 Hc E1 pre gv (seg_app_l _ _ _ _ Hseg) Hnc Hdc Hrel Hsimp) as [[Hs1 (k1 & gv1 & Hst1 & Hr1)] Hl1].
      specialize (Hl1 eq_refl). fold cc in Hst1.
      destruct (IH R1 g1 okf R' g' ltac:(rewrite Hl1; exact Hcr) Hrun (pre ++ cc) gv1
                   ltac:(rewrite Hl1, Eb; apply seg_app_r; exact Hseg) ltac:(rewrite Hl1; exact Hnr)
                   ltac:(rewrite Hl1; intros c0 H0; apply Hd; right; exact H0) Hr1 Hs1) as [H2 Hl2].
      rewrite Hl1, Eb in H2. rewrite <- app_assoc in H2. split; [|rewrite Hl1 in Hl2; exact Hl2].
      rewrite Eb in Hst1. eapply cont5_prepend; [exact Hst1 | exact H2].
    + injection Hrun as <- <- <-. split; [|discriminate].
      destruct (top_sim5 n c R g false R1 g1 Hc E1 pre gv (seg_app_l _ _ _ _ Hseg) Hnc Hdc Hrel Hsimp) as [[Hs1 H1] _].
      split; [exact Hs1|]. exact H1.
Qed.

(* the end of main: one Pop per local *)
Lemma pops_steps l : forall pre gv,
  seg' pre (repeat IPop (length l)) ->
  steps' (length l) (bytes pre, l, gv) (bytes (pre ++ repeat IPop (length l)), [], gv).
Proof.
  induction l as [|v l IH] using rev_ind; intros pre gv Hseg.
  - cbn [length repeat]. rewrite app_nil_r. constructor.
  - rewrite app_length in *. cbn [length] in *. rewrite Nat.add_1_r in *. cbn [repeat] in *.
    pose proof (seg_instr _ _ _ _ Hseg) as Hc.
    change (IPop :: repeat IPop (length l)) with ([IPop] ++ repeat IPop (length l)) in Hseg.
    apply seg_app_r in Hseg.
    econstructor; [apply (@ex_pop F bld P cap calls0 [] None [] (bytes pre) l v gv Hc)|].
    specialize (IH (pre ++ [IPop]) gv Hseg). rewrite bytes_snoc in IH. change (spanN IPop) with 1 in IH.
    rewrite <- app_assoc in IH. exact IH.
Qed.

End Run5.

(* ------------------------------------------------------------------ the theorem *)
Theorem compile_correct_f5 F bld M B fuel host o :
  in_f5 M = true ->
  depth_ok5 (main_cards M) = true ->
  compile M default_options = COk B ->
  N.of_nat (length (Compiler.p_ids B)) < two32 ->
  N.of_nat (length (Compiler.p_bytecode B)) < 2147483648 ->
  RefSem.eval_program fuel M host = RefSem.PObs o ->
  exists N0 : nat, forall budget : nat, (N0 <= budget)%nat ->
    let r := Vm.run F bld budget (C15Link.to_vm B) fresh_state in
    vm_kind (fst r) = Some (RefSem.ob_kind o) /\
    forall n, no_collision (main_gnames [] (main_cards M)) n ->
      option_map vm_tree (read_var_by_name (C15Link.to_vm B) (snd r) n) = RefSem.assoc n (RefSem.ob_globals o).
Proof.
  intros HM Hdepth HB Hlen Hsmall Href.
  destruct (compile_f5_shape M B HM HB Hlen) as (rest & Hbc & Hnames & Tinj & Tlt & Hinj).
  destruct (eval_program_f5 fuel M host o HM Href) as (nf & Rf & g & Hrun & Hkind & HsR & Hgs & Hglob).
  pose proof (in_f5_cards M HM) as Hcards.
  set (T := Compiler.p_ids B) in *. set (cards := main_cards M) in *. set (names := main_gnames [] cards) in *.
  set (P := C15Link.to_vm B).
  set (cm := code_main5 T [] 0 cards) in *.
  set (npop := length (names_end [] cards)) in *.
  assert (Hcode : p_code P = encode (cm ++ repeat IPop npop ++ IExit :: rest)).
  { change (p_code P) with (Compiler.p_bytecode B). rewrite Hbc. unfold code_all5. fold cm npop.
    rewrite <- !app_assoc. reflexivity. }
  assert (Psmall : code_len P < 2147483648) by exact Hsmall.
  assert (Hseg : seg P [] (code_main5 T (lnames []) (bytes []) cards)) by (eexists; exact Hcode).
  assert (Hnm : forall x, In x (main_gnames (lnames []) cards) -> In x names /\ nm_find (handle_of_bytes x) T <> None)
    by (intros x Hx; split; [exact Hx | apply Hnames, Hx]).
  assert (Hrel0 : grel T names [] []).
  { intros x _. unfold gread. cbn [RefSem.assoc option_map].
    destruct (nm_find (handle_of_bytes x) T) as [id|]; [|reflexivity]. destruct (N.to_nat id); reflexivity. }
  assert (Hread : forall s' gv', st_globals s' = gv' -> grel T names g gv' ->
            forall x, no_collision names x ->
            option_map vm_tree (read_var_by_name P (set_calls s' []) x) = RefSem.assoc x (RefSem.ob_globals o)).
  { intros s' gv' Hg' Hrel x Hx. rewrite Hglob, assoc_map_tree, (Hrel x Hx). f_equal.
    unfold read_var_by_name, gread. cbn [st_globals set_calls]. rewrite Hg', assoc_nm_find. reflexivity. }
  assert (Hdep : forall c, In c cards -> (S (S (length (names_end (lnames []) cards) + stmt_depth5 c)) < cap)%nat).
  { intros c Hin. unfold depth_ok5 in Hdepth. rewrite forallb_forall in Hdepth. specialize (Hdepth c Hin).
    apply Nat.ltb_lt in Hdepth. exact Hdepth. }
  destruct (main_sim5 F bld P T names Tlt Tinj Hinj Psmall nf cards [] [] _ Rf g Hcards Hrun [] []
                      Hseg Hnm Hdep Hrel0 (Forall_nil _)) as [[_ Hsim] Hln].
  change (bytes []) with 0 in Hsim. change (lnames []) with (@nil str) in *. fold cm in Hsim.
  change (lstack []) with (@nil value) in Hsim.
  destruct (RefSem.ob_kind o) as [|kk] eqn:Ek.
  - destruct Hsim as (k & gv' & Hsteps & Hrel).
    specialize (Hln eq_refl).
    assert (Hnp : length (lstack Rf) = npop) by (rewrite lstack_length, <- (lnames_length Rf), Hln; reflexivity).
    assert (Spop : seg P cm (repeat IPop (length (lstack Rf)))) by (rewrite Hnp; eexists; exact Hcode).
    pose proof (pops_steps F bld P (lstack Rf) cm gv' Spop) as Hpops. rewrite Hnp in Hpops.
    pose proof (steps_trans Hsteps Hpops) as Hall.
    exists (k + npop + 2)%nat. intros budget Hbud r.
    set (re := run_at F bld P false (N.of_nat budget) 129).
    set (s2 := set_rem (set_calls fresh_state calls0) (N.of_nat budget)).
    assert (Hr : r = finish P (loop F bld P re budget 0 s2)).
    { subst r. unfold run, run_gen.
      change (push_frame fresh_state (mkFrame 0 0 0 None)) with (Some (set_calls fresh_state calls0)).
      change max_depth with (S 129). cbv beta iota zeta. rewrite run_at_S. cbn [st_rem set_rem]. rewrite Nat2N.id. reflexivity. }
    clearbody r. subst r.
    pose proof (St_entry (N.of_nat budget)) as HS2. fold s2 in HS2.
    destruct (loop_steps re Hall (budget - (k + npop)) HS2) as (s' & HS' & El); [cbn [fst snd]; lia|].
    cbn [fst snd] in HS', El. replace (k + npop + (budget - (k + npop)))%nat with budget in El by lia.
    assert (Hex : code_at P (bytes (cm ++ repeat IPop npop)) IExit).
    { eapply code_at_encode. rewrite Hcode, <- app_assoc. reflexivity. }
    replace (budget - (k + npop))%nat with (S (budget - (k + npop) - 1)) in El by lia.
    destruct (loop_exit F bld re (budget - (k + npop) - 1) HS' Hex) as (s'' & Eex & _ & Hg''); [lia|].
    rewrite Eex in El.
    rewrite El. cbn [finish outcome_of fst snd vm_kind]. split; [reflexivity|].
    eapply Hread; eauto.
  - destruct Hkind as [Hk|Hk]; [discriminate|]. injection Hk as ->.
    destruct Hsim as (k & c1 & nm & Hsteps & Herr & Hrel).
    exists (k + 2)%nat. intros budget Hbud r.
    set (re := run_at F bld P false (N.of_nat budget) 129).
    set (s2 := set_rem (set_calls fresh_state calls0) (N.of_nat budget)).
    assert (Hr : r = finish P (loop F bld P re budget 0 s2)).
    { subst r. unfold run, run_gen.
      change (push_frame fresh_state (mkFrame 0 0 0 None)) with (Some (set_calls fresh_state calls0)).
      change max_depth with (S 129). cbv beta iota zeta. rewrite run_at_S. cbn [st_rem set_rem]. rewrite Nat2N.id. reflexivity. }
    clearbody r. subst r.
    pose proof (St_entry (N.of_nat budget)) as HS2. fold s2 in HS2.
    destruct (loop_steps re Hsteps (budget - k) HS2) as (s' & HS' & El); [cbn [fst snd]; lia|].
    cbn [fst snd] in El. replace (k + (budget - k))%nat with budget in El by lia.
    replace (budget - k)%nat with (S (budget - k - 1)) in El by lia.
    destruct (@loop_err F bld P _ _ _ _ _ re (budget - k - 1) c1 _ s' _ Herr HS') as (s'' & Eerr & Hg''); [lia|].
    rewrite Eerr in El.
    rewrite El. cbn [finish outcome_of fst snd vm_kind kind_of_err]. split; [reflexivity|].
    eapply Hread; eauto.
Qed.
