From Coq Require Import ZArith NArith List Bool Lia Reals Lra.
From Coq Require Import Floats.SpecFloat.
From Flocq Require Import Core.Core IEEE754.Binary IEEE754.Bits.
From Flocq Require IEEE754.BinarySingleNaN.
From Cao Require Import CheckUtil Bits Value ValueProofs.

(* The statements of this file speak about real numbers (Flocq's B2R, Rcompare): they depend on
   the axioms of Coq's Reals library.  Everything in ValueProofs.v is axiom-free. *)

Definition f64_of_Z (i : Z) : f64 :=
  binary_normalize 53 1024 (eq_refl _) (eq_refl _) BinarySingleNaN.mode_NE i 0 false.

Lemma sf_of_Z_normalize i : sf_of_Z i = sf (f64_of_Z i).
Proof.
  unfold sf, f64_of_Z, binary_normalize.
  rewrite <- B2SF_B2BSN, B2BSN_BSN2B'.
  destruct i; cbn [sf_of_Z BinarySingleNaN.binary_normalize]; try reflexivity;
    rewrite BinarySingleNaN.B2SF_SF2B; reflexivity.
Qed.

(* before d3f91fb the integer was rounded to f64 first: 2^53+1 <= 2^53.0 held (finding A-30) *)
Definition r_two53 : f64 := B754_finite 53 1024 false 4503599627370496 1 eq_refl.

Theorem tcmp_legacy_mixed_refuted :
  exists i r, is_finite 53 1024 r = true /\ (Z.abs i <= 2 ^ 53 + 1)%Z /\
    tcmp_legacy (TInt i) (TReal r) = Some Eq /\
    Rcompare (IZR i) (B2R 53 1024 r) = Gt /\
    tcmp (TInt i) (TReal r) = Some Gt.
Proof.
  exists (2 ^ 53 + 1)%Z, r_two53. split; [reflexivity|]. split; [vm_compute; discriminate|].
  split; [vm_compute; reflexivity|]. split; [|vm_compute; reflexivity].
  apply Rcompare_Gt. unfold B2R, r_two53, F2R. cbn [Fnum Fexp cond_Zopp bpow radix2 radix_val Z.pow_pos Pos.iter Z.mul Pos.mul].
  change (2 ^ 53 + 1)%Z with 9007199254740993%Z. lra.
Qed.

Theorem tcmp_real_real_numeric : forall f g,
  is_finite 53 1024 f = true -> is_finite 53 1024 g = true ->
  tcmp (TReal f) (TReal g) = Some (Rcompare (B2R 53 1024 f) (B2R 53 1024 g)).
Proof. intros. rewrite tcmp_real_real. apply Bcompare_correct; assumption. Qed.

(* equality of finite reals is equality of the numbers they denote *)
Theorem teq_real_real_numeric : forall f g,
  is_finite 53 1024 f = true -> is_finite 53 1024 g = true ->
  teq (TReal f) (TReal g) = Req_bool (B2R 53 1024 f) (B2R 53 1024 g).
Proof.
  intros f g Hf Hg. rewrite teq_real_real, Bcompare_correct by assumption.
  unfold Req_bool. destruct (Rcompare (B2R 53 1024 f) (B2R 53 1024 g)); reflexivity.
Qed.

(* the integer-only oracle of the checker for Integer/Real comparisons is the numeric order *)
Theorem Z_cmp_sf_correct : forall i r, is_finite 53 1024 r = true ->
  Z_cmp_sf i (sf r) = Some (Rcompare (IZR i) (B2R 53 1024 r)).
Proof.
  intros i r Hr. destruct r as [s|s|s pl H|s m e H]; try discriminate; cbn [sf B2SF Z_cmp_sf B2R].
  - rewrite Rcompare_IZR. reflexivity.
  - f_equal. unfold F2R. cbn [Fnum Fexp].
    replace (cond_Zopp s (Zpos m)) with (if s then Zneg m else Zpos m) by (destruct s; reflexivity).
    set (v := if s then Zneg m else Zpos m).
    destruct e as [|p|p].
    + cbn [bpow]. rewrite Rmult_1_r, Rcompare_IZR. reflexivity.
    + cbn [bpow]. rewrite <- mult_IZR, Rcompare_IZR.
      rewrite Zpower_pos_powerRZ || idtac. reflexivity.
    + cbn [bpow]. change (Zpos p) with (Zpos p).
      rewrite <- (Rcompare_mult_r (IZR (Z.pow_pos radix2 p))).
      * rewrite Rmult_assoc, Rinv_l, Rmult_1_r, <- mult_IZR, Rcompare_IZR; [reflexivity|].
        apply not_0_IZR. apply Z.neq_sym, Z.lt_neq, Zpower_pos_gt_0. reflexivity.
      * apply IZR_lt, Zpower_pos_gt_0. reflexivity.
Qed.

(* Integer against Real is the numeric order, for every i64 and every finite real; the same
   for whatever counts as an integer: nil as 0, a string or table as its length *)
Theorem tcmp_mixed : forall i r,
  (- two63 <= i < two63)%Z -> is_finite 53 1024 r = true ->
  tcmp (TInt i) (TReal r) = Some (Rcompare (IZR i) (B2R 53 1024 r)).
Proof.
  intros i r Hi Hr. rewrite (proj1 (tcmp_int_real_exact i r Hi)). apply Z_cmp_sf_correct, Hr.
Qed.

Theorem tcmp_mixed_any : forall a r,
  is_real a = false -> (- two63 <= to_i64 a < two63)%Z -> is_finite 53 1024 r = true ->
  tcmp a (TReal r) = Some (Rcompare (IZR (to_i64 a)) (B2R 53 1024 r)) /\
  tcmp (TReal r) a = Some (Rcompare (B2R 53 1024 r) (IZR (to_i64 a))).
Proof.
  intros a r Ha Hi Hr.
  assert (E : tcmp a (TReal r) = cmp_int_real (to_i64 a) (sf r)) by (destruct a; try discriminate; reflexivity).
  assert (E' : tcmp (TReal r) a = opp_oc (cmp_int_real (to_i64 a) (sf r))) by (destruct a; try discriminate; reflexivity).
  rewrite E, E', cmp_int_real_exact, Z_cmp_sf_correct by assumption. split; [reflexivity|].
  cbn [opp_oc]. rewrite (Rcompare_sym (B2R 53 1024 r)). reflexivity.
Qed.
