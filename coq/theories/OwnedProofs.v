(* C11, OwnedValue conversions (Owned.v): Vm::insert_value followed by OwnedValue::try_from is the identity on
   owned values whose tables have admissible, pairwise distinct keys; nothing that existed in the heap changes;
   a value read out of one heap and inserted into another has the same owned form and the same canonical tree.
   Generic in the floating point instance [fops] (no Flocq, no axioms). *)
From Coq Require Import NArith ZArith List Lia Bool.
From Cao Require Import ListUtil Bits Stacks Vm VmTableProofs VmTableKeys Owned.
Import ListNotations.

Arguments N.add : simpl never.
Arguments N.sub : simpl never.
Arguments N.mul : simpl never.
Arguments N.of_nat : simpl never.
Arguments N.to_nat : simpl never.

(* ------------------------------------------------------------------ *)
(* owned: induction principle, unfoldings of the nested fixpoints      *)
(* ------------------------------------------------------------------ *)

Fixpoint owned_ind' (P : owned -> Prop)
  (HN : P ONil) (HI : forall z, P (OInt z)) (HR : forall r, P (OReal r)) (HS : forall s, P (OStr s))
  (HT : forall l, Forall (fun kv => P (fst kv) /\ P (snd kv)) l -> P (OTable l)) (o : owned) : P o :=
  match o with
  | ONil => HN
  | OInt z => HI z
  | OReal r => HR r
  | OStr s => HS s
  | OTable l =>
      HT l ((fix go (l : list (owned * owned)) : Forall (fun kv => P (fst kv) /\ P (snd kv)) l :=
               match l with
               | [] => Forall_nil _
               | (k, v) :: r =>
                   Forall_cons (k, v) (conj (owned_ind' P HN HI HR HS HT k) (owned_ind' P HN HI HR HS HT v)) (go r)
               end) l)
  end.

Lemma Forall2_imp {A B} (P Q : A -> B -> Prop) l1 l2 :
  (forall a b, P a b -> Q a b) -> Forall2 P l1 l2 -> Forall2 Q l1 l2.
Proof. intros H X. induction X; constructor; auto. Qed.

Definition entry_ok (F : fops) (kv : owned * owned) : bool := okey_ok F (fst kv) && owned_ok F (snd kv).

Lemma owned_ok_table F l :
  owned_ok F (OTable l) = forallb (entry_ok F) l && okeys_distinct F (map fst l).
Proof.
  cbn [owned_ok]. f_equal. induction l as [|[k v] l IH]; [reflexivity|].
  cbn [forallb]. unfold entry_ok at 1. cbn [fst snd]. rewrite IH. reflexivity.
Qed.

Definition entry_depth (kv : owned * owned) : nat := S (Nat.max (odepth (fst kv)) (odepth (snd kv))).

Lemma odepth_table l : odepth (OTable l) = list_max (map entry_depth l).
Proof.
  cbn [odepth]. induction l as [|[k v] l IH]; [reflexivity|].
  cbn [map]. change (list_max (entry_depth (k, v) :: map entry_depth l))
      with (Nat.max (entry_depth (k, v)) (list_max (map entry_depth l))).
  unfold entry_depth at 1. cbn [fst snd]. rewrite IH. reflexivity.
Qed.

Lemma odepth_table_lt l d : odepth (OTable l) <= d <->
  Forall (fun kv => odepth (fst kv) < d /\ odepth (snd kv) < d) l.
Proof.
  rewrite odepth_table. induction l as [|[k v] l IH]; cbn [map].
  - cbn. split; [intros; constructor | intros; lia].
  - change (list_max (entry_depth (k, v) :: map entry_depth l))
      with (Nat.max (entry_depth (k, v)) (list_max (map entry_depth l))).
    unfold entry_depth at 1. cbn [fst snd]. split.
    + intros H. assert (H' : list_max (map entry_depth l) <= d) by lia.
      apply IH in H'. constructor; [cbn [fst snd]; lia | exact H'].
    + intros Hl. inversion Hl as [|? ? (H1 & H2) Hl']; subst. cbn [fst snd] in *.
      assert (H' : list_max (map entry_depth l) <= d) by (apply IH; assumption). lia.
Qed.

Lemma otree_table F l :
  otree F (OTable l) = TTable (map (fun kv => (otree F (fst kv), otree F (snd kv))) l).
Proof.
  cbn [otree]. f_equal. induction l as [|[k v] l IH]; [reflexivity|].
  cbn [map fst snd]. rewrite IH. reflexivity.
Qed.

Section OwnedProofs.
Variable F : fops.

Notation veq := (veq0 F).
Notation dom := (vkey F).

Lemma insert_owned_table h l :
  insert_owned F h (OTable l) =
  insert_rows F (N.of_nat (length h)) l (h ++ [Vm.OTable (mkTable [] [])]).
Proof.
  cbn [insert_owned halloc]. generalize (h ++ [Vm.OTable (mkTable [] [])]) as h1.
  generalize (N.of_nat (length h)) as a. intros a.
  induction l as [|[k v] l IH]; intros h1; [reflexivity|].
  cbn [insert_rows]. destruct (insert_owned F h1 k) as [h2 kv| |]; try reflexivity.
  destruct (insert_owned F h2 v) as [h3 vv| |]; try reflexivity.
  destruct (hget h3 a) as [[t| | | | |]|]; try reflexivity.
  destruct (tinsert (veq h3) t kv vv); [apply IH | reflexivity].
Qed.

(* ------------------------------------------------------------------ *)
(* heaps: preservation of what exists                                  *)
(* ------------------------------------------------------------------ *)

(* every cell of h is still there, unchanged *)
Definition hpres (h h' : heap) : Prop :=
  length h <= length h' /\ forall b x, hget h b = Some x -> hget h' b = Some x.
(* ... except possibly cell a *)
Definition lstep (a : N) (h h' : heap) : Prop :=
  length h <= length h' /\ forall b x, b <> a -> hget h b = Some x -> hget h' b = Some x.
(* kinds are kept and the cells from lo on are unchanged *)
Definition hframe (lo : nat) (h h' : heap) : Prop :=
  hext h h' /\ forall b x, lo <= N.to_nat b -> hget h b = Some x -> hget h' b = Some x.

Lemma hpres_refl h : hpres h h.
Proof. split; auto. Qed.
Lemma hpres_trans h1 h2 h3 : hpres h1 h2 -> hpres h2 h3 -> hpres h1 h3.
Proof. intros (L1 & P1) (L2 & P2). split; [lia | auto]. Qed.
Lemma hpres_alloc h o : hpres h (h ++ [o]).
Proof. split; [rewrite app_length; lia | intros b x; apply hget_app_old]. Qed.
Lemma hpres_hext h h' : hpres h h' -> hext h h'.
Proof. intros (_ & Hp) a o H. exists o. split; [apply Hp, H | apply same_kind_refl]. Qed.
Lemma hpres_hframe lo h h' : hpres h h' -> hframe lo h h'.
Proof. intros Hp. split; [apply hpres_hext, Hp | intros b x _; apply Hp]. Qed.
Lemma hpres_lstep a h h' : hpres h h' -> lstep a h h'.
Proof. intros (L & Hp). split; [exact L | intros b x _; apply Hp]. Qed.
Lemma lstep_trans a h1 h2 h3 : lstep a h1 h2 -> lstep a h2 h3 -> lstep a h1 h3.
Proof. intros (L1 & P1) (L2 & P2). split; [lia | auto]. Qed.

Lemma hget_some_lt (h : heap) a x : hget h a = Some x -> N.to_nat a < length h.
Proof. unfold hget. intros H. apply nth_error_Some. rewrite H. discriminate. Qed.

Lemma hpres_prefix h : forall h', hpres h h' -> exists ext, h' = h ++ ext.
Proof.
  induction h as [|x h IH]; intros h' (L & Hp); [exists h'; reflexivity|].
  destruct h' as [|y h']; [cbn in L; lia|].
  assert (Hy : y = x).
  { specialize (Hp 0%N x eq_refl). unfold hget in Hp. change (N.to_nat 0) with 0%nat in Hp. cbn [nth_error] in Hp. congruence. }
  subst y. destruct (IH h') as (ext & ->).
  - split; [cbn in L; lia|]. intros b z Hb. specialize (Hp (N.succ b) z).
    unfold hget in *. rewrite N2Nat.inj_succ in Hp. cbn [nth_error] in Hp. auto.
  - exists ext. reflexivity.
Qed.

(* ------------------------------------------------------------------ *)
(* "value v of heap h is the owned value o, built from cells >= lo"    *)
(* ------------------------------------------------------------------ *)

Fixpoint repr (lo : nat) (h : heap) (v : value) (o : owned) {struct o} : Prop :=
  match o with
  | ONil => v = VNil
  | OInt z => v = VInt z
  | OReal r => v = VReal r
  | OStr s => exists a, v = VObj a /\ lo <= N.to_nat a /\ hget h a = Some (Vm.OStr s)
  | OTable l =>
      exists a t, v = VObj a /\ lo <= N.to_nat a /\ hget h a = Some (Vm.OTable t) /\
        twf (veq h) (dom h) t /\
        (fix rows (l : list (owned * owned)) (m : list (value * value)) {struct l} : Prop :=
           match l, m with
           | [], [] => True
           | (k, w) :: l', (kv, wv) :: m' => repr lo h kv k /\ repr lo h wv w /\ rows l' m'
           | _, _ => False
           end) l (tmap t)
  end.

Definition repr_entry lo h (kv : value * value) (oo : owned * owned) : Prop :=
  repr lo h (fst kv) (fst oo) /\ repr lo h (snd kv) (snd oo).

Lemma repr_table lo h v l :
  repr lo h v (OTable l) <->
  exists a t, v = VObj a /\ lo <= N.to_nat a /\ hget h a = Some (Vm.OTable t) /\
    twf (veq h) (dom h) t /\ Forall2 (repr_entry lo h) (tmap t) l.
Proof.
  cbn [repr].
  assert (X : forall l m,
    (fix rows (l : list (owned * owned)) (m : list (value * value)) {struct l} : Prop :=
           match l, m with
           | [], [] => True
           | (k, w) :: l', (kv, wv) :: m' => repr lo h kv k /\ repr lo h wv w /\ rows l' m'
           | _, _ => False
           end) l m <-> Forall2 (repr_entry lo h) m l).
  { clear. induction l as [|[k w] l IH]; intros [|[kv wv] m].
    - split; [constructor | auto].
    - split; [contradiction | intros H; inversion H].
    - split; [contradiction | intros H; inversion H].
    - split.
      + intros (H1 & H2 & H3). constructor; [split; assumption | apply IH, H3].
      + intros H. inversion H as [|? ? ? ? (H1 & H2) H3]; subst. cbn [fst snd] in *.
        split; [exact H1|]. split; [exact H2 | apply IH, H3]. }
  split; intros (a & t & Hv & Hlo & Ha & Hw & Hr); exists a, t;
    (split; [exact Hv|]); (split; [exact Hlo|]); (split; [exact Ha|]); (split; [exact Hw|]); apply X, Hr.
Qed.

Lemma repr_frame lo h h' : hframe lo h h' -> forall o v, repr lo h v o -> repr lo h' v o.
Proof.
  intros (X & Hp). induction o as [| | | |l IH] using owned_ind'; intros v; try (cbn [repr]; tauto).
  - cbn [repr]. intros (a & Hv & Hlo & Ha). exists a. auto.
  - rewrite !repr_table. intros (a & t & Hv & Hlo & Ha & Hw & Hr). exists a, t.
    split; [exact Hv|]. split; [exact Hlo|]. split; [apply Hp; assumption|].
    split; [eapply twf_ext; eauto|].
    revert IH Hr. generalize (tmap t) as m. clear. intros m IH Hr. revert IH.
    induction Hr as [|kv oo m l (H1 & H2) Hr IHr]; intros IH; constructor.
    + inversion IH as [|? ? (I1 & I2) _]; subst. split; auto.
    + apply IHr. inversion IH; assumption.
Qed.

Lemma repr_lo_mono lo lo' h : lo' <= lo -> forall o v, repr lo h v o -> repr lo' h v o.
Proof.
  intros L. induction o as [| | | |l IH] using owned_ind'; intros v; try (cbn [repr]; tauto).
  - cbn [repr]. intros (a & Hv & Hlo & Ha). exists a. repeat split; auto; lia.
  - rewrite !repr_table. intros (a & t & Hv & Hlo & Ha & Hw & Hr). exists a, t.
    split; [exact Hv|]. split; [lia|]. split; [exact Ha|]. split; [exact Hw|].
    revert IH Hr. generalize (tmap t) as m. clear. intros m IH Hr. revert IH.
    induction Hr as [|kv oo m l (H1 & H2) Hr IHr]; intros IH; constructor.
    + inversion IH as [|? ? (I1 & I2) _]; subst. split; auto.
    + apply IHr. inversion IH; assumption.
Qed.

(* ---- keys ---- *)

Lemma repr_key lo h v k : repr lo h v k -> okey_ok F k = true -> dom h v.
Proof.
  destruct k; cbn [repr okey_ok]; intros H Hk; subst; cbn [vkey]; auto.
  - destruct (f_cmp F bits bits) as [[]|]; try discriminate. reflexivity.
  - destruct H as (a & -> & _ & Ha). cbn [vkey]. rewrite Ha. exact I.
  - discriminate.
Qed.

Lemma repr_kb lo h v1 k1 v2 k2 :
  repr lo h v1 k1 -> repr lo h v2 k2 -> okey_ok F k1 = true -> okey_ok F k2 = true ->
  kb (veq h) v1 v2 = okb F k1 k2.
Proof.
  intros H1 H2 K1 K2. unfold kb.
  destruct k1 as [|x|x|s1|l1]; try discriminate; destruct k2 as [|y|y|s2|l2]; try discriminate;
    cbn [repr] in H1, H2;
    try (destruct H1 as (a1 & -> & _ & A1)); try (destruct H2 as (a2 & -> & _ & A2)); subst;
    cbn [keq okb]; try (rewrite veq0_unfold; generalize 23; intros f; cbn [Vm.veq]; rewrite ?A1, ?A2; try reflexivity).
  - destruct (x =? y)%Z; reflexivity.
  - destruct (N.eqb x y); [|reflexivity]. cbn [andb].
    destruct (f_cmp F x y) as [[]|]; reflexivity.
  - destruct (bytes_eqb s1 s2); reflexivity.
Qed.

Lemma okeys_distinct_app l1 k l2 :
  okeys_distinct F (l1 ++ k :: l2) = true -> Forall (fun k' => okb F k' k = false) l1.
Proof.
  induction l1 as [|x l1 IH]; cbn [app okeys_distinct]; intros H; [constructor|].
  apply andb_prop in H. destruct H as (H1 & H2). constructor; [|apply IH, H2].
  rewrite forallb_app in H1. apply andb_prop in H1. destruct H1 as (_ & H1).
  cbn [forallb] in H1. apply andb_prop in H1. destruct H1 as (H1 & _).
  destruct (okb F x k); [discriminate | reflexivity].
Qed.

Lemma rows_nomatch lo h m done kv k :
  Forall2 (repr_entry lo h) m done -> repr lo h kv k -> okey_ok F k = true ->
  Forall (fun k' => okey_ok F k' = true) (map fst done) ->
  Forall (fun k' => okb F k' k = false) (map fst done) ->
  nomatch (veq h) kv (map fst m).
Proof.
  intros Hr Hk Kk. induction Hr as [|e oo m l (H1 & _) Hr IH]; cbn [map]; intros HK HD; [constructor|].
  inversion HK; subst. inversion HD; subst. constructor; [|apply IH; assumption].
  rewrite (repr_kb _ _ _ _ _ _ H1 Hk) by assumption. assumption.
Qed.

(* ------------------------------------------------------------------ *)
(* insert_value                                                        *)
(* ------------------------------------------------------------------ *)

Definition insert_post (o : owned) : Prop :=
  owned_ok F o = true -> forall h, exists h' v,
    insert_owned F h o = IOk h' v /\ hpres h h' /\ repr (length h) h' v o /\
    (tables_wf F h -> tables_wf F h').

Lemma forallb_entry_app l1 l2 :
  forallb (entry_ok F) (l1 ++ l2) = true -> forallb (entry_ok F) l1 = true /\ forallb (entry_ok F) l2 = true.
Proof. rewrite forallb_app. apply andb_prop. Qed.

Lemma insert_rows_spec a : forall rest done h t,
  Forall (fun kv => insert_post (fst kv) /\ insert_post (snd kv)) rest ->
  forallb (entry_ok F) (done ++ rest) = true ->
  okeys_distinct F (map fst (done ++ rest)) = true ->
  hget h a = Some (Vm.OTable t) -> twf (veq h) (dom h) t ->
  Forall2 (repr_entry (S (N.to_nat a)) h) (tmap t) done ->
  exists h' t',
    insert_rows F a rest h = IOk h' (VObj a) /\ lstep a h h' /\
    hget h' a = Some (Vm.OTable t') /\ twf (veq h') (dom h') t' /\
    Forall2 (repr_entry (S (N.to_nat a)) h') (tmap t') (done ++ rest) /\
    (tables_wf F h -> tables_wf F h').
Proof.
  induction rest as [|[k w] rest IH]; intros done h t HP Hok Hdis Ha Hw Hr.
  - exists h, t. rewrite app_nil_r. cbn [insert_rows].
    split; [reflexivity|]. split; [split; auto|]. split; [exact Ha|]. split; [exact Hw|]. split; [exact Hr | auto].
  - inversion HP as [|? ? (Pk & Pw) HP']; subst. cbn [fst snd] in Pk, Pw.
    assert (Hok' := Hok). apply forallb_entry_app in Hok'. destruct Hok' as (Hok1 & Hok2).
    cbn [forallb] in Hok2. apply andb_prop in Hok2. destruct Hok2 as (Hkw & Hok2).
    unfold entry_ok in Hkw. cbn [fst snd] in Hkw. apply andb_prop in Hkw. destruct Hkw as (Kk & Kw).
    assert (La : S (N.to_nat a) <= length h) by (apply hget_some_lt in Ha; lia).
    (* the key, then the value *)
    assert (Kk' : owned_ok F k = true) by (destruct k; try reflexivity; discriminate).
    destruct (Pk Kk' h) as (h2 & kv & E2 & P2 & R2 & W2).
    destruct (Pw Kw h2) as (h3 & wv & E3 & P3 & R3 & W3).
    cbn [insert_rows]. rewrite E2, E3.
    assert (P13 : hpres h h3) by (eapply hpres_trans; eauto).
    assert (Ha3 : hget h3 a = Some (Vm.OTable t)) by (apply P13, Ha).
    rewrite Ha3.
    assert (L2 : S (N.to_nat a) <= length h2) by (destruct P2; lia).
    assert (R2' : repr (S (N.to_nat a)) h3 kv k).
    { eapply repr_frame; [apply hpres_hframe, P3|]. eapply repr_lo_mono; [|exact R2]. exact La. }
    assert (R3' : repr (S (N.to_nat a)) h3 wv w) by (eapply repr_lo_mono; [|exact R3]; exact L2).
    assert (Hw3 : twf (veq h3) (dom h3) t) by (eapply twf_ext; [apply hpres_hext, P13 | exact Hw]).
    assert (Hr3 : Forall2 (repr_entry (S (N.to_nat a)) h3) (tmap t) done).
    { eapply Forall2_imp; [|exact Hr]. intros x y (A & B).
      split; eapply repr_frame; try eassumption; apply hpres_hframe, P13. }
    (* table.insert: the key is new, the entry goes to the end *)
    destruct (vm_tinsert F h3 t kv wv Hw3 (repr_key _ _ _ _ R2' Kk)) as (t' & Et & Hw' & Habs).
    rewrite Et.
    assert (Hnm : nomatch (veq h3) kv (map fst (tmap t))).
    { eapply rows_nomatch; try eassumption.
      - clear - Hok1. induction done as [|[k' w'] done IHd]; cbn [map]; [constructor|].
        cbn [forallb] in Hok1. apply andb_prop in Hok1. destruct Hok1 as (A & B).
        unfold entry_ok in A. apply andb_prop in A. constructor; [apply A | apply IHd, B].
      - rewrite map_app in Hdis. cbn [map fst] in Hdis. apply okeys_distinct_app in Hdis. exact Hdis. }
    unfold tabs in Habs. rewrite al_set_absent in Habs
      by (rewrite al_find_get, (@al_find_nomatch _ _ _ Hnm); reflexivity).
    (* the heap after the write *)
    set (h4 := hset h3 a (Vm.OTable t')).
    assert (X34 : hframe (S (N.to_nat a)) h3 h4).
    { split; [eapply hext_hset; [exact Ha3 | exact I]|].
      intros b x Lb Hb. unfold h4. rewrite hget_hset_other; [exact Hb|]. intros ->. lia. }
    assert (S34 : lstep a h3 h4).
    { split; [unfold h4, hset; rewrite upd_length; lia|].
      intros b x Hne Hb. unfold h4. rewrite hget_hset_other by congruence. exact Hb. }
    assert (Ha4 : hget h4 a = Some (Vm.OTable t')) by (eapply hget_hset_same; exact Ha3).
    assert (Hw4 : twf (veq h4) (dom h4) t') by (eapply twf_ext; [apply X34 | exact Hw']).
    assert (Hr4 : Forall2 (repr_entry (S (N.to_nat a)) h4) (tmap t') (done ++ [(k, w)])).
    { rewrite Habs. apply Forall2_app.
      - eapply Forall2_imp; [|exact Hr3]. intros x y (A & B). split; eapply repr_frame; eauto.
      - constructor; [|constructor]. split; cbn [fst snd]; eapply repr_frame; eauto. }
    assert (W4 : tables_wf F h3 -> tables_wf F h4).
    { apply (good_hset F h3 a (Vm.OTable t) (Vm.OTable t') Ha3 I).
      intros t0 Heq _. inversion Heq; subst t0. exact Hw'. }
    destruct (IH (done ++ [(k, w)]) h4 t') as (h' & t'' & E' & S' & Ha' & Hw'' & Hr' & W'); auto.
    + rewrite <- app_assoc. exact Hok.
    + rewrite <- app_assoc. exact Hdis.
    + exists h', t''. rewrite <- app_assoc in Hr'.
      split; [exact E'|]. split; [|split; [exact Ha'|split; [exact Hw'' | split; [exact Hr' | auto]]]].
      split.
      * destruct S' as (L' & _). destruct S34 as (L34 & _). destruct P13 as (L13 & _). lia.
      * intros b x Hne Hb. apply S'; [exact Hne|]. apply S34; [exact Hne|]. apply P13, Hb.
Qed.

Lemma insert_owned_spec : forall o, insert_post o.
Proof.
  induction o as [| | | |l IH] using owned_ind'; intros Hok h.
  - exists h, VNil. cbn [insert_owned repr]. split; [reflexivity|]. split; [apply hpres_refl|]. split; [reflexivity | auto].
  - exists h, (VInt z). cbn [insert_owned repr]. split; [reflexivity|]. split; [apply hpres_refl|]. split; [reflexivity | auto].
  - exists h, (VReal r). cbn [insert_owned repr]. split; [reflexivity|]. split; [apply hpres_refl|]. split; [reflexivity | auto].
  - exists (h ++ [Vm.OStr s]), (VObj (N.of_nat (length h))). split; [reflexivity|].
    split; [apply hpres_alloc|]. split.
    + cbn [repr]. eexists. split; [reflexivity|].
      rewrite Nat2N.id. split; [lia | apply hget_app_new].
    + apply (good_alloc F h (Vm.OStr s)). intros t Heq. discriminate Heq.
  - rewrite insert_owned_table. rewrite owned_ok_table in Hok. apply andb_prop in Hok. destruct Hok as (Hok & Hdis).
    set (a := N.of_nat (length h)). set (h1 := h ++ [Vm.OTable (mkTable [] [])]).
    destruct (insert_rows_spec a l [] h1 (mkTable [] [])) as (h' & t' & E & S' & Ha' & Hw' & Hr' & W'); auto.
    + apply hget_app_new.
    + apply twf_empty_vm.
    + cbn [tmap]. constructor.
    + exists h', (VObj a). split; [exact E|]. cbn [app] in Hr'.
      assert (Na : N.to_nat a = length h) by (unfold a; apply Nat2N.id).
      split.
      * destruct S' as (L' & Sp). split; [unfold h1 in L'; rewrite app_length in L'; lia|].
        intros b x Hb. apply Sp; [|apply hget_app_old, Hb].
        intros ->. apply hget_some_lt in Hb. lia.
      * split.
        { apply repr_table. exists a, t'. split; [reflexivity|]. split; [lia|]. split; [exact Ha'|].
          split; [exact Hw'|]. eapply Forall2_imp; [|exact Hr'].
          intros x y (A & B). split; eapply repr_lo_mono; try eassumption; lia. }
        intros W. apply W'. apply (good_alloc F h (Vm.OTable (mkTable [] []))); [|exact W].
        intros t0 Heq. inversion Heq. apply twf_empty_vm.
Qed.

(* ------------------------------------------------------------------ *)
(* try_from                                                            *)
(* ------------------------------------------------------------------ *)

(* the entry loop of try_from = the conversion, entry by entry, of what `iter` yields *)
Definition conv_entry (rec : value -> cvres owned) (kv : value * value) (oo : owned * owned) : Prop :=
  rec (fst kv) = CvOk (fst oo) /\ rec (snd kv) = CvOk (snd oo).

Lemma owned_rows_ok rec eq m ks : forall l,
  owned_rows rec eq m ks = CvOk l ->
  exists m', titer_go eq m ks = Some m' /\ Forall2 (conv_entry rec) m' l.
Proof.
  induction ks as [|k ks IH]; intros l; cbn [owned_rows titer_go].
  - intros H. inversion H. exists []. split; [reflexivity | constructor].
  - destruct (map_find eq k m) as [[[i v]|]|]; try discriminate.
    + destruct (rec k) as [ok| | | |] eqn:Ek; cbn [cv_bind]; try discriminate.
      destruct (rec v) as [ov| | | |] eqn:Ev; cbn [cv_bind]; try discriminate.
      destruct (owned_rows rec eq m ks) as [l'| | | |]; cbn [cv_bind]; try discriminate.
      intros H. inversion H; subst. destruct (IH l' eq_refl) as (m' & -> & HF).
      exists ((k, v) :: m'). split; [reflexivity|]. constructor; [split; assumption | exact HF].
    + intros H. destruct (IH l H) as (m' & -> & HF). exists m'. split; [reflexivity | exact HF].
Qed.

Lemma owned_rows_of_titer rec eq m ks : forall m' l,
  titer_go eq m ks = Some m' -> Forall2 (conv_entry rec) m' l -> owned_rows rec eq m ks = CvOk l.
Proof.
  induction ks as [|k ks IH]; intros m' l; cbn [owned_rows titer_go].
  - intros H HF. inversion H; subst. inversion HF. reflexivity.
  - destruct (map_find eq k m) as [[[i v]|]|]; try discriminate.
    + destruct (titer_go eq m ks) as [m''|]; try discriminate. intros H HF. inversion H; subst.
      inversion HF as [|? oo ? l' (H1 & H2) HF']; subst. cbn [fst snd] in H1, H2.
      rewrite H1, H2. cbn [cv_bind]. rewrite (IH m'' l' eq_refl HF'). cbn [cv_bind].
      destruct oo; reflexivity.
    + destruct (titer_go eq m ks) as [m''|]; try discriminate. intros H HF. inversion H; subst.
      apply (IH m' l eq_refl HF).
Qed.

Lemma repr_owned_of : forall o lo h v, repr lo h v o ->
  forall fuel, odepth o < fuel -> owned_of F fuel h v = CvOk o.
Proof.
  induction o as [| | | |l IH] using owned_ind'; intros lo h v H fuel Hf;
    (destruct fuel as [|f]; [lia|]).
  - cbn [repr] in H. subst. reflexivity.
  - cbn [repr] in H. subst. reflexivity.
  - cbn [repr] in H. subst. reflexivity.
  - cbn [repr] in H. destruct H as (a & -> & _ & Ha). cbn [owned_of]. rewrite Ha. reflexivity.
  - apply repr_table in H. destruct H as (a & t & -> & _ & Ha & Hw & Hr).
    cbn [owned_of]. rewrite Ha.
    rewrite (owned_rows_of_titer (owned_of F f h) (veq h) (tmap t) (tkeys t) (tmap t) l); [reflexivity | |].
    + apply (vm_titer F h t Hw).
    + assert (Hd : odepth (OTable l) <= f) by lia. apply odepth_table_lt in Hd.
      revert IH Hd. clear - Hr. induction Hr as [|kv oo m l (H1 & H2) Hr IHr]; intros IH Hd; constructor.
      * inversion IH as [|? ? (I1 & I2) _]; subst. inversion Hd as [|? ? (D1 & D2) _]; subst.
        split; [eapply I1 | eapply I2]; eauto.
      * apply IHr; [inversion IH | inversion Hd]; assumption.
Qed.

(* insert_value then try_from: the owned value comes back, entry order included; the heap that existed is a
   prefix of the new heap *)
Theorem owned_roundtrip : forall o h, owned_ok F o = true ->
  exists h' v, insert_owned F h o = IOk h' v /\ (exists ext, h' = h ++ ext) /\
    forall fuel, odepth o < fuel -> owned_of F fuel h' v = CvOk o.
Proof.
  intros o h Hok. destruct (insert_owned_spec o Hok h) as (h' & v & E & Hp & Hr & _).
  exists h', v. split; [exact E|]. split; [apply hpres_prefix, Hp|].
  intros fuel Hf. eapply repr_owned_of; eauto.
Qed.

(* insert_value keeps the C07 table invariant of the heap (the VM can go on with the new heap) *)
Theorem insert_owned_tables_wf : forall o h h' v, owned_ok F o = true -> tables_wf F h ->
  insert_owned F h o = IOk h' v -> tables_wf F h'.
Proof.
  intros o h h' v Hok W E. destruct (insert_owned_spec o Hok h) as (h'' & v' & E' & _ & _ & W').
  rewrite E in E'. inversion E'; subst. apply W', W.
Qed.

Corollary insert_owned_no_ub : forall o h, owned_ok F o = true -> insert_owned F h o <> IUb.
Proof. intros o h Hok. destruct (owned_roundtrip o h Hok) as (h' & v & -> & _). discriminate. Qed.

(* the fuel try_from needs is the nesting depth of its answer *)
Lemma owned_of_depth : forall fuel h v o, owned_of F fuel h v = CvOk o -> odepth o < fuel.
Proof.
  induction fuel as [|f IH]; intros h v o; cbn [owned_of]; [discriminate|].
  destruct v as [|z|r|a]; try (intros H; inversion H; cbn [odepth]; lia).
  destruct (hget h a) as [[t|s|? ?|?|? ? ?|?]|]; try discriminate.
  - destruct (owned_rows (owned_of F f h) (veq h) (tmap t) (tkeys t)) as [l| | | |] eqn:Er;
      cbn [cv_bind]; try discriminate.
    intros H. inversion H; subst. apply owned_rows_ok in Er. destruct Er as (m' & _ & HF).
    assert (Hd : odepth (OTable l) <= f); [|lia].
    apply odepth_table_lt.
    clear - HF IH. induction HF as [|kv oo m l (H1 & H2) HF IHF]; constructor; auto.
    split; eapply IH; eauto.
  - intros H. inversion H. cbn [odepth]. lia.
Qed.

(* the answer does not depend on the fuel once there is enough of it *)
Lemma owned_of_fuel : forall f1 h v o, owned_of F f1 h v = CvOk o ->
  forall f2, odepth o < f2 -> owned_of F f2 h v = CvOk o.
Proof.
  induction f1 as [|f1 IH]; intros h v o; cbn [owned_of]; [discriminate|].
  intros H f2 Hf. destruct f2 as [|f2]; [lia|]. cbn [owned_of].
  destruct v as [|z|r|a]; try exact H.
  destruct (hget h a) as [[t|s|? ?|?|? ? ?|?]|]; try exact H.
  destruct (owned_rows (owned_of F f1 h) (veq h) (tmap t) (tkeys t)) as [l| | | |] eqn:Er;
    cbn [cv_bind] in H; try discriminate.
  inversion H; subst. apply owned_rows_ok in Er. destruct Er as (m' & Et & HF).
  rewrite (owned_rows_of_titer (owned_of F f2 h) (veq h) (tmap t) (tkeys t) m' l Et); [reflexivity|].
  assert (Hd : odepth (OTable l) <= f2) by lia. apply odepth_table_lt in Hd.
  clear - HF IH Hd. induction HF as [|kv oo m l (H1 & H2) HF IHF]; constructor.
  - inversion Hd as [|? ? (D1 & D2) _]; subst. split; eapply IH; eauto.
  - apply IHF. inversion Hd; assumption.
Qed.

(* a key of the C07 key domain converts to an admissible owned key *)
Lemma owned_of_key fuel h v k : owned_of F fuel h v = CvOk k -> dom h v ->
  okey_ok F k = true /\ repr 0 h v k.
Proof.
  destruct fuel as [|f]; [discriminate|]. cbn [owned_of].
  destruct v as [|z|r|a]; cbn [vkey].
  - intros H _. inversion H. split; reflexivity.
  - intros H _. inversion H. split; reflexivity.
  - intros H Hr. inversion H. cbn [okey_ok repr]. rewrite Hr. split; reflexivity.
  - destruct (hget h a) as [[t|s|? ?|?|? ? ?|?]|] eqn:Ha; try discriminate; try contradiction.
    intros H _. inversion H. cbn [okey_ok repr]. split; [reflexivity|].
    exists a. split; [reflexivity|]. split; [lia | exact Ha].
Qed.

Lemma conv_nomatch f h m l kv k :
  Forall2 (conv_entry (owned_of F f h)) m l -> Forall (dom h) (map fst m) ->
  owned_of F f h kv = CvOk k -> dom h kv ->
  Forall (fun k' => kb (veq h) kv k' = false) (map fst m) ->
  forallb (fun k' => negb (okb F k k')) (map fst l) = true.
Proof.
  intros HF. induction HF as [|e oo m l (H1 & _) HF IH]; cbn [map forallb]; intros HD Hk Dk HN; [reflexivity|].
  inversion HD; subst. inversion HN; subst.
  destruct (owned_of_key _ _ _ _ Hk Dk) as (K1 & R1).
  destruct (owned_of_key _ _ _ _ H1 ltac:(assumption)) as (K2 & R2).
  rewrite <- (repr_kb _ _ _ _ _ _ R1 R2 K1 K2).
  apply andb_true_intro. split; [|apply IH; assumption].
  match goal with X : kb _ _ _ = false |- _ => rewrite X end. reflexivity.
Qed.

(* in a heap whose tables satisfy the C07 invariant, try_from answers values of the round-trip class *)
Lemma owned_of_ok h : tables_wf F h ->
  forall fuel v o, owned_of F fuel h v = CvOk o -> owned_ok F o = true.
Proof.
  intros W. induction fuel as [|f IH]; intros v o; cbn [owned_of]; [discriminate|].
  destruct v as [|z|r|a]; try (intros H; inversion H; reflexivity).
  destruct (hget h a) as [[t|s|? ?|?|? ? ?|?]|] eqn:Ha; try discriminate;
    [|intros H; inversion H; reflexivity].
  destruct (owned_rows (owned_of F f h) (veq h) (tmap t) (tkeys t)) as [l| | | |] eqn:Er;
    cbn [cv_bind]; try discriminate.
  intros H. inversion H; subst. apply owned_rows_ok in Er. destruct Er as (m' & Et & HF).
  pose proof (W a t Ha) as Hw. pose proof (vm_titer F h t Hw) as Ht. unfold titer in Ht.
  rewrite Ht in Et. inversion Et; subst m'. unfold tabs in HF.
  destruct Hw as (Hk & HD & Hn). rewrite <- Hk in HD, Hn.
  rewrite owned_ok_table. apply andb_true_intro. split.
  - clear - HF HD IH. induction HF as [|e oo m l (H1 & H2) HF IHF]; [reflexivity|].
    cbn [map] in HD. inversion HD; subst. cbn [forallb]. apply andb_true_intro. split; [|apply IHF; assumption].
    unfold entry_ok. apply andb_true_intro. split; [|eapply IH; eauto].
    eapply owned_of_key; eauto.
  - clear - HF HD Hn. induction HF as [|e oo m l (H1 & H2) HF IHF]; [reflexivity|].
    cbn [map] in HD, Hn |- *. inversion HD; subst. cbn [kdistinct] in Hn. destruct Hn as (Hn1 & Hn2).
    cbn [okeys_distinct]. apply andb_true_intro. split; [|apply IHF; assumption].
    eapply conv_nomatch; eauto.
Qed.

(* the canonical tree of the VM model (Vm.to_tree, the deep view the correspondence checks compare) is a
   function of the owned form *)
Lemma owned_of_tree : forall fuel h v o, owned_of F fuel h v = CvOk o -> to_tree F fuel h v = otree F o.
Proof.
  induction fuel as [|f IH]; intros h v o; cbn [owned_of to_tree]; [discriminate|].
  destruct v as [|z|r|a]; try (intros H; inversion H; reflexivity).
  destruct (hget h a) as [[t|s|? ?|?|? ? ?|?]|] eqn:Ha; try discriminate;
    [|intros H; inversion H; reflexivity].
  destruct (owned_rows (owned_of F f h) (veq h) (tmap t) (tkeys t)) as [l| | | |] eqn:Er;
    cbn [cv_bind]; try discriminate.
  intros H. inversion H; subst. apply owned_rows_ok in Er. destruct Er as (m' & Et & HF).
  unfold titer. rewrite Et. rewrite otree_table. f_equal.
  clear - HF IH. induction HF as [|e oo m l (H1 & H2) HF IHF]; [reflexivity|].
  cbn [map]. rewrite IHF, (IH _ _ _ H1), (IH _ _ _ H2). reflexivity.
Qed.

(* a value of one heap, converted and inserted into any other heap: same owned form, same canonical tree *)
Theorem value_roundtrip : forall h v fuel o h2,
  tables_wf F h -> owned_of F fuel h v = CvOk o ->
  exists h2' v2, insert_owned F h2 o = IOk h2' v2 /\ (exists ext, h2' = h2 ++ ext) /\
    owned_of F fuel h2' v2 = CvOk o /\ to_tree F fuel h2' v2 = to_tree F fuel h v.
Proof.
  intros h v fuel o h2 W H.
  destruct (owned_roundtrip o h2 (owned_of_ok h W fuel v o H)) as (h2' & v2 & E & Hp & Hr).
  exists h2', v2. split; [exact E|]. split; [exact Hp|].
  specialize (Hr fuel (owned_of_depth _ _ _ _ H)). split; [exact Hr|].
  rewrite (owned_of_tree _ _ _ _ Hr), (owned_of_tree _ _ _ _ H). reflexivity.
Qed.

(* why NaN keys are excluded: the row is stored and never read again *)
Lemma nan_key_lost : forall r h w, f_cmp F r r <> Some Eq ->
  exists h' v, insert_owned F h (OTable [(OReal r, OInt w)]) = IOk h' v /\
    forall fuel, owned_of F (S fuel) h' v = CvOk (OTable []).
Proof.
  intros r h w Hr. rewrite insert_owned_table. cbn [insert_rows insert_owned].
  rewrite hget_app_new. cbn [tinsert tmap tkeys map_find app].
  eexists _, _. split; [reflexivity|]. intros fuel. cbn [owned_of].
  erewrite hget_hset_same by apply hget_app_new.
  cbn [tmap tkeys owned_rows map_find keq]. rewrite N.eqb_refl, veq0_unfold. generalize 23. intros f.
  cbn [Vm.veq]. destruct (f_cmp F r r) as [[]|]; try reflexivity. congruence.
Qed.

(* more fuel never changes an answer other than "out of fuel" (whatever the answer: value, Err, UB, crash) *)
Lemma owned_rows_mono rec1 rec2 eq m ks :
  (forall v, rec1 v <> CvFuel -> rec2 v = rec1 v) ->
  owned_rows rec1 eq m ks <> CvFuel -> owned_rows rec2 eq m ks = owned_rows rec1 eq m ks.
Proof.
  intros H. induction ks as [|k ks IH]; cbn [owned_rows]; intros NF; [reflexivity|].
  destruct (map_find eq k m) as [[[i v]|]|]; [|apply IH; exact NF | reflexivity].
  assert (K : rec2 k = rec1 k) by (apply H; intros E; apply NF; rewrite E; reflexivity).
  rewrite K. destruct (rec1 k) as [ok| | | |]; cbn [cv_bind] in *; try reflexivity.
  assert (V : rec2 v = rec1 v) by (apply H; intros E; apply NF; rewrite E; reflexivity).
  rewrite V. destruct (rec1 v) as [ov| | | |]; cbn [cv_bind] in *; try reflexivity.
  rewrite IH; [reflexivity|]. intros E. apply NF. rewrite E. reflexivity.
Qed.

Lemma owned_of_mono h : forall f v, owned_of F f h v <> CvFuel -> owned_of F (S f) h v = owned_of F f h v.
Proof.
  induction f as [|f IH]; intros v NF; [exfalso; apply NF; reflexivity|].
  change (owned_of F (S (S f)) h v) with
    (match v with
     | VNil => CvOk ONil | VInt z => CvOk (OInt z) | VReal r => CvOk (OReal r)
     | VObj a =>
         match hget h a with
         | None => CvUb
         | Some (Vm.OTable t) =>
             cv_bind (owned_rows (owned_of F (S f) h) (veq h) (tmap t) (tkeys t)) (fun l => CvOk (OTable l))
         | Some (Vm.OStr s) => CvOk (OStr s)
         | Some _ => CvErr v
         end
     end).
  cbn [owned_of] in NF |- *.
  destruct v as [|z|r|a]; try reflexivity.
  destruct (hget h a) as [[t|s|? ?|?|? ? ?|?]|]; try reflexivity.
  rewrite (owned_rows_mono (owned_of F f h) (owned_of F (S f) h)); [reflexivity | exact IH |].
  intros E. apply NF. rewrite E. reflexivity.
Qed.

Lemma owned_of_stable h v : forall f1 f2, f1 <= f2 -> owned_of F f1 h v <> CvFuel ->
  owned_of F f2 h v = owned_of F f1 h v.
Proof.
  intros f1 f2 L NF. induction L as [|f2 L IH]; [reflexivity|].
  rewrite owned_of_mono; [exact IH | rewrite IH; exact NF].
Qed.

End OwnedProofs.
