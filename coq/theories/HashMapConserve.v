(* Conservation of keys and values over histories of the CaoHashMap model (HashMap.v):
   every key / value handed to the map is, at any later point, either still stored, or was
   dropped exactly once, or (values only) was handed back to the caller by remove - as multisets
   (Permutation).  Built on the per-operation specifications of HashMapProofs.v. *)
From Coq Require Import Arith Lia List Bool NArith Permutation.
Import ListNotations.
From Cao Require Import Cyc ProbeDefs ProbeProofs HashMap HashMapProofs.

Section Conserve.
  Variables (K V : Type).
  Variable keqb : K -> K -> bool.
  Variable hashfn : K -> N.
  Variable home : nat -> N -> nat.
  Variable needs_grow : nat -> nat -> bool.
  Variable new_cap : nat -> nat.
  Variable clone_k : K -> K.
  Variable clone_v : V -> V.

  Hypothesis keqb_spec : forall a b, reflect (a = b) (keqb a b).
  Hypothesis home_lt : forall n h, 0 < n -> home n h < n.
  Hypothesis ng_lt : forall c cap, needs_grow (S c) cap = false -> S c < cap.
  Hypothesis new_cap_gt : forall c, c < new_cap c.

  Notation entry := (entry K V).
  Notation hmap := (hmap K V).
  Notation hop := (hop K V).
  Notation hout := (hout K V).
  Notation ek := (@ek K V).
  Notation pkeqb := (pkeqb keqb).
  Notation InvN := (Inv home).
  Notation lookupN := (lookup keqb home).
  Notation step := (hm_step keqb hashfn home needs_grow new_cap clone_k clone_v).

  Definition ents (m : hmap) : list entry := contents (hm_slots m).
  Definition keys (m : hmap) : list K := map (@e_key K V) (ents m).
  Definition vals (m : hmap) : list V := map (@e_val K V) (ents m).

  Lemma ent_ents m e : Ent m e <-> In e (ents m).
  Proof. apply ent_contents. Qed.

  (* ---------- from membership to multiset equality ---------- *)
  Lemma ents_nodup m : InvN m -> NoDup (ents m).
  Proof.
    intros HI. destruct (iter_spec keqb keqb_spec home_lt HI) as (Hnd & _ & _).
    eapply NoDup_map_inv. exact Hnd.
  Qed.

  Lemma ents_perm m (l : list entry) :
    InvN m -> NoDup l -> (forall e, Ent m e <-> In e l) -> Permutation (ents m) l.
  Proof.
    intros HI Hl H. apply NoDup_Permutation; auto using ents_nodup.
    intros e. rewrite <- H. symmetry. apply ent_contents.
  Qed.

  Definition others (kk : pk K) (l : list entry) : list entry :=
    filter (fun e => negb (pkeqb (ek e) kk)) l.

  Lemma in_others kk l e : In e (others kk l) <-> In e l /\ ek e <> kk.
  Proof.
    unfold others. rewrite filter_In. split; intros [H1 H2]; split; auto.
    - destruct (pkeqb_spec keqb keqb_spec (ek e) kk); [discriminate|auto].
    - destruct (pkeqb_spec keqb keqb_spec (ek e) kk); [contradiction|reflexivity].
  Qed.

  Lemma others_absent kk l : (forall e, In e l -> ek e <> kk) -> others kk l = l.
  Proof.
    unfold others. induction l as [|x r IH]; intros H; cbn; [reflexivity|].
    destruct (pkeqb_spec keqb keqb_spec (ek x) kk) as [E|E].
    - exfalso. apply (H x); [left; reflexivity|exact E].
    - cbn. f_equal. apply IH. intros e He. apply H. right. exact He.
  Qed.

  Lemma others_split kk l e0 :
    NoDup (map ek l) -> In e0 l -> ek e0 = kk -> Permutation l (e0 :: others kk l).
  Proof.
    induction l as [|x r IH]; intros Hnd Hin Hk; [destruct Hin|].
    cbn [map] in Hnd. apply NoDup_cons_iff in Hnd. destruct Hnd as [Hx Hnd].
    unfold others. cbn [filter]. fold (others kk r).
    destruct Hin as [->|Hin].
    - destruct (pkeqb_spec keqb keqb_spec (ek e0) kk) as [_|E]; [|contradiction]. cbn [negb].
      rewrite others_absent; [reflexivity|].
      intros e He Hke. apply Hx. rewrite Hk, <- Hke. apply in_map. exact He.
    - destruct (pkeqb_spec keqb keqb_spec (ek x) kk) as [E|E]; cbn [negb].
      + exfalso. apply Hx. rewrite E, <- Hk. apply in_map. exact Hin.
      + rewrite perm_swap. apply perm_skip. apply IH; auto.
  Qed.

  Lemma others_nodup kk l : NoDup l -> NoDup (others kk l).
  Proof. intros H. unfold others. apply NoDup_filter. exact H. Qed.

  Lemma lookup_some_in m kk e0 : InvN m -> lookupN m kk = Some e0 -> In e0 (ents m) /\ ek e0 = kk.
  Proof.
    intros HI H. apply (lookup_ent keqb keqb_spec home_lt kk e0 HI) in H. destruct H as [H1 H2].
    split; [apply ent_contents; exact H1|exact H2].
  Qed.

  Lemma lookup_none_in m kk : InvN m -> lookupN m kk = None -> forall e, In e (ents m) -> ek e <> kk.
  Proof.
    intros HI H e He. apply (proj1 (lookup_none keqb keqb_spec home_lt kk HI) H). apply ent_contents. exact He.
  Qed.

  (* the stored entries after replacing / adding the entry of key kk *)
  Lemma ents_after_put m m' kk e :
    InvN m -> InvN m' -> ek e = kk ->
    (forall x, Ent m' x <-> (x = e \/ (Ent m x /\ ek x <> kk))) ->
    Permutation (ents m') (e :: others kk (ents m)).
  Proof.
    intros HI HI' Hk H. apply ents_perm; auto.
    - constructor; [|apply others_nodup, ents_nodup; exact HI].
      intros Hin. apply in_others in Hin. destruct Hin as [_ Hne]. contradiction.
    - intros x. rewrite H. cbn [In]. rewrite in_others, <- ent_ents. intuition.
  Qed.

  Lemma ents_after_del m m' kk :
    InvN m -> InvN m' ->
    (forall x, Ent m' x <-> (Ent m x /\ ek x <> kk)) ->
    Permutation (ents m') (others kk (ents m)).
  Proof.
    intros HI HI' H. apply ents_perm; auto.
    - apply others_nodup, ents_nodup; exact HI.
    - intros x. rewrite H, in_others, <- ent_ents. tauto.
  Qed.

  Lemma ents_same m m' : InvN m -> InvN m' -> (forall x, Ent m' x <-> Ent m x) -> Permutation (ents m') (ents m).
  Proof.
    intros HI HI' H. apply ents_perm; auto using ents_nodup.
    intros x. rewrite H. apply ent_contents.
  Qed.

  Lemma ents_present_split m kk e0 : InvN m -> lookupN m kk = Some e0 ->
    Permutation (ents m) (e0 :: others kk (ents m)).
  Proof.
    intros HI H. destruct (lookup_some_in _ _ _ HI H) as [Hin Hk].
    apply others_split; auto. destruct (iter_spec keqb keqb_spec home_lt HI) as (Hnd & _ & _). exact Hnd.
  Qed.

  Lemma ents_absent_others m kk : InvN m -> lookupN m kk = None -> others kk (ents m) = ents m.
  Proof. intros HI H. apply others_absent. apply lookup_none_in; auto. Qed.

  (* ---------- what an operation receives and hands back ---------- *)
  Definition is_err (o : hout) : bool := match o with RErr _ _ => true | _ => false end.

  (* keys and values whose ownership passes to the map when the operation is called.  Lookups
     take references.  `*get_mut(k)? = v` moves v only when the key is present; the value of
     `entry(k).or_insert_with(|| v)` is produced only when the entry is vacant and the insertion
     goes ahead (the closure is not run otherwise); a clone creates its own copies. *)
  Definition given (m : hmap) (o : hop) (out : hout) : list K * list V :=
    match o with
    | HInsert k v _ | HInsertH _ k v _ => ([k], [v])
    | HGetMutSet k v =>
        match lookupN m (hashfn k, k) with Some _ => ([], [v]) | None => ([], []) end
    | HEntryIns k v _ =>
        match lookupN m (hashfn k, k) with
        | Some _ => ([k], [])
        | None => if is_err out then ([k], []) else ([k], [v])
        end
    | HEntryDrop _ k _ => ([k], [])
    | HClone _ _ =>
        match clone_op keqb hashfn home needs_grow new_cap clone_k clone_v m with
        | Ok c => (keys c, vals c)
        | _ => ([], [])
        end
    | _ => ([], [])
    end.

  (* values whose ownership passes to the caller *)
  Definition returned (o : hop) (out : hout) : list V :=
    match o, out with
    | HRemove _ _, ROptV _ (Some v) | HRemoveH _ _ _, ROptV _ (Some v) => [v]
    | _, _ => []
    end.

  Definition balanced (m : hmap) (g : list K * list V) (m' : hmap) (d : list K * list V) (r : list V) : Prop :=
    Permutation (keys m ++ fst g) (keys m' ++ fst d) /\
    Permutation (vals m ++ snd g) (vals m' ++ snd d ++ r).

  Lemma balanced_same m : balanced m ([], []) m ([], []) [].
  Proof. split; cbn; rewrite !app_nil_r; reflexivity. Qed.

  Ltac psolve :=
    rewrite ?app_nil_r; cbn [app map e_key e_val mk];
    repeat (rewrite <- Permutation_cons_append; cbn [app]);
    repeat (first [reflexivity | apply perm_skip | (rewrite perm_swap; apply perm_skip)]).

  Lemma keys_perm m l : Permutation (ents m) l -> Permutation (keys m) (map (@e_key K V) l).
  Proof. intros H. unfold keys. apply Permutation_map. exact H. Qed.
  Lemma vals_perm m l : Permutation (ents m) l -> Permutation (vals m) (map (@e_val K V) l).
  Proof. intros H. unfold vals. apply Permutation_map. exact H. Qed.

  (* insertion with a hint: shared by HInsert and HInsertH *)
  Lemma insert_balanced m h k v ok : InvN m ->
    let '(r, d) := insert_h keqb home needs_grow new_cap m h k v ok in
    match r with
    | Ok m' => balanced m ([k], [v]) m' d []
    | AllocErr => balanced m ([k], [v]) m d []
    | _ => True
    end.
  Proof.
    intros HI. pose proof (insert_h_spec keqb needs_grow new_cap keqb_spec home_lt ng_lt new_cap_gt h k v ok HI) as S.
    destruct (lookupN m (h, k)) as [e0|] eqn:EL.
    - destruct S as (m' & -> & HI' & _ & _ & HE).
      pose proof (ents_after_put _ _ (h, k) (mk h k v) HI HI' eq_refl HE) as P'.
      pose proof (ents_present_split _ _ _ HI EL) as P.
      split; cbn [fst snd].
      + rewrite (keys_perm _ _ P'), (keys_perm _ _ P). psolve.
      + rewrite (vals_perm _ _ P'), (vals_perm _ _ P). psolve.
    - destruct S as [[_ ->]|(m' & -> & HI' & _ & HE)].
      + split; cbn [fst snd]; psolve.
      + assert (HE' : forall x, Ent m' x <-> (x = mk h k v \/ (Ent m x /\ ek x <> (h, k)))).
        { intros x. rewrite HE. split; [|tauto]. intros [->|Hx]; [left; reflexivity|right].
          split; [exact Hx|]. apply (lookup_none_in _ _ HI EL). apply ent_contents. exact Hx. }
        pose proof (ents_after_put _ _ (h, k) (mk h k v) HI HI' eq_refl HE') as P'.
        rewrite (ents_absent_others _ _ HI EL) in P'.
        split; cbn [fst snd].
        * rewrite (keys_perm _ _ P'). unfold keys. psolve.
        * rewrite (vals_perm _ _ P'). unfold vals. psolve.
  Qed.

  Lemma remove_balanced m h k : InvN m ->
    exists m' ov d, remove_h keqb home m h k = (Ok (m', ov), d) /\
      balanced m ([], []) m' d (match ov with Some v => [v] | None => [] end).
  Proof.
    intros HI. pose proof (remove_h_spec keqb keqb_spec home_lt h k HI) as S.
    destruct (lookupN m (h, k)) as [e0|] eqn:EL.
    - destruct S as (m' & E & HI' & _ & _ & HE).
      exists m', (Some (e_val e0)), ([e_key e0], []). split; [exact E|].
      pose proof (ents_after_del _ _ _ HI HI' HE) as P'.
      pose proof (ents_present_split _ _ _ HI EL) as P.
      split; cbn [fst snd].
      + rewrite (keys_perm _ _ P'), (keys_perm _ _ P). psolve.
      + rewrite (vals_perm _ _ P'), (vals_perm _ _ P). psolve.
    - exists m, None, ([], []). split; [exact S|]. apply balanced_same.
  Qed.

  Lemma good_not_bad (o : hout) : good_out o -> o <> RDiverge K V /\ o <> RPanic K V.
  Proof. destruct o; cbn; intros H; split; try discriminate; contradiction. Qed.

  (* ---------- one operation ---------- *)
  Theorem step_conserves m o : InvN m ->
    let '(m', out, d) := step m o in
    balanced m (given m o out) m' d (returned o out).
  Proof.
    intros HI. destruct o as [k v ok|h k v ok|k|h k|k|h k|k|h k|k v|k v ok|k ok|add ok| | | | |];
      cbn [hm_step].
    - (* HInsert *)
      pose proof (insert_balanced m (hashfn k) k v ok HI) as B.
      pose proof (hm_step_inv keqb hashfn needs_grow new_cap clone_k clone_v keqb_spec home_lt ng_lt new_cap_gt (HInsert k v ok) HI) as G.
      cbn [hm_step] in G.
      destruct (insert_h keqb home needs_grow new_cap m (hashfn k) k v ok) as [r d].
      destruct r as [m'| | |]; cbn [lift given returned] in *; auto; destruct G as [_ []].
    - (* HInsertH *)
      pose proof (insert_balanced m h k v ok HI) as B.
      pose proof (hm_step_inv keqb hashfn needs_grow new_cap clone_k clone_v keqb_spec home_lt ng_lt new_cap_gt (HInsertH h k v ok) HI) as G.
      cbn [hm_step] in G.
      destruct (insert_h keqb home needs_grow new_cap m h k v ok) as [r d].
      destruct r as [m'| | |]; cbn [lift given returned] in *; auto; destruct G as [_ []].
    - (* HRemove *)
      destruct (remove_balanced m (hashfn k) k HI) as (m' & ov & d & E & B). rewrite E.
      cbn [lift given returned fst snd]. destruct ov; exact B.
    - (* HRemoveH *)
      destruct (remove_balanced m h k HI) as (m' & ov & d & E & B). rewrite E.
      cbn [lift given returned fst snd]. destruct ov; exact B.
    - (* HGet *)
      rewrite (get_h_spec keqb keqb_spec home_lt (hashfn k) k HI). cbn [lift given returned]. apply balanced_same.
    - rewrite (get_h_spec keqb keqb_spec home_lt h k HI). cbn [lift given returned]. apply balanced_same.
    - rewrite (get_h_spec keqb keqb_spec home_lt (hashfn k) k HI). cbn [lift given returned]. apply balanced_same.
    - rewrite (get_h_spec keqb keqb_spec home_lt h k HI). cbn [lift given returned]. apply balanced_same.
    - (* HGetMutSet *)
      pose proof (get_mut_set_spec keqb hashfn keqb_spec home_lt k v HI) as S. cbn [given].
      destruct (lookupN m (hashfn k, k)) as [e0|] eqn:EL.
      + destruct S as (m' & -> & HI' & _ & _ & HE). cbn [lift fst snd returned].
        destruct (lookup_some_in _ _ _ HI EL) as [_ Hk0].
        assert (Hk : ek (mk (e_hash e0) (e_key e0) v) = (hashfn k, k)).
        { rewrite <- Hk0. reflexivity. }
        pose proof (ents_after_put _ _ _ _ HI HI' Hk HE) as P'.
        pose proof (ents_present_split _ _ _ HI EL) as P.
        split; cbn [fst snd].
        * rewrite (keys_perm _ _ P'), (keys_perm _ _ P). psolve.
        * rewrite (vals_perm _ _ P'), (vals_perm _ _ P). psolve.
      + rewrite S. cbn [lift fst snd returned]. apply balanced_same.
    - (* HEntryIns *)
      pose proof (entry_op_spec keqb hashfn needs_grow new_cap keqb_spec home_lt ng_lt new_cap_gt k (Some v) ok HI) as S.
      cbn zeta in S. cbn [given].
      destruct (lookupN m (hashfn k, k)) as [e0|] eqn:EL.
      + rewrite S. cbn [lift fst snd returned].
        split; cbn [fst snd]; psolve.
      + destruct S as [[_ ->]|(m' & -> & HI' & _ & HE)]; cbn [lift fst snd returned is_err].
        * split; cbn [fst snd]; psolve.
        * assert (HE' : forall x, Ent m' x <-> (x = mk (hashfn k) k v \/ (Ent m x /\ ek x <> (hashfn k, k)))).
          { intros x. rewrite HE. split; [|tauto]. intros [->|Hx]; [left; reflexivity|right].
            split; [exact Hx|]. apply (lookup_none_in _ _ HI EL). apply ent_contents. exact Hx. }
          pose proof (ents_after_put _ _ (hashfn k, k) (mk (hashfn k) k v) HI HI' eq_refl HE') as P'.
          rewrite (ents_absent_others _ _ HI EL) in P'.
          split; cbn [fst snd].
          -- rewrite (keys_perm _ _ P'). unfold keys. psolve.
          -- rewrite (vals_perm _ _ P'). unfold vals. psolve.
    - (* HEntryDrop *)
      pose proof (entry_op_spec keqb hashfn needs_grow new_cap keqb_spec home_lt ng_lt new_cap_gt k None ok HI) as S.
      cbn zeta in S. cbn [given].
      destruct (lookupN m (hashfn k, k)) as [e0|] eqn:EL.
      + rewrite S. cbn [lift fst snd returned].
        split; cbn [fst snd]; psolve.
      + destruct S as [[_ ->]|(m' & -> & HI' & _ & HE)]; cbn [lift fst snd returned].
        * split; cbn [fst snd]; psolve.
        * pose proof (ents_same _ _ HI HI' HE) as P'.
          split; cbn [fst snd].
          -- rewrite (keys_perm _ _ P'). reflexivity.
          -- rewrite (vals_perm _ _ P'). reflexivity.
    - (* HReserve *)
      destruct ok.
      + destruct HI as (Hn & Hc & Hlt & Hr). assert (HI : InvN m) by (repeat split; tauto).
        assert (Hlt' : hm_count m < hcap m + add) by lia.
        destruct (adjust_spec keqb keqb_spec home_lt HI Hlt') as (m' & -> & HI' & _ & _ & HE).
        cbn [lift given returned]. pose proof (ents_same _ _ HI HI' HE) as P'.
        split; cbn [fst snd].
        * rewrite (keys_perm _ _ P'). reflexivity.
        * rewrite (vals_perm _ _ P'). reflexivity.
      + rewrite (adjust_fail keqb home). cbn [lift given returned]. apply balanced_same.
    - (* HClear *)
      unfold clear_op. cbn [given returned]. split; cbn [fst snd];
        unfold keys, vals, ents; cbn [hm_slots]; rewrite contents_repeat_none; psolve.
    - (* HClone *)
      cbn [given]. destruct (clone_op keqb hashfn home needs_grow new_cap clone_k clone_v m) as [c| | |];
        cbn [returned]; try apply balanced_same.
      unfold clear_op. split; cbn [fst snd]; psolve.
    - apply balanced_same.
    - apply balanced_same.
    - apply balanced_same.
  Qed.

  (* ---------- histories ---------- *)
  (* everything given to / dropped by / handed back by the map over a history *)
  Fixpoint ledger (m : hmap) (ops : list hop) : (list K * list V) * (list K * list V) * list V :=
    match ops with
    | [] => (([], []), ([], []), [])
    | o :: r =>
        let '(m1, out, d) := step m o in
        let g := given m o out in
        let '(gs, ds, rs) := ledger m1 r in
        ((fst g ++ fst gs, snd g ++ snd gs), (fst d ++ fst ds, snd d ++ snd ds), returned o out ++ rs)
    end.

  Theorem history_conserves : forall ops m, InvN m ->
    let '(m', _) := hm_run keqb hashfn home needs_grow new_cap clone_k clone_v m ops in
    let '(gs, ds, rs) := ledger m ops in
    balanced m gs m' ds rs.
  Proof.
    induction ops as [|o r IH]; intros m HI; cbn [hm_run ledger].
    - apply balanced_same.
    - pose proof (step_conserves m o HI) as B.
      pose proof (hm_step_inv keqb hashfn needs_grow new_cap clone_k clone_v keqb_spec home_lt ng_lt new_cap_gt o HI) as G.
      destruct (step m o) as [[m1 out] d]. destruct G as [HI1 _].
      specialize (IH m1 HI1).
      destruct (hm_run keqb hashfn home needs_grow new_cap clone_k clone_v m1 r) as [m2 xs].
      destruct (ledger m1 r) as [[gs ds] rs].
      destruct B as [Bk Bv]. destruct IH as [Ik Iv]. split; cbn [fst snd].
      + rewrite app_assoc, Bk. rewrite <- app_assoc, (Permutation_app_comm (fst d)), app_assoc, Ik.
        rewrite <- !app_assoc. apply Permutation_app_head. apply Permutation_app_comm.
      + rewrite app_assoc, Bv. rewrite <- !app_assoc.
        rewrite (app_assoc (snd d)), (Permutation_app_comm (snd d ++ returned o out)), app_assoc, Iv.
        rewrite <- !app_assoc. apply Permutation_app_head.
        rewrite (app_assoc (snd ds)), (Permutation_app_comm (snd ds ++ rs)). rewrite <- !app_assoc.
        apply Permutation_app_head. rewrite !app_assoc. apply Permutation_app_tail. apply Permutation_app_comm.
  Qed.
  (* from a new map: everything ever given is stored, or was dropped once, or was handed back *)
  Corollary history_conserves_new : forall ops c,
    let '(m', _) := hm_run keqb hashfn home needs_grow new_cap clone_k clone_v (hm_new K V c) ops in
    let '(gs, ds, rs) := ledger (hm_new K V c) ops in
    Permutation (fst gs) (keys m' ++ fst ds) /\
    Permutation (snd gs) (vals m' ++ snd ds ++ rs).
  Proof.
    intros ops c. pose proof (history_conserves ops (hm_new K V c) (new_inv K V home c)) as H.
    destruct (hm_run keqb hashfn home needs_grow new_cap clone_k clone_v (hm_new K V c) ops) as [m' xs].
    destruct (ledger (hm_new K V c) ops) as [[gs ds] rs].
    unfold balanced, keys, vals, ents, hm_new in H. cbn [hm_slots] in H.
    rewrite contents_repeat_none in H. exact H.
  Qed.
End Conserve.

Arguments ents {K V} m.
Arguments keys {K V} m.
Arguments vals {K V} m.
Arguments given {K V} keqb hashfn home needs_grow new_cap clone_k clone_v m o out.
Arguments returned {K V} o out.
Arguments balanced {K V} m g m' d r.
Arguments ledger {K V} keqb hashfn home needs_grow new_cap clone_k clone_v m ops.
