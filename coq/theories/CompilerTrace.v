(* C15, compile-time half: the card index recorded in a trace entry resolves, through the C16 model
   of Module::get_card / Card::get_child (CardEdit.v), to a card of the function being compiled -
   the compiler's child numbering agrees with get_child for every card kind (the count card of Repeat used to be
   the exception, finding N-C15-1, repaired in /repo). *)
From Coq Require Import List NArith ZArith Bool Lia.
From Cao Require Import ListUtil CheckUtil Bits CardAst Bytecode Compiler CompilerGen Wellformed
     CompilerProofs CompilerWf.
From Cao Require CardEdit.
Import ListNotations.
Local Open Scope N_scope.

(* ------------------------------------------------------------------ position of the compiler *)
(* [at_ctx cards idx ctx]: the current index (last sub-index first) designates the card [hd ctx] of the
   function whose top-level cards are [cards]; [ctx] lists it and its ancestors *)
Inductive at_ctx (cards : list card) : list N -> list card -> Prop :=
| at_top b c : nth_error cards (N.to_nat b) = Some c -> at_ctx cards [b] [c]
| at_child i idx c c' ctx :
    at_ctx cards idx (c :: ctx) -> CardEdit.get_child c (N.to_nat i) = Some c' ->
    at_ctx cards (i :: idx) (c' :: c :: ctx).

Lemma descend_app p1 : forall p2 d c c1,
  CardEdit.descend p1 d c = CardEdit.ROk c1 ->
  CardEdit.descend (p1 ++ p2) d c = CardEdit.descend p2 (length p1 + d) c1.
Proof.
  induction p1 as [|i p IH]; intros p2 d c c1 H; cbn [CardEdit.descend app] in *.
  - injection H as <-. reflexivity.
  - destruct (CardEdit.get_child c i); [|discriminate]. rewrite (IH p2 (S d) _ _ H).
    cbn [length]. f_equal. lia.
Qed.

Lemma at_ctx_resolves cards idx ctx :
  at_ctx cards idx ctx ->
  exists b path c0 c, map N.to_nat (rev idx) = b :: path /\ nth_error cards b = Some c0 /\
                      hd_error ctx = Some c /\ forall d, CardEdit.descend path d c0 = CardEdit.ROk c.
Proof.
  induction 1 as [b c Hb | i idx c c' ctx _ IH Hc].
  - exists (N.to_nat b), [], c, c. cbn. auto.
  - destruct IH as (b & path & c0 & c1 & Hl & Hn & Hh & Hd). cbn in Hh. injection Hh as <-.
    exists b, (path ++ [N.to_nat i]), c0, c'. cbn [rev]. rewrite map_app, Hl. cbn [map app].
    repeat split; auto. intros d. rewrite (descend_app path [N.to_nat i] d c0 c (Hd d)).
    cbn [CardEdit.descend]. rewrite Hc. reflexivity.
Qed.

(* what Module::get_card returns for an index that resolves in the card list of function [fn] *)
Lemma get_card_resolves (m : module) fn name f l b path c0 c :
  nth_error (m_functions m) fn = Some (name, f) ->
  l = b :: path -> nth_error (f_cards f) b = Some c0 ->
  (forall d, CardEdit.descend path d c0 = CardEdit.ROk c) ->
  CardEdit.get_card m {| ci_function := fn; ci_indices := l |} = CardEdit.ROk c.
Proof.
  intros Hf -> Hb Hd. unfold CardEdit.get_card. cbn [ci_function ci_indices]. rewrite Hf.
  unfold CardEdit.ci_begin. cbn [ci_indices hd_error]. rewrite Hb.
  unfold CardEdit.slice. cbn [length].
  replace ((1 <=? S (length path))%nat && (S (length path) <=? S (length path))%nat) with true
    by (symmetry; apply andb_true_iff; split; apply Nat.leb_le; lia).
  cbn [skipn]. replace (S (length path) - 1)%nat with (length path) by lia.
  rewrite firstn_all. apply Hd.
Qed.

(* ------------------------------------------------------------------ the judgement *)
Definition entry_ok (cards : list card) (ns : list str) (fn : nat) (e : loc) : Prop :=
  fst e = ns /\ ci_function (snd e) = fn /\
  exists b path c0 c, ci_indices (snd e) = b :: path /\ nth_error cards b = Some c0 /\
                      forall d, CardEdit.descend path d c0 = CardEdit.ROk c.

Definition J {A} (cards : list card) (ctx ctx' : list card) (m : M A) : Prop :=
  forall s, at_ctx cards (cs_idx s) ctx ->
            match m s with
            | ROk _ s' =>
                at_ctx cards (cs_idx s') ctx' /\ cs_fn s' = cs_fn s /\ cs_ns s' = cs_ns s /\
                exists new, cs_trace s' = new ++ cs_trace s /\
                            Forall (fun al => entry_ok cards (cs_ns s) (cs_fn s) (snd al)) new
            | RErr _ l => exists lc, l = Some lc /\ entry_ok cards (cs_ns s) (cs_fn s) lc
            | _ => True
            end.

Lemma J_ret {A} cards ctx (a : A) : J cards ctx ctx (ret a).
Proof. intros s H. cbn. repeat split; auto. exists []. split; [reflexivity | constructor]. Qed.

Lemma J_bind {A B} cards c0 c1 c2 (m : M A) (f : A -> M B) :
  J cards c0 c1 m -> (forall a, J cards c1 c2 (f a)) -> J cards c0 c2 (bind m f).
Proof.
  intros Hm Hf s H. unfold bind. specialize (Hm s H). destruct (m s) as [a s1|e l| |]; auto.
  destruct Hm as (H1 & Hfn1 & Hns1 & new1 & Ht1 & Hok1).
  specialize (Hf a s1 H1). destruct (f a s1) as [b s2|e l| |]; auto.
  - destruct Hf as (H2 & Hfn2 & Hns2 & new2 & Ht2 & Hok2).
    repeat split; try congruence. exists (new2 ++ new1). split; [rewrite Ht2, Ht1, app_assoc; reflexivity|].
    apply Forall_app. split; [|exact Hok1]. rewrite Hns1, Hfn1 in Hok2. exact Hok2.
  - rewrite Hns1, Hfn1 in Hf. exact Hf.
Qed.

(* operations that leave index, function, namespace and trace alone *)
Definition same3 (s s' : cstate) : Prop :=
  cs_idx s' = cs_idx s /\ cs_fn s' = cs_fn s /\ cs_ns s' = cs_ns s /\ cs_trace s' = cs_trace s.
Definition frame3 {A} (m : M A) : Prop :=
  forall s, match m s with
            | ROk _ s' => same3 s s'
            | RErr _ l => l = Some (cur_loc s)        (* self.error(..) = with_loc(.., self.trace()) *)
            | _ => True
            end.
Lemma cur_loc_same3 s s' : same3 s s' -> cur_loc s' = cur_loc s.
Proof. intros (a & b & c & _). unfold cur_loc. rewrite a, b, c. reflexivity. Qed.
Lemma at_ctx_entry_ok cards ctx s :
  at_ctx cards (cs_idx s) ctx -> entry_ok cards (cs_ns s) (cs_fn s) (cur_loc s).
Proof.
  intros H. unfold entry_ok, cur_loc. cbn [fst snd ci_function ci_indices]. repeat split; auto.
  destruct (at_ctx_resolves _ _ _ H) as (b & path & c0 & c & Hl & Hn & _ & Hd). eauto 8.
Qed.
Ltac same3_tac := unfold same3; cbn; repeat split; reflexivity.

Lemma J_frame {A} cards ctx (m : M A) : frame3 m -> J cards ctx ctx m.
Proof.
  intros Hf s H. specialize (Hf s). destruct (m s) as [a s'|e l| |]; auto.
  - destruct Hf as (a1 & a2 & a3 & a4). rewrite a1. repeat split; auto.
    exists []. split; [rewrite a4; reflexivity | constructor].
  - exists (cur_loc s). split; [exact Hf | eapply at_ctx_entry_ok; eauto].
Qed.
Lemma frame3_ret {A} (a : A) : frame3 (ret a).
Proof. intros s. cbn. same3_tac. Qed.
Lemma frame3_bind {A B} (m : M A) (f : A -> M B) :
  frame3 m -> (forall a, frame3 (f a)) -> frame3 (bind m f).
Proof.
  intros Hm Hf s. unfold bind. specialize (Hm s). destruct (m s) as [a s1|e l| |]; auto.
  specialize (Hf a s1). destruct (f a s1) as [b s2|e l| |]; auto.
  - destruct Hm as (a1 & a2 & a3 & a4), Hf as (b1 & b2 & b3 & b4). repeat split; congruence.
  - rewrite Hf. f_equal. apply cur_loc_same3, Hm.
Qed.
Lemma frame3_get : frame3 get. Proof. intros s. cbn. same3_tac. Qed.
Lemma frame3_get_pc : frame3 get_pc. Proof. intros s. cbn. same3_tac. Qed.
Lemma frame3_get_pc_i32 : frame3 get_pc_i32. Proof. intros s. cbn. same3_tac. Qed.
Lemma frame3_panic {A} : frame3 (@panic A). Proof. intros s. exact I. Qed.
Lemma frame3_diverge {A} : frame3 (@diverge A). Proof. intros s. exact I. Qed.
Lemma frame3_error {A} e : frame3 (@error A e). Proof. intros s. reflexivity. Qed.
Lemma frame3_scope_begin : frame3 scope_begin. Proof. intros s. cbn. same3_tac. Qed.
Lemma frame3_compile_begin : frame3 compile_begin. Proof. intros s. cbn. same3_tac. Qed.
Lemma frame3_compile_end : frame3 compile_end. Proof. intros s. cbn. same3_tac. Qed.
Lemma frame3_validate n : frame3 (validate_var_name n).
Proof. unfold validate_var_name. destruct (is_empty n); [apply frame3_error | apply frame3_ret]. Qed.
Lemma frame3_add_local_unchecked n : frame3 (add_local_unchecked n).
Proof.
  intros s. unfold add_local_unchecked.
  destruct (Nat.leb locals_cap (length (hd [] (cs_locals s)))); cbn; [reflexivity | same3_tac].
Qed.
Lemma frame3_add_local n : frame3 (add_local n).
Proof. apply frame3_bind; [apply frame3_validate | intros; apply frame3_add_local_unchecked]. Qed.
Lemma frame3_add_locals l : frame3 (add_locals l).
Proof.
  induction l as [|n r IH]; cbn [add_locals]; [apply frame3_ret|].
  apply frame3_bind; [apply frame3_add_local | intros; exact IH].
Qed.
Lemma frame3_handle_from_bytes bs : frame3 (handle_from_bytes_m bs).
Proof.
  intros s. unfold handle_from_bytes_m. same3_tac.
Qed.
Lemma frame3_index_handle : frame3 index_handle.
Proof.
  unfold index_handle. apply frame3_bind; [apply frame3_get|]. intros s.
  apply frame3_bind; [apply frame3_handle_from_bytes | intros; apply frame3_ret].
Qed.
Lemma frame3_label_entry h : frame3 (label_entry_here h).
Proof.
  intros s. unfold label_entry_here. destruct (two32 <=? cs_pc s); [exact I|].
  destruct (h =? 0); [same3_tac|]. destruct (nm_find h (cs_labels s)); same3_tac.
Qed.
Lemma frame3_label_insert h : frame3 (label_insert_here h).
Proof.
  intros s. unfold label_insert_here. destruct ((two32 <=? cs_pc s) || (h =? 0)); cbn; [exact I | same3_tac].
Qed.
Lemma frame3_card_label : frame3 card_label.
Proof. unfold card_label. apply frame3_bind; [apply frame3_index_handle | intros; apply frame3_label_entry]. Qed.
Lemma frame3_resolve_var n : frame3 (resolve_var n).
Proof.
  unfold resolve_var. apply frame3_bind; [apply frame3_validate|]. intros _ s.
  destruct (rfind_index _ _ _ _); cbn; [same3_tac|].
  destruct (resolve_upvalue _ _ _) as [[[v ls] us]|]; cbn; [same3_tac | reflexivity].
Qed.
Lemma frame3_global_id n : frame3 (global_id n).
Proof.
  unfold global_id. apply frame3_bind; [apply frame3_handle_from_bytes|]. intros h s.
  destruct (nm_find h (cs_ids s)); [|destruct (ht_entry_hangs (cs_ids s)); [exact I|]];
    (destruct (nm_find _ (cs_names s));
       [unfold name_checked; destruct (global_name_checked && _); cbn; [reflexivity | same3_tac]|];
     destruct (ht_entry_hangs (cs_names s)); cbn; [exact I | same3_tac]).
Qed.
Lemma frame3_resolve_function n : frame3 (resolve_function n).
Proof.
  unfold resolve_function. apply frame3_bind; [apply frame3_get|]. intros s.
  apply frame3_bind.
  { destruct (match sm_find n (cs_jump s) with Some m => Some m | None => _ end); [apply frame3_ret|].
    destruct (sm_find n (cs_imports s)); [|apply frame3_ret].
    destruct (super_depth _) as [[cnt sx]|]; [|apply frame3_diverge].
    destruct (take_ns _ _ _); [apply frame3_ret | apply frame3_error]. }
  intros st3. apply frame3_bind.
  { destruct st3; [apply frame3_ret|].
    destruct (split_once_c c_dot n) as [[pre suf]|]; [|apply frame3_ret].
    destruct (sm_find pre (cs_imports s)); [|apply frame3_ret].
    destruct (super_depth _) as [[cnt sx]|]; [|apply frame3_diverge].
    destruct (take_ns _ _ _); [apply frame3_ret | apply frame3_error]. }
  intros st4. destruct st4; [apply frame3_ret | apply frame3_error].
Qed.
Lemma frame3_patch q : frame3 (patch_jump_here q).
Proof.
  intros s. unfold patch_jump_here. destruct (patch_code _ _ _ _); [same3_tac | exact I].
Qed.

(* ---- the operations that matter ---- *)
Lemma J_push_instr cards ctx i : ctx <> [] -> J cards ctx ctx (push_instr i).
Proof.
  intros Hne s H. rewrite push_instr_eq. unfold pushed. cbn. repeat split; auto.
  exists [(cs_pc s mod two32, cur_loc s)]. split; [reflexivity|]. constructor; [|constructor].
  cbn [snd]. unfold entry_ok, cur_loc. cbn [fst snd ci_function ci_indices]. repeat split; auto.
  destruct (at_ctx_resolves _ _ _ H) as (b & path & c0 & c & Hl & Hn & _ & Hd). eauto 8.
Qed.

Lemma J_push_sub cards c c' ctx i :
  CardEdit.get_child c (N.to_nat i) = Some c' -> J cards (c :: ctx) (c' :: c :: ctx) (push_sub i).
Proof.
  intros Hc s H. cbn. repeat split; auto; [constructor; auto|].
  exists []. split; [reflexivity | constructor].
Qed.
Lemma J_pop_sub cards c c' ctx : J cards (c' :: c :: ctx) (c :: ctx) pop_sub.
Proof.
  intros s H. cbn. inversion H; subst. repeat split; auto.
  exists []. split; [reflexivity | constructor].
Qed.
Lemma J_with_sub cards c c' ctx i m :
  CardEdit.get_child c (N.to_nat i) = Some c' ->
  J cards (c' :: c :: ctx) (c' :: c :: ctx) m -> J cards (c :: ctx) (c :: ctx) (with_sub i m).
Proof.
  intros Hc Hm. unfold with_sub.
  eapply J_bind; [apply J_push_sub, Hc | intros _].
  eapply J_bind; [exact Hm | intros _; apply J_pop_sub].
Qed.

Lemma J_push_string cards ctx mk st : ctx <> [] -> J cards ctx ctx (push_string mk st).
Proof.
  intros Hne. unfold push_string. eapply J_bind; [apply J_frame, frame3_get | intros s0].
  eapply J_bind; [apply J_push_instr, Hne | intros _].
  apply J_frame. intros s. destruct (two32 <=? N.of_nat (length st)); cbn; [exact I | same3_tac].
Qed.

Lemma J_push_raws cards ctx is : ctx <> [] -> J cards ctx ctx (push_raws is).
Proof.
  intros Hne. induction is as [|i r IH]; cbn [push_raws]; [apply J_ret|].
  eapply J_bind; [apply J_push_instr, Hne | intros _; exact IH].
Qed.
Lemma J_scope_end cards ctx : ctx <> [] -> J cards ctx ctx scope_end.
Proof.
  intros Hne s H. unfold scope_end.
  set (ds := map_hd _ (cs_depth s)). set (rlis := pop_locals _ _). set (s1 := set_scopes _ _ _ s).
  apply (J_push_raws cards ctx (snd rlis) Hne s1). exact H.
Qed.

Lemma J_encode_if_then cards ctx skip body :
  ctx <> [] -> J cards ctx ctx body -> J cards ctx ctx (encode_if_then skip body).
Proof.
  intros Hne Hb. unfold encode_if_then.
  eapply J_bind; [apply J_frame, frame3_get_pc | intros q].
  eapply J_bind; [apply J_push_instr, Hne | intros _].
  eapply J_bind; [exact Hb | intros _]. apply J_frame, frame3_patch.
Qed.

Lemma J_read_props cards ctx props : ctx <> [] -> J cards ctx ctx (read_props props).
Proof.
  intros Hne. induction props as [|x r IH]; cbn [read_props]; [apply J_ret|].
  eapply J_bind; [|intros _; exact IH].
  destruct (is_empty x); [apply J_ret|].
  eapply J_bind; [apply J_push_string, Hne | intros _; apply J_push_instr, Hne].
Qed.
Lemma J_read_var_card cards ctx v : ctx <> [] -> J cards ctx ctx (read_var_card v).
Proof.
  intros Hne. unfold read_var_card.
  destruct (match split_once_c c_dot v with Some (v0, p0) => (v0, p0) | None => (v, []) end) as [v0 props].
  eapply J_bind; [apply J_frame, frame3_resolve_var | intros scope].
  eapply J_bind; [|intros _; apply J_read_props, Hne].
  destruct scope.
  - eapply J_bind; [apply J_frame, frame3_global_id | intros id; apply J_push_instr, Hne].
  - apply J_push_instr, Hne.
  - apply J_push_instr, Hne.
Qed.
Lemma J_bind_loop_var cards ctx o src : ctx <> [] -> J cards ctx ctx (bind_loop_var o src).
Proof.
  intros Hne. destruct o; cbn [bind_loop_var]; [|apply J_ret].
  eapply J_bind; [apply J_frame, frame3_add_local | intros x].
  eapply J_bind; [apply J_push_instr, Hne | intros _; apply J_push_instr, Hne].
Qed.
Lemma J_emit_upvalues cards ctx ups : ctx <> [] -> J cards ctx ctx (emit_upvalues ups).
Proof.
  intros Hne. induction ups as [|u r IH]; cbn [emit_upvalues]; [apply J_ret|].
  eapply J_bind; [apply J_push_instr, Hne | intros _].
  eapply J_bind; [apply J_push_instr, Hne | intros _; exact IH].
Qed.
Lemma J_process_leaf cards ctx i : ctx <> [] -> J cards ctx ctx (process_leaf i).
Proof.
  intros Hne. unfold process_leaf.
  eapply J_bind; [apply J_frame, frame3_card_label | intros _; apply J_push_instr, Hne].
Qed.

(* ------------------------------------------------------------------ induction over cards *)
Section Cards.
  Variable cards : list card.

  Definition card_j (c : card) : Prop := forall ctx, J cards (c :: ctx) (c :: ctx) (process_card c).

  Lemma J_subexpr parent ctx l : Forall card_j l -> forall i,
    (forall k x, nth_error l k = Some x -> CardEdit.get_child parent (N.to_nat i + k) = Some x) ->
    J cards (parent :: ctx) (parent :: ctx)
      ((fix subexpr (l : list card) (i : N) {struct l} : M unit :=
          match l with
          | [] => ret tt
          | x :: r => with_sub i (process_card x) ;; subexpr r (i + 1)
          end) l i).
  Proof.
    induction 1 as [|x r Hx _ IH]; intros i Hc; [apply J_ret|].
    eapply J_bind.
    - apply (J_with_sub cards parent x ctx i); [|apply Hx].
      rewrite <- (Nat.add_0_r (N.to_nat i)). apply (Hc 0%nat x). reflexivity.
    - intros _. apply IH. intros k y Hk.
      replace (N.to_nat (i + 1) + k)%nat with (N.to_nat i + S k)%nat by lia. apply (Hc (S k) y Hk).
  Qed.

  Lemma J_array_items parent ctx tv l : Forall card_j l -> forall i,
    (forall k x, nth_error l k = Some x -> CardEdit.get_child parent (N.to_nat i + k) = Some x) ->
    J cards (parent :: ctx) (parent :: ctx)
      ((fix items (l : list card) (i : N) {struct l} : M unit :=
         match l with
         | [] => ret tt
         | x :: r =>
             push_instr IScalarNil ;;
             with_sub i (process_card x) ;;
             read_local tv ;;
             push_instr IAppendTable ;;
             items r (i + 1)
         end) l i).
  Proof.
    induction 1 as [|x r Hx _ IH]; intros i Hc; [apply J_ret|].
    eapply J_bind; [apply J_push_instr; discriminate | intros _].
    eapply J_bind.
    - apply (J_with_sub cards parent x ctx i); [|apply Hx].
      rewrite <- (Nat.add_0_r (N.to_nat i)). apply (Hc 0%nat x). reflexivity.
    - intros _. eapply J_bind; [apply J_push_instr; discriminate | intros _].
      eapply J_bind; [apply J_push_instr; discriminate | intros _].
      apply IH. intros k y Hk.
      replace (N.to_nat (i + 1) + k)%nat with (N.to_nat i + S k)%nat by lia. apply (Hc (S k) y Hk).
  Qed.

  Ltac frame3_tac :=
    repeat first
      [ apply frame3_ret | apply frame3_get | apply frame3_get_pc | apply frame3_get_pc_i32 | apply frame3_panic
      | apply frame3_diverge | apply frame3_error | apply frame3_scope_begin | apply frame3_compile_begin
      | apply frame3_compile_end | apply frame3_validate | apply frame3_add_local_unchecked
      | apply frame3_add_local | apply frame3_add_locals | apply frame3_handle_from_bytes
      | apply frame3_index_handle | apply frame3_card_label | apply frame3_label_insert | apply frame3_resolve_var
      | apply frame3_global_id | apply frame3_resolve_function | apply frame3_patch
      | match goal with |- frame3 (bind _ _) => apply frame3_bind; [|intros ?] end ].

  Ltac step3 :=
    first
      [ apply J_ret
      | apply J_push_sub; reflexivity
      | apply J_pop_sub
      | apply J_push_instr; discriminate
      | apply J_push_string; discriminate
      | apply J_scope_end; discriminate
      | apply J_read_var_card; discriminate
      | apply J_bind_loop_var; discriminate
      | apply J_emit_upvalues; discriminate
      | apply J_process_leaf; discriminate
      | match goal with H : card_j ?c |- J _ _ _ (process_card ?c) => apply H end
      | eapply J_with_sub; [reflexivity|]
      | apply J_subexpr; [assumption | intros ? ? Hk; cbn; exact Hk]
      | apply J_encode_if_then; [discriminate|]
      | apply J_frame; solve [frame3_tac]
      | match goal with |- J _ _ _ (bind _ _) => eapply J_bind; [|intros ?] end ].

  Lemma process_card_ok3 c : card_j c.
  Proof.
    induction c using card_ind'; intros ctx; cbn [process_card].
    - (* CBin *) destruct op; repeat step3.
    - destruct op; repeat step3.
    - destruct op; repeat step3.
    - repeat step3.
    - repeat step3.
    - repeat step3.
    - repeat step3.
    - repeat step3.
    - repeat step3.
    - repeat step3.
    - repeat step3.
    - repeat step3.
    - repeat step3.
    - (* CCallNative *) repeat step3.
    - (* CCall *) repeat step3.
    - (* CDynamicCall *)
      eapply J_bind; [step3 | intros _].
      eapply J_bind.
      { apply J_subexpr; [assumption|]. intros k x Hk. unfold CardEdit.get_child.
        change (N.to_nat 1 + k)%nat with (S k). cbn [Nat.eqb Nat.sub]. rewrite Nat.sub_0_r. exact Hk. }
      intros _. repeat step3.
    - (* CSetGlobalVar *)
      eapply J_bind; [step3 | intros _]. eapply J_bind; [repeat step3 | intros _].
      destruct (is_empty n); [apply J_frame, frame3_error|]. repeat step3.
    - (* CSetVar *)
      eapply J_bind; [step3 | intros _]. eapply J_bind; [repeat step3 | intros _].
      destruct (rsplit_once_c c_dot n) as [[rp sp]|]; [repeat step3|].
      eapply J_bind; [apply J_frame, frame3_resolve_var | intros var]. destruct var; repeat step3.
    - (* CRepeat *) repeat step3.
    - (* CForEach *) repeat step3.
    - (* CComposite *) repeat step3.
    - (* CArray *)
      eapply J_bind; [step3 | intros _]. eapply J_bind; [step3 | intros _].
      eapply J_bind; [step3 | intros tv]. eapply J_bind; [step3 | intros _].
      eapply J_bind; [|intros _; step3].
      apply J_array_items; [assumption|]. intros k x Hk. cbn. exact Hk.
    - (* CClosure *) repeat step3.
  Qed.

  (* ---- the cards of one function ---- *)
  Lemma process_cards_trace : forall rest done s s',
    cards = done ++ rest ->
    (cs_idx s = [] \/ exists x, cs_idx s = [x]) ->
    process_cards rest (N.of_nat (length done)) s = ROk tt s' ->
    cs_fn s' = cs_fn s /\ cs_ns s' = cs_ns s /\
    exists new, cs_trace s' = new ++ cs_trace s /\
                Forall (fun al => entry_ok cards (cs_ns s) (cs_fn s) (snd al)) new.
  Proof.
    induction rest as [|c r IH]; intros done s s' Hc Hidx H; cbn [process_cards] in H.
    - injection H as <-. repeat split; auto. exists []. split; [reflexivity | constructor].
    - unfold bind in H. cbn [pop_sub push_sub] in H.
      set (s1 := set_index (cs_fn (set_index (cs_fn s) (tl (cs_idx s)) s))
                           (N.of_nat (length done) :: cs_idx (set_index (cs_fn s) (tl (cs_idx s)) s))
                           (set_index (cs_fn s) (tl (cs_idx s)) s)) in H.
      assert (Hidx1 : cs_idx s1 = [N.of_nat (length done)]).
      { subst s1. cbn. destruct Hidx as [->|[x ->]]; reflexivity. }
      assert (Hat : at_ctx cards (cs_idx s1) [c]).
      { rewrite Hidx1. constructor. rewrite Nat2N.id, Hc, nth_error_app2, Nat.sub_diag by lia. reflexivity. }
      pose proof (process_card_ok3 c [] s1 Hat) as Hp.
      destruct (process_card c s1) as [[] s2| | |]; try discriminate.
      destruct Hp as (Hat2 & Hfn2 & Hns2 & new1 & Ht1 & Hok1).
      assert (Hidx2 : exists x, cs_idx s2 = [x]) by (inversion Hat2; subst; eauto).
      replace (N.of_nat (length done) + 1) with (N.of_nat (length (done ++ [c]))) in H
        by (rewrite app_length; cbn; lia).
      destruct (IH (done ++ [c]) s2 s' ltac:(rewrite <- app_assoc; exact Hc) (or_intror Hidx2) H)
        as (Hfn3 & Hns3 & new2 & Ht2 & Hok2).
      assert (E1 : cs_fn s1 = cs_fn s) by reflexivity. assert (E2 : cs_ns s1 = cs_ns s) by reflexivity.
      assert (E3 : cs_trace s1 = cs_trace s) by reflexivity.
      repeat split; try congruence.
      exists (new2 ++ new1). split; [rewrite Ht2, Ht1, E3, app_assoc; reflexivity|].
      apply Forall_app. split.
      + rewrite Hns2, Hfn2, E1, E2 in Hok2. exact Hok2.
      + rewrite E1, E2 in Hok1. exact Hok1.
  Qed.
  Lemma process_cards_error : forall rest done s e l,
    cards = done ++ rest ->
    (cs_idx s = [] \/ exists x, cs_idx s = [x]) ->
    process_cards rest (N.of_nat (length done)) s = RErr e l ->
    exists lc, l = Some lc /\ entry_ok cards (cs_ns s) (cs_fn s) lc.
  Proof.
    induction rest as [|c r IH]; intros done s e l Hc Hidx H; cbn [process_cards] in H; [discriminate|].
    unfold bind in H. cbn [pop_sub push_sub] in H.
    set (s1 := set_index (cs_fn (set_index (cs_fn s) (tl (cs_idx s)) s))
                         (N.of_nat (length done) :: cs_idx (set_index (cs_fn s) (tl (cs_idx s)) s))
                         (set_index (cs_fn s) (tl (cs_idx s)) s)) in H.
    assert (Hidx1 : cs_idx s1 = [N.of_nat (length done)]).
    { subst s1. cbn. destruct Hidx as [->|[x ->]]; reflexivity. }
    assert (Hat : at_ctx cards (cs_idx s1) [c]).
    { rewrite Hidx1. constructor. rewrite Nat2N.id, Hc, nth_error_app2, Nat.sub_diag by lia. reflexivity. }
    pose proof (process_card_ok3 c [] s1 Hat) as Hp.
    assert (E1 : cs_fn s1 = cs_fn s) by reflexivity. assert (E2 : cs_ns s1 = cs_ns s) by reflexivity.
    destruct (process_card c s1) as [[] s2|e1 l1| |]; try discriminate.
    - destruct Hp as (Hat2 & Hfn2 & Hns2 & _).
      assert (Hidx2 : exists x, cs_idx s2 = [x]) by (inversion Hat2; subst; eauto).
      replace (N.of_nat (length done) + 1) with (N.of_nat (length (done ++ [c]))) in H
        by (rewrite app_length; cbn; lia).
      destruct (IH (done ++ [c]) s2 e l ltac:(rewrite <- app_assoc; exact Hc) (or_intror Hidx2) H)
        as (lc & Hl & Hok).
      exists lc. split; auto. rewrite Hns2, Hfn2, E1, E2 in Hok. exact Hok.
    - injection H as <- <-. rewrite E1, E2 in Hp. exact Hp.
  Qed.
End Cards.

(* every trace entry recorded while the cards of a function are compiled resolves, through
   Module::get_card of any module that has these cards as its function number [cs_fn], to a card *)
Theorem emit_index_sound (cards : list card) s s' :
  (cs_idx s = [] \/ exists x, cs_idx s = [x]) ->
  process_cards cards 0 s = ROk tt s' ->
  exists new, cs_trace s' = new ++ cs_trace s /\
    forall a ns idx, In (a, (ns, idx)) new ->
      ns = cs_ns s /\
      forall (m : module) name f,
        nth_error (m_functions m) (cs_fn s) = Some (name, f) -> f_cards f = cards ->
        exists c, CardEdit.get_card m idx = CardEdit.ROk c.
Proof.
  intros Hidx H.
  destruct (process_cards_trace cards cards [] s s' eq_refl Hidx H) as (_ & _ & new & Ht & Hok).
  exists new. split; [exact Ht|]. intros a ns idx Hin.
  rewrite Forall_forall in Hok. specialize (Hok _ Hin). cbn [snd fst] in Hok.
  destruct Hok as (Hns & Hfn & b & path & c0 & c & Hi & Hb & Hd). split; [exact Hns|].
  intros m name f Hf Hcards. exists c. destruct idx as [fn l]. cbn in Hfn, Hi. subst fn.
  apply (get_card_resolves m (cs_fn s) name f l b path c0 c Hf Hi); [rewrite Hcards; exact Hb | exact Hd].
Qed.

(* a compilation error raised while the cards of a function are compiled carries a location that
   resolves to a card of that function *)
Theorem compile_error_loc (cards : list card) s e l :
  (cs_idx s = [] \/ exists x, cs_idx s = [x]) ->
  process_cards cards 0 s = RErr e l ->
  exists ns idx, l = Some (ns, idx) /\ ns = cs_ns s /\
    forall (m : module) name f,
      nth_error (m_functions m) (cs_fn s) = Some (name, f) -> f_cards f = cards ->
      exists c, CardEdit.get_card m idx = CardEdit.ROk c.
Proof.
  intros Hidx H.
  destruct (process_cards_error cards cards [] s e l eq_refl Hidx H) as ([ns idx] & -> & Hok).
  exists ns, idx. cbn [fst snd] in Hok. destruct Hok as (Hns & Hfn & b & path & c0 & c & Hi & Hb & Hd).
  split; [reflexivity|]. split; [exact Hns|].
  intros m name f Hf Hcards. exists c. destruct idx as [fn li]. cbn in Hfn, Hi. subst fn.
  apply (get_card_resolves m (cs_fn s) name f li b path c0 c Hf Hi); [rewrite Hcards; exact Hb | exact Hd].
Qed.

(* finding N-C15-1 (repaired in /repo by "the count card of a Repeat is compiled under its own child
   index"): the count card used to be compiled under [.., 0, 0]; now its trace entry resolves to it *)
Definition repeat_module : module := main_module [CRepeat None (CScalarInt 3) CScalarNil].
Lemma repeat_count_index_resolves :
  exists B idx,
    compile repeat_module default_options = COk B /\
    In (0, ([], idx)) (p_trace B) /\
    CardEdit.get_card repeat_module idx = CardEdit.ROk (CScalarInt 3).
Proof.
  destruct (compile repeat_module default_options) as [B| | |] eqn:E; try (vm_compute in E; discriminate).
  exists B, {| ci_function := 0; ci_indices := [0; 0]%nat |}.
  split; [reflexivity|]. vm_compute in E. injection E as <-. split; [left; reflexivity | reflexivity].
Qed.
