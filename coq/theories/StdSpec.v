(* Specification of the standard library (property C09): what std.filter / map / any / min / max /
   min_by_key / max_by_key / sorted / sorted_by_key / to_array RETURN, as pure functions over
   ordered association lists (the entries of a table in insertion order) and a callback ORACLE
   [cb : list V -> V] (the result of the callback for a list of arguments).

   The specification is generic in the type of values [V] and of keys [K]; it is instantiated
     - with RefSem.value / Table.tkey in C09Proofs.v (theorems about the reference semantics and
       about the card programs of the library), and
     - with RefSem.tree (what the host sees of a value) in C09Check.v (the oracle applied to the
       observations of the real crate, cb = the logged calls).

   The library calls its callback with the arguments in this order (evaluation order of the
   DynamicCall card; a callee with n parameters sees the LAST n of them, the first argument goes
   to the last declared parameter):
       filter / map / any :   [index; value; key]      a callback (key, value, index)
       min/max/sorted_by_key: [value; key]             a key function (key, value)

   Ordering.  min / max use the strict comparison of the language ([better a b]: a replaces the
   best seen so far; for min a < b, for max a > b); the FIRST entry with the best key wins.
   sorted uses [lt], the comparator of stdlib.rs sort_key_cmp: keys count as numbers - integers
   and reals by value (an integer against a real EXACTLY), nil as 0, strings and tables as their
   length - and NaN keys go last; the sort is STABLE.  On keys that are valid binary64 numbers
   this is a strict weak order (SortOrderProofs.v), i.e. "not lt b a" is a total preorder.

   Definitions only; theorems in C09Proofs.v. *)
From Coq Require Import List Arith Bool.
Import ListNotations.

Set Implicit Arguments.

Section Spec.
  Variables K V : Type.
  Variable kv : K -> V.             (* a key as a value *)
  Variable iv : nat -> V.           (* an iteration index as a value *)
  Variable truthy : V -> bool.
  Variable cb : list V -> V.        (* the callback, as an oracle *)

  Definition entry : Type := (K * V)%type.

  (* the arguments the callback receives for the i-th entry *)
  Definition args3 (i : nat) (e : entry) : list V := [iv i; snd e; kv (fst e)].
  Definition args2 (e : entry) : list V := [snd e; kv (fst e)].

  (* ---- filter: the entries whose callback result is truthy, same keys, values and order ---- *)
  Fixpoint spec_filter_from (i : nat) (l : list entry) : list entry :=
    match l with
    | [] => []
    | e :: r => if truthy (cb (args3 i e)) then e :: spec_filter_from (S i) r
                else spec_filter_from (S i) r
    end.
  Definition spec_filter (l : list entry) : list entry := spec_filter_from 0 l.

  (* ---- map: the same keys in the same order, holding the callback results ---- *)
  Fixpoint spec_map_from (i : nat) (l : list entry) : list entry :=
    match l with
    | [] => []
    | e :: r => (fst e, cb (args3 i e)) :: spec_map_from (S i) r
    end.
  Definition spec_map (l : list entry) : list entry := spec_map_from 0 l.

  (* ---- any: the key of the first entry whose callback result is truthy ---- *)
  Fixpoint spec_any_from (i : nat) (l : list entry) : option K :=
    match l with
    | [] => None
    | e :: r => if truthy (cb (args3 i e)) then Some (fst e) else spec_any_from (S i) r
    end.
  Definition spec_any (l : list entry) : option K := spec_any_from 0 l.

  (* the calls filter and map make: every entry once, in table order *)
  Fixpoint calls3_from (i : nat) (l : list entry) : list (list V) :=
    match l with
    | [] => []
    | e :: r => args3 i e :: calls3_from (S i) r
    end.
  (* the calls any makes: up to and including the first truthy one *)
  Fixpoint calls_any_from (i : nat) (l : list entry) : list (list V) :=
    match l with
    | [] => []
    | e :: r => args3 i e :: (if truthy (cb (args3 i e)) then [] else calls_any_from (S i) r)
    end.

  (* ---- min / max ---- *)
  Section MinMax.
    Variable better : V -> V -> bool.     (* a strictly better key than the best so far *)
    Variable keyf : entry -> V.           (* the key function on an entry *)

    Fixpoint best_from (best : V * entry) (l : list entry) : entry :=
      match l with
      | [] => snd best
      | e :: r => if better (keyf e) (fst best) then best_from (keyf e, e) r else best_from best r
      end.
    (* None: the empty table (the library answers nil); Some (k, v): the row {key: k, value: v} *)
    Definition spec_best (l : list entry) : option entry :=
      match l with
      | [] => None
      | e :: r => Some (best_from (keyf e, e) r)
      end.
  End MinMax.

  (* ---- sorted ---- *)
  Section Sorted.
    Variable lt : V -> V -> bool.         (* strictly before *)
    Variable keyf : entry -> V.

    (* textbook insertion sort: x goes in front of the first element that is not before it *)
    Fixpoint sort_insert (x : V * entry) (l : list (V * entry)) : list (V * entry) :=
      match l with
      | [] => [x]
      | y :: r => if lt (fst y) (fst x) then y :: sort_insert x r else x :: l
      end.
    Fixpoint sort_keyed (l : list (V * entry)) : list (V * entry) :=
      match l with
      | [] => []
      | x :: r => sort_insert x (sort_keyed r)
      end.
    Definition keyed (l : list entry) : list (V * entry) := map (fun e => (keyf e, e)) l.
    Definition spec_sorted (l : list entry) : list entry := map snd (sort_keyed (keyed l)).
  End Sorted.

  (* the key functions *)
  Definition key_by_cb (e : entry) : V := cb (args2 e).      (* min_by_key, max_by_key, sorted_by_key *)
  Definition key_by_value (e : entry) : V := snd e.          (* min, max, sorted (std.row_to_value) *)
  (* the calls the _by_key functions make: every entry once, in table order *)
  Definition calls2 (l : list entry) : list (list V) := map args2 l.
End Spec.

(* ---- to_array: the values in order, re-keyed 0 .. n-1 ---- *)
Section ToArray.
  Variables K V : Type.
  Variable ik : nat -> K.           (* an index as a key *)
  Definition spec_to_array (l : list (K * V)) : list (K * V) :=
    combine (map ik (seq 0 (length l))) (map snd l).
End ToArray.
