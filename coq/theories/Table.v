(* Model of cao-lang/src/vm/runtime/cao_lang_table.rs (CaoLangTable = CaoHashMap<Value,Value> +
   Vec<Value> of keys in insertion order).  The hash part is the abstract map justified by the
   C12 refinement theorems; keys are the values the property allows as table keys. *)
From Coq Require Import Arith Lia List Bool NArith ZArith.
Import ListNotations.

Set Implicit Arguments.

(* nil, integers, finite non-zero reals (by bit pattern), strings (by content) *)
Inductive tkey := KNil | KInt (z : Z) | KReal (bits : N) | KStr (s : list N).

Fixpoint bytes_eqb (a b : list N) : bool :=
  match a, b with
  | [], [] => true
  | x :: a', y :: b' => N.eqb x y && bytes_eqb a' b'
  | _, _ => false
  end.

Definition tkey_eqb (a b : tkey) : bool :=
  match a, b with
  | KNil, KNil => true
  | KInt x, KInt y => Z.eqb x y
  | KReal x, KReal y => N.eqb x y
  | KStr x, KStr y => bytes_eqb x y
  | _, _ => false
  end.

Section Table.
  Variable V : Type.
  Variable vnil : V.

  (* the hash part as a mathematical map: association list, first match wins *)
  Definition amap := list (tkey * V).
  Fixpoint m_get (m : amap) (k : tkey) : option V :=
    match m with
    | [] => None
    | (k', v) :: r => if tkey_eqb k k' then Some v else m_get r k
    end.
  Definition m_del (m : amap) (k : tkey) : amap := filter (fun e => negb (tkey_eqb k (fst e))) m.
  Definition m_set (m : amap) (k : tkey) (v : V) : amap := (k, v) :: m_del m k.

  Record ctable := { tb_map : amap; tb_keys : list tkey }.
  Definition t_empty : ctable := {| tb_map := []; tb_keys := [] |}.

  Definition t_len (t : ctable) : nat := length (tb_keys t).
  Definition t_get (t : ctable) (k : tkey) : option V := m_get (tb_map t) k.

  (* insert: get_mut-and-overwrite, or map.insert + keys.push *)
  Definition t_insert (t : ctable) (k : tkey) (v : V) : ctable :=
    match m_get (tb_map t) k with
    | Some _ => {| tb_map := m_set (tb_map t) k v; tb_keys := tb_keys t |}
    | None => {| tb_map := m_set (tb_map t) k v; tb_keys := tb_keys t ++ [k] |}
    end.

  (* remove: keys.retain(|k| k != key, removing from the map when dropped) *)
  Definition t_remove (t : ctable) (k : tkey) : ctable :=
    {| tb_map := if existsb (tkey_eqb k) (tb_keys t) then m_del (tb_map t) k else tb_map t;
       tb_keys := filter (fun k' => negb (tkey_eqb k' k)) (tb_keys t) |}.

  (* append: `index = len; while map.contains(index) { index += 1 }`; None = the loop ran out of
     the fuel len+1, i.e. would not have stopped where the model expects *)
  Fixpoint append_search (m : amap) (i : Z) (fuel : nat) : option Z :=
    match fuel with
    | O => None
    | S f => match m_get m (KInt i) with
             | None => Some i
             | Some _ => append_search m (i + 1)%Z f
             end
    end.
  Definition t_append (t : ctable) (v : V) : option ctable :=
    match append_search (tb_map t) (Z.of_nat (t_len t)) (S (t_len t)) with
    | Some i => Some (t_insert t (KInt i) v)
    | None => None
    end.

  (* pop (as repaired): keys.pop(), then map.remove(key) *)
  Definition t_pop (t : ctable) : ctable * V :=
    match rev (tb_keys t) with
    | [] => (t, vnil)
    | k :: _ =>
        ({| tb_map := m_del (tb_map t) k; tb_keys := removelast (tb_keys t) |},
         match m_get (tb_map t) k with Some v => v | None => vnil end)
    end.

  Definition t_nth_key (t : ctable) (i : nat) : option tkey := nth_error (tb_keys t) i.

  (* iter: keys.iter().filter_map(|k| map.get(k).map(|v| (k, v))) *)
  Definition t_iter (t : ctable) : list (tkey * V) :=
    flat_map (fun k => match m_get (tb_map t) k with Some v => [(k, v)] | None => [] end) (tb_keys t).

  (* ---------- operations, for histories ---------- *)
  Inductive tbop :=
  | OInsert (k : tkey) (v : V) | ORemove (k : tkey) | OAppend (v : V) | OPop
  | OGet (k : tkey) | ONthKey (i : nat) | OLen | OIter | OKeys.
  Inductive tbout :=
  | XUnit | XVal (v : V) | XOptV (o : option V) | XOptK (o : option tkey) | XNat (n : nat)
  | XIter (l : list (tkey * V)) | XKeys (l : list tkey) | XDiverge.

  Definition tb_step (t : ctable) (o : tbop) : ctable * tbout :=
    match o with
    | OInsert k v => (t_insert t k v, XUnit)
    | ORemove k => (t_remove t k, XUnit)
    | OAppend v => match t_append t v with Some t' => (t', XUnit) | None => (t, XDiverge) end
    | OPop => let '(t', v) := t_pop t in (t', XVal v)
    | OGet k => (t, XOptV (t_get t k))
    | ONthKey i => (t, XOptK (t_nth_key t i))
    | OLen => (t, XNat (t_len t))
    | OIter => (t, XIter (t_iter t))
    | OKeys => (t, XKeys (tb_keys t))
    end.

  Fixpoint tb_run (t : ctable) (ops : list tbop) : ctable * list tbout :=
    match ops with
    | [] => (t, [])
    | o :: r => let '(t1, x) := tb_step t o in let '(t2, xs) := tb_run t1 r in (t2, x :: xs)
    end.

  (* ---------- specification: an insertion-ordered association list ---------- *)
  Definition otable := list (tkey * V).

  Fixpoint s_update (s : otable) (k : tkey) (v : V) : otable :=
    match s with
    | [] => []
    | (k', v') :: r => if tkey_eqb k k' then (k', v) :: r else (k', v') :: s_update r k v
    end.
  Definition s_insert (s : otable) (k : tkey) (v : V) : otable :=
    match m_get s k with Some _ => s_update s k v | None => s ++ [(k, v)] end.
  Definition s_remove (s : otable) (k : tkey) : otable :=
    filter (fun e => negb (tkey_eqb (fst e) k)) s.
  (* the smallest integer >= length not used as a key *)
  Definition s_append_key (s : otable) : option Z :=
    option_map Z.of_nat
      (find (fun i => match m_get s (KInt (Z.of_nat i)) with None => true | Some _ => false end)
            (seq (length s) (S (length s)))).
  Definition s_step (s : otable) (o : tbop) : otable * tbout :=
    match o with
    | OInsert k v => (s_insert s k v, XUnit)
    | ORemove k => (s_remove s k, XUnit)
    | OAppend v => match s_append_key s with
                   | Some i => (s_insert s (KInt i) v, XUnit)
                   | None => (s, XDiverge)
                   end
    | OPop => match rev s with
              | [] => (s, XVal vnil)
              | (_, v) :: _ => (removelast s, XVal v)
              end
    | OGet k => (s, XOptV (m_get s k))
    | ONthKey i => (s, XOptK (option_map fst (nth_error s i)))
    | OLen => (s, XNat (length s))
    | OIter => (s, XIter s)
    | OKeys => (s, XKeys (map fst s))
    end.
  Fixpoint s_run (s : otable) (ops : list tbop) : otable * list tbout :=
    match ops with
    | [] => (s, [])
    | o :: r => let '(s1, x) := s_step s o in let '(s2, xs) := s_run s1 r in (s2, x :: xs)
    end.
End Table.
