(* C01, simulation: fragment F9 = several functions, static calls with parameters, Return.
     module:  Module [] ((main, f0) :: others) []  - main first, without parameters; the names of the functions pairwise
              distinct; the parameters of a function pairwise distinct, non-empty, without '.';
     pure expressions e: those of F1 (ScalarInt, ScalarNil, ReadVar of a parameter / local / global, the ten operators, Not);
     right-hand sides r:  e  |  Call f [e1; ...; ek]  where f is a function declared LATER in the module than the running
              one (so the call graph is acyclic: no recursion) and k is the number of parameters of f;
     statements s:  SetGlobalVar g r | SetVar x r (x a parameter or local that exists) | Return r (not in main) |
              IfTrue e s | IfFalse e s | IfElse e s s;
     cards of a function body: a statement, or  SetVar x r  of a new name x, which declares the local x.
   A call is compiled to: the arguments left to right, FunctionPointer (handle, arity), CallFunction.  The callee's frame
   starts at the first argument: argument j is slot j, the parameters were declared in reverse order, so the FIRST declared
   parameter is the LAST argument.  A function body ends with one Pop per local (parameters included), ScalarNil, Return;
   a Return card is the value and the Return instruction (the VM truncates the stack to the frame's offset and pushes the
   value).  The handle of function number i of the module is handle_from_u64 i; its label is the address of its first
   instruction.

   The meaning is computed without fuel: [sem9 fs] gives the meaning of the calls to the functions fs, by recursion on the
   list (a function only calls later ones). *)
From Coq Require Import List NArith ZArith Bool.
From Cao Require Import ListUtil Bits CardAst Bytecode Compiler CompilerWf C01SimDefs C01SimDefs2 C01SimDefs4 C01SimDefs5.
From Cao Require RefSem Vm.
Import ListNotations.
Local Open Scope N_scope.

(* ------------------------------------------------------------------ syntax *)
(* [sg]: the functions that may be called, with their number of parameters *)
Definition sig9 : Type := list (str * nat).

Definition rhs9 (sg : sig9) (r : card) : bool :=
  match r with
  | CCall name args =>
      forallb expr_f1 args &&
      match sm_find name sg with Some n => Nat.eqb n (length args) | None => false end
  | e => expr_f1 e
  end.

Fixpoint stmt9 (sg : sig9) (ret : bool) (Ln : list str) (c : card) : bool :=
  match c with
  | CSetGlobalVar g r => negb (is_empty g) && rhs9 sg r
  | CSetVar x r => var_ok x && lmem x Ln && rhs9 sg r
  | CUn UReturn r => ret && rhs9 sg r
  | CBin BIfTrue e b | CBin BIfFalse e b => expr_f1 e && stmt9 sg ret Ln b
  | CTri TIfElse e a b => expr_f1 e && stmt9 sg ret Ln a && stmt9 sg ret Ln b
  | _ => false
  end.

Definition top9 (sg : sig9) (ret : bool) (Ln : list str) (c : card) : bool :=
  match c with
  | CSetVar x r => var_ok x && rhs9 sg r
  | _ => stmt9 sg ret Ln c
  end.
Fixpoint cards9 (sg : sig9) (ret : bool) (Ln : list str) (cards : list card) : bool :=
  match cards with
  | [] => true
  | c :: r => top9 sg ret Ln c && cards9 sg ret (names_next Ln c) r
  end.

Definition smem (x : str) (l : list str) : bool := existsb (str_eqb x) l.
Fixpoint snodup (l : list str) : bool :=
  match l with
  | [] => true
  | x :: r => negb (smem x r) && snodup r
  end.

Definition sig_of (fs : list (str * function)) : sig9 := map (fun nf => (fst nf, length (f_args (snd nf)))) fs.

Definition fn_ok9 (later : list (str * function)) (f : function) : bool :=
  forallb var_ok (f_args f) && snodup (f_args f) && cards9 (sig_of later) true (f_args f) (f_cards f).
Fixpoint fns_ok9 (fs : list (str * function)) : bool :=
  match fs with
  | [] => true
  | (_, f) :: r => fn_ok9 r f && fns_ok9 r
  end.

Definition in_f9 (M : module) : bool :=
  match M with
  | Module [] ((name, f) :: others) [] =>
      str_eqb name s_main && (match f_args f with [] => true | _ => false end) &&
      snodup (name :: map fst others) &&
      cards9 (sig_of others) false [] (f_cards f) && fns_ok9 others
  | _ => false
  end.

Definition main_fn (M : module) : function :=
  match M with Module _ ((_, f) :: _) _ => f | _ => Build_function [] [] end.
Definition other_fns (M : module) : list (str * function) :=
  match M with Module _ (_ :: r) _ => r | _ => [] end.

(* ------------------------------------------------------------------ code *)
(* name -> (handle, arity operand) *)
Definition ftab : Type := list (str * (N * N)).
Fixpoint ftab_from (i : N) (fs : list (str * function)) : ftab :=
  match fs with
  | [] => []
  | (n, f) :: r => (n, (handle_from_u64 i, N.of_nat (length (f_args f)) mod two32)) :: ftab_from (i + 1) r
  end.

Definition code_args9 (T : list (N * N)) (Ln : list str) (args : list card) : list instr :=
  flat_map (code_expr5 T Ln) args.

Definition code_rhs9 (T : list (N * N)) (FT : ftab) (Ln : list str) (r : card) : list instr :=
  match r with
  | CCall name args =>
      code_args9 T Ln args ++
      match sm_find name FT with
      | Some (h, ar) => [IFunctionPointer h ar; ICallFunction]
      | None => []
      end
  | e => code_expr5 T Ln e
  end.

Fixpoint code9 (T : list (N * N)) (FT : ftab) (Ln : list str) (base : N) (c : card) : list instr :=
  match c with
  | CSetGlobalVar g r => code_rhs9 T FT Ln r ++ [ISetGlobalVar (idT T g)]
  | CSetVar x r => code_rhs9 T FT Ln r ++ [ISetLocalVar (N.of_nat (set_slot Ln x))]
  | CUn UReturn r => code_rhs9 T FT Ln r ++ [IReturn]
  | CBin BIfTrue e b =>
      let ce := code_expr5 T Ln e in
      let cb := code9 T FT Ln (base + bytes ce + 5) b in
      ce ++ IGotoIfFalse (u32_to_i32 (base + bytes ce + 5 + bytes cb)) :: cb
  | CBin BIfFalse e b =>
      let ce := code_expr5 T Ln e in
      let cb := code9 T FT Ln (base + bytes ce + 5) b in
      ce ++ IGotoIfTrue (u32_to_i32 (base + bytes ce + 5 + bytes cb)) :: cb
  | CTri TIfElse e a b =>
      let ce := code_expr5 T Ln e in
      let ca := code9 T FT Ln (base + bytes ce + 5) a in
      let else_at := base + bytes ce + 5 + bytes ca + 5 in
      let cb := code9 T FT Ln else_at b in
      ce ++ IGotoIfFalse (u32_to_i32 else_at) :: ca ++ IGoto (u32_to_i32 (else_at + bytes cb)) :: cb
  | _ => []
  end.

(* the cards of a function body: the local context grows *)
Fixpoint code_top9 (T : list (N * N)) (FT : ftab) (Ln : list str) (base : N) (cards : list card) : list instr :=
  match cards with
  | [] => []
  | c :: r => let cc := code9 T FT Ln base c in cc ++ code_top9 T FT (names_next Ln c) (base + bytes cc) r
  end.

(* main: its cards, one Pop per local, Exit *)
Definition code_main9 (T : list (N * N)) (FT : ftab) (cards : list card) : list instr :=
  code_top9 T FT [] 0 cards ++ repeat IPop (length (names_end [] cards)) ++ [IExit].
(* another function: its cards, one Pop per local (the parameters are locals), ScalarNil, Return *)
Definition code_fn9 (T : list (N * N)) (FT : ftab) (base : N) (f : function) : list instr :=
  code_top9 T FT (f_args f) base (f_cards f) ++
  repeat IPop (length (names_end (f_args f) (f_cards f))) ++ [IScalarNil; IReturn].
Fixpoint code_fns9 (T : list (N * N)) (FT : ftab) (base : N) (fs : list (str * function)) : list instr :=
  match fs with
  | [] => []
  | (_, f) :: r => let cf := code_fn9 T FT base f in cf ++ code_fns9 T FT (base + bytes cf) r
  end.
(* where the functions start *)
Fixpoint bases9 (T : list (N * N)) (FT : ftab) (base : N) (fs : list (str * function)) : list N :=
  match fs with
  | [] => []
  | (_, f) :: r => base :: bases9 T FT (base + bytes (code_fn9 T FT base f)) r
  end.

Definition ftab_of (M : module) : ftab := ftab_from 0 (m_functions M).
Definition code_all9 (T : list (N * N)) (M : module) : list instr :=
  let FT := ftab_of M in
  let cm := code_main9 T FT (f_cards (main_fn M)) in
  cm ++ code_fns9 T FT (bytes cm) (other_fns M).
Definition bases_all9 (T : list (N * N)) (M : module) : list N :=
  let FT := ftab_of M in
  bases9 T FT (bytes (code_main9 T FT (f_cards (main_fn M)))) (other_fns M).
(* label of function number i+1 = i-th base *)
Fixpoint labels_ok9 (labels : list (N * N)) (i : N) (bs : list N) : Prop :=
  match bs with
  | [] => True
  | b :: r => nm_find (handle_from_u64 i) labels = Some b /\ labels_ok9 labels (i + 1) r
  end.

(* ------------------------------------------------------------------ names and depth *)
Definition rhs_gnames9 (Ln : list str) (r : card) : list str :=
  match r with
  | CCall _ args => flat_map (expr_gnames Ln) args
  | e => expr_gnames Ln e
  end.
Fixpoint stmt_gnames9 (Ln : list str) (c : card) : list str :=
  match c with
  | CSetGlobalVar g r => rhs_gnames9 Ln r ++ [g]
  | CSetVar _ r => rhs_gnames9 Ln r
  | CUn UReturn r => rhs_gnames9 Ln r
  | CBin _ e b => expr_gnames Ln e ++ stmt_gnames9 Ln b
  | CTri _ e a b => expr_gnames Ln e ++ stmt_gnames9 Ln a ++ stmt_gnames9 Ln b
  | _ => []
  end.
Fixpoint top_gnames9 (Ln : list str) (cards : list card) : list str :=
  match cards with
  | [] => []
  | c :: r => stmt_gnames9 Ln c ++ top_gnames9 (names_next Ln c) r
  end.
Definition fn_gnames9 (f : function) : list str := top_gnames9 (f_args f) (f_cards f).
Definition gnames9 (M : module) : list str := flat_map (fun nf => fn_gnames9 (snd nf)) (m_functions M).

(* temporaries of a right-hand side: argument number k is evaluated above k values; the function pointer above all *)
Fixpoint depth_args (args : list card) : nat :=
  match args with
  | [] => 1
  | a :: r => Nat.max (depth a) (S (depth_args r))
  end.
Definition rhs_depth9 (r : card) : nat :=
  match r with
  | CCall _ args => depth_args args
  | e => depth e
  end.
Fixpoint stmt_depth9 (c : card) : nat :=
  match c with
  | CSetGlobalVar _ r | CSetVar _ r | CUn UReturn r => rhs_depth9 r
  | CBin _ e b => Nat.max (depth e) (stmt_depth9 b)
  | CTri _ e a b => Nat.max (depth e) (Nat.max (stmt_depth9 a) (stmt_depth9 b))
  | _ => 0
  end.
(* what a frame of f needs: its locals at the end (parameters included), the deepest card, and two *)
Definition frame_need9 (f : function) : nat :=
  length (names_end (f_args f) (f_cards f)) +
  fold_right (fun c m => Nat.max (stmt_depth9 c) m) 0%nat (f_cards f) + 2.
Definition stack_need9 (M : module) : nat :=
  fold_right (fun nf m => frame_need9 (snd nf) + m)%nat 0%nat (m_functions M).
(* the frames of one chain of calls (every function at most once) fit the value stack and the call stack *)
Definition depth_ok9 (M : module) : bool :=
  Nat.ltb (stack_need9 M) Vm.stack_size && Nat.ltb (S (length (m_functions M))) Vm.call_stack_size.

(* ------------------------------------------------------------------ meaning *)
Inductive out9 := ONorm9 | ORet9 (v : RefSem.value) | OErr9.      (* OErr9: VarNotFound *)

Fixpoint evs9 (g : list (str * RefSem.value)) (es : list card) : option (list RefSem.value) :=
  match es with
  | [] => Some []
  | e :: r => match ev g e with
              | None => None
              | Some v => match evs9 g r with Some vs => Some (v :: vs) | None => None end
              end
  end.

(* a call: None = the run fails (VarNotFound) with the globals returned *)
Definition callsem9 : Type := str -> list RefSem.value -> gl -> option RefSem.value * gl.

Definition run_rhs9 (cs : callsem9) (R : lstore) (g : gl) (r : card) : option RefSem.value * gl :=
  match r with
  | CCall name args =>
      match evs9 (R ++ g) args with
      | Some vs => cs name vs g
      | None => (None, g)
      end
  | e => (ev (R ++ g) e, g)
  end.

Fixpoint run9 (cs : callsem9) (R : lstore) (g : gl) (c : card) : out9 * lstore * gl :=
  match c with
  | CSetGlobalVar n r =>
      match run_rhs9 cs R g r with
      | (Some v, g1) => (ONorm9, R, RefSem.set_assoc n v g1)
      | (None, g1) => (OErr9, R, g1)
      end
  | CSetVar x r =>
      match run_rhs9 cs R g r with
      | (Some v, g1) => (ONorm9, sets_local x v R, g1)
      | (None, g1) => (OErr9, R, g1)
      end
  | CUn UReturn r =>
      match run_rhs9 cs R g r with
      | (Some v, g1) => (ORet9 v, R, g1)
      | (None, g1) => (OErr9, R, g1)
      end
  | CBin BIfTrue e b =>
      match ev (R ++ g) e with
      | None => (OErr9, R, g)
      | Some v => if RefSem.v_bool [] v then run9 cs R g b else (ONorm9, R, g)
      end
  | CBin BIfFalse e b =>
      match ev (R ++ g) e with
      | None => (OErr9, R, g)
      | Some v => if RefSem.v_bool [] v then (ONorm9, R, g) else run9 cs R g b
      end
  | CTri TIfElse e a b =>
      match ev (R ++ g) e with
      | None => (OErr9, R, g)
      | Some v => if RefSem.v_bool [] v then run9 cs R g a else run9 cs R g b
      end
  | _ => (ONorm9, R, g)
  end.

Fixpoint runs9 (cs : callsem9) (R : lstore) (g : gl) (l : list card) : out9 * lstore * gl :=
  match l with
  | [] => (ONorm9, R, g)
  | x :: r => match run9 cs R g x with
              | (ONorm9, R1, g1) => runs9 cs R1 g1 r
              | other => other
              end
  end.

(* the body of f on the argument values (first argument first): the first parameter is the last argument;
   a body that ends without Return yields nil *)
Definition call9 (later : callsem9) (f : function) (vals : list RefSem.value) (g : gl) : option RefSem.value * gl :=
  match runs9 later (combine (f_args f) (rev vals)) g (f_cards f) with
  | (ONorm9, _, g1) => (Some RefSem.VNil, g1)
  | (ORet9 v, _, g1) => (Some v, g1)
  | (OErr9, _, g1) => (None, g1)
  end.

Fixpoint sem9 (fs : list (str * function)) : callsem9 :=
  match fs with
  | [] => fun _ _ g => (None, g)         (* not reached by a program of the fragment *)
  | (n, f) :: r => fun name vals g => if str_eqb name n then call9 (sem9 r) f vals g else sem9 r name vals g
  end.

(* the whole program: main's cards; true = it ran to its end *)
Definition run_main9 (M : module) : bool * gl :=
  match runs9 (sem9 (other_fns M)) [] [] (f_cards (main_fn M)) with
  | (ONorm9, _, g) => (true, g)
  | (_, _, g) => (false, g)
  end.
