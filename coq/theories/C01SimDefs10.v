(* C01, simulation: fragment F10 = F9 (C01SimDefs9: several functions, static calls with parameters to functions declared
   later, Return, If cards) plus a call as a STATEMENT card:
     statements s:  ... as in F9 ... |  Call f [e1; ...; ek]   (f declared later, k its number of parameters)
   in function bodies, in main and inside If cards.  The compiler emits for a call statement exactly what it emits for a
   call on a right-hand side: the arguments, FunctionPointer, CallFunction - and nothing else.  The value the callee
   returns is therefore LEFT ON THE VALUE STACK above the locals of the running frame ("junk").  The junk values are never
   read: locals are addressed relative to the frame offset; the declaration of the next local (SetLocalVar of the slot
   number = number of locals) overwrites the lowest junk value instead of extending the stack; the Pops at the end of a
   body remove as many values as there are locals, from the top - junk first -, so up to that many values stay under the
   ScalarNil the closing Return pushes: Return cuts the stack at the frame's offset, which removes them.  (In main they
   stay on the stack when the program exits.)
   Right-hand sides, the call table, the labels, out9 and callsem9 are those of F9.  Each junk value needs a slot of the
   value stack: [njunk] counts the call statements of a body and frame_need10 adds that number. *)
From Coq Require Import List NArith ZArith Bool.
From Cao Require Import ListUtil Bits CardAst Bytecode Compiler CompilerWf C01SimDefs C01SimDefs2 C01SimDefs4 C01SimDefs5 C01SimDefs9.
From Cao Require RefSem Vm.
Import ListNotations.
Local Open Scope N_scope.

(* ------------------------------------------------------------------ syntax *)
Fixpoint stmt10 (sg : sig9) (ret : bool) (Ln : list str) (c : card) : bool :=
  match c with
  | CSetGlobalVar g r => negb (is_empty g) && rhs9 sg r
  | CSetVar x r => var_ok x && lmem x Ln && rhs9 sg r
  | CUn UReturn r => ret && rhs9 sg r
  | CCall name args => rhs9 sg (CCall name args)
  | CBin BIfTrue e b | CBin BIfFalse e b => expr_f1 e && stmt10 sg ret Ln b
  | CTri TIfElse e a b => expr_f1 e && stmt10 sg ret Ln a && stmt10 sg ret Ln b
  | _ => false
  end.

Definition top10 (sg : sig9) (ret : bool) (Ln : list str) (c : card) : bool :=
  match c with
  | CSetVar x r => var_ok x && rhs9 sg r
  | _ => stmt10 sg ret Ln c
  end.
Fixpoint cards10 (sg : sig9) (ret : bool) (Ln : list str) (cards : list card) : bool :=
  match cards with
  | [] => true
  | c :: r => top10 sg ret Ln c && cards10 sg ret (names_next Ln c) r
  end.

Definition fn_ok10 (later : list (str * function)) (f : function) : bool :=
  forallb var_ok (f_args f) && snodup (f_args f) && cards10 (sig_of later) true (f_args f) (f_cards f).
Fixpoint fns_ok10 (fs : list (str * function)) : bool :=
  match fs with
  | [] => true
  | (_, f) :: r => fn_ok10 r f && fns_ok10 r
  end.

Definition in_f10 (M : module) : bool :=
  match M with
  | Module [] ((name, f) :: others) [] =>
      str_eqb name s_main && (match f_args f with [] => true | _ => false end) &&
      snodup (name :: map fst others) &&
      cards10 (sig_of others) false [] (f_cards f) && fns_ok10 others
  | _ => false
  end.

(* ------------------------------------------------------------------ code *)
Fixpoint code10 (T : list (N * N)) (FT : ftab) (Ln : list str) (base : N) (c : card) : list instr :=
  match c with
  | CSetGlobalVar g r => code_rhs9 T FT Ln r ++ [ISetGlobalVar (idT T g)]
  | CSetVar x r => code_rhs9 T FT Ln r ++ [ISetLocalVar (N.of_nat (set_slot Ln x))]
  | CUn UReturn r => code_rhs9 T FT Ln r ++ [IReturn]
  | CCall name args => code_rhs9 T FT Ln (CCall name args)
  | CBin BIfTrue e b =>
      let ce := code_expr5 T Ln e in
      let cb := code10 T FT Ln (base + bytes ce + 5) b in
      ce ++ IGotoIfFalse (u32_to_i32 (base + bytes ce + 5 + bytes cb)) :: cb
  | CBin BIfFalse e b =>
      let ce := code_expr5 T Ln e in
      let cb := code10 T FT Ln (base + bytes ce + 5) b in
      ce ++ IGotoIfTrue (u32_to_i32 (base + bytes ce + 5 + bytes cb)) :: cb
  | CTri TIfElse e a b =>
      let ce := code_expr5 T Ln e in
      let ca := code10 T FT Ln (base + bytes ce + 5) a in
      let else_at := base + bytes ce + 5 + bytes ca + 5 in
      let cb := code10 T FT Ln else_at b in
      ce ++ IGotoIfFalse (u32_to_i32 else_at) :: ca ++ IGoto (u32_to_i32 (else_at + bytes cb)) :: cb
  | _ => []
  end.

Fixpoint code_top10 (T : list (N * N)) (FT : ftab) (Ln : list str) (base : N) (cards : list card) : list instr :=
  match cards with
  | [] => []
  | c :: r => let cc := code10 T FT Ln base c in cc ++ code_top10 T FT (names_next Ln c) (base + bytes cc) r
  end.

Definition code_main10 (T : list (N * N)) (FT : ftab) (cards : list card) : list instr :=
  code_top10 T FT [] 0 cards ++ repeat IPop (length (names_end [] cards)) ++ [IExit].
Definition code_fn10 (T : list (N * N)) (FT : ftab) (base : N) (f : function) : list instr :=
  code_top10 T FT (f_args f) base (f_cards f) ++
  repeat IPop (length (names_end (f_args f) (f_cards f))) ++ [IScalarNil; IReturn].
Fixpoint code_fns10 (T : list (N * N)) (FT : ftab) (base : N) (fs : list (str * function)) : list instr :=
  match fs with
  | [] => []
  | (_, f) :: r => let cf := code_fn10 T FT base f in cf ++ code_fns10 T FT (base + bytes cf) r
  end.
Fixpoint bases10 (T : list (N * N)) (FT : ftab) (base : N) (fs : list (str * function)) : list N :=
  match fs with
  | [] => []
  | (_, f) :: r => base :: bases10 T FT (base + bytes (code_fn10 T FT base f)) r
  end.

Definition code_all10 (T : list (N * N)) (M : module) : list instr :=
  let FT := ftab_of M in
  let cm := code_main10 T FT (f_cards (main_fn M)) in
  cm ++ code_fns10 T FT (bytes cm) (other_fns M).
Definition bases_all10 (T : list (N * N)) (M : module) : list N :=
  let FT := ftab_of M in
  bases10 T FT (bytes (code_main10 T FT (f_cards (main_fn M)))) (other_fns M).

(* ------------------------------------------------------------------ names and depth *)
Fixpoint stmt_gnames10 (Ln : list str) (c : card) : list str :=
  match c with
  | CSetGlobalVar g r => rhs_gnames9 Ln r ++ [g]
  | CSetVar _ r => rhs_gnames9 Ln r
  | CUn UReturn r => rhs_gnames9 Ln r
  | CCall name args => rhs_gnames9 Ln (CCall name args)
  | CBin _ e b => expr_gnames Ln e ++ stmt_gnames10 Ln b
  | CTri _ e a b => expr_gnames Ln e ++ stmt_gnames10 Ln a ++ stmt_gnames10 Ln b
  | _ => []
  end.
Fixpoint top_gnames10 (Ln : list str) (cards : list card) : list str :=
  match cards with
  | [] => []
  | c :: r => stmt_gnames10 Ln c ++ top_gnames10 (names_next Ln c) r
  end.
Definition fn_gnames10 (f : function) : list str := top_gnames10 (f_args f) (f_cards f).
Definition gnames10 (M : module) : list str := flat_map (fun nf => fn_gnames10 (snd nf)) (m_functions M).

Fixpoint stmt_depth10 (c : card) : nat :=
  match c with
  | CSetGlobalVar _ r | CSetVar _ r | CUn UReturn r => rhs_depth9 r
  | CCall name args => rhs_depth9 (CCall name args)
  | CBin _ e b => Nat.max (depth e) (stmt_depth10 b)
  | CTri _ e a b => Nat.max (depth e) (Nat.max (stmt_depth10 a) (stmt_depth10 b))
  | _ => 0
  end.
(* the number of call statements of a card: each may leave one value on the stack *)
Fixpoint njunk (c : card) : nat :=
  match c with
  | CCall _ _ => 1
  | CBin _ _ b => njunk b
  | CTri _ _ a b => njunk a + njunk b
  | _ => 0
  end.
Definition njunks (cards : list card) : nat := fold_right (fun c m => njunk c + m)%nat 0%nat cards.
(* what a frame of f needs: its locals at the end (parameters included), the values its call statements leave, the
   deepest card, and two *)
Definition frame_need10 (f : function) : nat :=
  length (names_end (f_args f) (f_cards f)) + njunks (f_cards f) +
  fold_right (fun c m => Nat.max (stmt_depth10 c) m) 0%nat (f_cards f) + 2.
Definition stack_need10 (M : module) : nat :=
  fold_right (fun nf m => frame_need10 (snd nf) + m)%nat 0%nat (m_functions M).
Definition depth_ok10 (M : module) : bool :=
  Nat.ltb (stack_need10 M) Vm.stack_size && Nat.ltb (S (length (m_functions M))) Vm.call_stack_size.

(* ------------------------------------------------------------------ meaning *)
Fixpoint run10 (cs : callsem9) (R : lstore) (g : gl) (c : card) : out9 * lstore * gl :=
  match c with
  | CSetGlobalVar n r =>
      match run_rhs9 cs R g r with
      | (Some v, g1) => (ONorm9, R, RefSem.set_assoc n v g1)
      | (None, g1) => (OErr9, R, g1)
      end
  | CSetVar x r =>
      match run_rhs9 cs R g r with
      | (Some v, g1) => (ONorm9, sets_local x v R, g1)
      | (None, g1) => (OErr9, R, g1)
      end
  | CUn UReturn r =>
      match run_rhs9 cs R g r with
      | (Some v, g1) => (ORet9 v, R, g1)
      | (None, g1) => (OErr9, R, g1)
      end
  | CCall name args =>                       (* the value is dropped *)
      match run_rhs9 cs R g (CCall name args) with
      | (Some _, g1) => (ONorm9, R, g1)
      | (None, g1) => (OErr9, R, g1)
      end
  | CBin BIfTrue e b =>
      match ev (R ++ g) e with
      | None => (OErr9, R, g)
      | Some v => if RefSem.v_bool [] v then run10 cs R g b else (ONorm9, R, g)
      end
  | CBin BIfFalse e b =>
      match ev (R ++ g) e with
      | None => (OErr9, R, g)
      | Some v => if RefSem.v_bool [] v then (ONorm9, R, g) else run10 cs R g b
      end
  | CTri TIfElse e a b =>
      match ev (R ++ g) e with
      | None => (OErr9, R, g)
      | Some v => if RefSem.v_bool [] v then run10 cs R g a else run10 cs R g b
      end
  | _ => (ONorm9, R, g)
  end.

Fixpoint runs10 (cs : callsem9) (R : lstore) (g : gl) (l : list card) : out9 * lstore * gl :=
  match l with
  | [] => (ONorm9, R, g)
  | x :: r => match run10 cs R g x with
              | (ONorm9, R1, g1) => runs10 cs R1 g1 r
              | other => other
              end
  end.

(* a body that ends without Return yields nil *)
Definition call10 (later : callsem9) (f : function) (vals : list RefSem.value) (g : gl) : option RefSem.value * gl :=
  match runs10 later (combine (f_args f) (rev vals)) g (f_cards f) with
  | (ONorm9, _, g1) => (Some RefSem.VNil, g1)
  | (ORet9 v, _, g1) => (Some v, g1)
  | (OErr9, _, g1) => (None, g1)
  end.

Fixpoint sem10 (fs : list (str * function)) : callsem9 :=
  match fs with
  | [] => fun _ _ g => (None, g)
  | (n, f) :: r => fun name vals g => if str_eqb name n then call10 (sem10 r) f vals g else sem10 r name vals g
  end.

Definition run_main10 (M : module) : bool * gl :=
  match runs10 (sem10 (other_fns M)) [] [] (f_cards (main_fn M)) with
  | (ONorm9, _, g) => (true, g)
  | (_, _, g) => (false, g)
  end.
