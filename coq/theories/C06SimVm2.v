(* C06, refinement, VM side, second part: the representation relation across the END OF A SCOPE.
   CloseUpvalue k (emitted by scope_end for a captured local) and Return close the open upvalues of the slots that
   go away: every cell that lived in such a slot and is captured moves into the upvalue object ([close_map]),
   with its value; every upvalue address of every closure object denotes the SAME cell afterwards
   (the variable outlives its scope, sibling closures still share it); closure objects are untouched.
   RegisterUpvalue (index, local) - the capture itself - adds to the closure under construction an upvalue
   address that denotes the cell of the captured slot (capture by reference). *)
From Coq Require Import List NArith ZArith Bool Lia Sorted.
From Cao Require Import ListUtil Bits Stacks Vm VmUpvalueProofs VmUpvalueStep VmUpvalueSem C06SimDefs C06SimVm.
From Cao Require RefSem.
Import ListNotations.

(* ------------------------------------------------------------------ the open list *)
Lemma addr_of_slot_some l : forall a i, addr_of_slot l i = Some a -> In (a, i) l.
Proof.
  induction l as [|[a0 k] r IH]; cbn [addr_of_slot]; intros a i H; [discriminate|].
  destruct (Nat.eqb_spec k i) as [->|Hne].
  - injection H as <-. left. reflexivity.
  - right. apply IH, H.
Qed.

Lemma addr_of_slot_in l : forall a i, desc (slots l) -> In (a, i) l -> addr_of_slot l i = Some a.
Proof.
  induction l as [|[a0 k] r IH]; intros a i Hd Hin; [destruct Hin|]. cbn [addr_of_slot].
  cbn [slots map snd] in Hd. apply desc_cons_inv in Hd. destruct Hd as [Hd Hlt].
  destruct Hin as [E|Hin].
  - injection E as -> ->. rewrite Nat.eqb_refl. reflexivity.
  - destruct (Nat.eqb_spec k i) as [->|Hne].
    + exfalso. rewrite Forall_forall in Hlt. specialize (Hlt i).
      assert (In i (map snd r)) by (change i with (snd (a, i)); apply in_map, Hin). specialize (Hlt H). lia.
    + apply IH; assumption.
Qed.

Section OpenFacts.
  Variables (h : heap) (c : option N) (capn : nat) (l : list (N * nat)).
  Hypothesis Hok : hopen_ok h c capn l.

  Lemma open_in_obj a k : In (a, k) l -> exists v nx, hget h a = Some (OUp (mkUp (Some k) v nx)).
  Proof.
    destruct Hok as (Hs & _). intros Hin. destruct (seg_view _ _ _ _ _ _ Hs Hin) as (nx & Hv).
    destruct (oview_some _ _ _ Hv) as (v & E). eauto.
  Qed.

  Lemma open_obj_in a u k : hget h a = Some (OUp u) -> u_loc u = Some k -> In (a, k) l.
  Proof.
    destruct Hok as (Hs & _ & _ & Hall). intros Ha Hk.
    assert (Hv : oview (hget h a) <> None) by (rewrite Ha; cbn; rewrite Hk; discriminate).
    apply Hall in Hv. unfold addrs in Hv. apply in_map_iff in Hv. destruct Hv as ([a' k'] & E & Hin).
    cbn in E. subst a'. destruct (open_in_obj _ _ Hin) as (v & nx & Ha'). rewrite Ha in Ha'.
    injection Ha' as ->. cbn in Hk. injection Hk as ->. exact Hin.
  Qed.

  Lemma open_slot_det a k k' : In (a, k) l -> In (a, k') l -> k = k'.
  Proof.
    intros H1 H2. destruct (open_in_obj _ _ H1) as (v & nx & E1). destruct (open_in_obj _ _ H2) as (v' & nx' & E2).
    rewrite E1 in E2. injection E2 as -> _ _. reflexivity.
  Qed.

  Lemma closed_not_in a w nx k : hget h a = Some (OUp (mkUp None w nx)) -> ~ In (a, k) l.
  Proof. intros Ha Hin. destruct (open_in_obj _ _ Hin) as (v & nx' & E). rewrite Ha in E. discriminate. Qed.

  Lemma plain_not_in a o k : hget h a = Some o -> (forall u, o <> OUp u) -> ~ In (a, k) l.
  Proof. intros Ha Hn Hin. destruct (open_in_obj _ _ Hin) as (v & nx' & E). rewrite Ha in E. injection E as ->. eapply Hn; eauto. Qed.
End OpenFacts.

Lemma close_map_inv newtop l R c l0 :
  close_map newtop l R c = Some l0 ->
  (exists i, R c = Some (LSlot i) /\ i < newtop /\ l0 = LSlot i) \/
  (exists i a, R c = Some (LSlot i) /\ newtop <= i /\ In (a, i) l /\ l0 = LUp a) \/
  (exists a, R c = Some (LUp a) /\ l0 = LUp a).
Proof.
  unfold close_map. destruct (R c) as [[i|a]|]; [| |discriminate].
  - destruct (Nat.ltb_spec i newtop).
    + intros E. injection E as <-. left. eauto.
    + destruct (addr_of_slot l i) as [a|] eqn:Ea; [|discriminate]. intros E. injection E as <-.
      right. left. exists i, a. repeat split; auto. apply addr_of_slot_some, Ea.
  - intros E. injection E as <-. right. right. eauto.
Qed.

(* what the closing of the upvalues at or above [newtop] does to the representation: the common part of
   CloseUpvalue and Return.  [s'] has the stack of [s]; its heap is the heap of [s] with the open upvalues of the
   slots >= newtop closed, each with the value of its slot. *)
Lemma rep_closing K R top cells s s' l newtop :
  hopen_ok (st_heap s) (st_open s) (cap s) l -> rep K R top cells s -> newtop <= top ->
  st_stack s' = st_stack s ->
  (forall a loc, In (a, loc) l -> newtop <= loc ->
     exists nx, hget (st_heap s') a = Some (OUp (mkUp None (sraw_get s loc) nx))) ->
  (forall x, (forall loc, In (x, loc) l -> loc < newtop) -> hget (st_heap s') x = hget (st_heap s) x) ->
  rep K (close_map newtop l R) newtop cells s' /\
  (forall ua c, up_cell R s ua c -> up_cell (close_map newtop l R) s' ua c) /\
  (forall a o, hget (st_heap s) a = Some o -> (forall u, o <> OUp u) -> hget (st_heap s') a = Some o).
Proof.
  intros Hok Hrep Hle Hst Hcl Hun.
  assert (Hraw : forall i, sraw_get s' i = sraw_get s i) by (intros i; apply sraw_get_stack, Hst).
  assert (Hclosed_same : forall a w nx, hget (st_heap s) a = Some (OUp (mkUp None w nx)) ->
                                        hget (st_heap s') a = hget (st_heap s) a).
  { intros a w nx Ha. apply Hun. intros loc Hin. exfalso. eapply closed_not_in; eauto. }
  split; [|split].
  - constructor.
    + intros c l0 Hl0. apply close_map_inv in Hl0.
      destruct Hl0 as [(i & Hc & Hi & ->)|[(i & a & Hc & Hi & Hin & ->)|(a & Hc & ->)]];
        destruct (rep_cell _ _ _ _ _ Hrep c _ Hc) as (v & Hv & Hp); exists v; (split; [exact Hv|]);
        cbn [place_holds] in *.
      * rewrite Hraw. exact Hp.
      * destruct (Hcl _ _ Hin Hi) as (nx & Ha). eauto.
      * destruct Hp as (w & nx & Ha & Hw). exists w, nx. rewrite (Hclosed_same _ _ _ Ha). auto.
    + intros c c' l0 H1 H2. apply close_map_inv in H1. apply close_map_inv in H2.
      destruct H1 as [(i & Hc & Hi & ->)|[(i & a & Hc & Hi & Hin & ->)|(a & Hc & ->)]];
      destruct H2 as [(i' & Hc' & Hi' & E)|[(i' & a' & Hc' & Hi' & Hin' & E)|(a' & Hc' & E)]];
        try discriminate E.
      * injection E as <-. eapply rep_inj; eauto.
      * injection E as <-. assert (i = i') by (eapply open_slot_det; eauto). subst i'. eapply rep_inj; eauto.
      * injection E as <-. exfalso.
        destruct (rep_cell _ _ _ _ _ Hrep c' _ Hc') as (v & _ & w & nx & Ha & _). eapply closed_not_in; eauto.
      * injection E as <-. exfalso.
        destruct (rep_cell _ _ _ _ _ Hrep c _ Hc) as (v & _ & w & nx & Ha & _). eapply closed_not_in; eauto.
      * injection E as <-. eapply rep_inj; eauto.
    + intros c i Hl0. apply close_map_inv in Hl0.
      destruct Hl0 as [(i' & Hc & Hi & E)|[(i' & a & Hc & Hi & Hin & E)|(a & Hc & E)]]; try discriminate E.
      injection E as <-. exact Hi.
    + unfold scount. rewrite Hst. pose proof (rep_room _ _ _ _ _ Hrep). unfold scount in *. lia.
  - intros ua c (u & Hua & Hc). unfold up_place in Hc. destruct u as [[i|] uv un]; cbn [u_loc] in Hc.
    + assert (Hin : In (ua, i) l) by (eapply open_obj_in; eauto).
      destruct (Nat.ltb_spec i newtop) as [Hlt|Hge].
      * exists (mkUp (Some i) uv un). split.
        { rewrite Hun; [exact Hua|]. intros loc Hin'. rewrite (open_slot_det _ _ _ _ Hok _ _ _ Hin' Hin). exact Hlt. }
        unfold close_map, up_place. rewrite Hc. cbn [u_loc]. destruct (Nat.ltb_spec i newtop); [reflexivity|lia].
      * destruct (Hcl _ _ Hin Hge) as (nx & Ha). eexists. split; [exact Ha|].
        unfold close_map, up_place. rewrite Hc. cbn [u_loc]. destruct (Nat.ltb_spec i newtop); [lia|].
        destruct Hok as (_ & Hd & _). rewrite (addr_of_slot_in _ _ _ Hd Hin). reflexivity.
    + exists (mkUp None uv un). split; [rewrite (Hclosed_same _ _ _ Hua); exact Hua|].
      unfold close_map, up_place. rewrite Hc. reflexivity.
  - intros a o Ha Hn. rewrite Hun; [exact Ha|]. intros loc Hin. exfalso. eapply plain_not_in; eauto.
Qed.

Section Scope.
  Variable F : fops.
  Variable bld : build.
  Variable P : program.
  Variable reenter : N -> state -> rres.
  Notation STEP := (step F bld P reenter).

  Variable K : clomap.
  Variable R : cellmap.

  (* ---------------------------------------------------------------- CloseUpvalue *)
  Theorem rep_close_upvalue : forall ip0 s idx off l top cells,
    opcode_at P ip0 = 46%N -> op_u32 P (ip0 + 1) = Some idx -> top_offset s = Some off ->
    vm_ok s -> open_list s l -> rep K R top cells s ->
    let newtop := off + N.to_nat idx in
    newtop <= top ->
    exists s', STEP ip0 s = SNext (ip0 + 1 + 4) s' /\ vm_ok s' /\ open_list s' (kept_by newtop l) /\
      st_stack s' = st_stack s /\ st_calls s' = st_calls s /\ st_globals s' = st_globals s /\
      (* the cells of the closed slots live on in the upvalue objects *)
      rep K (close_map newtop l R) newtop cells s' /\
      (* every upvalue address denotes the cell it denoted *)
      (forall ua c, up_cell R s ua c -> up_cell (close_map newtop l R) s' ua c) /\
      (* closure objects (and every other non-upvalue object) are untouched *)
      (forall a o, hget (st_heap s) a = Some o -> (forall u, o <> OUp u) -> hget (st_heap s') a = Some o).
  Proof.
    intros ip0 s idx off l top cells Hop Ei Eo Hs Hl Hrep newtop Hle.
    destruct (close_upvalue_spec F bld P reenter ip0 s idx off l Hop Ei Eo Hs Hl)
      as (s' & E & Hs' & Hl' & (A1 & A2 & A3 & _) & Hcl & Hun).
    exists s'. split; [exact E|]. split; [exact Hs'|]. split; [exact Hl'|].
    split; [exact A1|]. split; [exact A2|]. split; [exact A3|].
    apply (rep_closing K R top cells s s' l newtop (vm_ok_list _ _ Hs Hl) Hrep Hle A1 Hcl Hun).
  Qed.
End Scope.
