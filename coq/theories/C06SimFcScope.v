(* C06, fragment FC: every program of FC is well-scoped (RefScope.well_scoped, the class the properties quantify over). *)
From Coq Require Import List NArith ZArith Bool Arith Lia.
From Cao Require Import CheckUtil CardAst Table RefSem RefScope StdlibGen C01SimDefs C01SimRef C01SimDefs2 C01SimDefs4
     C01SimDefs5 C01SimRef5 C01SimScope C06SimFcDefs C06SimFcRef3.
Import ListNotations.

Section Ws.
Variable P : list fentry.
Variable fi : nat.

Lemma expr_fc_ws Lc e : expr_fc Lc e = true ->
  forall ret decl loc up, ws P fi ret decl loc up e = Some loc /\ yields e = Some 1.
Proof. unfold expr_fc. intros H. apply andb_true_iff in H. destruct H as [H _]. apply expr_ws, H. Qed.

Lemma expr_fc_f1 Lc e : expr_fc Lc e = true -> expr_f1 e = true.
Proof. unfold expr_fc. intros H. apply andb_true_iff in H. apply H. Qed.

Lemma bstmt_ws Ln Lc c : bstmt_fc Ln Lc c = true -> ws P fi true true [] (Ln ++ []) c = Some [].
Proof.
  intros Hc. destruct c; cbn [bstmt_fc] in Hc; try discriminate Hc.
  - apply andb_true_iff in Hc. destruct Hc as [Hne He]. rewrite is_empty_conv in Hne.
    destruct (expr_fc_ws _ _ He true false [] (Ln ++ [])) as [A1 B1]. apply expr_fc_f1 in He.
    cbn [ws]. rewrite Hne. destruct c; try discriminate He; rewrite A1, B1; reflexivity.
  - apply andb_true_iff in Hc. destruct Hc as [Hc He]. apply andb_true_iff in Hc. destruct Hc as [Hc _].
    apply andb_true_iff in Hc. destruct Hc as [Hx Hm].
    unfold var_ok in Hx. apply andb_true_iff in Hx. destruct Hx as [Hne Hdot].
    apply negb_true_iff in Hne, Hdot. rewrite is_empty_conv in Hne.
    destruct (expr_fc_ws _ _ He true false [] (Ln ++ [])) as [A1 B1]. apply expr_fc_f1 in He.
    cbn [ws]. rewrite (rsplit_no_dot _ Hdot), Hne, app_nil_r, (mem_lmem name Ln), Hm. cbn [mem existsb orb].
    rewrite app_nil_r in A1. destruct c; try discriminate He; rewrite A1, B1; reflexivity.
Qed.

Lemma top_ws_fc Ln Lc c : top_fc Ln Lc c = true -> forall ret, ws P fi ret true Ln [] c = Some (names_next Ln c).
Proof.
  intros Hc ret. destruct c; try discriminate Hc.
  - (* SetGlobalVar *)
    destruct (top_setglobal_shape _ _ _ _ Hc) as [(Hne & He & _)|(x & -> & Hne & Hx & _)].
    + destruct (expr_fc_ws _ _ He ret false Ln []) as [A1 B1]. apply expr_fc_f1 in He.
      cbn [ws names_next]. rewrite Hne. destruct c; try discriminate He; rewrite A1, B1; reflexivity.
    + unfold var_ok in Hx. apply andb_true_iff in Hx. destruct Hx as [Hne2 Hdot].
      apply negb_true_iff in Hne2, Hdot. rewrite is_empty_conv in Hne2.
      cbn [ws yields names_next]. rewrite Hne, (var_base_no_dot _ Hdot), Hne2. reflexivity.
  - (* SetVar *)
    destruct (top_setvar_shape _ _ _ _ Hc) as [(_ & Hx & _ & He & _ & _)|(body & -> & Hx & Hxl & Hb)];
      unfold var_ok in Hx; apply andb_true_iff in Hx; destruct Hx as [Hne Hdot];
      apply negb_true_iff in Hne, Hdot; rewrite is_empty_conv in Hne.
    + destruct (expr_fc_ws _ _ He ret false Ln []) as [A1 B1]. apply expr_fc_f1 in He.
      cbn [ws names_next].
      rewrite (rsplit_no_dot _ Hdot), Hne, (mem_lmem name Ln). cbn [mem existsb orb]. rewrite orb_false_r.
      destruct c; try discriminate He; rewrite A1, B1; cbn [negb]; destruct (lmem name Ln); reflexivity.
    + assert (Hgo : (fix go (l : list card) (cloc : list str) : option (list str) :=
                        match l with
                        | [] => Some cloc
                        | x :: r => match ws P fi true true cloc (Ln ++ []) x with Some l' => go r l' | None => None end
                        end) body [] = Some []).
      { clear Hc. induction body as [|b r IH]; [reflexivity|]. cbn [forallb] in Hb. apply andb_true_iff in Hb.
        destruct Hb as [H1 H2]. rewrite (bstmt_ws _ _ _ H1). apply IH, H2. }
      cbn [ws yields names_next nodup forallb andb]. rewrite Hgo. cbn [negb].
      rewrite (rsplit_no_dot _ Hdot), Hne, (mem_lmem name Ln), Hxl. reflexivity.
Qed.

Lemma cards_ws_fc cards : forall ret Ln Lc, cards_fc Ln Lc cards = true -> ws_seq P fi ret Ln cards = true.
Proof.
  induction cards as [|c r IH]; intros ret Ln Lc; cbn [cards_fc ws_seq]; [reflexivity|]. intros H.
  apply andb_true_iff in H. destruct H as [H1 H2]. rewrite (top_ws_fc Ln Lc c H1 ret). eapply IH, H2.
Qed.
End Ws.

Theorem in_fc_well_scoped M : in_fc M = true -> well_scoped M = true.
Proof.
  intros HM. destruct M as [subs funs imps]. cbn [in_fc] in HM.
  destruct subs; [|discriminate]. destruct funs as [|[name f] [|]]; try discriminate.
  destruct imps; [|discriminate].
  apply andb_true_iff in HM. destruct HM as [HM Hcards]. apply andb_true_iff in HM. destruct HM as [Hname Hargs].
  apply str_eqb_main in Hname. subst name.
  assert (Ha : f_args f = []) by (destruct (f_args f); [reflexivity | discriminate]).
  unfold well_scoped, program_of, add_std. cbn [app].
  change 64%nat with (S 63). rewrite (flatten_f1 63 f stdl stdl_eq).
  cbn [find_index fe_name]. change (str_eqb s_main s_main) with true. cbv iota.
  destruct stdl_facts as [Hnd Hstd].
  cbn [map fe_name]. rewrite Hnd. cbn [andb length seq combine forallb fst snd].
  rewrite (forallb_std_combine _ stdl Hstd 1). rewrite andb_true_r.
  unfold is_std, ws_function. cbn [fe_ns fe_fn orb]. rewrite Ha. cbn [nodup forallb andb Nat.eqb negb].
  eapply cards_ws_fc, Hcards.
Qed.
