(* C01, simulation: fragment F7 = F5 plus  Repeat i n body  with or without the loop variable i.
   The count n is an expression of the fragment, evaluated once; the compiler keeps it and the round
   counter in two hidden locals (named "", slots above the locals that exist) for the time of the loop;
   in every round the loop variable is declared in a scope of its own (one more slot, initialised
   from the counter) and popped at the end of the round.  The body is a statement of the fragment: it
   may assign every visible local (the loop variable too) but declares none.
   GAP towards the fragment F6 of the plan: a body with declarations of its own (popped each round),
   and ForEach.  Definitions shared with F5 are those of C01SimDefs5. *)
From Coq Require Import List NArith ZArith Bool.
From Cao Require Import ListUtil Bits CardAst Bytecode Compiler CompilerWf C01SimDefs C01SimDefs2 C01SimDefs4 C01SimDefs5.
From Cao Require RefSem Vm.
Import ListNotations.
Local Open Scope N_scope.

(* the loop variable of a Repeat: its name in the local context, its entry in the local store *)
Definition lvn (i : option str) : list str := match i with Some x => [x] | None => [] end.
Definition lvb (i : option str) (k : Z) : lstore := match i with Some x => [(x, RefSem.VInt k)] | None => [] end.
Definition unb (i : option str) (R : lstore) : lstore := match i with Some _ => tl R | None => R end.
Definition lv_ok (i : option str) : bool := match i with Some x => var_ok x | None => true end.

(* ------------------------------------------------------------------ syntax *)
Fixpoint stmt7 (Ln : list str) (c : card) : bool :=
  match c with
  | CSetGlobalVar g e => negb (is_empty g) && expr_f1 e
  | CSetVar x e => var_ok x && lmem x Ln && expr_f1 e
  | CComment _ => true
  | CBin BIfTrue e b | CBin BIfFalse e b | CBin BWhile e b => expr_f1 e && stmt7 Ln b
  | CTri TIfElse e a b => expr_f1 e && stmt7 Ln a && stmt7 Ln b
  | CComposite _ cs => forallb (stmt7 Ln) cs
  | CRepeat i n b => expr_f1 n && lv_ok i && stmt7 (lvn i ++ [] :: [] :: Ln) b
  | _ => false
  end.

Definition top7 (Ln : list str) (c : card) : bool :=
  match c with
  | CSetVar x e => var_ok x && expr_f1 e
  | _ => stmt7 Ln c
  end.
Fixpoint cards7 (Ln : list str) (cards : list card) : bool :=
  match cards with
  | [] => true
  | c :: r => top7 Ln c && cards7 (names_next Ln c) r
  end.
Definition in_f7 (M : module) : bool :=
  match M with
  | Module [] [(name, f)] [] =>
      str_eqb name s_main && (match f_args f with [] => true | _ => false end) &&
      cards7 [] (f_cards f)
  | _ => false
  end.

(* ------------------------------------------------------------------ code *)
Fixpoint code7 (T : list (N * N)) (Ln : list str) (base : N) (c : card) : list instr :=
  match c with
  | CSetGlobalVar g e => code_expr5 T Ln e ++ [ISetGlobalVar (idT T g)]
  | CSetVar x e => code_expr5 T Ln e ++ [ISetLocalVar (N.of_nat (set_slot Ln x))]
  | CBin BIfTrue e b =>
      let ce := code_expr5 T Ln e in
      let cb := code7 T Ln (base + bytes ce + 5) b in
      ce ++ IGotoIfFalse (u32_to_i32 (base + bytes ce + 5 + bytes cb)) :: cb
  | CBin BIfFalse e b =>
      let ce := code_expr5 T Ln e in
      let cb := code7 T Ln (base + bytes ce + 5) b in
      ce ++ IGotoIfTrue (u32_to_i32 (base + bytes ce + 5 + bytes cb)) :: cb
  | CBin BWhile e b =>
      let ce := code_expr5 T Ln e in
      let cb := code7 T Ln (base + bytes ce + 5) b in
      ce ++ IGotoIfFalse (u32_to_i32 (base + bytes ce + 5 + (bytes cb + 5))) :: cb ++ [IGoto (u32_to_i32 base)]
  | CTri TIfElse e a b =>
      let ce := code_expr5 T Ln e in
      let ca := code7 T Ln (base + bytes ce + 5) a in
      let else_at := base + bytes ce + 5 + bytes ca + 5 in
      let cb := code7 T Ln else_at b in
      ce ++ IGotoIfFalse (u32_to_i32 else_at) :: ca ++ IGoto (u32_to_i32 (else_at + bytes cb)) :: cb
  | CComposite _ cs =>
      (fix go (base : N) (l : list card) {struct l} : list instr :=
         match l with
         | [] => []
         | c :: r => let cc := code7 T Ln base c in cc ++ go (base + bytes cc) r
         end) base cs
  | CRepeat i n b =>
      let k := N.of_nat (length Ln) in
      let cn := code_expr5 T Ln n in
      let b0 := base + bytes cn + 19 in
      let bind := match i with Some _ => [IReadLocalVar (k + 1); ISetLocalVar (k + 2)] | None => [] end in
      let unbind := match i with Some _ => [IPop] | None => [] end in
      let cb := code7 T (lvn i ++ [] :: [] :: Ln) (b0 + 16 + bytes bind) b in
      cn ++ [ISetLocalVar k; IScalarInt 0; ISetLocalVar (k + 1)] ++
      [IReadLocalVar (k + 1); IReadLocalVar k; ILess;
       IGotoIfFalse (u32_to_i32 (b0 + 16 + bytes bind + bytes cb + bytes unbind + 25))] ++
      bind ++ cb ++ unbind ++
      [IScalarInt 1; IReadLocalVar (k + 1); IAdd; ISetLocalVar (k + 1); IGoto (u32_to_i32 b0)] ++
      [IPop; IPop]
  | _ => []
  end.

(* a list of statements in one local context *)
Fixpoint code_seq7 (T : list (N * N)) (Ln : list str) (base : N) (cs : list card) : list instr :=
  match cs with
  | [] => []
  | c :: r => let cc := code7 T Ln base c in cc ++ code_seq7 T Ln (base + bytes cc) r
  end.
Lemma code7_composite T Ln base ty cs : code7 T Ln base (CComposite ty cs) = code_seq7 T Ln base cs.
Proof.
  revert base. induction cs as [|c r IH]; intros base; [reflexivity|].
  cbn [code_seq7]. rewrite <- IH. reflexivity.
Qed.

(* the cards of main: the local context grows *)
Fixpoint code_main7 (T : list (N * N)) (Ln : list str) (base : N) (cards : list card) : list instr :=
  match cards with
  | [] => []
  | c :: r => let cc := code7 T Ln base c in cc ++ code_main7 T (names_next Ln c) (base + bytes cc) r
  end.
(* the whole of main: its cards, one Pop per local, Exit *)
Definition code_all7 (T : list (N * N)) (cards : list card) : list instr :=
  code_main7 T [] 0 cards ++ repeat IPop (length (names_end [] cards)) ++ [IExit].

(* the GLOBAL names a card mentions in the local context Ln *)
Fixpoint stmt_gnames7 (Ln : list str) (c : card) : list str :=
  match c with
  | CSetGlobalVar g e => expr_gnames Ln e ++ [g]
  | CSetVar _ e => expr_gnames Ln e
  | CBin _ e b => expr_gnames Ln e ++ stmt_gnames7 Ln b
  | CTri _ e a b => expr_gnames Ln e ++ stmt_gnames7 Ln a ++ stmt_gnames7 Ln b
  | CComposite _ cs => flat_map (stmt_gnames7 Ln) cs
  | CRepeat i n b => expr_gnames Ln n ++ stmt_gnames7 (lvn i ++ [] :: [] :: Ln) b
  | _ => []
  end.
Fixpoint main_gnames7 (Ln : list str) (cards : list card) : list str :=
  match cards with
  | [] => []
  | c :: r => stmt_gnames7 Ln c ++ main_gnames7 (names_next Ln c) r
  end.

Fixpoint stmt_depth7 (c : card) : nat :=
  match c with
  | CSetGlobalVar _ e | CSetVar _ e => depth e
  | CBin _ e b => Nat.max (depth e) (stmt_depth7 b)
  | CTri _ e a b => Nat.max (depth e) (Nat.max (stmt_depth7 a) (stmt_depth7 b))
  | CComposite _ cs => fold_right (fun c m => Nat.max (stmt_depth7 c) m) 0%nat cs
  | CRepeat _ n b => Nat.max (depth n) (3 + Nat.max 2 (stmt_depth7 b))
  | _ => 0
  end.
Lemma stmt_depth7_composite ty cs c : In c cs -> (stmt_depth7 c <= stmt_depth7 (CComposite ty cs))%nat.
Proof.
  cbn [stmt_depth7]. induction cs as [|x r IH]; [intros []|]. intros [<-|Hin]; cbn [fold_right].
  - apply Nat.le_max_l.
  - etransitivity; [apply IH, Hin | apply Nat.le_max_r].
Qed.
(* every card fits the value stack above all the locals of main (and the one it may declare) *)
Definition depth_ok7 (cards : list card) : bool :=
  forallb (fun c => Nat.ltb (S (S (length (names_end [] cards) + stmt_depth7 c))) Vm.stack_size) cards.

(* ------------------------------------------------------------------ meaning *)
Fixpoint run7 (fuel : nat) (R : lstore) (g : gl) (c : card) : option (bool * lstore * gl) :=
  match fuel with
  | O => None
  | S f =>
      match c with
      | CSetGlobalVar n e =>
          match ev (R ++ g) e with
          | Some v => Some (true, R, RefSem.set_assoc n v g)
          | None => Some (false, R, g)
          end
      | CSetVar x e =>
          match ev (R ++ g) e with
          | Some v => Some (true, sets_local x v R, g)
          | None => Some (false, R, g)
          end
      | CBin BIfTrue e b =>
          match ev (R ++ g) e with
          | None => Some (false, R, g)
          | Some v => if RefSem.v_bool [] v then run7 f R g b else Some (true, R, g)
          end
      | CBin BIfFalse e b =>
          match ev (R ++ g) e with
          | None => Some (false, R, g)
          | Some v => if RefSem.v_bool [] v then Some (true, R, g) else run7 f R g b
          end
      | CBin BWhile e b =>
          match ev (R ++ g) e with
          | None => Some (false, R, g)
          | Some v =>
              if RefSem.v_bool [] v then
                match run7 f R g b with
                | Some (true, R1, g1) => run7 f R1 g1 c
                | other => other
                end
              else Some (true, R, g)
          end
      | CTri TIfElse e a b =>
          match ev (R ++ g) e with
          | None => Some (false, R, g)
          | Some v => if RefSem.v_bool [] v then run7 f R g a else run7 f R g b
          end
      | CComposite _ cs =>
          (fix go (R : lstore) (g : gl) (l : list card) {struct l} : option (bool * lstore * gl) :=
             match l with
             | [] => Some (true, R, g)
             | x :: r => match run7 f R g x with
                         | Some (true, R1, g1) => go R1 g1 r
                         | other => other
                         end
             end) R g cs
      | CRepeat i n b =>
          match ev (R ++ g) n with
          | None => Some (false, R, g)
          | Some nv => rep7 f i nv 0%Z R g b
          end
      | _ => Some (true, R, g)
      end
  end
(* the rounds of a Repeat from round k on; the two hidden locals (counter on top) are entries named "" *)
with rep7 (fuel : nat) (i : option str) (nv : RefSem.value) (k : Z) (R : lstore) (g : gl) (b : card) : option (bool * lstore * gl) :=
  match fuel with
  | O => None
  | S f =>
      match RefSem.v_cmp [] (RefSem.VInt k) nv with
      | Some (Some Lt) =>
          match run7 f (lvb i k ++ ([], RefSem.VInt k) :: ([], nv) :: R) g b with
          | Some (true, R1, g1) => rep7 f i nv (RefSem.wrap64 (k + 1)) (tl (tl (unb i R1))) g1 b
          | Some (false, R1, g1) => Some (false, tl (tl (unb i R1)), g1)
          | None => None
          end
      | _ => Some (true, R, g)
      end
  end.


Fixpoint runs7 (f : nat) (R : lstore) (g : gl) (l : list card) : option (bool * lstore * gl) :=
  match l with
  | [] => Some (true, R, g)
  | x :: r => match run7 f R g x with
              | Some (true, R1, g1) => runs7 f R1 g1 r
              | other => other
              end
  end.

Lemma run7_composite f R g ty cs : run7 (S f) R g (CComposite ty cs) = runs7 f R g cs.
Proof.
  revert R g. induction cs as [|x r IH]; intros R g; [reflexivity|].
  cbn [runs7].
  change (run7 (S f) R g (CComposite ty (x :: r))) with
    (match run7 f R g x with Some (true, R1, g1) => run7 (S f) R1 g1 (CComposite ty r) | other => other end).
  destruct (run7 f R g x) as [[[[|] R1] g1]|]; [apply IH | reflexivity | reflexivity].
Qed.
