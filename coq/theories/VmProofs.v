(* Theorems about the VM model (Vm.v). All statements are generic in the floating-point instance [fops] and in
   the build profile, so none of them depends on Flocq (or on any axiom).

   - run_total, run_deterministic            : `run` is a total function
   - step_count_rel                          : one instruction changes the ghost counter only through re-entry
   - budget_bound                            : a run without re-entry dispatches at most budget-1 (< budget) instructions
   - budget_monotone                         : a run without re-entry that does not time out is unchanged by a larger budget
   - timeout_reported                        : with one unit of budget left the loop reports Timeout and runs nothing;
     timeout_reported_run                      a program that needs >= N instructions reports Timeout under budget N
   - count_monotone                          : the counter never decreases, at any nesting depth
   - budget_bound_nested_refuted             : with re-entry (fresh budget per nested `_run`, A-11) the bound is false;
                                               the witness is in VmWitness.v *)
From Coq Require Import NArith ZArith List Lia Bool.
From Cao Require Import ListUtil Bits Stacks Vm VmWitness.
Import ListNotations.

Set Implicit Arguments.

(* ------------------------------------------------------------------ *)
(* Totality and determinism (immediate: `run` is a Gallina function)    *)
(* ------------------------------------------------------------------ *)

Theorem run_total : forall F bld N P s, exists o s', run F bld N P s = (o, s').
Proof. intros. destruct (run F bld N P s) as [o s']. eauto. Qed.

Theorem run_deterministic : forall F bld N P s r1 r2,
  run F bld N P s = r1 -> run F bld N P s = r2 -> r1 = r2.
Proof. intros; congruence. Qed.

(* ------------------------------------------------------------------ *)
(* The ghost counter and one instruction                               *)
(* ------------------------------------------------------------------ *)

Section CountRel.
  (* R = eq for runs whose natives do not re-enter, R = N.le in general *)
  Variable R : N -> N -> Prop.
  Hypothesis R_refl : forall x, R x x.
  Hypothesis R_trans : forall x y z, R x y -> R y z -> R x z.

  Variable F : fops.
  Variable bld : build.
  Variable P : program.
  Variable reenter : N -> state -> rres.

  Definition rres_R (c : N) (r : rres) : Prop :=
    match r with ROk s' | RErr _ _ s' | RStop _ s' => R c (st_count s') end.
  Definition sres_R (c : N) (r : sres) : Prop :=
    match r with SNext _ s' | SExit s' | SErr _ _ s' | SStop _ s' => R c (st_count s') end.
  Definition nres_R (c : N) (r : nres) : Prop :=
    match r with NOk _ s' | NErr _ s' | NStop _ s' => R c (st_count s') end.

  Hypothesis reenter_R : forall ip s, rres_R (st_count s) (reenter ip s).

  (* helpers preserve the counter exactly *)
  Lemma spush_cnt s v s1 : spush s v = Some s1 -> st_count s1 = st_count s.
  Proof. unfold spush. destruct (vs_push _ _) as [k []]; intros H; inversion H; reflexivity. Qed.
  Lemma spop_cnt s s1 v : spop s = (s1, v) -> st_count s1 = st_count s.
  Proof. unfold spop. destruct (vs_pop _ _); intros H; inversion H; reflexivity. Qed.
  Lemma sset_cnt s i v s1 : sset s i v = Some s1 -> st_count s1 = st_count s.
  Proof. unfold sset. destruct (vs_step _ _ _) as [k []]; intros H; inversion H; reflexivity. Qed.
  Lemma sclear_until_cnt s h s1 v : sclear_until s h = (s1, v) -> st_count s1 = st_count s.
  Proof. unfold sclear_until. destruct (vs_step _ _ _) as [k []]; intros H; inversion H; reflexivity. Qed.
  Lemma spop_w_offset_cnt s h s1 v : spop_w_offset s h = (s1, v) -> st_count s1 = st_count s.
  Proof. unfold spop_w_offset. destruct (vs_step _ _ _) as [k []]; intros H; inversion H; reflexivity. Qed.
  Lemma salloc_cnt s o s1 a : salloc s o = (s1, a) -> st_count s1 = st_count s.
  Proof. unfold salloc, halloc. intros H; inversion H; reflexivity. Qed.
  Lemma push_frame_cnt s f s1 : push_frame s f = Some s1 -> st_count s1 = st_count s.
  Proof. unfold push_frame. destruct (_ <=? _); intros H; inversion H; reflexivity. Qed.
  Lemma write_local_cnt s off h v s1 : write_local s off h v = Some s1 -> st_count s1 = st_count s.
  Proof. apply sset_cnt. Qed.

  Ltac note_cnt :=
    repeat match goal with
           | H : spush _ _ = Some _ |- _ => apply spush_cnt in H
           | H : spop _ = (_, _) |- _ => apply spop_cnt in H
           | H : sset _ _ _ = Some _ |- _ => apply sset_cnt in H
           | H : sclear_until _ _ = (_, _) |- _ => apply sclear_until_cnt in H
           | H : spop_w_offset _ _ = (_, _) |- _ => apply spop_w_offset_cnt in H
           | H : salloc _ _ = (_, _) |- _ => apply salloc_cnt in H
           | H : push_frame _ _ = Some _ |- _ => apply push_frame_cnt in H
           | H : write_local _ _ _ _ = Some _ |- _ => apply write_local_cnt in H
           end.

  Ltac cnt_simpl :=
    cbn [st_count set_stack set_calls set_globals set_heap set_open set_log set_table log_push sraw_set
         sres_R nres_R rres_R fst snd] in *.

  (* close the goal  R (st_count s) (st_count s')  from the collected equalities (and at most one R fact) *)
  Ltac cnt_close :=
    note_cnt; cnt_simpl;
    repeat match goal with
           | H : st_count ?a = st_count ?b |- _ => rewrite H in *; clear H
           end;
    cnt_simpl;
    first [ apply R_refl | assumption | (eapply R_trans; [eassumption|]; apply R_refl) | exact I ].

  Ltac head_destruct G :=
    match goal with
    | |- G _ (match ?x with _ => _ end) => destruct x eqn:?
    end.

  Lemma close_upvalues_go_cnt fuel top s :
    match close_upvalues_go fuel top s with
    | ClOk s' | ClErr _ s' | ClStop _ s' => st_count s' = st_count s
    end.
  Proof.
    revert s. induction fuel as [|f IH]; intros s; cbn [close_upvalues_go]; [reflexivity|].
    destruct (st_open s) as [a|]; [|reflexivity].
    destruct (hget (st_heap s) a) as [[t|b|h ar|h|h ar ups|u]|]; try reflexivity.
    destruct (u_loc u) as [l|]; [|reflexivity].
    destruct (l <? top); [reflexivity|].
    match goal with |- match close_upvalues_go f top ?s1 with _ => _ end => specialize (IH s1) end.
    destruct (close_upvalues_go f top _); cbn in IH; exact IH.
  Qed.

  Lemma close_upvalues_from_cnt top s :
    match close_upvalues_from top s with
    | ClOk s' | ClErr _ s' | ClStop _ s' => st_count s' = st_count s
    end.
  Proof. apply close_upvalues_go_cnt. Qed.

  Lemma push_next_R ip s v c : R c (st_count s) -> sres_R c (push_next ip s v).
  Proof. unfold push_next. intros H. destruct (spush s v) eqn:E; cnt_close. Qed.

  Lemma of_vres_R ip s r c : R c (st_count s) -> sres_R c (of_vres ip s r).
  Proof. intros H. destruct r; cbn [of_vres]; try apply push_next_R; cnt_close. Qed.

  Lemma binary_op_R ip s op : sres_R (st_count s) (binary_op ip s op).
  Proof.
    unfold binary_op. destruct (spop s) as [s1 b] eqn:E1. destruct (spop s1) as [s2 a] eqn:E2.
    apply of_vres_R. cnt_close.
  Qed.

  (* run_function and the natives *)
  Lemma run_function_R (cn : N -> state -> nres) :
    (forall h s, nres_R (st_count s) (cn h s)) ->
    forall fv s, nres_R (st_count s) (run_function P reenter cn fv s).
  Proof.
    intros Hcn fv s. unfold run_function.
    destruct fv as [|z|r|a]; try cnt_close.
    destruct (hget (st_heap s) a) as [o|]; [|cnt_close].
    assert (Hgo : forall arity label clo,
      nres_R (st_count s)
        (if (code_len P =? 0)%N then NStop APanic s
         else match assoc label (p_labels P) with
              | None => NErr (EProcedureNotFound label) s
              | Some src =>
                  let len := N.of_nat (scount s) in
                  if (len <? arity)%N then NErr EMissingArgument s
                  else
                    let f := mkFrame src (last_pos P) (len - arity) clo in
                    match push_frame s f with
                    | None => NErr ECallStackOverflow s
                    | Some s1 =>
                        match push_frame s1 f with
                        | None => NErr ECallStackOverflow s1
                        | Some s2 =>
                            match reenter src s2 with
                            | ROk s3 =>
                                let s4 := set_calls s3 (tl (st_calls s3)) in
                                let '(s5, v) := spop s4 in NOk v s5
                            | RErr e _ s3 => NErr e s3
                            | RStop ab s3 => NStop ab s3
                            end
                        end
                    end
              end)).
    { intros arity label clo.
      destruct (code_len P =? 0)%N; [cnt_close|].
      destruct (assoc label (p_labels P)) as [src|]; [|cnt_close].
      cbv zeta. destruct (_ <? _)%N; [cnt_close|].
      destruct (push_frame s _) as [s1|] eqn:E1; [|cnt_close].
      destruct (push_frame s1 _) as [s2|] eqn:E2; [|cnt_close].
      pose proof (reenter_R src s2) as Hr.
      destruct (reenter src s2) as [s3|e ip3 s3|ab s3]; cbn [rres_R] in Hr.
      - destruct (spop _) as [s5 v] eqn:E5. cnt_close.
      - cnt_close.
      - cnt_close. }
    destruct o; try apply Hgo; try cnt_close.
    pose proof (Hcn h s) as Hc. destruct (cn h s) as [v s1|e s1|ab s1]; cbn [nres_R] in Hc |- *.
    - destruct (spop s1) as [s2 v2] eqn:E. cnt_close.
    - cnt_close.
    - cnt_close.
  Qed.

  Lemma native_body_R (self : N -> state -> nres) :
    (forall h s, nres_R (st_count s) (self h s)) ->
    forall n s, nres_R (st_count s) (native_body F P reenter self n s).
  Proof.
    intros Hself n s.
    pose proof (@run_function_R self Hself) as Hrf.
    destruct n; cbn [native_body].
    - (* log1 *) destruct (spop s) as [s1 v] eqn:E1. cnt_close.
    - (* sub2 *)
      destruct (spop s) as [s1 v2] eqn:E1. destruct (to_i64 _ _ v2); [|cnt_close].
      destruct (spop s1) as [s2 v1] eqn:E2. destruct (to_i64 _ _ v1); cnt_close.
    - cnt_close.
    - (* str1 *)
      destruct (spop s) as [s1 v] eqn:E1. destruct v; try cnt_close.
      destruct (hget _ _) as [[]|]; cnt_close.
    - (* mix3 *)
      destruct (spop s) as [s1 v3] eqn:E1. destruct (spop s1) as [s2 v2] eqn:E2.
      destruct (to_i64 _ _ v2); [|cnt_close].
      destruct (spop s2) as [s3 v1] eqn:E3. destruct (to_f64 _ _ v1); cnt_close.
    - (* call1 *)
      destruct (spop s) as [s1 x] eqn:E1. destruct (spop s1) as [s2 f] eqn:E2.
      destruct (spush s2 x) as [s3|] eqn:E3; [|cnt_close].
      pose proof (Hrf f s3) as H. destruct (run_function _ _ _ f s3); cnt_close.
    - (* try1 *)
      destruct (spop s) as [s1 x] eqn:E1. destruct (spop s1) as [s2 f] eqn:E2.
      destruct (spush s2 x) as [s3|] eqn:E3; [|cnt_close].
      pose proof (Hrf f s3) as H. destruct (run_function _ _ _ f s3); cnt_close.
    - (* call0 *)
      destruct (spop s) as [s1 f] eqn:E1.
      pose proof (Hrf f s1) as H. destruct (run_function _ _ _ f s1); cnt_close.
    - cnt_close.
    - cnt_close.
    - cnt_close.
    - (* to_array *)
      destruct (spop s) as [s1 v] eqn:E1. destruct v; try cnt_close.
      destruct (hget _ _) as [[]|]; try cnt_close.
      destruct (salloc s1 _) as [s2 out] eqn:E2.
      destruct (titer _ _); [|cnt_close].
      destruct (to_array_go _ _ _ _); cnt_close.
  Qed.

  Lemma call_native_fuel_R fuel : forall h s, nres_R (st_count s) (call_native_fuel F P reenter fuel h s).
  Proof.
    induction fuel as [|f IH]; intros h s; cbn [call_native_fuel]; [cnt_close|].
    destruct (find_native h all_natives) as [n|]; [|cnt_close].
    pose proof (@native_body_R _ IH n s) as H.
    destruct (native_body _ _ _ _ n s) as [v s1|e s1|ab s1]; cbn [nres_R] in H.
    - destruct (spush s1 v) eqn:E; cnt_close.
    - cnt_close.
    - cnt_close.
  Qed.

  Lemma native_step_R h ip s : sres_R (st_count s) (native_step F P reenter h ip s).
  Proof.
    unfold native_step, call_native. pose proof (call_native_fuel_R 8 h s) as H.
    destruct (call_native_fuel _ _ _ _ h s); cnt_close.
  Qed.

  Lemma native_step_R' h ip s c : R c (st_count s) -> sres_R c (native_step F P reenter h ip s).
  Proof.
    intros Hc. pose proof (native_step_R h ip s) as H.
    destruct (native_step _ _ _ h ip s); cbn [sres_R] in *; eapply R_trans; eauto.
  Qed.

  Ltac step_tac :=
    repeat match goal with
           | |- sres_R _ (binary_op _ _ _) => apply binary_op_R
           | |- sres_R _ (push_next _ _ _) => apply push_next_R
           | |- sres_R _ (native_step _ _ _ _ _ _) => apply native_step_R'
           | |- sres_R _ (match ?x with _ => _ end) => destruct x eqn:?
           end;
    try cnt_close.

  Ltac instr d := intros opc ip0 ip s; unfold d; cbv zeta; step_tac.

  Lemma i_4_R : forall opc ip0 ip s, sres_R (st_count s) (i_4 F P reenter opc ip0 ip s). Proof. instr i_4. Qed.
  Lemma i_5_R : forall opc ip0 ip s, sres_R (st_count s) (i_5 P opc ip0 ip s). Proof. instr i_5. Qed.
  Lemma i_6_R : forall opc ip0 ip s, sres_R (st_count s) (i_6 P opc ip0 ip s). Proof. instr i_6. Qed.
  Lemma i_8_R : forall opc ip0 ip s, sres_R (st_count s) (i_8 P opc ip0 ip s). Proof. instr i_8. Qed.
  Lemma i_11_R : forall opc ip0 ip s, sres_R (st_count s) (i_11 F P reenter opc ip0 ip s). Proof. instr i_11. Qed.
  Lemma i_17_R : forall opc ip0 ip s, sres_R (st_count s) (i_17 P opc ip0 ip s). Proof. instr i_17. Qed.
  Lemma i_18_R : forall opc ip0 ip s, sres_R (st_count s) (i_18 P opc ip0 ip s). Proof. instr i_18. Qed.
  Lemma i_19_R : forall opc ip0 ip s, sres_R (st_count s) (i_19 P opc ip0 ip s). Proof. instr i_19. Qed.
  Lemma i_20_R : forall opc ip0 ip s, sres_R (st_count s) (i_20 P opc ip0 ip s). Proof. instr i_20. Qed.
  Lemma i_21_R : forall opc ip0 ip s, sres_R (st_count s) (i_21 opc ip0 ip s). Proof. instr i_21. Qed.
  Lemma i_22_R : forall opc ip0 ip s, sres_R (st_count s) (i_22 opc ip0 ip s).
  Proof.
    intros opc ip0 ip s; unfold i_22; cbv zeta.
    destruct (st_calls s) as [|fr rest]; [cnt_close|].
    pose proof (close_upvalues_from_cnt (N.to_nat (fr_off fr)) (set_calls s rest)) as Hcl.
    destruct (close_upvalues_from _ _) as [s2|e s2|a s2]; cbn [st_count set_calls] in Hcl; try cnt_close.
    step_tac.
  Qed.
  Lemma i_23_R : forall opc ip0 ip s, sres_R (st_count s) (i_23 opc ip0 ip s). Proof. instr i_23. Qed.
  Lemma i_27_R : forall opc ip0 ip s, sres_R (st_count s) (i_27 F opc ip0 ip s). Proof. instr i_27. Qed.
  Lemma i_28_R : forall opc ip0 ip s, sres_R (st_count s) (i_28 bld P opc ip0 ip s). Proof. instr i_28. Qed.
  Lemma i_29_30_R : forall opc ip0 ip s, sres_R (st_count s) (i_29_30 F bld P opc ip0 ip s). Proof. instr i_29_30. Qed.
  Lemma i_31_R : forall opc ip0 ip s, sres_R (st_count s) (i_31 opc ip0 ip s). Proof. instr i_31. Qed.
  Lemma i_32_R : forall opc ip0 ip s, sres_R (st_count s) (i_32 F opc ip0 ip s). Proof. instr i_32. Qed.
  Lemma i_33_R : forall opc ip0 ip s, sres_R (st_count s) (i_33 F opc ip0 ip s). Proof. instr i_33. Qed.
  Lemma i_34_R : forall opc ip0 ip s, sres_R (st_count s) (i_34 opc ip0 ip s). Proof. instr i_34. Qed.
  Lemma i_35_R : forall opc ip0 ip s, sres_R (st_count s) (i_35 P opc ip0 ip s). Proof. instr i_35. Qed.
  Lemma i_36_R : forall opc ip0 ip s, sres_R (st_count s) (i_36 F bld P opc ip0 ip s). Proof. instr i_36. Qed.
  Lemma i_37_42_R : forall opc ip0 ip s, sres_R (st_count s) (i_37_42 P opc ip0 ip s). Proof. instr i_37_42. Qed.
  Lemma i_38_R : forall opc ip0 ip s, sres_R (st_count s) (i_38 P opc ip0 ip s). Proof. instr i_38. Qed.
  Lemma i_39_R : forall opc ip0 ip s, sres_R (st_count s) (i_39 F opc ip0 ip s). Proof. instr i_39. Qed.
  Lemma i_40_R : forall opc ip0 ip s, sres_R (st_count s) (i_40 F opc ip0 ip s). Proof. instr i_40. Qed.
  Lemma i_41_R : forall opc ip0 ip s, sres_R (st_count s) (i_41 F opc ip0 ip s). Proof. instr i_41. Qed.
  Lemma i_43_44_R : forall opc ip0 ip s, sres_R (st_count s) (i_43_44 P opc ip0 ip s).
  Proof.
    intros opc ip0 ip s; unfold i_43_44; cbv zeta.
    destruct (op_u32 P ip); [|cnt_close].
    destruct (opc =? 43)%N; cbv beta iota.
    - destruct (spop s) as [s1 wv] eqn:E. step_tac.
    - step_tac.
  Qed.
  Lemma i_45_R : forall opc ip0 ip s, sres_R (st_count s) (i_45 P opc ip0 ip s).
  Proof.
    intros opc ip0 ip s; unfold i_45; cbv zeta.
    repeat match goal with
           | |- sres_R _ (match ?x with _ => _ end) => destruct x eqn:?
           end;
    try cnt_close.
    all: cbn [sres_R st_count set_heap].
    all: repeat match goal with
                | |- context [match ?x with _ => _ end] => destruct x eqn:?
                end; cnt_close.
  Qed.
  Lemma i_46_R : forall opc ip0 ip s, sres_R (st_count s) (i_46 opc ip0 ip s).
  Proof.
    intros opc ip0 ip s; unfold i_46.
    destruct (scount s =? 0); [cnt_close|].
    pose proof (close_upvalues_from_cnt (scount s - 1) s) as Hcl.
    destruct (close_upvalues_from _ _); cnt_close.
  Qed.

  Theorem step_count_rel : forall ip s, sres_R (st_count s) (step F bld P reenter ip s).
  Proof.
    intros ip0 s. unfold step. cbv zeta.
    destruct (nth (N.to_nat ip0) (p_code P) 255%N) as [|p]; [apply binary_op_R|].
    do 6 (try destruct p as [p|p|]).
    all: first
      [ apply binary_op_R
      | apply push_next_R; apply R_refl
      | apply i_4_R | apply i_5_R | apply i_6_R | apply i_8_R | apply i_11_R | apply i_17_R | apply i_18_R
      | apply i_19_R | apply i_20_R | apply i_21_R | apply i_22_R | apply i_23_R | apply i_27_R | apply i_28_R
      | apply i_29_30_R | apply i_31_R | apply i_32_R | apply i_33_R | apply i_34_R | apply i_35_R | apply i_36_R
      | apply i_37_42_R | apply i_38_R | apply i_39_R | apply i_40_R | apply i_41_R | apply i_43_44_R
      | apply i_45_R | apply i_46_R
      | (destruct (spop s) as [s1 v1] eqn:E; cnt_close)
      | cnt_close ].
  Qed.
End CountRel.

(* ------------------------------------------------------------------ *)
(* The dispatch loop                                                   *)
(* ------------------------------------------------------------------ *)

Definition res_state (r : rres) : state :=
  match r with ROk s | RErr _ _ s | RStop _ s => s end.

Definition is_timeout (r : rres) : Prop :=
  match r with RErr ETimeout _ _ => True | _ => False end.

Section Loop.
  Variable F : fops.
  Variable bld : build.
  Variable P : program.
  Variable reenter : N -> state -> rres.

  Lemma tick_count s : st_count (tick s) = (st_count s + 1)%N.
  Proof. reflexivity. Qed.

  (* with one unit of budget left nothing is executed and Timeout is reported at the current instruction *)
  Theorem timeout_reported : forall ip s,
    (ip < code_len P)%N -> loop F bld P reenter 1 ip s = RErr ETimeout ip s.
  Proof.
    intros ip s H. cbn [loop]. apply N.leb_gt in H. rewrite H. reflexivity.
  Qed.

  (* a larger budget does not change a run that did not time out *)
  Lemma loop_mono : forall rem rem' ip s,
    1 <= rem -> rem <= rem' -> ~ is_timeout (loop F bld P reenter rem ip s) ->
    loop F bld P reenter rem' ip s = loop F bld P reenter rem ip s.
  Proof.
    induction rem as [|r IH]; intros rem' ip s H1 Hle Hnt; [lia|].
    destruct rem' as [|r']; [lia|].
    cbn [loop] in *.
    destruct (code_len P <=? ip)%N; [reflexivity|].
    destruct r as [|r0]; [exfalso; apply Hnt; exact I|].
    destruct r' as [|r0']; [lia|].
    destruct (step F bld P reenter ip (tick s)) as [ip' s'|s'|e ip' s'|a s']; try reflexivity.
    apply IH; [lia|lia|exact Hnt].
  Qed.

  Section Flat.
    (* natives that do not run instructions: the ghost counter is left alone by re-entry *)
    Hypothesis re_eq : forall ip s, rres_R eq (st_count s) (reenter ip s).

    Lemma step_count_eq ip s :
      match step F bld P reenter ip s with
      | SNext _ s' | SExit s' | SErr _ _ s' | SStop _ s' => st_count s' = st_count s
      end.
    Proof.
      pose proof (@step_count_rel eq (@eq_refl N) (@eq_trans N) F bld P reenter re_eq ip s) as H.
      destruct (step F bld P reenter ip s); cbn [sres_R] in H; congruence.
    Qed.

    Lemma loop_bound : forall rem ip s,
      (st_count s <= st_count (res_state (loop F bld P reenter rem ip s)) /\
       st_count (res_state (loop F bld P reenter rem ip s)) <= st_count s + N.of_nat (Nat.pred rem))%N.
    Proof.
      induction rem as [|r IH]; intros ip s; cbn [loop].
      - destruct (code_len P <=? ip)%N; cbn [res_state]; lia.
      - destruct (code_len P <=? ip)%N; [cbn [res_state]; lia|].
        destruct r as [|r0]; [cbn [res_state]; lia|].
        pose proof (step_count_eq ip (tick s)) as Hs. rewrite tick_count in Hs.
        destruct (step F bld P reenter ip (tick s)) as [ip' s'|s'|e ip' s'|a s']; cbn [res_state]; try lia.
        specialize (IH ip' s'). cbn [Nat.pred] in *. lia.
    Qed.
  End Flat.

  Section Mono.
    Hypothesis re_le : forall ip s, rres_R N.le (st_count s) (reenter ip s).

    Lemma loop_count_le : forall rem ip s, rres_R N.le (st_count s) (loop F bld P reenter rem ip s).
    Proof.
      induction rem as [|r IH]; intros ip s; cbn [loop].
      - destruct (code_len P <=? ip)%N; cbn [rres_R]; lia.
      - destruct (code_len P <=? ip)%N; [cbn [rres_R]; lia|].
        destruct r as [|r0]; [cbn [rres_R]; lia|].
        pose proof (@step_count_rel N.le N.le_refl N.le_trans F bld P reenter re_le ip (tick s)) as Hs.
        rewrite tick_count in Hs.
        destruct (step F bld P reenter ip (tick s)) as [ip' s'|s'|e ip' s'|a s']; cbn [sres_R rres_R] in *; try lia.
        specialize (IH ip' s').
        destruct (loop F bld P reenter (S r0) ip' s'); cbn [rres_R] in *; lia.
    Qed.
  End Mono.
End Loop.

Lemma no_reenter_eq : forall ip s, rres_R eq (st_count s) (no_reenter ip s).
Proof. intros; reflexivity. Qed.

(* ------------------------------------------------------------------ *)
(* Runs without re-entry                                               *)
(* ------------------------------------------------------------------ *)

(* C03, single level: a run started with budget N >= 1 dispatches at most N - 1 (< N) instructions *)
Theorem budget_bound : forall F bld P N s o s',
  1 <= N -> run_flat F bld N P s = (o, s') ->
  (st_count s <= st_count s' /\ st_count s' <= st_count s + N.of_nat (N - 1))%N.
Proof.
  intros F bld P N s o s' HN Hrun. unfold run_flat in Hrun.
  destruct (push_frame s _) as [s1|] eqn:Ep.
  - assert (Hc : st_count s1 = st_count s).
    { unfold push_frame in Ep. destruct (_ <=? _); inversion Ep; reflexivity. }
    destruct N as [|n]; [lia|]. unfold run_loop in Hrun.
    pose proof (@loop_bound F bld P no_reenter no_reenter_eq (S n) 0%N s1) as Hb.
    destruct (loop F bld P no_reenter (S n) 0 s1); cbn [outcome_of res_state] in *;
      inversion Hrun; subst; replace (S n - 1) with (Nat.pred (S n)) by (cbn; lia); lia.
  - inversion Hrun; subst. lia.
Qed.

Corollary budget_bound_le : forall F bld P N s o s',
  1 <= N -> run_flat F bld N P s = (o, s') -> (st_count s' - st_count s <= N.of_nat N)%N.
Proof. intros. pose proof (budget_bound F bld P s H H0). lia. Qed.

Definition is_timeout_outcome (o : outcome) : Prop :=
  match o with OErr ETimeout _ => True | _ => False end.

Lemma outcome_timeout P r : is_timeout_outcome (fst (outcome_of P r)) <-> is_timeout r.
Proof. destruct r as [s|e ip s|a s]; cbn; tauto. Qed.

(* a sufficient budget does not influence the result *)
Theorem budget_monotone : forall F bld P N N' s o s',
  1 <= N -> N <= N' -> run_flat F bld N P s = (o, s') -> ~ is_timeout_outcome o ->
  run_flat F bld N' P s = (o, s').
Proof.
  intros F bld P N N' s o s' HN Hle Hrun Hnt. unfold run_flat in *.
  destruct (push_frame s _) as [s1|]; [|exact Hrun].
  destruct N as [|n]; [lia|]. destruct N' as [|n']; [lia|]. unfold run_loop in *.
  rewrite (@loop_mono F bld P no_reenter (S n) (S n') 0%N s1); [exact Hrun|lia|lia|].
  intros Ht. apply Hnt. apply (outcome_timeout P) in Ht. rewrite Hrun in Ht. exact Ht.
Qed.

(* the result is the same for every two sufficient budgets *)
Corollary sufficient_budgets_agree : forall F bld P N1 N2 s r1 r2,
  1 <= N1 -> 1 <= N2 ->
  run_flat F bld N1 P s = r1 -> run_flat F bld N2 P s = r2 ->
  ~ is_timeout_outcome (fst r1) -> ~ is_timeout_outcome (fst r2) -> r1 = r2.
Proof.
  intros F bld P N1 N2 s [o1 s1] [o2 s2] H1 H2 E1 E2 T1 T2. cbn [fst] in *.
  destruct (Nat.le_ge_cases N1 N2) as [L|L].
  - rewrite (budget_monotone F bld P s H1 L E1 T1) in E2. congruence.
  - rewrite (budget_monotone F bld P s H2 L E2 T2) in E1. congruence.
Qed.

Lemma is_timeout_outcome_dec o : {is_timeout_outcome o} + {~ is_timeout_outcome o}.
Proof. destruct o as [|e t|a]; cbn; try (right; tauto). destruct e; cbn; (left; exact I) || (right; tauto). Qed.

(* a program that needs at least N instructions reports Timeout when run with budget N *)
Theorem timeout_reported_run : forall F bld P N N' s o' s'',
  1 <= N -> N <= N' -> run_flat F bld N' P s = (o', s'') ->
  (st_count s + N.of_nat N <= st_count s'')%N ->
  is_timeout_outcome (fst (run_flat F bld N P s)).
Proof.
  intros F bld P N N' s o' s'' HN Hle Hrun Hcnt.
  destruct (run_flat F bld N P s) as [o s'] eqn:E. cbn [fst].
  destruct (is_timeout_outcome_dec o) as [T|T]; [exact T|exfalso].
  pose proof (budget_monotone F bld P s HN Hle E T) as E'. rewrite E' in Hrun. inversion Hrun; subst.
  pose proof (budget_bound F bld P s HN E). lia.
Qed.

(* ------------------------------------------------------------------ *)
(* All nesting depths: the counter never decreases                     *)
(* ------------------------------------------------------------------ *)

Lemma run_loop_count_le F bld P reenter :
  (forall ip s, rres_R N.le (st_count s) (reenter ip s)) ->
  forall budget ip s, rres_R N.le (st_count s) (run_loop F bld P reenter budget ip s).
Proof.
  intros Hre budget ip s. unfold run_loop.
  destruct budget as [|n]; [|apply loop_count_le; exact Hre].
  destruct (code_len P <=? ip)%N; [cbn; lia|].
  destruct bld; [cbn; lia|].
  pose proof (@loop_count_le F Release P reenter Hre wrapped_fuel ip s) as H.
  destruct (loop F Release P reenter wrapped_fuel ip s) as [s'|e ip' s'|a s']; cbn [rres_R] in *; try exact H.
  destruct e; cbn [rres_R]; exact H.
Qed.

Lemma run_at_count_le F bld P budget : forall depth ip s,
  rres_R N.le (st_count s) (run_at F bld P budget depth ip s).
Proof.
  induction depth as [|d IH]; intros ip s; cbn [run_at]; [cbn; lia|].
  apply run_loop_count_le. exact IH.
Qed.

Theorem count_monotone : forall F bld N P s, (st_count s <= st_count (snd (run F bld N P s)))%N.
Proof.
  intros. unfold run, run_depth.
  destruct (push_frame s _) as [s1|] eqn:Ep; [|cbn; lia].
  assert (Hc : st_count s1 = st_count s).
  { unfold push_frame in Ep. destruct (_ <=? _); inversion Ep; reflexivity. }
  pose proof (run_at_count_le F bld P N max_depth 0%N s1) as H.
  destruct (run_at F bld P N max_depth 0 s1); cbn [outcome_of snd rres_R] in *; lia.
Qed.

(* ------------------------------------------------------------------ *)
(* With re-entry the bound is false (A-11)                             *)
(* ------------------------------------------------------------------ *)


(* `Vm::run_function` starts the nested `_run` with a fresh copy of max_instr. The compiled program
   VmWitness.nested_budget_program calls a 12-iteration loop three times through the re-entrant native
   `call1`; with budget 150 it completes (the real VM does too) after dispatching 369 instructions. *)
Theorem budget_bound_nested_refuted :
  forall F bld,
  exists P N, 1 <= N /\
    fst (run F bld N P fresh_state) = OOk /\
    (N.of_nat N < st_count (snd (run F bld N P fresh_state)) - st_count fresh_state)%N.
Proof.
  intros F bld. exists nested_budget_program, 150. split; [lia|].
  destruct bld; vm_compute; split; reflexivity.
Qed.

(* hence no bound of the form "dispatched <= budget" holds for `run` over all programs *)
Corollary budget_bound_fails_for_run :
  forall F bld,
  ~ (forall P N s, 1 <= N -> (st_count (snd (run F bld N P s)) - st_count s <= N.of_nat N)%N).
Proof.
  intros F bld H. destruct (budget_bound_nested_refuted F bld) as (P & N & HN & _ & Hlt).
  specialize (H P N fresh_state HN). lia.
Qed.
