(* Theorems about the VM model (Vm.v). All statements are generic in the floating-point instance [fops] and in
   the build profile, so none of them depends on Flocq (or on any axiom).

   - run_total, run_deterministic      : `run` is a total function
   - step_count_rel                    : one instruction changes (dispatch counter, remaining budget) only through
                                         re-entry
   - budget_bound                      : C03 for the code as it is now (shared budget): for ALL programs, states,
                                         natives of the menu incl. re-entry at any depth, a run with budget N
                                         dispatches at most N instructions
   - timeout_reported                  : with at most one unit left the loop runs nothing and reports Timeout
   - budget_bound_flat, budget_monotone, timeout_reported_run
                                       : runs without re-entry (run_flat): at most N-1 dispatches, a run that does
                                         not time out is unchanged by a larger budget, a program needing >= N
                                         instructions reports Timeout under budget N
   - budget_bound_legacy_refuted       : under the budget rule of the pinned tree (fresh budget per nested `_run`,
                                         A-11, repaired by 9ecef93) the bound is false; witness in VmWitness.v *)
From Coq Require Import NArith ZArith List Lia Bool.
From Cao Require Import ListUtil Bits Stacks Vm VmWitness.
Import ListNotations.

Set Implicit Arguments.

(* ------------------------------------------------------------------ *)
(* Totality and determinism (immediate: `run` is a Gallina function)    *)
(* ------------------------------------------------------------------ *)

Theorem run_total : forall F bld N P s, exists o s', run F bld N P s = (o, s').
Proof. intros. destruct (run F bld N P s) as [o s']. eauto. Qed.

Theorem run_deterministic : forall F bld N P s r1 r2,
  run F bld N P s = r1 -> run F bld N P s = r2 -> r1 = r2.
Proof. intros; congruence. Qed.

(* ------------------------------------------------------------------ *)
(* The ghost counter and one instruction                               *)
(* ------------------------------------------------------------------ *)

Definition cr (s : state) : N * N := (st_count s, st_rem s).

Section CountRel.
  (* a reflexive, transitive relation on (dispatch counter, remaining budget) *)
  Variable R : N * N -> N * N -> Prop.
  Hypothesis R_refl : forall x, R x x.
  Hypothesis R_trans : forall x y z, R x y -> R y z -> R x z.

  Variable F : fops.
  Variable bld : build.
  Variable P : program.
  Variable reenter : N -> state -> rres.

  Definition rres_R (c : N * N) (r : rres) : Prop :=
    match r with ROk s' | RErr _ _ s' | RStop _ s' => R c (cr s') end.
  Definition sres_R (c : N * N) (r : sres) : Prop :=
    match r with SNext _ s' | SExit s' | SErr _ _ s' | SStop _ s' => R c (cr s') end.
  Definition nres_R (c : N * N) (r : nres) : Prop :=
    match r with NOk _ s' | NErr _ s' | NStop _ s' => R c (cr s') end.

  Hypothesis reenter_R : forall ip s, rres_R (cr s) (reenter ip s).

  (* helpers preserve the counter exactly *)
  Lemma spush_cnt s v s1 : spush s v = Some s1 -> cr s1 = cr s.
  Proof. unfold spush. destruct (vs_push _ _) as [k []]; intros H; inversion H; reflexivity. Qed.
  Lemma spop_cnt s s1 v : spop s = (s1, v) -> cr s1 = cr s.
  Proof. unfold spop. destruct (vs_pop _ _); intros H; inversion H; reflexivity. Qed.
  Lemma sset_cnt s i v s1 : sset s i v = Some s1 -> cr s1 = cr s.
  Proof. unfold sset. destruct (vs_step _ _ _) as [k []]; intros H; inversion H; reflexivity. Qed.
  Lemma sclear_until_cnt s h s1 v : sclear_until s h = (s1, v) -> cr s1 = cr s.
  Proof. unfold sclear_until. destruct (vs_step _ _ _) as [k []]; intros H; inversion H; reflexivity. Qed.
  Lemma spop_w_offset_cnt s h s1 v : spop_w_offset s h = (s1, v) -> cr s1 = cr s.
  Proof. unfold spop_w_offset. destruct (vs_step _ _ _) as [k []]; intros H; inversion H; reflexivity. Qed.
  Lemma salloc_cnt s o s1 a : salloc s o = (s1, a) -> cr s1 = cr s.
  Proof. unfold salloc, halloc. intros H; inversion H; reflexivity. Qed.
  Lemma push_frame_cnt s f s1 : push_frame s f = Some s1 -> cr s1 = cr s.
  Proof. unfold push_frame. destruct (_ <=? _); intros H; inversion H; reflexivity. Qed.
  Lemma write_local_cnt s off h v s1 : write_local s off h v = Some s1 -> cr s1 = cr s.
  Proof. apply sset_cnt. Qed.

  Ltac note_cnt :=
    repeat match goal with
           | H : spush _ _ = Some _ |- _ => apply spush_cnt in H
           | H : spop _ = (_, _) |- _ => apply spop_cnt in H
           | H : sset _ _ _ = Some _ |- _ => apply sset_cnt in H
           | H : sclear_until _ _ = (_, _) |- _ => apply sclear_until_cnt in H
           | H : spop_w_offset _ _ = (_, _) |- _ => apply spop_w_offset_cnt in H
           | H : salloc _ _ = (_, _) |- _ => apply salloc_cnt in H
           | H : push_frame _ _ = Some _ |- _ => apply push_frame_cnt in H
           | H : write_local _ _ _ _ = Some _ |- _ => apply write_local_cnt in H
           end.

  Ltac cnt_cbn :=
    cbn [st_count st_rem set_stack set_calls set_globals set_heap set_open set_log set_table log_push sraw_set
         spop_n sres_R nres_R rres_R fst snd] in *.
  Ltac cnt_simpl := cnt_cbn; unfold cr in *; cnt_cbn.

  (* close the goal  R (cr s) (st_count s')  from the collected equalities (and at most one R fact) *)
  Ltac cnt_close :=
    note_cnt; cnt_simpl;
    repeat match goal with
           | H : (st_count ?a, st_rem ?a) = (st_count ?b, st_rem ?b) |- _ => rewrite H in *; clear H
           end;
    cnt_simpl;
    first [ apply R_refl | assumption | (eapply R_trans; [eassumption|]; apply R_refl)
          | (eapply R_trans; eassumption) | exact I ].

  Ltac head_destruct G :=
    match goal with
    | |- G _ (match ?x with _ => _ end) => destruct x eqn:?
    end.

  Lemma close_upvalues_go_cnt fuel top s :
    match close_upvalues_go fuel top s with
    | ClOk s' | ClErr _ s' | ClStop _ s' => cr s' = cr s
    end.
  Proof.
    revert s. induction fuel as [|f IH]; intros s; cbn [close_upvalues_go]; [reflexivity|].
    destruct (st_open s) as [a|]; [|reflexivity].
    destruct (hget (st_heap s) a) as [[t|b|h ar|h|h ar ups|u]|]; try reflexivity.
    destruct (u_loc u) as [l|]; [|reflexivity].
    destruct (l <? top); [reflexivity|].
    match goal with |- match close_upvalues_go f top ?s1 with _ => _ end => specialize (IH s1) end.
    destruct (close_upvalues_go f top _); cbn in IH; exact IH.
  Qed.

  Lemma close_upvalues_from_cnt top s :
    match close_upvalues_from top s with
    | ClOk s' | ClErr _ s' | ClStop _ s' => cr s' = cr s
    end.
  Proof. apply close_upvalues_go_cnt. Qed.

  Lemma push_next_R ip s v c : R c (cr s) -> sres_R c (push_next ip s v).
  Proof. unfold push_next. intros H. destruct (spush s v) eqn:E; cnt_close. Qed.

  Lemma of_vres_R ip s r c : R c (cr s) -> sres_R c (of_vres ip s r).
  Proof. intros H. destruct r; cbn [of_vres]; try apply push_next_R; cnt_close. Qed.

  Lemma binary_op_R ip s op : sres_R (cr s) (binary_op ip s op).
  Proof.
    unfold binary_op. destruct (spop s) as [s1 b] eqn:E1. destruct (spop s1) as [s2 a] eqn:E2.
    apply of_vres_R. cnt_close.
  Qed.

  (* run_function and the natives *)
  Lemma run_function_R (cn : N -> state -> nres) :
    (forall h s, nres_R (cr s) (cn h s)) ->
    forall fv s, nres_R (cr s) (run_function P reenter cn fv s).
  Proof.
    intros Hcn fv s. unfold run_function.
    destruct fv as [|z|r|a]; try cnt_close.
    destruct (hget (st_heap s) a) as [o|]; [|cnt_close].
    assert (Hgo : forall arity label clo,
      nres_R (cr s)
        (if (code_len P =? 0)%N then NStop APanic s
         else match assoc label (p_labels P) with
              | None => NErr (EProcedureNotFound label) s
              | Some src =>
                  let len := N.of_nat (scount s) in
                  if (len <? arity)%N then NErr EMissingArgument s
                  else
                    let f := mkFrame src (last_pos P) (len - arity) clo in
                    match push_frame s f with
                    | None => NErr ECallStackOverflow s
                    | Some s1 =>
                        match push_frame s1 f with
                        | None => NErr ECallStackOverflow s
                        | Some s2 =>
                            let depth := length (st_calls s) in
                            let unwind (x : state) :=
                              set_calls x (skipn (length (st_calls x) - depth) (st_calls x)) in
                            match reenter src s2 with
                            | ROk s3 => let '(s5, v) := spop (unwind s3) in NOk v s5
                            | RErr e _ s3 => NErr e (unwind s3)
                            | RStop ab s3 => NStop ab s3
                            end
                        end
                    end
              end)).
    { intros arity label clo.
      destruct (code_len P =? 0)%N; [cnt_close|].
      destruct (assoc label (p_labels P)) as [src|]; [|cnt_close].
      cbv zeta. destruct (_ <? _)%N; [cnt_close|].
      destruct (push_frame s _) as [s1|] eqn:E1; [|cnt_close].
      destruct (push_frame s1 _) as [s2|] eqn:E2; [|cnt_close].
      pose proof (reenter_R src s2) as Hr.
      destruct (reenter src s2) as [s3|e ip3 s3|ab s3]; cbn [rres_R] in Hr.
      - destruct (spop _) as [s5 v] eqn:E5. cnt_close.
      - cnt_close.
      - cnt_close. }
    destruct o; try apply Hgo; try cnt_close.
    pose proof (Hcn h s) as Hc. destruct (cn h s) as [v s1|e s1|ab s1]; cbn [nres_R] in Hc |- *.
    - destruct (spop s1) as [s2 v2] eqn:E. cnt_close.
    - cnt_close.
    - cnt_close.
  Qed.

  Section StdR.
    Variable self : N -> state -> nres.
    Hypothesis Hrf : forall fv s, nres_R (cr s) (run_function P reenter self fv s).

    Lemma minmax_go_R less key_fn : forall l j i best s c, R c (cr s) ->
      match minmax_go F P reenter self less key_fn l j i best s with
      | MMOk _ s' => R c (cr s')
      | MMFail r => nres_R c r
      end.
    Proof.
      induction l as [|[k v] rest IH]; intros j i best s c Hc; cbn [minmax_go]; [exact Hc|].
      destruct (spush s v) as [s1|] eqn:E1; [|cnt_close].
      destruct (spush s1 k) as [s2|] eqn:E2; [|cnt_close].
      pose proof (Hrf key_fn s2) as H.
      destruct (run_function P reenter self key_fn s2) as [key s3|e s3|ab s3]; cbn [nres_R] in H; try cnt_close.
      assert (Hc3 : R c (cr s3)) by cnt_close.
      destruct (vcmp F (st_heap s3) key best) as [[]| |]; cbv beta iota zeta; cbn [nres_R]; try exact Hc3;
        destruct less; cbn [negb]; cbv beta iota; apply IH; exact Hc3.
    Qed.

    Lemma make_row_R s k v c : R c (cr s) -> nres_R c (make_row F s k v).
    Proof.
      intros Hc. unfold make_row.
      destruct (salloc s _) as [s3 row] eqn:E3. destruct (salloc s3 _) as [s4 ka] eqn:E4.
      destruct (tinsert _ _ _ k); [|cnt_close].
      destruct (salloc s4 _) as [s5 va] eqn:E5.
      destruct (tinsert _ _ _ v); cnt_close.
    Qed.

    Lemma snapshot_cnt s t s' ct : snapshot F s t = Some (s', ct) -> cr s' = cr s.
    Proof.
      unfold snapshot. destruct (titer _ t) as [l|]; [|discriminate].
      destruct (salloc s _) as [s1 c] eqn:E1. destruct (insert_pairs _ _ l) as [ct'|]; [|discriminate].
      intros H. injection H as <- <-. apply salloc_cnt in E1. unfold cr in *. cbn in *. exact E1.
    Qed.

    Lemma native_minmax_R less it kf s0 : nres_R (cr s0) (native_minmax F P reenter self less it kf s0).
    Proof.
      unfold native_minmax. destruct it; try cnt_close.
      destruct (hget (st_heap s0) a) as [[t| | | | |]|]; try cnt_close.
      destruct (snapshot F s0 t) as [[s entries]|] eqn:Esn; [|cnt_close].
      apply snapshot_cnt in Esn. rewrite <- Esn. clear Esn.
      destruct (titer _ entries) as [[|[k0 v0] rest]|]; try cnt_close.
      destruct (spush s v0) as [s1|] eqn:E1; [|cnt_close].
      destruct (spush s1 k0) as [s2|] eqn:E2; [|cnt_close].
      pose proof (Hrf kf s2) as H.
      destruct (run_function P reenter self kf s2) as [key0 s3|e s3|ab s3]; cbn [nres_R] in H; try cnt_close.
      assert (Hc3 : R (cr s) (cr s3)) by cnt_close.
      pose proof (@minmax_go_R less kf rest 1 0 key0 s3 _ Hc3) as Hm.
      destruct (minmax_go F P reenter self less kf rest 1 0 key0 s3) as [i s4|r]; [|exact Hm].
      destruct (tget _ entries _); [|cbn [nres_R]; exact Hm].
      apply make_row_R. exact Hm.
    Qed.

    Lemma sort_keys_R kf : forall l s c, R c (cr s) ->
      match sort_keys P reenter self kf l s with
      | SKOk _ s' => R c (cr s')
      | SKFail r => nres_R c r
      end.
    Proof.
      induction l as [|[k v] rest IH]; intros s c Hc; cbn [sort_keys]; [exact Hc|].
      destruct (spush s v) as [s1|] eqn:E1; [|cnt_close].
      destruct (spush s1 k) as [s2|] eqn:E2; [|cnt_close].
      pose proof (Hrf kf s2) as H.
      destruct (run_function P reenter self kf s2) as [key s3|e s3|ab s3]; cbn [nres_R] in H; try cnt_close.
      assert (Hc3 : R c (cr s3)) by cnt_close.
      specialize (IH s3 c Hc3).
      destruct (sort_keys P reenter self kf rest s3); exact IH.
    Qed.

    Lemma native_sorted_R it kf s0 : nres_R (cr s0) (native_sorted F P reenter self it kf s0).
    Proof.
      unfold native_sorted. destruct it; try cnt_close.
      destruct (hget (st_heap s0) a) as [[t| | | | |]|]; try cnt_close.
      destruct (snapshot F s0 t) as [[s entries]|] eqn:Esn; [|cnt_close].
      apply snapshot_cnt in Esn. rewrite <- Esn. clear Esn.
      destruct (titer _ entries) as [l|]; [|cnt_close].
      pose proof (@sort_keys_R kf l s _ (R_refl (cr s))) as Hk.
      destruct (sort_keys P reenter self kf l s) as [keyed s1|r]; [|exact Hk].
      destruct (stable_sort _ _ _ _); [|cbn [nres_R]; exact Hk].
      destruct (salloc s1 _) as [s2 out] eqn:E2.
      destruct (insert_all _ _ _); cnt_close.
    Qed.
  End StdR.

  Lemma native_body_R (self : N -> state -> nres) :
    (forall h s, nres_R (cr s) (self h s)) ->
    forall n s, nres_R (cr s) (native_body F P reenter self n s).
  Proof.
    intros Hself n s.
    pose proof (@run_function_R self Hself) as Hrf.
    destruct n; cbn [native_body]; cbv zeta.
    - (* log1 *) cnt_close.
    - (* sub2 *) destruct (to_i64 _ _ _); [|cnt_close]. destruct (to_i64 _ _ _); cnt_close.
    - cnt_close.
    - (* str1 *) destruct (as_str _ _); cnt_close.
    - (* mix3 *) destruct (to_i64 _ _ _); [|cnt_close]. destruct (to_f64 _ _ _); cnt_close.
    - (* call1 *)
      destruct (spush s _) as [s1|] eqn:E1; [|cnt_close].
      pose proof (Hrf (speek s 1) s1) as H. destruct (run_function _ _ _ _ s1); cnt_close.
    - (* try1 *)
      destruct (spush s _) as [s1|] eqn:E1; [|cnt_close].
      pose proof (Hrf (speek s 1) s1) as H. destruct (run_function _ _ _ _ s1); cnt_close.
    - (* call0 *)
      pose proof (Hrf (speek s 0) s) as H. destruct (run_function _ _ _ _ s); cnt_close.
    - (* t4 *) destruct (as_str _ _); try cnt_close.
      destruct (as_bool _ _ _); [|cnt_close]. destruct (to_f64 _ _ _); [|cnt_close]. destruct (to_i64 _ _ _); cnt_close.
    - (* nil1 *) destruct (speek s 0); try cnt_close; destruct (to_i64 _ _ _); cnt_close.
    - (* tab1 *) destruct (get_table _ _); cnt_close.
    - (* cat2 *) destruct (as_str _ _); try cnt_close. destruct (as_str _ _); cnt_close.
    - (* rb1 *)
      destruct (spush s _) as [s1|] eqn:E1; [|cnt_close].
      pose proof (Hrf (speek s 1) s1) as H. destruct (run_function _ _ _ _ s1); cnt_close.
    - apply native_minmax_R; exact Hrf.
    - apply native_minmax_R; exact Hrf.
    - apply native_sorted_R; exact Hrf.
    - (* to_array *)
      destruct (speek s 0); try cnt_close.
      destruct (hget _ _) as [[]|]; try cnt_close.
      destruct (salloc s _) as [s2 out] eqn:E2.
      destruct (titer _ _); [|cnt_close].
      destruct (to_array_go _ _ _ _); cnt_close.
  Qed.

  Lemma call_native_fuel_R fuel : forall h s, nres_R (cr s) (call_native_fuel F P reenter fuel h s).
  Proof.
    induction fuel as [|f IH]; intros h s; cbn [call_native_fuel]; [cnt_close|].
    destruct (find_native h all_natives) as [n|]; [|cnt_close].
    pose proof (@native_body_R _ IH n s) as H.
    destruct (native_body _ _ _ _ n s) as [v s1|e s1|ab s1]; cbn [nres_R] in H.
    - cbv zeta. destruct (spush _ v) eqn:E; cnt_close.
    - cnt_close.
    - cnt_close.
  Qed.

  Lemma native_step_R h ip s : sres_R (cr s) (native_step F P reenter h ip s).
  Proof.
    unfold native_step, call_native. pose proof (call_native_fuel_R 8 h s) as H.
    destruct (call_native_fuel _ _ _ _ h s); cnt_close.
  Qed.

  Lemma native_step_R' h ip s c : R c (cr s) -> sres_R c (native_step F P reenter h ip s).
  Proof.
    intros Hc. pose proof (native_step_R h ip s) as H.
    destruct (native_step _ _ _ h ip s); cbn [sres_R] in *; eapply R_trans; eauto.
  Qed.

  Ltac step_tac :=
    repeat match goal with
           | |- sres_R _ (binary_op _ _ _) => apply binary_op_R
           | |- sres_R _ (push_next _ _ _) => apply push_next_R
           | |- sres_R _ (native_step _ _ _ _ _ _) => apply native_step_R'
           | |- sres_R _ (match ?x with _ => _ end) => destruct x eqn:?
           end;
    try cnt_close.

  Ltac instr d := intros opc ip0 ip s; unfold d; cbv zeta; step_tac.

  Lemma i_4_R : forall opc ip0 ip s, sres_R (cr s) (i_4 F P reenter opc ip0 ip s). Proof. instr i_4. Qed.
  Lemma i_5_R : forall opc ip0 ip s, sres_R (cr s) (i_5 P opc ip0 ip s). Proof. instr i_5. Qed.
  Lemma i_6_R : forall opc ip0 ip s, sres_R (cr s) (i_6 P opc ip0 ip s). Proof. instr i_6. Qed.
  Lemma i_8_R : forall opc ip0 ip s, sres_R (cr s) (i_8 P opc ip0 ip s). Proof. instr i_8. Qed.
  Lemma i_11_R : forall opc ip0 ip s, sres_R (cr s) (i_11 F P reenter opc ip0 ip s). Proof. instr i_11. Qed.
  Lemma i_17_R : forall opc ip0 ip s, sres_R (cr s) (i_17 P opc ip0 ip s). Proof. instr i_17. Qed.
  Lemma i_18_R : forall opc ip0 ip s, sres_R (cr s) (i_18 P opc ip0 ip s). Proof. instr i_18. Qed.
  Lemma i_19_R : forall opc ip0 ip s, sres_R (cr s) (i_19 P opc ip0 ip s). Proof. instr i_19. Qed.
  Lemma i_20_R : forall opc ip0 ip s, sres_R (cr s) (i_20 P opc ip0 ip s). Proof. instr i_20. Qed.
  Lemma i_21_R : forall opc ip0 ip s, sres_R (cr s) (i_21 opc ip0 ip s). Proof. instr i_21. Qed.
  Lemma i_22_R : forall opc ip0 ip s, sres_R (cr s) (i_22 opc ip0 ip s).
  Proof.
    intros opc ip0 ip s; unfold i_22; cbv zeta.
    destruct (st_calls s) as [|fr rest]; [cnt_close|].
    pose proof (close_upvalues_from_cnt (N.to_nat (fr_off fr)) (set_calls s rest)) as Hcl.
    destruct (close_upvalues_from _ _) as [s2|e s2|a s2]; cbn [st_count set_calls] in Hcl; try cnt_close.
    step_tac.
  Qed.
  Lemma i_23_R : forall opc ip0 ip s, sres_R (cr s) (i_23 opc ip0 ip s). Proof. instr i_23. Qed.
  Lemma i_27_R : forall opc ip0 ip s, sres_R (cr s) (i_27 F opc ip0 ip s). Proof. instr i_27. Qed.
  Lemma i_28_R : forall opc ip0 ip s, sres_R (cr s) (i_28 bld P opc ip0 ip s). Proof. instr i_28. Qed.
  Lemma i_29_30_R : forall opc ip0 ip s, sres_R (cr s) (i_29_30 F bld P opc ip0 ip s). Proof. instr i_29_30. Qed.
  Lemma i_31_R : forall opc ip0 ip s, sres_R (cr s) (i_31 opc ip0 ip s). Proof. instr i_31. Qed.
  Lemma i_32_R : forall opc ip0 ip s, sres_R (cr s) (i_32 F opc ip0 ip s). Proof. instr i_32. Qed.
  Lemma i_33_R : forall opc ip0 ip s, sres_R (cr s) (i_33 F opc ip0 ip s). Proof. instr i_33. Qed.
  Lemma i_34_R : forall opc ip0 ip s, sres_R (cr s) (i_34 opc ip0 ip s). Proof. instr i_34. Qed.
  Lemma i_35_R : forall opc ip0 ip s, sres_R (cr s) (i_35 P opc ip0 ip s). Proof. instr i_35. Qed.
  Lemma i_36_R : forall opc ip0 ip s, sres_R (cr s) (i_36 F bld P opc ip0 ip s). Proof. instr i_36. Qed.
  Lemma i_37_42_R : forall opc ip0 ip s, sres_R (cr s) (i_37_42 P opc ip0 ip s). Proof. instr i_37_42. Qed.
  Lemma i_38_R : forall opc ip0 ip s, sres_R (cr s) (i_38 P opc ip0 ip s). Proof. instr i_38. Qed.
  Lemma i_39_R : forall opc ip0 ip s, sres_R (cr s) (i_39 F opc ip0 ip s). Proof. instr i_39. Qed.
  Lemma i_40_R : forall opc ip0 ip s, sres_R (cr s) (i_40 F opc ip0 ip s). Proof. instr i_40. Qed.
  Lemma i_41_R : forall opc ip0 ip s, sres_R (cr s) (i_41 F opc ip0 ip s). Proof. instr i_41. Qed.
  Lemma i_43_44_R : forall opc ip0 ip s, sres_R (cr s) (i_43_44 P opc ip0 ip s).
  Proof.
    intros opc ip0 ip s; unfold i_43_44; cbv zeta.
    destruct (op_u32 P ip); [|cnt_close].
    destruct (opc =? 43)%N; cbv beta iota.
    - destruct (spop s) as [s1 wv] eqn:E. step_tac.
    - step_tac.
  Qed.
  Lemma i_45_R : forall opc ip0 ip s, sres_R (cr s) (i_45 P opc ip0 ip s).
  Proof.
    intros opc ip0 ip s; unfold i_45; cbv zeta.
    repeat match goal with
           | |- sres_R _ (match ?x with _ => _ end) => destruct x eqn:?
           end;
    try cnt_close.
    all: cbn [sres_R st_count set_heap].
    all: repeat match goal with
                | |- context [match ?x with _ => _ end] => destruct x eqn:?
                end; cnt_close.
  Qed.
  Lemma i_46_R : forall opc ip0 ip s, sres_R (cr s) (i_46 P opc ip0 ip s).
  Proof.
    intros opc ip0 ip s; unfold i_46; cbv zeta.
    destruct (op_u32 P ip) as [idx|]; [|cnt_close].
    destruct (top_offset s) as [off|]; [|cnt_close].
    pose proof (close_upvalues_from_cnt (off + N.to_nat idx) s) as Hcl.
    destruct (close_upvalues_from _ _); cnt_close.
  Qed.

  Theorem step_count_rel : forall ip s, sres_R (cr s) (step F bld P reenter ip s).
  Proof.
    intros ip0 s. unfold step. cbv zeta.
    destruct (nth (N.to_nat ip0) (p_code P) 255%N) as [|p]; [apply binary_op_R|].
    do 6 (try destruct p as [p|p|]).
    all: first
      [ apply binary_op_R
      | apply push_next_R; apply R_refl
      | apply i_4_R | apply i_5_R | apply i_6_R | apply i_8_R | apply i_11_R | apply i_17_R | apply i_18_R
      | apply i_19_R | apply i_20_R | apply i_21_R | apply i_22_R | apply i_23_R | apply i_27_R | apply i_28_R
      | apply i_29_30_R | apply i_31_R | apply i_32_R | apply i_33_R | apply i_34_R | apply i_35_R | apply i_36_R
      | apply i_37_42_R | apply i_38_R | apply i_39_R | apply i_40_R | apply i_41_R | apply i_43_44_R
      | apply i_45_R | apply i_46_R
      | (destruct (spop s) as [s1 v1] eqn:E; cnt_close)
      | cnt_close ].
  Qed.
End CountRel.

(* ------------------------------------------------------------------ *)
(* The dispatch loops                                                  *)
(* ------------------------------------------------------------------ *)

Definition res_state (r : rres) : state :=
  match r with ROk s | RErr _ _ s | RStop _ s => s end.

Definition is_timeout (r : rres) : Prop :=
  match r with RErr ETimeout _ _ => True | _ => False end.

(* (count, remaining) -> (count', remaining'): the work done is paid for by the budget, and the counter grows *)
Definition paid (a b : N * N) : Prop := (fst b + snd b <= fst a + snd a /\ fst a <= fst b)%N.
Lemma paid_refl x : paid x x.
Proof. unfold paid; lia. Qed.
Lemma paid_trans x y z : paid x y -> paid y z -> paid x z.
Proof. unfold paid; lia. Qed.

Lemma tick_cr s : cr (tick s) = ((st_count s + 1)%N, st_rem s).
Proof. reflexivity. Qed.

Section Loop.
  Variable F : fops.
  Variable bld : build.
  Variable P : program.
  Variable reenter : N -> state -> rres.

  (* with at most one unit of budget left nothing is executed and Timeout is reported at the current instruction *)
  Theorem timeout_reported : forall fuel ip s,
    (ip < code_len P)%N -> (st_rem s <= 1)%N ->
    loop F bld P reenter fuel ip s = RErr ETimeout ip (set_rem s 0).
  Proof.
    intros fuel ip s H Hr. destruct fuel; cbn [loop]; apply N.leb_gt in H; rewrite H; cbn [st_rem set_rem].
    all: replace (N.pred (st_rem s)) with 0%N by lia; reflexivity.
  Qed.

  Section Paid.
    Hypothesis re_paid : forall ip s, rres_R paid (cr s) (reenter ip s).

    (* the real loop: dispatches are paid for by the shared budget *)
    Lemma loop_paid : forall fuel ip s, rres_R paid (cr s) (loop F bld P reenter fuel ip s).
    Proof.
      induction fuel as [|f IH]; intros ip s; cbn [loop].
      - destruct (code_len P <=? ip)%N; [cbn; unfold paid; cbn; lia|].
        cbn [st_rem set_rem]. destruct (N.pred (st_rem s) =? 0)%N; cbn; unfold paid; cbn; lia.
      - destruct (code_len P <=? ip)%N; [cbn; unfold paid; cbn; lia|].
        cbn [st_rem set_rem]. destruct (N.pred (st_rem s) =? 0)%N eqn:E0; [cbn; unfold paid; cbn; lia|].
        apply N.eqb_neq in E0.
        pose proof (@step_count_rel paid paid_refl paid_trans F bld P reenter re_paid ip
                      (tick (set_rem s (N.pred (st_rem s))))) as Hs.
        rewrite tick_cr in Hs. cbn [st_count st_rem set_rem] in Hs.
        destruct (step F bld P reenter ip _) as [ip' s'|s'|e ip' s'|a s']; cbn [sres_R rres_R] in *;
          try (unfold paid, cr in *; cbn [fst snd] in *; lia).
        specialize (IH ip' s').
        destruct (loop F bld P reenter f ip' s'); cbn [rres_R] in *; unfold paid, cr in *; cbn [fst snd] in *; lia.
    Qed.
  End Paid.

  (* [fuel] is only the structural argument of the recursion: any fuel that covers the remaining budget gives the
     same result, so the dispatch loop never stops for lack of fuel *)
  Section Fuel.
    Hypothesis re_paid : forall ip s, rres_R paid (cr s) (reenter ip s).

    Lemma loop_fuel_irrelevant : forall f1 f2 ip s,
      (st_rem s <= N.of_nat f1)%N -> (st_rem s <= N.of_nat f2)%N ->
      loop F bld P reenter f1 ip s = loop F bld P reenter f2 ip s.
    Proof.
      induction f1 as [|g1 IH]; intros f2 ip s H1 H2; destruct f2 as [|g2]; cbn [loop];
        destruct (code_len P <=? ip)%N; try reflexivity; cbn [st_rem set_rem];
        destruct (N.pred (st_rem s) =? 0)%N eqn:E0; try reflexivity; apply N.eqb_neq in E0; try lia.
      pose proof (@step_count_rel paid paid_refl paid_trans F bld P reenter re_paid ip
                    (tick (set_rem s (N.pred (st_rem s))))) as Hs.
      rewrite tick_cr in Hs. cbn [st_count st_rem set_rem] in Hs.
      destruct (step F bld P reenter ip _) as [ip' s'|s'|e ip' s'|a s']; try reflexivity.
      cbn [sres_R] in Hs. unfold paid, cr in Hs. cbn [fst snd] in Hs.
      apply IH; lia.
    Qed.
  End Fuel.

  (* the flat loop *)
  Lemma loop_flat_mono : forall rem rem' ip s,
    rem <= rem' -> ~ is_timeout (loop_flat F bld P reenter rem ip s) ->
    loop_flat F bld P reenter rem' ip s = loop_flat F bld P reenter rem ip s.
  Proof.
    induction rem as [|r IH]; intros rem' ip s Hle Hnt.
    - cbn [loop_flat] in *. destruct rem'; cbn [loop_flat]; destruct (code_len P <=? ip)%N;
        try reflexivity; exfalso; apply Hnt; exact I.
    - destruct rem' as [|r']; [lia|].
      cbn [loop_flat] in *.
      destruct (code_len P <=? ip)%N; [reflexivity|].
      destruct r as [|r0]; [exfalso; apply Hnt; exact I|].
      destruct r' as [|r0']; [lia|].
      destruct (step F bld P reenter ip (tick s)) as [ip' s'|s'|e ip' s'|a s']; try reflexivity.
      apply IH; [lia|exact Hnt].
  Qed.

  Section Flat.
    Hypothesis re_eq : forall ip s, rres_R eq (cr s) (reenter ip s).

    Lemma step_cr_eq ip s :
      match step F bld P reenter ip s with
      | SNext _ s' | SExit s' | SErr _ _ s' | SStop _ s' => cr s' = cr s
      end.
    Proof.
      pose proof (@step_count_rel eq (@eq_refl _) (@eq_trans _) F bld P reenter re_eq ip s) as H.
      destruct (step F bld P reenter ip s); cbn [sres_R] in H; congruence.
    Qed.

    Lemma loop_flat_bound : forall rem ip s,
      (st_count s <= st_count (res_state (loop_flat F bld P reenter rem ip s)) /\
       st_count (res_state (loop_flat F bld P reenter rem ip s)) <= st_count s + N.of_nat (Nat.pred rem))%N.
    Proof.
      induction rem as [|r IH]; intros ip s; cbn [loop_flat].
      - destruct (code_len P <=? ip)%N; cbn [res_state]; lia.
      - destruct (code_len P <=? ip)%N; [cbn [res_state]; lia|].
        destruct r as [|r0]; [cbn [res_state]; lia|].
        pose proof (step_cr_eq ip (tick s)) as Hs. rewrite tick_cr in Hs.
        destruct (step F bld P reenter ip (tick s)) as [ip' s'|s'|e ip' s'|a s']; cbn [res_state];
          unfold cr in Hs; inversion Hs; try lia.
        specialize (IH ip' s'). cbn [Nat.pred] in *. lia.
    Qed.
  End Flat.
End Loop.

Lemma no_reenter_eq : forall ip s, rres_R eq (cr s) (no_reenter ip s).
Proof. intros; reflexivity. Qed.

(* ------------------------------------------------------------------ *)
(* C03 for the code as it is: the budget bounds every run, re-entry included *)
(* ------------------------------------------------------------------ *)

Lemma run_at_paid F bld P max_instr : forall depth ip s,
  rres_R paid (cr s) (run_at F bld P false max_instr depth ip s).
Proof.
  induction depth as [|d IH]; intros ip s; cbn [run_at]; [cbn; unfold paid; cbn; lia|].
  unfold run_loop. apply loop_paid. exact IH.
Qed.

(* at every nesting level of the real run, any fuel that covers the remaining budget computes `_run` *)
Theorem dispatch_fuel_irrelevant : forall F bld P max_instr d fuel ip s,
  (st_rem s <= N.of_nat fuel)%N ->
  loop F bld P (run_at F bld P false max_instr d) fuel ip s
  = run_loop F bld P (run_at F bld P false max_instr d) ip s.
Proof.
  intros. unfold run_loop. apply loop_fuel_irrelevant; [apply run_at_paid|assumption|].
  rewrite N2Nat.id. lia.
Qed.

Lemma finish_state P r : st_count (snd (finish P r)) = st_count (res_state r) /\
                         st_rem (snd (finish P r)) = st_rem (res_state r).
Proof.
  unfold finish. destruct r as [s|e ip s|a s]; cbn; split; reflexivity.
Qed.

Lemma push_frame_cr s f s1 : push_frame s f = Some s1 -> cr s1 = cr s.
Proof. unfold push_frame. destruct (_ <=? _); intros H; inversion H; reflexivity. Qed.

(* for all programs, all states, every nesting of run_function through the natives of the menu:
   a run with budget N dispatches at most N instructions (and the counter never decreases) *)
Theorem budget_bound : forall F bld P N s,
  (st_count s <= st_count (snd (run F bld N P s)) /\
   st_count (snd (run F bld N P s)) <= st_count s + N.of_nat N)%N.
Proof.
  intros F bld P N s. unfold run, run_gen.
  destruct (push_frame s _) as [s1|] eqn:Ep; [|cbn; lia].
  apply push_frame_cr in Ep. unfold cr in Ep. inversion Ep as [[Hc Hr]].
  pose proof (run_at_paid F bld P (N.of_nat N) max_depth 0%N (set_rem s1 (N.of_nat N))) as H.
  destruct (finish_state P (run_at F bld P false (N.of_nat N) max_depth 0 (set_rem s1 (N.of_nat N)))) as [Hf _].
  rewrite Hf.
  destruct (run_at F bld P false (N.of_nat N) max_depth 0 (set_rem s1 (N.of_nat N)));
    cbn [rres_R res_state] in *; unfold paid, cr in H; cbn [fst snd st_count st_rem set_rem] in H; lia.
Qed.

(* ------------------------------------------------------------------ *)
(* Runs without re-entry                                               *)
(* ------------------------------------------------------------------ *)

Theorem budget_bound_flat : forall F bld P N s o s',
  run_flat F bld N P s = (o, s') ->
  (st_count s <= st_count s' /\ st_count s' <= st_count s + N.of_nat (Nat.pred N))%N.
Proof.
  intros F bld P N s o s' Hrun. unfold run_flat in Hrun.
  destruct (push_frame s _) as [s1|] eqn:Ep.
  - apply push_frame_cr in Ep. unfold cr in Ep. inversion Ep as [[Hc Hr]].
    pose proof (@loop_flat_bound F bld P no_reenter no_reenter_eq N 0%N s1) as Hb.
    destruct (finish_state P (loop_flat F bld P no_reenter N 0 s1)) as [Hf _].
    rewrite Hrun in Hf. cbn [snd] in Hf. lia.
  - inversion Hrun; subst. lia.
Qed.

Definition is_timeout_outcome (o : outcome) : Prop :=
  match o with OErr ETimeout _ => True | _ => False end.

Lemma finish_timeout P r : is_timeout_outcome (fst (finish P r)) <-> is_timeout r.
Proof. unfold finish. destruct r as [s|e ip s|a s]; cbn; tauto. Qed.

(* a sufficient budget does not influence the result: outcome and final state are equal *)
Theorem budget_monotone : forall F bld P N N' s o s',
  N <= N' -> run_flat F bld N P s = (o, s') -> ~ is_timeout_outcome o ->
  run_flat F bld N' P s = (o, s').
Proof.
  intros F bld P N N' s o s' Hle Hrun Hnt. unfold run_flat in *.
  destruct (push_frame s _) as [s1|]; [|exact Hrun].
  rewrite (@loop_flat_mono F bld P no_reenter N N' 0%N s1); [exact Hrun|lia|].
  intros Ht. apply Hnt. apply (finish_timeout P) in Ht. rewrite Hrun in Ht. exact Ht.
Qed.

Corollary sufficient_budgets_agree : forall F bld P N1 N2 s r1 r2,
  run_flat F bld N1 P s = r1 -> run_flat F bld N2 P s = r2 ->
  ~ is_timeout_outcome (fst r1) -> ~ is_timeout_outcome (fst r2) -> r1 = r2.
Proof.
  intros F bld P N1 N2 s [o1 s1] [o2 s2] E1 E2 T1 T2. cbn [fst] in *.
  destruct (Nat.le_ge_cases N1 N2) as [L|L].
  - rewrite (budget_monotone F bld P s L E1 T1) in E2. congruence.
  - rewrite (budget_monotone F bld P s L E2 T2) in E1. congruence.
Qed.

Lemma is_timeout_outcome_dec o : {is_timeout_outcome o} + {~ is_timeout_outcome o}.
Proof. destruct o as [|e t|a]; cbn; try (right; tauto). destruct e; cbn; (left; exact I) || (right; tauto). Qed.

(* a program that needs at least N instructions reports Timeout when run with budget N >= 1 *)
Theorem timeout_reported_run : forall F bld P N N' s o' s'',
  1 <= N -> N <= N' -> run_flat F bld N' P s = (o', s'') ->
  (st_count s + N.of_nat N <= st_count s'')%N ->
  is_timeout_outcome (fst (run_flat F bld N P s)).
Proof.
  intros F bld P N N' s o' s'' HN Hle Hrun Hcnt.
  destruct (run_flat F bld N P s) as [o s'] eqn:E. cbn [fst].
  destruct (is_timeout_outcome_dec o) as [T|T]; [exact T|exfalso].
  pose proof (budget_monotone F bld P s Hle E T) as E'. rewrite E' in Hrun. inversion Hrun; subst.
  pose proof (budget_bound_flat F bld P N s E). lia.
Qed.

(* ------------------------------------------------------------------ *)
(* The budget rule of the pinned tree (A-11) did not bound the work    *)
(* ------------------------------------------------------------------ *)

(* VmWitness.nested_budget_program calls a 12-iteration loop three times through the re-entrant native `call1`.
   With a fresh budget for every nested `_run` and budget 150 it completed after 369 dispatched instructions
   (observed on the crate before 9ecef93); under the shared budget the same run reports Timeout. *)
Theorem budget_bound_legacy_refuted :
  forall F bld,
  exists P N, 1 <= N /\
    fst (run_legacy F bld N P fresh_state) = OOk /\
    (N.of_nat N < st_count (snd (run_legacy F bld N P fresh_state)) - st_count fresh_state)%N.
Proof.
  intros F bld. exists nested_budget_program, 150. split; [lia|].
  destruct bld; vm_compute; split; reflexivity.
Qed.

(* under the shared budget the same run is cut off inside the third callback: the nested Timeout comes back
   through the native as TaskFailure{call1, Timeout} *)
Theorem witness_is_cut_off_now :
  forall F bld, exists t,
    fst (run F bld 150 nested_budget_program fresh_state) = OErr (ETaskFailure name_call1 ETimeout) t /\
    (st_count (snd (run F bld 150 nested_budget_program fresh_state)) <= 150)%N.
Proof. intros F bld. destruct bld; vm_compute; eexists; (split; [reflexivity|discriminate]). Qed.

(* ------------------------------------------------------------------ *)
(* C18: host functions - argument order, conversion, error wrapping    *)
(* ------------------------------------------------------------------ *)

From Cao Require Import StacksProofs.

Definition stack_of (s : state) : list value := vs_abs (st_stack s).
Definition stack_ok (s : state) : Prop := vs_inv (st_stack s).

Lemma speek_abs s n :
  stack_ok s ->
  speek s n = if n <? length (stack_of s)
              then nth (length (stack_of s) - n - 1) (stack_of s) VNil else VNil.
Proof.
  intros H. unfold speek, stack_of.
  pose proof (@vs_step_refines value VNil (st_stack s) (VPeek value n) _ _ H eq_refl) as R.
  destruct (vs_step VNil (st_stack s) (VPeek value n)) as [k o]. destruct R as (-> & _). reflexivity.
Qed.

Lemma spop_n_abs s n :
  stack_ok s ->
  stack_ok (spop_n s n) /\
  stack_of (spop_n s n) = firstn (length (stack_of s) - Nat.min (length (stack_of s)) n) (stack_of s) /\
  length (vdata (st_stack (spop_n s n))) = length (vdata (st_stack s)).
Proof.
  intros H. unfold spop_n, stack_of, stack_ok. cbn [st_stack set_stack].
  pose proof (@vs_step_refines value VNil (st_stack s) (VPopN value n) _ _ H eq_refl) as R.
  cbn [vs_step] in R. destruct (vs_pop_n VNil (st_stack s) n) as [k o]. cbn [fst].
  destruct R as (_ & Ha & Hi & Hl). auto.
Qed.

Lemma spush_abs s v :
  stack_ok s -> S (length (stack_of s)) < length (vdata (st_stack s)) ->
  exists s', spush s v = Some s' /\ stack_ok s' /\ stack_of s' = stack_of s ++ [v] /\
             st_calls s' = st_calls s /\ st_globals s' = st_globals s /\ st_heap s' = st_heap s /\
             st_log s' = st_log s /\ st_open s' = st_open s.
Proof.
  intros H Hc. unfold spush, stack_of, stack_ok in *.
  assert (E : (S (length (vs_abs (st_stack s))) <? length (vdata (st_stack s))) = true) by (apply Nat.ltb_lt; lia).
  assert (Hsp : sp_step VNil (length (vdata (st_stack s))) (vs_abs (st_stack s)) (VPush v)
                = Some (vs_abs (st_stack s) ++ [v], OUnit value)).
  { cbn [sp_step]. unfold sp_push. rewrite E. reflexivity. }
  pose proof (@vs_step_refines value VNil (st_stack s) (VPush v) _ _ H Hsp) as R.
  cbn [vs_step] in R.
  destruct (vs_push (st_stack s) v) as [k o]. destruct R as (-> & Ha & Hi & _).
  eexists; split; [reflexivity|]. cbn [st_stack set_stack st_calls st_globals st_heap st_log st_open].
  repeat split; auto.
Qed.

Lemma find_native_sub2 : find_native (handle_of_bytes name_sub2) all_natives = Some NSub2.
Proof. vm_compute. reflexivity. Qed.
Lemma find_native_fail0 : find_native (handle_of_bytes name_fail0) all_natives = Some NFail0.
Proof. vm_compute. reflexivity. Qed.

(* sub2(a: i64, b: i64): with the stack  l ++ [v1; v2]  the native receives a = conv v1 (declared first) and
   b = conv v2, exactly the two arguments are popped, the result is pushed, nothing else changes *)
Theorem native_args_sub2 : forall F P re fuel s l v1 v2 a b,
  stack_ok s -> stack_of s = l ++ [v1; v2] ->
  to_i64 F (st_heap s) v1 = Some a -> to_i64 F (st_heap s) v2 = Some b ->
  exists s',
    call_native_fuel F P re (S fuel) (handle_of_bytes name_sub2) s = NOk (VInt (wrap_i64 (a - b))) s' /\
    stack_of s' = l ++ [VInt (wrap_i64 (a - b))] /\
    st_log s' = st_log s ++ [[TInt a; TInt b]] /\
    st_calls s' = st_calls s /\ st_globals s' = st_globals s /\ st_heap s' = st_heap s.
Proof.
  intros F P re fuel s l v1 v2 a b Hok Hst Ha Hb.
  cbn [call_native_fuel]. rewrite find_native_sub2. cbn [native_body].
  assert (Hlen : length (stack_of s) = length l + 2) by (rewrite Hst, app_length; cbn; lia).
  rewrite (speek_abs 0 Hok), (speek_abs 1 Hok), Hlen.
  replace (0 <? length l + 2) with true by (symmetry; apply Nat.ltb_lt; lia).
  replace (1 <? length l + 2) with true by (symmetry; apply Nat.ltb_lt; lia).
  rewrite Hst.
  replace (length l + 2 - 0 - 1) with (length l + 1) by lia.
  replace (length l + 2 - 1 - 1) with (length l + 0) by lia.
  rewrite !app_nth2_plus. cbn [nth]. rewrite Hb, Ha. cbn [native_arity].
  set (s1 := log_push s [TInt a; TInt b]).
  assert (Hok1 : stack_ok s1) by exact Hok.
  assert (Hst1 : stack_of s1 = l ++ [v1; v2]) by exact Hst.
  destruct (spop_n_abs 2 Hok1) as (Hok2 & Hst2 & Hcap).
  rewrite Hst1 in Hst2. rewrite app_length in Hst2. cbn [length] in Hst2.
  replace (length l + 2 - Nat.min (length l + 2) 2) with (length l) in Hst2 by lia.
  rewrite firstn_app, firstn_all, Nat.sub_diag in Hst2. cbn [firstn] in Hst2. rewrite app_nil_r in Hst2.
  assert (Hfit : S (length (stack_of (spop_n s1 2))) < length (vdata (st_stack (spop_n s1 2)))).
  { rewrite Hst2, Hcap. unfold stack_ok, vs_inv in Hok1.
    pose proof (abs_length Hok1) as HL. fold (stack_of s1) in HL. rewrite Hst1, app_length in HL. cbn [length] in HL. lia. }
  destruct (spush_abs (VInt (wrap_i64 (a - b))) Hok2 Hfit) as (s' & Hp & _ & Hs' & Hc & Hg & Hh & Hl & _).
  cbv zeta. rewrite Hp. exists s'. split; [reflexivity|].
  rewrite Hs', Hst2. repeat split; auto.
Qed.

(* an error returned by a native surfaces as TaskFailure carrying the registered name; its (typed) arguments are
   popped *)
Theorem native_error_wrapped : forall F P re fuel h n s e s1,
  find_native h all_natives = Some n ->
  native_body F P re (call_native_fuel F P re fuel) n s = NErr e s1 ->
  call_native_fuel F P re (S fuel) h s = NErr (ETaskFailure (native_name n) e) (spop_n s1 (native_arity n)).
Proof. intros F P re fuel h n s e s1 Hf Hb. cbn [call_native_fuel]. rewrite Hf, Hb. reflexivity. Qed.

Corollary fail0_is_task_failure : forall F P re fuel s,
  call_native_fuel F P re (S fuel) (handle_of_bytes name_fail0) s = NErr (ETaskFailure name_fail0 EUnimplemented) s.
Proof.
  intros. rewrite (@native_error_wrapped F P re fuel _ NFail0 s EUnimplemented s find_native_fail0 eq_refl).
  destruct s as [[c d] ? ? ? ? ? ? ?]. unfold spop_n, vs_pop_n. cbn.
  repeat f_equal; try lia. destruct c; reflexivity.
Qed.

Lemma find_native_str1 : find_native (handle_of_bytes name_str1) all_natives = Some NStr1.
Proof. vm_compute. reflexivity. Qed.

(* a failed conversion is InvalidArgument naming the parameter, wrapped as TaskFailure{name}; the argument is
   popped all the same *)
Theorem native_conversion_error_str1 : forall F P re fuel s l v,
  stack_ok s -> stack_of s = l ++ [v] -> as_str (st_heap s) v = SNot ->
  exists s',
    call_native_fuel F P re (S fuel) (handle_of_bytes name_str1) s
      = NErr (ETaskFailure name_str1 (EConversion 1)) s' /\
    stack_of s' = l /\ st_calls s' = st_calls s /\ st_globals s' = st_globals s /\ st_heap s' = st_heap s /\
    st_log s' = st_log s.
Proof.
  intros F P re fuel s l v Hok Hst Hv.
  assert (Hpk : speek s 0 = v).
  { rewrite (speek_abs 0 Hok), Hst, app_length. cbn [length].
    replace (0 <? length l + 1) with true by (symmetry; apply Nat.ltb_lt; lia).
    replace (length l + 1 - 0 - 1) with (length l + 0) by lia. rewrite app_nth2_plus. reflexivity. }
  assert (Hb : native_body F P re (call_native_fuel F P re fuel) NStr1 s = NErr (EConversion 1) s).
  { cbn [native_body]. rewrite Hpk, Hv. reflexivity. }
  rewrite (@native_error_wrapped F P re fuel _ NStr1 s _ s find_native_str1 Hb). cbn [native_arity native_name].
  destruct (spop_n_abs 1 Hok) as (_ & Hst2 & _). rewrite Hst, app_length in Hst2. cbn [length] in Hst2.
  replace (length l + 1 - Nat.min (length l + 1) 1) with (length l) in Hst2 by lia.
  rewrite firstn_app, firstn_all, Nat.sub_diag in Hst2. cbn [firstn] in Hst2. rewrite app_nil_r in Hst2.
  eexists; split; [reflexivity|]. repeat split; auto.
Qed.

(* a name that was not registered is ProcedureNotFound and the VM state is untouched *)
Theorem native_unknown : forall F P re fuel h s,
  find_native h all_natives = None ->
  call_native_fuel F P re (S fuel) h s = NErr (EProcedureNotFound h) s.
Proof. intros F P re fuel h s Hf. cbn [call_native_fuel]. rewrite Hf. reflexivity. Qed.

(* ------------------------------------------------------------------ *)
(* C17: clear, repeated runs                                           *)
(* ------------------------------------------------------------------ *)

(* everything of the VM state that a later run can read, as it is in a new Vm: no values below the stack height
   (reads at or beyond the height yield nil by C14), slot 0 nil, no frames, no globals, no objects, no open upvalue *)
Definition cleared (s : state) : Prop :=
  vcount (st_stack s) = 0 /\ nth 0 (vdata (st_stack s)) VNil = VNil /\
  st_calls s = [] /\ st_globals s = [] /\ st_heap s = [] /\ st_open s = None.

Theorem clear_is_fresh : forall s,
  cleared (clear_state s) /\ cleared fresh_state /\
  length (vdata (st_stack (clear_state s))) = length (vdata (st_stack s)).
Proof.
  intros s. unfold cleared, clear_state, fresh_state. cbn [st_stack st_calls st_globals st_heap st_open vs_step fst vcount vdata].
  repeat split; try reflexivity.
  - destruct (vdata (st_stack s)); reflexivity.
  - apply upd_length.
Qed.

(* `run` installs its own budget: what was left of an earlier budget does not matter *)
Theorem run_resets_budget : forall F bld N P s r,
  length (st_calls s) < call_stack_size ->
  run F bld N P (set_rem s r) = run F bld N P s.
Proof.
  intros F bld N P s r H. unfold run, run_gen, push_frame. cbn [st_calls set_rem].
  apply Nat.leb_gt in H. rewrite H. reflexivity.
Qed.

(* a run that ends (Ok or error) leaves no call frame behind (d89012c; the pinned tree left the entry frame and
   the 257th run on one Vm failed with CallStackOverflow, A-18) *)
Theorem run_leaves_no_frames : forall F bld N P s,
  length (st_calls s) < call_stack_size ->
  (forall a, fst (run F bld N P s) <> OAbort a) ->
  st_calls (snd (run F bld N P s)) = [].
Proof.
  intros F bld N P s H Hna. unfold run, run_gen, push_frame in *. apply Nat.leb_gt in H. rewrite H in *.
  unfold finish in *.
  destruct (outcome_of P _) as [o s'] eqn:E. destruct o; cbn [fst snd] in *; try reflexivity.
  exfalso. eapply Hna. reflexivity.
Qed.

(* hence any number of completed runs on one Vm never exhausts the call stack at entry *)
Corollary next_run_can_start : forall F bld N P s,
  length (st_calls s) < call_stack_size ->
  (forall a, fst (run F bld N P s) <> OAbort a) ->
  length (st_calls (snd (run F bld N P s))) < call_stack_size.
Proof. intros. rewrite run_leaves_no_frames by assumption. cbn. unfold call_stack_size. lia. Qed.
