(* C01, simulation, reference half for fragment F7 (Repeat with the loop variable).
   RefSem allocates a cell for the loop variable in every round and never frees a cell, so the cells
   are no longer the locals in slot order: [inv en cells R cs] says that the i-th visible entry of the
   local store R lives in cell cs[i], that these cells are distinct, and that [en] resolves a name to
   the cell of its most recent entry.  Statements never declare, so [en] and [cs] are constant through
   a statement; a round of a Repeat runs its body under a longer [en] / [cs] and returns to the old ones. *)
From Coq Require Import List NArith ZArith Bool Lia.
From Cao Require Import CheckUtil Bits CardAst Table TableProofs StdlibGen RefSem
     C01SimDefs C01SimRef C01SimDefs2 C01SimRef2 C01SimDefs3 C01SimRef3 C01SimDefs4 C01SimDefs5 C01SimRef5 C01SimDefs6 C01SimRef6 C01SimDefs7.
Import ListNotations.

(* ---- more fuel does not change a result of the direct evaluator ---- *)
Lemma runs7_mono_from n m (Hrun : forall R g c r, run7 n R g c = Some r -> run7 m R g c = Some r) :
  forall l R g r, runs7 n R g l = Some r -> runs7 m R g l = Some r.
Proof.
  induction l as [|x l IH]; intros R g r H; cbn [runs7] in *; [exact H|].
  destruct (run7 n R g x) as [[[[|] R1] g1]|] eqn:E; try discriminate.
  - rewrite (Hrun _ _ _ _ E). apply IH, H.
  - rewrite (Hrun _ _ _ _ E). exact H.
Qed.

Lemma run_rep7_mono n : forall m, (n <= m)%nat ->
  (forall R g c r, run7 n R g c = Some r -> run7 m R g c = Some r) /\
  (forall i nv k R g b r, rep7 n i nv k R g b = Some r -> rep7 m i nv k R g b = Some r).
Proof.
  induction n as [|n IH]; intros m Hle; [split; intros; discriminate|].
  destruct m as [|m]; [lia|]. assert (Hle' : (n <= m)%nat) by lia.
  destruct (IH m Hle') as [IH' IHr]. split.
  2:{ intros i nv k R g b r H. cbn [rep7] in *. destruct (v_cmp [] (VInt k) nv) as [[[| |]|]|]; try exact H.
      destruct (run7 n (lvb i k ++ ([], VInt k) :: ([], nv) :: R) g b) as [[[[|] R1] g1]|] eqn:E; try discriminate;
        rewrite (IH' _ _ _ _ E); [apply IHr|]; exact H. }
  intros R g c r H.
  destruct c; try exact H.
  - (* CBin *)
    destruct op; try exact H; cbn [run7] in *; destruct (ev (R ++ g) c1) as [v|]; try exact H;
      destruct (v_bool [] v); try exact H; try (apply IH'; exact H).
    destruct (run7 n R g c2) as [[[[|] R1] g1]|] eqn:E; try discriminate; rewrite (IH' _ _ _ _ E); [apply IH'|]; exact H.
  - (* CTri *)
    destruct op; try exact H. cbn [run7] in *. destruct (ev (R ++ g) c1) as [v|]; try exact H.
    destruct (v_bool [] v); apply IH'; exact H.
  - (* Repeat *)
    cbn [run7] in *. destruct (ev (R ++ g) c1) as [nv|]; [|exact H]. apply IHr, H.
  - (* Composite *)
    rewrite run7_composite in *. eapply runs7_mono_from; eauto.
Qed.

Lemma run7_mono n m R g c r : run7 n R g c = Some r -> (n <= m)%nat -> run7 m R g c = Some r.
Proof. intros H Hle. apply (proj1 (run_rep7_mono n m Hle)), H. Qed.
Lemma rep7_mono n m i nv k R g b r : rep7 n i nv k R g b = Some r -> (n <= m)%nat -> rep7 m i nv k R g b = Some r.
Proof. intros H Hle. apply (proj2 (run_rep7_mono n m Hle)), H. Qed.

Lemma runs7_mono n m l R g r : runs7 n R g l = Some r -> (n <= m)%nat -> runs7 m R g l = Some r.
Proof. intros H Hle. eapply runs7_mono_from; [|exact H]. intros; eapply run7_mono; eauto. Qed.



(* ------------------------------------------------------------------ the invariant *)
Definition cellrel (cells : list value) (nv : str * value) (c : nat) : Prop := nth_error cells c = Some (snd nv).
Definition inv (en : env) (cells : list value) (R : lstore) (cs : list nat) : Prop :=
  Forall2 (cellrel cells) (vis R) cs /\ NoDup cs /\
  forall n, is_empty n = false -> lookup_var en n = assoc n (combine (map fst (vis R)) cs).

Lemma nth_error_upd_same7 {A} (l : list A) k v x : nth_error l k = Some x -> nth_error (upd l k v) k = Some v.
Proof. revert k. induction l as [|y l IH]; intros [|k] H; cbn in *; try discriminate; [reflexivity | apply IH, H]. Qed.
Lemma nth_error_upd_other7 {A} (l : list A) k j v : k <> j -> nth_error (upd l k v) j = nth_error l j.
Proof. revert k j. induction l as [|y l IH]; intros [|k] [|j] H; cbn; try reflexivity; [congruence | apply IH; congruence]. Qed.

Lemma assoc_combine_in {V} n (names : list str) (cs : list V) c : assoc n (combine names cs) = Some c -> In c cs.
Proof.
  revert cs. induction names as [|x r IH]; intros [|c1 cs] H; cbn [combine assoc] in H; try discriminate.
  destruct (str_eqb n x); [injection H as <-; left; reflexivity | right; eapply IH; eauto].
Qed.

Lemma cellrel_lookup cells (V : lstore) cs : Forall2 (cellrel cells) V cs -> forall n,
  match assoc n V with
  | Some v => exists c, assoc n (combine (map fst V) cs) = Some c /\ nth_error cells c = Some v
  | None => assoc n (combine (map fst V) cs) = None
  end.
Proof.
  induction 1 as [|[x v] c V cs Hc _ IH]; intros n; cbn [assoc map fst combine]; [reflexivity|].
  destruct (str_eqb n x); [exists c; split; [reflexivity | exact Hc] | apply IH].
Qed.

Lemma inv_lk en cells R cs : inv en cells R cs -> lk en cells R.
Proof.
  intros (HF & _ & HL) n Hn. rewrite (HL n Hn), <- (assoc_vis n R Hn).
  pose proof (cellrel_lookup _ _ _ HF n) as H. destruct (assoc n (vis R)); [|exact H].
  destruct H as (c & A & B). exists c. split; assumption.
Qed.

Lemma cellrel_bound cells (V : lstore) cs : Forall2 (cellrel cells) V cs -> forall c, In c cs -> (c < length cells)%nat.
Proof.
  induction 1 as [|nv c V cs Hc _ IH]; intros c0 [].
  - subst c0. apply nth_error_Some. unfold cellrel in Hc. rewrite Hc. discriminate.
  - apply IH; assumption.
Qed.

Lemma cellrel_upd_other cells (V : lstore) cs c w : Forall2 (cellrel cells) V cs -> ~ In c cs -> Forall2 (cellrel (upd cells c w)) V cs.
Proof.
  induction 1 as [|nv c1 V cs Hc _ IH]; intros Hn; constructor.
  - unfold cellrel. rewrite nth_error_upd_other7; [exact Hc|]. intros ->. apply Hn. left; reflexivity.
  - apply IH. intros H. apply Hn. right; exact H.
Qed.

Lemma cellrel_assign cells (V : lstore) cs n w : Forall2 (cellrel cells) V cs -> NoDup cs ->
  forall c old, assoc n V = Some old -> assoc n (combine (map fst V) cs) = Some c ->
  Forall2 (cellrel (upd cells c w)) (set_assoc n w V) cs.
Proof.
  induction 1 as [|[x v] c1 V cs Hc HF IH]; intros Hnd c old Ha Hcell; [discriminate Ha|].
  inversion Hnd as [|? ? Hnotin Hnd']; subst.
  cbn [assoc map fst combine set_assoc] in *. destruct (str_eqb n x).
  - injection Hcell as <-. constructor.
    + unfold cellrel. cbn [snd]. eapply nth_error_upd_same7. exact Hc.
    + apply cellrel_upd_other; assumption.
  - constructor.
    + unfold cellrel. rewrite nth_error_upd_other7; [exact Hc|]. intros ->. apply Hnotin. eapply assoc_combine_in; eauto.
    + eapply IH; eauto.
Qed.

Lemma inv_assign en cells R cs n w old : inv en cells R cs -> is_empty n = false -> assoc n R = Some old ->
  exists c, lookup_var en n = Some c /\ inv en (upd cells c w) (set_assoc n w R) cs /\ map fst (set_assoc n w R) = map fst R.
Proof.
  intros (HF & Hnd & HL) Hn Ha.
  destruct (vis_set_assoc n w R old Hn Ha) as [Hv Hf].
  pose proof Ha as Ha'. rewrite <- (assoc_vis n R Hn) in Ha'.
  pose proof (cellrel_lookup _ _ _ HF n) as H. rewrite Ha' in H. destruct H as (c & A & B).
  exists c. split; [rewrite (HL n Hn); exact A|]. split; [|exact Hf].
  assert (Hnames : map fst (vis (set_assoc n w R)) = map fst (vis R)) by (apply vis_names, Hf).
  split; [|split; [exact Hnd|]].
  - rewrite Hv. eapply cellrel_assign; eauto.
  - intros m Hm. rewrite Hnames. apply HL, Hm.
Qed.

Lemma inv_hidden en cells R cs h1 h2 : fst h1 = [] -> fst h2 = [] -> inv en cells R cs -> inv en cells (h1 :: h2 :: R) cs.
Proof. destruct h1 as [x1 v1], h2 as [x2 v2]. cbn [fst]. intros -> -> H. exact H. Qed.
Lemma inv_unhidden en cells R cs h1 h2 : fst h1 = [] -> fst h2 = [] -> inv en cells (h1 :: h2 :: R) cs -> inv en cells R cs.
Proof. destruct h1 as [x1 v1], h2 as [x2 v2]. cbn [fst]. intros -> -> H. exact H. Qed.

Lemma inv_push en cells R cs : inv en cells R cs -> inv (push_scope en) cells R cs.
Proof. intros (A & B & C). split; [exact A|]. split; [exact B|]. intros n Hn. rewrite <- (C n Hn). reflexivity. Qed.

Lemma cellrel_app cells (V : lstore) cs v : Forall2 (cellrel cells) V cs -> Forall2 (cellrel (cells ++ [v])) V cs.
Proof.
  induction 1 as [|nv c V cs Hc _ IH]; constructor; [|exact IH].
  unfold cellrel in *. rewrite nth_error_app1; [exact Hc|]. apply nth_error_Some. rewrite Hc. discriminate.
Qed.

Lemma inv_declare en cells R cs x v sc r :
  inv en cells R cs -> is_empty x = false -> e_scopes en = sc :: r ->
  inv {| e_scopes := ((x, length cells) :: sc) :: r; e_up := e_up en |} (cells ++ [v]) ((x, v) :: R) (length cells :: cs).
Proof.
  intros (HF & Hnd & HL) Hx Hsc.
  assert (Hvis : vis ((x, v) :: R) = (x, v) :: vis R) by (cbn [vis filter fst]; rewrite Hx; reflexivity).
  split; [|split].
  - rewrite Hvis. constructor; [|apply cellrel_app, HF].
    unfold cellrel. cbn [snd]. rewrite nth_error_app2 by lia. rewrite Nat.sub_diag. reflexivity.
  - constructor; [|exact Hnd]. intros Hin. pose proof (cellrel_bound _ _ _ HF _ Hin). lia.
  - intros n Hn. rewrite Hvis. cbn [map fst combine assoc]. specialize (HL n Hn).
    unfold lookup_var in *. rewrite Hsc in HL. cbn [e_scopes e_up lookup_scopes assoc] in *.
    destruct (str_eqb n x); [reflexivity | exact HL].
Qed.

Lemma inv_restore en cells R cs cells2 R' :
  inv en cells R cs -> map fst R' = map fst R -> Forall2 (cellrel cells2) (vis R') cs -> inv en cells2 R' cs.
Proof.
  intros (_ & Hnd & HL) Hn HF. split; [exact HF|]. split; [exact Hnd|].
  intros n Hne. destruct (vis_names _ _ Hn) as [A _]. rewrite A. apply HL, Hne.
Qed.

Definition stI (en : env) (cs : list nat) (s : state) (R : lstore) (g : gl) : Prop :=
  st_heap s = [] /\ st_globals s = g /\ inv en (st_cells s) R cs /\ simples (R ++ g).

Lemma stI_bump en cs s R g : stI en cs s R g -> stI en cs (bump s) R g.
Proof. unfold stI. cbn. tauto. Qed.
Lemma stI_st6 en cs s R g : stI en cs s R g -> st6 en (st_cells s) s R g.
Proof. intros (A & B & C & D). unfold st6. repeat split; auto. eapply inv_lk; eauto. Qed.
Lemma st6_stI en cs s s' R g : stI en cs s R g -> st6 en (st_cells s) s' R g -> stI en cs s' R g.
Proof. intros (_ & _ & C & _) (A' & B' & _ & D' & E'). unfold stI. rewrite E'. auto. Qed.
Section Eval.
Variable P : list fentry.
Variable host : list str.
Variable limit : N.
Variable fi : nat.

Notation evalf := (eval P host limit).

Lemma stI_intro en cs s R g :
  st_heap s = [] -> st_globals s = g -> inv en (st_cells s) R cs -> simples (R ++ g) -> stI en cs s R g.
Proof. unfold stI. auto. Qed.
Lemma stI_elim en cs s R g : stI en cs s R g ->
  st_heap s = [] /\ st_globals s = g /\ inv en (st_cells s) R cs /\ simples (R ++ g).
Proof. auto. Qed.

Lemma eval_cond7 e : expr_f1 e = true -> forall fuel s en cs R g, stI en cs s R g ->
  let r := evalf fuel (TkArgs false fi en [e]) s in
  r = RFuel \/
  (exists v s', r = ok [v] en s' /\ ev (R ++ g) e = Some v /\ simple v /\ stI en cs s' R g) \/
  (exists s', r = err EVarNotFound en s' /\ ev (R ++ g) e = None /\ stI en cs s' R g).
Proof.
  intros He fuel s en cs R g Hs r.
  pose proof (eval_cond6 P host limit fi e He fuel s en (st_cells s) R g (stI_st6 _ _ _ _ _ Hs)) as H. cbv zeta in H. fold r in H.
  destruct H as [E|[(v & s1 & E & Hv & Hsv & Hs1)|(s1 & E & Hv & Hs1)]].
  - left; exact E.
  - right; left. exists v, s1. split; [exact E|]. split; [exact Hv|]. split; [exact Hsv|]. eapply st6_stI; eauto.
  - right; right. exists s1. split; [exact E|]. split; [exact Hv|]. eapply st6_stI; eauto.
Qed.

Lemma stI_assign en cs s R g n w :
  is_empty n = false -> lmem n (map fst R) = true -> simple w -> stI en cs s R g ->
  exists c, lookup_var en n = Some c /\
            stI en cs (set_cells (upd (st_cells s) c w) s) (set_assoc n w R) g /\
            map fst (set_assoc n w R) = map fst R.
Proof.
  intros Hn Hm Hw (Hh & Hg & Hi & Hsim). destruct (lmem_some6 _ _ Hm) as [old Eo].
  destruct (inv_assign en (st_cells s) R cs n w old Hi Hn Eo) as (c & A & B & C).
  exists c. split; [exact A|]. split; [|exact C].
  apply stI_intro; cbn [set_cells st_heap st_globals st_cells]; auto.
  apply simples_app in Hsim. destruct Hsim as [S1 S2]. apply simples_app. split; [apply set_assoc_simple; assumption | exact S2].
Qed.

(* ---- statements ---- *)
Definition top_res7 (en : env) (cs : list nat) (R : lstore) (r : res) (run : nat -> option (bool * lstore * gl)) : Prop :=
  r = RFuel \/
  (exists n s' R' g', r = ok [] en s' /\ run n = Some (true, R', g') /\ stI en cs s' R' g' /\ map fst R' = map fst R) \/
  (exists n s' e' R' g', r = err EVarNotFound e' s' /\ run n = Some (false, R', g') /\ stI en cs s' R' g' /\ map fst R' = map fst R).

Definition all7 (fuel : nat) : Prop :=
  (forall c s en ks R g, stmt7 (map fst R) c = true -> stI en ks s R g ->
     top_res7 en ks R (evalf fuel (TkCard fi en c) s) (fun n => run7 n R g c)) /\
  (forall cs s en ks R g, forallb (stmt7 (map fst R)) cs = true -> stI en ks s R g ->
     top_res7 en ks R (evalf fuel (TkSeq fi en cs) s) (fun n => runs7 n R g cs)) /\
  (forall e b s en ks R g, expr_f1 e = true -> stmt7 (map fst R) b = true -> stI en ks s R g ->
     top_res7 en ks R (evalf fuel (TkWhile fi en e b) s) (fun n => run7 n R g (CBin BWhile e b))) /\
  (forall i nv kk b s en ks R g, simple nv -> lv_ok i = true -> stmt7 (lvn i ++ [] :: [] :: map fst R) b = true -> stI en ks s R g ->
     top_res7 en ks R (evalf fuel (TkRepeat fi en i nv kk b) s) (fun n => rep7 n i nv kk R g b)).

Lemma eval7 fuel : all7 fuel.
Proof.
  induction fuel as [|f (IH1 & IH2 & IH3 & IH4)].
  { split; [|split; [|split]]; intros; left; reflexivity. }
  split; [|split; [|split]].
  - (* a statement *)
    intros c st en ks R g Hc Hs. unfold top_res7.
    destruct c; cbn [stmt7] in Hc; try discriminate Hc.
    + (* CBin *)
      destruct op; try discriminate Hc; apply andb_true_iff in Hc; destruct Hc as [He Hb];
        cbn [eval]; unfold F; (destruct (limit <? st_steps st)%N; [left; reflexivity|]);
        pose proof (stI_bump _ _ _ _ _ Hs) as Hbs; cbn [eval_card].
      * (* IfTrue *)
        pose proof (eval_cond7 _ He f (bump st) en ks R g Hbs) as [E|[(v & s1 & E & Hv & Hsv & Hs1)|(s1 & E & Hv & Hs1)]];
          cbn zeta in E; rewrite E; cbn [bnd ok err one].
        -- left; reflexivity.
        -- destruct (stI_elim _ _ _ _ _ Hs1) as (Hh1 & _). rewrite Hh1. destruct (v_bool [] v) eqn:Eb.
           ++ destruct (IH1 c2 s1 en ks R g Hb Hs1) as [E2|[(n & s2 & R2 & g2 & E2 & Hr & Hs2 & Hl2)|(n & s2 & e2 & R2 & g2 & E2 & Hr & Hs2 & Hl2)]]; rewrite E2.
              ** left; reflexivity.
              ** right; left. exists (S n), s2, R2, g2. cbn [run7]. rewrite Hv, Eb. auto.
              ** right; right. exists (S n), s2, e2, R2, g2. cbn [run7]. rewrite Hv, Eb. auto.
           ++ right; left. exists 1%nat, s1, R, g. cbn [run7]. rewrite Hv, Eb. auto.
        -- right; right. exists 1%nat, s1, en, R, g. cbn [run7]. rewrite Hv. auto.
      * (* IfFalse *)
        pose proof (eval_cond7 _ He f (bump st) en ks R g Hbs) as [E|[(v & s1 & E & Hv & Hsv & Hs1)|(s1 & E & Hv & Hs1)]];
          cbn zeta in E; rewrite E; cbn [bnd ok err one].
        -- left; reflexivity.
        -- destruct (stI_elim _ _ _ _ _ Hs1) as (Hh1 & _). rewrite Hh1. destruct (v_bool [] v) eqn:Eb.
           ++ right; left. exists 1%nat, s1, R, g. cbn [run7]. rewrite Hv, Eb. auto.
           ++ destruct (IH1 c2 s1 en ks R g Hb Hs1) as [E2|[(n & s2 & R2 & g2 & E2 & Hr & Hs2 & Hl2)|(n & s2 & e2 & R2 & g2 & E2 & Hr & Hs2 & Hl2)]]; rewrite E2.
              ** left; reflexivity.
              ** right; left. exists (S n), s2, R2, g2. cbn [run7]. rewrite Hv, Eb. auto.
              ** right; right. exists (S n), s2, e2, R2, g2. cbn [run7]. rewrite Hv, Eb. auto.
        -- right; right. exists 1%nat, s1, en, R, g. cbn [run7]. rewrite Hv. auto.
      * (* While *)
        destruct (IH3 c1 c2 (bump st) en ks R g He Hb Hbs) as [E|[(n & s2 & R2 & g2 & E2 & Hr & Hs2 & Hl2)|(n & s2 & e2 & R2 & g2 & E2 & Hr & Hs2 & Hl2)]].
        -- left; exact E.
        -- right; left. exists (S n), s2, R2, g2. split; [exact E2|]. split; [eapply run7_mono; [exact Hr | lia] | auto].
        -- right; right. exists (S n), s2, e2, R2, g2. split; [exact E2|]. split; [eapply run7_mono; [exact Hr | lia] | auto].
    + (* IfElse *)
      destruct op; try discriminate Hc. apply andb_true_iff in Hc. destruct Hc as [Hc Hb].
      apply andb_true_iff in Hc. destruct Hc as [He Ha].
      cbn [eval]; unfold F; (destruct (limit <? st_steps st)%N; [left; reflexivity|]).
      pose proof (stI_bump _ _ _ _ _ Hs) as Hbs; cbn [eval_card].
      pose proof (eval_cond7 _ He f (bump st) en ks R g Hbs) as [E|[(v & s1 & E & Hv & Hsv & Hs1)|(s1 & E & Hv & Hs1)]];
        cbn zeta in E; rewrite E; cbn [bnd ok err one].
      * left; reflexivity.
      * destruct (stI_elim _ _ _ _ _ Hs1) as (Hh1 & _). rewrite Hh1. destruct (v_bool [] v) eqn:Eb.
        -- destruct (IH1 c2 s1 en ks R g Ha Hs1) as [E2|[(n & s2 & R2 & g2 & E2 & Hr & Hs2 & Hl2)|(n & s2 & e2 & R2 & g2 & E2 & Hr & Hs2 & Hl2)]]; rewrite E2.
           ++ left; reflexivity.
           ++ right; left. exists (S n), s2, R2, g2. cbn [run7]. rewrite Hv, Eb. auto.
           ++ right; right. exists (S n), s2, e2, R2, g2. cbn [run7]. rewrite Hv, Eb. auto.
        -- destruct (IH1 c3 s1 en ks R g Hb Hs1) as [E2|[(n & s2 & R2 & g2 & E2 & Hr & Hs2 & Hl2)|(n & s2 & e2 & R2 & g2 & E2 & Hr & Hs2 & Hl2)]]; rewrite E2.
           ++ left; reflexivity.
           ++ right; left. exists (S n), s2, R2, g2. cbn [run7]. rewrite Hv, Eb. auto.
           ++ right; right. exists (S n), s2, e2, R2, g2. cbn [run7]. rewrite Hv, Eb. auto.
      * right; right. exists 1%nat, s1, en, R, g. cbn [run7]. rewrite Hv. auto.
    + (* Comment *)
      cbn [eval]; unfold F; (destruct (limit <? st_steps st)%N; [left; reflexivity|]). cbn [eval_card].
      right; left. exists 1%nat, (bump st), R, g. split; [reflexivity|]. split; [reflexivity|]. split; [apply stI_bump, Hs | reflexivity].
    + (* SetGlobalVar *)
      apply andb_true_iff in Hc. destruct Hc as [Hne He]. apply negb_true_iff in Hne.
      assert (Hne' : is_empty name = false) by (destruct name; [discriminate Hne | reflexivity]).
      cbn [eval]; unfold F; (destruct (limit <? st_steps st)%N; [left; reflexivity|]).
      pose proof (stI_bump _ _ _ _ _ Hs) as Hbs; cbn [eval_card].
      pose proof (eval_cond7 _ He f (bump st) en ks R g Hbs) as [E|[(v & s1 & E & Hv & Hsv & Hs1)|(s1 & E & Hv & Hs1)]];
        cbn zeta in E; rewrite E; cbn [bnd ok err one].
      * left; reflexivity.
      * rewrite Hne'. right; left. eexists 1%nat, _, R, _. split; [reflexivity|]. cbn [run7]. rewrite Hv.
        split; [reflexivity|]. split; [|reflexivity].
        destruct (stI_elim _ _ _ _ _ Hs1) as (Hh & Hg & Hcl & Hsim). apply simples_app in Hsim. destruct Hsim as [HsR Hsg].
        apply stI_intro; cbn [set_globals st_heap st_globals st_cells]; auto; [rewrite Hg; reflexivity|].
        apply simples_app. split; [exact HsR | apply set_assoc_simple; assumption].
      * right; right. exists 1%nat, s1, en, R, g. cbn [run7]. rewrite Hv. auto.
    + (* SetVar of a local *)
      apply andb_true_iff in Hc. destruct Hc as [Hc He]. apply andb_true_iff in Hc. destruct Hc as [Hx Hm].
      unfold var_ok in Hx. apply andb_true_iff in Hx. destruct Hx as [Hne Hdot]. apply negb_true_iff in Hne, Hdot.
      assert (Hne' : is_empty name = false) by (destruct name; [discriminate Hne | reflexivity]).
      cbn [eval]; unfold F; (destruct (limit <? st_steps st)%N; [left; reflexivity|]).
      pose proof (stI_bump _ _ _ _ _ Hs) as Hbs; cbn [eval_card].
      pose proof (eval_cond7 _ He f (bump st) en ks R g Hbs) as [E|[(v & s1 & E & Hv & Hsv & Hs1)|(s1 & E & Hv & Hs1)]];
        cbn zeta in E; rewrite E; cbn [bnd ok err one].
      * left; reflexivity.
      * rewrite (rsplit_no_dot _ Hdot), Hne'.
        destruct (stI_assign en ks s1 R g name v Hne' Hm Hsv Hs1) as (c0 & A & Hs2 & Hf). rewrite A.
        right; left. eexists 1%nat, _, (set_assoc name v R), g. split; [reflexivity|]. cbn [run7]. rewrite Hv.
        unfold sets_local. rewrite Hm. auto.
      * right; right. exists 1%nat, s1, en, R, g. cbn [run7]. rewrite Hv. auto.
    + (* Repeat *)
      apply andb_true_iff in Hc. destruct Hc as [Hc Hb]. apply andb_true_iff in Hc. destruct Hc as [He Hi].
      cbn [eval]; unfold F; (destruct (limit <? st_steps st)%N; [left; reflexivity|]).
      pose proof (stI_bump _ _ _ _ _ Hs) as Hbs; cbn [eval_card].
      pose proof (eval_cond7 _ He f (bump st) en ks R g Hbs) as [E|[(v & s1 & E & Hv & Hsv & Hs1)|(s1 & E & Hv & Hs1)]];
        cbn zeta in E; rewrite E; cbn [bnd ok err one].
      * left; reflexivity.
      * destruct (IH4 i v 0%Z c2 s1 en ks R g Hsv Hi Hb Hs1) as [E2|[(n & s2 & R2 & g2 & E2 & Hr & Hs2 & Hl2)|(n & s2 & e2 & R2 & g2 & E2 & Hr & Hs2 & Hl2)]]; rewrite E2.
        -- left; reflexivity.
        -- right; left. exists (S n), s2, R2, g2. cbn [run7]. rewrite Hv. auto.
        -- right; right. exists (S n), s2, e2, R2, g2. cbn [run7]. rewrite Hv. auto.
      * right; right. exists 1%nat, s1, en, R, g. cbn [run7]. rewrite Hv. auto.
    + (* Composite *)
      cbn [eval]; unfold F; (destruct (limit <? st_steps st)%N; [left; reflexivity|]).
      pose proof (stI_bump _ _ _ _ _ Hs) as Hbs; cbn [eval_card].
      destruct (IH2 cards (bump st) en ks R g Hc Hbs) as [E|[(n & s2 & R2 & g2 & E2 & Hr & Hs2 & Hl2)|(n & s2 & e2 & R2 & g2 & E2 & Hr & Hs2 & Hl2)]].
      * left; exact E.
      * right; left. exists (S n), s2, R2, g2. rewrite run7_composite. auto.
      * right; right. exists (S n), s2, e2, R2, g2. rewrite run7_composite. auto.
  - (* a sequence *)
    intros cs st en ks R g Hc Hs. unfold top_res7. cbn [eval]; unfold F.
    destruct (limit <? st_steps st)%N; [left; reflexivity|]. pose proof (stI_bump _ _ _ _ _ Hs) as Hbs.
    destruct cs as [|c r].
    + right; left. exists 0%nat, (bump st), R, g. cbn. auto.
    + cbn [forallb] in Hc. apply andb_true_iff in Hc. destruct Hc as [Hc Hr].
      destruct (IH1 c (bump st) en ks R g Hc Hbs) as [E|[(n1 & s1 & R1 & g1 & E & Hr1 & Hs1 & Hl1)|(n1 & s1 & e1 & R1 & g1 & E & Hr1 & Hs1 & Hl1)]];
        rewrite E; cbn [bnd ok err].
      * left; reflexivity.
      * destruct (IH2 r s1 en ks R1 g1 ltac:(rewrite Hl1; exact Hr) Hs1) as [E2|[(n2 & s2 & R2 & g2 & E2 & Hr2 & Hs2 & Hl2)|(n2 & s2 & e2 & R2 & g2 & E2 & Hr2 & Hs2 & Hl2)]];
          rewrite E2; cbn [bnd ok err app].
        -- left; reflexivity.
        -- right; left. exists (Nat.max n1 n2), s2, R2, g2. split; [reflexivity|].
           split; [|split; [exact Hs2 | congruence]].
           cbn [runs7]. rewrite (run7_mono _ (Nat.max n1 n2) _ _ _ _ Hr1) by lia.
           eapply runs7_mono; [exact Hr2 | lia].
        -- right; right. exists (Nat.max n1 n2), s2, e2, R2, g2. split; [reflexivity|].
           split; [|split; [exact Hs2 | congruence]].
           cbn [runs7]. rewrite (run7_mono _ (Nat.max n1 n2) _ _ _ _ Hr1) by lia.
           eapply runs7_mono; [exact Hr2 | lia].
      * right; right. exists n1, s1, e1, R1, g1. split; [reflexivity|]. split; [|auto]. cbn [runs7]. rewrite Hr1. reflexivity.
  - (* a While loop *)
    intros e b st en ks R g He Hb Hs. unfold top_res7. cbn [eval]; unfold F.
    destruct (limit <? st_steps st)%N; [left; reflexivity|]. pose proof (stI_bump _ _ _ _ _ Hs) as Hbs.
    pose proof (eval_cond7 _ He f (bump st) en ks R g Hbs) as [E|[(v & s1 & E & Hv & Hsv & Hs1)|(s1 & E & Hv & Hs1)]];
      cbn zeta in E; rewrite E; cbn [bnd ok err one].
    + left; reflexivity.
    + destruct (stI_elim _ _ _ _ _ Hs1) as (Hh1 & _). rewrite Hh1. destruct (v_bool [] v) eqn:Eb.
      * destruct (IH1 b s1 en ks R g Hb Hs1) as [E2|[(n1 & s2 & R2 & g2 & E2 & Hr1 & Hs2 & Hl2)|(n1 & s2 & e2 & R2 & g2 & E2 & Hr1 & Hs2 & Hl2)]];
          rewrite E2; cbn [bnd ok err].
        -- left; reflexivity.
        -- destruct (IH3 e b s2 en ks R2 g2 He ltac:(rewrite Hl2; exact Hb) Hs2) as [E3|[(n2 & s3 & R3 & g3 & E3 & Hr2 & Hs3 & Hl3)|(n2 & s3 & e3 & R3 & g3 & E3 & Hr2 & Hs3 & Hl3)]]; rewrite E3.
           ++ left; reflexivity.
           ++ right; left. exists (S (Nat.max n1 n2)), s3, R3, g3. split; [reflexivity|].
              split; [|split; [exact Hs3 | congruence]].
              cbn [run7]. rewrite Hv, Eb. rewrite (run7_mono _ (Nat.max n1 n2) _ _ _ _ Hr1) by lia.
              eapply run7_mono; [exact Hr2 | lia].
           ++ right; right. exists (S (Nat.max n1 n2)), s3, e3, R3, g3. split; [reflexivity|].
              split; [|split; [exact Hs3 | congruence]].
              cbn [run7]. rewrite Hv, Eb. rewrite (run7_mono _ (Nat.max n1 n2) _ _ _ _ Hr1) by lia.
              eapply run7_mono; [exact Hr2 | lia].
        -- right; right. exists (S n1), s2, e2, R2, g2. split; [reflexivity|]. split; [|auto].
           cbn [run7]. rewrite Hv, Eb, Hr1. reflexivity.
      * right; left. exists 1%nat, s1, R, g. cbn [run7]. rewrite Hv, Eb. auto.
    + right; right. exists 1%nat, s1, en, R, g. cbn [run7]. rewrite Hv. auto.
  - (* the rounds of a Repeat *)
    intros i nv kk b st en ks R g Hnv Hi Hb Hs. unfold top_res7. cbn [eval]; unfold F.
    destruct (limit <? st_steps st)%N; [left; reflexivity|]. pose proof (stI_bump _ _ _ _ _ Hs) as Hbs.
    destruct (stI_elim _ _ _ _ _ Hbs) as (Hh & Hg & Hinv & Hsim). rewrite Hh.
    assert (Hcmp : exists c, v_cmp [] (VInt kk) nv = Some c) by (apply v_cmp_simple; [exact I | exact Hnv]).
    destruct Hcmp as [c Hc]. rewrite Hc.
    destruct c as [[| |]|];
      [ right; left; exists 1%nat, (bump st), R, g; split; [reflexivity|]; split; [cbn [rep7]; rewrite Hc; reflexivity|]; split; [exact Hbs | reflexivity]
      |
      | right; left; exists 1%nat, (bump st), R, g; split; [reflexivity|]; split; [cbn [rep7]; rewrite Hc; reflexivity|]; split; [exact Hbs | reflexivity]
      | right; left; exists 1%nat, (bump st), R, g; split; [reflexivity|]; split; [cbn [rep7]; rewrite Hc; reflexivity|]; split; [exact Hbs | reflexivity] ].
    (* one more round *)
    set (R2 := ([], VInt kk) :: ([], nv) :: R).
    assert (Hsim2 : simples (R2 ++ g)) by (cbn [app R2]; constructor; [exact I|]; constructor; [exact Hnv | exact Hsim]).
    assert (Hinv2 : inv (push_scope en) (st_cells (bump st)) R2 ks) by (apply inv_push, inv_hidden; auto).
    assert (Hround : exists en1 ks1 s1,
              declare_opt i (VInt kk) (push_scope en) (bump st) = (en1, s1) /\ stI en1 ks1 s1 (lvb i kk ++ R2) g /\
              forall s2 R1 g2, stI en1 ks1 s2 R1 g2 -> map fst R1 = map fst (lvb i kk ++ R2) ->
                stI en ks s2 (tl (tl (unb i R1))) g2 /\ map fst (tl (tl (unb i R1))) = map fst R).
    { destruct i as [x|].
      - cbn [lv_ok] in Hi. unfold var_ok in Hi. apply andb_true_iff in Hi. destruct Hi as [Hx _]. apply negb_true_iff in Hx.
        assert (Hx' : is_empty x = false) by (destruct x; [discriminate Hx | reflexivity]).
        cbn [declare_opt lvb app]. unfold declare, alloc_cell. cbn [push_scope e_scopes e_up].
        eexists _, (length (st_cells (bump st)) :: ks), _. split; [reflexivity|]. split.
        + apply stI_intro; cbn [set_cells st_heap st_globals st_cells]; auto.
          * apply (inv_declare (push_scope en) _ R2 ks x (VInt kk) [] (e_scopes en) Hinv2 Hx' eq_refl).
          * cbn [app]. constructor; [exact I | exact Hsim2].
        + intros s2 R1 g2 (A & B & C & D) Hl.
          destruct R1 as [|[x1 v1] [|[h1 w1] [|[h2 w2] R2']]]; try discriminate Hl.
          cbn [map fst app R2] in Hl. injection Hl as -> -> -> Hl. cbn [unb tl]. split; [|exact Hl].
          apply stI_intro; auto.
          * eapply inv_restore; [exact Hinv | exact Hl |]. destruct C as (C1 & _).
            cbn [vis filter fst] in C1. rewrite Hx' in C1. cbn [negb is_empty] in C1. fold (vis R2') in C1.
            inversion C1; assumption.
          * cbn [app] in D. inversion D as [|? ? _ D1]. inversion D1 as [|? ? _ D2]. inversion D2 as [|? ? _ D3]. exact D3.
      - cbn [declare_opt lvb app]. exists (push_scope en), ks, (bump st). split; [reflexivity|]. split.
        + apply stI_intro; auto.
        + intros s2 R1 g2 (A & B & C & D) Hl.
          destruct R1 as [|[h1 w1] [|[h2 w2] R2']]; try discriminate Hl.
          cbn [map fst app R2] in Hl. injection Hl as -> -> Hl. cbn [unb tl]. split; [|exact Hl].
          apply stI_intro; auto.
          cbn [app] in D. inversion D as [|? ? _ D1]. inversion D1 as [|? ? _ D2]. exact D2. }
    destruct Hround as (en1 & ks1 & s1 & Ed & Hs1 & Hback). rewrite Ed.
    assert (Hb' : stmt7 (map fst (lvb i kk ++ R2)) b = true) by (destruct i; exact Hb).
    destruct (IH1 b s1 en1 ks1 (lvb i kk ++ R2) g Hb' Hs1) as [E2|[(n1 & s2 & R1 & g2 & E2 & Hr1 & Hs2 & Hl2)|(n1 & s2 & e2 & R1 & g2 & E2 & Hr1 & Hs2 & Hl2)]];
      rewrite E2; cbn [bnd ok err].
    + left; reflexivity.
    + destruct (Hback s2 R1 g2 Hs2 Hl2) as [Hs2' Hl2'].
      assert (Hb2 : stmt7 (lvn i ++ [] :: [] :: map fst (tl (tl (unb i R1)))) b = true) by (rewrite Hl2'; exact Hb).
      destruct (IH4 i nv (wrap64 (kk + 1)) b s2 en ks (tl (tl (unb i R1))) g2 Hnv Hi Hb2 Hs2')
        as [E3|[(n2 & s3 & R3 & g3 & E3 & Hr2 & Hs3 & Hl3)|(n2 & s3 & e3 & R3 & g3 & E3 & Hr2 & Hs3 & Hl3)]]; rewrite E3.
      * left; reflexivity.
      * right; left. exists (S (Nat.max n1 n2)), s3, R3, g3.
        split; [reflexivity|]. split; [|split; [exact Hs3 | rewrite Hl3; exact Hl2']].
        cbn [rep7]. rewrite Hc. fold R2. rewrite (run7_mono _ (Nat.max n1 n2) _ _ _ _ Hr1) by lia.
        eapply rep7_mono; [exact Hr2 | lia].
      * right; right. exists (S (Nat.max n1 n2)), s3, e3, R3, g3.
        split; [reflexivity|]. split; [|split; [exact Hs3 | rewrite Hl3; exact Hl2']].
        cbn [rep7]. rewrite Hc. fold R2. rewrite (run7_mono _ (Nat.max n1 n2) _ _ _ _ Hr1) by lia.
        eapply rep7_mono; [exact Hr2 | lia].
    + destruct (Hback s2 R1 g2 Hs2 Hl2) as [Hs2' Hl2'].
      right; right. exists (S n1), s2, e2, (tl (tl (unb i R1))), g2. split; [reflexivity|]. split; [|auto].
      cbn [rep7]. rewrite Hc. fold R2. rewrite Hr1. reflexivity.
Qed.

(* ------------------------------------------------------------------ the cards of main (declarations) *)
Definition has_scope (en : env) : Prop := exists sc r, e_scopes en = sc :: r.

Definition main_res7 (c_names : list str) (r : res) (run : nat -> option (bool * lstore * gl)) : Prop :=
  r = RFuel \/
  (exists n s' en' ks' R' g', r = ok [] en' s' /\ run n = Some (true, R', g') /\ stI en' ks' s' R' g' /\ has_scope en' /\ map fst R' = c_names) \/
  (exists n s' e' R' g', r = err EVarNotFound e' s' /\ run n = Some (false, R', g') /\
                         st_heap s' = [] /\ st_globals s' = g' /\ simples (R' ++ g')).

Lemma top_eval7 fuel c s en ks R g :
  top7 (map fst R) c = true -> stI en ks s R g -> has_scope en ->
  main_res7 (names_next (map fst R) c) (evalf fuel (TkCard fi en c) s) (fun n => run7 n R g c).
Proof.
  intros Hc Hs Hsc. unfold main_res7.
  assert (Hstmt : stmt7 (map fst R) c = true -> names_next (map fst R) c = map fst R ->
            main_res7 (names_next (map fst R) c) (evalf fuel (TkCard fi en c) s) (fun n => run7 n R g c)).
  { intros H6 Hn. destruct (eval7 fuel) as (H1 & _).
    destruct (H1 c s en ks R g H6 Hs) as [E|[(n & s2 & R2 & g2 & E2 & Hr & Hs2 & Hl2)|(n & s2 & e2 & R2 & g2 & E2 & Hr & Hs2 & Hl2)]].
    - left; exact E.
    - right; left. exists n, s2, en, ks, R2, g2. rewrite Hn. auto 6.
    - right; right. exists n, s2, e2, R2, g2. destruct Hs2 as (A & B & _ & D). auto 6. }
  destruct c; try (apply Hstmt; [exact Hc | reflexivity]).
  cbn [top7] in Hc. apply andb_true_iff in Hc. destruct Hc as [Hx He].
  destruct (lmem name (map fst R)) eqn:Hm.
  - apply Hstmt; [cbn [stmt7]; rewrite Hx, Hm, He; reflexivity | cbn [names_next]; rewrite Hm; reflexivity].
  - (* the declaration *)
    cbn [names_next]. rewrite Hm.
    unfold var_ok in Hx. apply andb_true_iff in Hx. destruct Hx as [Hne Hdot]. apply negb_true_iff in Hne, Hdot.
    assert (Hne' : is_empty name = false) by (destruct name; [discriminate Hne | reflexivity]).
    destruct fuel as [|f]; [left; reflexivity|].
    cbn [eval]; unfold F; (destruct (limit <? st_steps s)%N; [left; reflexivity|]).
    pose proof (stI_bump _ _ _ _ _ Hs) as Hbs; cbn [eval_card].
    pose proof (eval_cond7 _ He f (bump s) en ks R g Hbs) as [E|[(v & s1 & E & Hv & Hsv & Hs1)|(s1 & E & Hv & Hs1)]];
      cbn zeta in E; rewrite E; cbn [bnd ok err one].
    + left; reflexivity.
    + rewrite (rsplit_no_dot _ Hdot), Hne'.
      destruct Hs1 as (Hh & Hg & Hinv & Hsim).
      pose proof (inv_lk _ _ _ _ Hinv name Hne') as Hl. rewrite lmem_assoc in Hm. destruct (assoc name R) eqn:Ea; [discriminate|].
      rewrite Hl. destruct Hsc as (sc & r & Hsc). unfold declare, alloc_cell. rewrite Hsc.
      right; left. eexists 1%nat, _, _, (length (st_cells s1) :: ks), ((name, v) :: R), g. cbn [run7]. rewrite Hv.
      unfold sets_local. rewrite lmem_assoc, Ea.
      split; [reflexivity|]. split; [reflexivity|]. split; [|split; [eexists _, _; reflexivity | reflexivity]].
      apply stI_intro; cbn [set_cells st_heap st_globals st_cells]; auto.
      * apply inv_declare; assumption.
      * cbn [app]. constructor; [exact Hsv | exact Hsim].
    + right; right. exists 1%nat, s1, en, R, g. cbn [run7]. rewrite Hv. destruct Hs1 as (A & B & _ & D). auto 6.
Qed.

Lemma main_eval7 fuel : forall cards s en ks R g,
  cards7 (map fst R) cards = true -> stI en ks s R g -> has_scope en ->
  main_res7 (names_end (map fst R) cards) (evalf fuel (TkSeq fi en cards) s) (fun n => runs7 n R g cards).
Proof.
  induction fuel as [|f IH]; intros cards s en ks R g Hc Hs Hsc; [left; reflexivity|].
  unfold main_res7. cbn [eval]; unfold F.
  destruct (limit <? st_steps s)%N; [left; reflexivity|]. pose proof (stI_bump _ _ _ _ _ Hs) as Hbs.
  destruct cards as [|c r].
  - right; left. exists 0%nat, (bump s), en, ks, R, g. cbn. auto 6.
  - cbn [cards7 names_end] in *. apply andb_true_iff in Hc. destruct Hc as [Hc Hr].
    destruct (top_eval7 f c (bump s) en ks R g Hc Hbs Hsc) as [E|[(n1 & s1 & en1 & ks1 & R1 & g1 & E & Hr1 & Hs1 & Hsc1 & Hl1)|(n1 & s1 & e1 & R1 & g1 & E & Hr1 & Hs1)]];
      rewrite E; cbn [bnd ok err].
    + left; reflexivity.
    + destruct (IH r s1 en1 ks1 R1 g1 ltac:(rewrite Hl1; exact Hr) Hs1 Hsc1) as [E2|[(n2 & s2 & en2 & ks2 & R2 & g2 & E2 & Hr2 & Hs2 & Hsc2 & Hl2)|(n2 & s2 & e2 & R2 & g2 & E2 & Hr2 & Hs2)]];
        rewrite E2; cbn [bnd ok err app].
      * left; reflexivity.
      * right; left. exists (Nat.max n1 n2), s2, en2, ks2, R2, g2. split; [reflexivity|].
        split; [|split; [exact Hs2 | split; [exact Hsc2 | rewrite <- Hl1; exact Hl2]]].
        cbn [runs7]. rewrite (run7_mono _ (Nat.max n1 n2) _ _ _ _ Hr1) by lia.
        eapply runs7_mono; [exact Hr2 | lia].
      * right; right. exists (Nat.max n1 n2), s2, e2, R2, g2. split; [reflexivity|]. split; [|exact Hs2].
        cbn [runs7]. rewrite (run7_mono _ (Nat.max n1 n2) _ _ _ _ Hr1) by lia.
        eapply runs7_mono; [exact Hr2 | lia].
    + right; right. exists n1, s1, e1, R1, g1. split; [reflexivity|]. split; [|exact Hs1]. cbn [runs7]. rewrite Hr1. reflexivity.
Qed.
End Eval.

Theorem eval_program_f7 fuel M host o :
  in_f7 M = true -> eval_program fuel M host = PObs o ->
  exists n R g, runs7 n [] [] (main_cards M) = Some (match ob_kind o with KOk => true | _ => false end, R, g) /\
                (ob_kind o = KOk \/ ob_kind o = KErr EVarNotFound) /\
                simples R /\ simples g /\
                ob_globals o = map (fun nv => (fst nv, vm_tree (to_vm (snd nv)))) g.
Proof.
  intros HM. destruct M as [subs funs imps]. cbn [in_f7] in HM.
  destruct subs; [|discriminate]. destruct funs as [|[name f] [|]]; try discriminate.
  destruct imps; [|discriminate].
  apply andb_true_iff in HM. destruct HM as [HM Hcards]. apply andb_true_iff in HM. destruct HM as [Hname _].
  apply str_eqb_main in Hname. subst name.
  destruct flatten_std_some as [stdl Hstd].
  unfold eval_program, program_of, add_std. cbn [app].
  change 64%nat with (S 63). rewrite (flatten_f1 63 f stdl Hstd).
  cbn [find_index fe_name]. change (str_eqb s_main s_main) with true. cbv iota.
  cbn [nth_error fe_fn main_cards].
  set (P := _ :: stdl).
  intros H.
  set (en0 := {| e_scopes := [[]]; e_up := [] |}) in *.
  assert (Hgs : stI en0 [] init_state [] []).
  { apply stI_intro; try reflexivity; [|constructor]. split; [constructor|]. split; [constructor|]. intros n _. reflexivity. }
  assert (Hsc0 : has_scope en0) by (eexists _, _; reflexivity).
  pose proof (main_eval7 P host (step_limit fuel) 0 fuel _ _ en0 [] [] [] Hcards Hgs Hsc0)
    as [E|[(n & s1 & en1 & ks1 & R1 & g1 & E & Hrun & Hs1 & _)|(n & s1 & e1 & R1 & g1 & E & Hrun & Hh & Hg & Hsim)]];
    rewrite E in H; cbn [ok err] in H; try discriminate H.
  - injection H as <-. exists n, R1, g1. cbn [ob_kind ob_globals observe].
    destruct Hs1 as (Hh & Hg & _ & Hsim). apply simples_app in Hsim. destruct Hsim as [HsR Hsg].
    repeat split; auto. rewrite Hh, Hg. apply map_ext_in. intros [x v] Hin.
    unfold simples in Hsg. rewrite Forall_forall in Hsg. pose proof (Hsg _ Hin) as Hv. cbn [snd] in Hv.
    destruct v; try contradiction; reflexivity.
  - injection H as <-. exists n, R1, g1. cbn [ob_kind ob_globals observe].
    apply simples_app in Hsim. destruct Hsim as [HsR Hsg].
    repeat split; auto. rewrite Hh, Hg. apply map_ext_in. intros [x v] Hin.
    unfold simples in Hsg. rewrite Forall_forall in Hsg. pose proof (Hsg _ Hin) as Hv. cbn [snd] in Hv.
    destruct v; try contradiction; reflexivity.
Qed.
