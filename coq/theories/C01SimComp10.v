(* C01 F10: placeholder, filled in below *)
