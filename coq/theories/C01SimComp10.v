(* C01, simulation, compiler half for fragment F10 = F9 plus a call as a statement card.
   Everything about right-hand sides, the guard, the IR stream and the jump table is reused from C01SimComp9;
   the lemmas over statement cards get one more case - the call statement, which is the right-hand-side
   lemma for CCall without a trailing instruction. *)
From Coq Require Import List NArith ZArith Bool Lia.
From Cao Require TableProofs.
From Cao Require Import ListUtil CheckUtil Bits CardAst Bytecode Compiler CompilerGen CompilerProofs CompilerWf
     CompilerResolve StdlibGen C01SimKeep C01SimDefs C01SimComp C01SimDefs2 C01SimComp2 C01SimDefs4 C01SimDefs5
     C01SimComp5 C01SimDefs9 C01SimComp9 C01SimDefs10.
From Cao Require CompilerLabels ResolveTree.
Import ListNotations.
Local Open Scope N_scope.

(* ------------------------------------------------------------------ the cards of the fragment *)
Section Cards.
Variable FT : ftab.
Variable sg : sig9.
Hypothesis sg_ft : forall name n, sm_find name sg = Some n -> exists h ar, sm_find name FT = Some (h, ar).


Lemma emitsG_stmt10 ret Ln c : stmt10 sg ret Ln c = true ->
  emitsL Ln Ln (gd FT (process_card c)) (stmt_gnames10 Ln c) (fun T b => code10 T FT Ln b c).
Proof.
  induction c using card_ind'; intros Hc; cbn [stmt10] in Hc; try discriminate Hc.
  - (* IfTrue / IfFalse *)
    destruct op; try discriminate Hc; apply andb_true_iff in Hc; destruct Hc as [He Hb].
    + eapply emitsL_ext.
      * eapply emitsL_le9; cycle 1.
        { cbn [process_card]. apply le9_seq; [apply le9_gd | apply pj_card_label|].
          apply le9_seq; [apply le9_gd | apply pj_with_sub, pj_card|].
          apply le9_seq; [apply le9_gd | apply pj_push_sub|].
          apply le9_seq_last, le9_if_then, le9_refl. }
        apply emitsL_seq; [apply emitsL_nop, keepL_card_label|].
        apply emitsL_seq; [apply emitsL_with_sub, emitsL_expr, He|].
        apply emitsL_seq; [apply emitsL_nop, keepL_push_sub|].
        apply emitsL_seq; [apply (emitsL_if_then Ln IGotoIfFalse); [left; reflexivity | apply IHc2, Hb]|].
        apply emitsL_nop, keepL_pop_sub.
      * intros x Hx. cbn [stmt_gnames10 app] in *. rewrite app_nil_r. exact Hx.
      * intros T b. cbn [code10 app bytes]. rewrite ?N.add_0_r, ?app_nil_r. reflexivity.
    + eapply emitsL_ext.
      * eapply emitsL_le9; cycle 1.
        { cbn [process_card]. apply le9_seq; [apply le9_gd | apply pj_card_label|].
          apply le9_seq; [apply le9_gd | apply pj_with_sub, pj_card|].
          apply le9_seq; [apply le9_gd | apply pj_push_sub|].
          apply le9_seq_last, le9_if_then, le9_refl. }
        apply emitsL_seq; [apply emitsL_nop, keepL_card_label|].
        apply emitsL_seq; [apply emitsL_with_sub, emitsL_expr, He|].
        apply emitsL_seq; [apply emitsL_nop, keepL_push_sub|].
        apply emitsL_seq; [apply (emitsL_if_then Ln IGotoIfTrue); [right; reflexivity | apply IHc2, Hb]|].
        apply emitsL_nop, keepL_pop_sub.
      * intros x Hx. cbn [stmt_gnames10 app] in *. rewrite app_nil_r. exact Hx.
      * intros T b. cbn [code10 app bytes]. rewrite ?N.add_0_r, ?app_nil_r. reflexivity.
  - (* Return *)
    destruct op; try discriminate Hc. apply andb_true_iff in Hc. destruct Hc as [_ Hr].
    exact (emitsG_return FT sg sg_ft Ln c Hr).
  - (* IfElse *)
    destruct op; try discriminate Hc. apply andb_true_iff in Hc. destruct Hc as [Hc Hb].
    apply andb_true_iff in Hc. destruct Hc as [He Ha].
    eapply emitsL_ext.
    + eapply emitsL_le9; cycle 1.
      { cbn [process_card]. apply le9_seq; [apply le9_gd | apply pj_card_label|].
        apply le9_seq; [apply le9_gd | apply pj_with_sub, pj_card|].
        apply le9_seq; [apply le9_gd | apply pj_push_sub|].
        apply (le9_if_else FT (process_card c2) (gd FT (process_card c2)) (process_card c3) (gd FT (process_card c3))); [apply le9_refl | apply pj_card | apply le9_refl]. }
      apply emitsL_seq; [apply emitsL_nop, keepL_card_label|].
      apply emitsL_seq; [apply emitsL_with_sub, emitsL_expr, He|].
      apply emitsL_seq; [apply emitsL_nop, keepL_push_sub|].
      apply emitsL_if_else; [apply IHc2, Ha | apply IHc3, Hb].
    + intros x Hx. cbn [stmt_gnames10 app] in *. exact Hx.
    + intros T b. cbn [code10 app bytes]. unfold code_if_else. rewrite ?N.add_0_r. reflexivity.
  - (* Call statement *)
    match goal with H : rhs9 sg ?r = true |- _ => exact (emitsG_rhs FT sg sg_ft Ln r H) end.
  - (* SetGlobalVar *)
    apply andb_true_iff in Hc. destruct Hc as [Hne Hr]. apply negb_true_iff in Hne.
    exact (emitsG_set_global FT sg sg_ft Ln n c Hne Hr).
  - (* SetVar of an existing local *)
    apply andb_true_iff in Hc. destruct Hc as [Hc Hr]. apply andb_true_iff in Hc. destruct Hc as [Hx Hm].
    unfold lmem in Hm. destruct (find_first n Ln) as [p|] eqn:Ef; [|discriminate].
    eapply emitsL_ext.
    + apply (emitsG_set_local FT sg sg_ft Ln n c (length Ln - 1 - p) Hx Hr). unfold slot. rewrite Ef. reflexivity.
    + intros x Hx'. exact Hx'.
    + intros T b. cbn [code10 stmt_gnames10]. unfold set_slot, slot. rewrite Ef. reflexivity.
Qed.

Lemma emitsG_top10 ret Ln c : top10 sg ret Ln c = true ->
  emitsL Ln (names_next Ln c) (gd FT (process_card c)) (stmt_gnames10 Ln c) (fun T b => code10 T FT Ln b c).
Proof.
  intros Hc. destruct c; try (apply (emitsG_stmt10 ret); exact Hc).
  cbn [top10] in Hc. apply andb_true_iff in Hc. destruct Hc as [Hx Hr].
  cbn [names_next stmt_gnames10 code10]. unfold set_slot, slot, lmem. destruct (find_first name Ln) as [p|] eqn:Ef.
  - apply (emitsG_set_local FT sg sg_ft Ln name c (length Ln - 1 - p) Hx Hr). unfold slot. rewrite Ef. reflexivity.
  - apply (emitsG_declare FT sg sg_ft Ln name c Hx Hr). unfold lmem. rewrite Ef. reflexivity.
Qed.

Lemma emitsG_cards10 ret cards : forall Ln ic, cards10 sg ret Ln cards = true ->
  emitsL Ln (names_end Ln cards) (gd FT (process_cards cards ic)) (top_gnames10 Ln cards)
         (fun T b => code_top10 T FT Ln b cards).
Proof.
  induction cards as [|c r IH]; intros Ln ic Hc; cbn [process_cards names_end top_gnames10].
  - eapply emitsL_le9; [|apply le9_gd]. apply emitsL_nop. intros s s' E. injection E as <-. repeat split.
  - cbn [cards10] in Hc. apply andb_true_iff in Hc. destruct Hc as [Hc Hr].
    eapply emitsL_le9; cycle 1.
    { apply le9_seq; [apply le9_gd | apply pj_pop_sub|]. apply le9_seq; [apply le9_gd | apply pj_push_sub|].
      apply le9_seq; [apply le9_refl | apply pj_card | apply le9_refl]. }
    intros s s' Hcx E.
    pose proof (emitsL_seq_gen Ln Ln _ _ _ _ _ _ _ (emitsL_nop Ln _ keepL_pop_sub)
                 (emitsL_seq_gen Ln Ln _ _ _ _ _ _ _ (emitsL_nop Ln _ (keepL_push_sub ic))
                    (emitsL_seq_gen Ln _ _ _ _ _ _ _ _ (emitsG_top10 ret Ln c Hc) (IH (names_next Ln c) (ic + 1) Hr)))) as H.
    destruct (H s s' Hcx E) as (A & B & C & D). split; [exact A|]. split; [exact B|]. split.
    + intros n Hn. apply C. exact Hn.
    + intros T HT. rewrite (D T HT). cbn [code_top10 app bytes]. rewrite ?N.add_0_r. reflexivity.
Qed.

End Cards.


Section Fun.
Variable FT : ftab.
Variable sg : sig9.
Hypothesis sg_ft : forall name n, sm_find name sg = Some n -> exists h ar, sm_find name FT = Some (h, ar).

Lemma fun_body10 ret i n name f s0 se :
  cards10 sg ret (f_args f) (f_cards f) = true ->
  ctxL [] s0 -> jb FT (cs_jump s0) = true ->
  process_function (fir9 i n name f) s0 = ROk tt se ->
  ctxL (names_end (f_args f) (f_cards f)) se /\ cs_jump se = cs_jump s0 /\ sub2 s0 se /\
  (forall x, In x (fn_gnames10 f) -> named se x) /\
  (forall T, sub (cs_ids se) T -> cs_code se = rev (code_top10 T FT (f_args f) (cs_pc s0) (f_cards f)) ++ cs_code s0).
Proof.
  intros Hcards Hc0 Hj E. unfold process_function in E.
  cbn [fir9 fi_args fi_cards fi_ns fi_imports] in E.
  apply bind_ok in E. destruct E as ([] & sx & Ex & E). injection Ex as <-.
  apply bind_ok in E. destruct E as ([] & s1 & E1 & E).
  assert (Hcx : ctxL [] (set_fctx [] [] s0)) by exact Hc0.
  destruct (add_locals_L _ _ _ _ Hcx E1) as (Hc1 & Ai & An & Ac & Ap & Aj).
  rewrite app_nil_r, rev_involutive in Hc1.
  cbn [cs_ids cs_names cs_code cs_pc cs_jump set_fctx] in Ai, An, Ac, Ap, Aj.
  assert (E' : gd FT (process_cards (f_cards f) 0) s1 = ROk tt se).
  { unfold gd. rewrite Aj, Hj. exact E. }
  destruct (emitsG_cards10 FT sg sg_ft ret (f_cards f) (f_args f) 0 Hcards s1 se Hc1 E') as (Hce & Bd & Cd & Dd).
  destruct (pj_process_cards _ _ _ _ (ctxL_pinv _ _ Hc1) E) as [_ Hje].
  split; [exact Hce|]. split; [congruence|].
  split; [destruct Bd as [B1 B2]; split; [rewrite <- Ai; exact B1 | rewrite <- An; exact B2]|].
  split; [exact Cd|].
  intros T HT. rewrite (Dd T HT), Ap, Ac. reflexivity.
Qed.

Lemma other10_shape i n name f s s' :
  cards10 sg true (f_args f) (f_cards f) = true ->
  fst9 FT s -> compile_other (fir9 i n name f) s = ROk tt s' ->
  fst9 FT s' /\ sub2 s s' /\
  (forall x, In x (fn_gnames10 f) -> named s' x) /\
  (forall T, sub (cs_ids s') T -> cs_code s' = rev (code_fn10 T FT (cs_pc s) f) ++ cs_code s).
Proof.
  intros Hcards ((Hl & Hu & Hp) & (d0 & Hd) & Hj) E.
  unfold compile_other in E.
  apply bind_ok in E. destruct E as ([] & sa & Ea & E). injection Ea as <-.
  apply bind_ok in E. destruct E as ([] & sb & Eb & E). injection Eb as <-.
  apply bind_ok in E. destruct E as ([] & sc & Ec & E).
  unfold label_insert_here in Ec. destruct (_ || _); [discriminate Ec|]. injection Ec as <-.
  apply bind_ok in E. destruct E as ([] & sd & Ed & E). injection Ed as <-.
  apply bind_ok in E. destruct E as ([] & se & Ee & E).
  match type of Ee with process_function _ ?st = _ => set (s0 := st) in * end.
  assert (Hc0 : ctxL [] s0).
  { subst s0. split; [split|split]; cbn; [rewrite Hl; reflexivity | rewrite Hd; reflexivity | exact Hu | exact Hp]. }
  assert (Hj0 : jb FT (cs_jump s0) = true) by exact Hj.
  destruct (fun_body10 true i n name f s0 se Hcards Hc0 Hj0 Ee) as (Hce & Hje & Bd & Cd & Dd).
  apply bind_ok in E. destruct E as ([] & sf & Ef & E).
  destruct (scope_end9 _ _ _ Hce Ef) as (Fl & Fu & Fd & Fj & Fc & Fi & Fn & Fp).
  apply bind_ok in E. destruct E as ([] & sg1 & Eg & E).
  rewrite push_instr_eq in Eg. injection Eg as <-. rewrite push_instr_eq in E. injection E as <-.
  assert (Hids0 : cs_ids s0 = cs_ids s) by reflexivity.
  assert (Hnames0 : cs_names s0 = cs_names s) by reflexivity.
  assert (Hcode0 : cs_code s0 = cs_code s) by reflexivity.
  assert (Hpc0 : cs_pc s0 = cs_pc s) by reflexivity.
  assert (Hjump0 : cs_jump s0 = cs_jump s) by reflexivity.
  pose proof (ctxL_pinv _ _ Hce) as Hpe. unfold pinv in Hpe.
  split.
  { split; [split; [exact Fl | split; [exact Fu|]]|split].
    - cbn [pushed cs_pc cs_code set_code set_trace bytes]. rewrite Fp, Fc, Hpe, bytes_app. unfold spanN. lia.
    - exact Fd.
    - cbn [pushed cs_jump set_code set_trace]. rewrite Fj, Hje, Hjump0. exact Hj. }
  split.
  { destruct Bd as [B1 B2]. split; cbn [pushed cs_ids cs_names set_code set_trace].
    - rewrite Fi, <- Hids0. exact B1.
    - rewrite Fn, <- Hnames0. exact B2. }
  split.
  { intros x Hx. destruct (Cd x Hx) as (id & I1 & I2). exists id. cbn [pushed cs_ids cs_names set_code set_trace].
    rewrite Fi, Fn. auto. }
  intros T HT. cbn [pushed cs_code cs_ids set_code set_trace] in *. rewrite Fi in HT.
  rewrite Fc, (Dd T HT), Hpc0, Hcode0. unfold code_fn10.
  rewrite !rev_app_distr. cbn [rev app]. rewrite rev_repeat. rewrite <- !app_assoc. cbn [app]. reflexivity.
Qed.

End Fun.

Section Fun2.
Variable FT : ftab.

Lemma main10_shape sg f s s' :
  (forall name n, sm_find name sg = Some n -> exists h ar, sm_find name FT = Some (h, ar)) ->
  f_args f = [] -> cards10 sg false [] (f_cards f) = true ->
  fst9 FT s -> cs_pc s = 0 ->
  compile_main (fir9 0 0 s_main f) s = ROk tt s' ->
  fst9 FT s' /\ sub2 s s' /\
  (forall x, In x (fn_gnames10 f) -> named s' x) /\
  (forall T, sub (cs_ids s') T -> cs_code s' = rev (code_main10 T FT (f_cards f)) ++ cs_code s).
Proof.
  intros sg_ft Ha Hcards ((Hl & Hu & Hp) & (d0 & Hd) & Hj) Hpc E.
  unfold compile_main in E.
  apply bind_ok in E. destruct E as ([] & sa & Ea & E). injection Ea as <-.
  apply bind_ok in E. destruct E as ([] & sb & Eb & E). injection Eb as <-.
  apply bind_ok in E. destruct E as ([] & sd & Ed & E). injection Ed as <-.
  apply bind_ok in E. destruct E as ([] & se & Ee & E).
  match type of Ee with process_function _ ?st = _ => set (s0 := st) in * end.
  assert (Hc0 : ctxL [] s0).
  { subst s0. split; [split|split]; cbn; [rewrite Hl; reflexivity | rewrite Hd; reflexivity | exact Hu | exact Hp]. }
  assert (Hj0 : jb FT (cs_jump s0) = true) by exact Hj.
  assert (Hcards' : cards10 sg false (f_args f) (f_cards f) = true) by (rewrite Ha; exact Hcards).
  destruct (fun_body10 FT sg sg_ft false 0%nat 0 s_main f s0 se Hcards' Hc0 Hj0 Ee) as (Hce & Hje & Bd & Cd & Dd).
  apply bind_ok in E. destruct E as ([] & sx & Ex & E). injection Ex as <-.
  apply bind_ok in E. destruct E as ([] & sf & Ef & E).
  match type of Ef with scope_end ?st = _ => assert (Hce' : ctxL (names_end (f_args f) (f_cards f)) st) by exact Hce end.
  destruct (scope_end9 _ _ _ Hce' Ef) as (Fl & Fu & Fd & Fj & Fc & Fi & Fn & Fp).
  cbn [cs_jump cs_code cs_ids cs_names cs_pc set_index] in Fj, Fc, Fi, Fn, Fp.
  unfold process_leaf in E.
  apply bind_ok in E. destruct E as ([] & sg1 & Eg & E).
  destruct (keepL_card_label _ _ Eg) as ((g1 & g2 & g3 & g4 & g5 & g6) & g7).
  pose proof (ctxL_pinv _ _ Hce) as Hpe. unfold pinv in Hpe.
  assert (Hpf : pinv sf).
  { unfold pinv. rewrite Fp, Fc, Hpe, bytes_app. lia. }
  destruct (pj_card_label _ _ Hpf Eg) as [_ gj].
  rewrite push_instr_eq in E. injection E as <-.
  assert (Hids0 : cs_ids s0 = cs_ids s) by reflexivity.
  assert (Hnames0 : cs_names s0 = cs_names s) by reflexivity.
  assert (Hcode0 : cs_code s0 = cs_code s) by reflexivity.
  assert (Hpc0 : cs_pc s0 = 0) by exact Hpc.
  assert (Hjump0 : cs_jump s0 = cs_jump s) by reflexivity.
  split.
  { split; [split; [cbn; rewrite g3; exact Fl | split; [cbn; rewrite g4; exact Fu|]]|split].
    - cbn [pushed cs_pc cs_code set_code set_trace bytes]. rewrite g5, g1. unfold pinv in Hpf. rewrite Hpf. unfold spanN. lia.
    - cbn [pushed cs_depth set_code set_trace]. rewrite g7. exact Fd.
    - cbn [pushed cs_jump set_code set_trace]. rewrite gj, Fj, Hje, Hjump0. exact Hj. }
  split.
  { destruct Bd as [B1 B2]. split; cbn [pushed cs_ids cs_names set_code set_trace].
    - rewrite g2, Fi, <- Hids0. exact B1.
    - rewrite g6, Fn, <- Hnames0. exact B2. }
  split.
  { intros x Hx. destruct (Cd x Hx) as (id & I1 & I2). exists id. cbn [pushed cs_ids cs_names set_code set_trace].
    rewrite g2, Fi, g6, Fn. auto. }
  intros T HT. cbn [pushed cs_code cs_ids set_code set_trace] in *. rewrite g2, Fi in HT.
  rewrite g1, Fc, (Dd T HT), Hpc0, Hcode0. unfold code_main10. rewrite Ha.
  rewrite !rev_app_distr. cbn [rev app]. rewrite rev_repeat. rewrite <- !app_assoc. cbn [app]. reflexivity.
Qed.

Lemma others10_shape others : forall i n s s',
  (forall nm k, sm_find nm (sig_of others) = Some k -> exists h ar, sm_find nm FT = Some (h, ar)) ->
  fns_ok10 others = true -> fst9 FT s ->
  compile_others (firs9 i n others) s = ROk tt s' ->
  fst9 FT s' /\ sub2 s s' /\
  (forall x, In x (flat_map (fun nf => fn_gnames10 (snd nf)) others) -> named s' x) /\
  (forall T, sub (cs_ids s') T -> cs_code s' = rev (code_fns10 T FT (cs_pc s) others) ++ cs_code s).
Proof.
  induction others as [|[nm f] r IH]; intros i n s s' Hsg Hok Hst E.
  - cbn [firs9 compile_others] in E. injection E as <-.
    split; [exact Hst|]. split; [apply sub2_refl|]. split; [intros x []|]. intros T _. reflexivity.
  - cbn [firs9 compile_others] in E. apply bind_ok in E. destruct E as ([] & s1 & E1 & E2).
    cbn [fns_ok10] in Hok. apply andb_true_iff in Hok. destruct Hok as [Hf Hr].
    unfold fn_ok10 in Hf. apply andb_true_iff in Hf. destruct Hf as [_ Hcards].
    assert (Hsg_r : forall x k, sm_find x (sig_of r) = Some k -> exists h ar, sm_find x FT = Some (h, ar)).
    { intros x k Hx. destruct (str_eqb x nm) eqn:Ex.
      - apply (Hsg x (length (f_args f))). cbn [sig_of map fst snd sm_find]. rewrite Ex. reflexivity.
      - apply (Hsg x k). cbn [sig_of map fst snd sm_find]. rewrite Ex. exact Hx. }
    destruct (other10_shape FT (sig_of r) Hsg_r i n nm f s s1 Hcards Hst E1) as (Hst1 & S1 & N1 & C1).
    destruct (IH (S i) (n + 1) s1 s' Hsg_r Hr Hst1 E2) as (Hst2 & S2 & N2 & C2).
    split; [exact Hst2|]. split; [eapply sub2_trans; eauto|]. split.
    + intros x Hx. cbn [flat_map snd] in Hx. apply in_app_or in Hx. destruct Hx as [Hx|Hx]; [|auto].
      eapply named_sub2; [apply N1, Hx | exact S2].
    + intros T HT. pose proof (sub_trans _ _ _ (proj1 S2) HT) as HT1.
      rewrite (C2 T HT). pose proof (C1 T HT1) as Hc1.
      assert (Hpc1 : cs_pc s1 = cs_pc s + bytes (code_fn10 T FT (cs_pc s) f)).
      { destruct Hst1 as ((_ & _ & Hp1) & _). destruct Hst as ((_ & _ & Hp0) & _).
        rewrite Hp1, Hc1, bytes_app, bytes_rev, <- Hp0. lia. }
      rewrite Hpc1, Hc1. cbn [code_fns10]. rewrite rev_app_distr, app_assoc. reflexivity.
Qed.

End Fun2.

(* ------------------------------------------------------------------ the compiled program: code and ids *)
Theorem compile_f10_shape_code M B :
  in_f10 M = true -> compile M default_options = COk B ->
  N.of_nat (length (p_ids B)) < two32 ->
  exists rest,
    p_bytecode B = encode (code_all10 (p_ids B) M ++ rest) /\
    (forall n, In n (gnames10 M) -> nm_find (handle_of_bytes n) (p_ids B) <> None) /\
    (forall h1 h2 id, nm_find h1 (p_ids B) = Some id -> nm_find h2 (p_ids B) = Some id -> h1 = h2) /\
    (forall h id, nm_find h (p_ids B) = Some id -> id < two32) /\
    handles_inj (gnames10 M) = true.
Proof.
  intros HM HB Hlen. destruct M as [subs funs imps]. cbn [in_f10] in HM.
  destruct subs; [|discriminate]. destruct funs as [|[name f] others]; [discriminate|].
  destruct imps; [|discriminate].
  apply andb_true_iff in HM. destruct HM as [HM Hfns]. apply andb_true_iff in HM. destruct HM as [HM Hcards].
  apply andb_true_iff in HM. destruct HM as [HM _]. apply andb_true_iff in HM. destruct HM as [Hname Hargs].
  apply str_eqb_main in Hname. subst name.
  assert (Ha : f_args f = []) by (destruct (f_args f); [reflexivity | discriminate]).
  destruct (compile_ok_inv _ _ _ HB) as (fs & s & Hfs & E & ->).
  change (o_recursion_limit default_options) with 64 in Hfs. destruct (ir_stream9 _ _ _ Hfs) as (std & ->).
  set (M := Module [] ((s_main, f) :: others) []) in *.
  set (FT := ftab_of M).
  cbn [finish p_ids p_bytecode] in *.
  set (s0 := init_state (o_debug default_options)) in *.
  cbn [firs9 app] in E. set (fm := fir9 0 0 s_main f) in *.
  unfold compile_ir in E.
  apply bind_ok in E. destruct E as ([] & s1 & E1 & E).
  apply bind_ok in E. destruct E as ([] & s3 & E23 & E4).
  cbn [stage_2] in E23. apply bind_ok in E23. destruct E23 as ([] & s2 & E2 & E3).
  rewrite CompilerLabels.compile_others_app in E3. apply bind_ok in E3. destruct E3 as ([] & su & Eu & Estd).
  assert (Eafter : after_main std su = ROk tt s).
  { unfold after_main, bind. rewrite Estd. exact E4. }
  match type of E1 with stage_1 ?l _ = _ => set (FS := l) in * end.
  match type of Eu with compile_others ?l _ = _ => set (US := l) in * end.
  pose proof (frame3_stage_1 FS s0) as F1. rewrite E1 in F1.
  destruct F1 as (c1 & p1 & i1 & n1).
  assert (Hctx1 : ctx s1).
  { destruct (stage_1_ctx _ _ _ E1) as [A B]. split; [rewrite A; reflexivity|]. split; [rewrite B; reflexivity|].
    rewrite p1, c1. reflexivity. }
  assert (Hd1 : cs_depth s1 = [0%Z]).
  { clear - E1. assert (Hg : forall fs sa sb, stage_1 fs sa = ROk tt sb -> cs_depth sb = cs_depth sa).
    { induction fs as [|x r IH]; intros sa sb H; cbn [stage_1] in H; [injection H as <-; reflexivity|].
      apply bind_ok in H. destruct H as ([] & sx & Hx & Hr). rewrite (IH _ _ Hr).
      unfold add_function, bind, get in Hx. destruct (sm_find _ _); [discriminate|]. injection Hx as <-. reflexivity. }
    rewrite (Hg _ _ _ E1). reflexivity. }
  assert (Hjb1 : jb FT (cs_jump s1) = true).
  { exact (stage_1_jb ((s_main, f) :: others) 0%nat 0 std s0 s1 E1). }
  assert (Hst1 : fst9 FT s1).
  { split; [exact Hctx1|]. split; [exists []; exact Hd1 | exact Hjb1]. }
  assert (Hsg : forall nm k, sm_find nm (sig_of others) = Some k -> exists h ar, sm_find nm FT = Some (h, ar)).
  { intros nm k Hk. unfold FT, ftab_of, M. cbn [m_functions ftab_from sm_find].
    destruct (str_eqb nm s_main); [eauto | apply (sig_ftab _ _ _ _ Hk)]. }
  destruct (main10_shape FT (sig_of others) f s1 s2 Hsg Ha Hcards Hst1 ltac:(rewrite p1; reflexivity) E2)
    as (Hst2 & S12 & N2 & C2).
  destruct (others10_shape FT others _ _ s2 su Hsg Hfns Hst2 Eu) as (Hstu & S2u & Nu & Cu).
  assert (Gu : G [] [] su).
  { assert (S : sp3 [] [] (stage_1 FS ;; (compile_main fm ;; compile_others US)) (fun _ => True)).
    { eapply sp3_bind; [apply sp3_frame, frame3_stage_1 | intros _ _].
      eapply sp3_bind; [apply sp3_compile_main | intros _ _; apply sp3_compile_others]. }
    specialize (S s0 (G_init _)). unfold bind in S. rewrite E1, E2, Eu in S. apply S. }
  assert (Gs : G (cs_code su) (cs_ids su) s).
  { assert (Gu' : G (cs_code su) (cs_ids su) su).
    { apply G_here; [apply (g_pc _ _ _ Gu)|]. intros Hl. destruct (g_ids _ _ _ Gu Hl) as [I1 I2 I3 _]. auto. }
    pose proof (sp3_after_main (cs_code su) (cs_ids su) std su Gu') as S. rewrite Eafter in S. apply S. }
  destruct (g_ids _ _ _ Gs Hlen) as [Inv Ilt Iinj Iext].
  destruct (g_code _ _ _ Gs) as [l El].
  assert (Hsub : sub (cs_ids su) (cs_ids s)) by exact Iext.
  assert (Hsub2 : sub (cs_ids s2) (cs_ids s)) by (eapply sub_trans; [exact (proj1 S2u) | exact Hsub]).
  assert (Hnames : forall n, In n (gnames10 M) -> named su n).
  { intros n Hin. unfold gnames10, M in Hin. cbn [m_functions flat_map snd] in Hin.
    apply in_app_or in Hin. destruct Hin as [Hin|Hin]; [|auto].
    eapply named_sub2; [apply N2, Hin | exact S2u]. }
  exists (rev l). split; [|split; [|split; [|split]]].
  - f_equal. rewrite El, (Cu _ Hsub), (C2 _ Hsub2), c1. cbn [s0 init_state cs_code].
    assert (Hpc2 : cs_pc s2 = bytes (code_main10 (cs_ids s) FT (f_cards f))).
    { destruct Hst2 as ((_ & _ & Hp2) & _). rewrite Hp2, (C2 _ Hsub2), c1. cbn [s0 init_state cs_code].
      rewrite app_nil_r, bytes_rev. reflexivity. }
    rewrite Hpc2. unfold code_all10. cbn [M main_fn other_fns]. fold M. fold FT.
    rewrite app_nil_r, !rev_app_distr, !rev_involutive. reflexivity.
  - intros n Hin. pose proof (named_found _ _ (Hnames n Hin)) as Hnf.
    destruct (nm_find (handle_of_bytes n) (cs_ids su)) as [id|] eqn:En; [|congruence].
    rewrite (Hsub _ _ En). discriminate.
  - exact Iinj.
  - intros h id Hf. specialize (Ilt _ _ Hf). rewrite Inv in Ilt. lia.
  - apply (named_inj su _ eq_refl Hnames).
Qed.


Lemma code_fns10_app T FT a : forall base b,
  code_fns10 T FT base (a ++ b) =
  code_fns10 T FT base a ++ code_fns10 T FT (base + bytes (code_fns10 T FT base a)) b.
Proof.
  induction a as [|[nm f] r IH]; intros base b; cbn [app code_fns10].
  - cbn [bytes]. rewrite N.add_0_r. reflexivity.
  - rewrite IH, <- app_assoc. do 2 f_equal. rewrite bytes_app. f_equal. lia.
Qed.

(* others10_shape for a prefix of the list of functions: the later ones are [r ++ tail] *)
Lemma others10_shape_gen FT tail others : forall i n s s',
  (forall nm k, sm_find nm (sig_of (others ++ tail)) = Some k -> exists h ar, sm_find nm FT = Some (h, ar)) ->
  fns_ok10 (others ++ tail) = true -> fst9 FT s ->
  compile_others (firs9 i n others) s = ROk tt s' ->
  fst9 FT s' /\ sub2 s s' /\
  (forall T, sub (cs_ids s') T -> cs_code s' = rev (code_fns10 T FT (cs_pc s) others) ++ cs_code s).
Proof.
  induction others as [|[nm f] r IH]; intros i n s s' Hsg Hok Hst E.
  - cbn [firs9 compile_others] in E. injection E as <-.
    split; [exact Hst|]. split; [apply sub2_refl|]. intros T _. reflexivity.
  - cbn [firs9 compile_others] in E. apply bind_ok in E. destruct E as ([] & s1 & E1 & E2).
    cbn [app fns_ok10] in Hok. apply andb_true_iff in Hok. destruct Hok as [Hf Hr].
    unfold fn_ok10 in Hf. apply andb_true_iff in Hf. destruct Hf as [_ Hcards].
    assert (Hsg_r : forall x k, sm_find x (sig_of (r ++ tail)) = Some k -> exists h ar, sm_find x FT = Some (h, ar)).
    { intros x k Hx. destruct (str_eqb x nm) eqn:Ex.
      - apply (Hsg x (length (f_args f))). cbn [app sig_of map fst snd sm_find]. rewrite Ex. reflexivity.
      - apply (Hsg x k). cbn [app sig_of map fst snd sm_find]. rewrite Ex. exact Hx. }
    destruct (other10_shape FT (sig_of (r ++ tail)) Hsg_r i n nm f s s1 Hcards Hst E1) as (Hst1 & S1 & N1 & C1).
    destruct (IH (S i) (n + 1) s1 s' Hsg_r Hr Hst1 E2) as (Hst2 & S2 & C2).
    split; [exact Hst2|]. split; [eapply sub2_trans; eauto|].
    intros T HT. pose proof (sub_trans _ _ _ (proj1 S2) HT) as HT1.
    rewrite (C2 T HT). pose proof (C1 T HT1) as Hc1.
    assert (Hpc1 : cs_pc s1 = cs_pc s + bytes (code_fn10 T FT (cs_pc s) f)).
    { destruct Hst1 as ((_ & _ & Hp1) & _). destruct Hst as ((_ & _ & Hp0) & _).
      rewrite Hp1, Hc1, bytes_app, bytes_rev, <- Hp0. lia. }
    rewrite Hpc1, Hc1. cbn [code_fns10]. rewrite rev_app_distr, app_assoc. reflexivity.
Qed.

Lemma fns_ok10_suffix pre : forall suf, fns_ok10 (pre ++ suf) = true -> fns_ok10 suf = true.
Proof.
  induction pre as [|[n f] r IH]; intros suf H; [exact H|].
  cbn [app fns_ok10] in H. apply andb_true_iff in H. apply IH, H.
Qed.

(* ------------------------------------------------------------------ the compiled program: labels *)
Theorem compile_f10_labels M B :
  in_f10 M = true -> compile M default_options = COk B ->
  N.of_nat (length (p_ids B)) < two32 ->
  CompilerLabels.label_keys_distinct_module M 64 = true ->
  labels_ok9 (p_labels B) 1 (bases_all10 (p_ids B) M).
Proof.
  intros HM HB Hlen Hdist. destruct M as [subs funs imps]. cbn [in_f10] in HM.
  destruct subs; [|discriminate]. destruct funs as [|[name f] others]; [discriminate|].
  destruct imps; [|discriminate].
  apply andb_true_iff in HM. destruct HM as [HM Hfns]. apply andb_true_iff in HM. destruct HM as [HM Hcards].
  apply andb_true_iff in HM. destruct HM as [HM _]. apply andb_true_iff in HM. destruct HM as [Hname Hargs].
  apply str_eqb_main in Hname. subst name.
  assert (Ha : f_args f = []) by (destruct (f_args f); [reflexivity | discriminate]).
  destruct (compile_ok_inv _ _ _ HB) as (fs & s & Hfs & E & ->).
  change (o_recursion_limit default_options) with 64 in Hfs.
  unfold CompilerLabels.label_keys_distinct_module in Hdist. rewrite Hfs in Hdist.
  destruct (ir_stream9 _ _ _ Hfs) as (std & ->).
  set (M := Module [] ((s_main, f) :: others) []) in *.
  set (FT := ftab_of M).
  cbn [finish p_ids p_labels] in *.
  set (s0 := init_state (o_debug default_options)) in *.
  pose proof E as Ecomp.
  cbn [firs9 app] in E. set (fm := fir9 0 0 s_main f) in *.
  unfold compile_ir in E.
  apply bind_ok in E. destruct E as ([] & s1 & E1 & E).
  apply bind_ok in E. destruct E as ([] & s3 & E23 & E4).
  cbn [stage_2] in E23. apply bind_ok in E23. destruct E23 as ([] & s2 & E2 & E3).
  rewrite CompilerLabels.compile_others_app in E3. apply bind_ok in E3. destruct E3 as ([] & su & Eu & Estd).
  assert (Eafter : after_main std su = ROk tt s).
  { unfold after_main, bind. rewrite Estd. exact E4. }
  match type of E1 with stage_1 ?l _ = _ => set (FS := l) in * end.
  pose proof (frame3_stage_1 FS s0) as F1. rewrite E1 in F1.
  destruct F1 as (c1 & p1 & i1 & n1).
  assert (Hctx1 : ctx s1).
  { destruct (stage_1_ctx _ _ _ E1) as [A B]. split; [rewrite A; reflexivity|]. split; [rewrite B; reflexivity|].
    rewrite p1, c1. reflexivity. }
  assert (Hd1 : cs_depth s1 = [0%Z]).
  { clear - E1. assert (Hg : forall fs sa sb, stage_1 fs sa = ROk tt sb -> cs_depth sb = cs_depth sa).
    { induction fs as [|x r IH]; intros sa sb H; cbn [stage_1] in H; [injection H as <-; reflexivity|].
      apply bind_ok in H. destruct H as ([] & sx & Hx & Hr). rewrite (IH _ _ Hr).
      unfold add_function, bind, get in Hx. destruct (sm_find _ _); [discriminate|]. injection Hx as <-. reflexivity. }
    rewrite (Hg _ _ _ E1). reflexivity. }
  assert (Hjb1 : jb FT (cs_jump s1) = true).
  { exact (stage_1_jb ((s_main, f) :: others) 0%nat 0 std s0 s1 E1). }
  assert (Hst1 : fst9 FT s1).
  { split; [exact Hctx1|]. split; [exists []; exact Hd1 | exact Hjb1]. }
  assert (Hsg : forall nm k, sm_find nm (sig_of others) = Some k -> exists h ar, sm_find nm FT = Some (h, ar)).
  { intros nm k Hk. unfold FT, ftab_of, M. cbn [m_functions ftab_from sm_find].
    destruct (str_eqb nm s_main); [eauto | apply (sig_ftab _ _ _ _ Hk)]. }
  destruct (main10_shape FT (sig_of others) f s1 s2 Hsg Ha Hcards Hst1 ltac:(rewrite p1; reflexivity) E2)
    as (Hst2 & S12 & N2 & C2).
  destruct (others10_shape FT others _ _ s2 su Hsg Hfns Hst2 Eu) as (Hstu & S2u & Nu & Cu).
  assert (Gu : G [] [] su).
  { assert (S : sp3 [] [] (stage_1 FS ;; (compile_main fm ;; compile_others (firs9 1 (0 + 1) others))) (fun _ => True)).
    { eapply sp3_bind; [apply sp3_frame, frame3_stage_1 | intros _ _].
      eapply sp3_bind; [apply sp3_compile_main | intros _ _; apply sp3_compile_others]. }
    specialize (S s0 (G_init _)). unfold bind in S. rewrite E1, E2, Eu in S. apply S. }
  assert (Gs : G (cs_code su) (cs_ids su) s).
  { assert (Gu' : G (cs_code su) (cs_ids su) su).
    { apply G_here; [apply (g_pc _ _ _ Gu)|]. intros Hl. destruct (g_ids _ _ _ Gu Hl) as [I1 I2 I3 _]. auto. }
    pose proof (sp3_after_main (cs_code su) (cs_ids su) std su Gu') as S. rewrite Eafter in S. apply S. }
  destruct (g_ids _ _ _ Gs Hlen) as [Inv Ilt Iinj Iext].
  assert (Hsub : sub (cs_ids su) (cs_ids s)) by exact Iext.
  assert (Hsub2 : sub (cs_ids s2) (cs_ids s)) by (eapply sub_trans; [exact (proj1 S2u) | exact Hsub]).
  set (T := cs_ids s) in *.
  set (cm := code_main10 T FT (f_cards f)).
  assert (Hcode2 : cs_code s2 = rev cm).
  { rewrite (C2 _ Hsub2), c1. cbn [s0 init_state cs_code]. rewrite app_nil_r. reflexivity. }
  assert (Hpc2 : cs_pc s2 = bytes cm).
  { destruct Hst2 as ((_ & _ & Hp2) & _). rewrite Hp2, Hcode2, bytes_rev. reflexivity. }
  assert (Hlab : forall post pre, others = pre ++ post ->
            labels_ok9 (cs_labels s) (1 + N.of_nat (length pre))
              (bases10 T FT (bytes cm + bytes (code_fns10 T FT (bytes cm) pre)) post)).
  { induction post as [|[nm g] post IHp]; intros pre Ho; [exact I|].
    cbn [bases10 labels_ok9]. split.
    - eassert (Hsplit : firs9 0 0 ((s_main, f) :: others) ++ std = (fm :: firs9 1 (0 + 1) pre) ++ _ :: _).
      { rewrite Ho. cbn [firs9]. rewrite firs9_app. cbn [firs9 app]. rewrite <- app_assoc. cbn [app]. reflexivity. }
      destruct (CompilerLabels.label_points_to_body _ _ s _ _ _ Hsplit ltac:(discriminate) Ecomp Hdist)
        as (s1' & s2' & body & rest & Hrun & _ & _ & _ & _ & Hl).
      apply bind_ok in Hrun. destruct Hrun as ([] & sx & Hx & Hrun).
      change (stage_1 FS s0 = ROk tt sx) in Hx. rewrite E1 in Hx. injection Hx as <-.
      cbn [stage_2] in Hrun. apply bind_ok in Hrun. destruct Hrun as ([] & sy & Hy & Hrun).
      rewrite E2 in Hy. injection Hy as <-.
      cbn [fir9 fi_handle] in Hl. change (0 + 1) with 1 in Hl. rewrite Hl. f_equal.
      assert (Hsg' : forall x k, sm_find x (sig_of (pre ++ (nm, g) :: post)) = Some k ->
                                 exists h ar, sm_find x FT = Some (h, ar)) by (rewrite <- Ho; exact Hsg).
      assert (Hfns' : fns_ok10 (pre ++ (nm, g) :: post) = true) by (rewrite <- Ho; exact Hfns).
      destruct (others10_shape_gen FT ((nm, g) :: post) pre _ _ s2 s1' Hsg' Hfns' Hst2 Hrun) as (Hst1' & S1' & C1').
      pose proof Eu as Eu'. rewrite Ho, firs9_app, CompilerLabels.compile_others_app in Eu'.
      apply bind_ok in Eu'. destruct Eu' as ([] & sz & Ez & Erest).
      rewrite Hrun in Ez. injection Ez as <-.
      assert (Hsg'' : forall x k, sm_find x (sig_of (((nm, g) :: post) ++ [])) = Some k ->
                                  exists h ar, sm_find x FT = Some (h, ar)).
      { rewrite app_nil_r. intros x k Hx. destruct (sig_suffix pre _ x k Hx) as [k' Hk'].
        rewrite <- Ho in Hk'. exact (Hsg x k' Hk'). }
      assert (Hfns'' : fns_ok10 (((nm, g) :: post) ++ []) = true).
      { rewrite app_nil_r. apply (fns_ok10_suffix pre). rewrite <- Ho. exact Hfns. }
      destruct (others10_shape_gen FT [] ((nm, g) :: post) _ _ s1' su Hsg'' Hfns'' Hst1' Erest) as (_ & S' & _).
      assert (HT : sub (cs_ids s1') T) by (eapply sub_trans; [exact (proj1 S') | exact Hsub]).
      destruct Hst1' as ((_ & _ & Hp1') & _).
      rewrite Hp1', (C1' T HT), Hpc2, Hcode2, bytes_app, !bytes_rev. lia.
    - specialize (IHp (pre ++ [(nm, g)])). rewrite <- app_assoc in IHp. specialize (IHp Ho).
      rewrite app_length, code_fns10_app in IHp. cbn [length code_fns10] in IHp.
      rewrite app_nil_r, bytes_app, N.add_assoc in IHp.
      replace (1 + N.of_nat (length pre) + 1) with (1 + N.of_nat (length pre + 1)) by lia. exact IHp. }
  pose proof (Hlab others [] eq_refl) as H. cbn [length code_fns10 bytes] in H.
  change (N.of_nat 0) with 0 in H. rewrite !N.add_0_r in H. exact H.
Qed.
