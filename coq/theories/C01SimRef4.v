(* C01, simulation, reference half for fragment F4 (the while-language). *)
From Coq Require Import List NArith ZArith Bool Lia.
From Cao Require Import CheckUtil Bits CardAst Table TableProofs StdlibGen RefSem
     C01SimDefs C01SimRef C01SimDefs2 C01SimRef2 C01SimDefs3 C01SimRef3 C01SimDefs4.
Import ListNotations.

(* ---- more fuel does not change a result of the direct evaluator ---- *)
Lemma runs4_mono_from n m (Hrun : forall g c r, run4 n g c = Some r -> run4 m g c = Some r) :
  forall l g r, runs4 n g l = Some r -> runs4 m g l = Some r.
Proof.
  induction l as [|x l IH]; intros g r H; cbn [runs4] in *; [exact H|].
  destruct (run4 n g x) as [[[|] g1]|] eqn:E; try discriminate.
  - rewrite (Hrun _ _ _ E). apply IH, H.
  - rewrite (Hrun _ _ _ E). exact H.
Qed.

Lemma run4_mono n : forall m g c r, run4 n g c = Some r -> (n <= m)%nat -> run4 m g c = Some r.
Proof.
  induction n as [|n IH]; intros m g c r H Hle; [discriminate|].
  destruct m as [|m]; [lia|]. assert (Hle' : (n <= m)%nat) by lia.
  assert (IH' : forall g c r, run4 n g c = Some r -> run4 m g c = Some r) by (intros; eapply IH; eauto).
  destruct c; try exact H.
  - (* CBin *)
    destruct op; try exact H; cbn [run4] in *; destruct (ev g c1) as [v|]; try exact H;
      destruct (v_bool [] v); try exact H; try (apply IH'; exact H).
    (* While *)
    destruct (run4 n g c2) as [[[|] g1]|] eqn:E; try discriminate; rewrite (IH' _ _ _ E); [apply IH'|]; exact H.
  - (* CTri *)
    destruct op; try exact H. cbn [run4] in *. destruct (ev g c1) as [v|]; try exact H.
    destruct (v_bool [] v); apply IH'; exact H.
  - (* Composite *)
    rewrite run4_composite in *. eapply runs4_mono_from; eauto.
Qed.

Lemma runs4_mono n m l g r : runs4 n g l = Some r -> (n <= m)%nat -> runs4 m g l = Some r.
Proof. intros H Hle. eapply runs4_mono_from; [|exact H]. intros; eapply run4_mono; eauto. Qed.

Section Eval.
Variable P : list fentry.
Variable host : list str.
Variable limit : N.
Variable fi : nat.

Notation evalf := (eval P host limit).

Definition all4 (fuel : nat) : Prop :=
  (forall c s, stmt4 c = true -> gs s ->
     top_res (evalf fuel (TkCard fi env0 c) s) s (fun n => run4 n (st_globals s) c)) /\
  (forall cs s, forallb stmt4 cs = true -> gs s ->
     top_res (evalf fuel (TkSeq fi env0 cs) s) s (fun n => runs4 n (st_globals s) cs)) /\
  (forall e b s, expr_f1 e = true -> stmt4 b = true -> gs s ->
     top_res (evalf fuel (TkWhile fi env0 e b) s) s (fun n => run4 n (st_globals s) (CBin BWhile e b))).

Lemma eval4 fuel : all4 fuel.
Proof.
  induction fuel as [|f (IH1 & IH2 & IH3)].
  { split; [|split]; intros; left; reflexivity. }
  split; [|split].
  - (* a statement *)
    intros c st Hc Hs. unfold top_res.
    destruct c; cbn [stmt4] in Hc; try discriminate Hc.
    + (* CBin *)
      destruct op; try discriminate Hc; apply andb_true_iff in Hc; destruct Hc as [He Hb];
        cbn [eval]; unfold F; (destruct (limit <? st_steps st)%N; [left; reflexivity|]);
        pose proof (gs_bump _ Hs) as Hbs; cbn [eval_card].
      * (* IfTrue *)
        pose proof (eval_cond P host limit fi _ He f (bump st) Hbs) as [E|[(v & s1 & E & Hv & Hsv & Hg1 & Hs1)|(s1 & E & Hv & Hg1 & Hs1)]];
          cbn zeta in E; rewrite E; cbn [bnd ok err one bump st_globals] in *.
        -- left; reflexivity.
        -- rewrite (v_bool_simple _ _ Hsv). destruct (v_bool [] v) eqn:Eb.
           ++ destruct (IH1 c2 s1 Hb Hs1) as [E2|[(n & s2 & E2 & Hr & Hs2)|(n & s2 & E2 & Hr & Hs2)]]; rewrite E2.
              ** left; reflexivity.
              ** right; left. exists (S n), s2. cbn [run4]. rewrite Hv, Eb, <- Hg1. auto.
              ** right; right. exists (S n), s2. cbn [run4]. rewrite Hv, Eb, <- Hg1. auto.
           ++ right; left. exists 1%nat, s1. cbn [run4]. rewrite Hv, Eb, Hg1. auto.
        -- right; right. exists 1%nat, s1. cbn [run4]. rewrite Hv, Hg1. auto.
      * (* IfFalse *)
        pose proof (eval_cond P host limit fi _ He f (bump st) Hbs) as [E|[(v & s1 & E & Hv & Hsv & Hg1 & Hs1)|(s1 & E & Hv & Hg1 & Hs1)]];
          cbn zeta in E; rewrite E; cbn [bnd ok err one bump st_globals] in *.
        -- left; reflexivity.
        -- rewrite (v_bool_simple _ _ Hsv). destruct (v_bool [] v) eqn:Eb.
           ++ right; left. exists 1%nat, s1. cbn [run4]. rewrite Hv, Eb, Hg1. auto.
           ++ destruct (IH1 c2 s1 Hb Hs1) as [E2|[(n & s2 & E2 & Hr & Hs2)|(n & s2 & E2 & Hr & Hs2)]]; rewrite E2.
              ** left; reflexivity.
              ** right; left. exists (S n), s2. cbn [run4]. rewrite Hv, Eb, <- Hg1. auto.
              ** right; right. exists (S n), s2. cbn [run4]. rewrite Hv, Eb, <- Hg1. auto.
        -- right; right. exists 1%nat, s1. cbn [run4]. rewrite Hv, Hg1. auto.
      * (* While *)
        pose proof (IH3 c1 c2 (bump st) He Hb Hbs) as H. cbn [bump st_globals] in H.
        destruct H as [E|[(n & s2 & E2 & Hr & Hs2)|(n & s2 & E2 & Hr & Hs2)]].
        -- left; exact E.
        -- right; left. exists (S n), s2. split; [exact E2|]. split; [|exact Hs2]. eapply run4_mono; [exact Hr | lia].
        -- right; right. exists (S n), s2. split; [exact E2|]. split; [|exact Hs2]. eapply run4_mono; [exact Hr | lia].
    + (* IfElse *)
      destruct op; try discriminate Hc. apply andb_true_iff in Hc. destruct Hc as [Hc Hb].
      apply andb_true_iff in Hc. destruct Hc as [He Ha].
      cbn [eval]; unfold F; (destruct (limit <? st_steps st)%N; [left; reflexivity|]).
      pose proof (gs_bump _ Hs) as Hbs; cbn [eval_card].
      pose proof (eval_cond P host limit fi _ He f (bump st) Hbs) as [E|[(v & s1 & E & Hv & Hsv & Hg1 & Hs1)|(s1 & E & Hv & Hg1 & Hs1)]];
        cbn zeta in E; rewrite E; cbn [bnd ok err one bump st_globals] in *.
      * left; reflexivity.
      * rewrite (v_bool_simple _ _ Hsv). destruct (v_bool [] v) eqn:Eb.
        -- destruct (IH1 c2 s1 Ha Hs1) as [E2|[(n & s2 & E2 & Hr & Hs2)|(n & s2 & E2 & Hr & Hs2)]]; rewrite E2.
           ++ left; reflexivity.
           ++ right; left. exists (S n), s2. cbn [run4]. rewrite Hv, Eb, <- Hg1. auto.
           ++ right; right. exists (S n), s2. cbn [run4]. rewrite Hv, Eb, <- Hg1. auto.
        -- destruct (IH1 c3 s1 Hb Hs1) as [E2|[(n & s2 & E2 & Hr & Hs2)|(n & s2 & E2 & Hr & Hs2)]]; rewrite E2.
           ++ left; reflexivity.
           ++ right; left. exists (S n), s2. cbn [run4]. rewrite Hv, Eb, <- Hg1. auto.
           ++ right; right. exists (S n), s2. cbn [run4]. rewrite Hv, Eb, <- Hg1. auto.
      * right; right. exists 1%nat, s1. cbn [run4]. rewrite Hv, Hg1. auto.
    + (* Comment *)
      pose proof (eval_stmt P host limit fi (CComment s) eq_refl (S f) st Hs) as [E|[(s1 & E & Hr & Hs1)|(s1 & E & Hr & Hs1)]].
      * left; exact E.
      * right; left. exists 1%nat, s1. cbn [run_cards] in Hr. injection Hr as Hr. cbn [run4]. rewrite Hr. auto.
      * cbn [run_cards] in Hr. discriminate Hr.
    + (* SetGlobalVar *)
      pose proof (eval_stmt P host limit fi (CSetGlobalVar name c) Hc (S f) st Hs) as [E|[(s1 & E & Hr & Hs1)|(s1 & E & Hr & Hs1)]];
        [left; exact E | right; left | right; right]; exists 1%nat, s1; cbn [run_cards run4] in *;
        destruct (ev (st_globals st) c); try discriminate Hr; injection Hr as Hr; rewrite Hr; auto.
    + (* Composite *)
      cbn [eval]; unfold F; (destruct (limit <? st_steps st)%N; [left; reflexivity|]).
      pose proof (gs_bump _ Hs) as Hbs; cbn [eval_card].
      destruct (IH2 cards (bump st) Hc Hbs) as [E|[(n & s2 & E2 & Hr & Hs2)|(n & s2 & E2 & Hr & Hs2)]];
        cbn [bump st_globals] in *.
      * left; exact E.
      * right; left. exists (S n), s2. rewrite run4_composite. auto.
      * right; right. exists (S n), s2. rewrite run4_composite. auto.
  - (* a sequence *)
    intros cs st Hc Hs. unfold top_res. cbn [eval]; unfold F.
    destruct (limit <? st_steps st)%N; [left; reflexivity|]. pose proof (gs_bump _ Hs) as Hbs.
    destruct cs as [|c r].
    + right; left. exists 0%nat, (bump st). cbn. auto.
    + cbn [forallb] in Hc. apply andb_true_iff in Hc. destruct Hc as [Hc Hr].
      destruct (IH1 c (bump st) Hc Hbs) as [E|[(n1 & s1 & E & Hr1 & Hs1)|(n1 & s1 & E & Hr1 & Hs1)]];
        rewrite E; cbn [bnd ok err bump st_globals] in *.
      * left; reflexivity.
      * destruct (IH2 r s1 Hr Hs1) as [E2|[(n2 & s2 & E2 & Hr2 & Hs2)|(n2 & s2 & E2 & Hr2 & Hs2)]];
          rewrite E2; cbn [bnd ok err app].
        -- left; reflexivity.
        -- right; left. exists (Nat.max n1 n2), s2. split; [reflexivity|]. split; [|exact Hs2].
           cbn [runs4]. rewrite (run4_mono _ (Nat.max n1 n2) _ _ _ Hr1) by lia.
           eapply runs4_mono; [exact Hr2 | lia].
        -- right; right. exists (Nat.max n1 n2), s2. split; [reflexivity|]. split; [|exact Hs2].
           cbn [runs4]. rewrite (run4_mono _ (Nat.max n1 n2) _ _ _ Hr1) by lia.
           eapply runs4_mono; [exact Hr2 | lia].
      * right; right. exists n1, s1. split; [reflexivity|]. split; [|exact Hs1]. cbn [runs4]. rewrite Hr1. reflexivity.
  - (* a loop *)
    intros e b st He Hb Hs. unfold top_res. cbn [eval]; unfold F.
    destruct (limit <? st_steps st)%N; [left; reflexivity|]. pose proof (gs_bump _ Hs) as Hbs.
    pose proof (eval_cond P host limit fi _ He f (bump st) Hbs) as [E|[(v & s1 & E & Hv & Hsv & Hg1 & Hs1)|(s1 & E & Hv & Hg1 & Hs1)]];
      cbn zeta in E; rewrite E; cbn [bnd ok err one bump st_globals] in *.
    + left; reflexivity.
    + rewrite (v_bool_simple _ _ Hsv). destruct (v_bool [] v) eqn:Eb.
      * destruct (IH1 b s1 Hb Hs1) as [E2|[(n1 & s2 & E2 & Hr1 & Hs2)|(n1 & s2 & E2 & Hr1 & Hs2)]];
          rewrite E2; cbn [bnd ok err].
        -- left; reflexivity.
        -- destruct (IH3 e b s2 He Hb Hs2) as [E3|[(n2 & s3 & E3 & Hr2 & Hs3)|(n2 & s3 & E3 & Hr2 & Hs3)]]; rewrite E3.
           ++ left; reflexivity.
           ++ right; left. exists (S (Nat.max n1 n2)), s3. split; [reflexivity|]. split; [|exact Hs3].
              cbn [run4]. rewrite Hv, Eb, <- Hg1. rewrite (run4_mono _ (Nat.max n1 n2) _ _ _ Hr1) by lia.
              eapply run4_mono; [exact Hr2 | lia].
           ++ right; right. exists (S (Nat.max n1 n2)), s3. split; [reflexivity|]. split; [|exact Hs3].
              cbn [run4]. rewrite Hv, Eb, <- Hg1. rewrite (run4_mono _ (Nat.max n1 n2) _ _ _ Hr1) by lia.
              eapply run4_mono; [exact Hr2 | lia].
        -- right; right. exists (S n1), s2. split; [reflexivity|]. split; [|exact Hs2].
           cbn [run4]. rewrite Hv, Eb, <- Hg1, Hr1. reflexivity.
      * right; left. exists 1%nat, s1. cbn [run4]. rewrite Hv, Eb, Hg1. auto.
    + right; right. exists 1%nat, s1. cbn [run4]. rewrite Hv, Hg1. auto.
Qed.
End Eval.

Theorem eval_program_f4 fuel M host o :
  in_f4 M = true -> eval_program fuel M host = PObs o ->
  exists n g, runs4 n [] (main_cards M) = Some (match ob_kind o with KOk => true | _ => false end, g) /\
              (ob_kind o = KOk \/ ob_kind o = KErr EVarNotFound) /\
              Forall (fun nv => simple (snd nv)) g /\
              ob_globals o = map (fun nv => (fst nv, vm_tree (to_vm (snd nv)))) g.
Proof.
  intros HM. destruct M as [subs funs imps]. cbn [in_f4] in HM.
  destruct subs; [|discriminate]. destruct funs as [|[name f] [|]]; try discriminate.
  destruct imps; [|discriminate].
  apply andb_true_iff in HM. destruct HM as [HM Hcards]. apply andb_true_iff in HM. destruct HM as [Hname _].
  apply str_eqb_main in Hname. subst name.
  destruct flatten_std_some as [stdl Hstd].
  unfold eval_program, program_of, add_std. cbn [app].
  change 64%nat with (S 63). rewrite (flatten_f1 63 f stdl Hstd).
  cbn [find_index fe_name]. change (str_eqb s_main s_main) with true. cbv iota.
  cbn [nth_error fe_fn main_cards].
  set (P := _ :: stdl).
  intros H.
  assert (Hgs : gs init_state) by (split; [reflexivity | constructor]).
  destruct (eval4 P host (step_limit fuel) 0 fuel) as (_ & H2 & _).
  pose proof (H2 _ _ Hcards Hgs) as [E|[(n & s1 & E & Hrun & Hs1)|(n & s1 & E & Hrun & Hs1)]];
    fold env0 in H; rewrite E in H; cbn [ok err] in H; try discriminate H.
  - injection H as <-. exists n, (st_globals s1). cbn [ob_kind ob_globals observe]. destruct Hs1 as [Hh Hg].
    repeat split; auto. rewrite Hh. apply map_ext_in. intros [x v] Hin.
    rewrite Forall_forall in Hg. pose proof (Hg _ Hin) as Hv. cbn [snd] in Hv.
    destruct v; try contradiction; reflexivity.
  - injection H as <-. exists n, (st_globals s1). cbn [ob_kind ob_globals observe]. destruct Hs1 as [Hh Hg].
    repeat split; auto. rewrite Hh. apply map_ext_in. intros [x v] Hin.
    rewrite Forall_forall in Hg. pose proof (Hg _ Hin) as Hv. cbn [snd] in Hv.
    destruct v; try contradiction; reflexivity.
Qed.
