(* C04 - "running is total", Part E.8: the call stack.  Every instruction except CallFunction (11), Return (22) and
   the natives leaves the call stack as it is, also in its error results; CallFunction rewrites the top frame and
   may push one; Return pops one.  Consequence: the call stack of a result is not empty, provided Return runs
   with at least two frames. *)
From Coq Require Import NArith ZArith List Lia Bool.
From Cao Require Import ListUtil Bits Stacks Vm VmProofs C04VmProofs C04VmProofs2 C04VmProofs3 C04VmProofs4 C04VmProofs5
  C04VmProofs8 C04VmProofs9.
Import ListNotations.

Lemma spop_calls s s1 v : spop s = (s1, v) -> st_calls s1 = st_calls s.
Proof. unfold spop. destruct (vs_pop _ _); intros H; inversion H; reflexivity. Qed.
Lemma spush_calls s v s1 : spush s v = Some s1 -> st_calls s1 = st_calls s.
Proof. unfold spush. destruct (vs_push _ _) as [k []]; intros H; inversion H; reflexivity. Qed.
Lemma sset_calls s i v s1 : sset s i v = Some s1 -> st_calls s1 = st_calls s.
Proof. unfold sset. destruct (vs_step _ _ _) as [k []]; intros H; inversion H; reflexivity. Qed.
Lemma write_local_calls s off h v s1 : write_local s off h v = Some s1 -> st_calls s1 = st_calls s.
Proof. apply sset_calls. Qed.
Lemma sclear_until_calls s h s1 v : sclear_until s h = (s1, v) -> st_calls s1 = st_calls s.
Proof. unfold sclear_until. destruct (vs_step _ _ _) as [k []]; intros H; inversion H; reflexivity. Qed.
Lemma spop_w_offset_calls s h s1 v : spop_w_offset s h = (s1, v) -> st_calls s1 = st_calls s.
Proof. unfold spop_w_offset. destruct (vs_step _ _ _) as [k []]; intros H; inversion H; reflexivity. Qed.
Lemma push_next_calls ip s v s' : res_st (push_next ip s v) = Some s' -> st_calls s' = st_calls s.
Proof.
  unfold push_next, spush. destruct (vs_push _ _) as [k []]; cbn [res_st]; intros H; inversion H; reflexivity.
Qed.

Ltac note_calls :=
  repeat match goal with
         | H : spush _ _ = Some _ |- _ => apply spush_calls in H
         | H : spop _ = (_, _) |- _ => apply spop_calls in H
         | H : sset _ _ _ = Some _ |- _ => apply sset_calls in H
         | H : sclear_until _ _ = (_, _) |- _ => apply sclear_until_calls in H
         | H : spop_w_offset _ _ = (_, _) |- _ => apply spop_w_offset_calls in H
         | H : write_local _ _ _ _ = Some _ |- _ => apply write_local_calls in H
         | H : res_st (push_next _ _ _) = Some _ |- _ => apply push_next_calls in H
         end.

Ltac calls_done H :=
  try unfold salloc, halloc in H; crack H; cbn [res_st] in H; try (inversion H; subst; clear H); note_calls;
  try unfold set_table in *;
  cbn [st_calls set_calls set_globals set_stack set_open set_log set_heap spop_n sraw_set] in *; congruence.

Lemma close_upvalues_go_calls : forall fuel top s,
  match close_upvalues_go fuel top s with
  | ClOk s' | ClErr _ s' => st_calls s' = st_calls s
  | ClStop _ _ => True
  end.
Proof.
  induction fuel as [|f IH]; intros top s; cbn [close_upvalues_go]; [exact I|].
  destruct (st_open s) as [a|]; [|reflexivity].
  destruct (hget (st_heap s) a) as [[| | | | |u]|]; try exact I; try reflexivity.
  destruct (u_loc u) as [l|]; [|exact I]. destruct (l <? top); [reflexivity|].
  match goal with |- match close_upvalues_go f top ?x with _ => _ end => specialize (IH top x) end.
  destruct (close_upvalues_go f top _); try exact I; exact IH.
Qed.

Section Calls.
Variable F : fops.
Variable bld : build.
Variable P : program.
Variable reenter : N -> state -> rres.

Lemma binary_op_calls ip s op s' : res_st (binary_op ip s op) = Some s' -> st_calls s' = st_calls s.
Proof. unfold binary_op, of_vres. intros H. calls_done H. Qed.
Lemma i_5_calls opc ip0 ip s s' : res_st (i_5 P opc ip0 ip s) = Some s' -> st_calls s' = st_calls s.
Proof. unfold i_5. intros H. calls_done H. Qed.
Lemma i_6_calls opc ip0 ip s s' : res_st (i_6 P opc ip0 ip s) = Some s' -> st_calls s' = st_calls s.
Proof. unfold i_6. intros H. calls_done H. Qed.
Lemma i_8_calls opc ip0 ip s s' : res_st (i_8 P opc ip0 ip s) = Some s' -> st_calls s' = st_calls s.
Proof. unfold i_8. intros H. calls_done H. Qed.
Lemma i_17_calls opc ip0 ip s s' : res_st (i_17 P opc ip0 ip s) = Some s' -> st_calls s' = st_calls s.
Proof. unfold i_17. intros H. calls_done H. Qed.
Lemma i_18_calls opc ip0 ip s s' : res_st (i_18 P opc ip0 ip s) = Some s' -> st_calls s' = st_calls s.
Proof. unfold i_18. intros H. calls_done H. Qed.
Lemma i_19_calls opc ip0 ip s s' : res_st (i_19 P opc ip0 ip s) = Some s' -> st_calls s' = st_calls s.
Proof. unfold i_19. intros H. calls_done H. Qed.
Lemma i_20_calls opc ip0 ip s s' : res_st (i_20 P opc ip0 ip s) = Some s' -> st_calls s' = st_calls s.
Proof. unfold i_20. intros H. calls_done H. Qed.
Lemma i_21_calls opc ip0 ip s s' : res_st (i_21 opc ip0 ip s) = Some s' -> st_calls s' = st_calls s.
Proof.
  unfold i_21. intros H. destruct (top_offset s) as [off|]; [|discriminate]. cbn [res_st] in H. inversion H; subst.
  unfold sclear_until. cbn [vs_step fst set_stack st_calls]. reflexivity.
Qed.
Lemma i_23_calls opc ip0 ip s s' : res_st (i_23 opc ip0 ip s) = Some s' -> st_calls s' = st_calls s.
Proof. unfold i_23. intros H. calls_done H. Qed.
Lemma i_27_calls opc ip0 ip s s' : res_st (i_27 F opc ip0 ip s) = Some s' -> st_calls s' = st_calls s.
Proof. unfold i_27. intros H. calls_done H. Qed.
Lemma i_28_calls opc ip0 ip s s' : res_st (i_28 bld P opc ip0 ip s) = Some s' -> st_calls s' = st_calls s.
Proof. unfold i_28. intros H. calls_done H. Qed.
Lemma i_29_30_calls opc ip0 ip s s' : res_st (i_29_30 F bld P opc ip0 ip s) = Some s' -> st_calls s' = st_calls s.
Proof. unfold i_29_30. intros H. calls_done H. Qed.
Lemma i_31_calls opc ip0 ip s s' : res_st (i_31 opc ip0 ip s) = Some s' -> st_calls s' = st_calls s.
Proof. unfold i_31. intros H. calls_done H. Qed.
Lemma i_32_calls opc ip0 ip s s' : res_st (i_32 F opc ip0 ip s) = Some s' -> st_calls s' = st_calls s.
Proof. unfold i_32. intros H. calls_done H. Qed.
Lemma i_33_calls opc ip0 ip s s' : res_st (i_33 F opc ip0 ip s) = Some s' -> st_calls s' = st_calls s.
Proof. unfold i_33. intros H. calls_done H. Qed.
Lemma i_34_calls opc ip0 ip s s' : res_st (i_34 opc ip0 ip s) = Some s' -> st_calls s' = st_calls s.
Proof. unfold i_34. intros H. calls_done H. Qed.
Lemma i_35_calls opc ip0 ip s s' : res_st (i_35 P opc ip0 ip s) = Some s' -> st_calls s' = st_calls s.
Proof. unfold i_35. intros H. calls_done H. Qed.
Lemma i_36_calls opc ip0 ip s s' : res_st (i_36 F bld P opc ip0 ip s) = Some s' -> st_calls s' = st_calls s.
Proof. unfold i_36. intros H. calls_done H. Qed.
Lemma i_37_42_calls opc ip0 ip s s' : res_st (i_37_42 P opc ip0 ip s) = Some s' -> st_calls s' = st_calls s.
Proof. unfold i_37_42. intros H. calls_done H. Qed.
Lemma i_38_calls opc ip0 ip s s' : res_st (i_38 P opc ip0 ip s) = Some s' -> st_calls s' = st_calls s.
Proof. unfold i_38. intros H. calls_done H. Qed.
Lemma i_39_calls opc ip0 ip s s' : res_st (i_39 F opc ip0 ip s) = Some s' -> st_calls s' = st_calls s.
Proof.
  intros H. unfold i_39 in H.
  assert (Hsame : forall e ip1, res_st (SErr e ip1 (spop_n s 2)) = Some s' -> st_calls s' = st_calls s).
  { intros e ip1 E. cbn [res_st] in E. inversion E; subst. reflexivity. }
  destruct (get_table (st_heap (spop_n s 2)) (speek s 1)) as [a t| |] eqn:Eg;
    [|eapply Hsame; exact H|cbn [res_st] in H; discriminate H].
  destruct (speek s 0) as [|i| |]; try (eapply Hsame; exact H).
  destruct (i <? 0)%Z; [eapply Hsame; exact H|].
  destruct (if (i <? Z.of_nat (length (tkeys t)))%Z
            then tget (veq0 F (st_heap (spop_n s 2))) t
                   (if (i <? Z.of_nat (length (tkeys t)))%Z then tnth_key t (Z.to_nat i) else VNil)
            else Some None) as [r|] eqn:Er; [|cbn [res_st] in H; discriminate H].
  destruct (salloc (spop_n s 2) (OTable (mkTable [] []))) as [s3 row] eqn:E3.
  destruct (salloc s3 (OStr str_key)) as [s4 ka] eqn:E4.
  destruct (salloc s4 (OStr str_value)) as [s5 va] eqn:E5.
  unfold salloc, halloc in E3, E4, E5. inversion E3; subst s3 row; clear E3. inversion E4; subst s4 ka; clear E4.
  inversion E5; subst s5 va; clear E5.
  destruct (tinsert _ (mkTable [] []) _ _) as [t1|] eqn:T1; [|cbn [res_st] in H; discriminate H].
  destruct (tinsert _ t1 _ _) as [t2|] eqn:T2; [|cbn [res_st] in H; discriminate H].
  apply push_next_calls in H. rewrite H. reflexivity.
Qed.
Lemma i_40_calls opc ip0 ip s s' : res_st (i_40 F opc ip0 ip s) = Some s' -> st_calls s' = st_calls s.
Proof. unfold i_40. intros H. calls_done H. Qed.
Lemma i_41_calls opc ip0 ip s s' : res_st (i_41 F opc ip0 ip s) = Some s' -> st_calls s' = st_calls s.
Proof. unfold i_41. intros H. calls_done H. Qed.
Lemma i_43_44_calls opc ip0 ip s s' : res_st (i_43_44 P opc ip0 ip s) = Some s' -> st_calls s' = st_calls s.
Proof. unfold i_43_44. intros H. destruct (opc =? 43)%N; calls_done H. Qed.
Lemma i_45_calls opc ip0 ip s s' : res_st (i_45 P opc ip0 ip s) = Some s' -> st_calls s' = st_calls s.
Proof. unfold i_45. intros H. calls_done H. Qed.
Lemma i_46_calls opc ip0 ip s s' : res_st (i_46 P opc ip0 ip s) = Some s' -> st_calls s' = st_calls s.
Proof.
  unfold i_46. intros H. destruct (op_u32 P ip) as [idx|]; [|discriminate]. destruct (top_offset s) as [off|]; [|discriminate].
  pose proof (close_upvalues_go_calls (S (length (st_heap s))) (off + N.to_nat idx) s) as Ec.
  unfold close_upvalues_from in H. destruct (close_upvalues_go _ _ _) as [s2|e s2|]; [| |discriminate H];
    cbn [res_st] in H; inversion H; subst; exact Ec.
Qed.

(* Return: one frame is popped *)
Lemma i_22_calls opc ip0 ip s s' : res_st (i_22 opc ip0 ip s) = Some s' ->
  st_calls s' = st_calls s \/ exists fr, st_calls s = fr :: st_calls s'.
Proof.
  unfold i_22. intros H. destruct (st_calls s) as [|fr rest] eqn:Ecs; [cbn [res_st] in H; inversion H; subst; left; congruence|].
  cbv zeta in H. right. exists fr. f_equal.
  pose proof (close_upvalues_go_calls (S (length (st_heap (set_calls s rest)))) (N.to_nat (fr_off fr)) (set_calls s rest)) as Ec.
  unfold close_upvalues_from in H. destruct (close_upvalues_go _ _ _) as [s2|e s2|]; [| |discriminate H].
  - cbn [set_calls st_calls] in Ec. destruct (sclear_until s2 _) as [s3 v] eqn:E3. apply sclear_until_calls in E3.
    destruct rest; [cbn [res_st] in H; inversion H; subst; congruence|].
    apply push_next_calls in H. congruence.
  - cbn [res_st set_calls st_calls] in *. inversion H; subst. congruence.
Qed.

(* CallFunction of a script function or closure: the call stack does not shrink *)
Lemma i_11_calls opc ip0 ip s s' :
  (forall a h, top1 s = VObj a -> hget (st_heap s) a <> Some (ONative h)) ->
  res_st (i_11 F P reenter opc ip0 ip s) = Some s' -> st_calls s <> [] -> st_calls s' <> [].
Proof.
  unfold i_11, top1. intros Hn H Hc. destruct (spop s) as [s1 fv] eqn:E1. cbn [snd] in Hn.
  pose proof (spop_calls _ _ _ E1) as Hca. pose proof (spop_heap _ _ _ E1) as Hh.
  assert (Herr : forall e ip1, res_st (SErr e ip1 s1) = Some s' -> st_calls s' <> []).
  { intros e ip1 E. cbn [res_st] in E. inversion E; subst. rewrite Hca. exact Hc. }
  destruct fv as [| | |a]; try (eapply Herr; exact H).
  destruct (hget (st_heap s1) a) as [o|] eqn:Ea; [|discriminate H].
  assert (Hgo : forall arity label clo,
    res_st (match st_calls s1 with
            | [] => SStop APanic s1
            | top :: rest =>
                let s2 := set_calls s1 (mkFrame (fr_src top) ip (fr_off top) (fr_clo top) :: rest) in
                let len := N.of_nat (scount s2) in
                if (len <? arity)%N then SErr EMissingArgument ip s2
                else match push_frame s2 (mkFrame ip0 ip (len - arity) clo) with
                     | None => SErr ECallStackOverflow ip s2
                     | Some s3 => match assoc label (p_labels P) with
                                  | None => SErr (EProcedureNotFound label) ip s3
                                  | Some pos => SNext pos s3
                                  end
                     end
            end) = Some s' -> st_calls s' <> []).
  { intros arity label clo E. destruct (st_calls s1) as [|top rest]; [discriminate E|]. cbv zeta in E.
    destruct (_ <? arity)%N; [cbn [res_st] in E; inversion E; subst; discriminate|].
    unfold push_frame in E. destruct (_ <=? _); [cbn [res_st] in E; inversion E; subst; discriminate|].
    destruct (assoc label (p_labels P)); cbn [res_st] in E; inversion E; subst; discriminate. }
  destruct o; try (eapply Herr; exact H).
  - eapply Hgo; exact H.
  - exfalso. apply (Hn a h eq_refl). rewrite <- Hh. exact Ea.
  - eapply Hgo; exact H.
Qed.

End Calls.

(* the call stack after any instruction that is not a native call *)
Theorem step_calls_nonempty : forall F bld P reenter ip0 s s',
  res_st (step F bld P reenter ip0 s) = Some s' -> st_calls s <> [] ->
  (opcode_at P ip0 = 22%N -> 2 <= length (st_calls s)) ->
  opcode_at P ip0 <> 4%N ->
  (opcode_at P ip0 = 11%N -> forall a h, top1 s = VObj a -> hget (st_heap s) a <> Some (ONative h)) ->
  st_calls s' <> [].
Proof.
  intros F bld P reenter ip0 s s' H Hc H22 H4 H11. unfold step in H. cbv zeta in H.
  fold (opcode_at P ip0) in H. remember (opcode_at P ip0) as k eqn:Ek.
  assert (Heq : forall c, c = st_calls s -> c <> []) by (intros c ->; exact Hc).
  destruct k as [|p]; [|do 6 (try destruct p as [p|p|])]; try discriminate H;
    try (exfalso; apply H4; reflexivity).
  all: try (match type of H with res_st (SExit _) = _ => cbn [res_st] in H; inversion H; subst; exact Hc end).
  all: try (apply Heq;
    match type of H with
    | context [binary_op] => eapply binary_op_calls; exact H
    | context [i_5] => eapply i_5_calls; exact H
    | context [i_6] => eapply i_6_calls; exact H
    | context [i_8] => eapply i_8_calls; exact H
    | context [i_17] => eapply i_17_calls; exact H
    | context [i_18] => eapply i_18_calls; exact H
    | context [i_19] => eapply i_19_calls; exact H
    | context [i_20] => eapply i_20_calls; exact H
    | context [i_21] => eapply i_21_calls; exact H
    | context [i_23] => eapply i_23_calls; exact H
    | context [i_27] => eapply i_27_calls; exact H
    | context [i_28] => eapply i_28_calls; exact H
    | context [i_29_30] => eapply i_29_30_calls; exact H
    | context [i_31] => eapply i_31_calls; exact H
    | context [i_32] => eapply i_32_calls; exact H
    | context [i_33] => eapply i_33_calls; exact H
    | context [i_34] => eapply i_34_calls; exact H
    | context [i_35] => eapply i_35_calls; exact H
    | context [i_36] => eapply i_36_calls; exact H
    | context [i_37_42] => eapply i_37_42_calls; exact H
    | context [i_38] => eapply i_38_calls; exact H
    | context [i_39] => eapply i_39_calls; exact H
    | context [i_40] => eapply i_40_calls; exact H
    | context [i_41] => eapply i_41_calls; exact H
    | context [i_43_44] => eapply i_43_44_calls; exact H
    | context [i_45] => eapply i_45_calls; exact H
    | context [i_46] => eapply i_46_calls; exact H
    | context [push_next] => eapply push_next_calls; exact H
    end).
  all: try (match type of H with
    | context [i_11] => eapply i_11_calls; [apply H11; reflexivity | exact H | exact Hc]
    | context [i_22] =>
        destruct (i_22_calls _ _ _ _ _ H) as [E|[fr E]]; [rewrite E; exact Hc|];
        specialize (H22 eq_refl); rewrite E in H22; cbn [length] in H22; destruct (st_calls s'); [cbn in H22; lia | discriminate]
    end).
  (* Pop *)
  cbn [res_st] in H. inversion H; subst. apply Heq. destruct (spop s) as [s1 v] eqn:E. cbn [fst]. eapply spop_calls; eauto.
Qed.
