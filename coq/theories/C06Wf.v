(* C06: the states the reference semantics reaches are WELL FORMED: every cell an environment or
   a closure record mentions is allocated.  This discharges the hypothesis of
   [C06Proofs.cell_outlives_scope] for every closure of every state reachable from [init_state]. *)
From Coq Require Import List NArith ZArith Bool Arith Lia.
From Cao Require Import CheckUtil CardAst Table RefSem RefSemProofs C06Proofs.
Import ListNotations.

Definition scope_ok (n : nat) (sc : scope) : Prop := Forall (fun p => snd p < n) sc.
Definition scopes_ok (n : nat) (l : list scope) : Prop := Forall (scope_ok n) l.
Definition env_ok (n : nat) (e : env) : Prop := scopes_ok n (e_scopes e) /\ scopes_ok n (e_up e).
Definition clos_ok (n : nat) (l : list closure_rec) : Prop := Forall (fun cl => scopes_ok n (cl_up cl)) l.
Definition st_ok (s : state) : Prop := clos_ok (length (st_cells s)) (st_clos s).

Definition task_env (t : task) : option env :=
  match t with
  | TkCard _ e _ | TkSeq _ e _ | TkArgs _ _ e _ | TkWhile _ e _ _ | TkRepeat _ e _ _ _ _
  | TkForEach _ e _ _ _ _ _ _ => Some e
  | _ => None
  end.
Definition task_ok (s : state) (t : task) : Prop :=
  match task_env t with Some e => env_ok (length (st_cells s)) e | None => True end.
Definition wf (r : res) : Prop :=
  match r with ROk _ e s => st_ok s /\ env_ok (length (st_cells s)) e | _ => True end.

Lemma scope_ok_mono n m sc : n <= m -> scope_ok n sc -> scope_ok m sc.
Proof. intros H. apply Forall_impl. intros p Hp. lia. Qed.
Lemma scopes_ok_mono n m l : n <= m -> scopes_ok n l -> scopes_ok m l.
Proof. intros H. apply Forall_impl. intros sc. apply scope_ok_mono. exact H. Qed.
Lemma env_ok_mono n m e : n <= m -> env_ok n e -> env_ok m e.
Proof. intros H [A B]. split; eapply scopes_ok_mono; eauto. Qed.
Lemma clos_ok_mono n m l : n <= m -> clos_ok n l -> clos_ok m l.
Proof. intros H. apply Forall_impl. intros cl. apply scopes_ok_mono. exact H. Qed.

Lemma env_ok_empty n : env_ok n empty_env.
Proof. split; constructor. Qed.
Lemma env_ok_push n e : env_ok n e -> env_ok n (push_scope e).
Proof. intros [A B]. split; [constructor; [constructor | exact A] | exact B]. Qed.

Lemma ext_len s s' : ext s s' -> length (st_cells s) <= length (st_cells s').
Proof. intros [H _]; exact H. Qed.

(* a state that has the cells (at least) and the closure records of an ok state *)
Lemma st_ok_same s s' :
  length (st_cells s) <= length (st_cells s') -> st_clos s' = st_clos s -> st_ok s -> st_ok s'.
Proof. unfold st_ok. intros H E Hs. rewrite E. eapply clos_ok_mono; eauto. Qed.

Lemma declare_ok n v e s e' s' :
  declare n v e s = (e', s') -> st_ok s -> env_ok (length (st_cells s)) e ->
  st_ok s' /\ env_ok (length (st_cells s')) e'.
Proof.
  unfold declare, alloc_cell. intros E Hs [A B]. inversion E; subst; clear E.
  assert (Hl : length (st_cells s) < length (st_cells s ++ [v])) by (rewrite app_length; cbn; lia).
  split.
  - apply (st_ok_same s); [cbn; lia | reflexivity | exact Hs].
  - split; cbn [e_scopes e_up st_cells set_cells].
    + destruct (e_scopes e) as [|sc r].
      * constructor; [|constructor]. constructor; [cbn; lia | constructor].
      * inversion A; subst. constructor.
        -- constructor; [cbn; lia|]. eapply scope_ok_mono; [|eassumption]. lia.
        -- eapply scopes_ok_mono; [|eassumption]. lia.
    + eapply scopes_ok_mono; [|exact B]. lia.
Qed.
Lemma declare_opt_ok n v e s e' s' :
  declare_opt n v e s = (e', s') -> st_ok s -> env_ok (length (st_cells s)) e ->
  st_ok s' /\ env_ok (length (st_cells s')) e'.
Proof.
  destruct n as [n|]; cbn [declare_opt]; [apply declare_ok|]. intros E; inversion E; subst. auto.
Qed.

Lemma bind_fold_ok l : forall acc s sc s1,
  fold_left bind_step l (acc, s) = (sc, s1) -> st_ok s -> scope_ok (length (st_cells s)) acc ->
  st_ok s1 /\ scope_ok (length (st_cells s1)) sc.
Proof.
  induction l as [|[p a] l IH]; intros acc s sc s1 E Hs Ha; cbn in E.
  - inversion E; subst. auto.
  - eapply IH; [exact E | |].
    + apply (st_ok_same s); [cbn; rewrite app_length; lia | reflexivity | exact Hs].
    + cbn. rewrite app_length. cbn. apply Forall_app. split.
      * eapply scope_ok_mono; [|exact Ha]. lia.
      * constructor; [cbn; lia | constructor].
Qed.
Lemma bind_params_ok params args s sc s1 :
  bind_params params args s = (sc, s1) -> st_ok s -> st_ok s1 /\ scope_ok (length (st_cells s1)) sc.
Proof. unfold bind_params. intros E Hs. eapply bind_fold_ok; [exact E | exact Hs | constructor]. Qed.

Lemma wf_finish_call r : match r with ROk _ _ s => st_ok s | _ => True end -> wf (finish_call r).
Proof.
  destruct r as [| |o e s]; cbn; try exact (fun x => x).
  destruct o; cbn; intros H; (split; [exact H | apply env_ok_empty]).
Qed.

Section Wf.
  Variable P : list fentry.
  Variable host : list str.
  Variable limit : N.
  Variable rec : task -> state -> res.
  Hypothesis HrecE : forall t s, good s (rec t s).
  Hypothesis Hrec : forall t s, st_ok s -> task_ok s t -> wf (rec t s).

  (* [pre s e]: what every step starts from *)
  Definition pre (s : state) (e : env) : Prop := st_ok s /\ env_ok (length (st_cells s)) e.

  Lemma wf_ok vs e s : pre s e -> wf (ok vs e s).
  Proof. intros H; exact H. Qed.
  Lemma wf_err k e s : pre s e -> wf (err k e s).
  Proof. intros H; exact H. Qed.

  (* continue after a recursive evaluation: the result state extends s, it is ok, so is its env *)
  Lemma wf_bnd_rec t s k :
    st_ok s -> task_ok s t ->
    (forall vs e1 s1, ext s s1 -> pre s1 e1 -> wf (k vs e1 s1)) -> wf (bnd (rec t s) k).
  Proof.
    intros Hs Ht Hk. pose proof (HrecE t s) as He. pose proof (Hrec t s Hs Ht) as Hw.
    destruct (rec t s) as [| |o e1 s1]; cbn; try exact I.
    destruct o; cbn; try exact Hw. apply Hk; [exact He | exact Hw].
  Qed.
  Lemma wf_one vs k : (forall v, wf (k v)) -> wf (one vs k).
  Proof. intros H. destruct vs as [|v [|]]; cbn; try exact I. apply H. Qed.
  Lemma wf_two vs k : (forall a b, wf (k a b)) -> wf (two vs k).
  Proof. intros H. destruct vs as [|a [|b [|]]]; cbn; try exact I. apply H. Qed.
  Lemma wf_with_table s e t k : pre s e -> (forall p tb, wf (k p tb)) -> wf (with_table s e t k).
  Proof.
    intros Hp H. unfold with_table. destruct t; try (apply wf_err; exact Hp).
    destruct (nth_error _ _); [apply H | exact I].
  Qed.
  Lemma wf_get_prop s e t key k : pre s e -> (forall v, wf (k v)) -> wf (get_prop s e t key k).
  Proof.
    intros Hp H. unfold get_prop. apply wf_with_table; [exact Hp|]. intros p tb.
    destruct (to_key key); [apply H | exact I].
  Qed.
  Lemma pre_heap s e h : pre s e -> pre (set_heap h s) e.
  Proof. intros H; exact H. Qed.
  Lemma wf_set_prop s e v t key : pre s e -> wf (set_prop s e v t key).
  Proof.
    intros Hp. unfold set_prop. apply wf_with_table; [exact Hp|]. intros p tb.
    destruct (to_key key); [apply wf_ok; apply pre_heap; exact Hp | exact I].
  Qed.
  Lemma wf_get_props s e props : forall v k, pre s e -> (forall x, wf (k x)) -> wf (get_props s e v props k).
  Proof.
    induction props as [|p r IH]; intros v k Hp H; cbn [get_props]; [apply H|].
    destruct (is_empty p); [apply IH; assumption|].
    apply wf_get_prop; [exact Hp|]. intros x. apply IH; assumption.
  Qed.
  Lemma wf_read_var s e name k :
    pre s e -> (forall x, wf (k x)) -> wf (read_var e s name k).
  Proof.
    intros Hp H. unfold read_var.
    destruct (match split_once_c c_dot name with Some (v, p) => (v, split_c c_dot p) | None => (name, []) end) as [v props].
    destruct (is_empty v); [exact I|].
    destruct (lookup_var e v).
    - destruct (nth_error _ _); [apply wf_get_props; assumption | exact I].
    - destruct (assoc v (st_globals s)); [apply wf_get_props; assumption|].
      apply wf_err. exact Hp.
  Qed.

  Lemma pre_later s s' e :
    st_ok s' -> env_ok (length (st_cells s)) e -> length (st_cells s) <= length (st_cells s') -> pre s' e.
  Proof. intros A B C. split; [exact A | eapply env_ok_mono; eauto]. Qed.

  Ltac lens :=
    repeat match goal with H : ext _ _ |- _ => apply ext_len in H end;
    cbn in *; rewrite ?upd_length, ?app_length in *; cbn in *; lia.
  Ltac inv_alloc :=
    repeat match goal with
           | H : alloc_table _ _ = (_, _) |- _ => unfold alloc_table in H; inversion H; subst; clear H
           end.
  (* st_ok of a state that has the closure records of a state known to be ok and at least its cells *)
  Ltac st_tac :=
    match goal with
    | H : pre ?s _ |- st_ok ?x => apply (st_ok_same s x); [lens | reflexivity | exact (proj1 H)]
    | H : st_ok ?s |- st_ok ?x => apply (st_ok_same s x); [lens | reflexivity | exact H]
    end.
  Ltac env_tac :=
    match goal with
    | H : pre ?s ?e |- env_ok _ ?e => apply (env_ok_mono (length (st_cells s))); [lens | exact (proj2 H)]
    | H : env_ok ?n ?e |- env_ok _ ?e => apply (env_ok_mono n); [lens | exact H]
    | |- env_ok _ empty_env => apply env_ok_empty
    end.
  Ltac pre_tac := inv_alloc; split; [st_tac | env_tac].

  Ltac wstep :=
    match goal with
    | |- wf RFuel => exact I
    | |- wf (RUnspec _) => exact I
    | |- wf (ok _ _ _) => apply wf_ok; pre_tac
    | |- wf (err _ _ _) => apply wf_err; pre_tac
    | |- wf (ROk _ _ _) => cbn [wf]; pre_tac
    | |- wf (bnd (rec _ _) _) => apply wf_bnd_rec; [st_tac | cbn [task_ok task_env]; try exact I; try env_tac | intros]
    | |- wf (one _ _) => apply wf_one; intros
    | |- wf (two _ _) => apply wf_two; intros
    | |- wf (with_table _ _ _ _) => apply wf_with_table; [pre_tac | intros]
    | |- wf (get_prop _ _ _ _ _) => apply wf_get_prop; [pre_tac | intros]
    | |- wf (set_prop _ _ _ _ _) => apply wf_set_prop; pre_tac
    | |- wf (read_var _ _ _ _) => apply wf_read_var; [pre_tac | intros]
    | |- wf (rec _ _) => apply Hrec; [st_tac | cbn [task_ok task_env]; try exact I; try env_tac]
    | |- wf (match rec ?t ?s with _ => _ end) =>
        let Hw := fresh "Hw" in
        let He := fresh "He" in
        assert (Hw : wf (rec t s)) by (apply Hrec; [st_tac | cbn [task_ok task_env]; try exact I; try env_tac]);
        pose proof (HrecE t s) as He;
        destruct (rec t s) as [| |[] ? ?]; cbn [wf good] in Hw, He; try (destruct Hw as [Hw _])
    | |- wf (match ?x with _ => _ end) => destruct x eqn:?
    | |- wf (if ?x then _ else _) => destruct x
    | |- wf (let '(_, _) := ?x in _) => destruct x eqn:?
    end.

  Ltac decl_facts :=
    repeat match goal with
           | H : declare_opt _ _ ?e0 ?s0 = (?e1, ?s1), Hp0 : pre ?s0 ?e0 |- _ =>
               lazymatch goal with
               | _ : pre s1 e1 |- _ => fail
               | _ => idtac
               end;
               assert (pre s1 e1) by exact (declare_opt_ok _ _ _ _ _ _ H (proj1 Hp0) (proj2 Hp0));
               assert (ext s0 s1) by (eapply ext_declare_opt; [exact H | apply ext_refl])
           end.

  Lemma wf_binop op s e a b : pre s e -> wf (binop_value op s e a b).
  Proof.
    intros Hp. unfold binop_value; cbv zeta. destruct op; repeat wstep.
    all: try (inv_alloc;
              repeat match goal with |- context [match ?y with _ => _ end] => destruct y end; apply wf_ok; pre_tac).
  Qed.

  Lemma wf_call_body fi params body up args s :
    st_ok s -> scopes_ok (length (st_cells s)) up -> wf (call_body rec fi params body up args s).
  Proof.
    intros Hs Hu. unfold call_body. destruct (length args <? length params); [exact I|].
    destruct (bind_params params args s) as [sc s1] eqn:E.
    destruct (bind_params_ok _ _ _ _ _ E Hs) as [Hs1 Hsc]. pose proof (bind_params_ext _ _ _ _ _ E) as He.
    apply wf_finish_call.
    assert (Ht : task_ok s1 (TkSeq fi {| e_scopes := [sc]; e_up := up |} body)).
    { cbn. split; cbn; [constructor; [exact Hsc | constructor] | eapply scopes_ok_mono; [|exact Hu]; lens]. }
    pose proof (Hrec _ _ Hs1 Ht) as Hw. destruct (rec _ s1) as [| |o e s2]; try exact I. exact (proj1 Hw).
  Qed.

  Lemma wf_eval_card fi e c s : pre s e -> wf (eval_card P rec fi e c s).
  Proof.
    intros Hp. destruct c; cbn [eval_card]; try (destruct op); repeat wstep; try (apply wf_binop; pre_tac).
    - (* a new local *)
      match goal with H : declare _ _ ?e1 ?s1 = (_, _), Hp1 : pre ?s1 ?e1 |- _ =>
        apply wf_ok; exact (declare_ok _ _ _ _ _ _ H (proj1 Hp1) (proj2 Hp1)) end.
    - (* a new closure record: its scopes are the scopes of the environment *)
      apply wf_ok. destruct Hp as [Hs [A B]]. split; [|split; assumption].
      unfold st_ok. cbn. apply Forall_app. split; [exact Hs|]. constructor; [|constructor].
      cbn. apply Forall_app. split; assumption.
  Qed.

  Lemma wf_eval_native name args s : st_ok s -> wf (eval_native host rec name args s).
  Proof.
    intros Hs. unfold eval_native; cbv zeta. repeat wstep.
  Qed.

  Lemma wf_F t s : st_ok s -> task_ok s t -> wf (F P host limit rec t s).
  Proof.
    intros Hs Ht. unfold F. destruct (limit <? st_steps s)%N; [exact I|]. cbv zeta.
    assert (Hs' : st_ok (bump s)) by exact Hs.
    destruct t; cbn [task_ok task_env] in Ht;
      try (assert (Hp : pre (bump s) e) by (split; assumption)).
    1: apply wf_eval_card; exact Hp.
    1-2: destruct cs; repeat wstep.
    1: repeat wstep.
    1-2: assert (Hpp : pre (bump s) (push_scope e)) by (split; [exact Hs' | apply env_ok_push; exact Ht]);
         repeat wstep; decl_facts; repeat wstep.
    1: destruct (nth_error P idx); [apply wf_call_body; [exact Hs' | constructor] | exact I].
    1: destruct f; repeat wstep.
    2: apply wf_eval_native; exact Hs'.
    2: destruct entries as [|[k v] r]; repeat wstep.
    apply wf_call_body; [exact Hs'|].
    match goal with H : nth_error _ _ = Some _ |- _ => apply nth_error_In in H; cbn in H end.
    unfold st_ok, clos_ok in Hs. rewrite Forall_forall in Hs. apply Hs. assumption.
  Qed.
End Wf.

Theorem eval_wf P host limit : forall f t s, st_ok s -> task_ok s t -> wf (eval P host limit f t s).
Proof.
  induction f as [|f IH]; intros t s Hs Ht; [exact I|]. cbn [eval].
  apply wf_F; [apply eval_good | exact IH | exact Hs | exact Ht].
Qed.

(* every state reached from a well-formed state is well formed; [init_state] is *)
Theorem eval_keeps_cells_allocated P host limit f t s o e' s' :
  st_ok s -> task_ok s t -> eval P host limit f t s = ROk o e' s' ->
  st_ok s' /\ env_ok (length (st_cells s')) e'.
Proof. intros Hs Ht E. pose proof (eval_wf P host limit f t s Hs Ht) as H. rewrite E in H. exact H. Qed.

Lemma init_state_ok : st_ok init_state.
Proof. constructor. Qed.

(* in a well-formed state, the cell a closure record designates for a name is allocated *)
Lemma st_ok_closure_cell s id cl x c :
  st_ok s -> nth_error (st_clos s) id = Some cl -> lookup_scopes x (cl_up cl) = Some c ->
  c < length (st_cells s).
Proof.
  intros Hs Hc Hx. apply nth_error_In in Hc. unfold st_ok, clos_ok in Hs. rewrite Forall_forall in Hs.
  specialize (Hs _ Hc). clear Hc. induction Hs as [|sc r Hsc _ IH]; cbn in Hx; [discriminate|].
  destruct (assoc x sc) as [c'|] eqn:E; [|apply IH; exact Hx]. inversion Hx; subst c'. clear Hx.
  induction Hsc as [|[k v] m Hk _ IHm]; cbn in E; [discriminate|].
  destruct (str_eqb x k); [inversion E; subst; exact Hk | apply IHm; exact E].
Qed.

(* lifetime without the side condition: from a well-formed state (in particular any state the
   evaluation of a program reaches from [init_state]), whatever is evaluated next keeps the closure
   record, the cell it designates for x, and that cell allocated - before and after *)
Theorem cell_outlives_scope_wf P host limit f t s o e' s' id cl x c :
  st_ok s -> task_ok s t ->
  nth_error (st_clos s) id = Some cl -> lookup_scopes x (cl_up cl) = Some c ->
  eval P host limit f t s = ROk o e' s' ->
  c < length (st_cells s) /\
  nth_error (st_clos s') id = Some cl /\ c < length (st_cells s') /\ st_ok s'.
Proof.
  intros Hs Ht Hc Hx Ev.
  pose proof (st_ok_closure_cell _ _ _ _ _ Hs Hc Hx) as Hl.
  destruct (cell_outlives_scope _ _ _ _ _ _ _ _ _ _ _ _ _ Hc Hx Hl Ev) as [A [_ B]].
  destruct (eval_keeps_cells_allocated _ _ _ _ _ _ _ _ _ Hs Ht Ev) as [C _]. auto.
Qed.
