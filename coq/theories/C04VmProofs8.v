(* C04 - "running is total", Part E.5: what keeps [heap_acyclic].
   The rank function only looks at the tables of the heap: an instruction that leaves every table object as it is
   (and turns no other object into a table) keeps it (ranked_same_tables).  The instructions that write tables:
     InitTable (31), NthRow (39), PopTable (41)   always keep it;
     SetProperty (33), AppendTable (40)           keep it (with the same ranks) when the stored key and value are
                                                  ranked below the instance; in particular when neither is a table.
   Storing a table into a table that it reaches is how a program builds a cycle (A-37, C04VmWitness). *)
From Coq Require Import NArith ZArith List Lia Bool.
From Cao Require Import ListUtil Bits Stacks Vm VmProofs C04VmProofs C04VmProofs2 C04VmProofs3 C04VmProofs4 C04VmProofs5
  C04VmProofs6.
Import ListNotations.

(* the state of a result that is not an abort *)
Definition res_st (r : sres) : option state :=
  match r with SNext _ s' | SExit s' | SErr _ _ s' => Some s' | SStop _ _ => None end.

Lemma res_st_push_next ip s v s' : res_st (push_next ip s v) = Some s' -> st_heap s' = st_heap s.
Proof.
  unfold push_next, spush. destruct (vs_push _ _) as [k []]; cbn [res_st]; intros H; inversion H; reflexivity.
Qed.

Definition same_tables (h h' : heap) : Prop :=
  forall a t, hget h' a = Some (OTable t) <-> hget h a = Some (OTable t).

Lemma vdepth_same_tables h h' rk v : same_tables h h' -> vdepth h' rk v = vdepth h rk v.
Proof.
  intros Hs. destruct v as [| | |b]; cbn [vdepth]; auto.
  destruct (hget h' b) as [[t| | | | |]|] eqn:E'.
  1: { apply Hs in E'. rewrite E'. reflexivity. }
  all: destruct (hget h b) as [[t| | | | |]|] eqn:E; try reflexivity; apply Hs in E; congruence.
Qed.

Theorem ranked_same_tables h h' rk : same_tables h h' -> ranked h rk -> ranked h' rk.
Proof.
  intros Hs Hr a t Ha. apply Hs in Ha. destruct (Hr a t Ha) as [R1 R2]. split; [exact R1|].
  intros v Hv. rewrite (vdepth_same_tables h h' rk v Hs). apply R2; exact Hv.
Qed.

Corollary heap_acyclic_same_tables h h' : same_tables h h' -> heap_acyclic h -> heap_acyclic h'.
Proof. intros Hs [rk Hr]. exists rk. eapply ranked_same_tables; eauto. Qed.

(* a value that is not a table has depth 0 *)
Definition not_table (h : heap) (v : value) : Prop :=
  match v with VObj b => forall t, hget h b <> Some (OTable t) | _ => True end.
Lemma vdepth_not_table h rk v : not_table h v -> vdepth h rk v = 0.
Proof.
  destruct v as [| | |b]; cbn [not_table vdepth]; auto. intros H.
  destruct (hget h b) as [[t| | | | |]|]; auto. exfalso. eapply H; eauto.
Qed.

Lemma spush_some_heap s v s1 : spush s v = Some s1 -> st_heap s1 = st_heap s.
Proof. unfold spush. destruct (vs_push _ _) as [k []]; intros H; inversion H; reflexivity. Qed.

Section TableOpcodes.
Variable F : fops.

(* SetProperty; the statements cover the error results too (the state a nested run hands back) *)
Theorem set_property_ranked : forall opc ip0 ip s s' rk a,
  res_st (i_33 F opc ip0 ip s) = Some s' -> ranked (st_heap s) rk -> speek s 1 = VObj a ->
  vdepth (st_heap s) rk (speek s 0) <= rk a -> vdepth (st_heap s) rk (speek s 2) <= rk a ->
  ranked (st_heap s') rk.
Proof.
  intros opc ip0 ip s s' rk a H Hr Einst Hk Hv. unfold i_33 in H. cbv zeta in H.
  change (st_heap (spop_n s 3)) with (st_heap s) in H. rewrite Einst in H. cbn [get_table] in H.
  destruct (hget (st_heap s) a) as [[t| | | | |]|] eqn:Ea; cbn [res_st] in H; try discriminate H;
    try (inversion H; subst; exact Hr).
  destruct (tinsert _ t (speek s 0) (speek s 2)) as [t'|] eqn:Et; cbn [res_st] in H; [|discriminate].
  inversion H; subst. cbn [set_table set_heap st_heap spop_n set_stack].
  apply (ranked_set_table _ _ _ t t' Hr Ea). intros v Hm.
  destruct (tinsert_mentions _ _ _ _ _ Et v Hm) as [H1|[->| ->]]; [apply (Hr a t Ea); exact H1 | exact Hk | exact Hv].
Qed.

Corollary set_property_acyclic_scalars : forall opc ip0 ip s s',
  res_st (i_33 F opc ip0 ip s) = Some s' -> heap_acyclic (st_heap s) ->
  not_table (st_heap s) (speek s 0) -> not_table (st_heap s) (speek s 2) -> heap_acyclic (st_heap s').
Proof.
  intros opc ip0 ip s s' H [rk Hr] Hk Hv. exists rk.
  destruct (speek s 1) as [| | |a] eqn:Einst;
    try (unfold i_33 in H; cbv zeta in H; rewrite Einst in H; cbn [get_table res_st] in H; inversion H; subst; exact Hr).
  apply (set_property_ranked opc ip0 ip s s' rk a H Hr Einst); rewrite vdepth_not_table by assumption; lia.
Qed.

(* AppendTable *)
Theorem append_table_ranked : forall opc ip0 ip s s' rk a,
  res_st (i_40 F opc ip0 ip s) = Some s' -> ranked (st_heap s) rk -> speek s 0 = VObj a ->
  vdepth (st_heap s) rk (speek s 1) <= rk a -> ranked (st_heap s') rk.
Proof.
  intros opc ip0 ip s s' rk a H Hr Einst Hv. unfold i_40 in H. cbv zeta in H.
  change (st_heap (spop_n s 2)) with (st_heap s) in H. rewrite Einst in H. cbn [get_table] in H.
  destruct (hget (st_heap s) a) as [[t| | | | |]|] eqn:Ea; cbn [res_st] in H; try discriminate H;
    try (inversion H; subst; exact Hr).
  destruct (tappend _ t (speek s 1)) as [t'| |] eqn:Et; cbn [res_st] in H; try discriminate.
  inversion H; subst. cbn [set_table set_heap st_heap spop_n set_stack].
  apply (ranked_set_table _ _ _ t t' Hr Ea). intros v Hm.
  unfold tappend in Et. destruct (tappend_idx _ _ _ _) as [[i|]|]; try discriminate.
  destruct (tinsert _ t (VInt i) (speek s 1)) as [t''|] eqn:Et2; inversion Et; subst.
  destruct (tinsert_mentions _ _ _ _ _ Et2 v Hm) as [H1|[->| ->]]; [apply (Hr a t Ea); exact H1 | cbn [vdepth]; lia | exact Hv].
Qed.

Corollary append_table_acyclic_scalar : forall opc ip0 ip s s',
  res_st (i_40 F opc ip0 ip s) = Some s' -> heap_acyclic (st_heap s) ->
  not_table (st_heap s) (speek s 1) -> heap_acyclic (st_heap s').
Proof.
  intros opc ip0 ip s s' H [rk Hr] Hv. exists rk.
  destruct (speek s 0) as [| | |a] eqn:Einst;
    try (unfold i_40 in H; cbv zeta in H; rewrite Einst in H; cbn [get_table res_st] in H; inversion H; subst; exact Hr).
  apply (append_table_ranked opc ip0 ip s s' rk a H Hr Einst). rewrite vdepth_not_table by assumption. lia.
Qed.

(* PopTable *)
Theorem pop_table_ranked : forall opc ip0 ip s s' rk,
  res_st (i_41 F opc ip0 ip s) = Some s' -> ranked (st_heap s) rk -> ranked (st_heap s') rk.
Proof.
  intros opc ip0 ip s s' rk H Hr. unfold i_41 in H.
  destruct (spop_facts s) as (Hh & _). destruct (spop s) as [s1 inst]. cbn [fst] in Hh.
  assert (Hsame : forall e ip1, res_st (SErr e ip1 s1) = Some s' -> ranked (st_heap s') rk).
  { intros e ip1 E. cbn [res_st] in E. inversion E; subst. rewrite Hh. exact Hr. }
  destruct inst as [| | |a]; cbn [get_table] in H; try (eapply Hsame; exact H). rewrite Hh in H.
  destruct (hget (st_heap s) a) as [[t| | | | |]|] eqn:Ea; try (eapply Hsame; exact H); [|cbn [res_st] in H; discriminate].
  destruct (tpop _ t) as [[t' v]|] eqn:Et; [|cbn [res_st] in H; discriminate].
  apply res_st_push_next in H. rewrite H.
  cbn [set_stack set_table set_heap st_heap]. rewrite Hh.
  apply (ranked_set_table _ _ _ t t' Hr Ea). intros w Hm.
  apply (Hr a t Ea). apply (proj1 (tpop_mentions _ _ _ _ Et)). exact Hm.
Qed.

(* InitTable *)
Theorem init_table_acyclic : forall opc ip0 ip s s',
  res_st (i_31 opc ip0 ip s) = Some s' -> heap_acyclic (st_heap s) -> heap_closed (st_heap s) -> heap_acyclic (st_heap s').
Proof.
  intros opc ip0 ip s s' H Hac Hc. unfold i_31, salloc, halloc in H.
  apply res_st_push_next in H. rewrite H. cbn [set_stack set_heap st_heap].
  apply heap_acyclic_alloc; [exact Hac | exact Hc |]. intros t E v. inversion E; subst. apply empty_mentions.
Qed.

(* NthRow: the row {"key": k, "value": v} is ranked like the table it was taken from *)
Definition row_heap (h : heap) : heap := ((h ++ [OTable (mkTable [] [])]) ++ [OStr str_key]) ++ [OStr str_value].

Lemma row_ranked (eq : eqfun) h rk a t key val t1 t2 :
  ranked h rk -> heap_closed h -> hget h a = Some (OTable t) ->
  (key = VNil \/ tmentions t key) -> (val = VNil \/ tmentions t val) ->
  tinsert eq (mkTable [] []) (VObj (N.of_nat (S (length h)))) key = Some t1 ->
  tinsert eq t1 (VObj (N.of_nat (S (S (length h))))) val = Some t2 ->
  heap_acyclic (hset (row_heap h) (N.of_nat (length h)) (OTable t2)).
Proof.
  intros Hr Hc Ea Hkey Hval T1 T2. unfold row_heap.
  set (row := N.of_nat (length h)).
  set (h3 := h ++ [OTable (mkTable [] [])]).
  set (h4 := h3 ++ [OStr str_key]). set (h5 := h4 ++ [OStr str_value]).
  assert (L3 : length h3 = S (length h)) by (unfold h3; rewrite app_length; cbn; lia).
  assert (L4 : length h4 = S (S (length h))) by (unfold h4; rewrite app_length, L3; cbn; lia).
  set (ka := N.of_nat (S (length h))) in *. set (va := N.of_nat (S (S (length h)))) in *.
  set (rk3 := rk_set rk row (rk a)). set (rk4 := rk_set rk3 ka 0). set (rk5 := rk_set rk4 va 0).
  assert (C3 : heap_closed h3) by (apply heap_closed_alloc; [exact Hc | intros v Hv; destruct (empty_mentions v Hv)]).
  assert (R3 : ranked h3 rk3).
  { apply ranked_alloc; [exact Hr | exact Hc | apply (Hr a t Ea) |]. intros t0 E v. inversion E; subst. apply empty_mentions. }
  assert (C4 : heap_closed h4) by (apply heap_closed_alloc; [exact C3 | exact I]).
  assert (R4 : ranked h4 rk4).
  { unfold rk4, ka. rewrite <- L3. apply ranked_alloc; [exact R3 | exact C3 | unfold eq_fuel; lia | intros t0 E; discriminate]. }
  assert (R5 : ranked h5 rk5).
  { unfold rk5, va. rewrite <- L4. apply ranked_alloc; [exact R4 | exact C4 | unfold eq_fuel; lia | intros t0 E; discriminate]. }
  assert (Hrow3 : hget h3 row = Some (OTable (mkTable [] []))) by apply hget_app_new.
  assert (Hrow4 : hget h4 row = Some (OTable (mkTable [] []))) by (unfold h4; rewrite hget_app_old; [exact Hrow3 | rewrite Hrow3; discriminate]).
  assert (Hrow5 : hget h5 row = Some (OTable (mkTable [] []))) by (unfold h5; rewrite hget_app_old; [exact Hrow4 | rewrite Hrow4; discriminate]).
  assert (Hka4 : hget h4 ka = Some (OStr str_key)) by (unfold ka; rewrite <- L3; apply hget_app_new).
  assert (Hka5 : hget h5 ka = Some (OStr str_key)) by (unfold h5; rewrite hget_app_old; [exact Hka4 | rewrite Hka4; discriminate]).
  assert (Hva5 : hget h5 va = Some (OStr str_value)) by (unfold va; rewrite <- L4; apply hget_app_new).
  assert (Hrk5 : rk5 row = rk a).
  { unfold rk5, rk4, rk3, rk_set. rewrite N.eqb_refl.
    destruct (N.eqb_spec row va) as [E|_]; [unfold row, va in E; apply Nat2N.inj in E; lia|].
    destruct (N.eqb_spec row ka) as [E|_]; [unfold row, ka in E; apply Nat2N.inj in E; lia|]. reflexivity. }
  assert (Hold : forall v, val_ok h v -> vdepth h5 rk5 v = vdepth h rk v).
  { intros v Hv. unfold h5, rk5, va. rewrite <- L4. rewrite vdepth_alloc by (unfold h4, h3; apply val_ok_app, val_ok_app; exact Hv).
    unfold h4, rk4, ka. rewrite <- L3. rewrite vdepth_alloc by (unfold h3; apply val_ok_app; exact Hv).
    unfold h3, rk3, row. apply vdepth_alloc; exact Hv. }
  assert (Hsrc : forall v, v = VNil \/ tmentions t v -> vdepth h5 rk5 v <= rk a).
  { intros v [->|Hm]; [cbn [vdepth]; lia|]. rewrite Hold; [apply (Hr a t Ea); exact Hm | apply (Hc a _ Ea); exact Hm]. }
  exists rk5. apply (ranked_set_table _ _ _ _ t2 R5 Hrow5). rewrite Hrk5. intros v Hm.
  destruct (tinsert_mentions _ _ _ _ _ T2 v Hm) as [H1|[->| ->]].
  - destruct (tinsert_mentions _ _ _ _ _ T1 v H1) as [H2|[->| ->]]; [destruct (empty_mentions v H2) | | apply Hsrc; exact Hkey].
    cbn [vdepth]. rewrite Hka5. lia.
  - cbn [vdepth]. rewrite Hva5. lia.
  - apply Hsrc; exact Hval.
Qed.

(* what NthRow does to the heap *)
Lemma nth_row_heap : forall opc ip0 ip s s',
  res_st (i_39 F opc ip0 ip s) = Some s' ->
  st_heap s' = st_heap s \/
  exists a t key val t1 t2,
    hget (st_heap s) a = Some (OTable t) /\
    (key = VNil \/ tmentions t key) /\ (val = VNil \/ tmentions t val) /\
    tinsert (veq0 F (row_heap (st_heap s))) (mkTable [] []) (VObj (N.of_nat (S (length (st_heap s))))) key = Some t1 /\
    tinsert (veq0 F (row_heap (st_heap s))) t1 (VObj (N.of_nat (S (S (length (st_heap s)))))) val = Some t2 /\
    st_heap s' = hset (row_heap (st_heap s)) (N.of_nat (length (st_heap s))) (OTable t2).
Proof.
  intros opc ip0 ip s s' H. unfold i_39 in H.
  assert (Hsame : forall e ip1, res_st (SErr e ip1 (spop_n s 2)) = Some s' -> st_heap s' = st_heap s).
  { intros e ip1 E. cbn [res_st] in E. inversion E; subst. reflexivity. }
  destruct (get_table (st_heap (spop_n s 2)) (speek s 1)) as [a t| |] eqn:Eg;
    [|left; eapply Hsame; exact H|cbn [res_st] in H; discriminate H].
  apply get_table_some in Eg.
  destruct (speek s 0) as [|i| |]; try (left; eapply Hsame; exact H).
  destruct (i <? 0)%Z; [left; eapply Hsame; exact H|].
  destruct (if (i <? Z.of_nat (length (tkeys t)))%Z
            then tget (veq0 F (st_heap (spop_n s 2))) t
                   (if (i <? Z.of_nat (length (tkeys t)))%Z then tnth_key t (Z.to_nat i) else VNil)
            else Some None) as [r|] eqn:Er; [|cbn [res_st] in H; discriminate H].
  destruct (salloc (spop_n s 2) (OTable (mkTable [] []))) as [s3 row] eqn:E3.
  destruct (salloc s3 (OStr str_key)) as [s4 ka] eqn:E4.
  destruct (salloc s4 (OStr str_value)) as [s5 va] eqn:E5.
  unfold salloc, halloc in E3, E4, E5. inversion E3; subst s3 row; clear E3. inversion E4; subst s4 ka; clear E4.
  inversion E5; subst s5 va; clear E5. cbn [st_heap set_heap spop_n set_stack] in H, Er, Eg.
  destruct (tinsert _ (mkTable [] []) _ _) as [t1|] eqn:T1; [|cbn [res_st] in H; discriminate H].
  destruct (tinsert _ t1 _ _) as [t2|] eqn:T2; [|cbn [res_st] in H; discriminate H].
  apply res_st_push_next in H. right.
  exists a, t, (if (i <? Z.of_nat (length (tkeys t)))%Z then tnth_key t (Z.to_nat i) else VNil),
         (match r with Some v => v | None => VNil end), t1, t2.
  split; [exact Eg|]. split.
  { destruct (i <? Z.of_nat (length (tkeys t)))%Z; [apply tnth_key_mentions | left; reflexivity]. }
  split.
  { destruct r as [v|]; [|left; reflexivity]. destruct (i <? Z.of_nat (length (tkeys t)))%Z; [|discriminate Er].
    right. eapply tget_mentions; eauto. }
  repeat (rewrite app_length in T1; cbn [length] in T1; rewrite Nat.add_1_r in T1).
  repeat (rewrite app_length in T2; cbn [length] in T2; rewrite Nat.add_1_r in T2).
  split; [exact T1|]. split; [exact T2|]. rewrite H. reflexivity.
Qed.

Theorem nth_row_acyclic : forall opc ip0 ip s s',
  res_st (i_39 F opc ip0 ip s) = Some s' -> heap_acyclic (st_heap s) -> heap_closed (st_heap s) ->
  heap_acyclic (st_heap s').
Proof.
  intros opc ip0 ip s s' H Hac Hc.
  destruct (nth_row_heap _ _ _ _ _ H) as [->|(a & t & key & val & t1 & t2 & Ea & Hk & Hv & T1 & T2 & ->)]; [exact Hac|].
  destruct Hac as [rk Hr]. exact (row_ranked _ _ rk a t key val t1 t2 Hr Hc Ea Hk Hv T1 T2).
Qed.

End TableOpcodes.
