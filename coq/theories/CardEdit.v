(* Model of the module editing API of cao-lang:
     compiler/card.rs   Card::num_children / iter_children / get_child / get_child_mut /
                        remove_child / insert_child / replace_child          (lines 286-790)
     compiler/module.rs CardIndex (Ord), Module::get_card / get_card_mut / remove_card /
                        replace_card / insert_card / swap_cards / walk_cards, visit_children.
   Hand transcription, match arm by match arm; tied to the code by the C16 correspondence check.
   Executable definitions only.

   Conventions of this file
   * `&mut Card` obtained from `get_child_mut` is modelled as a lens: the child together with the
     function that rebuilds the parent around a new child.
   * A Rust panic (Vec::remove / Vec::insert out of range, slice index out of range, usize
     underflow in a debug build, unwrap on None/Err) is the distinguished outcome
     [CPanic] / [RPanic] / [SwPanic].  On the pinned tree every one of them is dominated by an
     explicit guard (proved in CardEditProofs: [*_no_panic]).
   * CardAst groups the 17 two-child kinds under [CBin], the 4 one-child kinds under [CUn] and
     the 2 three-child kinds under [CTri]; where card.rs has *separate* arms for members of one
     group (IfTrue/IfFalse, IfElse vs SetProperty) the model matches on the tag and repeats the
     arm, so a divergence between the arms would have a place to live. *)
From Cao Require Import ListUtil CardAst.
From Coq Require Import NArith ZArith.

(* ------------------------------------------------------------------------------------------ *)
(* Vec / slice primitives                                                                       *)

Fixpoint remove_nth {A} (l : list A) (i : nat) : list A :=
  match l, i with
  | [], _ => []
  | _ :: t, O => t
  | h :: t, S i' => h :: remove_nth t i'
  end.

Fixpoint insert_nth {A} (l : list A) (i : nat) (x : A) : list A :=
  match i, l with
  | O, _ => x :: l
  | S i', h :: t => h :: insert_nth t i' x
  | S _, [] => [x]
  end.

(* Vec::remove(i): panics (None) when i >= len *)
Definition vec_remove {A} (l : list A) (i : nat) : option (list A * A) :=
  match nth_error l i with
  | Some x => Some (remove_nth l i, x)
  | None => None
  end.

(* Vec::insert(i, x): panics (None) when i > len *)
Definition vec_insert {A} (l : list A) (i : nat) (x : A) : option (list A) :=
  if i <=? length l then Some (insert_nth l i x) else None.

(* &s[a..b]: panics (None) when a > b or b > len *)
Definition slice {A} (l : list A) (a b : nat) : option (list A) :=
  if (a <=? b) && (b <=? length l) then Some (firstn (b - a) (skipn a l)) else None.

(* slice.last(): None on an empty slice *)
Definition last_opt {A} (l : list A) : option A :=
  match l with
  | [] => None
  | x :: t => Some (last t x)
  end.

(* usize subtraction in a build with overflow checks (the harness profile): None = panic *)
Definition usize_sub (a b : nat) : option nat := if b <=? a then Some (a - b) else None.

(* ------------------------------------------------------------------------------------------ *)
(* card.rs                                                                                      *)

Inductive cres (A : Type) := CSome (a : A) | CNone | CPanic.
Arguments CSome {A} a.
Arguments CNone {A}.
Arguments CPanic {A}.

(* Result<(), Card> of insert_child, with the new value of `self` *)
Inductive ires := IOk (self' : card) | IErr (returned : card) | IPanic.

(* Result<Card, Card> of replace_child *)
Inductive rres := ReplOk (self' old : card) | ReplErr (returned : card).

Definition num_children (c : card) : nat :=
  match c with
  | CBin _ _ _ => 2
  | CUn _ _ => 1
  | CScalarInt _ | CScalarFloat _ | CStringLiteral _ | CComment _ | CFunction _ | CCreateTable
  | CReadVar _ | CNativeFunction _ | CAbort | CScalarNil => 0
  | CTri _ _ _ _ => 3
  | CCallNative _ args => length args
  | CCall _ args => length args
  | CSetGlobalVar _ _ | CSetVar _ _ => 1
  | CRepeat _ _ _ => 2
  | CForEach _ _ _ _ _ => 2
  | CComposite _ cards => length cards
  | CDynamicCall _ args => 1 + length args
  | CArray a => length a
  | CClosure _ cards => length cards
  end.

Definition iter_children (c : card) : list card :=
  match c with
  | CBin _ a b => [a; b]                                   (* b.iter() *)
  | CUn _ a => [a]                                         (* once(u.card) *)
  | CScalarInt _ | CScalarFloat _ | CStringLiteral _ | CComment _ | CFunction _ | CCreateTable
  | CReadVar _ | CNativeFunction _ | CAbort | CScalarNil => []
  | CTri _ a b c => [a; b; c]                              (* t.iter() *)
  | CCallNative _ args => args
  | CCall _ args => args
  | CSetGlobalVar _ v | CSetVar _ v => [v]
  | CRepeat _ n body => [n; body]
  | CForEach _ _ _ iterable body => [iterable; body]
  | CComposite _ cards => cards
  | CDynamicCall f args => f :: args                       (* once(&c.function).chain(args) *)
  | CArray a => a
  | CClosure _ cards => cards
  end.

Definition get_child (c : card) (i : nat) : option card :=
  match c with
  | CComposite _ cards => nth_error cards i
  | CClosure _ cards => nth_error cards i
  | CRepeat _ n body => match i with 0 => Some n | 1 => Some body | _ => None end
  | CForEach _ _ _ a b => match i with 0 => Some a | 1 => Some b | _ => None end
  | CTri op a b c =>
      match op with
      | TIfElse => nth_error [a; b; c] i                   (* children.get(i) *)
      | TSetProperty => nth_error [a; b; c] i              (* expr.get(i) *)
      end
  | CBin op a b =>
      match op with
      | BIfTrue | BIfFalse => nth_error [a; b] i           (* c.get(i) *)
      | _ => nth_error [a; b] i                            (* expr.get(i) *)
      end
  | CUn _ a => match i with 0 => Some a | _ => None end
  | CSetGlobalVar _ v | CSetVar _ v => match i with 0 => Some v | _ => None end
  | CCallNative _ args => nth_error args i
  | CCall _ args => nth_error args i
  | CDynamicCall f args =>
      (* (i == 0).then_some(&j.function).or_else(|| j.args.0.get(i - 1)) : the closure, and with
         it the subtraction, only runs when i <> 0 *)
      if i =? 0 then Some f else nth_error args (i - 1)
  | CArray cards => nth_error cards i
  | CFunction _ | CNativeFunction _ | CReadVar _ | CScalarInt _ | CScalarFloat _
  | CStringLiteral _ | CComment _ | CScalarNil | CCreateTable | CAbort => None
  end.

(* a `&mut Card` into a parent: the child and the parent rebuilt around a new child *)
Definition lens : Type := card * (card -> card).

Definition vec_get_mut (mk : list card -> card) (l : list card) (i : nat) : option lens :=
  match nth_error l i with
  | Some x => Some (x, fun y => mk (upd l i y))
  | None => None
  end.

Definition arr2_get_mut (mk : card -> card -> card) (a b : card) (i : nat) : option lens :=
  match i with
  | 0 => Some (a, fun y => mk y b)
  | 1 => Some (b, fun y => mk a y)
  | _ => None
  end.

Definition arr3_get_mut (mk : card -> card -> card -> card) (a b c : card) (i : nat) : option lens :=
  match i with
  | 0 => Some (a, fun y => mk y b c)
  | 1 => Some (b, fun y => mk a y c)
  | 2 => Some (c, fun y => mk a b y)
  | _ => None
  end.

Definition get_child_mut (c : card) (i : nat) : option lens :=
  match c with
  | CComposite ty cards => vec_get_mut (CComposite ty) cards i
  | CClosure args cards => vec_get_mut (CClosure args) cards i
  | CRepeat v n body =>
      match i with
      | 0 => Some (n, fun y => CRepeat v y body)
      | 1 => Some (body, fun y => CRepeat v n y)
      | _ => None
      end
  | CForEach vi vk vv a b =>
      match i with
      | 0 => Some (a, fun y => CForEach vi vk vv y b)
      | 1 => Some (b, fun y => CForEach vi vk vv a y)
      | _ => None
      end
  | CTri op a b c =>
      match op with
      | TIfElse => arr3_get_mut (CTri op) a b c i
      | TSetProperty => arr3_get_mut (CTri op) a b c i
      end
  | CBin op a b =>
      match op with
      | BIfTrue | BIfFalse => arr2_get_mut (CBin op) a b i
      | _ => arr2_get_mut (CBin op) a b i
      end
  | CUn op a => match i with 0 => Some (a, fun y => CUn op y) | _ => None end
  | CSetGlobalVar name v => match i with 0 => Some (v, fun y => CSetGlobalVar name y) | _ => None end
  | CSetVar name v => match i with 0 => Some (v, fun y => CSetVar name y) | _ => None end
  | CCallNative name args => vec_get_mut (CCallNative name) args i
  | CCall name args => vec_get_mut (CCall name) args i
  | CDynamicCall f args =>
      if i =? 0 then Some (f, fun y => CDynamicCall y args)
      else vec_get_mut (CDynamicCall f) args (i - 1)
  | CArray cards => vec_get_mut CArray cards i
  | CFunction _ | CNativeFunction _ | CReadVar _ | CScalarInt _ | CScalarFloat _
  | CStringLiteral _ | CComment _ | CScalarNil | CCreateTable | CAbort => None
  end.

(* `let c = self.get_child_mut(i)?; res = std::mem::replace(c, placeholder)` *)
Definition take_via_mut (c : card) (i : nat) (placeholder : card) : cres (card * card) :=
  match get_child_mut c i with
  | Some (x, put) => CSome (put placeholder, x)
  | None => CNone
  end.

(* `vec.remove(i)` once the arm's own guard has passed *)
Definition do_vec_remove (mk : list card -> card) (l : list card) (i : nat) : cres (card * card) :=
  match vec_remove l i with
  | Some (l', x) => CSome (mk l', x)
  | None => CPanic
  end.

(* result: (self after the call, removed card); CNone leaves self untouched *)
Definition remove_child (c : card) (i : nat) : cres (card * card) :=
  match c with
  | CComposite ty cards =>
      if length cards <=? i then CNone else do_vec_remove (CComposite ty) cards i
  | CClosure args cards =>
      if length cards <=? i then CNone else do_vec_remove (CClosure args) cards i
  | CRepeat v n body =>
      match i with
      | 0 => CSome (CRepeat v (CScalarInt 0) body, n)
      | 1 => CSome (CRepeat v n CScalarNil, body)
      | _ => CNone
      end
  | CForEach vi vk vv a b =>
      match i with
      | 0 => CSome (CForEach vi vk vv CScalarNil b, a)
      | 1 => CSome (CForEach vi vk vv a CScalarNil, b)
      | _ => CNone
      end
  | CTri op a b c' =>
      match op with
      | TIfElse =>                                         (* children.get_mut(i)? *)
          match arr3_get_mut (CTri op) a b c' i with
          | Some (x, put) => CSome (put CScalarNil, x)
          | None => CNone
          end
      | TSetProperty => take_via_mut c i CScalarNil
      end
  | CBin op _ _ =>
      match op with
      | BIfTrue | BIfFalse => take_via_mut c i CScalarNil
      | _ => take_via_mut c i CScalarNil
      end
  | CUn _ _ | CSetGlobalVar _ _ | CSetVar _ _ => take_via_mut c i CScalarNil
  | CCallNative name args =>
      if i <? length args then do_vec_remove (CCallNative name) args i else CNone
  | CCall name args =>
      if i <? length args then do_vec_remove (CCall name) args i else CNone
  | CDynamicCall f args =>
      if i =? 0 then CSome (CDynamicCall CScalarNil args, f)
      else if i - 1 <? length args then do_vec_remove (CDynamicCall f) args (i - 1)
      else CNone
  | CArray cards =>
      if i <? length cards then do_vec_remove CArray cards i else CNone
  | CFunction _ | CNativeFunction _ | CReadVar _ | CScalarInt _ | CScalarFloat _
  | CStringLiteral _ | CComment _ | CScalarNil | CCreateTable | CAbort => CNone
  end.

Definition do_vec_insert (mk : list card -> card) (l : list card) (i : nat) (x : card) : ires :=
  match vec_insert l i x with
  | Some l' => IOk (mk l')
  | None => IPanic
  end.

Definition insert_child (c : card) (i : nat) (x : card) : ires :=
  match c with
  | CComposite ty cards =>
      if length cards <? i then IErr x else do_vec_insert (CComposite ty) cards i x
  | CClosure args cards =>
      if length cards <? i then IErr x else do_vec_insert (CClosure args) cards i x
  | CForEach vi vk vv a b =>
      match i with
      | 0 => IOk (CForEach vi vk vv x b)
      | 1 => IOk (CForEach vi vk vv a x)
      | _ => IErr x
      end
  | CTri op a b c' =>
      match op with
      | TIfElse =>
          match arr3_get_mut (CTri op) a b c' i with
          | Some (_, put) => IOk (put x)
          | None => IErr x
          end
      | TSetProperty =>
          match get_child_mut c i with Some (_, put) => IOk (put x) | None => IErr x end
      end
  | CBin _ _ _ | CUn _ _ | CSetGlobalVar _ _ | CSetVar _ _ | CRepeat _ _ _ =>
      match get_child_mut c i with Some (_, put) => IOk (put x) | None => IErr x end
  | CCallNative name args =>
      if length args <? i then IErr x else do_vec_insert (CCallNative name) args i x
  | CCall name args =>
      if length args <? i then IErr x else do_vec_insert (CCall name) args i x
  | CDynamicCall f args =>
      if i =? 0 then IOk (CDynamicCall x args)
      else if i - 1 <=? length args then do_vec_insert (CDynamicCall f) args (i - 1) x
      else IErr x
  | CArray children =>
      if i <=? length children then do_vec_insert CArray children i x else IErr x
  | CFunction _ | CNativeFunction _ | CReadVar _ | CScalarInt _ | CScalarFloat _
  | CStringLiteral _ | CComment _ | CScalarNil | CCreateTable | CAbort => IErr x
  end.

(* the Call / CallNative arms before the repair bf83e3d (finding A-26):
   `(i <= len).then(|| insert(i, card));` dropped the card and still returned Ok(()) *)
Definition insert_child_legacy (c : card) (i : nat) (x : card) : ires :=
  match c with
  | CCallNative name args =>
      if i <=? length args then do_vec_insert (CCallNative name) args i x else IOk c
  | CCall name args =>
      if i <=? length args then do_vec_insert (CCall name) args i x else IOk c
  | _ => insert_child c i x
  end.

Definition replace_child (c : card) (i : nat) (x : card) : rres :=
  match get_child_mut c i with
  | Some (old, put) => ReplOk (put x) old
  | None => ReplErr x
  end.

(* ------------------------------------------------------------------------------------------ *)
(* module.rs                                                                                    *)

Inductive fetch_error :=
| FunctionNotFound
| CardNotFound (depth : nat)
| NoSubFunction (depth : nat)
| InvalidIndex.

Inductive swap_error :=
| SwapFetchError (idx : card_index) (e : fetch_error)
| InvalidSwap.

Inductive res (A : Type) := ROk (a : A) | RErr (e : fetch_error) | RPanic.
Arguments ROk {A} a.
Arguments RErr {A} e.
Arguments RPanic {A}.

(* impl Ord for CardIndex: function, then the zipped indices, then the lengths *)
Fixpoint indices_cmp (a b : list nat) : comparison :=
  match a, b with
  | x :: a', y :: b' =>
      match Nat.compare x y with
      | Eq => indices_cmp a' b'
      | c => c
      end
  | _, _ => Nat.compare (length a) (length b)
  end.

Definition ci_cmp (a b : card_index) : comparison :=
  match Nat.compare (ci_function a) (ci_function b) with
  | Eq => indices_cmp (ci_indices a) (ci_indices b)
  | c => c
  end.

Definition ci_ltb (a b : card_index) : bool :=
  match ci_cmp a b with Lt => true | _ => false end.

(* #[derive(PartialEq)] on CardIndex / FunctionCardIndex *)
Fixpoint indices_eqb (a b : list nat) : bool :=
  match a, b with
  | [], [] => true
  | x :: a', y :: b' => Nat.eqb x y && indices_eqb a' b'
  | _, _ => false
  end.

Definition ci_eqb (a b : card_index) : bool :=
  Nat.eqb (ci_function a) (ci_function b) && indices_eqb (ci_indices a) (ci_indices b).

(* FunctionCardIndex::begin *)
Definition ci_begin (idx : card_index) : option nat :=
  match ci_indices idx with
  | [] => None                                             (* Err(InvalidIndex) *)
  | i :: _ => Some i
  end.

Definition set_fn (m : module) (fi : nat) (name : str) (f : function) : module :=
  Module (m_submodules m) (upd (m_functions m) fi (name, f)) (m_imports m).

Definition set_cards (f : function) (cards : list card) : function :=
  {| f_args := f_args f; f_cards := cards |}.

(* the `for (depth, i) in path.iter().enumerate() { card = card.get_child(i).ok_or(..depth..)? }`
   loop of get_card; [depth] is the value reported for the first element of [path] *)
Fixpoint descend (path : list nat) (depth : nat) (c : card) : res card :=
  match path with
  | [] => ROk c
  | i :: p =>
      match get_child c i with
      | None => RErr (CardNotFound depth)
      | Some ch => descend p (S depth) ch
      end
  end.

(* the same loop through get_child_mut, followed by [k] on the `&mut Card` that was reached;
   the result is the root card rebuilt around whatever [k] stored *)
Fixpoint descend_mut {A} (path : list nat) (depth : nat) (c : card)
         (k : card -> res (card * A)) : res (card * A) :=
  match path with
  | [] => k c
  | i :: p =>
      match get_child_mut c i with
      | None => RErr (CardNotFound depth)
      | Some (ch, put) =>
          match descend_mut p (S depth) ch k with
          | ROk (ch', a) => ROk (put ch', a)
          | RErr e => RErr e
          | RPanic => RPanic
          end
      end
  end.

Definition get_card (m : module) (idx : card_index) : res card :=
  match nth_error (m_functions m) (ci_function idx) with
  | None => RErr FunctionNotFound
  | Some (_, f) =>
      match ci_begin idx with
      | None => RErr InvalidIndex
      | Some b =>
          match nth_error (f_cards f) b with
          | None => RErr (CardNotFound 0)
          | Some card =>
              match slice (ci_indices idx) 1 (length (ci_indices idx)) with   (* indices[1..] *)
              | None => RPanic
              | Some path => descend path 1 card          (* CardNotFound { depth: depth + 1 } *)
              end
          end
      end
  end.

(* get_card before the repair 3cefd5a (finding A-41): CardNotFound { depth } *)
Definition get_card_legacy (m : module) (idx : card_index) : res card :=
  match nth_error (m_functions m) (ci_function idx) with
  | None => RErr FunctionNotFound
  | Some (_, f) =>
      match ci_begin idx with
      | None => RErr InvalidIndex
      | Some b =>
          match nth_error (f_cards f) b with
          | None => RErr (CardNotFound 0)
          | Some card =>
              match slice (ci_indices idx) 1 (length (ci_indices idx)) with
              | None => RPanic
              | Some path => descend path 0 card
              end
          end
      end
  end.

(* get_card_mut followed by [k] on the reference (CardNotFound { depth: depth + 1 }) *)
Definition with_card_mut {A} (m : module) (idx : card_index) (k : card -> res (card * A))
  : res (module * A) :=
  match nth_error (m_functions m) (ci_function idx) with
  | None => RErr FunctionNotFound
  | Some (name, f) =>
      match ci_begin idx with
      | None => RErr InvalidIndex
      | Some b =>
          match nth_error (f_cards f) b with
          | None => RErr (CardNotFound 0)
          | Some card =>
              match slice (ci_indices idx) 1 (length (ci_indices idx)) with
              | None => RPanic
              | Some path =>
                  match descend_mut path 1 card k with
                  | ROk (card', a) =>
                      ROk (set_fn m (ci_function idx) name (set_cards f (upd (f_cards f) b card')), a)
                  | RErr e => RErr e
                  | RPanic => RPanic
                  end
              end
          end
      end
  end.

(* get_card_mut(idx).map(|c| c.clone()) : what a caller sees through the mutable lookup *)
Definition get_card_mut (m : module) (idx : card_index) : res card :=
  match with_card_mut m idx (fun c => ROk (c, c)) with
  | ROk (_, c) => ROk c
  | RErr e => RErr e
  | RPanic => RPanic
  end.

(* self.get_card_mut(idx).map(|c| std::mem::replace(c, child)) *)
Definition replace_card (m : module) (idx : card_index) (child : card) : res (module * card) :=
  with_card_mut m idx (fun c => ROk (child, c)).

(* the part of remove_card / insert_card after the `len == 1` special case:
   walk indices[1 .. (len-1).max(1)] through get_child_mut, then [k] on the parent *)
Definition edit_parent {A} (m : module) (idx : card_index) (name : str) (f : function)
           (k : nat -> nat -> card -> res (card * A)) : res (module * A) :=
  match ci_begin idx with
  | None => RErr InvalidIndex
  | Some b =>
      match nth_error (f_cards f) b with
      | None => RErr (CardNotFound 0)
      | Some card =>
          let len := length (ci_indices idx) in
          match usize_sub len 1 with                       (* len - 1 *)
          | None => RPanic
          | Some len1 =>
              match slice (ci_indices idx) 1 (Nat.max len1 1) with
              | None => RPanic
              | Some path =>
                  match last_opt (ci_indices idx) with   (* indices.last().unwrap() *)
                  | None => RPanic
                  | Some i =>
                      match descend_mut path 1 card (k len1 i) with
                      | ROk (card', a) =>
                          ROk (set_fn m (ci_function idx) name
                                      (set_cards f (upd (f_cards f) b card')), a)
                      | RErr e => RErr e
                      | RPanic => RPanic
                      end
                  end
              end
          end
      end
  end.

Definition remove_card (m : module) (idx : card_index) : res (module * card) :=
  match nth_error (m_functions m) (ci_function idx) with
  | None => RErr FunctionNotFound
  | Some (name, f) =>
      if length (ci_indices idx) =? 1 then
        match nth_error (ci_indices idx) 0 with            (* indices[0] *)
        | None => RPanic
        | Some i0 =>
            if length (f_cards f) <=? i0 then RErr (CardNotFound 0)
            else match vec_remove (f_cards f) i0 with
                 | None => RPanic
                 | Some (cards', x) => ROk (set_fn m (ci_function idx) name (set_cards f cards'), x)
                 end
        end
      else
        edit_parent m idx name f
          (fun len1 i parent =>
             match remove_child parent i with
             | CSome (parent', x) => ROk (parent', x)
             | CNone => RErr (CardNotFound len1)
             | CPanic => RPanic
             end)
  end.

Definition insert_card (m : module) (idx : card_index) (child : card) : res (module * unit) :=
  match nth_error (m_functions m) (ci_function idx) with
  | None => RErr FunctionNotFound
  | Some (name, f) =>
      if length (ci_indices idx) =? 1 then
        match nth_error (ci_indices idx) 0 with
        | None => RPanic
        | Some i0 =>
            if length (f_cards f) <? i0 then RErr (CardNotFound 0)
            else match vec_insert (f_cards f) i0 child with
                 | None => RPanic
                 | Some cards' => ROk (set_fn m (ci_function idx) name (set_cards f cards'), tt)
                 end
        end
      else
        edit_parent m idx name f
          (fun len1 i parent =>
             match insert_child parent i child with
             | IOk parent' => ROk (parent', tt)
             | IErr _ => RErr (CardNotFound len1)
             | IPanic => RPanic
             end)
  end.

Inductive swap_res := SwOk | SwErr (e : swap_error) | SwPanic.

(* swap_cards before the repair cc4ee9f (finding A-25): no test for equal indices.
   Returns the module as the call leaves it (after a panic: as it was when the panic happened). *)
Definition swap_cards_legacy (m : module) (lhs0 rhs0 : card_index) : module * swap_res :=
  let '(lhs, rhs) := if ci_ltb lhs0 rhs0 then (rhs0, lhs0) else (lhs0, rhs0) in
  match replace_card m rhs CScalarNil with
  | RErr e => (m, SwErr (SwapFetchError rhs e))
  | RPanic => (m, SwPanic)
  | ROk (m1, rhs_card) =>
      match get_card m1 lhs with
      | RPanic => (m1, SwPanic)
      | RErr _ =>
          match replace_card m1 rhs rhs_card with          (* .unwrap() *)
          | ROk (m2, _) => (m2, SwErr InvalidSwap)
          | _ => (m1, SwPanic)
          end
      | ROk _ =>
          match replace_card m1 lhs rhs_card with          (* .unwrap() *)
          | ROk (m2, lhs_card) =>
              match replace_card m2 rhs lhs_card with      (* .unwrap() *)
              | ROk (m3, _) => (m3, SwOk)
              | _ => (m2, SwPanic)
              end
          | _ => (m1, SwPanic)
          end
      end
  end.

Definition swap_cards (m : module) (lhs rhs : card_index) : module * swap_res :=
  if ci_eqb lhs rhs then
    (* nothing to swap, but the card has to exist *)
    (m, match get_card m lhs with
        | ROk _ => SwOk
        | RErr e => SwErr (SwapFetchError lhs e)
        | RPanic => SwPanic
        end)
  else swap_cards_legacy m lhs rhs.

(* visit_children: push_subindex(0); for (k, child) in iter_children().enumerate()
   { set_current_index(k); op(id, child); visit_children(child) }; pop_subindex().
   Structural recursion forces the enumeration to be spelled out per kind;
   CardEditProofs.visit_children_unfold shows it is iter_children().enumerate(). *)
Fixpoint visit_children (c : card) (id : list nat) {struct c} : list (list nat * card) :=
  let fix vlist (l : list card) (k : nat) {struct l} : list (list nat * card) :=
      match l with
      | [] => []
      | ch :: t => ((id ++ [k], ch) :: visit_children ch (id ++ [k])) ++ vlist t (S k)
      end in
  match c with
  | CBin _ a b =>
      ((id ++ [0], a) :: visit_children a (id ++ [0])) ++
      ((id ++ [1], b) :: visit_children b (id ++ [1]))
  | CUn _ a => (id ++ [0], a) :: visit_children a (id ++ [0])
  | CTri _ a b c' =>
      ((id ++ [0], a) :: visit_children a (id ++ [0])) ++
      ((id ++ [1], b) :: visit_children b (id ++ [1])) ++
      ((id ++ [2], c') :: visit_children c' (id ++ [2]))
  | CSetGlobalVar _ v | CSetVar _ v => (id ++ [0], v) :: visit_children v (id ++ [0])
  | CRepeat _ n body =>
      ((id ++ [0], n) :: visit_children n (id ++ [0])) ++
      ((id ++ [1], body) :: visit_children body (id ++ [1]))
  | CForEach _ _ _ a b =>
      ((id ++ [0], a) :: visit_children a (id ++ [0])) ++
      ((id ++ [1], b) :: visit_children b (id ++ [1]))
  | CCallNative _ args | CCall _ args => vlist args 0
  | CComposite _ cards | CClosure _ cards | CArray cards => vlist cards 0
  | CDynamicCall f args =>
      ((id ++ [0], f) :: visit_children f (id ++ [0])) ++ vlist args 1
  | CScalarInt _ | CScalarFloat _ | CStringLiteral _ | CComment _ | CFunction _ | CCreateTable
  | CReadVar _ | CNativeFunction _ | CAbort | CScalarNil => []
  end.

Definition mk_index (f : nat) (p : list nat) : card_index := {| ci_function := f; ci_indices := p |}.

Fixpoint walk_fn_cards (fi : nat) (cards : list card) (j : nat) : list (card_index * card) :=
  match cards with
  | [] => []
  | c :: t =>
      ((mk_index fi [j], c) :: map (fun pc => (mk_index fi (fst pc), snd pc)) (visit_children c [j]))
      ++ walk_fn_cards fi t (S j)
  end.

Fixpoint walk_fns (fns : list (str * function)) (fi : nat) : list (card_index * card) :=
  match fns with
  | [] => []
  | (_, f) :: t => walk_fn_cards fi (f_cards f) 0 ++ walk_fns t (S fi)
  end.

(* walk_cards / walk_cards_mut: the functions of this module only, never the submodules *)
Definition walk_cards (m : module) : list (card_index * card) := walk_fns (m_functions m) 0.

(* ------------------------------------------------------------------------------------------ *)
(* one API call, as the correspondence harness issues them                                      *)

Inductive op :=
| OpGet (idx : card_index)
| OpGetMut (idx : card_index)
| OpInsert (idx : card_index) (c : card)
| OpRemove (idx : card_index)
| OpReplace (idx : card_index) (c : card)
| OpSwap (a b : card_index)
| OpWalk
| OpKids (idx : card_index) (upto : nat)            (* num_children, iter_children, get_child 0..upto-1 of the card get_card_mut finds at idx *)
| OpReplaceChild (idx : card_index) (i : nat) (c : card).   (* get_card_mut(idx)?.replace_child(i, c) *)

Inductive obs :=
| ObUnit                                                   (* Ok(()) *)
| ObCard (c : card)                                        (* Ok(card) *)
| ObErr (e : fetch_error)
| ObSwapErr (e : swap_error)
| ObWalk (l : list (card_index * card))
| ObKids (n : nat) (it : list card) (gets : list (option card))
| ObChildErr (returned : card)                             (* replace_child's Err(card) *)
| ObPanic.

Definition step (m : module) (o : op) : module * obs :=
  match o with
  | OpGet idx =>
      (m, match get_card m idx with ROk c => ObCard c | RErr e => ObErr e | RPanic => ObPanic end)
  | OpGetMut idx =>
      (m, match get_card_mut m idx with ROk c => ObCard c | RErr e => ObErr e | RPanic => ObPanic end)
  | OpInsert idx c =>
      match insert_card m idx c with
      | ROk (m', _) => (m', ObUnit)
      | RErr e => (m, ObErr e)
      | RPanic => (m, ObPanic)
      end
  | OpRemove idx =>
      match remove_card m idx with
      | ROk (m', x) => (m', ObCard x)
      | RErr e => (m, ObErr e)
      | RPanic => (m, ObPanic)
      end
  | OpReplace idx c =>
      match replace_card m idx c with
      | ROk (m', x) => (m', ObCard x)
      | RErr e => (m, ObErr e)
      | RPanic => (m, ObPanic)
      end
  | OpSwap a b =>
      let '(m', r) := swap_cards m a b in
      (m', match r with SwOk => ObUnit | SwErr e => ObSwapErr e | SwPanic => ObPanic end)
  | OpWalk => (m, ObWalk (walk_cards m))
  | OpKids idx upto =>
      (m, match get_card_mut m idx with
          | ROk c => ObKids (num_children c) (iter_children c) (map (get_child c) (seq 0 upto))
          | RErr e => ObErr e
          | RPanic => ObPanic
          end)
  | OpReplaceChild idx i c =>
      match with_card_mut m idx
              (fun parent => match replace_child parent i c with
                             | ReplOk parent' old => ROk (parent', ObCard old)
                             | ReplErr x => ROk (parent, ObChildErr x)
                             end) with
      | ROk (m', o) => (m', o)
      | RErr e => (m, ObErr e)
      | RPanic => (m, ObPanic)
      end
  end.

Fixpoint run (m : module) (ops : list op) : list (obs * module) :=
  match ops with
  | [] => []
  | o :: t => let '(m', ob) := step m o in (ob, m') :: run m' t
  end.
