(* C15, compile-time half, part 2b: the run list is COMPLETE and the classification of the entries is TOTAL.

   CompilerOwner.v produces, for a computation of the compiler monad, a ghost list of process_card runs and
   attributes every pushed instruction to the innermost run that contains it.  Nothing there says that the list
   holds every activation of process_card.  Here the triple is strengthened ([JF]):

   - [subcards idx c] enumerates, in the order in which the compiler visits them, every card position of the
     tree below the card c that sits at index idx (c itself first, then the sub-trees of its children, numbered
     as Card::get_child numbers them).  process_card recurses structurally, once per child, so these are exactly
     its activations; the triple shows [map rkey runs = subcards idx c] for a run of process_card on c at idx:
     the run list IS that enumeration - one run per card position, none missing, none twice;
   - every pushed instruction is recorded with its opcode; the innermost run r that contains its address
     carries EXACTLY the location [own_idx]: the index of r's card, except when r's card is While / IfTrue /
     IfFalse / IfElse ([quirk], finding N-C15-4): these four cards push nothing but jumps, and all of them under
     the index of their child 1; [own_ops] bounds the opcode (quirk: a jump; CallFunction only for Call /
     DynamicCall cards). *)
From Coq Require Import List NArith ZArith Bool Lia.
From Cao Require Import ListUtil CheckUtil Bits CardAst Bytecode Compiler CompilerGen Wellformed
     CompilerProofs CompilerWf CompilerTrace CompilerLabels CompilerOwner.
From Cao Require CardEdit.
Import ListNotations.
Local Open Scope N_scope.

(* ------------------------------------------------------------------ opcodes *)
Definition is_callf_op (o : opcode) : bool := match o with OpCallFunction => true | _ => false end.
Definition is_jump_op (o : opcode) : bool :=
  match o with OpGoto | OpGotoIfTrue | OpGotoIfFalse => true | _ => false end.
Definition plain_op (o : opcode) : bool := negb (is_callf_op o) && negb (is_jump_op o).

(* start address and opcode of every instruction of a buffer (newest first) that ends at byte [pc] *)
Fixpoint oaddrs (code : list instr) (pc : N) : list (N * opcode) :=
  match code with
  | [] => []
  | i :: r => (pc - spanN i, instr_op i) :: oaddrs r (pc - spanN i)
  end.

Lemma set_jump_target_op i z i' : set_jump_target i z = Some i' -> instr_op i' = instr_op i.
Proof. destruct i; cbn; intros H; try discriminate; injection H as <-; reflexivity. Qed.

Lemma oaddrs_patch code : forall cur at_pc z code',
  patch_code code cur at_pc z = Some code' -> oaddrs code' cur = oaddrs code cur.
Proof.
  induction code as [|i r IH]; intros cur at_pc z code' H; cbn [patch_code] in H; [discriminate|].
  fold (spanN i) in H.
  destruct (_ =? at_pc).
  - destruct (set_jump_target i z) as [i'|] eqn:Ej; [|discriminate]. injection H as <-.
    cbn [oaddrs]. unfold spanN. rewrite (set_jump_target_span _ _ _ Ej), (set_jump_target_op _ _ _ Ej).
    reflexivity.
  - destruct (_ <? at_pc); [discriminate|].
    destruct (patch_code r _ at_pc z) as [r'|] eqn:Er; [|discriminate]. injection H as <-.
    cbn [oaddrs]. rewrite (IH _ _ _ _ Er). reflexivity.
Qed.

(* ------------------------------------------------------------------ the card positions below a card *)
Fixpoint subcards (idx : list N) (c : card) {struct c} : list (list N * card) :=
  let fix go (l : list card) (i : N) {struct l} : list (list N * card) :=
      match l with
      | [] => []
      | x :: r => subcards (i :: idx) x ++ go r (i + 1)
      end in
  (idx, c) ::
  match c with
  | CBin _ a b => subcards (0 :: idx) a ++ subcards (1 :: idx) b
  | CUn _ a => subcards (0 :: idx) a
  | CTri _ a b c' => subcards (0 :: idx) a ++ subcards (1 :: idx) b ++ subcards (2 :: idx) c'
  | CCallNative _ args => go args 0
  | CCall _ args => go args 0
  | CDynamicCall f args => go args 1 ++ subcards (0 :: idx) f     (* the arguments are compiled first *)
  | CSetGlobalVar _ v => subcards (0 :: idx) v
  | CSetVar _ v => subcards (0 :: idx) v
  | CRepeat _ n body => subcards (0 :: idx) n ++ subcards (1 :: idx) body
  | CForEach _ _ _ a b => subcards (0 :: idx) a ++ subcards (1 :: idx) b
  | CComposite _ l => go l 0
  | CArray l => go l 0
  | CClosure _ l => go l 0
  | _ => []
  end.

(* the positions below the cards [l], numbered from [i], under the index [idx] *)
Fixpoint subcards_list (idx : list N) (l : list card) (i : N) {struct l} : list (list N * card) :=
  match l with
  | [] => []
  | x :: r => subcards (i :: idx) x ++ subcards_list idx r (i + 1)
  end.

Lemma subcards_go idx l : forall i,
  (fix go (l : list card) (i : N) {struct l} : list (list N * card) :=
     match l with
     | [] => []
     | x :: r => subcards (i :: idx) x ++ go r (i + 1)
     end) l i = subcards_list idx l i.
Proof. induction l as [|x r IH]; intros i; cbn [subcards_list]; [reflexivity | rewrite IH; reflexivity]. Qed.

Definition rkey (r : run) : list N * card := (r_idx r, r_card r).

(* ------------------------------------------------------------------ the exact location of an own instruction *)
Definition own_idx (c : card) (idx : list N) : list N := if quirk c then 1 :: idx else idx.
Definition own_ops (c : card) (o : opcode) : bool :=
  if quirk c then is_jump_op o else is_call_card c || negb (is_callf_op o).

(* a pushed instruction: ((address, recorded location), opcode) *)
Definition oentry : Type := (N * loc * opcode)%type.
Definition oaddr (x : oentry) : N * opcode := (fst (fst x), snd x).

Definition attrF (runs : list run) (allowed : list (list N * (opcode -> bool))) (ns : list str) (fn : nat)
           (lo hi : N) (x : oentry) : Prop :=
  let a := fst (fst x) in let l := snd (fst x) in let o := snd x in
  lo <= a < hi /\
  ((exists r, deepest runs r a /\ l = mkl ns fn (own_idx (r_card r) (r_idx r)) /\ own_ops (r_card r) o = true)
   \/ ((forall r, In r runs -> ~ in_run r a) /\
       exists i ok, In (i, ok) allowed /\ l = mkl ns fn i /\ ok o = true)).

(* ------------------------------------------------------------------ the triple *)
Definition JF {A} (cards : list card) (idx : list N) (ctx : list card) (idx' : list N) (ctx' : list card)
           (allowed : list (list N * (opcode -> bool))) (keys : list (list N * card)) (m : M A) : Prop :=
  forall s, cs_idx s = idx -> at_ctx cards idx ctx -> cs_pc s = bytes (cs_code s) ->
    match m s with
    | ROk _ s' =>
        cs_idx s' = idx' /\ at_ctx cards idx' ctx' /\ cs_fn s' = cs_fn s /\ cs_ns s' = cs_ns s /\
        cs_pc s' = bytes (cs_code s') /\ cs_pc s <= cs_pc s' /\
        (cs_pc s' <= two32 ->
         exists newx runs,
           cs_trace s' = map fst newx ++ cs_trace s /\
           oaddrs (cs_code s') (cs_pc s') = map oaddr newx ++ oaddrs (cs_code s) (cs_pc s) /\
           runs_in cards (cs_ns s) (cs_fn s) (cs_pc s) (cs_pc s') (cs_trace s) (cs_trace s') runs /\
           map rkey runs = keys /\
           Forall (attrF runs allowed (cs_ns s) (cs_fn s) (cs_pc s) (cs_pc s')) newx)
    | _ => True
    end.

Lemma JF_keys {A} cards i0 c0 i1 c1 al k k' (m : M A) :
  JF cards i0 c0 i1 c1 al k m -> k = k' -> JF cards i0 c0 i1 c1 al k' m.
Proof. intros H <-. exact H. Qed.

Lemma JF_ret {A} cards idx ctx allowed (a : A) : JF cards idx ctx idx ctx allowed [] (ret a).
Proof.
  intros s Hi Hat Hpc. cbn. repeat split; auto; try lia. intros _. exists [], [].
  repeat split; constructor.
Qed.

Lemma attrF_extend_r runs more allowed ns fn lo mid hi x :
  mid <= hi -> (forall r, In r more -> mid <= r_lo r) ->
  attrF runs allowed ns fn lo mid x -> attrF (runs ++ more) allowed ns fn lo hi x.
Proof.
  intros Hmh Hmore (Hr & H). split; [lia|]. destruct H as [(r & (Hin & Hir & Hd) & Ho)|(Hout & Hp)].
  - left. exists r. split; [|exact Ho]. split; [apply in_or_app; left; exact Hin|]. split; [exact Hir|].
    intros r' Hr' Hir'. apply in_app_or in Hr'. destruct Hr' as [Hr'|Hr']; [apply Hd; assumption|].
    specialize (Hmore r' Hr'). unfold in_run in Hir'. lia.
  - right. split; [|exact Hp]. intros r Hin. apply in_app_or in Hin. destruct Hin as [Hin|Hin]; [apply Hout, Hin|].
    specialize (Hmore r Hin). unfold in_run. lia.
Qed.
Lemma attrF_extend_l runs more allowed ns fn lo mid hi x :
  lo <= mid -> (forall r, In r more -> r_hi r <= mid) ->
  attrF runs allowed ns fn mid hi x -> attrF (more ++ runs) allowed ns fn lo hi x.
Proof.
  intros Hlm Hmore (Hr & H). split; [lia|]. destruct H as [(r & (Hin & Hir & Hd) & Ho)|(Hout & Hp)].
  - left. exists r. split; [|exact Ho]. split; [apply in_or_app; right; exact Hin|]. split; [exact Hir|].
    intros r' Hr' Hir'. apply in_app_or in Hr'. destruct Hr' as [Hr'|Hr']; [|apply Hd; assumption].
    specialize (Hmore r' Hr'). unfold in_run in Hir'. lia.
  - right. split; [|exact Hp]. intros r Hin. apply in_app_or in Hin. destruct Hin as [Hin|Hin]; [|apply Hout, Hin].
    specialize (Hmore r Hin). unfold in_run. lia.
Qed.

Lemma JF_bind {A B} cards i0 c0 i1 c1 i2 c2 allowed k1 k2 (m : M A) (f : A -> M B) :
  JF cards i0 c0 i1 c1 allowed k1 m -> (forall a, JF cards i1 c1 i2 c2 allowed k2 (f a)) ->
  JF cards i0 c0 i2 c2 allowed (k1 ++ k2) (bind m f).
Proof.
  intros Hm Hf s Hi Hat Hpc. unfold bind. specialize (Hm s Hi Hat Hpc).
  destruct (m s) as [a s1| | |]; auto.
  destruct Hm as (Hi1 & Hat1 & Hfn1 & Hns1 & Hpc1 & Hle1 & H1).
  specialize (Hf a s1 Hi1 Hat1 Hpc1). destruct (f a s1) as [b s2| | |]; auto.
  destruct Hf as (Hi2 & Hat2 & Hfn2 & Hns2 & Hpc2 & Hle2 & H2).
  repeat split; try congruence; try lia.
  intros Hg. destruct (H1 ltac:(lia)) as (n1 & r1 & Ht1 & Ha1 & Hr1 & Hk1 & Hx1).
  destruct (H2 Hg) as (n2 & r2 & Ht2 & Ha2 & Hr2 & Hk2 & Hx2).
  rewrite Hns1, Hfn1 in Hr2, Hx2.
  exists (n2 ++ n1), (r1 ++ r2). rewrite !map_app, <- !app_assoc.
  split; [rewrite Ht2, Ht1; reflexivity|]. split; [rewrite Ha2, Ha1; reflexivity|]. split; [|split].
  - apply Forall_app. split.
    + eapply runs_in_widen; [| | | |exact Hr1]; [lia | lia | exists []; reflexivity | exists (map fst n2); exact Ht2].
    + eapply runs_in_widen; [| | | |exact Hr2]; [lia | lia | exists (map fst n1); exact Ht1 | exists []; reflexivity].
  - rewrite Hk1, Hk2. reflexivity.
  - apply Forall_app. split.
    + eapply Forall_impl; [|exact Hx2]. intros x Hx. eapply attrF_extend_l; [exact Hle1| |exact Hx].
      intros r Hr. unfold runs_in in Hr1. rewrite Forall_forall in Hr1. destruct (Hr1 r Hr) as (_ & _ & _ & H). exact H.
    + eapply Forall_impl; [|exact Hx1]. intros x Hx. eapply attrF_extend_r; [exact Hle2| |exact Hx].
      intros r Hr. unfold runs_in in Hr2. rewrite Forall_forall in Hr2. destruct (Hr2 r Hr) as (_ & H & _). exact H.
Qed.

Lemma JF_bind_nil {A B} cards i0 c0 i1 c1 i2 c2 allowed k1 (m : M A) (f : A -> M B) :
  JF cards i0 c0 i1 c1 allowed k1 m -> (forall a, JF cards i1 c1 i2 c2 allowed [] (f a)) ->
  JF cards i0 c0 i2 c2 allowed k1 (bind m f).
Proof. intros H1 H2. eapply JF_keys; [eapply JF_bind; eauto | apply app_nil_r]. Qed.

(* ---- operations that touch neither the code, the trace nor the position ---- *)
Lemma JF_frame {A} cards idx ctx allowed (m : M A) : frame3 m -> framePC m -> JF cards idx ctx idx ctx allowed [] m.
Proof.
  intros H3 HP s Hi Hat Hpc. specialize (H3 s). specialize (HP s). destruct (m s) as [a s'| | |]; auto.
  destruct H3 as (a1 & a2 & a3 & a4), HP as (b1 & b2).
  repeat split; try congruence; try lia. intros _. exists [], [].
  cbn [map app]. rewrite a4, b1, b2. repeat split; constructor.
Qed.

Lemma JF_patch cards idx ctx allowed q : JF cards idx ctx idx ctx allowed [] (patch_jump_here q).
Proof.
  intros s Hi Hat Hpc. unfold patch_jump_here.
  destruct (patch_code (cs_code s) (cs_pc s) q (u32_to_i32 (cs_pc s))) as [code'|] eqn:E; [|exact I].
  cbn [cs_idx cs_fn cs_ns cs_pc cs_code cs_trace set_code].
  repeat split; auto; try lia.
  - rewrite (CompilerLabels.patch_code_bytes _ _ _ _ _ E). exact Hpc.
  - intros _. exists [], []. cbn [map app]. rewrite (oaddrs_patch _ _ _ _ _ E). repeat split; constructor.
Qed.

(* ---- pushing an instruction ---- *)
Definition may_pushF (idx : list N) (allowed : list (list N * (opcode -> bool))) (i : instr) : Prop :=
  exists ok, In (idx, ok) allowed /\ ok (instr_op i) = true.

Lemma JF_push_instr cards idx ctx allowed i :
  may_pushF idx allowed i -> JF cards idx ctx idx ctx allowed [] (push_instr i).
Proof.
  intros (ok & Hin & Hok) s Hi Hat Hpc. rewrite push_instr_eq. unfold pushed.
  cbn [cs_idx cs_fn cs_ns cs_pc cs_code cs_trace set_code set_trace]. fold (spanN i).
  pose proof (spanN_pos i) as Hsp.
  repeat split; auto; try lia.
  - cbn [bytes]. lia.
  - intros Hg. exists [((cs_pc s mod two32, cur_loc s), instr_op i)], [].
    assert (Hm : cs_pc s mod two32 = cs_pc s) by (apply N.mod_small; lia).
    cbn [map fst app oaddrs]. unfold oaddr. cbn [fst snd]. rewrite Hm.
    replace (cs_pc s + spanN i - spanN i) with (cs_pc s) by lia.
    split; [reflexivity|]. split; [reflexivity|]. split; [constructor|]. split; [reflexivity|].
    constructor; [|constructor]. split; [cbn [fst snd]; lia|]. cbn [fst snd].
    right. split; [intros r []|]. exists idx, ok. rewrite cur_loc_mkl, Hi. auto.
Qed.

Lemma JF_push_sub cards idx c c' ctx allowed i :
  CardEdit.get_child c (N.to_nat i) = Some c' ->
  JF cards idx (c :: ctx) (i :: idx) (c' :: c :: ctx) allowed [] (push_sub i).
Proof.
  intros Hc s Hi Hat Hpc. cbn. rewrite Hi. repeat split; auto; try lia; [constructor; auto|].
  intros _. exists [], []. repeat split; constructor.
Qed.
Lemma JF_pop_sub cards i idx c c' ctx allowed :
  JF cards (i :: idx) (c' :: c :: ctx) idx (c :: ctx) allowed [] pop_sub.
Proof.
  intros s Hi Hat Hpc. cbn. rewrite Hi. cbn [tl]. inversion Hat; subst.
  repeat split; auto; try lia. intros _. exists [], []. repeat split; constructor.
Qed.
Lemma JF_with_sub {cards idx c c' ctx allowed k} i m :
  CardEdit.get_child c (N.to_nat i) = Some c' ->
  JF cards (i :: idx) (c' :: c :: ctx) (i :: idx) (c' :: c :: ctx) allowed k m ->
  JF cards idx (c :: ctx) idx (c :: ctx) allowed k (with_sub i m).
Proof.
  intros Hc Hm. unfold with_sub.
  eapply JF_keys; [eapply JF_bind; [apply JF_push_sub, Hc | intros _];
                   eapply JF_bind; [exact Hm | intros _; apply JF_pop_sub]|].
  cbn [app]. apply app_nil_r.
Qed.

(* ---- closing a card: the instructions pending under [own_idx] become the own instructions of its run ---- *)
Definition own_allowedF (c : card) (idx : list N) : list (list N * (opcode -> bool)) :=
  [(own_idx c idx, own_ops c)].

Definition card_jf (cards : list card) (c : card) : Prop :=
  forall idx ctx al, JF cards idx (c :: ctx) idx (c :: ctx) al (subcards idx c) (process_card c).

Lemma JF_close cards c idx ctx k :
  JF cards idx (c :: ctx) idx (c :: ctx) (own_allowedF c idx) k (process_card c) ->
  forall al, JF cards idx (c :: ctx) idx (c :: ctx) al ((idx, c) :: k) (process_card c).
Proof.
  intros H al s Hi Hat Hpc. specialize (H s Hi Hat Hpc).
  destruct (process_card c s) as [[] s'| | |] eqn:Erun; auto.
  destruct H as (h1 & h2 & h3 & h4 & h5 & h6 & H). repeat split; auto.
  intros Hg. destruct (H Hg) as (n & runs & Ht & Ha & Hr & Hk & Hx).
  set (self := mkrun idx c (cs_pc s) (cs_pc s')).
  exists n, (self :: runs). split; [exact Ht|]. split; [exact Ha|]. split; [|split].
  - constructor; [|exact Hr]. cbn [r_lo r_hi self]. split; [|lia].
    exists ctx, s, s'. cbn [r_idx r_card r_lo r_hi self].
    repeat (split; [solve [auto]|]). split; exists []; reflexivity.
  - cbn [map]. rewrite Hk. reflexivity.
  - eapply Forall_impl; [|exact Hx]. intros [[a l] b] (Hrg & Hx1). cbn [fst snd] in *. split; [exact Hrg|].
    left. destruct Hx1 as [(r & (Hin & Hir & Hd) & Ho)|(Hout & i & ok & Hin & Hl & Hb)].
    + exists r. split; [|exact Ho]. split; [right; exact Hin|]. split; [exact Hir|].
      intros r' [<-|Hr'] Hir'; [|apply Hd; assumption]. cbn [r_lo r_hi self].
      unfold runs_in in Hr. rewrite Forall_forall in Hr. destruct (Hr r Hin) as (_ & q1 & q2 & q3). lia.
    + exists self. split.
      * split; [left; reflexivity|]. split; [exact Hrg|].
        intros r' [<-|Hr'] Hir'; [lia | destruct (Hout r' Hr' Hir')].
      * unfold own_allowedF in Hin. cbn [r_idx r_card self]. destruct Hin as [E|[]].
        injection E as <- <-. split; [exact Hl | exact Hb].
Qed.

(* ------------------------------------------------------------------ derived rules *)
(* instructions that are neither CallFunction nor a jump may be pushed under [idx] *)
Definition okidxF (idx : list N) (allowed : list (list N * (opcode -> bool))) : Prop :=
  exists ok, In (idx, ok) allowed /\ forall o, plain_op o = true -> ok o = true.

Lemma may_push_plain idx al i : plain_op (instr_op i) = true -> okidxF idx al -> may_pushF idx al i.
Proof. intros Hc (ok & Hin & H). exists ok. split; [exact Hin | apply H, Hc]. Qed.

Ltac jframeF := apply JF_frame; [solve [frame3_tac] | solve [framePC_tac]].
Ltac knil := cbn [app]; rewrite ?app_nil_r; reflexivity.

Lemma JF_push_plain cards idx ctx al i :
  plain_op (instr_op i) = true -> okidxF idx al -> JF cards idx ctx idx ctx al [] (push_instr i).
Proof. intros H1 H2. apply JF_push_instr, may_push_plain; assumption. Qed.

Lemma JF_push_string cards idx ctx al mk st :
  (forall x, plain_op (instr_op (mk x)) = true) -> okidxF idx al -> JF cards idx ctx idx ctx al [] (push_string mk st).
Proof.
  intros Hmk Hok. unfold push_string.
  eapply JF_bind_nil; [jframeF | intros s0].
  eapply JF_bind_nil; [apply JF_push_plain; auto | intros _].
  apply JF_frame.
  - intros s. destruct (two32 <=? N.of_nat (length st)); cbn; [exact I | unfold same3; cbn; repeat split; reflexivity].
  - intros s. destruct (two32 <=? N.of_nat (length st)); cbn; auto.
Qed.

Lemma JF_push_raws cards idx ctx al is :
  Forall (fun i => plain_op (instr_op i) = true) is -> okidxF idx al -> JF cards idx ctx idx ctx al [] (push_raws is).
Proof.
  intros Hall Hok. induction Hall as [|i r Hi _ IH]; cbn [push_raws]; [apply JF_ret|].
  eapply JF_keys; [eapply JF_bind; [apply JF_push_plain; auto | intros _; exact IH] | reflexivity].
Qed.
Lemma pop_locals_plain rls d : Forall (fun i => plain_op (instr_op i) = true) (snd (pop_locals rls d)).
Proof.
  induction rls as [|l r IH]; cbn [pop_locals]; [constructor|].
  destruct (d <? l_depth l)%Z; [|constructor]. destruct (pop_locals r d) as [r' is]. cbn [snd] in *.
  constructor; [destruct (l_captured l); reflexivity | exact IH].
Qed.
Lemma JF_scope_end cards idx ctx al : okidxF idx al -> JF cards idx ctx idx ctx al [] scope_end.
Proof.
  intros Hok s Hi Hat Hpc. unfold scope_end.
  set (ds := map_hd _ (cs_depth s)). set (rlis := pop_locals _ _). set (s1 := set_scopes _ _ _ s).
  exact (JF_push_raws cards idx ctx al (snd rlis) (pop_locals_plain _ _) Hok s1 Hi Hat Hpc).
Qed.

Lemma JF_encode_if_then cards idx ctx al skip body k :
  (forall z, may_pushF idx al (skip z)) ->
  JF cards idx ctx idx ctx al k body -> JF cards idx ctx idx ctx al k (encode_if_then skip body).
Proof.
  intros Hs Hb. unfold encode_if_then. eapply JF_keys.
  - eapply JF_bind; [jframeF | intros q].
    eapply JF_bind; [apply JF_push_instr, Hs | intros _].
    eapply JF_bind; [exact Hb | intros _]. apply JF_patch.
  - knil.
Qed.

Lemma JF_read_props cards idx ctx al props : okidxF idx al -> JF cards idx ctx idx ctx al [] (read_props props).
Proof.
  intros Hok. induction props as [|x r IH]; cbn [read_props]; [apply JF_ret|].
  eapply JF_keys; [eapply JF_bind; [|intros _; exact IH] | knil].
  destruct (is_empty x); [apply JF_ret|].
  eapply JF_keys; [eapply JF_bind; [apply JF_push_string; auto | intros _; apply JF_push_plain; auto] | knil].
Qed.
Lemma JF_read_var_card cards idx ctx al v : okidxF idx al -> JF cards idx ctx idx ctx al [] (read_var_card v).
Proof.
  intros Hok. unfold read_var_card.
  destruct (match split_once_c c_dot v with Some (v0, p0) => (v0, p0) | None => (v, []) end) as [v0 props].
  eapply JF_keys; [eapply JF_bind; [jframeF | intros scope];
                   eapply JF_bind; [|intros _; apply JF_read_props, Hok] | knil].
  destruct scope.
  - eapply JF_keys; [eapply JF_bind; [jframeF | intros id; apply JF_push_plain; auto] | knil].
  - apply JF_push_plain; auto.
  - apply JF_push_plain; auto.
Qed.
Lemma JF_bind_loop_var cards idx ctx al o src : okidxF idx al -> JF cards idx ctx idx ctx al [] (bind_loop_var o src).
Proof.
  intros Hok. destruct o; cbn [bind_loop_var]; [|apply JF_ret].
  eapply JF_keys; [eapply JF_bind; [jframeF | intros x];
                   eapply JF_bind; [apply JF_push_plain; auto | intros _; apply JF_push_plain; auto] | knil].
Qed.
Lemma JF_emit_upvalues cards idx ctx al ups : okidxF idx al -> JF cards idx ctx idx ctx al [] (emit_upvalues ups).
Proof.
  intros Hok. induction ups as [|u r IH]; cbn [emit_upvalues]; [apply JF_ret|].
  eapply JF_keys; [eapply JF_bind; [apply JF_push_plain; auto | intros _];
                   eapply JF_bind; [apply JF_push_plain; auto | intros _; exact IH] | knil].
Qed.
Lemma JF_process_leaf cards idx ctx al i :
  plain_op (instr_op i) = true -> okidxF idx al -> JF cards idx ctx idx ctx al [] (process_leaf i).
Proof.
  intros Hc Hok. unfold process_leaf.
  eapply JF_keys; [eapply JF_bind; [jframeF | intros _; apply JF_push_plain; auto] | knil].
Qed.

(* ------------------------------------------------------------------ induction over cards *)
Section Cards.
  Variable cards : list card.

  Lemma JF_subexpr parent idx ctx al l : Forall (card_jf cards) l -> forall i,
    (forall k x, nth_error l k = Some x -> CardEdit.get_child parent (N.to_nat i + k) = Some x) ->
    JF cards idx (parent :: ctx) idx (parent :: ctx) al (subcards_list idx l i)
      ((fix subexpr (l : list card) (i : N) {struct l} : M unit :=
          match l with
          | [] => ret tt
          | x :: r => with_sub i (process_card x) ;; subexpr r (i + 1)
          end) l i).
  Proof.
    induction 1 as [|x r Hx _ IH]; intros i Hc; [apply JF_ret|]. cbn [subcards_list].
    eapply JF_bind.
    - apply (JF_with_sub (c' := x) i); [|apply Hx].
      rewrite <- (Nat.add_0_r (N.to_nat i)). apply (Hc 0%nat x). reflexivity.
    - intros _. apply IH. intros k y Hk.
      replace (N.to_nat (i + 1) + k)%nat with (N.to_nat i + S k)%nat by lia. apply (Hc (S k) y Hk).
  Qed.

  Lemma JF_array_items parent idx ctx al tv l : okidxF idx al -> Forall (card_jf cards) l -> forall i,
    (forall k x, nth_error l k = Some x -> CardEdit.get_child parent (N.to_nat i + k) = Some x) ->
    JF cards idx (parent :: ctx) idx (parent :: ctx) al (subcards_list idx l i)
      ((fix items (l : list card) (i : N) {struct l} : M unit :=
         match l with
         | [] => ret tt
         | x :: r =>
             push_instr IScalarNil ;;
             with_sub i (process_card x) ;;
             read_local tv ;;
             push_instr IAppendTable ;;
             items r (i + 1)
         end) l i).
  Proof.
    intros Hok. induction 1 as [|x r Hx _ IH]; intros i Hc; [apply JF_ret|]. cbn [subcards_list].
    eapply JF_keys.
    - eapply JF_bind; [apply JF_push_plain; auto | intros _].
      eapply JF_bind.
      + apply (JF_with_sub (c' := x) i); [|apply Hx].
        rewrite <- (Nat.add_0_r (N.to_nat i)). apply (Hc 0%nat x). reflexivity.
      + intros _. eapply JF_bind; [apply JF_push_plain; auto | intros _].
        eapply JF_bind; [apply JF_push_plain; auto | intros _].
        apply IH. intros k y Hk.
        replace (N.to_nat (i + 1) + k)%nat with (N.to_nat i + S k)%nat by lia. apply (Hc (S k) y Hk).
    - cbn [app]. reflexivity.
  Qed.

  Ltac okF :=
    first [ reflexivity
          | let o := fresh "o" in let Ho := fresh "Ho" in
            intros o Ho;
            first [ reflexivity
                  | unfold plain_op in *; apply andb_true_iff in Ho; destruct Ho as [Ho _]; cbn in *; exact Ho ] ].
  Ltac sideF :=
    unfold may_pushF, okidxF, own_allowedF, own_idx, own_ops; cbn [quirk is_call_card In instr_op];
    first [ solve [intros; reflexivity]
          | solve [intros; eexists; split; [left; reflexivity | cbn; okF]] ].

  Ltac stepF :=
    first
      [ apply JF_ret
      | apply JF_pop_sub
      | apply JF_patch
      | apply JF_push_instr; solve [sideF]
      | apply JF_push_string; [solve [sideF] | solve [sideF]]
      | apply JF_scope_end; solve [sideF]
      | apply JF_read_var_card; solve [sideF]
      | apply JF_bind_loop_var; solve [sideF]
      | apply JF_emit_upvalues; solve [sideF]
      | apply JF_process_leaf; [reflexivity | solve [sideF]]
      | match goal with H : card_jf _ ?c |- JF _ _ _ _ _ _ _ (process_card ?c) => apply H end
      | eapply JF_with_sub; [reflexivity|]
      | apply JF_push_sub; reflexivity
      | apply JF_subexpr; [assumption | intros ? ? Hk; cbn; exact Hk]
      | apply JF_encode_if_then; [solve [sideF] |]
      | jframeF
      | match goal with |- JF _ _ _ _ _ _ _ (bind _ _) => eapply JF_bind; [|intros ?] end ].

  (* the keys collected by the rules, against [subcards] of a constructor *)
  Ltac keysF :=
    cbn [subcards app]; rewrite ?subcards_go; cbn [app]; rewrite ?app_nil_r, <- ?app_assoc; cbn [app];
    reflexivity.

  Ltac cardF := eapply JF_keys; [apply JF_close; cbn [process_card]; repeat stepF | keysF].

  Lemma process_card_jf c : card_jf cards c.
  Proof.
    induction c using card_ind'; intros idx ctx al.
    - (* CBin *) destruct op; cardF.
    - destruct op; cardF.
    - destruct op; cardF.
    - cardF.
    - cardF.
    - cardF.
    - cardF.
    - cardF.
    - cardF.
    - cardF.
    - cardF.
    - cardF.
    - cardF.
    - (* CCallNative *) cardF.
    - (* CCall *) cardF.
    - (* CDynamicCall *)
      eapply JF_keys.
      { apply JF_close; cbn [process_card].
        eapply JF_bind; [stepF | intros _]. eapply JF_bind.
        { apply JF_subexpr; [assumption|]. intros k x Hk. unfold CardEdit.get_child.
          change (N.to_nat 1 + k)%nat with (S k). cbn [Nat.eqb Nat.sub]. rewrite Nat.sub_0_r. exact Hk. }
        intros _. repeat stepF. }
      keysF.
    - (* CSetGlobalVar *)
      eapply JF_keys.
      { apply JF_close; cbn [process_card].
        eapply JF_bind; [stepF | intros _]. eapply JF_bind_nil; [repeat stepF | intros _].
        destruct (is_empty n); [jframeF|].
        eapply JF_keys; [repeat stepF | knil]. }
      keysF.
    - (* CSetVar *)
      eapply JF_keys.
      { apply JF_close; cbn [process_card].
        eapply JF_bind; [stepF | intros _]. eapply JF_bind_nil; [repeat stepF | intros _].
        destruct (rsplit_once_c c_dot n) as [[rp sp]|]; [eapply JF_keys; [repeat stepF | knil]|].
        eapply JF_bind_nil; [jframeF | intros var].
        destruct var; (eapply JF_keys; [repeat stepF | knil]). }
      keysF.
    - (* CRepeat *) cardF.
    - (* CForEach *) cardF.
    - (* CComposite *) cardF.
    - (* CArray *)
      eapply JF_keys.
      { apply JF_close; cbn [process_card].
        eapply JF_bind; [stepF | intros _]. eapply JF_bind; [stepF | intros _].
        eapply JF_bind; [stepF | intros tv]. eapply JF_bind; [stepF | intros _].
        eapply JF_bind.
        { apply JF_array_items; [sideF | assumption|]. intros k x Hk. cbn. exact Hk. }
        intros _; stepF. }
      keysF.
    - (* CClosure *) cardF.
  Qed.
End Cards.
