(* Second invariant of the compiler model: every emitted instruction has operands in the range of
   their machine types ([instr_ok]) and local / upvalue indices below 255, provided the integer and
   float literals of the module fit i64 / 64 bits.  With CompilerWf this makes the decoder return
   exactly the emitted instruction list (compile_decodes). *)
From Coq Require Import List NArith ZArith Bool Lia.
From Cao Require Import ListUtil CheckUtil Bits CardAst Bytecode Compiler CompilerGen StdlibGen Wellformed
     CompilerProofs CompilerWf.
From Cao Require Export BitsProofs.
Import ListNotations.
Local Open Scope N_scope.

(* ------------------------------------------------------------------ ranges of hashes *)
Lemma land_mask32_lt x : N.land x mask32 < two32.
Proof.
  change mask32 with (N.ones 32). rewrite N.land_ones. apply N.mod_lt. discriminate.
Qed.
Lemma non_zero_lt x : x < two32 -> non_zero x < two32.
Proof. unfold non_zero, nonzero_hash. destruct (x =? 0); [reflexivity | auto]. Qed.
Lemma handle_of_bytes_lt bs : handle_of_bytes bs < two32.
Proof. unfold handle_of_bytes, fnv_bytes. apply non_zero_lt, land_mask32_lt. Qed.
Lemma hash_u64_lt k m : hash_u64 k m < two32.
Proof. unfold hash_u64. apply non_zero_lt, N.mod_lt. discriminate. Qed.
Lemma handle_from_u64_lt k : handle_from_u64 k < two32.
Proof. unfold handle_from_u64. apply hash_u64_lt. Qed.
Lemma handle_from_u32_lt k : handle_from_u32 k < two32.
Proof. unfold handle_from_u32. apply hash_u64_lt. Qed.
Lemma lxor_lt32 a b : a < two32 -> b < two32 -> N.lxor a b < two32.
Proof.
  intros Ha Hb. destruct (N.eq_dec (N.lxor a b) 0) as [E|E]; [rewrite E; reflexivity|].
  change two32 with (2 ^ 32). apply N.log2_lt_pow2; [lia|].
  pose proof (N.log2_lxor a b) as H.
  assert (La : N.log2 a < 32).
  { destruct (N.eq_dec a 0) as [->|Na]; [reflexivity|]. apply N.log2_lt_pow2; [lia | exact Ha]. }
  assert (Lb : N.log2 b < 32).
  { destruct (N.eq_dec b 0) as [->|Nb]; [reflexivity|]. apply N.log2_lt_pow2; [lia | exact Hb]. }
  destruct (N.max_spec (N.log2 a) (N.log2 b)) as [[_ Em]|[_ Em]]; rewrite Em in H; lia.
Qed.

Lemma handle_add_lt a b : a < two32 -> b < two32 -> handle_add a b < two32.
Proof. intros Ha Hb. unfold handle_add. apply non_zero_lt, lxor_lt32; assumption. Qed.
(* 3f22e7c: handles are never 0 - BitsProofs.handle_of_bytes_neq, hash_u64_neq, handle_add_neq,
   handle_from_u64_neq, handle_from_u32_neq (exported below) *)

Global Opaque hash_u64 handle_from_u64 handle_from_u32 handle_of_bytes handle_add.

Lemma u32_to_i32_range n : (- 2147483648 <= u32_to_i32 n < 2147483648)%Z.
Proof.
  unfold u32_to_i32, two32. cbv zeta.
  assert (H : n mod 4294967296 < 4294967296) by (apply N.mod_lt; discriminate).
  set (x := n mod 4294967296) in *. clearbody x.
  destruct (Z.ltb_spec (Z.of_N x) 2147483648); lia.
Qed.

(* ------------------------------------------------------------------ instruction ranges *)
Definition fits32 (x : N) : Prop := x < two32.
Definition small (x : N) : Prop := x < 255.

Lemma fits4 x : x < two32 -> fits 4 x.
Proof. unfold fits. change (256 ^ N.of_nat 4) with two32. auto. Qed.
Lemma small_fits4 x : small x -> fits 4 x.
Proof. unfold small. intros H. apply fits4. unfold two32. lia. Qed.

Ltac ok_args :=
  cbn [simple_binop unop_instr instr_ok instr_op instr_args op_widths];
  repeat match goal with
         | |- Forall2 _ [] [] => apply Forall2_nil
         | |- Forall2 _ (_ :: _) (_ :: _) => apply Forall2_cons
         end;
  try (apply fits4; assumption); try (apply small_fits4; assumption).

(* ------------------------------------------------------------------ the invariant *)
Definition ups_ok (us : list upvalue) : Prop :=
  (length us <= 255)%nat /\ Forall (fun u => u_index u < 256) us.

Record Inv2 (s : cstate) : Prop := {
  i2_code : Forall instr_ok (cs_code s);
  i2_nv : cs_next_var s < two32;
  i2_ids : forall h id, In (h, id) (cs_ids s) -> id < two32;
  i2_jump : forall n m, In (n, m) (cs_jump s) -> fm_handle m < two32 /\ fm_arity m < two32;
  i2_locals : Forall (fun ls : list local => (length ls <= 255)%nat) (cs_locals s);
  i2_ups : Forall ups_ok (cs_upvalues s);
  i2_fh : cs_fh s < two32
}.

Definition sp2 {A} (m : M A) (Q : A -> Prop) : Prop :=
  forall s, Inv2 s -> match m s with ROk a s' => Inv2 s' /\ Q a | _ => True end.

Definition tt_ok (_ : unit) : Prop := True.

Lemma sp2_ret {A} (a : A) (Q : A -> Prop) : Q a -> sp2 (ret a) Q.
Proof. intros H s HI. cbn. auto. Qed.

Lemma sp2_ret_T {A} (a : A) : sp2 (ret a) (fun _ => True).
Proof. apply sp2_ret. exact I. Qed.

Lemma sp2_bind {A B} (m : M A) (f : A -> M B) Q R :
  sp2 m Q -> (forall a, Q a -> sp2 (f a) R) -> sp2 (bind m f) R.
Proof.
  intros Hm Hf s HI. unfold bind. specialize (Hm s HI). destruct (m s) as [a s1| | |]; auto.
  destruct Hm as [HI1 Hq]. apply (Hf a Hq s1 HI1).
Qed.

Lemma sp2_weaken {A} (m : M A) (Q R : A -> Prop) : (forall a, Q a -> R a) -> sp2 m Q -> sp2 m R.
Proof.
  intros H Hm s HI. specialize (Hm s HI). destruct (m s); auto. destruct Hm; auto.
Qed.

(* operations that leave code, variables, jump table, locals and upvalues alone *)
Definition same2 (s s' : cstate) : Prop :=
  cs_code s' = cs_code s /\ cs_next_var s' = cs_next_var s /\ cs_ids s' = cs_ids s /\
  cs_jump s' = cs_jump s /\ cs_locals s' = cs_locals s /\ cs_upvalues s' = cs_upvalues s /\
  cs_fh s' = cs_fh s.
Lemma Inv2_same s s' : same2 s s' -> Inv2 s -> Inv2 s'.
Proof.
  intros (a & b & c & d & e & f & g) [H1 H2 H3 H4 H5 H6 H7].
  constructor; rewrite ?a, ?b, ?c, ?d, ?e, ?f, ?g; auto.
Qed.
Ltac same2_tac := unfold same2; cbn; repeat split; reflexivity.

Definition frame2 {A} (m : M A) : Prop :=
  forall s, match m s with ROk _ s' => same2 s s' | _ => True end.
Lemma sp2_frame {A} (m : M A) : frame2 m -> sp2 m (fun _ => True).
Proof.
  intros Hf s HI. specialize (Hf s). destruct (m s); auto. split; auto. eapply Inv2_same; eauto.
Qed.
Lemma frame2_ret {A} (a : A) : frame2 (ret a).
Proof. intros s. cbn. same2_tac. Qed.
Lemma frame2_bind {A B} (m : M A) (f : A -> M B) :
  frame2 m -> (forall a, frame2 (f a)) -> frame2 (bind m f).
Proof.
  intros Hm Hf s. unfold bind. specialize (Hm s). destruct (m s) as [a s1| | |]; auto.
  specialize (Hf a s1). destruct (f a s1) as [b s2| | |]; auto.
  destruct Hm as (a1 & a2 & a3 & a4 & a5 & a6 & a7), Hf as (b1 & b2 & b3 & b4 & b5 & b6 & b7).
  repeat split; congruence.
Qed.

Lemma frame2_get_pc : frame2 get_pc. Proof. intros s. cbn. same2_tac. Qed.
Lemma frame2_push_sub i : frame2 (push_sub i). Proof. intros s. cbn. same2_tac. Qed.
Lemma frame2_pop_sub : frame2 pop_sub. Proof. intros s. cbn. same2_tac. Qed.
Lemma frame2_set_index_m f i : frame2 (set_index_m f i). Proof. intros s. cbn. same2_tac. Qed.
Lemma frame2_scope_begin : frame2 scope_begin. Proof. intros s. cbn. same2_tac. Qed.
Lemma frame2_error {A} e : frame2 (@error A e). Proof. intros s. exact I. Qed.
Lemma frame2_validate n : frame2 (validate_var_name n).
Proof. unfold validate_var_name. destruct (is_empty n); [apply frame2_error | apply frame2_ret]. Qed.
Lemma frame2_handle_from_bytes bs : frame2 (handle_from_bytes_m bs).
Proof.
  intros s. unfold handle_from_bytes_m. same2_tac.
Qed.
Lemma frame2_label_insert h : frame2 (label_insert_here h).
Proof.
  intros s. unfold label_insert_here. destruct ((two32 <=? cs_pc s) || (h =? 0)); cbn; [exact I | same2_tac].
Qed.

Lemma frame2_label_entry h : frame2 (label_entry_here h).
Proof.
  intros s. unfold label_entry_here. destruct (two32 <=? cs_pc s); [exact I|].
  destruct (h =? 0); [same2_tac|]. destruct (nm_find h (cs_labels s)); same2_tac.
Qed.

Lemma sp2_get : sp2 get Inv2.
Proof. intros s HI. cbn. auto. Qed.
Lemma sp2_get_pc_i32 : sp2 get_pc_i32 (fun z => (- 2147483648 <= z < 2147483648)%Z).
Proof. intros s HI. cbn. split; auto. apply u32_to_i32_range. Qed.
Lemma sp2_handle_from_bytes bs : sp2 (handle_from_bytes_m bs) fits32.
Proof.
  intros s HI. unfold handle_from_bytes_m. split; auto. apply handle_of_bytes_lt.
Qed.
Lemma sp2_index_handle : sp2 index_handle fits32.
Proof.
  unfold index_handle. eapply sp2_bind; [apply sp2_get | intros s HIs].
  eapply sp2_bind; [apply sp2_handle_from_bytes | intros sub Hs].
  apply sp2_ret. unfold fits32 in *. apply handle_add_lt; [apply (i2_fh _ HIs) | exact Hs].
Qed.
Lemma sp2_card_label : sp2 card_label (fun _ => True).
Proof.
  unfold card_label. eapply sp2_bind; [apply sp2_index_handle | intros h _].
  apply sp2_frame, frame2_label_entry.
Qed.

(* ---- emission ---- *)
Lemma Inv2_push s i c pc :
  Inv2 s -> instr_ok i -> cs_code c = cs_code s -> cs_next_var c = cs_next_var s -> cs_ids c = cs_ids s ->
  cs_jump c = cs_jump s -> cs_locals c = cs_locals s -> cs_upvalues c = cs_upvalues s ->
  cs_fh c = cs_fh s ->
  Inv2 (set_code (i :: cs_code c) pc c).
Proof.
  intros [H1 H2 H3 H4 H5 H6 H7] Hi a b c0 d e f g. constructor; cbn; rewrite ?a, ?b, ?c0, ?d, ?e, ?f, ?g; auto.
Qed.
Lemma sp2_push_raw i : instr_ok i -> sp2 (push_raw i) (fun _ => True).
Proof. intros Hi s HI. unfold push_raw. split; auto. apply (Inv2_push s i s); auto. Qed.
Lemma sp2_push_instr i : instr_ok i -> sp2 (push_instr i) (fun _ => True).
Proof.
  intros Hi s HI. unfold push_instr, push_raw. split; auto.
  apply Inv2_push with (s := s); auto.
Qed.
Lemma sp2_push_raws is : Forall instr_ok is -> sp2 (push_raws is) (fun _ => True).
Proof.
  induction 1 as [|i r Hi _ IH]; cbn [push_raws]; [apply sp2_ret_T|].
  eapply sp2_bind; [apply sp2_push_instr, Hi | intros _ _; exact IH].
Qed.

Lemma set_jump_target_ok i z i' :
  instr_ok i -> (- 2147483648 <= z < 2147483648)%Z -> set_jump_target i z = Some i' -> instr_ok i'.
Proof. destruct i; cbn; intros _ Hz H; try discriminate; injection H as <-; exact Hz. Qed.

Lemma sp2_patch q : sp2 (patch_jump_here q) (fun _ => True).
Proof.
  intros s HI. unfold patch_jump_here.
  destruct (patch_code (cs_code s) (cs_pc s) q (u32_to_i32 (cs_pc s))) as [code'|] eqn:E; [|exact I].
  split; auto. destruct HI as [H1 H2 H3 H4 H5 H6 H7]. constructor; cbn; auto.
  (* patch_code only rewrites one jump operand *)
  clear - H1 E. revert code' E. generalize (cs_pc s) at 1. intros cur.
  induction (cs_code s) as [|i r IH] in cur, H1 |- *; intros code' E; cbn [patch_code] in E; [discriminate|].
  inversion H1 as [|? ? Hi Hr]; subst.
  destruct (cur - N.of_nat (instr_span i) =? q).
  - destruct (set_jump_target i (u32_to_i32 (cs_pc s))) as [i'|] eqn:Ej; [|discriminate].
    injection E as <-. constructor; auto. eapply set_jump_target_ok; eauto. apply u32_to_i32_range.
  - destruct (cur - N.of_nat (instr_span i) <? q); [discriminate|].
    destruct (patch_code r _ q _) as [r'|] eqn:Er; [|discriminate]. injection E as <-.
    constructor; auto. eapply IH; eauto.
Qed.

Lemma sp2_push_string mk st :
  (forall x, x < two32 -> instr_ok (mk x)) -> sp2 (push_string mk st) (fun _ => True).
Proof.
  intros Hmk. unfold push_string. eapply sp2_bind; [apply sp2_get | intros s0 _].
  eapply sp2_bind; [apply sp2_push_instr, Hmk, N.mod_lt; discriminate | intros _ _].
  apply sp2_frame. intros s. destruct (two32 <=? N.of_nat (length st)); cbn; [exact I | same2_tac].
Qed.
Lemma string_literal_ok x : x < two32 -> instr_ok (IStringLiteral x).
Proof. intros. ok_args. Qed.
Lemma native_fn_ptr_ok x : x < two32 -> instr_ok (INativeFunctionPointer x).
Proof. intros. ok_args. Qed.

(* ---- scopes ---- *)
(* d723a2c: the operand of a CloseUpvalue emitted by scope_end is the number of locals left after the
   pop: strictly below the number of locals before it, hence <= 254 for an ArrayVec<Local, 255> *)
Definition close_small (n : nat) (i : instr) : Prop :=
  match i with ICloseUpvalue x => x < N.of_nat n | _ => True end.
Lemma pop_locals_close_small rls d : Forall (close_small (length rls)) (snd (pop_locals rls d)).
Proof.
  induction rls as [|l r IH]; cbn [pop_locals]; [constructor|].
  destruct (d <? l_depth l)%Z; [|constructor].
  destruct (pop_locals r d) as [r' is]. cbn [snd length] in *. constructor.
  - destruct (l_captured l); cbn; [lia | exact I].
  - eapply Forall_impl; [|exact IH]. intros i. destruct i; cbn; auto. lia.
Qed.
Lemma pop_locals_ok rls d : (length rls <= 255)%nat -> Forall instr_ok (snd (pop_locals rls d)).
Proof.
  induction rls as [|l r IH]; cbn [pop_locals length]; intros Hlen; [constructor|].
  destruct (d <? l_depth l)%Z; [|constructor].
  assert (Hr : (length r <= 255)%nat) by lia. specialize (IH Hr).
  destruct (pop_locals r d) as [r' is]. cbn [snd] in *. constructor; auto.
  destruct (l_captured l); ok_args. apply fits4. unfold two32. lia.
Qed.
Lemma pop_locals_length rls d : (length (fst (pop_locals rls d)) <= length rls)%nat.
Proof.
  induction rls as [|l r IH]; cbn [pop_locals]; [cbn; lia|].
  destruct (d <? l_depth l)%Z; [|cbn; lia].
  destruct (pop_locals r d) as [r' is]. cbn [fst length] in *. lia.
Qed.

Lemma Forall_map_hd {A} (P : A -> Prop) (f : A -> A) l :
  Forall P l -> (forall x, P x -> P (f x)) -> Forall P (map_hd f l).
Proof. intros H Hf. destruct H; cbn; constructor; auto. Qed.

Lemma sp2_scope_end : sp2 scope_end (fun _ => True).
Proof.
  intros s HI. unfold scope_end.
  set (ds := map_hd _ (cs_depth s)). set (rlis := pop_locals _ _). set (s1 := set_scopes _ _ _ s).
  assert (HI1 : Inv2 s1).
  { destruct HI as [H1 H2 H3 H4 H5 H6 H7]. constructor; cbn; auto.
    destruct H5 as [|ls rest Hls Hrest]; cbn; constructor; auto.
    rewrite rev_length. subst rlis. cbn [hd].
    pose proof (pop_locals_length (rev ls) (hd 0%Z ds)). rewrite rev_length in H. lia. }
  refine (sp2_push_raws (snd rlis) (pop_locals_ok _ _ _) s1 HI1).
  rewrite rev_length. destruct HI as [_ _ _ _ H5 _ _]. destruct H5; cbn; lia.
Qed.

Lemma sp2_compile_begin : sp2 compile_begin (fun _ => True).
Proof.
  intros s [H1 H2 H3 H4 H5 H6 H7]. cbn. split; auto. constructor; cbn; auto.
  - constructor; auto. cbn. lia.
  - constructor; auto. split; [cbn; lia | constructor].
Qed.
Lemma Forall_tl {A} (P : A -> Prop) l : Forall P l -> Forall P (tl l).
Proof. intros H; destruct H; cbn; auto. Qed.
Lemma sp2_compile_end : sp2 compile_end (fun _ => True).
Proof.
  intros s [H1 H2 H3 H4 H5 H6 H7]. cbn. split; auto. constructor; cbn; auto using Forall_tl.
Qed.

Lemma sp2_add_local_unchecked n : sp2 (add_local_unchecked n) small.
Proof.
  intros s HI. unfold add_local_unchecked.
  destruct (Nat.leb_spec locals_cap (length (hd [] (cs_locals s)))) as [Hge|Hlt]; [exact I|].
  unfold locals_cap in Hlt. split; [|unfold small; lia].
  destruct HI as [H1 H2 H3 H4 H5 H6 H7]. constructor; cbn; auto.
  destruct H5 as [|ls rest Hls Hrest]; cbn in *; constructor; auto. rewrite app_length. cbn. lia.
Qed.
Lemma sp2_add_local n : sp2 (add_local n) small.
Proof.
  unfold add_local. eapply sp2_bind; [apply sp2_frame, frame2_validate | intros _ _].
  apply sp2_add_local_unchecked.
Qed.
Lemma sp2_add_locals l : sp2 (add_locals l) (fun _ => True).
Proof.
  induction l as [|n r IH]; cbn [add_locals]; [apply sp2_ret_T|].
  eapply sp2_bind; [apply sp2_add_local | intros _ _; exact IH].
Qed.

(* ---- variables ---- *)
Lemma find_index_lt {A} (p : A -> bool) l : forall i k, find_index p l i = Some k -> (k < i + length l)%nat.
Proof.
  induction l as [|x r IH]; intros i k H; cbn in H; [discriminate|].
  destruct (p x); [injection H as <-; cbn; lia|]. apply IH in H. cbn. lia.
Qed.
Lemma rfind_index_lt {A} (p : A -> bool) l : forall i acc k,
  rfind_index p l i acc = Some k -> (k < i + length l)%nat \/ acc = Some k.
Proof.
  induction l as [|x r IH]; intros i acc k H; cbn in H; [auto|].
  apply IH in H. cbn. destruct H as [H|H]; [left; lia|].
  destruct (p x); [injection H as <-; left; lia | auto].
Qed.

Lemma add_upvalue_ok ups idx loc k ups' :
  ups_ok ups -> idx < 256 -> add_upvalue ups idx loc = Some (k, ups') -> ups_ok ups' /\ small k.
Proof.
  intros [Hl Hf] Hidx H. unfold add_upvalue in H.
  destruct (find_index _ ups 0) as [i|] eqn:E.
  - injection H as <- <-. split; [split; auto|]. apply find_index_lt in E. unfold small. lia.
  - destruct (Nat.leb_spec upvalues_cap (length ups)) as [Hge|Hlt]; [discriminate|].
    injection H as <- <-. unfold upvalues_cap in Hlt. split; [|unfold small; lia].
    split; [rewrite app_length; cbn; lia|]. apply Forall_app. split; auto.
Qed.

Lemma mark_captured_length ls i : length (mark_captured ls i) = length ls.
Proof. unfold mark_captured. destruct (nth_error ls i); auto. apply upd_length. Qed.

Definition var_ok (v : variable) : Prop :=
  match v with VGlobal => True | VLocal i => small i | VUpvalue i => small i end.

Lemma resolve_upvalue_ok name : forall locs ups v locs' ups',
  Forall (fun ls : list local => (length ls <= 255)%nat) locs -> Forall ups_ok ups ->
  resolve_upvalue name locs ups = Some (v, locs', ups') ->
  Forall (fun ls : list local => (length ls <= 255)%nat) locs' /\ Forall ups_ok ups' /\ var_ok v.
Proof.
  induction locs as [|cur below IH]; intros ups v locs' ups' Hl Hu H; cbn [resolve_upvalue] in H.
  { injection H as <- <- <-. cbn. auto. }
  destruct below as [|parent rest]; [injection H as <- <- <-; cbn; auto|].
  destruct ups as [|ucur ubelow]; [injection H as <- <- <-; cbn; auto|].
  inversion Hl as [|? ? Hcur Hbelow]; subst. inversion Hu as [|? ? Hucur Hubelow]; subst.
  destruct (rfind_index _ parent 0 None) as [i|] eqn:Ef.
  - destruct (add_upvalue ucur (N.of_nat i mod 256) true) as [[k ucur']|] eqn:Ea; [|discriminate].
    injection H as <- <- <-.
    destruct (add_upvalue_ok _ _ _ _ _ Hucur ltac:(apply N.mod_lt; discriminate) Ea) as [Hok Hk].
    split; [|split; [constructor; auto | exact Hk]].
    constructor; auto. inversion Hbelow; subst. constructor; auto. rewrite mark_captured_length. auto.
  - destruct (resolve_upvalue name (parent :: rest) ubelow) as [[[v0 below'] ubelow']|] eqn:Er; [|discriminate].
    destruct (IH ubelow v0 below' ubelow' Hbelow Hubelow Er) as (Hb' & Hub' & Hv0).
    destruct v0 as [|i|i].
    + injection H as <- <- <-. split; [constructor; auto|]. split; [constructor; auto | exact I].
    + injection H as <- <- <-. split; [constructor; auto|]. split; [constructor; auto | exact Hv0].
    + destruct (add_upvalue ucur (i mod 256) false) as [[k ucur']|] eqn:Ea; [|discriminate].
      injection H as <- <- <-.
      destruct (add_upvalue_ok _ _ _ _ _ Hucur ltac:(apply N.mod_lt; discriminate) Ea) as [Hok Hk].
      split; [constructor; auto|]. split; [constructor; auto | exact Hk].
Qed.

Lemma sp2_resolve_var n : sp2 (resolve_var n) var_ok.
Proof.
  unfold resolve_var. eapply sp2_bind; [apply sp2_frame, frame2_validate | intros _ _].
  intros s HI. destruct (rfind_index _ (hd [] (cs_locals s)) 0 None) as [i|] eqn:E.
  - split; auto. cbn. apply rfind_index_lt in E. destruct E as [E|E]; [|discriminate].
    destruct HI as [_ _ _ _ H5 _ _]. destruct H5 as [|ls rest Hls _]; cbn in *; unfold small; lia.
  - destruct (resolve_upvalue n (cs_locals s) (cs_upvalues s)) as [[[v ls] us]|] eqn:Er; [|exact I].
    destruct HI as [H1 H2 H3 H4 H5 H6 H7].
    destruct (resolve_upvalue_ok _ _ _ _ _ _ H5 H6 Er) as (Hl & Hu & Hv).
    split; auto. constructor; cbn; auto.
Qed.

Lemma sp2_global_id n : sp2 (global_id n) fits32.
Proof.
  unfold global_id. eapply sp2_bind; [apply sp2_handle_from_bytes | intros h _].
  intros s HI. destruct HI as [H1 H2 H3 H4 H5 H6 H7].
  destruct (nm_find h (cs_ids s)) as [id|] eqn:Ef.
  - assert (Hid : id < two32).
    { clear - Ef H3. induction (cs_ids s) as [|[k v] r IH]; cbn in Ef; [discriminate|].
      destruct (h =? k); [injection Ef as ->; apply (H3 k id); left; auto|].
      apply IH; auto. intros h0 id0 Hin. apply (H3 h0 id0). right. auto. }
    destruct (nm_find _ (cs_names s));
      [unfold name_checked; destruct (global_name_checked && _); [exact I|]
      |destruct (ht_entry_hangs (cs_names s)); [exact I|]];
      (split; [constructor; cbn; auto | exact Hid]).
  - destruct (ht_entry_hangs (cs_ids s)); [exact I|].
    assert (Hnv : (cs_next_var s + 1) mod two32 < two32) by (apply N.mod_lt; discriminate).
    assert (Hids : forall h0 id0, In (h0, id0) (nm_insert h (cs_next_var s) (cs_ids s)) -> id0 < two32).
    { intros h0 id0 Hin. apply in_nm_insert in Hin. destruct Hin as [[-> ->]|Hin]; eauto. }
    destruct (nm_find _ (cs_names s));
      [unfold name_checked; destruct (global_name_checked && _); [exact I|]
      |destruct (ht_entry_hangs (cs_names s)); [exact I|]];
      (split; [constructor; cbn; auto | exact H2]).
Qed.

Lemma sm_find_In {V} k (m : list (str * V)) v : sm_find k m = Some v -> exists k', In (k', v) m.
Proof.
  induction m as [|[k' v'] r IH]; cbn; intros H; [discriminate|].
  destruct (str_eqb k k'); [injection H as ->; eauto|]. destruct (IH H) as [k0 H0]. eauto.
Qed.

Definition meta_ok (m : fmeta) : Prop := fm_handle m < two32 /\ fm_arity m < two32.
Definition ometa_ok (o : option fmeta) : Prop := match o with Some m => meta_ok m | None => True end.

Lemma sp2_resolve_function n : sp2 (resolve_function n) meta_ok.
Proof.
  unfold resolve_function. eapply sp2_bind; [apply sp2_get | intros s HIs].
  assert (Hjt : forall k, ometa_ok (sm_find k (cs_jump s))).
  { intros k. destruct (sm_find k (cs_jump s)) as [m|] eqn:E; cbn; auto.
    apply sm_find_In in E. destruct E as [k' Hin]. apply (i2_jump _ HIs k' m Hin). }
  eapply sp2_bind with (Q := ometa_ok).
  { destruct (match sm_find n (cs_jump s) with Some m => Some m | None => _ end) as [m|] eqn:E.
    - apply sp2_ret. cbn. destruct (sm_find n (cs_jump s)) as [m0|] eqn:E0.
      + injection E as <-. pose proof (Hjt n) as X. rewrite E0 in X. exact X.
      + pose proof (Hjt (ns_prefix (cs_ns s) ++ n)) as X. rewrite E in X. exact X.
    - destruct (sm_find n (cs_imports s)); [|apply sp2_ret; exact I].
      destruct (super_depth _) as [[cnt sx]|]; [|intros ? _; exact I].
      destruct (take_ns _ _ _); [apply sp2_ret; apply Hjt | intros ? _; exact I]. }
  intros st3 H3. eapply sp2_bind with (Q := ometa_ok).
  { destruct st3; [apply sp2_ret; exact H3|].
    destruct (split_once_c c_dot n) as [[pre suf]|]; [|apply sp2_ret; exact I].
    destruct (sm_find pre (cs_imports s)); [|apply sp2_ret; exact I].
    destruct (super_depth _) as [[cnt sx]|]; [|intros ? _; exact I].
    destruct (take_ns _ _ _); [apply sp2_ret; apply Hjt | intros ? _; exact I]. }
  intros st4 H4. destruct st4; [apply sp2_ret; exact H4 | intros ? _; exact I].
Qed.

(* ------------------------------------------------------------------ composite constructs *)
Definition T1 (_ : unit) : Prop := True.

Lemma sp2_unit (m : M unit) (Q : unit -> Prop) : sp2 m Q -> sp2 m (fun _ => True).
Proof. apply sp2_weaken. auto. Qed.

Lemma sp2_with_sub i m : sp2 m (fun _ => True) -> sp2 (with_sub i m) (fun _ => True).
Proof.
  intros H. unfold with_sub.
  eapply sp2_bind; [apply sp2_frame, frame2_push_sub | intros _ _].
  eapply sp2_bind; [exact H | intros _ _]. apply sp2_frame, frame2_pop_sub.
Qed.

Lemma sp2_encode_if_then skip body :
  skip = IGotoIfFalse \/ skip = IGotoIfTrue ->
  sp2 body (fun _ => True) -> sp2 (encode_if_then skip body) (fun _ => True).
Proof.
  intros Hs Hb. unfold encode_if_then.
  eapply sp2_bind; [apply sp2_frame, frame2_get_pc | intros q _].
  eapply sp2_bind; [apply sp2_push_instr; destruct Hs; subst; cbn; lia | intros _ _].
  eapply sp2_bind; [exact Hb | intros _ _]. apply sp2_patch.
Qed.

Lemma sp2_read_props props : sp2 (read_props props) (fun _ => True).
Proof.
  induction props as [|x r IH]; cbn [read_props]; [apply sp2_ret_T|].
  eapply sp2_bind; [|intros _ _; exact IH].
  destruct (is_empty x); [apply sp2_ret_T|].
  eapply sp2_bind; [apply sp2_push_string, string_literal_ok | intros _ _; apply sp2_push_instr; ok_args].
Qed.

Lemma sp2_read_var_card v : sp2 (read_var_card v) (fun _ => True).
Proof.
  unfold read_var_card.
  destruct (match split_once_c c_dot v with Some (v0, p0) => (v0, p0) | None => (v, []) end) as [v0 props].
  eapply sp2_bind; [apply sp2_resolve_var | intros scope Hv].
  eapply sp2_bind; [|intros _ _; apply sp2_read_props].
  destruct scope; cbn in Hv.
  - eapply sp2_bind; [apply sp2_global_id | intros id Hid; apply sp2_push_instr; unfold fits32 in Hid; ok_args].
  - apply sp2_push_instr; ok_args.
  - apply sp2_push_instr; ok_args.
Qed.

Lemma sp2_bind_loop_var o src : small src -> sp2 (bind_loop_var o src) (fun _ => True).
Proof.
  intros Hs. destruct o; cbn [bind_loop_var]; [|apply sp2_ret_T].
  eapply sp2_bind; [apply sp2_add_local | intros x Hx].
  eapply sp2_bind; [apply sp2_push_instr; ok_args | intros _ _; apply sp2_push_instr; ok_args].
Qed.

Lemma sp2_emit_upvalues ups :
  Forall (fun u => u_index u < 256) ups -> sp2 (emit_upvalues ups) (fun _ => True).
Proof.
  induction 1 as [|u r Hu _ IH]; cbn [emit_upvalues]; [apply sp2_ret_T|].
  eapply sp2_bind; [apply sp2_push_instr; ok_args | intros _ _].
  eapply sp2_bind; [|intros _ _; exact IH].
  apply sp2_push_instr. cbn [instr_ok instr_op instr_args op_widths].
  constructor; [unfold fits; change (256 ^ N.of_nat 1) with 256; exact Hu|].
  constructor; [|constructor]. unfold fits. change (256 ^ N.of_nat 1) with 256. destruct (u_is_local u); lia.
Qed.

Lemma sp2_process_leaf i : instr_ok i -> sp2 (process_leaf i) (fun _ => True).
Proof.
  intros H. unfold process_leaf.
  eapply sp2_bind; [apply sp2_card_label | intros _ _; apply sp2_push_instr, H].
Qed.

(* ------------------------------------------------------------------ literals in range *)

Definition card_ok2 (c : card) : Prop := card_rng c = true -> sp2 (process_card c) (fun _ => True).

Lemma Forall_ok2 l : Forall card_ok2 l -> forallb card_rng l = true ->
                     Forall (fun c => sp2 (process_card c) (fun _ => True)) l.
Proof.
  induction 1 as [|x r Hx _ IH]; cbn [forallb]; intros H; [constructor|].
  apply andb_true_iff in H. destruct H as [H1 H2]. constructor; auto.
Qed.

Lemma sp2_subexpr l : Forall (fun c => sp2 (process_card c) (fun _ => True)) l -> forall i,
  sp2 ((fix subexpr (l : list card) (i : N) {struct l} : M unit :=
          match l with
          | [] => ret tt
          | x :: r => with_sub i (process_card x) ;; subexpr r (i + 1)
          end) l i) (fun _ => True).
Proof.
  induction 1 as [|x r Hx _ IH]; intros i; [apply sp2_ret_T|].
  eapply sp2_bind; [apply sp2_with_sub, Hx | intros _ _; apply IH].
Qed.

Lemma sp2_array_items tv l : small tv ->
  Forall (fun c => sp2 (process_card c) (fun _ => True)) l -> forall i,
  sp2 ((fix items (l : list card) (i : N) {struct l} : M unit :=
         match l with
         | [] => ret tt
         | x :: r =>
             push_instr IScalarNil ;;
             with_sub i (process_card x) ;;
             read_local tv ;;
             push_instr IAppendTable ;;
             items r (i + 1)
         end) l i) (fun _ => True).
Proof.
  intros Htv. induction 1 as [|x r Hx _ IH]; intros i; [apply sp2_ret_T|].
  eapply sp2_bind; [apply sp2_push_instr; ok_args | intros _ _].
  eapply sp2_bind; [apply sp2_with_sub, Hx | intros _ _].
  eapply sp2_bind; [apply sp2_push_instr; ok_args | intros _ _].
  eapply sp2_bind; [apply sp2_push_instr; ok_args | intros _ _; apply IH].
Qed.

Ltac iok :=
  first [ solve [ok_args]
        | cbn [instr_ok]; assumption
        | cbn [instr_ok]; lia
        | cbn [instr_ok]; unfold placeholder; lia
        | cbn [instr_ok]; apply u32_to_i32_range ].

Ltac frame2_tac :=
  repeat first
    [ apply frame2_ret | apply frame2_get_pc | apply frame2_push_sub | apply frame2_pop_sub
    | apply frame2_set_index_m | apply frame2_scope_begin | apply frame2_error | apply frame2_validate
    | apply frame2_handle_from_bytes | apply frame2_label_insert
    | match goal with |- frame2 (bind _ _) => apply frame2_bind; [|intros ?] end ].

Ltac step2 :=
  first
    [ apply sp2_ret_T
    | apply sp2_card_label
    | apply sp2_scope_end
    | apply sp2_read_var_card
    | apply sp2_bind_loop_var; assumption
    | apply sp2_patch
    | apply sp2_compile_begin
    | apply sp2_compile_end
    | apply sp2_push_instr; iok
    | apply sp2_push_string; [apply string_literal_ok]
    | apply sp2_push_string; [apply native_fn_ptr_ok]
    | apply sp2_process_leaf; iok
    | match goal with H : sp2 (process_card ?c) _ |- sp2 (process_card ?c) _ => exact H end
    | apply sp2_with_sub
    | apply sp2_subexpr; assumption
    | apply sp2_array_items; assumption
    | apply sp2_encode_if_then; [first [left; reflexivity | right; reflexivity]|]
    | apply sp2_frame; solve [frame2_tac]
    | apply sp2_unit with (Q := small); apply sp2_add_local
    | eapply sp2_bind; [apply sp2_add_local_unchecked | intros ? ?]
    | eapply sp2_bind; [apply sp2_add_local | intros ? ?]
    | eapply sp2_bind; [apply sp2_get_pc_i32 | intros ? ?]
    | eapply sp2_bind; [apply sp2_resolve_function | intros ? [? ?]]
    | eapply sp2_bind; [apply sp2_handle_from_bytes | intros ? ?]
    | eapply sp2_bind; [apply sp2_global_id | intros ? ?]
    | eapply sp2_bind; [apply sp2_add_locals | intros ? ?]
    | match goal with |- sp2 (bind _ _) _ => eapply sp2_bind; [|intros ? ?] end ].

Ltac prep :=
  match goal with H : card_rng _ = true |- _ => cbn [card_rng] in H end;
  repeat match goal with H : _ && _ = true |- _ => apply andb_true_iff in H; destruct H end;
  repeat match goal with
         | IH : card_ok2 ?c, H : card_rng ?c = true |- _ => specialize (IH H)
         | IH : Forall _ ?l, H : forallb card_rng ?l = true |- _ =>
             pose proof (Forall_ok2 l IH H); clear IH
         end.

Lemma process_card_ok2 c : card_ok2 c.
Proof.
  induction c using card_ind'; intros Hr; cbn [process_card].
  - (* CBin *) prep. destruct op; repeat step2.
  - prep. destruct op; repeat step2.
  - prep. destruct op; repeat step2.
  - repeat step2.
  - repeat step2.
  - repeat step2.
  - (* CScalarInt *)
    cbn [card_rng] in Hr. apply andb_true_iff in Hr. destruct Hr as [H1 H2].
    apply Z.leb_le in H1. apply Z.ltb_lt in H2. repeat step2.
  - (* CScalarFloat *)
    cbn [card_rng] in Hr. apply N.ltb_lt in Hr.
    eapply sp2_bind; [step2 | intros _ _]. apply sp2_push_instr.
    cbn [instr_ok instr_op instr_args op_widths]. repeat constructor. exact Hr.
  - repeat step2.
  - repeat step2.
  - repeat step2.
  - repeat step2.
  - repeat step2.
  - (* CCallNative *) prep. repeat step2.
  - (* CCall *) prep. repeat step2.
  - (* CDynamicCall *) prep. repeat step2.
  - (* CSetGlobalVar *)
    prep. eapply sp2_bind; [step2 | intros _ _]. eapply sp2_bind; [repeat step2 | intros _ _].
    destruct (is_empty n); [intros s _; exact I|]. repeat step2.
  - (* CSetVar *)
    prep. eapply sp2_bind; [step2 | intros _ _]. eapply sp2_bind; [repeat step2 | intros _ _].
    destruct (rsplit_once_c c_dot n) as [[rp sp]|]; [repeat step2|].
    eapply sp2_bind; [apply sp2_resolve_var | intros var Hv]. destruct var; cbn in Hv; repeat step2.
  - (* CRepeat *) prep. repeat step2.
  - (* CForEach *) prep. repeat step2.
  - (* CComposite *) prep. repeat step2.
  - (* CArray *) prep. repeat step2.
  - (* CClosure *)
    prep. eapply sp2_bind; [step2 | intros _ _].
    eapply sp2_bind; [apply sp2_frame, frame2_get_pc | intros q _].
    eapply sp2_bind; [apply sp2_push_instr; iok | intros _ _].
    eapply sp2_bind; [step2 | intros _ _].
    eapply sp2_bind; [apply sp2_index_handle | intros h Hh].
    eapply sp2_bind; [apply sp2_frame, frame2_label_insert | intros _ _].
    eapply sp2_bind; [step2 | intros _ _].
    eapply sp2_bind; [apply sp2_add_locals | intros _ _].
    eapply sp2_bind; [step2 | intros _ _].
    eapply sp2_bind; [step2 | intros _ _].
    eapply sp2_bind; [step2 | intros _ _].
    eapply sp2_bind; [step2 | intros _ _].
    eapply sp2_bind; [step2 | intros _ _].
    eapply sp2_bind.
    { apply sp2_push_instr. cbn [instr_ok instr_op instr_args op_widths].
      constructor; [apply fits4, handle_add_lt; [exact Hh | apply handle_from_u64_lt]|].
      constructor; [apply fits4, N.mod_lt; discriminate | constructor]. }
    intros _ _. eapply sp2_bind; [apply sp2_get | intros s HIs].
    eapply sp2_bind; [|intros _ _; step2].
    apply sp2_emit_upvalues. destruct (i2_ups _ HIs) as [|us rest [_ Hus] _]; cbn; [constructor | exact Hus].
Qed.

(* ------------------------------------------------------------------ functions and stages *)
Lemma sp2_process_cards cards : forallb card_rng cards = true ->
  forall ic, sp2 (process_cards cards ic) (fun _ => True).
Proof.
  induction cards as [|c r IH]; intros Hr ic; cbn [process_cards]; [apply sp2_ret_T|].
  cbn [forallb] in Hr. apply andb_true_iff in Hr. destruct Hr as [Hc Hr].
  eapply sp2_bind; [apply sp2_frame, frame2_pop_sub | intros _ _].
  eapply sp2_bind; [apply sp2_frame, frame2_push_sub | intros _ _].
  eapply sp2_bind; [apply process_card_ok2, Hc | intros _ _; apply IH, Hr].
Qed.


Lemma sp2_process_function f : fir_rng f = true -> sp2 (process_function f) (fun _ => True).
Proof.
  intros Hf. apply andb_true_iff in Hf. destruct Hf as [_ Hc]. unfold process_function.
  eapply sp2_bind; [apply sp2_frame; intros s; cbn; same2_tac | intros _ _].
  eapply sp2_bind; [apply sp2_add_locals | intros _ _]. apply sp2_process_cards, Hc.
Qed.

Lemma sp2_set_fh_m f : fir_rng f = true -> sp2 (set_fh_m (fi_handle f)) (fun _ => True).
Proof.
  intros Hf s [H1 H2 H3 H4 H5 H6 H7]. apply andb_true_iff in Hf. destruct Hf as [Hh _]. apply N.ltb_lt in Hh.
  cbn. split; auto. constructor; cbn; auto.
Qed.

Lemma sp2_compile_main f : fir_rng f = true -> sp2 (compile_main f) (fun _ => True).
Proof.
  intros Hf. unfold compile_main.
  eapply sp2_bind; [apply sp2_frame, frame2_set_index_m | intros _ _].
  eapply sp2_bind; [apply sp2_set_fh_m, Hf | intros _ _].
  eapply sp2_bind; [apply sp2_frame, frame2_scope_begin | intros _ _].
  eapply sp2_bind; [apply sp2_process_function, Hf | intros _ _].
  eapply sp2_bind; [apply sp2_frame, frame2_set_index_m | intros _ _].
  eapply sp2_bind; [apply sp2_scope_end | intros _ _].
  apply sp2_process_leaf. ok_args.
Qed.

Lemma sp2_compile_other f : fir_rng f = true -> sp2 (compile_other f) (fun _ => True).
Proof.
  intros Hf. unfold compile_other.
  eapply sp2_bind; [apply sp2_frame, frame2_set_index_m | intros _ _].
  eapply sp2_bind; [apply sp2_set_fh_m, Hf | intros _ _].
  eapply sp2_bind; [apply sp2_frame, frame2_label_insert | intros _ _].
  eapply sp2_bind; [apply sp2_frame, frame2_scope_begin | intros _ _].
  eapply sp2_bind; [apply sp2_process_function, Hf | intros _ _].
  eapply sp2_bind; [apply sp2_scope_end | intros _ _].
  eapply sp2_bind; [apply sp2_push_instr; ok_args | intros _ _].
  apply sp2_push_instr; ok_args.
Qed.

Lemma sp2_compile_others fs : forallb fir_rng fs = true -> sp2 (compile_others fs) (fun _ => True).
Proof.
  induction fs as [|f r IH]; intros H; cbn [compile_others]; [apply sp2_ret_T|].
  cbn [forallb] in H. apply andb_true_iff in H. destruct H as [Hf Hr].
  eapply sp2_bind; [apply sp2_compile_other, Hf | intros _ _; apply IH, Hr].
Qed.

Lemma in_sm_insert {V} k (v : V) m k' v' : In (k', v') (sm_insert k v m) -> v' = v \/ In (k', v') m.
Proof.
  induction m as [|[k0 v0] r IH]; cbn [sm_insert]; intros H.
  - destruct H as [H|[]]. injection H as _ <-. auto.
  - destruct (str_eqb k k0).
    + destruct H as [H|H]; [injection H as _ <-; auto | right; right; auto].
    + destruct H as [H|H]; [right; left; auto|]. destruct (IH H); auto. right; right; auto.
Qed.

Lemma sp2_add_function f : fir_rng f = true -> sp2 (add_function f) (fun _ => True).
Proof.
  intros Hf s HI. apply andb_true_iff in Hf. destruct Hf as [Hh _]. apply N.ltb_lt in Hh.
  unfold add_function, bind, get. destruct (sm_find (fi_full_name f) (cs_jump s)); cbn; [exact I|].
  split; auto. destruct HI as [H1 H2 H3 H4 H5 H6 H7]. constructor; cbn; auto.
  intros n m Hin. apply in_sm_insert in Hin. destruct Hin as [->|Hin]; [|eauto].
  cbn. split; [exact Hh | apply N.mod_lt; discriminate].
Qed.

Lemma sp2_stage_1 fs : forallb fir_rng fs = true -> sp2 (stage_1 fs) (fun _ => True).
Proof.
  induction fs as [|f r IH]; intros H; cbn [stage_1]; [apply sp2_ret_T|].
  cbn [forallb] in H. apply andb_true_iff in H. destruct H as [Hf Hr].
  eapply sp2_bind; [apply sp2_add_function, Hf | intros _ _; apply IH, Hr].
Qed.

Lemma sp2_stage_2 fs : forallb fir_rng fs = true -> sp2 (stage_2 fs) (fun _ => True).
Proof.
  destruct fs as [|f r]; intros H; cbn [stage_2]; [apply sp2_ret_T|].
  cbn [forallb] in H. apply andb_true_iff in H. destruct H as [Hf Hr].
  eapply sp2_bind; [apply sp2_compile_main, Hf | intros _ _; apply sp2_compile_others, Hr].
Qed.

Lemma Inv2_init d : Inv2 (init_state d).
Proof.
  constructor; cbn; auto; try (intros ? ? []).
  - reflexivity.
  - constructor; [cbn; lia | constructor].
  - constructor; [split; [cbn; lia | constructor] | constructor].
  - reflexivity.
Qed.

Lemma compile_ir_instr_ok fs d s :
  forallb fir_rng fs = true -> compile_ir fs (init_state d) = ROk tt s -> Forall instr_ok (cs_code s).
Proof.
  intros Hr H. destruct fs as [|f r]; [discriminate|].
  assert (S : sp2 (compile_ir (f :: r)) (fun _ => True)).
  { unfold compile_ir.
    eapply sp2_bind; [apply sp2_stage_1, Hr | intros _ _].
    eapply sp2_bind; [apply sp2_stage_2, Hr | intros _ _].
    eapply sp2_bind; [apply sp2_frame; intros s0; cbn; same2_tac | intros _ _].
    apply sp2_push_instr. ok_args. }
  specialize (S (init_state d) (Inv2_init d)). rewrite H in S. destruct S as [HI _]. apply (i2_code _ HI).
Qed.


Lemma Forall_rev_iff {A} (P : A -> Prop) l : Forall P l -> Forall P (rev l).
Proof. intros H. apply Forall_forall. intros x Hx. apply in_rev in Hx. rewrite Forall_forall in H. auto. Qed.

Theorem compile_wellformed_partial_strong M o B :
  compile M o = COk B ->
  program_in_range M o = true ->
  (N.of_nat (length (p_bytecode B)) < 2147483648)%N ->
  exists is : list instr,
    Forall instr_ok is /\
    decode (p_bytecode B) = Some (positions is) /\
    wf_partial B is.
Proof.
  intros H Hr Hlen. destruct (compile_ok_inv _ _ _ H) as (fs & s & Hfs & E & ->).
  unfold program_in_range in Hr. rewrite Hfs in Hr.
  pose proof (compile_ir_instr_ok fs _ s Hr E) as Hok. apply Forall_rev_iff in Hok.
  pose proof (wf_partial_core fs _ s E Hlen) as Hwf.
  exists (rev (cs_code s)). split; [exact Hok|]. split; [|exact Hwf].
  destruct Hwf as (_ & Hd & _). apply Hd, Hok.
Qed.
