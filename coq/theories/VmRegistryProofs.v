(* C18: proofs about the registration of native functions (VmRegistry.v). *)
From Coq Require Import NArith ZArith List Lia Bool.
From Cao Require Import ListUtil Bits Stacks Vm VmRegistry.
Import ListNotations.

Lemma assoc_reg_remove_other h h' (r : registry) :
  N.eqb h' h = false -> assoc h' (reg_remove h r) = assoc h' r.
Proof.
  intros Hne. induction r as [|[k p] r IH]; [reflexivity|]. cbn [reg_remove assoc].
  destruct (N.eqb h k) eqn:E1.
  - apply N.eqb_eq in E1; subst k. rewrite Hne. exact IH.
  - cbn [assoc]. rewrite IH. reflexivity.
Qed.

Lemma reg_get_insert r h p h' :
  reg_get (reg_insert r h p) h' = if N.eqb h' h then Some p else reg_get r h'.
Proof.
  unfold reg_get, reg_insert. cbn [assoc]. destruct (N.eqb h' h) eqn:E; [reflexivity|].
  apply assoc_reg_remove_other. exact E.
Qed.

(* one entry per handle is kept *)
Lemma reg_remove_not_in h (r : registry) : ~ In h (map fst (reg_remove h r)).
Proof.
  induction r as [|[k p] r IH]; cbn [reg_remove map]; [tauto|].
  destruct (N.eqb h k) eqn:E; [exact IH|]. cbn [map fst In]. intros [H|H]; [|tauto].
  subst k. rewrite N.eqb_refl in E. discriminate.
Qed.

Lemma reg_remove_incl h (r : registry) x : In x (map fst (reg_remove h r)) -> In x (map fst r).
Proof.
  induction r as [|[k p] r IH]; cbn [reg_remove map]; [tauto|].
  destruct (N.eqb h k); cbn [map fst In]; tauto.
Qed.

Lemma reg_remove_nodup h (r : registry) : NoDup (map fst r) -> NoDup (map fst (reg_remove h r)).
Proof.
  induction r as [|[k p] r IH]; cbn [reg_remove map fst]; intros H; [constructor|].
  inversion H; subst. destruct (N.eqb h k); [auto|]. cbn [map fst]. constructor; auto.
  intros Hin. apply reg_remove_incl in Hin. tauto.
Qed.

Lemma reg_insert_nodup r h p : NoDup (map fst r) -> NoDup (map fst (reg_insert r h p)).
Proof.
  intros H. unfold reg_insert. cbn [map fst]. constructor; [apply reg_remove_not_in|apply reg_remove_nodup; exact H].
Qed.

Lemma register_public_get r name f h :
  reg_get (fst (register_public r name f)) h
  = if accepted (name, f) && N.eqb (handle_of_bytes name) h then Some (mkProc name f) else reg_get r h.
Proof.
  unfold register_public, accepted. cbn [fst]. destruct (starts_reserved name); cbn [negb andb fst]; [reflexivity|].
  unfold register_private. cbn [fst]. rewrite reg_get_insert, N.eqb_sym. reflexivity.
Qed.

Lemma find_app (A : Type) (p : A -> bool) l1 l2 :
  find p (l1 ++ l2) = match find p l1 with Some x => Some x | None => find p l2 end.
Proof. induction l1 as [|a l1 IH]; cbn [app find]; [reflexivity|]. destruct (p a); auto. Qed.

Lemma find_all_false (A : Type) (p : A -> bool) l : (forall x, In x l -> p x = false) -> find p l = None.
Proof.
  induction l as [|a l IH]; intros H; cbn [find]; [reflexivity|].
  rewrite (H a (or_introl eq_refl)). apply IH. intros x Hx. apply H. right. exact Hx.
Qed.

Lemma run_public_cons r name f rest :
  run_public r ((name, f) :: rest)
  = (fst (run_public (fst (register_public r name f)) rest),
     snd (register_public r name f) :: snd (run_public (fst (register_public r name f)) rest)).
Proof.
  cbn [run_public]. destruct (register_public r name f) as [r1 a]. cbn [fst snd].
  destruct (run_public r1 rest) as [r2 l]. reflexivity.
Qed.

(* The table after ANY history of public registrations: under every handle, the procedure of the LAST accepted
   registration whose name has that handle (name and function both replaced), otherwise what was there before *)
Theorem registry_history : forall ops r h,
  reg_get (fst (run_public r ops)) h
  = match last_accepted ops h with
    | Some (name, f) => Some (mkProc name f)
    | None => reg_get r h
    end.
Proof.
  induction ops as [|[name f] rest IH]; intros r h; [reflexivity|].
  rewrite run_public_cons. cbn [fst]. rewrite IH. unfold last_accepted. cbn [rev]. rewrite find_app.
  fold (last_accepted rest h). destruct (last_accepted rest h) as [[nm g]|]; [reflexivity|].
  cbn [find]. rewrite register_public_get. cbn [fst].
  destruct (accepted (name, f) && N.eqb (handle_of_bytes name) h); reflexivity.
Qed.

(* the answers: a registration is rejected exactly when the name starts with "__" *)
Theorem registry_answers : forall ops r,
  snd (run_public r ops) = map (fun op => if starts_reserved (fst op) then RegRejected else RegOk) ops.
Proof.
  induction ops as [|[name f] rest IH]; intros r; [reflexivity|].
  rewrite run_public_cons. cbn [snd map fst]. rewrite IH. f_equal.
  unfold register_public. destruct (starts_reserved name); reflexivity.
Qed.

(* a rejected registration changes nothing *)
Theorem reserved_rejected : forall r name f,
  starts_reserved name = true -> register_public r name f = (r, RegRejected).
Proof. intros r name f H. unfold register_public. rewrite H. reflexivity. Qed.

(* in particular the names of the four library natives are rejected whatever the table holds *)
Theorem std_names_rejected : forall r n f,
  In n std_natives -> register_public r (native_name n) f = (r, RegRejected).
Proof.
  intros r n f Hn. apply reserved_rejected. cbn in Hn.
  destruct Hn as [<-|[<-|[<-|[<-|[]]]]]; reflexivity.
Qed.

Lemma vm_new_registry_get n :
  In n std_natives ->
  reg_get vm_new_registry (handle_of_bytes (native_name n)) = Some (mkProc (native_name n) (StdFn n)).
Proof. intros Hn. cbn in Hn. destruct Hn as [<-|[<-|[<-|[<-|[]]]]]; vm_compute; reflexivity. Qed.

(* After any history of public registrations on a new VM in which no ACCEPTED name has the handle of a library
   native, the four library natives are still the registered ones, under their own names *)
Theorem std_natives_kept : forall ops n,
  In n std_natives ->
  (forall name f, In (name, f) ops -> starts_reserved name = false ->
                  handle_of_bytes name <> handle_of_bytes (native_name n)) ->
  reg_get (fst (run_public vm_new_registry ops)) (handle_of_bytes (native_name n))
  = Some (mkProc (native_name n) (StdFn n)).
Proof.
  intros ops n Hn Hfree. rewrite registry_history.
  assert (E : last_accepted ops (handle_of_bytes (native_name n)) = None).
  { unfold last_accepted. apply find_all_false. intros [name f] Hin. apply in_rev in Hin.
    unfold accepted. cbn [fst]. destruct (starts_reserved name) eqn:Er; [reflexivity|]. cbn [negb andb].
    apply N.eqb_neq. apply (Hfree name f Hin Er). }
  rewrite E. apply vm_new_registry_get. exact Hn.
Qed.

(* ... and the hypothesis is needed: the reservation is by NAME, the table is keyed by the 32-bit HASH of the name.
   "tuewgsg" does not start with "__", is accepted, and replaces the library's __min (name and function) *)
Theorem std_native_shadowed_by_collision : forall f,
  starts_reserved name_collides_min = false /\
  handle_of_bytes name_collides_min = handle_of_bytes name_min /\
  run_public vm_new_registry [(name_collides_min, f)]
  = (fst (run_public vm_new_registry [(name_collides_min, f)]), [RegOk]) /\
  reg_get (fst (run_public vm_new_registry [(name_collides_min, f)])) (handle_of_bytes name_min)
  = Some (mkProc name_collides_min f).
Proof. intros f. repeat split. Qed.

(* a later accepted registration of the same name replaces the earlier one *)
Theorem registration_replaces : forall ops r name g,
  starts_reserved name = false ->
  reg_get (fst (run_public r (ops ++ [(name, g)]))) (handle_of_bytes name) = Some (mkProc name g).
Proof.
  intros ops r name g Hn. rewrite registry_history. unfold last_accepted. rewrite rev_app_distr. cbn [rev app find].
  unfold accepted. cbn [fst]. rewrite Hn, N.eqb_refl. reflexivity.
Qed.

(* the table never holds two entries for one handle *)
Theorem registry_nodup : forall ops r,
  NoDup (map fst r) -> NoDup (map fst (fst (run_public r ops))).
Proof.
  induction ops as [|[name f] rest IH]; intros r H; [exact H|].
  rewrite run_public_cons. cbn [fst]. apply IH. unfold register_public.
  destruct (starts_reserved name); cbn [fst]; [exact H|]. apply reg_insert_nodup. exact H.
Qed.

(* ------------------------------------------------------------------ *)
(* The menu: registering it through the model gives Vm.find_native     *)
(* ------------------------------------------------------------------ *)

Lemma find_native_not_in h l :
  ~ In h (map (fun n => handle_of_bytes (native_name n)) l) -> find_native h l = None.
Proof.
  induction l as [|n l IH]; intros H; [reflexivity|]. cbn [find_native].
  destruct (N.eqb (handle_of_bytes (native_name n)) h) eqn:E.
  - apply N.eqb_eq in E. exfalso. apply H. left. exact E.
  - apply IH. intros Hin. apply H. right. exact Hin.
Qed.

Lemma assoc_not_in (B : Type) h (r : list (N * B)) : ~ In h (map fst r) -> assoc h r = None.
Proof.
  induction r as [|[k p] r IH]; intros H; [reflexivity|]. cbn [assoc].
  destruct (N.eqb h k) eqn:E.
  - apply N.eqb_eq in E. exfalso. apply H. left. symmetry. exact E.
  - apply IH. intros Hin. apply H. right. exact Hin.
Qed.

(* Vm::new followed by the registrations of vmrun.rs new_vm: the lookup of call_native (callables.get(handle)) is
   Vm.find_native on Vm.all_natives, for every handle, and the name a TaskFailure carries is native_name *)
Theorem menu_registry_is_find_native : forall h,
  reg_get menu_registry h
  = match find_native h all_natives with
    | Some n => Some (mkProc (native_name n) (StdFn n))
    | None => None
    end.
Proof.
  intros h.
  destruct (in_dec N.eq_dec h (map (fun n => handle_of_bytes (native_name n)) all_natives)) as [Hin|Hnot].
  - cbn [map all_natives In] in Hin.
    repeat (destruct Hin as [<-|Hin]; [vm_compute; reflexivity|]). destruct Hin.
  - rewrite (find_native_not_in h all_natives Hnot). apply assoc_not_in.
    intros Hin. apply Hnot. revert Hin.
    assert (E : map fst menu_registry
                = rev (map (fun n => handle_of_bytes (native_name n)) all_natives)) by (vm_compute; reflexivity).
    rewrite E. intros Hin. apply in_rev in Hin. exact Hin.
Qed.
