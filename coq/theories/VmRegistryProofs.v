(* C18: proofs about the registration of native functions (VmRegistry.v). *)
From Coq Require Import NArith ZArith List Lia Bool.
From Cao Require Import ListUtil CheckUtil Bits Stacks Vm VmRegistry.
Import ListNotations.

Lemma assoc_reg_remove_other h h' (r : registry) :
  N.eqb h' h = false -> assoc h' (reg_remove h r) = assoc h' r.
Proof.
  intros Hne. induction r as [|[k p] r IH]; [reflexivity|]. cbn [reg_remove assoc].
  destruct (N.eqb h k) eqn:E1.
  - apply N.eqb_eq in E1; subst k. rewrite Hne. exact IH.
  - cbn [assoc]. rewrite IH. reflexivity.
Qed.

Lemma reg_get_insert r h p h' :
  reg_get (reg_insert r h p) h' = if N.eqb h' h then Some p else reg_get r h'.
Proof.
  unfold reg_get, reg_insert. cbn [assoc]. destruct (N.eqb h' h) eqn:E; [reflexivity|].
  apply assoc_reg_remove_other. exact E.
Qed.

(* one entry per handle is kept *)
Lemma reg_remove_not_in h (r : registry) : ~ In h (map fst (reg_remove h r)).
Proof.
  induction r as [|[k p] r IH]; cbn [reg_remove map]; [tauto|].
  destruct (N.eqb h k) eqn:E; [exact IH|]. cbn [map fst In]. intros [H|H]; [|tauto].
  subst k. rewrite N.eqb_refl in E. discriminate.
Qed.

Lemma reg_remove_incl h (r : registry) x : In x (map fst (reg_remove h r)) -> In x (map fst r).
Proof.
  induction r as [|[k p] r IH]; cbn [reg_remove map]; [tauto|].
  destruct (N.eqb h k); cbn [map fst In]; tauto.
Qed.

Lemma reg_remove_nodup h (r : registry) : NoDup (map fst r) -> NoDup (map fst (reg_remove h r)).
Proof.
  induction r as [|[k p] r IH]; cbn [reg_remove map fst]; intros H; [constructor|].
  inversion H; subst. destruct (N.eqb h k); [auto|]. cbn [map fst]. constructor; auto.
  intros Hin. apply reg_remove_incl in Hin. tauto.
Qed.

Lemma reg_insert_nodup r h p : NoDup (map fst r) -> NoDup (map fst (reg_insert r h p)).
Proof.
  intros H. unfold reg_insert. cbn [map fst]. constructor; [apply reg_remove_not_in|apply reg_remove_nodup; exact H].
Qed.

Lemma find_app (A : Type) (p : A -> bool) l1 l2 :
  find p (l1 ++ l2) = match find p l1 with Some x => Some x | None => find p l2 end.
Proof. induction l1 as [|a l1 IH]; cbn [app find]; [reflexivity|]. destruct (p a); auto. Qed.

Lemma find_all_false (A : Type) (p : A -> bool) l : (forall x, In x l -> p x = false) -> find p l = None.
Proof.
  induction l as [|a l IH]; intros H; cbn [find]; [reflexivity|].
  rewrite (H a (or_introl eq_refl)). apply IH. intros x Hx. apply H. right. exact Hx.
Qed.

Lemma run_public_cons r name f rest :
  run_public r ((name, f) :: rest)
  = (fst (run_public (fst (register_public r name f)) rest),
     snd (register_public r name f) :: snd (run_public (fst (register_public r name f)) rest)).
Proof.
  cbn [run_public]. destruct (register_public r name f) as [r1 a]. cbn [fst snd].
  destruct (run_public r1 rest) as [r2 l]. reflexivity.
Qed.

Lemma name_eqb_eq a b : name_eqb a b = true <-> a = b.
Proof. unfold name_eqb. apply list_eqb_spec. intros x y. apply N.eqb_eq. Qed.

(* one public registration: the answer is [register_answer]; the table changes only when the answer is Ok(()) *)
Lemma register_public_cases r name f :
  register_public r name f
  = (if is_ok (register_answer r name) then reg_insert r (handle_of_bytes name) (mkProc name f) else r,
     register_answer r name).
Proof.
  unfold register_public, register_answer, register_private. destruct (starts_reserved name); [reflexivity|].
  destruct (reg_get r (handle_of_bytes name)) as [p|]; [|reflexivity].
  destruct (name_eqb (pr_name p) name); reflexivity.
Qed.

Lemma run_public_length : forall ops r, length (snd (run_public r ops)) = length ops.
Proof.
  induction ops as [|[name f] rest IH]; intros r; [reflexivity|].
  rewrite run_public_cons. cbn [snd length]. rewrite IH. reflexivity.
Qed.

Lemma run_public_app : forall a b r,
  run_public r (a ++ b)
  = (fst (run_public (fst (run_public r a)) b),
     snd (run_public r a) ++ snd (run_public (fst (run_public r a)) b)).
Proof.
  induction a as [|[name f] a IH]; intros b r.
  - cbn [app run_public fst snd]. destruct (run_public r b); reflexivity.
  - cbn [app]. rewrite !run_public_cons. cbn [fst snd]. rewrite IH. reflexivity.
Qed.

(* The table after ANY history of public registrations: under every handle, the procedure (name and function) of
   the LAST registration that was answered Ok(()) and whose name has that handle; otherwise what was there before *)
Theorem registry_history : forall ops r h,
  reg_get (fst (run_public r ops)) h
  = match last_ok ops (snd (run_public r ops)) h with
    | Some (name, f) => Some (mkProc name f)
    | None => reg_get r h
    end.
Proof.
  induction ops as [|[name f] rest IH]; intros r h; [reflexivity|].
  rewrite run_public_cons. cbn [fst snd]. rewrite IH. unfold last_ok. cbn [combine rev]. rewrite find_app.
  destruct (find _ (rev (combine rest _))) as [[[nm g] a]|]; [reflexivity|].
  cbn [find fst snd]. rewrite register_public_cases. cbn [fst snd].
  destruct (is_ok (register_answer r name)); cbn [andb]; [|reflexivity].
  rewrite reg_get_insert, (N.eqb_sym h). destruct (N.eqb (handle_of_bytes name) h); reflexivity.
Qed.

(* the answers: the i-th registration is answered by [register_answer] on the table the registrations before it
   produced - rejected exactly when the name starts with "__" (RegRejected) or its handle is held by an entry
   registered under another name (RegCollides) *)
Theorem registry_answers : forall pre name f post r,
  nth (length pre) (snd (run_public r (pre ++ (name, f) :: post))) RegOk
  = register_answer (fst (run_public r pre)) name.
Proof.
  intros pre name f post r. rewrite run_public_app. cbn [snd].
  rewrite app_nth2 by (rewrite run_public_length; lia). rewrite run_public_length, Nat.sub_diag.
  rewrite run_public_cons. cbn [snd nth]. rewrite register_public_cases. reflexivity.
Qed.

(* a rejected registration changes nothing *)
Theorem reserved_rejected : forall r name f,
  starts_reserved name = true -> register_public r name f = (r, RegRejected).
Proof. intros r name f H. unfold register_public. rewrite H. reflexivity. Qed.

(* in particular the names of the four library natives are rejected whatever the table holds *)
Theorem std_names_rejected : forall r n f,
  In n std_natives -> register_public r (native_name n) f = (r, RegRejected).
Proof.
  intros r n f Hn. apply reserved_rejected. cbn in Hn.
  destruct Hn as [<-|[<-|[<-|[<-|[]]]]]; reflexivity.
Qed.

Lemma vm_new_registry_get n :
  In n std_natives ->
  reg_get vm_new_registry (handle_of_bytes (native_name n)) = Some (mkProc (native_name n) (StdFn n)).
Proof. intros Hn. cbn in Hn. destruct Hn as [<-|[<-|[<-|[<-|[]]]]]; vm_compute; reflexivity. Qed.

(* the NAME under a handle never changes: once a handle is taken, only its owner can replace the function *)
Theorem registry_name_stable : forall ops r h p,
  reg_get r h = Some p ->
  exists f, reg_get (fst (run_public r ops)) h = Some (mkProc (pr_name p) f).
Proof.
  induction ops as [|[name g] rest IH]; intros r h p Hp.
  - exists (pr_fun p). cbn [run_public fst]. rewrite Hp. destruct p; reflexivity.
  - rewrite run_public_cons. cbn [fst]. rewrite register_public_cases. cbn [fst].
    destruct (is_ok (register_answer r name)) eqn:Ea; [|apply IH; exact Hp].
    destruct (N.eqb h (handle_of_bytes name)) eqn:Eh.
    + apply N.eqb_eq in Eh. subst h.
      assert (En : pr_name p = name).
      { unfold register_answer in Ea. destruct (starts_reserved name); [discriminate|]. rewrite Hp in Ea.
        destruct (name_eqb (pr_name p) name) eqn:E; [|discriminate]. apply name_eqb_eq. exact E. }
      destruct (IH (reg_insert r (handle_of_bytes name) (mkProc name g)) (handle_of_bytes name) (mkProc name g))
        as (f' & Hf'); [rewrite reg_get_insert, N.eqb_refl; reflexivity|].
      exists f'. rewrite Hf', En. reflexivity.
    + apply IH. rewrite reg_get_insert, Eh. exact Hp.
Qed.

(* an entry registered under a reserved name is never touched by the public entry: neither its name nor its
   function *)
Theorem reserved_entry_kept : forall ops r h p,
  reg_get r h = Some p -> starts_reserved (pr_name p) = true ->
  reg_get (fst (run_public r ops)) h = Some p.
Proof.
  induction ops as [|[name g] rest IH]; intros r h p Hp Hres; [exact Hp|].
  rewrite run_public_cons. cbn [fst]. rewrite register_public_cases. cbn [fst].
  destruct (is_ok (register_answer r name)) eqn:Ea; [|apply IH; assumption].
  apply IH; [|exact Hres]. rewrite reg_get_insert.
  destruct (N.eqb h (handle_of_bytes name)) eqn:Eh; [|exact Hp].
  apply N.eqb_eq in Eh. subst h. exfalso.
  unfold register_answer in Ea. destruct (starts_reserved name) eqn:Er; [discriminate|]. rewrite Hp in Ea.
  destruct (name_eqb (pr_name p) name) eqn:E; [|discriminate]. apply name_eqb_eq in E. congruence.
Qed.

(* After ANY history of public registrations on a new VM each of the four library natives is still registered
   under its own name with its own function (no hypothesis on hashes: d80a79a) *)
Theorem std_natives_kept : forall ops n,
  In n std_natives ->
  reg_get (fst (run_public vm_new_registry ops)) (handle_of_bytes (native_name n))
  = Some (mkProc (native_name n) (StdFn n)).
Proof.
  intros ops n Hn. apply reserved_entry_kept; [apply vm_new_registry_get; exact Hn|].
  cbn [pr_name]. cbn in Hn. destruct Hn as [<-|[<-|[<-|[<-|[]]]]]; reflexivity.
Qed.

(* the four ordinary names that have the handle of a library native *)
Definition collisions : list (list N * native) :=
  [(name_collides_min, NStdMin); (name_collides_max, NStdMax); (name_collides_sort, NStdSort);
   (name_collides_to_array, NStdToArray)].

(* N-C18-1 repaired: an ordinary name with the handle of a library native (e.g. "tuewgsg" ~ "__min") is not
   reserved, has that handle, and is REJECTED (RegCollides) at any point of any history on a new VM; the table is
   left as it is and the library native stays registered *)
Theorem colliding_name_rejected : forall ops c n f,
  In (c, n) collisions ->
  let r := fst (run_public vm_new_registry ops) in
  starts_reserved c = false /\
  handle_of_bytes c = handle_of_bytes (native_name n) /\
  register_public r c f = (r, RegCollides) /\
  reg_get r (handle_of_bytes c) = Some (mkProc (native_name n) (StdFn n)).
Proof.
  intros ops c n f Hin r.
  assert (Hn : In n std_natives /\ starts_reserved c = false /\
               handle_of_bytes c = handle_of_bytes (native_name n) /\ name_eqb (native_name n) c = false).
  { cbn in Hin. destruct Hin as [E|[E|[E|[E|[]]]]]; inversion E; subst c n; cbn [std_natives In];
      (split; [tauto|]); repeat split; vm_compute; reflexivity. }
  destruct Hn as (Hn & Hres & Hh & Hne).
  pose proof (std_natives_kept ops n Hn) as Hk. fold r in Hk.
  repeat split; auto.
  - rewrite register_public_cases. unfold register_answer. rewrite Hres, Hh, Hk. cbn [pr_name]. rewrite Hne.
    reflexivity.
  - rewrite Hh. exact Hk.
Qed.

(* a later registration of a name: it replaces name and function when the handle is free or held by the same
   name; when the handle is held by another name it is answered RegCollides and the table is unchanged *)
Theorem registration_replaces : forall ops r name g,
  starts_reserved name = false ->
  let r1 := fst (run_public r ops) in
  ((forall p, reg_get r1 (handle_of_bytes name) = Some p -> pr_name p = name) ->
   reg_get (fst (run_public r (ops ++ [(name, g)]))) (handle_of_bytes name) = Some (mkProc name g) /\
   snd (run_public r (ops ++ [(name, g)])) = snd (run_public r ops) ++ [RegOk]) /\
  (forall p, reg_get r1 (handle_of_bytes name) = Some p -> pr_name p <> name ->
   run_public r (ops ++ [(name, g)]) = (r1, snd (run_public r ops) ++ [RegCollides])).
Proof.
  intros ops r name g Hres r1. rewrite run_public_app. cbn [fst snd]. fold r1.
  rewrite run_public_cons. cbn [run_public fst snd]. rewrite register_public_cases. cbn [fst snd].
  unfold register_answer. rewrite Hres. split.
  - intros Hown. destruct (reg_get r1 (handle_of_bytes name)) as [p|] eqn:Ep.
    + rewrite (proj2 (name_eqb_eq (pr_name p) name) (Hown p eq_refl)). cbn [is_ok].
      rewrite reg_get_insert, N.eqb_refl. split; reflexivity.
    + cbn [is_ok]. rewrite reg_get_insert, N.eqb_refl. split; reflexivity.
  - intros p Hp Hne. rewrite Hp.
    destruct (name_eqb (pr_name p) name) eqn:E; [apply name_eqb_eq in E; contradiction|]. reflexivity.
Qed.

(* the table never holds two entries for one handle *)
Theorem registry_nodup : forall ops r,
  NoDup (map fst r) -> NoDup (map fst (fst (run_public r ops))).
Proof.
  induction ops as [|[name f] rest IH]; intros r H; [exact H|].
  rewrite run_public_cons. cbn [fst]. apply IH. rewrite register_public_cases. cbn [fst].
  destruct (is_ok (register_answer r name)); [apply reg_insert_nodup|]; exact H.
Qed.

(* ------------------------------------------------------------------ *)
(* The menu: registering it through the model gives Vm.find_native     *)
(* ------------------------------------------------------------------ *)

Lemma find_native_not_in h l :
  ~ In h (map (fun n => handle_of_bytes (native_name n)) l) -> find_native h l = None.
Proof.
  induction l as [|n l IH]; intros H; [reflexivity|]. cbn [find_native].
  destruct (N.eqb (handle_of_bytes (native_name n)) h) eqn:E.
  - apply N.eqb_eq in E. exfalso. apply H. left. exact E.
  - apply IH. intros Hin. apply H. right. exact Hin.
Qed.

Lemma assoc_not_in (B : Type) h (r : list (N * B)) : ~ In h (map fst r) -> assoc h r = None.
Proof.
  induction r as [|[k p] r IH]; intros H; [reflexivity|]. cbn [assoc].
  destruct (N.eqb h k) eqn:E.
  - apply N.eqb_eq in E. exfalso. apply H. left. symmetry. exact E.
  - apply IH. intros Hin. apply H. right. exact Hin.
Qed.

(* Vm::new followed by the registrations of vmrun.rs new_vm: the lookup of call_native (callables.get(handle)) is
   Vm.find_native on Vm.all_natives, for every handle, and the name a TaskFailure carries is native_name *)
Theorem menu_registry_is_find_native : forall h,
  reg_get menu_registry h
  = match find_native h all_natives with
    | Some n => Some (mkProc (native_name n) (StdFn n))
    | None => None
    end.
Proof.
  intros h.
  destruct (in_dec N.eq_dec h (map (fun n => handle_of_bytes (native_name n)) all_natives)) as [Hin|Hnot].
  - cbn [map all_natives In] in Hin.
    repeat (destruct Hin as [<-|Hin]; [vm_compute; reflexivity|]). destruct Hin.
  - rewrite (find_native_not_in h all_natives Hnot). apply assoc_not_in.
    intros Hin. apply Hnot. revert Hin.
    assert (E : map fst menu_registry
                = rev (map (fun n => handle_of_bytes (native_name n)) all_natives)) by (vm_compute; reflexivity).
    rewrite E. intros Hin. apply in_rev in Hin. exact Hin.
Qed.
