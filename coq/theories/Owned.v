(* Executable model of the OwnedValue conversions (property C11, third sentence):
     cao-lang/src/value.rs   `enum OwnedValue`, `impl TryFrom<Value> for OwnedValue`
     cao-lang/src/vm.rs      `Vm::insert_value`
   over the heap of the VM model (Vm.v).  Definitions only; the proofs are in OwnedProofs.v.

   * [owned] is OwnedValue (a table is the Vec<OwnedEntry> in order; a real is its bit pattern, a string its
     UTF-8 bytes).
   * [owned_of fuel h v] is `OwnedValue::try_from(v)` for a value [v] of heap [h].  The Rust function recurses
     over the object graph without a bound (a cyclic table overflows the native stack); the model recurses on
     [fuel] and answers [CvFuel] when it is used up - a distinguished outcome, never a value.  A table is read
     as `CaoLangTable::iter` reads it: the key vector in order, every key looked up in the map part, keys the map
     does not find are skipped; per entry the key is converted first, then the value, and the first failure is
     returned (`?`).  Function / native function / closure / upvalue objects give [CvErr v] (`Err(v)`, with the
     offending inner value as in the code).  [CvUb] = dangling address, [CvCrash] = the key lookup does not
     answer (Vm.v: native recursion of == on a cyclic key).
   * [insert_owned h o] is `Vm::insert_value(&o)` on the heap [h]: a string / a table is a new object
     (`init_string` / `init_table` = Vm.halloc at the end of the heap), the entries are inserted in order - key
     first, then value, then `table.insert(key, value)` (Vm.tinsert with the VM's own key test [Vm.veq0] on the
     heap of that moment: a key that matches a stored one overwrites the value and keeps the stored key and its
     place).  `table.insert` rejects no key: its only error is OutOfMemory, and allocation failure is not part of
     the VM model (Vm.v: the heap never frees and never fills; the GC guards of the Rust code keep the new key
     and value alive, which is what "never frees" needs here).  So the only failure is [ICrash]: the key test
     does not answer ([Vm.tinsert] = None).  [IUb] (the table object just created is not a table any more) is
     there for totality and is unreachable (OwnedProofs.insert_owned_no_ub).
   * [insert_value s o] is the same on a VM state. *)
From Coq Require Import NArith ZArith List Bool.
From Cao Require Import ListUtil Bits Stacks Vm.
Import ListNotations.

Inductive owned :=
| ONil
| OInt (z : Z)
| OReal (bits : N)
| OStr (s : list N)
| OTable (l : list (owned * owned)).

(* result of try_from *)
Inductive cvres (A : Type) :=
| CvOk (a : A)
| CvErr (v : value)      (* Err(v): v is a function / native / closure / upvalue object *)
| CvFuel                 (* recursion fuel of the model exhausted *)
| CvUb                   (* dangling address *)
| CvCrash.               (* key lookup of the table did not answer *)
Arguments CvOk {A} a.
Arguments CvErr {A} v.
Arguments CvFuel {A}.
Arguments CvUb {A}.
Arguments CvCrash {A}.

Definition cv_bind {A B} (r : cvres A) (k : A -> cvres B) : cvres B :=
  match r with
  | CvOk a => k a
  | CvErr v => CvErr v
  | CvFuel => CvFuel
  | CvUb => CvUb
  | CvCrash => CvCrash
  end.

(* the loop `for (k, v) in t.iter() { entries.push(OwnedEntry { key: k.try_into()?, value: v.try_into()? }) }`
   with t.iter() = keys.iter().filter_map(|k| map.get(k).map(|v| (k, v))) *)
Fixpoint owned_rows (rec : value -> cvres owned) (eq : eqfun) (m : list (value * value)) (ks : list value)
  : cvres (list (owned * owned)) :=
  match ks with
  | [] => CvOk []
  | k :: r =>
      match map_find eq k m with
      | None => CvCrash
      | Some None => owned_rows rec eq m r
      | Some (Some (_, v)) =>
          cv_bind (rec k) (fun ok =>
          cv_bind (rec v) (fun ov =>
          cv_bind (owned_rows rec eq m r) (fun l => CvOk ((ok, ov) :: l))))
      end
  end.

Section WithFloat.
Variable F : fops.

Fixpoint owned_of (fuel : nat) (h : heap) (v : value) : cvres owned :=
  match fuel with
  | O => CvFuel
  | S f =>
      match v with
      | VNil => CvOk ONil
      | VInt z => CvOk (OInt z)
      | VReal r => CvOk (OReal r)
      | VObj a =>
          match hget h a with
          | None => CvUb
          | Some (Vm.OTable t) =>
              cv_bind (owned_rows (owned_of f h) (veq0 F h) (tmap t) (tkeys t)) (fun l => CvOk (OTable l))
          | Some (Vm.OStr s) => CvOk (OStr s)
          | Some _ => CvErr v
          end
      end
  end.

(* result of insert_value *)
Inductive ires :=
| IOk (h : heap) (v : value)
| ICrash
| IUb.

Fixpoint insert_owned (h : heap) (o : owned) : ires :=
  match o with
  | ONil => IOk h VNil
  | OInt z => IOk h (VInt z)
  | OReal r => IOk h (VReal r)
  | OStr s => let '(h1, a) := halloc h (Vm.OStr s) in IOk h1 (VObj a)
  | OTable l =>
      let '(h1, a) := halloc h (Vm.OTable (mkTable [] [])) in
      (fix rows (l : list (owned * owned)) (h : heap) : ires :=
         match l with
         | [] => IOk h (VObj a)
         | (k, v) :: r =>
             match insert_owned h k with
             | IOk h2 kv =>
                 match insert_owned h2 v with
                 | IOk h3 vv =>
                     match hget h3 a with
                     | Some (Vm.OTable t) =>
                         match tinsert (veq0 F h3) t kv vv with
                         | Some t' => rows r (hset h3 a (Vm.OTable t'))
                         | None => ICrash
                         end
                     | _ => IUb
                     end
                 | e => e
                 end
             | e => e
             end
         end) l h1
  end.

(* the entry loop of the table case, as a function of its own (= the local fixpoint above, see
   OwnedProofs.insert_owned_table) *)
Fixpoint insert_rows (a : N) (l : list (owned * owned)) (h : heap) : ires :=
  match l with
  | [] => IOk h (VObj a)
  | (k, v) :: r =>
      match insert_owned h k with
      | IOk h2 kv =>
          match insert_owned h2 v with
          | IOk h3 vv =>
              match hget h3 a with
              | Some (Vm.OTable t) =>
                  match tinsert (veq0 F h3) t kv vv with
                  | Some t' => insert_rows a r (hset h3 a (Vm.OTable t'))
                  | None => ICrash
                  end
              | _ => IUb
              end
          | e => e
          end
      | e => e
      end
  end.

(* Vm::insert_value on a machine state *)
Definition insert_value (s : state) (o : owned) : option (state * value) :=
  match insert_owned (st_heap s) o with
  | IOk h v => Some (set_heap s h, v)
  | _ => None
  end.

(* ---- the class of owned values the round trip is stated for ---- *)

(* a key the table keeps apart and finds again: nil, an integer, a string, a real that is == to itself.
   Excluded: a NaN key (`table.insert` stores it, but `map.get` never finds it again because NaN != NaN, so
   `iter` - hence try_from - drops the row: [OwnedProofs.nan_key_lost]); a table as key (the C07 key domain
   [VmTableKeys.vkey] of the VM model excludes them: the model's == on tables is fuelled and its key test does
   not look at the hash of nested reals). *)
Definition okey_ok (k : owned) : bool :=
  match k with
  | ONil | OInt _ | OStr _ => true
  | OReal r => match f_cmp F r r with Some Eq => true | _ => false end
  | OTable _ => false
  end.

(* the VM's key test (equal hash - bit-equal reals - and ==) read on owned keys *)
Definition okb (a b : owned) : bool :=
  match a, b with
  | ONil, ONil => true
  | OInt x, OInt y => Z.eqb x y
  | OReal x, OReal y => N.eqb x y && match f_cmp F x y with Some Eq => true | _ => false end
  | OStr s1, OStr s2 => bytes_eqb s1 s2
  | _, _ => false
  end.

(* no key is matched by a key before it *)
Fixpoint okeys_distinct (l : list owned) : bool :=
  match l with
  | [] => true
  | k :: r => forallb (fun k' => negb (okb k k')) r && okeys_distinct r
  end.

(* every table, at every depth (inside values; keys are not tables): admissible keys, pairwise distinct *)
Fixpoint owned_ok (o : owned) : bool :=
  match o with
  | OTable l =>
      (fix all (l : list (owned * owned)) : bool :=
         match l with
         | [] => true
         | (k, v) :: r => okey_ok k && owned_ok v && all r
         end) l
      && okeys_distinct (map fst l)
  | _ => true
  end.

(* nesting depth: a scalar, a string and an empty table are 0, a table with entries is one more than its deepest
   key or value.  try_from needs [odepth o + 1] units of fuel to answer [o]. *)
Fixpoint odepth (o : owned) : nat :=
  match o with
  | OTable l =>
      (fix mx (l : list (owned * owned)) : nat :=
         match l with
         | [] => 0
         | (k, v) :: r => Nat.max (S (Nat.max (odepth k) (odepth v))) (mx r)
         end) l
  | _ => 0
  end.

(* the canonical deep view (Vm.to_tree) of an owned value *)
Fixpoint otree (o : owned) : tval :=
  match o with
  | ONil => TNil
  | OInt z => TInt z
  | OReal r => TReal (canon_real F r)
  | OStr s => TStr s
  | OTable l =>
      TTable ((fix go (l : list (owned * owned)) : list (tval * tval) :=
                 match l with
                 | [] => []
                 | (k, v) :: r => (otree k, otree v) :: go r
                 end) l)
  end.

End WithFloat.
