(* C08, the call pair in the RETURNED program.

   Compiler.process_card compiles a Call card into  FunctionPointer h ar ; CallFunction  (CompilerCalls shows
   that, in the call skeleton of the program, these are the handle / arity name resolution designates).  Here:
   the two instructions are ADJACENT in the instruction list of the returned program, for every Call card of
   every function, at any nesting.  The only operations of the compiler that touch the code buffer are
   push_instr (appends one instruction) and patch_jump_here (rewrites the operand of one Goto / GotoIfTrue /
   GotoIfFalse); so the buffer with its jump operands erased ([ecode]) only grows at the end, and the erasure
   changes neither a FunctionPointer nor a CallFunction.

   The proof is the Hoare logic of CompilerCalls again with a finer postcondition: [Y its m] says that a
   successful run of [m] appends (modulo jump operands) a list of instructions that is laid out as
       quiet* seg_1 quiet* seg_2 ... seg_n quiet*
   with one segment per item of [its] - [FunctionPointer; CallFunction] for a Call card (item PPair),
   [FunctionPointer] for a Function card (PPtr), [CallFunction] for a DynamicCall card (PCall) - and
   "quiet" instructions (neither FunctionPointer nor CallFunction) in between. *)
From Coq Require Import List NArith ZArith Bool Lia.
From Cao Require Import ListUtil CheckUtil Bits CardAst Bytecode Compiler CompilerGen StdlibGen ResolveSpec
  CompilerProofs CompilerWf CompilerResolve ResolveProofs ResolveTree CompilerLabels CompilerCalls.
From Cao Require CardEdit.
Import ListNotations.
Local Open Scope N_scope.

(* ------------------------------------------------------------------ the code modulo jump operands *)
Definition erase (i : instr) : instr :=
  match i with
  | IGoto _ => IGoto 0%Z
  | IGotoIfTrue _ => IGotoIfTrue 0%Z
  | IGotoIfFalse _ => IGotoIfFalse 0%Z
  | _ => i
  end.
(* the code buffer, oldest instruction first, jump operands erased *)
Definition ecode (s : cstate) : list instr := map erase (rev (cs_code s)).

Lemma is_call_erase i : is_call_instr (erase i) = is_call_instr i.
Proof. destruct i; reflexivity. Qed.
Lemma erase_fp i h ar : erase i = IFunctionPointer h ar -> i = IFunctionPointer h ar.
Proof. destruct i; cbn; intros H; try discriminate; exact H. Qed.
Lemma erase_cf i : erase i = ICallFunction -> i = ICallFunction.
Proof. destruct i; cbn; intros H; try discriminate; exact H. Qed.
Lemma erase_not_call i : is_call_instr i = false -> is_call_instr (erase i) = false.
Proof. rewrite is_call_erase. auto. Qed.

Lemma set_jump_target_erase i z i' : set_jump_target i z = Some i' -> erase i' = erase i.
Proof. destruct i; cbn; intros H; try discriminate; injection H as <-; reflexivity. Qed.
Lemma erase_patch_code code : forall cur at_pc z code',
  patch_code code cur at_pc z = Some code' -> map erase code' = map erase code.
Proof.
  induction code as [|i r IH]; intros cur at_pc z code' H; cbn [patch_code] in H; [discriminate|].
  destruct (cur - N.of_nat (instr_span i) =? at_pc).
  - destruct (set_jump_target i z) as [i'|] eqn:Es; [|discriminate]. injection H as <-.
    cbn [map]. rewrite (set_jump_target_erase _ _ _ Es). reflexivity.
  - destruct (cur - N.of_nat (instr_span i) <? at_pc); [discriminate|].
    destruct (patch_code r _ at_pc z) as [r'|] eqn:Er; [|discriminate]. injection H as <-.
    cbn [map]. rewrite (IH _ _ _ _ Er). reflexivity.
Qed.

Lemma ecode_pushed s i : ecode (pushed s i) = ecode s ++ [erase i].
Proof. unfold ecode, pushed. cbn [cs_code set_code set_trace rev]. rewrite map_app. reflexivity. Qed.

(* ------------------------------------------------------------------ items and layouts *)
Inductive pitem := PPair (name : str) | PPtr (name : str) | PCall.

Definition pitem_items (p : pitem) : list citem :=
  match p with PPair n => [CPtr n; CCallI] | PPtr n => [CPtr n] | PCall => [CCallI] end.

(* card_items with the two items of a Call card kept together *)
Fixpoint card_pitems (c : card) : list pitem :=
  match c with
  | CCall name args => flat_map card_pitems args ++ [PPair name]
  | CFunction name => [PPtr name]
  | CDynamicCall f args => flat_map card_pitems args ++ card_pitems f ++ [PCall]
  | CBin _ a b => card_pitems a ++ card_pitems b
  | CUn _ a => card_pitems a
  | CTri _ a b c => card_pitems a ++ card_pitems b ++ card_pitems c
  | CCallNative _ args => flat_map card_pitems args
  | CSetGlobalVar _ v => card_pitems v
  | CSetVar _ v => card_pitems v
  | CRepeat _ n body => card_pitems n ++ card_pitems body
  | CForEach _ _ _ it body => card_pitems it ++ card_pitems body
  | CComposite _ cards => flat_map card_pitems cards
  | CArray cards => flat_map card_pitems cards
  | CClosure _ cards => flat_map card_pitems cards
  | _ => []
  end.

Lemma flat_pitems_items l :
  Forall (fun c => flat_map pitem_items (card_pitems c) = card_items c) l ->
  flat_map pitem_items (flat_map card_pitems l) = flat_map card_items l.
Proof.
  induction 1 as [|c r Hc _ IH]; [reflexivity|]. cbn [flat_map]. rewrite flat_map_app, Hc, IH. reflexivity.
Qed.
Lemma card_pitems_items c : flat_map pitem_items (card_pitems c) = card_items c.
Proof.
  induction c using card_ind'; cbn [card_pitems card_items flat_map app]; rewrite ?flat_map_app;
    cbn [flat_map pitem_items app];
    repeat match goal with H : Forall _ _ |- _ => apply flat_pitems_items in H end; congruence.
Qed.
Lemma cards_pitems_items l : flat_map pitem_items (flat_map card_pitems l) = flat_map card_items l.
Proof. apply flat_pitems_items. apply Forall_forall. intros c _. apply card_pitems_items. Qed.

Definition quiet (g : list instr) : Prop := Forall (fun i => is_call_instr i = false) g.

Section Layout.
Context {X : Type}.
Inductive layout (ok : X -> list instr -> Prop) : list X -> list instr -> Prop :=
| L_nil g : quiet g -> layout ok [] g
| L_cons g x seg xs rest :
    quiet g -> ok x seg -> layout ok xs rest -> layout ok (x :: xs) (g ++ seg ++ rest).

Lemma layout_quiet_l (ok : X -> list instr -> Prop) g xs e : quiet g -> layout ok xs e -> layout ok xs (g ++ e).
Proof.
  intros Hg H. destruct H as [g0 H0|g0 x seg xs rest H0 H1 H2].
  - constructor. apply Forall_app; auto.
  - rewrite app_assoc. constructor; auto. apply Forall_app; auto.
Qed.
Lemma layout_app (ok : X -> list instr -> Prop) a b x y : layout ok a x -> layout ok b y -> layout ok (a ++ b) (x ++ y).
Proof.
  induction 1 as [g H0|g x0 seg xs rest H0 H1 H2 IH]; intros Hb; cbn [app].
  - apply layout_quiet_l; auto.
  - rewrite <- !app_assoc. constructor; auto.
Qed.
Lemma layout_quiet_r (ok : X -> list instr -> Prop) g xs e : quiet g -> layout ok xs e -> layout ok xs (e ++ g).
Proof.
  intros Hg H. rewrite <- (app_nil_r xs). apply layout_app; [exact H | constructor; exact Hg].
Qed.
Lemma layout_one (ok : X -> list instr -> Prop) x seg : ok x seg -> layout ok [x] seg.
Proof.
  intros H. replace seg with ([] ++ seg ++ []) by (cbn [app]; apply app_nil_r).
  constructor; [constructor | exact H | constructor; constructor].
Qed.
Lemma layout_nil (ok : X -> list instr -> Prop) : layout ok [] [].
Proof. constructor. constructor. Qed.

(* the segment of the k-th item, and how many call instructions precede it *)
Lemma layout_nth (ok : X -> list instr -> Prop) (w : X -> nat) :
  (forall x seg, ok x seg -> Forall (fun i => is_call_instr i = true) seg /\ length seg = w x) ->
  forall xs e, layout ok xs e -> forall k x, nth_error xs k = Some x ->
  exists a seg b, e = a ++ seg ++ b /\ ok x seg /\
                  length (filter is_call_instr a) = list_sum (map w (firstn k xs)).
Proof.
  intros Hw xs e H. induction H as [g H0|g x0 seg xs rest H0 H1 H2 IH]; intros k x Hk.
  { destruct k; discriminate. }
  assert (Hq : filter is_call_instr g = []).
  { clear -H0. induction H0 as [|i r Hi _ IH]; [reflexivity|]. cbn [filter]. rewrite Hi. exact IH. }
  destruct k as [|k]; cbn [nth_error] in Hk.
  - injection Hk as <-. exists g, seg, rest. split; [reflexivity|]. split; [exact H1|].
    rewrite Hq. reflexivity.
  - destruct (IH k x Hk) as (a & seg' & b & -> & Hok & Hlen).
    exists (g ++ seg ++ a), seg', b. split; [rewrite <- !app_assoc; reflexivity|]. split; [exact Hok|].
    rewrite !filter_app, Hq, !app_length, Hlen. cbn [length firstn map list_sum Nat.add].
    destruct (Hw _ _ H1) as [Hall Hl].
    assert (Hf : filter is_call_instr seg = seg).
    { clear -Hall. induction Hall as [|i r Hi _ IH]; [reflexivity|]. cbn [filter]. rewrite Hi, IH. reflexivity. }
    rewrite Hf, Hl. reflexivity.
Qed.
End Layout.

Lemma layout_impl {X} (ok ok' : X -> list instr -> Prop) xs e :
  (forall x seg, ok x seg -> ok' x seg) -> layout ok xs e -> layout ok' xs e.
Proof. intros Hi H. induction H; constructor; auto. Qed.
Lemma layout_map {X Z} (f : X -> Z) (ok : Z -> list instr -> Prop) xs e :
  layout (fun x => ok (f x)) xs e -> layout ok (map f xs) e.
Proof. intros H. induction H; cbn [map]; constructor; auto. Qed.
Lemma layout_Forall2 {X Z} (R : X -> Z -> Prop) (ok : X -> list instr -> Prop) (ok' : Z -> list instr -> Prop) :
  (forall x z seg, R x z -> ok x seg -> ok' z seg) ->
  forall xs e, layout ok xs e -> forall zs, Forall2 R xs zs -> layout ok' zs e.
Proof.
  intros Hi xs e H. induction H as [g H0|g x0 seg xs rest H0 H1 H2 IH]; intros zs HF; inversion HF; subst.
  - constructor; exact H0.
  - constructor; eauto.
Qed.

(* ------------------------------------------------------------------ the Hoare triple *)
Definition seg_ok (c : list (str * fmeta) * list str * list (str * str)) (p : pitem) (seg : list instr) : Prop :=
  match p with
  | PPair name => exists s0 m, cctx s0 = c /\ resolve_function name s0 = ROk m s0 /\
                               seg = [IFunctionPointer (fm_handle m) (fm_arity m); ICallFunction]
  | PPtr name => exists s0 m, cctx s0 = c /\ resolve_function name s0 = ROk m s0 /\
                              seg = [IFunctionPointer (fm_handle m) (fm_arity m)]
  | PCall => seg = [ICallFunction]
  end.

Definition Y {A} (its : list pitem) (m : M A) : Prop :=
  forall s, match m s with
            | ROk _ s' => cctx s' = cctx s /\
                          exists ext, ecode s' = ecode s ++ ext /\ layout (seg_ok (cctx s)) its ext
            | _ => True
            end.

Lemma Y_ret {A} (a : A) : Y [] (ret a).
Proof. intros s. cbn. split; [reflexivity|]. exists []. split; [symmetry; apply app_nil_r | apply layout_nil]. Qed.

Lemma Y_bind {A B} a b (m : M A) (f : A -> M B) : Y a m -> (forall x, Y b (f x)) -> Y (a ++ b) (bind m f).
Proof.
  intros Hm Hf s. unfold bind. specialize (Hm s). destruct (m s) as [x s1|e l| |]; auto.
  destruct Hm as (Hc1 & e1 & Hs1 & Hi1). specialize (Hf x s1). destruct (f x s1) as [y s2|e l| |]; auto.
  destruct Hf as (Hc2 & e2 & Hs2 & Hi2). split; [congruence|].
  exists (e1 ++ e2). split; [rewrite Hs2, Hs1, app_assoc; reflexivity|].
  apply layout_app; [exact Hi1 | rewrite <- Hc1; exact Hi2].
Qed.
Lemma Y_eq {A} its its' (m : M A) : Y its' m -> its' = its -> Y its m.
Proof. intros H <-. exact H. Qed.
Lemma YN_bind {A B} (m : M A) (f : A -> M B) : Y [] m -> (forall x, Y [] (f x)) -> Y [] (bind m f).
Proof. intros Hm Hf. apply (Y_bind [] [] m f Hm Hf). Qed.

Lemma Y_frame {A} (m : M A) : frame4 m -> Y [] m.
Proof.
  intros Hf s. specialize (Hf s). destruct (m s) as [a s'|e l| |]; auto. destruct Hf as [Hc Hx].
  split; [exact Hx|]. exists []. unfold ecode. rewrite Hc. split; [symmetry; apply app_nil_r | apply layout_nil].
Qed.

Lemma Y_push_other i : is_call_instr i = false -> Y [] (push_instr i).
Proof.
  intros Hi s. rewrite push_instr_eq. split; [reflexivity|].
  exists [erase i]. split; [apply ecode_pushed|]. constructor. constructor; [apply erase_not_call, Hi | constructor].
Qed.
Lemma Y_push_call : Y [PCall] (push_instr ICallFunction).
Proof.
  intros s. rewrite push_instr_eq. split; [reflexivity|].
  exists [ICallFunction]. split; [apply ecode_pushed|]. apply layout_one. reflexivity.
Qed.
Lemma Y_fnptr name :
  Y [PPtr name] (do m <- resolve_function name ;; push_instr (IFunctionPointer (fm_handle m) (fm_arity m))).
Proof.
  intros s. unfold bind. destruct (resolve_function name s) as [m s1|e l| |] eqn:Er; auto.
  pose proof (resolve_function_state _ _ _ _ Er) as ->.
  rewrite push_instr_eq. split; [reflexivity|].
  exists [IFunctionPointer (fm_handle m) (fm_arity m)]. split; [apply ecode_pushed|].
  apply layout_one. exists s, m. auto.
Qed.
Lemma Y_call name :
  Y [PPair name]
    (do m <- resolve_function name ;; push_instr (IFunctionPointer (fm_handle m) (fm_arity m)) ;; push_instr ICallFunction).
Proof.
  intros s. unfold bind. destruct (resolve_function name s) as [m s1|e l| |] eqn:Er; auto.
  pose proof (resolve_function_state _ _ _ _ Er) as ->.
  rewrite !push_instr_eq. split; [reflexivity|].
  exists [IFunctionPointer (fm_handle m) (fm_arity m); ICallFunction].
  split; [rewrite !ecode_pushed, <- app_assoc; reflexivity|].
  apply layout_one. exists s, m. auto.
Qed.

Lemma Y_patch q : Y [] (patch_jump_here q).
Proof.
  intros s. unfold patch_jump_here. destruct (patch_code _ _ _ _) as [c|] eqn:Ep; [|exact I].
  split; [reflexivity|]. exists []. split; [|apply layout_nil].
  unfold ecode. cbn [cs_code set_code]. rewrite !map_rev, (erase_patch_code _ _ _ _ _ Ep), app_nil_r. reflexivity.
Qed.

Lemma Y_push_string mk st : (forall x, is_call_instr (mk x) = false) -> Y [] (push_string mk st).
Proof.
  intros Hmk. unfold push_string. apply YN_bind; [apply Y_frame, frame4_get | intros s0].
  apply YN_bind; [apply Y_push_other, Hmk | intros _].
  apply Y_frame. intros s. destruct (two32 <=? N.of_nat (length st)); cbn; auto.
Qed.

Lemma Y_push_raws is : Forall (fun i => is_call_instr i = false) is -> Y [] (push_raws is).
Proof.
  induction 1 as [|i r Hi _ IH]; cbn [push_raws]; [apply Y_ret|].
  apply YN_bind; [apply Y_push_other, Hi | intros _; exact IH].
Qed.
Lemma Y_scope_end : Y [] scope_end.
Proof.
  intros s. unfold scope_end.
  set (ds := map_hd _ (cs_depth s)). set (rlis := pop_locals _ _). set (s1 := set_scopes _ _ _ s).
  pose proof (Y_push_raws (snd rlis) (pop_locals_not_call _ _) s1) as H.
  destruct (push_raws (snd rlis) s1); auto.
Qed.

Lemma Y_with_sub its i m : Y its m -> Y its (with_sub i m).
Proof.
  intros H. unfold with_sub. eapply Y_eq.
  - eapply Y_bind; [apply Y_frame, frame4_push_sub | intros _].
    eapply Y_bind; [exact H | intros _]. apply Y_frame, frame4_pop_sub.
  - cbn [app]. apply app_nil_r.
Qed.
Lemma Y_encode_if_then its skip body :
  skip = IGotoIfFalse \/ skip = IGotoIfTrue -> Y its body -> Y its (encode_if_then skip body).
Proof.
  intros Hs Hb. unfold encode_if_then. eapply Y_eq.
  - eapply Y_bind; [apply Y_frame, frame4_get_pc | intros q].
    eapply Y_bind; [apply Y_push_other; destruct Hs; subst; reflexivity | intros _].
    eapply Y_bind; [exact Hb | intros _]. apply Y_patch.
  - cbn [app]. apply app_nil_r.
Qed.

Ltac yntac :=
  repeat first
    [ apply Y_ret
    | apply Y_scope_end
    | apply Y_patch
    | apply Y_push_other; reflexivity
    | apply Y_push_string; reflexivity
    | apply Y_frame; solve [frame4_tac]
    | apply YN_bind; [|intros ?] ].

Lemma Y_read_props props : Y [] (read_props props).
Proof.
  induction props as [|p r IH]; cbn [read_props]; [apply Y_ret|].
  apply YN_bind; [|intros _; exact IH]. destruct (is_empty p); yntac.
Qed.
Lemma Y_read_var_card v : Y [] (read_var_card v).
Proof.
  unfold read_var_card. destruct (split_once_c c_dot v) as [[a b]|].
  - apply YN_bind; [yntac | intros sc]. apply YN_bind; [destruct sc; yntac | intros _; apply Y_read_props].
  - apply YN_bind; [yntac | intros sc]. apply YN_bind; [destruct sc; yntac | intros _; apply Y_read_props].
Qed.
Lemma Y_bind_loop_var o src : Y [] (bind_loop_var o src).
Proof. destruct o; cbn [bind_loop_var]; unfold read_local, write_local; yntac. Qed.
Lemma Y_emit_upvalues ups : Y [] (emit_upvalues ups).
Proof.
  induction ups as [|u r IH]; cbn [emit_upvalues]; [apply Y_ret|].
  apply YN_bind; [yntac | intros _]. apply YN_bind; [yntac | intros _; exact IH].
Qed.
Lemma Y_process_leaf i : is_call_instr i = false -> Y [] (process_leaf i).
Proof. intros H. unfold process_leaf. apply YN_bind; [yntac | intros _; apply Y_push_other, H]. Qed.

(* ------------------------------------------------------------------ cards *)
Definition card_Y (c : card) : Prop := Y (card_pitems c) (process_card c).

Lemma Y_subexpr l : Forall card_Y l -> forall i,
  Y (flat_map card_pitems l)
    ((fix subexpr (l : list card) (i : N) {struct l} : M unit :=
        match l with
        | [] => ret tt
        | x :: r => with_sub i (process_card x) ;; subexpr r (i + 1)
        end) l i).
Proof.
  induction 1 as [|x r Hx _ IH]; intros i; [apply Y_ret|]. cbn [flat_map].
  apply Y_bind; [apply Y_with_sub, Hx | intros _; apply IH].
Qed.
Lemma Y_array_items tv l : Forall card_Y l -> forall i,
  Y (flat_map card_pitems l)
    ((fix items (l : list card) (i : N) {struct l} : M unit :=
         match l with
         | [] => ret tt
         | x :: r =>
             push_instr IScalarNil ;;
             with_sub i (process_card x) ;;
             read_local tv ;;
             push_instr IAppendTable ;;
             items r (i + 1)
         end) l i).
Proof.
  induction 1 as [|x r Hx _ IH]; intros i; [apply Y_ret|]. cbn [flat_map].
  eapply Y_eq.
  - eapply Y_bind; [apply Y_push_other; reflexivity | intros _].
    eapply Y_bind; [apply Y_with_sub, Hx | intros _].
    eapply Y_bind; [apply Y_push_other; reflexivity | intros _].
    eapply Y_bind; [apply Y_push_other; reflexivity | intros _; apply IH].
  - reflexivity.
Qed.

Ltac ystep :=
  first
    [ apply Y_ret
    | match goal with H : card_Y ?c |- Y _ (process_card ?c) => exact H end
    | apply Y_with_sub
    | apply Y_subexpr; assumption
    | apply Y_array_items; assumption
    | apply Y_encode_if_then; [first [left; reflexivity | right; reflexivity]|]
    | apply Y_call
    | apply Y_fnptr
    | apply Y_push_call
    | apply Y_scope_end
    | apply Y_read_var_card
    | apply Y_bind_loop_var
    | apply Y_emit_upvalues
    | apply Y_patch
    | apply Y_push_other; reflexivity
    | apply Y_push_string; reflexivity
    | apply Y_process_leaf; reflexivity
    | apply Y_frame; solve [frame4_tac]
    | eapply Y_bind; [|intros ?] ].

Ltac ynorm := cbn [app]; rewrite ?app_nil_r, <- ?app_assoc; cbn [app]; reflexivity.

Lemma process_card_Y c : card_Y c.
Proof.
  induction c using card_ind'; unfold card_Y; cbn [process_card card_pitems].
  - (* CBin *) destruct op; (eapply Y_eq; [repeat ystep | ynorm]).
  - (* CUn *) destruct op; (eapply Y_eq; [repeat ystep | ynorm]).
  - (* CTri *) destruct op; (eapply Y_eq; [repeat ystep | ynorm]).
  - eapply Y_eq; [repeat ystep | ynorm].
  - eapply Y_eq; [repeat ystep | ynorm].
  - eapply Y_eq; [repeat ystep | ynorm].
  - eapply Y_eq; [repeat ystep | ynorm].
  - eapply Y_eq; [repeat ystep | ynorm].
  - eapply Y_eq; [repeat ystep | ynorm].
  - eapply Y_eq; [repeat ystep | ynorm].
  - (* CFunction *) eapply Y_eq; [repeat ystep | ynorm].
  - eapply Y_eq; [repeat ystep | ynorm].
  - eapply Y_eq; [repeat ystep | ynorm].
  - (* CCallNative *) eapply Y_eq; [repeat ystep | ynorm].
  - (* CCall *) eapply Y_eq; [repeat ystep | ynorm].
  - (* CDynamicCall *) eapply Y_eq; [repeat ystep | ynorm].
  - (* CSetGlobalVar *)
    eapply Y_eq.
    + eapply Y_bind; [ystep | intros _]. eapply Y_bind; [repeat ystep | intros _].
      destruct (is_empty n); yntac.
    + ynorm.
  - (* CSetVar *)
    eapply Y_eq.
    + eapply Y_bind; [ystep | intros _]. eapply Y_bind; [repeat ystep | intros _].
      destruct (rsplit_once_c c_dot n) as [[rp sp]|].
      * apply YN_bind; [apply Y_read_var_card | intros _]. yntac.
      * apply YN_bind; [yntac | intros var]. destruct var; unfold write_local, write_upvalue; yntac.
    + ynorm.
  - (* CRepeat *) eapply Y_eq; [repeat ystep | ynorm].
  - (* CForEach *) eapply Y_eq; [repeat ystep | ynorm].
  - (* CComposite *) eapply Y_eq; [repeat ystep | ynorm].
  - (* CArray *) eapply Y_eq; [repeat ystep | ynorm].
  - (* CClosure *) eapply Y_eq; [repeat ystep | ynorm].
Qed.
