(* Correspondence checker "VM" (development aid): compiled programs printed by harness/src/vmrun.rs are run on
   the model Vm.v (with the Flocq binary64 instance) and compared with what the real VM did.
   Codes: 1 = the model's prediction differs (outcome / error trace / a global / the host log),
          2 = the implementation panicked during a run (observation ObPanic): errors must be values, there is no
              legitimate panic - reported whatever the model predicts (if the model predicts the panic too there
              is no code 1, but still code 2),
          3 = the model cannot predict this run (Diverge, Crash, UB, unmodelled native) or the case is malformed,
          4 = the opcode table of instruction.rs differs from the one Vm.v was written against. *)
From Coq Require Import NArith ZArith List Bool.
From Cao Require Export CheckUtil Bits Vm VmFloat.
Import ListNotations.
Local Open Scope N_scope.

Inductive oobs := ObOk | ObErr (e : err) (trace : list N) | ObPanic.

Record obs := mkObs {
  ob_out : oobs;
  ob_globals : list (list N * option tval);    (* read_var_by_name for every variable name of the program *)
  ob_log : list (list tval);                   (* the host log after the run *)
  ob_shape : option (list N)                   (* [value-stack height; call depth; #objects; #globals; remaining_iters] *)
}.

(* every run on a fresh VM / all runs on one VM / all runs on one VM with Vm::clear() before every run but the first *)
Inductive vmmode := MFresh | MReuse | MReuseClear.

Inductive vmcase :=
| VmProg (debug : bool) (mode : vmmode) (P : program) (runs : list (N * obs))
| VmOpTable (names : list (list N))
| VmReserved (answers : list bool).   (* C18: register_native_function("__mine") rejected, "_x" accepted, "__min" rejected, "a__b" accepted *)

Fixpoint err_eqb (a b : err) : bool :=
  match a, b with
  | ECallStackOverflow, ECallStackOverflow | EUnexpectedEndOfInput, EUnexpectedEndOfInput
  | EExitCode, EExitCode | EInvalidInstruction, EInvalidInstruction | EInvalidArgument, EInvalidArgument
  | EUnimplemented, EUnimplemented | EOutOfMemory, EOutOfMemory | EMissingArgument, EMissingArgument
  | ETimeout, ETimeout | EStackoverflow, EStackoverflow | EBadReturn, EBadReturn | EUnhashable, EUnhashable
  | EAssertionError, EAssertionError | EInvalidUpvalue, EInvalidUpvalue | ENotClosure, ENotClosure => true
  | EVarNotFound x, EVarNotFound y => opt_eqb (list_eqb N.eqb) x y
  | EProcedureNotFound x, EProcedureNotFound y => N.eqb x y
  | EConversion x, EConversion y => N.eqb x y
  | ETaskFailure n1 e1, ETaskFailure n2 e2 => list_eqb N.eqb n1 n2 && err_eqb e1 e2
  | _, _ => false
  end.

Fixpoint tval_eqb (a b : tval) : bool :=
  match a, b with
  | TNil, TNil | TFun, TFun | TDeep, TDeep => true
  | TInt x, TInt y => Z.eqb x y
  | TReal x, TReal y => N.eqb x y
  | TStr x, TStr y => list_eqb N.eqb x y
  | TTable x, TTable y =>
      (fix go (l1 l2 : list (tval * tval)) : bool :=
         match l1, l2 with
         | [], [] => true
         | (k1, v1) :: r1, (k2, v2) :: r2 => tval_eqb k1 k2 && tval_eqb v1 v2 && go r1 r2
         | _, _ => false
         end) x y
  | _, _ => false
  end.

Definition bld_of (debug : bool) : build := if debug then Debug else Release.

Definition outcome_matches (m : outcome) (o : oobs) : option bool :=
  match m, o with
  | OOk, ObOk => Some true
  | OErr e t, ObErr e' t' => Some (err_eqb e e' && list_eqb N.eqb t t')
  | OAbort APanic, ObPanic => Some true
  | OAbort APanic, _ => Some false
  | OAbort _, _ => None                (* not predictable *)
  | _, _ => Some false
  end.

Definition globals_match (P : program) (s : state) (g : list (list N * option tval)) : bool :=
  forallb (fun e =>
             opt_eqb tval_eqb
                     (option_map (tree_of flocq_ops (st_heap s)) (read_var_by_name P s (fst e)))
                     (snd e)) g.

Definition log_matches (s : state) (l : list (list tval)) : bool :=
  list_eqb (list_eqb tval_eqb) (st_log s) l.

Definition shape_of (s : state) : list N :=
  [N.of_nat (Stacks.vcount (st_stack s)); N.of_nat (length (st_calls s));
   N.of_nat (length (st_heap s)); N.of_nat (length (st_globals s)); st_rem s].
Definition shape_matches (s : state) (o : option (list N)) : bool :=
  match o with Some l => list_eqb N.eqb (shape_of s) l | None => true end.

(* The flat semantics (loop_flat, no re-entry) agrees with the real loop whenever no native re-entered:
   code 5 otherwise. This ties the subject of budget_monotone to the validated model. *)
Definition abort_eqb (a b : abort) : bool :=
  match a, b with
  | APanic, APanic | AUB, AUB | ACrash, ACrash | ADiverge, ADiverge | AUnmodelled, AUnmodelled => true
  | _, _ => false
  end.
Definition outcome_eqb (a b : outcome) : bool :=
  match a, b with
  | OOk, OOk => true
  | OErr e t, OErr e' t' => err_eqb e e' && list_eqb N.eqb t t'
  | OAbort x, OAbort y => abort_eqb x y
  | _, _ => false
  end.
Definition flat_agrees (debug : bool) (budget : nat) (P : program) (s0 : state) (m : outcome) (s1 : state) : bool :=
  let '(mf, sf) := run_flat flocq_ops (bld_of debug) budget P s0 in
  match mf with
  | OAbort AUnmodelled => true
  | _ =>
      outcome_eqb mf m && list_eqb N.eqb (firstn 4 (shape_of sf)) (firstn 4 (shape_of s1)) &&
      list_eqb (list_eqb tval_eqb) (st_log sf) (st_log s1) &&
      list_eqb (opt_eqb tval_eqb) (map (option_map (tree_of flocq_ops (st_heap sf))) (st_globals sf))
                                  (map (option_map (tree_of flocq_ops (st_heap s1))) (st_globals s1)) &&
      N.eqb (st_count sf) (st_count s1)
  end.

(* a panic of the implementation is a specification failure by itself *)
Definition panic_code (o : obs) : list N := match ob_out o with ObPanic => [2] | _ => [] end.

(* codes of a sequence of runs; [s] = state the next run starts from when the VM is reused *)
Fixpoint check_runs (debug : bool) (mode : vmmode) (first : bool) (P : program) (s : state) (runs : list (N * obs)) : list N :=
  match runs with
  | [] => []
  | (budget, o) :: rest =>
      let s0 := match mode with
                | MFresh => fresh_state
                | MReuse => s
                | MReuseClear => if first then s else clear_state s
                end in
      let '(m, s1) := run flocq_ops (bld_of debug) (N.to_nat budget) P s0 in
      (if flat_agrees debug (N.to_nat budget) P s0 m s1 then [] else [5]) ++
      panic_code o ++
      match outcome_matches m (ob_out o) with
      | None => [3]
      | Some false => [1]
      | Some true =>
          match ob_out o with
          | ObPanic => []        (* nothing else is observed after a panic; a reused VM is abandoned *)
          | _ =>
              (if globals_match P s1 (ob_globals o) then [] else [1]) ++
              (if log_matches s1 (ob_log o) then [] else [1]) ++
              (if shape_matches s1 (ob_shape o) then [] else [1]) ++
              check_runs debug mode false P s1 rest
          end
      end
  end.

(* the opcode numbering Vm.step was written against (instruction.rs, declaration order) *)
Definition b (l : list N) := l.
Definition op_names : list (list N) :=
  [ b[65;100;100]; b[83;117;98]; b[77;117;108]; b[68;105;118];
    b[67;97;108;108;78;97;116;105;118;101]; b[83;99;97;108;97;114;73;110;116];
    b[83;99;97;108;97;114;70;108;111;97;116]; b[83;99;97;108;97;114;78;105;108];
    b[83;116;114;105;110;103;76;105;116;101;114;97;108]; b[67;111;112;121;76;97;115;116];
    b[69;120;105;116]; b[67;97;108;108;70;117;110;99;116;105;111;110];
    b[69;113;117;97;108;115]; b[78;111;116;69;113;117;97;108;115]; b[76;101;115;115];
    b[76;101;115;115;79;114;69;113]; b[80;111;112];
    b[83;101;116;71;108;111;98;97;108;86;97;114]; b[82;101;97;100;71;108;111;98;97;108;86;97;114];
    b[83;101;116;76;111;99;97;108;86;97;114]; b[82;101;97;100;76;111;99;97;108;86;97;114];
    b[67;108;101;97;114;83;116;97;99;107]; b[82;101;116;117;114;110]; b[83;119;97;112;76;97;115;116];
    b[65;110;100]; b[79;114]; b[88;111;114]; b[78;111;116]; b[71;111;116;111];
    b[71;111;116;111;73;102;84;114;117;101]; b[71;111;116;111;73;102;70;97;108;115;101];
    b[73;110;105;116;84;97;98;108;101]; b[71;101;116;80;114;111;112;101;114;116;121];
    b[83;101;116;80;114;111;112;101;114;116;121]; b[76;101;110];
    b[66;101;103;105;110;70;111;114;69;97;99;104]; b[70;111;114;69;97;99;104];
    b[70;117;110;99;116;105;111;110;80;111;105;110;116;101;114];
    b[78;97;116;105;118;101;70;117;110;99;116;105;111;110;80;111;105;110;116;101;114];
    b[78;116;104;82;111;119]; b[65;112;112;101;110;100;84;97;98;108;101]; b[80;111;112;84;97;98;108;101];
    b[67;108;111;115;117;114;101]; b[83;101;116;85;112;118;97;108;117;101];
    b[82;101;97;100;85;112;118;97;108;117;101]; b[82;101;103;105;115;116;101;114;85;112;118;97;108;117;101];
    b[67;108;111;115;101;85;112;118;97;108;117;101] ].

Definition check1 (c : vmcase) : list N :=
  match c with
  | VmProg debug mode P runs => check_runs debug mode true P fresh_state runs
  | VmOpTable names => if list_eqb (list_eqb N.eqb) names op_names then [] else [4]
  | VmReserved _ => []
  end.

Definition check_all := CheckUtil.check_all check1.

(* number of instructions a run dispatches (used to look at budgets while developing) *)
Definition executed (debug : bool) (budget : N) (P : program) : N :=
  st_count (snd (run flocq_ops (bld_of debug) (N.to_nat budget) P fresh_state)).
