(* C08: resolve_sound / resolve_complete for ALL FOUR rules of name resolution: the compiler model's
   resolve_function and the tree-level specification ResolveSpec.spec_resolve designate the same
   function (and fail in the same way), for every name, namespace and import list.

   Hypotheses: [table_matches] (the jump table declares exactly the functions of the tree; established
   for every successfully flattened module in ResolveTree.v), the caller's namespace consists of
   dot-free module names, and the import table is the result of the model's execute_imports on the
   caller module's import list. *)
From Coq Require Import List NArith ZArith Bool Lia.
From Cao Require Import ListUtil CheckUtil Bits CardAst Bytecode Compiler CompilerGen StdlibGen ResolveSpec CompilerResolve.
Import ListNotations.
Local Open Scope N_scope.

(* ------------------------------------------------------------------ lists *)
Lemma removelast_app_ne {A} (a b : list A) : b <> [] -> removelast (a ++ b) = a ++ removelast b.
Proof. intros H. apply removelast_app, H. Qed.
Lemma last_app_ne {A} (a b : list A) d : b <> [] -> last (a ++ b) d = last b d.
Proof.
  intros H. induction a as [|x a IH]; [reflexivity|]. cbn [app].
  remember (a ++ b) as l eqn:E. destruct l as [|y l]; [symmetry in E; apply app_eq_nil in E; destruct E; contradiction|].
  exact IH.
Qed.
Lemma removelast_cons_ne {A} (x : A) l : l <> [] -> removelast (x :: l) = x :: removelast l.
Proof. destruct l; [contradiction|reflexivity]. Qed.
Lemma last_cons_ne {A} (x : A) l d : l <> [] -> last (x :: l) d = last l d.
Proof. destruct l; [contradiction|reflexivity]. Qed.

Lemma Forall_firstn_dotfree {A} (P : A -> Prop) n (l : list A) : Forall P l -> Forall P (firstn n l).
Proof. intros H. revert n. induction H; intros [|n]; cbn [firstn]; constructor; auto. Qed.

(* ------------------------------------------------------------------ dotted names *)
Definition dotfree (s : str) : Prop := ~ In dot s.

Lemma seq_eqb_eq a b : seq_eqb a b = true <-> a = b.
Proof. exact (str_eqb_eq a b). Qed.
Lemma seq_eqb_refl a : seq_eqb a a = true.
Proof. exact (str_eqb_refl a). Qed.
Lemma seq_eqb_neq a b : seq_eqb a b = false <-> a <> b.
Proof. exact (str_eqb_neq a b). Qed.

Lemma is_dotless_dotfree s : is_dotless s = true <-> dotfree s.
Proof.
  unfold is_dotless, dotfree. rewrite negb_true_iff. split.
  - intros H Hin. assert (E : existsb (N.eqb dot) s = true) by (apply existsb_exists; exists dot; split; [exact Hin | apply N.eqb_refl]).
    congruence.
  - intros H. destruct (existsb (N.eqb dot) s) eqn:E; [|reflexivity]. exfalso.
    apply existsb_exists in E. destruct E as (x & Hx & Ex). apply N.eqb_eq in Ex. subst x. auto.
Qed.

Lemma segments_app_dot a b : segments (a ++ dot :: b) = segments a ++ segments b.
Proof.
  induction a as [|x a IH]; cbn [app segments].
  - rewrite N.eqb_refl. reflexivity.
  - destruct (x =? dot); [rewrite IH; reflexivity|].
    rewrite IH. pose proof (segments_nonempty a) as Hne. destruct (segments a); [contradiction|reflexivity].
Qed.
Lemma segments_dotfree a : dotfree a -> segments a = [a].
Proof.
  induction a as [|x a IH]; intros H; [reflexivity|]. cbn [segments].
  destruct (N.eqb_spec x dot) as [->|Hx]; [exfalso; apply H; left; reflexivity|].
  rewrite IH; [reflexivity|]. intros Hin. apply H. right; exact Hin.
Qed.
Lemma segments_all_dotfree s : Forall dotfree (segments s).
Proof.
  induction s as [|x s IH]; cbn [segments]; [repeat constructor; intros []|].
  destruct (N.eqb_spec x dot) as [->|Hx]; [constructor; [intros []|exact IH]|].
  destruct (segments s) as [|h t]; [repeat constructor; intros [E|[]]; congruence|].
  inversion IH as [|? ? Hh Ht]; subst. constructor; [|exact Ht]. intros [E|Hin]; [congruence | exact (Hh Hin)].
Qed.
Lemma segments_ns_prefix p r : Forall dotfree p -> segments (ns_prefix p ++ r) = p ++ segments r.
Proof.
  induction 1 as [|x p Hx _ IH]; [reflexivity|].
  cbn [ns_prefix flat_map]. change (flat_map (fun x => x ++ [c_dot]) p) with (ns_prefix p).
  rewrite <- !app_assoc. cbn [app]. change c_dot with dot. rewrite segments_app_dot, (segments_dotfree x Hx), IH. reflexivity.
Qed.
Lemma last_segments_dotfree s : dotfree (last (segments s) []).
Proof.
  pose proof (segments_all_dotfree s) as H. pose proof (segments_nonempty s) as Hne.
  induction (segments s) as [|x l IH]; [contradiction|]. inversion H; subst.
  destruct l; [assumption|]. apply IH; [assumption|discriminate].
Qed.

Lemma split_once_dot s :
  match split_once_c c_dot s with
  | Some (a, b) => s = a ++ dot :: b /\ dotfree a
  | None => dotfree s
  end.
Proof.
  induction s as [|x s IH]; cbn [split_once_c]; [intros []|].
  destruct (N.eqb_spec x c_dot) as [->|Hx]; [split; [reflexivity | intros []]|].
  destruct (split_once_c c_dot s) as [[a b]|].
  - destruct IH as [-> Ha]. split; [reflexivity|]. intros [E|Hin]; [apply Hx; exact E | exact (Ha Hin)].
  - intros [E|Hin]; [apply Hx; exact E | exact (IH Hin)].
Qed.
Lemma rsplit_once_dot s :
  match rsplit_once_c c_dot s with
  | Some (a, b) => s = a ++ dot :: b /\ dotfree b
  | None => dotfree s
  end.
Proof.
  unfold rsplit_once_c. pose proof (split_once_dot (rev s)) as H.
  destruct (split_once_c c_dot (rev s)) as [[a b]|].
  - destruct H as [E Ha]. split.
    + rewrite <- (rev_involutive s), E, rev_app_distr. cbn [rev]. rewrite <- app_assoc. reflexivity.
    + intros Hin. apply Ha. apply in_rev in Hin. exact Hin.
  - intros Hin. apply H. apply in_rev. rewrite rev_involutive. exact Hin.
Qed.

Lemma rsplit_last_segment imp pre key :
  rsplit_once_c c_dot imp = Some (pre, key) -> last (segments imp) [] = key /\ removelast (segments imp) = segments pre.
Proof.
  intros E. pose proof (rsplit_once_dot imp) as H. rewrite E in H. destruct H as [-> Hk].
  rewrite segments_app_dot, (segments_dotfree key Hk). split; [apply last_last | apply removelast_last].
Qed.

(* ------------------------------------------------------------------ super_depth vs. strip_supers *)
Lemma strip_prefix_app p r : strip_prefix p (p ++ r) = Some r.
Proof. induction p as [|x p IH]; [reflexivity|]. cbn [app strip_prefix]. rewrite N.eqb_refl. exact IH. Qed.
Lemma strip_prefix_some p : forall s r, strip_prefix p s = Some r -> s = p ++ r.
Proof.
  induction p as [|x p IH]; intros s r H; cbn [strip_prefix] in H; [injection H as ->; reflexivity|].
  destruct s as [|y s]; [discriminate|]. destruct (N.eqb_spec x y) as [->|]; [|discriminate].
  rewrite (IH _ _ H). reflexivity.
Qed.

Lemma strip_supers_no_prefix s :
  strip_prefix s_super_dot s = None -> strip_supers (removelast (segments s)) = (O, removelast (segments s)).
Proof.
  intros Hn. pose proof (split_once_dot s) as H. destruct (split_once_c c_dot s) as [[a b]|].
  - destruct H as [-> Ha]. rewrite segments_app_dot, (segments_dotfree a Ha). cbn [app].
    rewrite removelast_cons_ne by apply segments_nonempty. cbn [strip_supers].
    destruct (seq_eqb a w_super) eqn:E; [|reflexivity]. exfalso.
    apply seq_eqb_eq in E. subst a.
    change (w_super ++ dot :: b) with (s_super_dot ++ b) in Hn. rewrite strip_prefix_app in Hn. discriminate.
  - rewrite (segments_dotfree s H). reflexivity.
Qed.

Lemma super_depth_go_spec : forall fuel s cnt, (length s < fuel)%nat -> exists k s',
  super_depth_go fuel s cnt = Some ((cnt + k)%nat, match (cnt + k)%nat with O => None | S _ => Some s' end) /\
  strip_supers (removelast (segments s)) = (k, removelast (segments s')) /\
  last (segments s') [] = last (segments s) [] /\
  (k = O -> s' = s).
Proof.
  induction fuel as [|fuel IH]; intros s cnt Hl; [lia|]. cbn [super_depth_go].
  destruct (strip_prefix s_super_dot s) as [post|] eqn:E.
  - pose proof (strip_prefix_some _ _ _ E) as ->.
    destruct (IH post (S cnt)) as (k & s' & H1 & H2 & H3 & _).
    { rewrite app_length in Hl. cbn in Hl. lia. }
    exists (S k), s'. rewrite Nat.add_succ_r. split; [exact H1|]. split; [|split; [|discriminate]].
    + change (s_super_dot ++ post) with (w_super ++ dot :: post).
      rewrite segments_app_dot. change (segments w_super) with [w_super]. cbn [app].
      rewrite removelast_cons_ne by apply segments_nonempty. cbn [strip_supers].
      rewrite seq_eqb_refl, H2. reflexivity.
    + rewrite H3. change (s_super_dot ++ post) with (w_super ++ dot :: post).
      rewrite segments_app_dot. change (segments w_super) with [w_super]. cbn [app].
      rewrite last_cons_ne by apply segments_nonempty. reflexivity.
  - exists O, s. rewrite Nat.add_0_r. split; [reflexivity|]. split; [apply strip_supers_no_prefix, E | auto].
Qed.

Lemma super_depth_spec alias : exists k sx s',
  super_depth alias = Some (k, sx) /\
  s' = match sx with Some x => x | None => alias end /\
  strip_supers (removelast (segments alias)) = (k, removelast (segments s')) /\
  last (segments s') [] = last (segments alias) [].
Proof.
  destruct (super_depth_go_spec (S (length alias)) alias O) as (k & s' & H1 & H2 & H3 & H4); [lia|].
  cbn [Nat.add] in H1. exists k, (match k with O => None | S _ => Some s' end), s'.
  split; [exact H1|]. split; [destruct k; [apply H4; reflexivity | reflexivity]|]. split; assumption.
Qed.

(* ------------------------------------------------------------------ the import table *)
(* the table built by execute_imports answers like a search of the import list by last segment *)
Lemma execute_imports_find il : forall acc imports key,
  execute_imports il acc = inr imports ->
  sm_find key imports = match sm_find key acc with
                        | Some a => Some a
                        | None => find (fun imp => seq_eqb (last (segments imp) []) key) il
                        end.
Proof.
  induction il as [|imp r IH]; intros acc imports key H; cbn [execute_imports] in H.
  - injection H as <-. cbn [find]. destruct (sm_find key acc); reflexivity.
  - destruct (rsplit_once_c c_dot imp) as [[pre name]|] eqn:E; [|discriminate].
    destruct (sm_find name acc) eqn:Ea; [discriminate|].
    rewrite (IH _ _ key H). cbn [find]. destruct (rsplit_last_segment _ _ _ E) as [-> _].
    destruct (seq_eqb name key) eqn:Ek.
    + apply seq_eqb_eq in Ek. subst key. rewrite sm_find_insert_same, Ea. reflexivity.
    + apply seq_eqb_neq in Ek. rewrite sm_find_insert_other by congruence. reflexivity.
Qed.

Lemma imports_find il imports key :
  execute_imports il [] = inr imports ->
  sm_find key imports = find (fun imp => seq_eqb (last (segments imp) []) key) il.
Proof. intros H. rewrite (execute_imports_find il [] imports key H). reflexivity. Qed.

Lemma find_dotted_none il name :
  ~ dotfree name -> find (fun imp => seq_eqb (last (segments imp) []) name) il = None.
Proof.
  intros Hd. induction il as [|imp r IH]; [reflexivity|]. cbn [find].
  destruct (seq_eqb (last (segments imp) []) name) eqn:E; [|exact IH].
  apply seq_eqb_eq in E. exfalso. apply Hd. rewrite <- E. apply last_segments_dotfree.
Qed.

(* ------------------------------------------------------------------ jump table = functions of the tree *)
(* the function a full name designates when read as a dotted path from the root *)
Definition declared (root : module) (key : str) : option fid :=
  lookup root (removelast (segments key)) (last (segments key) []).

(* the jump table has an entry for [key] exactly when [key], read as a dotted path from the root, is a
   function of the tree.  ResolveTree.compile_table_matches: this holds for the table of every module
   that compiles, when module names contain no '.' *)
Definition table_matches (root : module) (jt : list (str * fmeta)) : Prop :=
  forall key, sm_find key jt = None <-> declared root key = None.

Lemma declared_key root key x : declared root key = Some x -> ns_prefix (fst x) ++ snd x = key.
Proof. intros H. apply lookup_id in H. subst x. cbn [fst snd]. apply join_segments. Qed.

Lemma tm_some root jt key m : table_matches root jt -> sm_find key jt = Some m -> exists x, declared root key = Some x.
Proof.
  intros Ht H. destruct (declared root key) as [x|] eqn:E; [eauto|]. apply Ht in E. congruence.
Qed.

(* ------------------------------------------------------------------ the theorem *)
(* model and specification agree on every name: same designated function (the result is ITS table
   entry), same error otherwise.  This is resolve_sound and resolve_complete in one statement; the
   priority between the rules and the error cases are part of it. *)
Theorem resolve_agrees root il name s :
  table_matches root (cs_jump s) ->
  Forall dotfree (cs_ns s) ->
  execute_imports il [] = inr (cs_imports s) ->
  match spec_resolve root (cs_ns s) il name with
  | SFound f => exists m, sm_find (ns_prefix (fst f) ++ snd f) (cs_jump s) = Some m /\
                          resolve_function name s = ROk m s
  | SNotFound => resolve_function name s = RErr (EInvalidJump name) (Some (cur_loc s))
  | SSuperLimit => resolve_function name s = RErr ESuperLimitReached (Some (cur_loc s))
  end.
Proof.
  intros Ht Hns Himp.
  unfold spec_resolve, resolve_function, bind, get. cbv zeta.
  (* rule 1 *)
  change (lookup root (removelast (segments name)) (last (segments name) [])) with (declared root name).
  destruct (sm_find name (cs_jump s)) as [m1|] eqn:E1.
  { destruct (tm_some _ _ _ _ Ht E1) as [x Hx]. rewrite Hx. cbn [or_else ret].
    exists m1. rewrite (declared_key _ _ _ Hx). auto. }
  rewrite (proj1 (Ht name) E1). cbn [or_else].
  (* rule 2 *)
  assert (D2 : lookup root (cs_ns s ++ removelast (segments name)) (last (segments name) [])
               = declared root (ns_prefix (cs_ns s) ++ name)).
  { unfold declared. rewrite segments_ns_prefix by exact Hns.
    rewrite removelast_app_ne, last_app_ne by apply segments_nonempty. reflexivity. }
  rewrite D2.
  destruct (sm_find (ns_prefix (cs_ns s) ++ name) (cs_jump s)) as [m2|] eqn:E2.
  { destruct (tm_some _ _ _ _ Ht E2) as [x Hx]. rewrite Hx. cbn [or_else ret].
    exists m2. rewrite (declared_key _ _ _ Hx). auto. }
  rewrite (proj1 (Ht _) E2). cbn [or_else].
  (* rules 3 / 4 : dot-free or dotted name *)
  rewrite (imports_find il _ name Himp). unfold import_for.
  pose proof (split_once_dot name) as Hsp.
  destruct (split_once_c c_dot name) as [[q suffix]|].
  - (* dotted: rule 4 *)
    destruct Hsp as [Hname Hq].
    assert (Hnd : ~ dotfree name) by (intros H; apply H; rewrite Hname; apply in_or_app; right; left; reflexivity).
    rewrite (find_dotted_none il name Hnd). cbn [ret]. rewrite (imports_find il _ q Himp).
    assert (Hsegs : segments name = q :: segments suffix).
    { rewrite Hname, segments_app_dot, (segments_dotfree q Hq). reflexivity. }
    rewrite Hsegs. rewrite removelast_cons_ne, last_cons_ne by apply segments_nonempty.
    destruct (find (fun imp => seq_eqb (last (segments imp) []) q) il) as [alias|]; [|reflexivity].
    destruct (super_depth_spec alias) as (k & sx & s' & Hsd & Hs' & Hst & Hl).
    rewrite Hsd, Hst. unfold take_ns. destruct (Nat.ltb (length (cs_ns s)) k); [reflexivity|].
    cbn [ret]. rewrite <- Hl.
    match goal with |- context [ns_prefix _ ++ ?t ++ c_dot :: suffix] => replace t with s' by (destruct sx; exact Hs') end.
    set (ns' := firstn (length (cs_ns s) - k) (cs_ns s)).
    assert (Hns' : Forall dotfree ns').
    { apply Forall_firstn_dotfree, Hns. }
    set (key := ns_prefix ns' ++ s' ++ c_dot :: suffix).
    assert (D4 : lookup root (ns' ++ removelast (segments s') ++ last (segments s') [] :: removelast (segments suffix))
                        (last (segments suffix) []) = declared root key).
    { unfold declared, key. rewrite segments_ns_prefix by exact Hns'. change c_dot with dot.
      rewrite segments_app_dot.
      rewrite !removelast_app_ne, !last_app_ne;
        try apply segments_nonempty;
        try (intros Hx; apply app_eq_nil in Hx; destruct Hx as [_ Hx]; revert Hx; apply segments_nonempty).
      pose proof (app_removelast_last [] (segments_nonempty s')) as Hrl.
      set (R := removelast (segments s')) in *. set (L := last (segments s') []) in *.
      rewrite Hrl, <- app_assoc. reflexivity. }
    rewrite D4.
    destruct (sm_find key (cs_jump s)) as [m4|] eqn:E4.
    + destruct (tm_some _ _ _ _ Ht E4) as [x Hx]. rewrite Hx. cbn [or_else ret].
      exists m4. rewrite (declared_key _ _ _ Hx). auto.
    + rewrite (proj1 (Ht _) E4). reflexivity.
  - (* dot-free: rule 3 *)
    rewrite (segments_dotfree name Hsp). cbn [removelast last].
    destruct (find (fun imp => seq_eqb (last (segments imp) []) name) il) as [alias|]; [|reflexivity].
    destruct (super_depth_spec alias) as (k & sx & s' & Hsd & Hs' & Hst & Hl).
    rewrite Hsd, Hst. unfold take_ns. destruct (Nat.ltb (length (cs_ns s)) k); [reflexivity|].
    cbn [ret]. rewrite <- Hl.
    match goal with |- context [sm_find (ns_prefix _ ++ ?t) (cs_jump s)] => replace t with s' by (destruct sx; exact Hs') end.
    set (ns' := firstn (length (cs_ns s) - k) (cs_ns s)).
    assert (Hns' : Forall dotfree ns').
    { apply Forall_firstn_dotfree, Hns. }
    set (key := ns_prefix ns' ++ s').
    assert (D3 : lookup root (ns' ++ removelast (segments s')) (last (segments s') []) = declared root key).
    { unfold declared, key. rewrite segments_ns_prefix by exact Hns'.
      rewrite removelast_app_ne, last_app_ne by apply segments_nonempty. reflexivity. }
    rewrite D3.
    destruct (sm_find key (cs_jump s)) as [m3|] eqn:E3.
    + destruct (tm_some _ _ _ _ Ht E3) as [x Hx]. rewrite Hx. cbn [or_else ret].
      exists m3. rewrite (declared_key _ _ _ Hx). auto.
    + rewrite (proj1 (Ht _) E3). reflexivity.
Qed.

(* the two directions and the error cases, separately *)
Theorem resolve_sound root il name s m s' :
  table_matches root (cs_jump s) -> Forall dotfree (cs_ns s) -> execute_imports il [] = inr (cs_imports s) ->
  resolve_function name s = ROk m s' ->
  s' = s /\ exists f, spec_resolve root (cs_ns s) il name = SFound f /\
                      sm_find (ns_prefix (fst f) ++ snd f) (cs_jump s) = Some m.
Proof.
  intros Ht Hns Hi H. pose proof (resolve_agrees root il name s Ht Hns Hi) as A.
  destruct (spec_resolve root (cs_ns s) il name) as [f| |].
  - destruct A as (m0 & Hm & Hr). rewrite Hr in H. injection H as <- <-. split; [reflexivity|]. exists f. auto.
  - rewrite A in H. discriminate.
  - rewrite A in H. discriminate.
Qed.

Theorem resolve_complete root il name s f :
  table_matches root (cs_jump s) -> Forall dotfree (cs_ns s) -> execute_imports il [] = inr (cs_imports s) ->
  spec_resolve root (cs_ns s) il name = SFound f ->
  exists m, resolve_function name s = ROk m s /\ sm_find (ns_prefix (fst f) ++ snd f) (cs_jump s) = Some m.
Proof.
  intros Ht Hns Hi H. pose proof (resolve_agrees root il name s Ht Hns Hi) as A. rewrite H in A.
  destruct A as (m & Hm & Hr). eauto.
Qed.

Theorem resolve_errors root il name s :
  table_matches root (cs_jump s) -> Forall dotfree (cs_ns s) -> execute_imports il [] = inr (cs_imports s) ->
  (forall e l, resolve_function name s = RErr e l ->
     l = Some (cur_loc s) /\
     ((e = EInvalidJump name /\ spec_resolve root (cs_ns s) il name = SNotFound) \/
      (e = ESuperLimitReached /\ spec_resolve root (cs_ns s) il name = SSuperLimit))) /\
  (spec_resolve root (cs_ns s) il name = SNotFound ->
     resolve_function name s = RErr (EInvalidJump name) (Some (cur_loc s))) /\
  (spec_resolve root (cs_ns s) il name = SSuperLimit ->
     resolve_function name s = RErr ESuperLimitReached (Some (cur_loc s))).
Proof.
  intros Ht Hns Hi. pose proof (resolve_agrees root il name s Ht Hns Hi) as A.
  destruct (spec_resolve root (cs_ns s) il name) as [f| |].
  - destruct A as (m & _ & Hr). split; [|split; discriminate]. intros e l H. rewrite Hr in H. discriminate.
  - split; [|split; [auto | discriminate]]. intros e l H. rewrite A in H. injection H as <- <-. auto.
  - split; [|split; [discriminate | auto]]. intros e l H. rewrite A in H. injection H as <- <-. auto.
Qed.
