(* The load test leaves a free slot: if `count as f32 > capacity as f32 * MAX_LOAD` is false
   (in the integer model of F32Load.v) then count < capacity, provided MAX_LOAD = num / 2^shift
   satisfies num * (2^23 + 1) < 2^shift * 2^23, i.e. MAX_LOAD is below 1 by more than one ulp. *)
From Coq Require Import NArith Lia.
From Cao Require Import F32Load.
Local Open Scope N_scope.

Lemma rne_shift_le m e : rne_shift m e * 2 ^ e <= m + 2 ^ e.
Proof.
  unfold rne_shift. destruct (N.eqb_spec e 0) as [->|He].
  - rewrite N.pow_0_r. lia.
  - assert (Hp : 2 ^ e <> 0) by (apply N.pow_nonzero; lia).
    assert (Hq : m / 2 ^ e * 2 ^ e <= m) by (rewrite N.mul_comm; apply N.mul_div_le; exact Hp).
    remember (m / 2 ^ e) as q. remember (2 ^ e) as p.
    destruct (m mod p <? 2 ^ (e - 1)); [lia|].
    destruct (2 ^ (e - 1) <? m mod p); [lia|].
    destruct (N.even q); lia.
Qed.

Theorem needs_grow_false_lt num shift count cap :
  0 < num -> num * (2 ^ 23 + 1) < 2 ^ shift * 2 ^ 23 -> 0 < cap ->
  needs_grow_N num shift count cap = false -> count < cap.
Proof.
  intros Hnum Hload Hcap H. unfold needs_grow_N in H. apply N.ltb_ge in H.
  set (m := cap * num) in *.
  assert (Hm : 0 < m) by (unfold m; lia).
  set (e := N.size m - 24) in *.
  pose proof (rne_shift_le m e) as Hr.
  assert (Hs : 0 < 2 ^ shift) by (apply N.neq_0_lt_0, N.pow_nonzero; lia).
  (* 2^e * 2^23 <= m  (or e = 0) *)
  assert (He : 2 ^ e * 2 ^ 23 <= m \/ e = 0).
  { destruct (N.eqb_spec e 0) as [E0|E0]; [right; exact E0|left].
    assert (Hsz : N.size m = N.succ (N.log2 m)) by (apply N.size_log2; lia).
    destruct (N.log2_spec m Hm) as [Hlo _].
    assert (Hel : e + 23 = N.log2 m) by (unfold e in *; lia).
    rewrite <- N.pow_add_r, Hel. exact Hlo. }
  destruct He as [He|He].
  - (* count * 2^shift * 2^23 <= (m + 2^e) * 2^23 <= m * (2^23 + 1) < cap * 2^shift * 2^23 *)
    assert (H1 : count * 2 ^ shift * 2 ^ 23 <= (m + 2 ^ e) * 2 ^ 23).
    { apply N.mul_le_mono_r. lia. }
    assert (H2 : (m + 2 ^ e) * 2 ^ 23 <= m * (2 ^ 23 + 1)) by lia.
    assert (H3 : m * (2 ^ 23 + 1) < cap * (2 ^ shift * 2 ^ 23)).
    { unfold m. rewrite <- N.mul_assoc. apply N.mul_lt_mono_pos_l; [exact Hcap|exact Hload]. }
    assert (H4 : count * (2 ^ shift * 2 ^ 23) < cap * (2 ^ shift * 2 ^ 23)) by lia.
    apply N.mul_lt_mono_pos_r in H4; [exact H4|]. lia.
  - rewrite He, N.pow_0_r in *. unfold rne_shift in H. rewrite N.eqb_refl in H.
    assert (Hn : num < 2 ^ shift) by lia.
    assert (H4 : count * 2 ^ shift < cap * 2 ^ shift).
    { eapply N.le_lt_trans; [|apply N.mul_lt_mono_pos_l; [exact Hcap|exact Hn]]. unfold m in H. lia. }
    apply N.mul_lt_mono_pos_r in H4; [exact H4|exact Hs].
Qed.

Corollary needs_grow_nat_false_lt num shift (count cap : nat) :
  0 < num -> num * (2 ^ 23 + 1) < 2 ^ shift * 2 ^ 23 -> (0 < cap)%nat ->
  needs_grow_nat num shift count cap = false -> (count < cap)%nat.
Proof.
  intros Hnum Hload Hcap H. unfold needs_grow_nat in H.
  apply needs_grow_false_lt in H; auto; lia.
Qed.

(* (n as f32 * c) as usize >= n when the constant c = num / 2^shift is at least 1 + 2^-22 *)
Lemma rne_shift_ge m e : m < rne_shift m e * 2 ^ e + 2 ^ e.
Proof.
  unfold rne_shift. destruct (N.eqb_spec e 0) as [->|He].
  - rewrite N.pow_0_r. lia.
  - assert (Hp : 2 ^ e <> 0) by (apply N.pow_nonzero; lia).
    assert (Hq : m < (m / 2 ^ e) * 2 ^ e + 2 ^ e).
    { pose proof (N.mod_lt m (2 ^ e) Hp) as Hm. pose proof (N.div_mod m (2 ^ e) Hp) as Hd.
      rewrite (N.mul_comm (m / 2 ^ e)). remember (2 ^ e * (m / 2 ^ e)) as a. remember (m mod 2 ^ e) as r.
      lia. }
    remember (m / 2 ^ e) as q. remember (2 ^ e) as p.
    destruct (m mod p <? 2 ^ (e - 1)); [lia|].
    destruct (2 ^ (e - 1) <? m mod p); [lia|].
    destruct (N.even q); lia.
Qed.

Theorem f32_mul_trunc_ge num shift n :
  2 ^ shift * 2 ^ 23 <= num * (2 ^ 23 - 1) -> n <= f32_mul_trunc_N num shift n.
Proof.
  intros Hc. unfold f32_mul_trunc_N.
  assert (Hs : 2 ^ shift <> 0) by (apply N.pow_nonzero; lia).
  apply N.div_le_lower_bound; [exact Hs|].
  destruct (N.eq_dec n 0) as [->|Hn0]; [lia|].
  assert (Hnum : 2 ^ shift <= num).
  { assert (2 ^ shift * 2 ^ 23 <= num * 2 ^ 23) by lia.
    apply N.mul_le_mono_pos_r in H; [exact H|]. apply N.neq_0_lt_0, N.pow_nonzero; lia. }
  set (m := n * num) in *.
  assert (Hm : 0 < m) by (unfold m; apply N.mul_pos_pos; lia).
  set (e := N.size m - 24) in *.
  pose proof (rne_shift_ge m e) as Hr.
  destruct (N.eqb_spec e 0) as [E0|E0].
  - rewrite E0 in *. unfold rne_shift. rewrite N.eqb_refl, N.pow_0_r, N.mul_1_r.
    unfold m. rewrite N.mul_comm. apply N.mul_le_mono_l. exact Hnum.
  - assert (He : 2 ^ e * 2 ^ 23 <= m).
    { assert (Hsz : N.size m = N.succ (N.log2 m)) by (apply N.size_log2; lia).
      destruct (N.log2_spec m Hm) as [Hlo _].
      assert (Hel : e + 23 = N.log2 m) by (unfold e in *; lia).
      rewrite <- N.pow_add_r, Hel. exact Hlo. }
    remember (rne_shift m e * 2 ^ e) as Q. remember (2 ^ e) as p.
    (* m < Q + p  and  p * 2^23 <= m   ==>   m * (2^23 - 1) < Q * 2^23 *)
    assert (H1 : m * 2 ^ 23 < Q * 2 ^ 23 + p * 2 ^ 23).
    { rewrite <- N.mul_add_distr_r. apply N.mul_lt_mono_pos_r; [|exact Hr]. apply N.neq_0_lt_0, N.pow_nonzero; lia. }
    assert (H2 : m * (2 ^ 23 - 1) < Q * 2 ^ 23).
    { rewrite N.mul_sub_distr_l, N.mul_1_r. lia. }
    assert (H3 : n * (2 ^ shift * 2 ^ 23) <= m * (2 ^ 23 - 1)).
    { unfold m. rewrite <- N.mul_assoc. apply N.mul_le_mono_l. exact Hc. }
    assert (H4 : (2 ^ shift * n) * 2 ^ 23 < Q * 2 ^ 23) by lia.
    apply N.mul_lt_mono_pos_r in H4; [lia|]. apply N.neq_0_lt_0, N.pow_nonzero; lia.
Qed.
