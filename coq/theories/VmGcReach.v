(* C02, link between the VM model and the collector model, part 3 (stdlib style): in a closed state every address the
   collector would trace ([vm_kids]) or start from ([vm_roots]) is an index into the heap; and the values an
   instruction can take from the machine state - a live stack slot, a global, the closure of a frame, a node of the
   open-upvalue list - are roots. *)
From Coq Require Import NArith ZArith List Lia Bool.
From Cao Require Import ListUtil Bits Stacks Vm VmUpvalueProofs VmGcRoots VmGcClosed.
Import ListNotations.

Lemma vaddr_ok n v c : vok n v -> In c (vaddr v) -> aok n c.
Proof. destruct v; cbn; try contradiction. intros H [<-|[]]. exact H. Qed.
Lemma pair_addrs_ok n kv c : pair_ok n kv -> In c (pair_addrs kv) -> aok n c.
Proof. intros [A B] H. apply in_app_or in H. destruct H as [H|H]; [exact (vaddr_ok _ _ _ A H)|exact (vaddr_ok _ _ _ B H)]. Qed.
Lemma flat_vaddr_ok n l c : Forall (vok n) l -> In c (flat_map vaddr l) -> aok n c.
Proof.
  intros H Hc. apply in_flat_map in Hc. destruct Hc as (v & Hv & Hc). rewrite Forall_forall in H.
  eapply vaddr_ok; [apply H; exact Hv|exact Hc].
Qed.
Lemma flat_pair_ok n l c : Forall (pair_ok n) l -> In c (flat_map pair_addrs l) -> aok n c.
Proof.
  intros H Hc. apply in_flat_map in Hc. destruct Hc as (v & Hv & Hc). rewrite Forall_forall in H.
  eapply pair_addrs_ok; [apply H; exact Hv|exact Hc].
Qed.

Lemma vm_kids_ok F s a ob c :
  state_closed s -> hget (st_heap s) a = Some ob -> In c (vm_kids F s ob) -> aok (hl s) c.
Proof.
  intros Hs Ha Hc. pose proof (closed_hget _ _ _ Hs Ha) as Ho.
  destruct ob as [t|b|h ar|h|h ar ups|u]; cbn [vm_kids obj_ok] in *; try contradiction.
  - destruct (titer _ t) as [l|] eqn:Et.
    + eapply flat_pair_ok; [eapply titer_ok; [exact Ho|exact Et]|exact Hc].
    + destruct Ho as [Hk Hm]. unfold table_addrs in Hc. apply in_app_or in Hc. destruct Hc as [Hc|Hc].
      * eapply flat_vaddr_ok; eauto.
      * eapply flat_pair_ok; eauto.
  - rewrite Forall_forall in Ho. apply Ho. exact Hc.
  - destruct Ho as (Uv & _ & _). destruct (u_loc u) as [l|] eqn:El.
    + eapply vaddr_ok; [eapply sraw_get_vok; eauto|exact Hc].
    + eapply vaddr_ok; eauto.
Qed.

Lemma open_chain_ok n d h : Forall (obj_ok n d) h ->
  forall fuel c x, ook n c -> In x (open_chain fuel h c) -> aok n x.
Proof.
  intros Hh. induction fuel as [|f IH]; intros c x Hc Hx; cbn [open_chain] in Hx; [contradiction|].
  destruct c as [a|]; [|contradiction]. destruct Hx as [<-|Hx]; [exact Hc|].
  destruct (hget h a) as [[t|b|hh ar|hh|hh ar ups|u]|] eqn:Ea; try contradiction.
  pose proof (Forall_nth_error _ _ _ _ Hh Ea) as (_ & Un & _). eapply IH; eauto.
Qed.

(* a live slot that holds an object *)
Lemma live_slot_in s i a :
  i < vcount (st_stack s) -> nth i (sd s) VNil = VObj a -> In (VObj a) (live_stack s).
Proof.
  intros Hi Hn. unfold live_stack, sd in *.
  assert (Hl : i < length (vdata (st_stack s))).
  { destruct (Nat.lt_ge_cases i (length (vdata (st_stack s)))) as [L|L]; [exact L|].
    rewrite nth_overflow in Hn by exact L. discriminate. }
  rewrite <- Hn. rewrite <- (nth_firstn (vdata (st_stack s)) i (vcount (st_stack s)) VNil Hi).
  apply nth_In. rewrite firstn_length. lia.
Qed.

Lemma vm_roots_ok s c : state_closed s -> In c (vm_roots s) -> aok (hl s) c.
Proof.
  intros Hs Hc. unfold vm_roots in Hc. repeat (apply in_app_or in Hc; destruct Hc as [Hc|Hc]).
  - apply in_flat_map in Hc. destruct Hc as (v & Hv & Hc). unfold live_stack in Hv.
    destruct (In_nth _ _ VNil Hv) as (i & Hi & Hn). rewrite firstn_length in Hi.
    rewrite nth_firstn in Hn by lia. eapply vaddr_ok; [|exact Hc]. rewrite <- Hn. apply (sc_stack Hs). lia.
  - apply in_flat_map in Hc. destruct Hc as (f & Hf & Hc). pose proof (sc_calls Hs) as B. rewrite Forall_forall in B.
    destruct (B f Hf) as [_ Ho]. destruct (fr_clo f); cbn in Hc; [destruct Hc as [<-|[]]; exact Ho|contradiction].
  - eapply open_chain_ok; [apply (sc_heap Hs)|apply (sc_open Hs)|exact Hc].
  - apply in_flat_map in Hc. destruct Hc as (g & Hg & Hc). pose proof (sc_globals Hs) as B. rewrite Forall_forall in B.
    specialize (B g Hg). destruct g as [v|]; [|contradiction]. eapply vaddr_ok; eauto.
Qed.

(* ---- what an instruction takes from the machine state is a root ---- *)
Lemma stack_slot_root s i a : i < vcount (st_stack s) -> nth i (sd s) VNil = VObj a -> In a (vm_roots s).
Proof.
  intros Hi Hn. unfold vm_roots. apply in_or_app. left. apply in_flat_map. exists (VObj a).
  split; [eapply live_slot_in; eauto|left; reflexivity].
Qed.
Lemma speek_root s k a : speek s k = VObj a -> In a (vm_roots s).
Proof.
  unfold speek, vs_step. destruct (k <? vcount (st_stack s)) eqn:E; [|discriminate]. apply Nat.ltb_lt in E.
  apply stack_slot_root. lia.
Qed.
Lemma slast_root s a : slast s = VObj a -> In a (vm_roots s).
Proof.
  unfold slast, vs_last. destruct (0 <? vcount (st_stack s)) eqn:E; [|discriminate]. apply Nat.ltb_lt in E.
  apply stack_slot_root. lia.
Qed.
Lemma sget_root s i a : sget s i = VObj a -> In a (vm_roots s).
Proof.
  unfold sget, vs_step. destruct (vcount (st_stack s) <=? i) eqn:E; [discriminate|]. apply Nat.leb_gt in E.
  apply stack_slot_root. exact E.
Qed.
Lemma spop_root s a : snd (spop s) = VObj a -> In a (vm_roots s).
Proof.
  unfold spop, vs_pop. destruct (vcount (st_stack s) =? 0) eqn:E; cbn [snd]; [discriminate|]. apply Nat.eqb_neq in E.
  apply stack_slot_root. lia.
Qed.
Lemma frame_closure_root s f ca : In f (st_calls s) -> fr_clo f = Some ca -> In ca (vm_roots s).
Proof.
  intros Hf Hc. unfold vm_roots. apply in_or_app. right. apply in_or_app. left. apply in_flat_map. exists f.
  split; [exact Hf|]. rewrite Hc. left. reflexivity.
Qed.
Lemma global_root s i a : nth_error (st_globals s) i = Some (Some (VObj a)) -> In a (vm_roots s).
Proof.
  intros H. unfold vm_roots. apply in_or_app. right. apply in_or_app. right. apply in_or_app. right.
  apply in_flat_map. exists (Some (VObj a)). split; [eapply nth_error_In; exact H|left; reflexivity].
Qed.
Lemma open_head_root s a : st_open s = Some a -> In a (vm_roots s).
Proof.
  intros H. unfold vm_roots. apply in_or_app. right. apply in_or_app. right. apply in_or_app. left.
  rewrite H. cbn [open_chain]. left. reflexivity.
Qed.

(* ---- instruction boundaries of a run ---- *)
(* one instruction of the real (nested) semantics: natives re-enter the interpreter through [run_at] *)
Lemma step_run_at_closed F bld P max_instr depth ip s : state_closed s ->
  sres_c (hl s) (step F bld P (run_at F bld P false max_instr depth) ip s).
Proof. intros Hs. apply step_closed; [|exact Hs]. intros ip' s' Hs'. apply run_at_closed. exact Hs'. Qed.

(* [boundary s s']: [s'] is the machine state at an instruction boundary of an execution that starts in [s] - any
   sequence of instructions at any instruction pointers (so: any bytecode, any control flow), with the bookkeeping
   of the dispatch loop (budget counter, ghost instruction counter) in between *)
Inductive boundary (F : fops) (bld : build) (P : program) (max_instr : N) : state -> state -> Prop :=
| bd_here s : boundary F bld P max_instr s s
| bd_step s depth ip ip' s1 s2 :
    step F bld P (run_at F bld P false max_instr depth) ip s = SNext ip' s1 ->
    boundary F bld P max_instr s1 s2 -> boundary F bld P max_instr s s2
| bd_tick s r s2 : boundary F bld P max_instr (tick (set_rem s r)) s2 -> boundary F bld P max_instr s s2.

Lemma boundary_closed F bld P max_instr s s' :
  boundary F bld P max_instr s s' -> state_closed s -> state_closed s' /\ hl s <= hl s'.
Proof.
  induction 1 as [s|s depth ip ip' s1 s2 Hstep _ IH|s r s2 _ IH]; intros Hs.
  - split; [exact Hs|lia].
  - pose proof (step_run_at_closed F bld P max_instr depth ip s Hs) as H. rewrite Hstep in H. destruct H as [A B].
    destruct (IH A) as [C D]. split; [exact C|lia].
  - apply IH. apply closed_tick, closed_set_rem. exact Hs.
Qed.
