(* Small list toolkit shared by the models: functional array update and its laws. *)
From Coq Require Export List Arith ZArith Lia Bool.
Export ListNotations.

Fixpoint upd {A} (l : list A) (i : nat) (v : A) : list A :=
  match l, i with
  | [], _ => []
  | _ :: t, O => v :: t
  | h :: t, S i' => h :: upd t i' v
  end.

Lemma upd_length {A} (l : list A) i v : length (upd l i v) = length l.
Proof. revert i; induction l as [|h t IH]; intros [|i]; cbn; auto. Qed.

Lemma nth_upd_same {A} (l : list A) i v d : i < length l -> nth i (upd l i v) d = v.
Proof.
  revert i; induction l as [|h t IH]; intros [|i] Hi; cbn in *; try lia; auto.
  apply IH; lia.
Qed.

Lemma nth_upd_other {A} (l : list A) i j v d : i <> j -> nth j (upd l i v) d = nth j l d.
Proof.
  revert i j; induction l as [|h t IH]; intros [|i] [|j] Hij; cbn; auto; try lia.
Qed.

Lemma firstn_upd_ge {A} (l : list A) i n v : n <= i -> firstn n (upd l i v) = firstn n l.
Proof.
  revert i n; induction l as [|h t IH]; intros [|i] [|n] Hn; cbn; auto; try lia.
  f_equal; apply IH; lia.
Qed.

Lemma firstn_upd_snoc {A} (l : list A) n v :
  n < length l -> firstn (S n) (upd l n v) = firstn n l ++ [v].
Proof.
  revert n; induction l as [|h t IH]; intros [|n] Hn; cbn in *; try lia; auto.
  f_equal; apply IH; lia.
Qed.

Lemma firstn_upd_lt {A} (l : list A) i n v :
  i < n -> firstn n (upd l i v) = upd (firstn n l) i v.
Proof.
  revert i n; induction l as [|h t IH]; intros [|i] [|n] Hn; cbn; auto; try lia.
  f_equal; apply IH; lia.
Qed.

Lemma nth_firstn {A} (l : list A) i n d : i < n -> nth i (firstn n l) d = nth i l d.
Proof.
  revert i n; induction l as [|h t IH]; intros [|i] [|n] Hn; cbn; auto; try lia.
  apply IH; lia.
Qed.

Lemma firstn_S_snoc {A} (l : list A) n d :
  n < length l -> firstn (S n) l = firstn n l ++ [nth n l d].
Proof.
  revert n; induction l as [|h t IH]; intros [|n] Hn; cbn in *; try lia; auto.
  f_equal; apply IH; lia.
Qed.

Lemma removelast_firstn_S {A} (l : list A) n :
  n < length l -> removelast (firstn (S n) l) = firstn n l.
Proof.
  intros Hn. destruct l as [|x l']; [cbn in Hn; lia|].
  rewrite (firstn_S_snoc (x :: l') n x Hn). apply removelast_last.
Qed.

Lemma last_firstn_S {A} (l : list A) n d :
  n < length l -> last (firstn (S n) l) d = nth n l d.
Proof.
  intros Hn. rewrite (firstn_S_snoc l n d Hn). apply last_last.
Qed.

Lemma firstn_firstn_le' {A} (d : list A) a b : a <= b -> firstn a (firstn b d) = firstn a d.
Proof. intros; rewrite firstn_firstn; f_equal; lia. Qed.
