(* C01, simulation, compiler half for fragment F8 (declarations in scopes: a SetVar of a new name in a declaring
   position declares a local at the current scope depth); on top of C01SimComp6 / C01SimComp7.
   A statement now maps the compile context Ld to a longer one ([ldnext8 d Ld c]); the body of a Repeat is a scope
   whose locals (and the loop variable) are popped by the inner scope_end of every round. *)
From Cao Require TableProofs.
From Coq Require Import List NArith ZArith Bool Lia.
From Cao Require Import ListUtil CheckUtil Bits CardAst Bytecode Compiler CompilerGen CompilerProofs CompilerWf
     CompilerResolve StdlibGen C01SimKeep C01SimDefs C01SimComp C01SimDefs2 C01SimComp2 C01SimDefs4 C01SimDefs5 C01SimComp5 C01SimDefs6 C01SimComp6 C01SimDefs7
     C01SimComp7 C01SimDefs8.
Import ListNotations.
Local Open Scope N_scope.

(* ------------------------------------------------------------------ the compile context behind a card *)
Fixpoint ldnext8 (d : Z) (Ld : list (str * Z)) (c : card) : list (str * Z) :=
  match c with
  | CSetVar x _ => if lmem x (map fst Ld) then Ld else (x, d) :: Ld
  | CComposite _ cs =>
      (fix go (Ld : list (str * Z)) (l : list card) {struct l} : list (str * Z) :=
         match l with
         | [] => Ld
         | x :: r => go (ldnext8 d Ld x) r
         end) Ld cs
  | _ => Ld
  end.
Fixpoint ldnext_seq8 (d : Z) (Ld : list (str * Z)) (cs : list card) : list (str * Z) :=
  match cs with
  | [] => Ld
  | x :: r => ldnext_seq8 d (ldnext8 d Ld x) r
  end.
Lemma ldnext8_composite d Ld ty cs : ldnext8 d Ld (CComposite ty cs) = ldnext_seq8 d Ld cs.
Proof. revert Ld. induction cs as [|x r IH]; intros Ld; [reflexivity|]. cbn [ldnext_seq8]. rewrite <- IH. reflexivity. Qed.

Lemma ldnext8_fst d c : forall Ld, map fst (ldnext8 d Ld c) = names8 (map fst Ld) c.
Proof.
  induction c using card_ind'; intros Ld; try reflexivity.
  - cbn [ldnext8 names8]. destruct (lmem n (map fst Ld)); reflexivity.
  - rewrite ldnext8_composite, names8_composite. revert Ld.
    match goal with HF : Forall _ _ |- _ => induction HF as [|x r Hx _ IH] end; intros Ld; [reflexivity|].
    cbn [ldnext_seq8 names_seq8]. rewrite IH, Hx. reflexivity.
Qed.
Lemma ldnext_seq8_fst d cs Ld : map fst (ldnext_seq8 d Ld cs) = names_seq8 (map fst Ld) cs.
Proof. rewrite <- (ldnext8_composite d Ld [] cs), <- (names8_composite (map fst Ld) [] cs). apply ldnext8_fst. Qed.

Lemma ldnext8_ext d c : forall Ld, exists news, ldnext8 d Ld c = news ++ Ld /\ Forall (fun nd : str * Z => snd nd = d) news.
Proof.
  induction c using card_ind'; intros Ld; try (exists []; split; [reflexivity | constructor]).
  - cbn [ldnext8]. destruct (lmem n (map fst Ld)); [exists [] | exists [(n, d)]]; split; try reflexivity; repeat constructor.
  - rewrite ldnext8_composite. revert Ld.
    match goal with HF : Forall _ _ |- _ => induction HF as [|x r Hx _ IH] end; intros Ld.
    + exists []. split; [reflexivity | constructor].
    + cbn [ldnext_seq8]. destruct (Hx Ld) as (n1 & E1 & F1). destruct (IH (ldnext8 d Ld x)) as (n2 & E2 & F2).
      exists (n2 ++ n1). rewrite E2, E1, app_assoc. split; [reflexivity|]. apply Forall_app. split; assumption.
Qed.
Lemma ldnext_seq8_ext d cs Ld : exists news, ldnext_seq8 d Ld cs = news ++ Ld /\ Forall (fun nd : str * Z => snd nd = d) news.
Proof. rewrite <- (ldnext8_composite d Ld [] cs). apply ldnext8_ext. Qed.

Lemma ldnext8_wfd d c Ld : wfd Ld d -> wfd (ldnext8 d Ld c) d.
Proof.
  intros H. destruct (ldnext8_ext d c Ld) as (news & -> & F). unfold wfd. apply Forall_app. split; [|exact H].
  eapply Forall_impl; [|exact F]. cbn. intros a Ha. lia.
Qed.

Lemma ldnext8_false d c Ld : ok8 false (map fst Ld) c = true -> ldnext8 d Ld c = Ld.
Proof.
  intros H. pose proof (ok8_false_names c _ H) as Hn. rewrite <- ldnext8_fst with (d := d) in Hn.
  destruct (ldnext8_ext d c Ld) as (news & E & _). rewrite E in *.
  apply (f_equal (@length str)) in Hn. rewrite !map_length, app_length in Hn.
  destruct news; [reflexivity | cbn [length] in Hn; lia].
Qed.

(* ------------------------------------------------------------------ combinators for a changing context *)
Lemma emits6_ext_gen L d L' d' m n n' c c' :
  emits6 L d L' d' m n c -> (forall x, In x n' -> In x n) -> (forall T b, c' T b = c T b) -> emits6 L d L' d' m n' c'.
Proof.
  intros H Hn Hcc s s' Hc E. destruct (H _ _ Hc E) as (A & B & C & D).
  split; [exact A|]. split; [exact B|]. split; [intros x Hx; apply C, Hn, Hx|].
  intros T HT. rewrite Hcc. apply D, HT.
Qed.

Lemma emits6_with_sub_gen L d L' d' i m n c : emits6 L d L' d' m n c -> emits6 L d L' d' (with_sub i m) n c.
Proof.
  intros H. unfold with_sub. eapply emits6_ext_gen.
  - apply emits6_seq_gen with (L1 := L) (d1 := d); [apply emits6_nop, keepL_push_sub|].
    apply emits6_seq_gen with (L1 := L') (d1 := d'); [exact H | apply emits6_nop, keepL_pop_sub].
  - intros x Hx. cbn [app]. rewrite app_nil_r. exact Hx.
  - intros T b. cbn [app bytes]. rewrite N.add_0_r, app_nil_r. reflexivity.
Qed.

(* ------------------------------------------------------------------ Repeat whose body is a scope *)
Definition lvd (i : option str) (d : Z) : list (str * Z) := match i with Some x => [(x, d)] | None => [] end.
Lemma lvd_fst i d : map fst (lvd i d) = lvn i.
Proof. destruct i; reflexivity. Qed.
Lemma lvd_length i d : length (lvd i d) = length (lvn i).
Proof. destruct i; reflexivity. Qed.

Definition bind_code8 (i : option str) (k : N) : list instr :=
  match i with Some _ => [IReadLocalVar (k + 1); ISetLocalVar (k + 2)] | None => [] end.

Definition repeat_code8 (cn : list instr) (cbf : N -> list instr) (k : N) (bind unbind : list instr) (base : N) : list instr :=
  let b0 := base + bytes cn + 19 in
  let cbb := cbf (b0 + 16 + bytes bind) in
  cn ++ [ISetLocalVar k; IScalarInt 0; ISetLocalVar (k + 1)] ++
  [IReadLocalVar (k + 1); IReadLocalVar k; ILess; IGotoIfFalse (u32_to_i32 (b0 + 16 + bytes bind + bytes cbb + bytes unbind + 25))] ++
  bind ++ cbb ++ unbind ++
  [IScalarInt 1; IReadLocalVar (k + 1); IAdd; ISetLocalVar (k + 1); IGoto (u32_to_i32 b0)] ++ [IPop; IPop].

Lemma emits8_bind_loop L d i k :
  lv_ok i = true -> N.of_nat (length L) = k + 2 ->
  emits6 L d (lvd i d ++ L) d (bind_loop_var i (k + 1)) [] (fun _ _ => bind_code8 i k).
Proof.
  intros Hi Hk. destruct i as [x|]; cbn [bind_loop_var lvd app bind_code8].
  - cbn [lv_ok] in Hi. unfold var_ok in Hi. apply andb_true_iff in Hi. destruct Hi as [Hx _]. apply negb_true_iff in Hx.
    assert (Hx' : is_empty x = false) by (destruct x; [discriminate Hx | reflexivity]).
    apply emits6_bind_add_local; [exact Hx'|]. rewrite Hk.
    eapply emits6_ext_gen.
    + apply emits6_seq_gen with (L1 := ((x, d) :: L)) (d1 := d); apply emits6_push.
    + intros y [].
    + reflexivity.
  - apply emits6_nop. intros s0 s0' E0. injection E0 as <-. repeat split.
Qed.

Lemma emits8_repeat Ld d i n b news nb cb :
  (1 <= d)%Z -> wfd Ld d -> expr_f1 n = true -> lv_ok i = true ->
  Forall (fun nd : str * Z => snd nd = (d + 2)%Z) news ->
  emits6 (lvd i (d + 2) ++ ([], d + 1) :: ([], d + 1) :: Ld)%Z (d + 2)
         (news ++ lvd i (d + 2) ++ ([], d + 1) :: ([], d + 1) :: Ld)%Z (d + 2) (process_card b) nb cb ->
  emits6 Ld d Ld d (process_card (CRepeat i n b)) (expr_gnames (map fst Ld) n ++ nb)
         (fun T base => repeat_code8 (code_expr5 T (map fst Ld) n) (cb T) (N.of_nat (length Ld))
                          (bind_code8 i (N.of_nat (length Ld))) (repeat IPop (length news + length (lvn i))) base).
Proof.
  intros Hd1 Hwf Hn Hi Hnews Hb.
  set (Ld2 := (([], d + 1) :: ([], d + 1) :: Ld)%Z) in *.
  set (Ld3 := (lvd i (d + 2) ++ Ld2)%Z) in *.
  set (k := N.of_nat (length Ld)).
  assert (Hd2 : (1 <= d + 1)%Z) by lia. assert (Hd3 : (1 <= d + 2)%Z) by lia.
  assert (HLd2 : N.of_nat (length Ld2) = k + 2).
  { unfold Ld2, k. cbn [length]. rewrite !Nat2N.inj_succ, <- !N.add_1_r, <- N.add_assoc. reflexivity. }
  (* the inner scope_end pops the locals the body declared and the loop variable *)
  assert (Hend_in : emits6 (news ++ Ld3) (d + 2) Ld2 (d + 1) scope_end [] (fun _ _ => repeat IPop (length news + length (lvn i)))).
  { pose proof (emits6_scope_end (news ++ lvd i (d + 2)) Ld2 (d + 2) Hd3) as H.
    rewrite app_length, lvd_length, <- app_assoc in H. fold Ld3 in H.
    replace (d + 2 - 1)%Z with (d + 1)%Z in H by lia. apply H.
    - apply Forall_app. split.
      + eapply Forall_impl; [|exact Hnews]. cbn. intros a Ha. lia.
      + destruct i; repeat constructor; cbn; lia.
    - cbn; lia. }
  assert (Hend_out : emits6 Ld2 (d + 1) Ld d scope_end [] (fun _ _ => [IPop; IPop])).
  { pose proof (emits6_scope_end [([], d + 1); ([], d + 1)]%Z Ld (d + 1) Hd2) as H. cbn [app length repeat] in H.
    replace (d + 1 - 1)%Z with d in H by lia. apply H.
    - repeat constructor; cbn; lia.
    - destruct Ld as [|nd r]; [exact I|]. inversion Hwf; assumption. }
  cbn [process_card]. eapply emits6_ext.
  - apply emits6_seq_gen with (L1 := Ld) (d1 := d); [apply emits6_nop, keepL_card_label|].
    apply emits6_seq_gen with (L1 := Ld) (d1 := d); [apply emits6_with_sub, emits6_expr, Hn|].
    apply emits6_seq_gen with (L1 := Ld) (d1 := (d + 1)%Z); [apply emits6_scope_begin, Hd1|].
    apply emits6_bind_alu. apply emits6_bind_alu. fold Ld2. cbn [length]. fold k.
    replace (N.of_nat (S (length Ld))) with (k + 1) by (unfold k; lia).
    apply emits6_seq_gen with (L1 := Ld2) (d1 := (d + 1)%Z); [apply emits6_push|].
    apply emits6_seq_gen with (L1 := Ld2) (d1 := (d + 1)%Z).
    { apply emits6_seq; [apply emits6_nop, keepL_card_label | apply emits6_push]. }
    apply emits6_seq_gen with (L1 := Ld2) (d1 := (d + 1)%Z); [apply emits6_push|].
    apply emits6_bind_pc. intros z.
    apply emits6_seq_gen with (L1 := Ld2) (d1 := (d + 1)%Z); [apply emits6_push|].
    apply emits6_seq_gen with (L1 := Ld2) (d1 := (d + 1)%Z); [apply emits6_push|].
    apply emits6_seq_gen with (L1 := Ld2) (d1 := (d + 1)%Z); [apply emits6_push|].
    apply emits6_seq_gen with (L1 := Ld2) (d1 := (d + 1)%Z); [|exact Hend_out].
    apply (emits6_if_then Ld2 (d + 1) IGotoIfFalse); [left; reflexivity|].
    apply emits6_seq_gen with (L1 := Ld2) (d1 := (d + 1 + 1)%Z); [apply emits6_scope_begin, Hd2|].
    replace (d + 1 + 1)%Z with (d + 2)%Z by lia.
    apply emits6_seq_gen with (L1 := Ld3) (d1 := (d + 2)%Z); [apply (emits8_bind_loop Ld2 (d + 2) i k Hi HLd2)|].
    apply emits6_seq_gen with (L1 := (news ++ Ld3)) (d1 := (d + 2)%Z); [apply emits6_with_sub_gen, Hb|].
    apply emits6_seq_gen with (L1 := Ld2) (d1 := (d + 1)%Z); [exact Hend_in|].
    apply emits6_seq_gen with (L1 := Ld2) (d1 := (d + 1)%Z).
    { apply emits6_seq; [apply emits6_nop, keepL_card_label | apply emits6_push]. }
    apply emits6_seq_gen with (L1 := Ld2) (d1 := (d + 1)%Z); [apply emits6_push|].
    apply emits6_seq_gen with (L1 := Ld2) (d1 := (d + 1)%Z); [apply emits6_push|].
    apply emits6_seq_gen with (L1 := Ld2) (d1 := (d + 1)%Z); [apply emits6_push|].
    apply emits6_push.
  - intros y Hy. cbn [app] in *. rewrite ?app_nil_r. exact Hy.
  - intros T base. unfold repeat_code8. cbv zeta.
    set (bc := bind_code8 i k). set (ub := repeat IPop (length news + length (lvn i))).
    set (cn := code_expr5 T (map fst Ld) n). set (bn := bytes cn).
    cbn [app bytes]. rewrite ?N.add_0_r, ?app_nil_r.
    change (spanN (ISetLocalVar k)) with 5. change (spanN (ISetLocalVar (k + 1))) with 5.
    change (spanN (IReadLocalVar k)) with 5. change (spanN (IReadLocalVar (k + 1))) with 5.
    change (spanN (IScalarInt 0)) with 9. change (spanN ILess) with 1.
    replace (base + bn + 5 + 9 + 5 + 5 + 5 + 1 + 5 + bytes bc) with (base + bn + 19 + 16 + bytes bc) by lia.
    replace (base + bn + 5 + 9 + 5 + 5 + 5 + 1 + 5) with (base + bn + 19 + 16) by lia.
    replace (base + bn + 5 + 9 + 5) with (base + bn + 19) by lia.
    set (cbb := cb T (base + bn + 19 + 16 + bytes bc)).
    rewrite !bytes_app. cbn [bytes].
    change (spanN (IScalarInt 1)) with 9. change (spanN (IReadLocalVar (k + 1))) with 5. change (spanN IAdd) with 1.
    change (spanN (ISetLocalVar (k + 1))) with 5. change (spanN (IGoto _)) with 5.
    replace (base + bn + 19 + 16 + (bytes bc + (bytes cbb + (bytes ub + (9 + (5 + (1 + (5 + (5 + 0))))))))) with (base + bn + 19 + 16 + bytes bc + bytes cbb + bytes ub + 25) by lia.
    rewrite <- ?app_assoc. cbn [app]. reflexivity.
Qed.

(* ------------------------------------------------------------------ statements *)
Definition stmt_ok8 (c : card) : Prop :=
  forall decl Ld d, (1 <= d)%Z -> wfd Ld d -> ok8 decl (map fst Ld) c = true ->
    emits6 Ld d (ldnext8 d Ld c) d (process_card c) (gnames8 (map fst Ld) c) (fun T b => code8 T (map fst Ld) b c).

Lemma emits8_subexpr decl d l :
  (1 <= d)%Z -> Forall stmt_ok8 l -> forall Ld i, wfd Ld d ->
  oks8 decl (map fst Ld) l = true ->
  emits6 Ld d (ldnext_seq8 d Ld l) d ((fix subexpr (l : list card) (i : N) {struct l} : M unit :=
             match l with
             | [] => ret tt
             | x :: r => with_sub i (process_card x) ;; subexpr r (i + 1)
             end) l i) (gnames_seq8 (map fst Ld) l) (fun T b => code_seq8 T (map fst Ld) b l).
Proof.
  intros Hd1. induction 1 as [|x r Hx _ IH]; intros Ld i Hwf Hc.
  - apply emits6_nop. intros s s' E. injection E as <-. repeat split.
  - cbn [oks8] in Hc. apply andb_true_iff in Hc. destruct Hc as [H1 H2].
    cbn [ldnext_seq8 gnames_seq8 code_seq8].
    rewrite <- (ldnext8_fst d x Ld) in H2.
    pose proof (IH (ldnext8 d Ld x) (i + 1) (ldnext8_wfd d x Ld Hwf) H2) as Hr.
    rewrite (ldnext8_fst d x Ld) in Hr.
    eapply emits6_ext_gen.
    + apply emits6_seq_gen with (L1 := ldnext8 d Ld x) (d1 := d);
        [apply emits6_with_sub_gen, (Hx decl Ld d Hd1 Hwf H1) | exact Hr].
    + intros y Hy. exact Hy.
    + intros T b. reflexivity.
Qed.

Lemma emits8_stmt8 c : stmt_ok8 c.
Proof.
  induction c using card_ind'; intros decl Ld d Hd1 Hwf Hc; pose proof Hc as Hc0; cbn [ok8] in Hc; try discriminate Hc.
  - (* IfTrue / IfFalse / While *)
    destruct op; try discriminate Hc; apply andb_true_iff in Hc; destruct Hc as [He Hb];
      cbn [ldnext8]; pose proof (IHc2 false Ld d Hd1 Hwf Hb) as IHb; rewrite (ldnext8_false d c2 Ld Hb) in IHb.
    + cbn [process_card]. eapply emits6_ext.
      * apply emits6_seq; [apply emits6_nop, keepL_card_label|].
        apply emits6_seq; [apply emits6_with_sub, emits6_expr, He|].
        apply emits6_seq; [apply emits6_nop, keepL_push_sub|].
        apply emits6_seq; [apply (emits6_if_then Ld d IGotoIfFalse); [left; reflexivity | apply IHb]|].
        apply emits6_nop, keepL_pop_sub.
      * intros x Hx. cbn [gnames8 app] in *. rewrite app_nil_r. exact Hx.
      * intros T b. cbn [code8 app bytes]. rewrite ?N.add_0_r, ?app_nil_r. reflexivity.
    + cbn [process_card]. eapply emits6_ext.
      * apply emits6_seq; [apply emits6_nop, keepL_card_label|].
        apply emits6_seq; [apply emits6_with_sub, emits6_expr, He|].
        apply emits6_seq; [apply emits6_nop, keepL_push_sub|].
        apply emits6_seq; [apply (emits6_if_then Ld d IGotoIfTrue); [right; reflexivity | apply IHb]|].
        apply emits6_nop, keepL_pop_sub.
      * intros x Hx. cbn [gnames8 app] in *. rewrite app_nil_r. exact Hx.
      * intros T b. cbn [code8 app bytes]. rewrite ?N.add_0_r, ?app_nil_r. reflexivity.
    + (* While *)
      intros s s' Hcx E. cbn [process_card] in E.
      apply bind_ok in E. destruct E as ([] & s0 & E0 & E).
      apply bind_ok in E. destruct E as (z & s0' & Ez & E). injection Ez as <- <-.
      destruct (keepL_card_label _ _ E0) as ((k1 & k2 & k3 & k4 & k5 & k6) & k7).
      assert (Hcx0 : ctx6 Ld d s0).
      { eapply ctx6_keep; [|exact Hcx]. repeat split; auto. }
      destruct (emits6_while_gen Ld d c1 _ _ _ (u32_to_i32 (cs_pc s0)) He IHb _ _ Hcx0 E) as (A & B & C & D).
      split; [exact A|]. split; [destruct B as [B1 B2]; split; [rewrite <- k2; exact B1 | rewrite <- k6; exact B2]|].
      split; [exact C|].
      intros T HT. rewrite (D T HT), k1, k5. reflexivity.
  - (* IfElse *)
    destruct op; try discriminate Hc. apply andb_true_iff in Hc. destruct Hc as [Hc Hb].
    apply andb_true_iff in Hc. destruct Hc as [He Ha]. cbn [process_card ldnext8].
    pose proof (IHc2 false Ld d Hd1 Hwf Ha) as IHa; rewrite (ldnext8_false d c2 Ld Ha) in IHa.
    pose proof (IHc3 false Ld d Hd1 Hwf Hb) as IHb; rewrite (ldnext8_false d c3 Ld Hb) in IHb.
    change (with_sub 0 (process_card c1) ;; push_sub 1 ;; _)
      with (with_sub 0 (process_card c1) ;; push_sub 1 ;; if_else_tail (process_card c2) (process_card c3)).
    eapply emits6_ext.
    + apply emits6_seq; [apply emits6_nop, keepL_card_label|].
      apply emits6_seq; [apply emits6_with_sub, emits6_expr, He|].
      apply emits6_seq; [apply emits6_nop, keepL_push_sub|].
      apply emits6_if_else; [apply IHa | apply IHb].
    + intros x Hx. cbn [gnames8 app] in *. exact Hx.
    + intros T b. cbn [code8 app bytes]. unfold code_if_else. rewrite ?N.add_0_r. reflexivity.
  - (* Comment *)
    cbn [process_card ldnext8]. eapply emits6_ext.
    + apply emits6_seq; [apply emits6_nop, keepL_card_label|]. apply emits6_nop.
      intros s0 s0' E. injection E as <-. repeat split.
    + intros x [].
    + reflexivity.
  - (* SetGlobalVar *)
    apply andb_true_iff in Hc. destruct Hc as [Hne He]. apply negb_true_iff in Hne.
    cbn [process_card ldnext8]. rewrite Hne. eapply emits6_ext.
    + apply emits6_seq; [apply emits6_nop, keepL_card_label|].
      apply emits6_seq; [apply emits6_with_sub, emits6_expr, He | apply (emits6_global Ld d n ISetGlobalVar)].
    + intros x Hx. exact Hx.
    + reflexivity.
  - (* SetVar: an existing local, or a declaration *)
    apply andb_true_iff in Hc. destruct Hc as [Hc He]. apply andb_true_iff in Hc. destruct Hc as [Hx Hm].
    cbn [ldnext8 gnames8 code8]. unfold set_slot, slot. unfold lmem in *.
    destruct (find_first n (map fst Ld)) as [p|] eqn:Ef.
    + eapply emits6_ext.
      * apply (emits6_set_local Ld d n c (length (map fst Ld) - 1 - p) Hx He). unfold slot. rewrite Ef. reflexivity.
      * intros x Hx'. exact Hx'.
      * intros T b. reflexivity.
    + pose proof (emits6_declare Ld d n c Hx He) as H. rewrite map_length.
      apply H. unfold lmem. rewrite Ef. reflexivity.
  - (* Repeat *)
    apply andb_true_iff in Hc. destruct Hc as [Hc Hb]. apply andb_true_iff in Hc. destruct Hc as [Hn Hi].
    assert (Hd2 : (1 <= d + 2)%Z) by lia.
    set (Lb := (lvd i (d + 2) ++ ([], d + 1) :: ([], d + 1) :: Ld)%Z).
    assert (HLb : map fst Lb = lvn i ++ [] :: [] :: map fst Ld).
    { unfold Lb. rewrite map_app, lvd_fst. reflexivity. }
    assert (Hwfb : wfd Lb (d + 2)).
    { unfold Lb, wfd. apply Forall_app. split; [destruct i; repeat constructor; cbn; lia|].
      repeat constructor; cbn [snd]; try lia. eapply Forall_impl; [|exact Hwf]. cbn. intros; lia. }
    rewrite <- HLb in Hb.
    pose proof (IHc2 true Lb (d + 2)%Z Hd2 Hwfb Hb) as IHb.
    destruct (ldnext8_ext (d + 2) c2 Lb) as (news & Enews & Fnews).
    rewrite Enews in IHb.
    cbn [ldnext8]. eapply emits6_ext.
    + apply (emits8_repeat Ld d i c1 c2 news _ _ Hd1 Hwf Hn Hi Fnews IHb).
    + intros y Hy. cbn [gnames8] in Hy. rewrite <- HLb in Hy. exact Hy.
    + intros T base. cbn [code8]. unfold repeat_code8. cbv zeta. rewrite <- HLb.
      rewrite <- (ldnext8_fst (d + 2) c2 Lb), Enews.
      assert (Hlen : (length (map fst (news ++ Lb)) - S (S (length (map fst Ld))) = length news + length (lvn i))%nat).
      { rewrite !map_length, app_length. unfold Lb. rewrite app_length, lvd_length. cbn [length]. lia. }
      rewrite Hlen, !map_length. unfold bind_code8. reflexivity.
  - (* Composite *)
    rewrite ok8_composite in Hc0. rewrite ldnext8_composite, gnames8_composite.
    cbn [process_card]. eapply emits6_ext_gen.
    + apply emits6_seq_gen with (L1 := Ld) (d1 := d); [apply emits6_nop, keepL_card_label|].
      apply (emits8_subexpr decl d _ Hd1); [eassumption | exact Hwf | exact Hc0].
    + intros x Hx. exact Hx.
    + intros T b. rewrite code8_composite. cbn [app bytes]. rewrite N.add_0_r. reflexivity.
Qed.


(* ------------------------------------------------------------------ the cards of main: a declaring sequence *)
Lemma emits8_cards cards : forall Ld ic, wfd Ld 1 -> oks8 true (map fst Ld) cards = true ->
  emits6 Ld 1 (ldnext_seq8 1 Ld cards) 1 (process_cards cards ic) (gnames_seq8 (map fst Ld) cards)
         (fun T b => code_seq8 T (map fst Ld) b cards).
Proof.
  induction cards as [|c r IH]; intros Ld ic Hwf Hc; cbn [process_cards ldnext_seq8 gnames_seq8].
  - apply emits6_nop. intros s s' E. injection E as <-. repeat split.
  - cbn [oks8] in Hc. apply andb_true_iff in Hc. destruct Hc as [Hc Hr].
    rewrite <- (ldnext8_fst 1 c Ld) in Hr.
    pose proof (IH (ldnext8 1 Ld c) (ic + 1) (ldnext8_wfd 1 c Ld Hwf) Hr) as Hrest.
    rewrite (ldnext8_fst 1 c Ld) in Hrest.
    intros s s' Hcx E.
    pose proof (emits6_seq_gen _ _ _ _ _ _ _ _ _ _ _ _ (emits6_nop Ld 1 _ keepL_pop_sub)
                 (emits6_seq_gen _ _ _ _ _ _ _ _ _ _ _ _ (emits6_nop Ld 1 _ (keepL_push_sub ic))
                    (emits6_seq_gen _ _ _ _ _ _ _ _ _ _ _ _ (emits8_stmt8 c true Ld 1%Z ltac:(lia) Hwf Hc) Hrest))) as H.
    destruct (H s s' Hcx E) as (A & B & C & D). split; [exact A|]. split; [exact B|]. split.
    + intros n Hn. apply C. exact Hn.
    + intros T HT. rewrite (D T HT). cbn [code_seq8 app bytes]. rewrite ?N.add_0_r. reflexivity.
Qed.

Lemma main8_shape name f s s' :
  f_args f = [] -> oks8 true [] (f_cards f) = true ->
  ctx s -> cs_depth s = [0%Z] -> cs_pc s = 0 ->
  compile_main (main_ir name f) s = ROk tt s' ->
  sub2 s s' /\
  (forall n, In n (gnames_seq8 [] (f_cards f)) -> named s' n) /\
  (forall T, sub (cs_ids s') T -> cs_code s' = rev (code_all8 T (f_cards f)) ++ cs_code s) /\
  cs_pc s' = bytes (cs_code s').
Proof.
  intros Ha Hcards (Hl & Hu & Hp) Hd Hpc0 E.
  unfold compile_main, process_function, process_leaf in E.
  cbn [main_ir fi_index fi_handle fi_args fi_cards fi_ns fi_imports] in E. rewrite Ha in E. cbn [rev add_locals] in E.
  apply bind_ok in E. destruct E as ([] & sa & Ea & E). injection Ea as <-.
  apply bind_ok in E. destruct E as ([] & sb & Eb & E). injection Eb as <-.
  apply bind_ok in E. destruct E as ([] & sc & Ec & E). injection Ec as <-.
  apply bind_ok in E. destruct E as ([] & sd & Ed & E).
  apply bind_ok in Ed. destruct Ed as ([] & sd0 & Ed0 & Ed). injection Ed0 as <-.
  apply bind_ok in Ed. destruct Ed as ([] & sd1 & Ed1 & Ed). injection Ed1 as <-.
  match type of Ed with process_cards _ _ ?st = _ => set (s0 := st) in * end.
  assert (Hc0 : ctx6 [] 1 s0).
  { subst s0. split; [split|split]; cbn; [rewrite Hl; reflexivity | rewrite Hd; reflexivity | exact Hu | exact Hp]. }
  destruct (emits8_cards (f_cards f) [] 0 (Forall_nil _) Hcards s0 sd Hc0 Ed) as (Hcd & Bd & Cd & Dd).
  set (Lf := ldnext_seq8 1 [] (f_cards f)) in *.
  assert (HLf : length Lf = length (names_seq8 [] (f_cards f))).
  { rewrite <- (map_length fst Lf). unfold Lf. rewrite ldnext_seq8_fst. reflexivity. }
  apply bind_ok in E. destruct E as ([] & se & Ee & E). injection Ee as <-.
  apply bind_ok in E. destruct E as ([] & sf & Ef & E).
  (* scope_end *)
  match type of Ef with scope_end ?st = _ => set (se := st) in * end.
  assert (Hce : ctx6 (Lf ++ []) 1 se).
  { rewrite app_nil_r. destruct Hcd as ((A1 & A2) & A3 & A4). subst se. split; [split|split]; cbn; auto. }
  assert (Hpop : Forall (fun nd : str * Z => (1 - 1 < snd nd)%Z) Lf).
  { destruct (ldnext_seq8_ext 1 (f_cards f) []) as (news & En & Fn). fold Lf in En. rewrite En, app_nil_r.
    eapply Forall_impl; [|exact Fn]. cbn. intros a Ha'. lia. }
  destruct (emits6_scope_end Lf [] 1 ltac:(lia) Hpop I se sf Hce Ef) as ((_ & _ & Hpf) & Ssf & _ & Fc).
  rewrite HLf in Fc.
  (* Exit *)
  apply bind_ok in E. destruct E as ([] & sg & Eg & E).
  destruct (keep4_card_label _ _ Eg) as (g1 & g2 & g3 & g4 & g5 & g6).
  rewrite push_instr_eq in E. injection E as <-.
  assert (Hpc0' : cs_pc s0 = 0) by exact Hpc0.
  assert (Hcode0 : cs_code s0 = cs_code s) by reflexivity.
  assert (Hcodee : cs_code se = cs_code sd) by reflexivity.
  assert (S0 : sub2 s s0) by (split; intros ? ? H; exact H).
  assert (Sde : sub2 sd se) by (split; intros ? ? H; exact H).
  assert (Sfg : sub2 sf (pushed sg IExit)).
  { split; cbn [pushed cs_ids cs_names set_code set_trace]; [rewrite g2 | rewrite g6]; intros ? ? H; exact H. }
  assert (Sdg : sub2 sd (pushed sg IExit)) by (eapply sub2_trans; [exact Sde|]; eapply sub2_trans; [exact Ssf | exact Sfg]).
  split; [eapply sub2_trans; [exact S0|]; eapply sub2_trans; [exact Bd | exact Sdg]|]. split.
  { intros n Hn. eapply named_sub2; [apply (Cd n Hn) | exact Sdg]. }
  split.
  { intros T HT.
    assert (HTf : sub (cs_ids sf) T) by (eapply sub_trans; [apply Sfg | exact HT]).
    assert (HTd : sub (cs_ids sd) T).
    { eapply sub_trans; [apply Sde|]. eapply sub_trans; [apply Ssf | exact HTf]. }
    cbn [pushed cs_code set_code set_trace]. rewrite g1, (Fc T HTf), Hcodee, (Dd T HTd), Hpc0', Hcode0.
    unfold code_all8. cbn [map].
    rewrite !rev_app_distr. cbn [rev app]. rewrite rev_repeat. rewrite <- !app_assoc. cbn [app]. reflexivity. }
  cbn [pushed cs_pc cs_code set_code set_trace bytes]. rewrite g5, g1, Hpf. unfold spanN. lia.
Qed.

Lemma in_f8_cards M : in_f8 M = true -> oks8 true [] (main_cards M) = true.
Proof.
  destruct M as [subs funs imps]. cbn [in_f8].
  destruct subs; [|discriminate]. destruct funs as [|[name f] [|]]; try discriminate.
  destruct imps; [|discriminate]. intros H. apply andb_true_iff in H. apply H.
Qed.

Theorem compile_f8_shape M B :
  in_f8 M = true -> compile M default_options = COk B ->
  N.of_nat (length (p_ids B)) < two32 ->
  exists rest,
    p_bytecode B = encode (code_all8 (p_ids B) (main_cards M) ++ rest) /\
    (forall n, In n (gnames_seq8 [] (main_cards M)) -> nm_find (handle_of_bytes n) (p_ids B) <> None) /\
    (forall h1 h2 id, nm_find h1 (p_ids B) = Some id -> nm_find h2 (p_ids B) = Some id -> h1 = h2) /\
    (forall h id, nm_find h (p_ids B) = Some id -> id < two32) /\
    handles_inj (gnames_seq8 [] (main_cards M)) = true.
Proof.
  intros HM HB Hlen. destruct M as [subs funs imps]. cbn [in_f8] in HM.
  destruct subs; [|discriminate]. destruct funs as [|[name f] [|]]; try discriminate.
  destruct imps; [|discriminate].
  apply andb_true_iff in HM. destruct HM as [HM Hcards]. apply andb_true_iff in HM. destruct HM as [Hname Hargs].
  apply str_eqb_main in Hname. subst name.
  assert (Ha : f_args f = []) by (destruct (f_args f); [reflexivity | discriminate]).
  cbn [main_cards].
  destruct (compile_ok_inv _ _ _ HB) as (fs & s & Hfs & E & ->).
  change (o_recursion_limit default_options) with 64 in Hfs. rewrite ir_stream_f1 in Hfs. injection Hfs as <-.
  set (fm := main_ir s_main f) in *. revert E. generalize std_firs as std. intros std E.
  cbn [finish p_ids p_bytecode] in *.
  set (s0 := init_state (o_debug default_options)) in *.
  unfold compile_ir in E.
  apply bind_ok in E. destruct E as ([] & s1 & E1 & E).
  apply bind_ok in E. destruct E as ([] & s3 & E23 & E4).
  cbn [stage_2] in E23. apply bind_ok in E23. destruct E23 as ([] & s2 & E2 & E3).
  assert (Eafter : after_main std s2 = ROk tt s).
  { unfold after_main, bind. rewrite E3. exact E4. }
  pose proof (frame3_stage_1 (fm :: std) s0) as F1. rewrite E1 in F1.
  destruct F1 as (c1 & p1 & i1 & n1).
  assert (Hctx1 : ctx s1).
  { destruct (stage_1_ctx _ _ _ E1) as [A B]. split; [rewrite A; reflexivity|]. split; [rewrite B; reflexivity|].
    rewrite p1, c1. reflexivity. }
  assert (Hd1 : cs_depth s1 = [0%Z]).
  { clear - E1. assert (Hg : forall fs sa sb, stage_1 fs sa = ROk tt sb -> cs_depth sb = cs_depth sa).
    { induction fs as [|x r IH]; intros sa sb H; cbn [stage_1] in H; [injection H as <-; reflexivity|].
      apply bind_ok in H. destruct H as ([] & sx & Hx & Hr). rewrite (IH _ _ Hr).
      unfold add_function, bind, get in Hx. destruct (sm_find _ _); [discriminate|]. injection Hx as <-. reflexivity. }
    rewrite (Hg _ _ _ E1). reflexivity. }
  destruct (main8_shape s_main f s1 s2 Ha Hcards Hctx1 Hd1 ltac:(rewrite p1; reflexivity) E2) as (Hsub12 & Hnames2 & Hcode2 & Hpc2).
  assert (G2 : G [] [] s2).
  { assert (S : sp3 [] [] (stage_1 (fm :: std) ;; compile_main fm) (fun _ => True)).
    { eapply sp3_bind; [apply sp3_frame, frame3_stage_1 | intros _ _; apply sp3_compile_main]. }
    specialize (S s0 (G_init _)). unfold bind in S. rewrite E1, E2 in S. apply S. }
  assert (Gs : G (cs_code s2) (cs_ids s2) s).
  { assert (G2' : G (cs_code s2) (cs_ids s2) s2).
    { apply G_here; [apply (g_pc _ _ _ G2)|]. intros Hl. destruct (g_ids _ _ _ G2 Hl) as [I1 I2 I3 _]. auto. }
    pose proof (sp3_after_main (cs_code s2) (cs_ids s2) std s2 G2') as S. rewrite Eafter in S. apply S. }
  destruct (g_ids _ _ _ Gs Hlen) as [Inv Ilt Iinj Iext].
  destruct (g_code _ _ _ Gs) as [l El].
  assert (Hsub : sub (cs_ids s2) (cs_ids s)) by exact Iext.
  exists (rev l). split; [|split; [|split; [|split]]].
  - f_equal. rewrite El, (Hcode2 _ Hsub), c1. cbn [s0 init_state cs_code]. rewrite app_nil_r, rev_app_distr, rev_involutive.
    reflexivity.
  - intros n Hin. pose proof (named_found _ _ (Hnames2 n Hin)) as Hnf.
    destruct (nm_find (handle_of_bytes n) (cs_ids s2)) as [id|] eqn:En; [|congruence].
    rewrite (Hsub _ _ En). discriminate.
  - exact Iinj.
  - intros h id Hf. specialize (Ilt _ _ Hf). rewrite Inv in Ilt. lia.
  - apply (named_inj s2 _ eq_refl Hnames2).
Qed.
