(* Model of RuntimeData::gc (vm/runtime.rs), as repaired: mark from the roots (value stack,
   globals, closures of active call frames, open upvalues) and from every guarded (Protected)
   object, sweep the White objects, un-mark the rest.  std++ gmap; executable. *)
From stdpp Require Import gmap list.

Inductive color := White | Gray | Protected.
#[global] Instance color_eq_dec : EqDecision color.
Proof. solve_decision. Defined.

(* an object: its marker and the objects it refers to (table keys/values, closure upvalues,
   upvalue cell) *)
Record obj := Obj { col : color; kids : list N }.
Notation heap := (gmap N obj).

Definition is_white (o : obj) : bool := match col o with White => true | _ => false end.
Definition paint (o : obj) : obj := Obj Gray (kids o).

(* checked_enqueue_value!: a White child becomes Gray and is queued *)
Fixpoint scan (h : heap) (cs : list N) (acc : list N) : heap * list N :=
  match cs with
  | [] => (h, acc)
  | c :: cs' =>
    match h !! c with
    | Some oc => if is_white oc then scan (<[c := paint oc]> h) cs' (c :: acc) else scan h cs' acc
    | None => scan h cs' acc
    end
  end.

(* the `while let Some(obj) = progress_tracker.pop()` loop *)
Fixpoint mark (fuel : nat) (h : heap) (wl : list N) : option heap :=
  match fuel with
  | 0 => None
  | S f =>
    match wl with
    | [] => Some h
    | a :: wl' =>
      match h !! a with
      | None => mark f h wl'
      | Some o => let '(h', new) := scan h (kids o) [] in mark f h' (new ++ wl')
      end
    end
  end.

Definition is_protected (o : obj) : bool := match col o with Protected => true | _ => false end.
Definition protected_of (h : heap) : list N :=
  omap (fun p : N * obj => if is_protected p.2 then Some p.1 else None) (map_to_list h).

(* sweep White objects, then reset Gray to White (Protected stays) *)
Definition unmark (o : obj) : obj := match col o with Gray => Obj White (kids o) | _ => o end.
Definition sweep (h : heap) : heap := unmark <$> filter (fun p : N * obj => is_white p.2 = false) h.

Definition whites (h : heap) : nat := size (filter (fun p : N * obj => is_white p.2 = true) h).

(* one collection; the fuel the real loop needs is bounded by the number of objects *)
Definition gc (h : heap) (roots : list N) : option heap :=
  let '(h1, queued) := scan h roots [] in
  match mark (S (length (protected_of h) + length queued + whites h1)) h1 (protected_of h ++ queued) with
  | Some h2 => Some (sweep h2)
  | None => None
  end.
