(* C15, compile-time half, part 3b: from one card to the whole program, with the COMPLETE run list.

   [GPF fs keys s s']: between the compiler states s and s' the process_card runs are, in order, exactly the card
   positions [keys] (function of the IR stream, index, card), and every pushed instruction either lies in the
   byte range of a run and then carries exactly the own location of the innermost such run
   (CompilerOwnerFull.attrF), or lies in no run at all and then (finding N-C15-3, characterised):
     - its opcode is Pop / CloseUpvalue / ScalarNil / Return / Exit ([epi_op]), and
     - its location is the epilogue location [epi_loc k f] of a function f = the k-th of the IR stream:
         k = 0 (`main`):  index [number of cards of main (mod 2^32)],
         k > 0:           the index of the LAST top-level card of f, or the empty index if f has no cards
       (the final Exit of the program carries the epilogue location of the function compiled last). *)
From Coq Require Import List NArith ZArith Bool Lia.
From Cao Require Import ListUtil CheckUtil Bits CardAst Bytecode Compiler CompilerGen Wellformed
     CompilerProofs CompilerWf CompilerTrace CompilerLabels CompilerOwner CompilerOwnerProg CompilerOwnerFull.
From Cao Require CardEdit.
Import ListNotations.
Local Open Scope N_scope.

(* ------------------------------------------------------------------ keys of the whole program *)
Definition gkey : Type := (function_ir * (list N * card))%type.
Definition gkeyof (g : grun) : gkey := (fst g, rkey (snd g)).
(* every card position of a function, in compilation order *)
Definition fn_keys (f : function_ir) : list gkey := map (pair f) (subcards_list [] (fi_cards f) 0).
(* ... of all functions of the IR stream (main first: the order of stage 2) *)
Definition stream_keys (fs : list function_ir) : list gkey := flat_map fn_keys fs.

(* ------------------------------------------------------------------ epilogues *)
Definition epi_op (o : opcode) : bool :=
  match o with OpPop | OpCloseUpvalue | OpScalarNil | OpReturn | OpExit => true | _ => false end.
Definition end_idx (i0 : list N) (cards : list card) : list N :=
  match cards with [] => i0 | _ :: r => [N.of_nat (length r)] end.
Definition epi_idx (k : nat) (f : function_ir) : list N :=
  match k with
  | O => [N.of_nat (length (fi_cards f)) mod two32]
  | S _ => end_idx [] (fi_cards f)
  end.
Definition epi_loc (k : nat) (f : function_ir) : loc := mkl (fi_ns f) (fi_index f) (epi_idx k f).
Definition is_epi_loc (fs : list function_ir) (l : loc) : Prop :=
  exists k f, nth_error fs k = Some f /\ l = epi_loc k f.

Definition gattrF (fs : list function_ir) (gruns : list grun) (lo hi : N) (x : oentry) : Prop :=
  let a := fst (fst x) in let l := snd (fst x) in let o := snd x in
  lo <= a < hi /\
  ((exists f r, gdeepest gruns (f, r) a /\
                l = mkl (fi_ns f) (fi_index f) (own_idx (r_card r) (r_idx r)) /\ own_ops (r_card r) o = true)
   \/ ((forall g, In g gruns -> ~ in_run (snd g) a) /\ epi_op o = true /\ is_epi_loc fs l)).

Definition GPF (fs : list function_ir) (keys : list gkey) (s s' : cstate) : Prop :=
  cs_pc s' = bytes (cs_code s') /\ cs_pc s <= cs_pc s' /\
  (cs_pc s' <= two32 ->
   exists newx gruns,
     cs_trace s' = map fst newx ++ cs_trace s /\
     oaddrs (cs_code s') (cs_pc s') = map oaddr newx ++ oaddrs (cs_code s) (cs_pc s) /\
     gruns_in fs (cs_pc s) (cs_pc s') (cs_trace s) (cs_trace s') gruns /\
     map gkeyof gruns = keys /\
     Forall (gattrF fs gruns (cs_pc s) (cs_pc s')) newx).

Lemma GPF_same fs s s' :
  cs_pc s = bytes (cs_code s) -> cs_code s' = cs_code s -> cs_pc s' = cs_pc s -> cs_trace s' = cs_trace s ->
  GPF fs [] s s'.
Proof.
  intros Hpc Hc Hp Ht. split; [congruence|]. split; [lia|]. intros _. exists [], [].
  cbn [map app]. rewrite Hc, Hp, Ht. repeat split; constructor.
Qed.

Lemma gattrF_extend_r fs gruns more lo mid hi x :
  mid <= hi -> (forall g, In g more -> mid <= r_lo (snd g)) ->
  gattrF fs gruns lo mid x -> gattrF fs (gruns ++ more) lo hi x.
Proof.
  intros Hmh Hmore (Hr & H). split; [lia|]. destruct H as [(f & r & (Hin & Hir & Hd) & Ho)|(Hout & Hp)].
  - left. exists f, r. split; [|exact Ho]. split; [apply in_or_app; left; exact Hin|]. split; [exact Hir|].
    intros r' Hr' Hir'. apply in_app_or in Hr'. destruct Hr' as [Hr'|Hr']; [apply Hd; assumption|].
    specialize (Hmore r' Hr'). unfold in_run in Hir'. lia.
  - right. split; [|exact Hp]. intros r Hin. apply in_app_or in Hin. destruct Hin as [Hin|Hin]; [apply Hout, Hin|].
    specialize (Hmore r Hin). unfold in_run. lia.
Qed.
Lemma gattrF_extend_l fs gruns more lo mid hi x :
  lo <= mid -> (forall g, In g more -> r_hi (snd g) <= mid) ->
  gattrF fs gruns mid hi x -> gattrF fs (more ++ gruns) lo hi x.
Proof.
  intros Hlm Hmore (Hr & H). split; [lia|]. destruct H as [(f & r & (Hin & Hir & Hd) & Ho)|(Hout & Hp)].
  - left. exists f, r. split; [|exact Ho]. split; [apply in_or_app; right; exact Hin|]. split; [exact Hir|].
    intros r' Hr' Hir'. apply in_app_or in Hr'. destruct Hr' as [Hr'|Hr']; [|apply Hd; assumption].
    specialize (Hmore r' Hr'). unfold in_run in Hir'. lia.
  - right. split; [|exact Hp]. intros r Hin. apply in_app_or in Hin. destruct Hin as [Hin|Hin]; [|apply Hout, Hin].
    specialize (Hmore r Hin). unfold in_run. lia.
Qed.

Lemma GPF_trans fs k1 k2 s s1 s2 : GPF fs k1 s s1 -> GPF fs k2 s1 s2 -> GPF fs (k1 ++ k2) s s2.
Proof.
  intros (Hpc1 & Hle1 & H1) (Hpc2 & Hle2 & H2). split; [exact Hpc2|]. split; [lia|].
  intros Hg. destruct (H1 ltac:(lia)) as (n1 & r1 & Ht1 & Ha1 & Hr1 & Hk1 & Hx1).
  destruct (H2 Hg) as (n2 & r2 & Ht2 & Ha2 & Hr2 & Hk2 & Hx2).
  exists (n2 ++ n1), (r1 ++ r2). rewrite !map_app, <- !app_assoc.
  split; [rewrite Ht2, Ht1; reflexivity|]. split; [rewrite Ha2, Ha1; reflexivity|]. split; [|split].
  - apply Forall_app. split.
    + eapply gruns_in_widen; [| | | |exact Hr1]; [lia | lia | exists []; reflexivity | exists (map fst n2); exact Ht2].
    + eapply gruns_in_widen; [| | | |exact Hr2]; [lia | lia | exists (map fst n1); exact Ht1 | exists []; reflexivity].
  - rewrite Hk1, Hk2. reflexivity.
  - apply Forall_app. split.
    + eapply Forall_impl; [|exact Hx2]. intros x Hx. eapply gattrF_extend_l; [exact Hle1| |exact Hx].
      intros r Hr. unfold gruns_in in Hr1. rewrite Forall_forall in Hr1. destruct (Hr1 r Hr) as (_ & _ & _ & _ & H). exact H.
    + eapply Forall_impl; [|exact Hx1]. intros x Hx. eapply gattrF_extend_r; [exact Hle2| |exact Hx].
      intros r Hr. unfold gruns_in in Hr2. rewrite Forall_forall in Hr2. destruct (Hr2 r Hr) as (_ & _ & H & _). exact H.
Qed.

Lemma GPF_keys fs k k' s s' : GPF fs k s s' -> k = k' -> GPF fs k' s s'.
Proof. intros H <-. exact H. Qed.

Lemma GPF_pushed fs s i :
  cs_pc s = bytes (cs_code s) -> epi_op (instr_op i) = true -> is_epi_loc fs (cur_loc s) -> GPF fs [] s (pushed s i).
Proof.
  intros Hpc Hc He. unfold GPF, pushed.
  cbn [cs_pc cs_code cs_trace set_code set_trace]. fold (spanN i). pose proof (spanN_pos i) as Hsp.
  split; [cbn [bytes]; lia|]. split; [lia|].
  intros Hg. exists [((cs_pc s mod two32, cur_loc s), instr_op i)], [].
  assert (Hm : cs_pc s mod two32 = cs_pc s) by (apply N.mod_small; lia).
  cbn [map fst app oaddrs]. unfold oaddr. cbn [fst snd]. rewrite Hm.
  replace (cs_pc s + spanN i - spanN i) with (cs_pc s) by lia.
  split; [reflexivity|]. split; [reflexivity|]. split; [constructor|]. split; [reflexivity|].
  constructor; [|constructor]. split; [cbn [fst snd]; lia|]. cbn [fst snd].
  right. split; [intros r []|]. split; assumption.
Qed.

(* a card-level result, read at program level *)
Lemma JF_GPF fs f idx ctx k (m : M unit) s s' :
  In f fs -> JF (fi_cards f) idx ctx idx ctx [] k m ->
  cs_idx s = idx -> at_ctx (fi_cards f) idx ctx -> cs_pc s = bytes (cs_code s) ->
  cs_ns s = fi_ns f -> cs_fn s = fi_index f ->
  m s = ROk tt s' ->
  GPF fs (map (pair f) k) s s' /\ cs_idx s' = idx /\ cs_fn s' = cs_fn s /\ cs_ns s' = cs_ns s.
Proof.
  intros Hf HJ Hi Hat Hpc Hns Hfn Hm. specialize (HJ s Hi Hat Hpc). rewrite Hm in HJ.
  destruct HJ as (h1 & h2 & h3 & h4 & h5 & h6 & H). repeat split; auto.
  intros Hg. destruct (H Hg) as (n & runs & Ht & Ha & Hr & Hk & Hx). rewrite Hns, Hfn in Hr, Hx.
  exists n, (map (pair f) runs). split; [exact Ht|]. split; [exact Ha|]. split; [|split].
  - unfold gruns_in, runs_in in *. rewrite Forall_forall in *. intros g Hg'. apply in_map_iff in Hg'.
    destruct Hg' as (r & <- & Hr'). cbn [fst snd]. destruct (Hr r Hr') as (q1 & q2 & q3 & q4). auto.
  - rewrite <- Hk, !map_map. reflexivity.
  - eapply Forall_impl; [|exact Hx]. intros [[a l] b] (Hrg & Hx1). split; [exact Hrg|]. cbn [fst snd] in *.
    destruct Hx1 as [(r & (Hin & Hir & Hd) & Ho)|(_ & i & mc & [] & _)].
    left. exists f, r. split; [|exact Ho]. split; [apply in_map, Hin|]. split; [exact Hir|].
    intros g' Hg' Hir'. apply in_map_iff in Hg'. destruct Hg' as (r' & <- & Hr''). cbn [snd] in *. apply Hd; assumption.
Qed.

(* ------------------------------------------------------------------ the cards of one function *)
Section Prog.
  Variable fs : list function_ir.

  Lemma process_cards_gpf f : In f fs -> forall rest done s s',
    fi_cards f = done ++ rest ->
    (length (cs_idx s) <= 1)%nat -> cs_ns s = fi_ns f -> cs_fn s = fi_index f -> cs_pc s = bytes (cs_code s) ->
    process_cards rest (N.of_nat (length done)) s = ROk tt s' ->
    GPF fs (map (pair f) (subcards_list [] rest (N.of_nat (length done)))) s s' /\
    cs_idx s' = match rest with [] => cs_idx s | _ :: r => [N.of_nat (length done + length r)] end /\
    cs_fn s' = cs_fn s /\ cs_ns s' = cs_ns s.
  Proof.
    intros Hf. induction rest as [|c r IH]; intros done s s' Hc Hidx Hns Hfn Hpc H; cbn [process_cards] in H.
    - injection H as <-. split; [apply GPF_same; auto|]. auto.
    - unfold bind in H. cbn [pop_sub push_sub] in H.
      set (s1 := set_index (cs_fn (set_index (cs_fn s) (tl (cs_idx s)) s))
                           (N.of_nat (length done) :: cs_idx (set_index (cs_fn s) (tl (cs_idx s)) s))
                           (set_index (cs_fn s) (tl (cs_idx s)) s)) in H.
      assert (Hidx1 : cs_idx s1 = [N.of_nat (length done)]).
      { subst s1. cbn. destruct (cs_idx s) as [|x [|y t]]; cbn in *; [reflexivity | reflexivity | lia]. }
      assert (Hat : at_ctx (fi_cards f) [N.of_nat (length done)] [c]).
      { constructor. rewrite Nat2N.id, Hc, nth_error_app2, Nat.sub_diag by lia. reflexivity. }
      destruct (process_card c s1) as [[] s2| | |] eqn:E1; try discriminate.
      destruct (JF_GPF fs f _ _ _ _ s1 s2 Hf (process_card_jf (fi_cards f) c _ [] []) Hidx1 Hat Hpc Hns Hfn E1)
        as (G1 & Hi2 & Hfn2 & Hns2).
      replace (N.of_nat (length done) + 1) with (N.of_nat (length (done ++ [c]))) in H
        by (rewrite app_length; cbn; lia).
      assert (Hpc2 : cs_pc s2 = bytes (cs_code s2)) by apply G1.
      destruct (IH (done ++ [c]) s2 s' ltac:(rewrite <- app_assoc; exact Hc) ltac:(rewrite Hi2; cbn; lia)
                   ltac:(rewrite Hns2; exact Hns) ltac:(rewrite Hfn2; exact Hfn) Hpc2 H)
        as (G2 & Hl3 & Hfn3 & Hns3).
      assert (E1f : cs_fn s1 = cs_fn s) by reflexivity. assert (E1n : cs_ns s1 = cs_ns s) by reflexivity.
      split; [|split; [|split; congruence]].
      + cbn [subcards_list]. rewrite map_app.
        replace (N.of_nat (length done) + 1) with (N.of_nat (length (done ++ [c])))
          by (rewrite app_length; cbn; lia).
        eapply GPF_keys; [eapply GPF_trans; [|exact G2]; eapply GPF_trans; [|exact G1]; apply GPF_same; auto|].
        reflexivity.
      + rewrite Hl3. destruct r as [|c2 r2].
        * rewrite Hi2. cbn [length]. f_equal. f_equal. lia.
        * rewrite app_length. cbn [length]. f_equal. f_equal. lia.
  Qed.

  (* ---- program-level triples ---- *)
  Definition GJF {A} (P Q : cstate -> Prop) (keys : list gkey) (m : M A) : Prop :=
    forall s, P s -> cs_pc s = bytes (cs_code s) ->
      match m s with ROk _ s' => Q s' /\ GPF fs keys s s' | _ => True end.

  Definition stableF (P : cstate -> Prop) : Prop :=
    forall s s', cs_fn s' = cs_fn s -> cs_idx s' = cs_idx s -> cs_ns s' = cs_ns s -> P s -> P s'.
  Definition Pidx (fn : nat) (idx : list N) (s : cstate) : Prop := cs_fn s = fn /\ cs_idx s = idx.
  Definition Ploc (l : loc) (s : cstate) : Prop := cur_loc s = l.
  Definition Pepi (s : cstate) : Prop := is_epi_loc fs (cur_loc s).
  Lemma stable_Pidx fn idx : stableF (Pidx fn idx).
  Proof. intros s s' H1 H2 _ [H3 H4]. split; congruence. Qed.
  Lemma stable_Ploc l : stableF (Ploc l).
  Proof. intros s s' H1 H2 H3 H. unfold Ploc, cur_loc in *. rewrite H1, H2, H3. exact H. Qed.
  Lemma stable_Pepi : stableF Pepi.
  Proof. intros s s' H1 H2 H3 H. unfold Pepi, cur_loc in *. rewrite H1, H2, H3. exact H. Qed.

  Lemma GJF_ret {A} P (a : A) : GJF P P [] (ret a).
  Proof. intros s HP Hpc. cbn. split; [exact HP | apply GPF_same; auto]. Qed.
  Lemma GJF_bind {A B} P Q R k1 k2 (m : M A) (f : A -> M B) :
    GJF P Q k1 m -> (forall a, GJF Q R k2 (f a)) -> GJF P R (k1 ++ k2) (bind m f).
  Proof.
    intros Hm Hf s HP Hpc. unfold bind. specialize (Hm s HP Hpc). destruct (m s) as [a s1| | |]; auto.
    destruct Hm as [HQ G1]. specialize (Hf a s1 HQ (proj1 G1)). destruct (f a s1) as [b s2| | |]; auto.
    destruct Hf as [HR G2]. split; [exact HR | eapply GPF_trans; eauto].
  Qed.
  Lemma GJF_keys {A} P Q k k' (m : M A) : GJF P Q k m -> k = k' -> GJF P Q k' m.
  Proof. intros H <-. exact H. Qed.
  Lemma GJF_bind_l {A B} P Q R k (m : M A) (f : A -> M B) :
    GJF P Q [] m -> (forall a, GJF Q R k (f a)) -> GJF P R k (bind m f).
  Proof. intros H1 H2. eapply GJF_keys; [eapply GJF_bind; eauto | reflexivity]. Qed.
  Lemma GJF_bind_r {A B} P Q R k (m : M A) (f : A -> M B) :
    GJF P Q k m -> (forall a, GJF Q R [] (f a)) -> GJF P R k (bind m f).
  Proof. intros H1 H2. eapply GJF_keys; [eapply GJF_bind; eauto | apply app_nil_r]. Qed.
  Lemma GJF_pre {A} (P P' Q : cstate -> Prop) k (m : M A) : (forall s, P' s -> P s) -> GJF P Q k m -> GJF P' Q k m.
  Proof. intros Hi H s HP Hpc. apply (H s (Hi s HP) Hpc). Qed.
  Lemma GJF_post {A} (P Q Q' : cstate -> Prop) k (m : M A) : (forall s, Q s -> Q' s) -> GJF P Q k m -> GJF P Q' k m.
  Proof.
    intros Hi H s HP Hpc. specialize (H s HP Hpc). destruct (m s); auto. destruct H as [H1 H2]. split; auto.
  Qed.
  Lemma GJF_frame3 {A} P (m : M A) : stableF P -> frame3 m -> framePC m -> GJF P P [] m.
  Proof.
    intros HS H3 HP s Hp Hpc. specialize (H3 s). specialize (HP s). destruct (m s) as [a s'| | |]; auto.
    destruct H3 as (a1 & a2 & a3 & a4), HP as (b1 & b2). split; [apply (HS s s'); auto | apply GPF_same; auto].
  Qed.
  Lemma GJF_frameW {A} (m : M A) : frame m -> GJF (fun _ => True) (fun _ => True) [] m.
  Proof.
    intros H s _ Hpc. specialize (H s). destruct (m s) as [a s'| | |]; auto.
    destruct H as (a1 & a2 & a3 & a4). split; [exact I | apply GPF_same; auto].
  Qed.
  Lemma GJF_push_epi P i :
    stableF P -> (forall s, P s -> Pepi s) -> epi_op (instr_op i) = true -> GJF P P [] (push_instr i).
  Proof.
    intros HS HE Hc s HP Hpc. rewrite push_instr_eq. split; [|apply GPF_pushed; auto; apply HE, HP].
    apply (HS s (pushed s i)); auto.
  Qed.
  Lemma GJF_push_raws P is :
    stableF P -> (forall s, P s -> Pepi s) -> Forall (fun i => epi_op (instr_op i) = true) is ->
    GJF P P [] (push_raws is).
  Proof.
    intros HS HE Hall. induction Hall as [|i r Hi _ IH]; cbn [push_raws]; [apply GJF_ret|].
    eapply GJF_bind_l; [apply GJF_push_epi; auto | intros _; exact IH].
  Qed.
  Lemma pop_locals_epi rls d : Forall (fun i => epi_op (instr_op i) = true) (snd (pop_locals rls d)).
  Proof.
    induction rls as [|l r IH]; cbn [pop_locals]; [constructor|].
    destruct (d <? l_depth l)%Z; [|constructor]. destruct (pop_locals r d) as [r' is]. cbn [snd] in *.
    constructor; [destruct (l_captured l); reflexivity | exact IH].
  Qed.
  Lemma GJF_scope_end P : stableF P -> (forall s, P s -> Pepi s) -> GJF P P [] scope_end.
  Proof.
    intros HS HE s HP Hpc. unfold scope_end.
    set (ds := map_hd _ (cs_depth s)). set (rlis := pop_locals _ _). set (s1 := set_scopes _ _ _ s).
    assert (HP1 : P s1) by (apply (HS s s1); auto).
    exact (GJF_push_raws P (snd rlis) HS HE (pop_locals_epi _ _) s1 HP1 Hpc).
  Qed.
  Lemma GJF_process_leaf P i :
    stableF P -> (forall s, P s -> Pepi s) -> epi_op (instr_op i) = true -> GJF P P [] (process_leaf i).
  Proof.
    intros HS HE Hc. unfold process_leaf.
    eapply GJF_bind_l; [apply GJF_frame3; [exact HS | apply frame3_card_label | apply framePC_card_label] | intros _].
    apply GJF_push_epi; auto.
  Qed.
  Lemma GJF_set_index (P : cstate -> Prop) fn idx : GJF P (Pidx fn idx) [] (set_index_m fn idx).
  Proof. intros s _ Hpc. cbn. split; [split; reflexivity | apply GPF_same; auto]. Qed.
  Lemma GJF_set_index_loc ns fn idx :
    GJF (fun s => cs_ns s = ns) (Ploc (mkl ns fn idx)) [] (set_index_m fn idx).
  Proof.
    intros s Hns Hpc. cbn. split; [|apply GPF_same; auto].
    unfold Ploc. rewrite cur_loc_mkl. cbn. rewrite Hns. reflexivity.
  Qed.
  Lemma GJF_set_fh P h : stableF P -> GJF P P [] (set_fh_m h).
  Proof. intros HS s HP Hpc. cbn. split; [apply (HS s _); auto | apply GPF_same; auto]. Qed.

  (* the cards of f: all its card positions; afterwards the index is that of its last card (or unchanged) *)
  Lemma GJF_process_function f i0 : In f fs -> (length i0 <= 1)%nat ->
    GJF (Pidx (fi_index f) i0)
        (fun s => cs_fn s = fi_index f /\ cs_ns s = fi_ns f /\ cs_idx s = end_idx i0 (fi_cards f))
        (fn_keys f) (process_function f).
  Proof.
    intros Hf Hl s [Hfn Hi] Hpc. unfold process_function, bind.
    set (s0 := set_fctx (fi_ns f) (fi_imports f) s).
    pose proof (frame3_add_locals (rev (fi_args f)) s0) as H3.
    pose proof (frame_add_locals (rev (fi_args f)) s0) as HW.
    destruct (add_locals (rev (fi_args f)) s0) as [[] s1| | |]; auto.
    destruct H3 as (a1 & a2 & a3 & a4), HW as (b1 & b2 & _ & _).
    destruct (process_cards (fi_cards f) 0 s1) as [[] s2| | |] eqn:E; auto.
    destruct (process_cards_gpf f Hf (fi_cards f) [] s1 s2 eq_refl ltac:(rewrite a1; cbn; rewrite Hi; exact Hl)
                ltac:(rewrite a3; reflexivity) ltac:(rewrite a2; exact Hfn) ltac:(rewrite b1, b2; exact Hpc) E)
      as (G & Hi2 & Hfn2 & Hns2).
    split.
    - split; [rewrite Hfn2, a2; exact Hfn|]. split; [rewrite Hns2, a3; reflexivity|].
      rewrite Hi2, a1. unfold end_idx. destruct (fi_cards f); [exact Hi | reflexivity].
    - eapply GPF_keys; [eapply GPF_trans; [|exact G]; apply GPF_same; auto | reflexivity].
  Qed.

  Definition Qfn (f : function_ir) (i0 : list N) (s : cstate) : Prop :=
    cs_fn s = fi_index f /\ cs_ns s = fi_ns f /\ cs_idx s = end_idx i0 (fi_cards f).

  Lemma epi_here k f : nth_error fs k = Some f -> forall s, Ploc (epi_loc k f) s -> Pepi s.
  Proof. intros Hk s H. unfold Pepi. rewrite H. exists k, f. auto. Qed.

  Lemma GJF_compile_main f : nth_error fs 0 = Some f ->
    GJF (fun _ => True) (Ploc (epi_loc 0 f)) (fn_keys f) (compile_main f).
  Proof.
    intros Hk. assert (Hf : In f fs) by (eapply nth_error_In; eauto). unfold compile_main.
    eapply GJF_bind_l; [apply GJF_set_index | intros _].
    eapply GJF_bind_l; [apply GJF_set_fh, stable_Pidx | intros _].
    eapply GJF_bind_l; [apply GJF_frame3; [apply stable_Pidx | apply frame3_scope_begin | apply frame_framePC, frame_scope_begin] | intros _].
    eapply GJF_bind_r; [apply GJF_process_function; [exact Hf | cbn; lia] | intros _].
    eapply GJF_bind_l.
    { eapply GJF_pre; [|apply (GJF_set_index_loc (fi_ns f))]. intros s (_ & H & _). exact H. }
    intros _. change (mkl (fi_ns f) (fi_index f) [N.of_nat (length (fi_cards f)) mod two32]) with (epi_loc 0 f).
    eapply GJF_bind_l; [apply GJF_scope_end; [apply stable_Ploc | exact (epi_here 0%nat f Hk)] | intros _].
    apply GJF_process_leaf; [apply stable_Ploc | exact (epi_here 0%nat f Hk) | reflexivity].
  Qed.

  Lemma Qfn_epi k f : forall s, Qfn f [] s -> Ploc (epi_loc (S k) f) s.
  Proof.
    intros s (H1 & H2 & H3). unfold Ploc, epi_loc, epi_idx. rewrite cur_loc_mkl, H1, H2, H3. reflexivity.
  Qed.

  Lemma GJF_compile_other k f : nth_error fs (S k) = Some f ->
    GJF (fun _ => True) (Ploc (epi_loc (S k) f)) (fn_keys f) (compile_other f).
  Proof.
    intros Hk. assert (Hf : In f fs) by (eapply nth_error_In; eauto). unfold compile_other.
    eapply GJF_bind_l; [apply GJF_set_index | intros _].
    eapply GJF_bind_l; [apply GJF_set_fh, stable_Pidx | intros _].
    eapply GJF_bind_l; [apply GJF_frame3; [apply stable_Pidx | apply frame3_label_insert | apply framePC_label_insert] | intros _].
    eapply GJF_bind_l; [apply GJF_frame3; [apply stable_Pidx | apply frame3_scope_begin | apply frame_framePC, frame_scope_begin] | intros _].
    eapply GJF_bind_r.
    { eapply GJF_post; [apply (Qfn_epi k f)|]. apply GJF_process_function; [exact Hf | cbn; lia]. }
    intros _.
    eapply GJF_bind_l; [apply GJF_scope_end; [apply stable_Ploc | exact (epi_here (S k) f Hk)] | intros _].
    eapply GJF_bind_l; [apply GJF_push_epi; [apply stable_Ploc | exact (epi_here (S k) f Hk) | reflexivity] | intros _].
    apply GJF_push_epi; [apply stable_Ploc | exact (epi_here (S k) f Hk) | reflexivity].
  Qed.

  Lemma GJF_compile_others l : forall k0,
    (forall j f, nth_error l j = Some f -> nth_error fs (S k0 + j) = Some f) ->
    GJF Pepi Pepi (flat_map fn_keys l) (compile_others l).
  Proof.
    induction l as [|f r IH]; intros k0 Hi; cbn [compile_others flat_map]; [apply GJF_ret|].
    eapply GJF_bind.
    - eapply GJF_pre; [|eapply GJF_post; [|apply (GJF_compile_other k0 f)]].
      + intros; exact I.
      + apply epi_here with (k := S k0). rewrite <- (Nat.add_0_r (S k0)). apply (Hi 0%nat f). reflexivity.
      + rewrite <- (Nat.add_0_r (S k0)). apply (Hi 0%nat f). reflexivity.
    - intros _. apply (IH (S k0)). intros j g Hj.
      replace (S (S k0) + j)%nat with (S k0 + S j)%nat by lia. apply (Hi (S j) g Hj).
  Qed.

  Lemma GJF_stage_2 f r : fs = f :: r -> GJF (fun _ => True) Pepi (stream_keys fs) (stage_2 fs).
  Proof.
    intros E. rewrite E at 1 2. cbn [stage_2 stream_keys flat_map].
    assert (H0 : nth_error fs 0 = Some f) by (rewrite E; reflexivity).
    eapply GJF_bind.
    - eapply GJF_post; [|apply (GJF_compile_main f H0)]. apply epi_here with (k := 0%nat). exact H0.
    - intros _. apply (GJF_compile_others r 0%nat). intros j g Hj. rewrite E. cbn. exact Hj.
  Qed.

  Lemma GJF_compile_ir : GJF (fun _ => True) (fun _ => True) (stream_keys fs) (compile_ir fs).
  Proof.
    unfold compile_ir. destruct fs as [|f0 r] eqn:Efs; [intros s _ _; exact I|]. rewrite <- Efs.
    eapply GJF_bind_l; [apply GJF_frameW, frame_stage_1 | intros _].
    eapply GJF_bind_r; [apply (GJF_stage_2 f0 r Efs) | intros _].
    eapply (GJF_bind_l Pepi Pepi).
    - intros s HP Hpc. cbn. split; [|apply GPF_same; auto]. exact HP.
    - intros _. eapply GJF_post; [|apply GJF_push_epi; [apply stable_Pepi | auto | reflexivity]]. intros; exact I.
  Qed.
End Prog.

(* ------------------------------------------------------------------ the whole compilation *)
Theorem compile_ir_owner_full fs d s_end :
  compile_ir fs (init_state d) = ROk tt s_end ->
  cs_pc s_end = bytes (cs_code s_end) /\
  (cs_pc s_end <= two32 ->
   exists newx gruns,
     cs_trace s_end = map fst newx /\
     oaddrs (cs_code s_end) (cs_pc s_end) = map oaddr newx /\
     gruns_in fs 0 (cs_pc s_end) [] (cs_trace s_end) gruns /\
     map gkeyof gruns = stream_keys fs /\
     Forall (gattrF fs gruns 0 (cs_pc s_end)) newx).
Proof.
  intros H. pose proof (GJF_compile_ir fs (init_state d) I eq_refl) as HG. rewrite H in HG.
  destruct HG as (_ & Hpc & _ & HG). split; [exact Hpc|]. intros Hg.
  destruct (HG Hg) as (n & g & Ht & Ha & Hr & Hk & Hx). exists n, g.
  cbn [init_state cs_trace cs_code cs_pc oaddrs] in *. rewrite !app_nil_r in *. auto.
Qed.
