(* Executable correspondence checker for C16 (module editing API).
   A case is a module and a history of API calls; for every call the harness recorded what the
   implementation returned and the whole module afterwards.  Every call is checked on its own,
   starting from the module the implementation had before it:
     code 1   the kind-by-kind model CardEdit.step predicts another result or another module
     code 2   the rose-tree specification CardEditSpec.spec_step rejects what the implementation did
     code 3   the case is malformed (payload out of range: harness defect)
   No known-finding class is left: A-25 (swap_cards(i, i)), A-26 (insert past the end of a call) and
   A-41 (get_card depth) were repaired in /repo; the former classes are ordinary code-2 violations. *)
From Cao Require Export CheckUtil CardAst CardEdit CardEditSpec.
Local Open Scope N_scope.

(* monomorphic aliases for the generated files *)
Definition ix (f : nat) (p : list nat) : card_index := mk_index f p.
Definition mkfn (args : list str) (cards : list card) : function := {| f_args := args; f_cards := cards |}.
Definition st (o : op) (ob : obs) (m : module) : op * obs * module := (o, ob, m).
Definition wk (f : nat) (p : list nat) (c : card) : card_index * card := (mk_index f p, c).

Inductive c16case := C16Case (m0 : module) (steps : list (op * obs * module)).

Definition swap_error_eqb (a b : swap_error) : bool :=
  match a, b with
  | InvalidSwap, InvalidSwap => true
  | SwapFetchError i e, SwapFetchError j f => ci_eqb i j && fetch_eqb e f
  | _, _ => false
  end.

Definition obs_eqb (a b : obs) : bool :=
  robs_eqb (abs_obs a) (abs_obs b) &&
  match a, b with
  | ObSwapErr e, ObSwapErr f => swap_error_eqb e f
  | _, _ => true
  end.

(* payload ranges: bytes, i64, f64 bit patterns *)
Definition str_wf (s : str) : bool := forallb (fun b => b <? 256) s.
Definition ostr_wf (s : option str) : bool := match s with Some s => str_wf s | None => true end.
Definition label_wf (l : label) : bool :=
  match l with
  | LInt i => ((-9223372036854775808 <=? i) && (i <=? 9223372036854775807))%Z
  | LFloat b => b <? 18446744073709551616
  | LStr s | LComment s | LFunction s | LNativeFunction s | LReadVar s | LCallNative s | LCall s
  | LSetGlobalVar s | LSetVar s | LComposite s => str_wf s
  | LRepeat i => ostr_wf i
  | LForEach i k v => ostr_wf i && ostr_wf k && ostr_wf v
  | LClosure a => forallb str_wf a
  | LBody n a => str_wf n && forallb str_wf a
  | _ => true
  end.
Fixpoint rose_wf (r : rose) : bool :=
  match r with
  | RNode l kids =>
      label_wf l && (fix go (x : list rose) : bool := match x with [] => true | r :: t => rose_wf r && go t end) kids
  end.
Definition op_wf (o : op) : bool :=
  match o with
  | OpInsert _ c | OpReplace _ c | OpReplaceChild _ _ c => rose_wf (to_rose c)
  | _ => true
  end.

Definition oracle_step (m : module) (o : op) (ob : obs) (m' : module) : bool :=
  let rm := to_rmod m in
  let '(sm, sob) := spec_step rm o in
  rmodule_eqb sm (to_rmod m') && robs_eqb sob (abs_obs ob) &&
  match o, ob with
  | OpSwap a b, ObSwapErr e => swap_err_ok rm a b e
  | _, _ => true
  end.

Definition check_step (m : module) (o : op) (ob : obs) (m' : module) : list N :=
  (let '(mm, mob) := step m o in
   if module_eqb mm m' && obs_eqb mob ob then [] else [1]) ++
  (if oracle_step m o ob m' then [] else [2]) ++
  (if op_wf o then [] else [3]).

Fixpoint check_steps (m : module) (steps : list (op * obs * module)) : list N :=
  match steps with
  | [] => []
  | (o, ob, m') :: t => check_step m o ob m' ++ check_steps m' t
  end.

Definition check1 (c : c16case) : list N :=
  match c with
  | C16Case m0 steps =>
      (if forallb rose_wf (rm_fns (to_rmod m0)) then [] else [3]) ++
      nodup N.eq_dec (check_steps m0 steps)
  end.

Definition check_all := CheckUtil.check_all check1.
