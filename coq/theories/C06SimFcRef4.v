(* C06, refinement through the compiler, fragment FC: the reference half, part 4 - the card list of main and the program:
   RefSem.eval_program computes the direct meaning [obs_fc] (kind and globals) of every program of FC. *)
From Coq Require Import List NArith ZArith Bool Lia.
From Cao Require Import CheckUtil Bits CardAst Table TableProofs StdlibGen RefSem
     C01SimDefs C01SimRef C01SimDefs2 C01SimRef2 C01SimDefs4 C01SimDefs5 C01SimRef5 C06Proofs
     C06SimFcDefs C06SimFcRef C06SimFcRef2 C06SimFcRef3.
Import ListNotations.

Section Eval.
Variable P : list fentry.
Variable host : list str.
Variable limit : N.
Variable fi : nat.
Notation evalf := (eval P host limit).
Notation inv := (inv fi).

Definition seq_res (r : res) (R : lstore) (C : cstore) (g : gl) (cards : list card) : Prop :=
  r = RFuel \/
  (exists vs e' s' R' C' g', r = ok vs e' s' /\ run_fc R C g cards = (true, R', C', g') /\
                             st_heap s' = [] /\ st_globals s' = g' /\ simples g') \/
  (exists e' s' R' C' g', r = err EVarNotFound e' s' /\ run_fc R C g cards = (false, R', C', g') /\
                          st_heap s' = [] /\ st_globals s' = g' /\ simples g').

Lemma eval_cards cards : forall Ln Lc, cards_fc Ln Lc cards = true ->
  forall fuel s sc R C g, inv s sc R C g Ln Lc ->
    seq_res (evalf fuel (TkSeq fi (menv sc) cards) s) R C g cards.
Proof.
  induction cards as [|c r IH]; intros Ln Lc Hc fuel s sc R C g Hinv.
  - destruct fuel as [|f]; [left; reflexivity|]. cbn [eval]. unfold F.
    destruct (limit <? st_steps s)%N; [left; reflexivity|]. right; left.
    exists [], (menv sc), (bump s), R, C, g. split; [reflexivity|]. split; [reflexivity|].
    eapply inv_globals_simple. eapply inv_same; [apply same_mem_bump | exact Hinv].
  - cbn [cards_fc] in Hc. apply andb_true_iff in Hc. destruct Hc as [Hc Hr].
    destruct fuel as [|f]; [left; reflexivity|]. cbn [eval]. unfold F.
    destruct (limit <? st_steps s)%N; [left; reflexivity|].
    pose proof (inv_same _ _ _ _ _ _ _ _ _ (same_mem_bump s) Hinv) as Hinvb.
    unfold seq_res. cbn [run_fc].
    destruct (eval_top P host limit fi c Ln Lc Hc f (bump s) sc R C g Hinvb)
      as [E|[(s1 & sc1 & R1 & C1 & g1 & E & Hr1 & Hinv1)|(e1 & s1 & R1 & C1 & g1 & E & Hr1 & Hrest)]];
      rewrite E; cbn [bnd ok err].
    + left; reflexivity.
    + rewrite Hr1.
      destruct (IH _ _ Hr f s1 sc1 R1 C1 g1 Hinv1)
        as [E2|[(vs2 & e2 & s2 & R2 & C2 & g2 & E2 & Hr2 & Hrest)|(e2 & s2 & R2 & C2 & g2 & E2 & Hr2 & Hrest)]];
        rewrite E2; cbn [bnd ok err app].
      * left; reflexivity.
      * right; left. exists vs2, e2, s2, R2, C2, g2. auto.
      * right; right. exists e2, s2, R2, C2, g2. auto.
    + right; right. exists e1, s1, R1, C1, g1. rewrite Hr1. auto.
Qed.
End Eval.

Lemma inv_init fi : inv fi init_state [] [] [] [] [] [].
Proof.
  unfold inv. cbn [init_state st_heap st_globals st_cells st_clos app].
  split; [reflexivity|]. split; [reflexivity|]. split; [constructor|].
  split; [intros n _; reflexivity|]. split; [intros n m c H; discriminate H|].
  split; [intros n c H; discriminate H|]. split; [intros n; reflexivity|].
  split; [intros n _; reflexivity|]. intros x H. discriminate H.
Qed.

Theorem eval_program_fc fuel M host o :
  in_fc M = true -> eval_program fuel M host = PObs o ->
  (ob_kind o, ob_globals o) = obs_fc (main_cards M).
Proof.
  intros HM. destruct M as [subs funs imps]. cbn [in_fc] in HM.
  destruct subs; [|discriminate]. destruct funs as [|[name f] [|]]; try discriminate.
  destruct imps; [|discriminate].
  apply andb_true_iff in HM. destruct HM as [HM Hcards]. apply andb_true_iff in HM. destruct HM as [Hname _].
  apply str_eqb_main in Hname. subst name.
  destruct flatten_std_some as [stdl Hstd].
  unfold eval_program, program_of, add_std. cbn [app].
  change 64%nat with (S 63). rewrite (flatten_f1 63 f stdl Hstd).
  cbn [find_index fe_name]. change (str_eqb s_main s_main) with true. cbv iota.
  cbn [nth_error fe_fn main_cards].
  set (P := _ :: stdl).
  intros H.
  change {| e_scopes := [[]]; e_up := [] |} with (menv []) in H.
  unfold obs_fc.
  pose proof (eval_cards P host (step_limit fuel) 0 _ _ _ Hcards fuel init_state [] [] [] [] (inv_init 0))
    as [E|[(vs & e1 & s1 & R1 & C1 & g1 & E & Hrun & Hh & Hg & Hsg)|(e1 & s1 & R1 & C1 & g1 & E & Hrun & Hh & Hg & Hsg)]];
    rewrite E in H; cbn [ok err] in H; try discriminate H; rewrite Hrun.
  - injection H as <-. cbn [ob_kind ob_globals observe]. f_equal. rewrite Hh, Hg. apply map_ext_in. intros [x v] Hin.
    unfold simples in Hsg. rewrite Forall_forall in Hsg. pose proof (Hsg _ Hin) as Hv. cbn [snd] in Hv.
    destruct v; try contradiction; reflexivity.
  - injection H as <-. cbn [ob_kind ob_globals observe]. f_equal. rewrite Hh, Hg. apply map_ext_in. intros [x v] Hin.
    unfold simples in Hsg. rewrite Forall_forall in Hsg. pose proof (Hsg _ Hin) as Hv. cbn [snd] in Hv.
    destruct v; try contradiction; reflexivity.
Qed.
