(* C15 correspondence checker: error locations identify the failing card and its call chain.

   A run case carries the source module (with exactly one planted fault), the budget, what the harness planted
   (position of the planted card, which trace head and which call chain the property demands) and what the
   real crate did: the error payload, the raw trace, and every trace entry resolved through the crate's own
   `Module::get_card` (namespace -> submodule path, then CardIndex).  A compile case carries a module with one
   planted compile error and the `CompilationError` the crate returned, its `loc` resolved in the same way.

   Codes
     1  the models predict something else: Compiler.compile followed by Vm.run on the module gives another error
        payload or another trace (run cases) / Compiler.compile gives another error or location (compile cases) /
        CardEdit.get_card resolves an entry to another kind of card than the crate's get_card did
     2  the specification oracle, which looks only at the crate's observations and at what the generator planted,
        rejects: trace[0] is not the planted card (or, for a fault that is not one card, not a card below the planted
        card / not a card at all), or a later entry is not the expected call card / not a call card that calls the
        function of the entry before it, or the compile error's location is not the planted card
     3  the case is outside the checker's domain (non-ASCII names, model cannot predict: Diverge / UB / unmodelled)
     10 known class "function-level trace entry": the head of the trace is the epilogue of a function - index
        [number of cards] in `main` (scope-end Pop / CloseUpvalue, the final Exit) or the empty index of a function
        without cards (ScalarNil / Return) - which no card owns; only for Timeout / Stackoverflow, the two errors
        that can strike there; the rest of the trace must still be the right call chain
     12 known class "the trace of a nested run is dropped": the fault was raised inside a script function that a
        native function called through Vm::run_function; run_function keeps only the payload of the nested error,
        so the error surfaces as TaskFailure{name of that native} at the CallNative card of the outermost such
        native (or at the DynamicCall card, when that native was called as a native function value): trace[0] is that
        card (a card of the call chain, not the failing card) and the entries after it are the right call chain of
        that card *)
From Coq Require Import NArith ZArith List Bool.
From Cao Require Export CheckUtil CardAst Compiler Vm.
From Cao Require Import Bits VmFloat VmCheck C15Link.
From Cao Require CardEdit.
Import ListNotations.
Local Open Scope N_scope.

(* ------------------------------------------------------------------ observations *)
Inductive rkind :=
| RKCall (name : str)            (* Call: the static function name *)
| RKDyn (fname : option str)     (* DynamicCall; Some n when its function child is the card Function n *)
| RKNative (name : str)          (* CallNative *)
| RKClosure
| RKOther
| RKNone (why : N).              (* get_card failed: 0 FunctionNotFound, 1 CardNotFound, 2 InvalidIndex, 3 no such submodule *)

Record resolved := mkRes {
  r_fname : option str;      (* name of the function that (namespace, function index) designates, if there is one *)
  r_ncards : N;              (* number of top-level cards of that function *)
  r_kind : rkind;            (* what Module::get_card returned *)
  r_self : option N;         (* scenario tag of the resolved card (CardId - 1000000): 0 = the planted card *)
  r_under : bool;            (* the resolved card is the planted card or lies below it *)
  r_in_closure : bool        (* a strict ancestor of the resolved card is a Closure card *)
}.

(* what the property demands of trace[0] *)
Inductive head :=
| HPlanted      (* the planted card itself *)
| HUnder        (* the planted card or a card below it (a planted loop that runs out of budget) *)
| HAny.         (* any card of the program (Timeout on a program without a planted card) *)

(* what the property demands of trace[1..]: the exact call cards innermost first ([true] = one or more times,
   for a planted recursion), or only consistency of every call card with the entry before it *)
Inductive chainspec :=
| CExact (items : list (loc * bool))
| CFree.

Inductive c15case :=
| C15Run (debug : bool) (m : module) (budget : N) (planted : option loc) (h : head) (c : chainspec)
         (e : err) (trace : list loc) (res : list resolved)
| C15Comp (debug : bool) (m : module) (planted : option loc)
          (e : cerr) (l : option loc) (res : option resolved).

Definition mkrun := C15Run.
Definition mkcomp := C15Comp.
Definition mkres := mkRes.
Definition mkloc (ns : list str) (f : nat) (idx : list nat) : loc := (ns, Build_card_index f idx).

(* ------------------------------------------------------------------ helpers *)
Definition loc_eqb (a b : loc) : bool :=
  list_eqb str_eqb (fst a) (fst b)
  && Nat.eqb (ci_function (snd a)) (ci_function (snd b))
  && list_eqb Nat.eqb (ci_indices (snd a)) (ci_indices (snd b)).

Definition is_nil {A} (l : list A) : bool := match l with [] => true | _ => false end.

Fixpoint zip {A B} (a : list A) (b : list B) : list (A * B) :=
  match a, b with
  | x :: a', y :: b' => (x, y) :: zip a' b'
  | _, _ => []
  end.

Fixpoint module_in_domain (m : module) : bool :=
  match m with
  | Module subs funs _ =>
      forallb (fun nf => name_in_domain (fst nf)) funs &&
      (fix go (l : list (str * module)) : bool :=
         match l with
         | [] => true
         | (_, sub) :: r => module_in_domain sub && go r
         end) subs
  end.

(* ------------------------------------------------------------------ resolution through the models *)
(* the module a namespace designates: submodules by name from the root; `std` is the injected library *)
Fixpoint module_at (m : module) (ns : list str) : option module :=
  match ns with
  | [] => Some m
  | n :: r =>
      match sm_find n (m_submodules m) with
      | Some sub => module_at sub r
      | None => None
      end
  end.
Definition with_std (m : module) : module :=
  Module (m_submodules m ++ [(s_std, StdlibGen.std_module)]) (m_functions m) (m_imports m).

Definition kind_of (c : card) : rkind :=
  match c with
  | CCall n _ => RKCall n
  | CDynamicCall (CFunction n) _ => RKDyn (Some n)
  | CDynamicCall _ _ => RKDyn None
  | CCallNative n _ => RKNative n
  | CClosure _ _ => RKClosure
  | _ => RKOther
  end.

Definition model_kind (m : module) (l : loc) : rkind :=
  match module_at (with_std m) (fst l) with
  | None => RKNone 3
  | Some sub =>
      match CardEdit.get_card sub (snd l) with
      | CardEdit.ROk c => kind_of c
      | CardEdit.RErr CardEdit.FunctionNotFound => RKNone 0
      | CardEdit.RErr (CardEdit.CardNotFound _) => RKNone 1
      | CardEdit.RErr _ => RKNone 2
      | CardEdit.RPanic => RKNone 9
      end
  end.

Definition rkind_eqb (a b : rkind) : bool :=
  match a, b with
  | RKCall x, RKCall y | RKNative x, RKNative y => str_eqb x y
  | RKDyn x, RKDyn y => opt_eqb str_eqb x y
  | RKClosure, RKClosure | RKOther, RKOther => true
  | RKNone x, RKNone y => x =? y
  | _, _ => false
  end.

Definition kinds_agree (m : module) (trace : list loc) (res : list resolved) : bool :=
  Nat.eqb (length trace) (length res) &&
  forallb (fun tr => rkind_eqb (model_kind m (fst tr)) (r_kind (snd tr))) (zip trace res).

(* ------------------------------------------------------------------ the models' prediction *)
Definition default_limit : N := 64.

Inductive prediction :=
| PErr (e : err) (t : list loc)
| POk
| PCompile (r : cresult)
| PUnknown.

Definition predict_of (debug : bool) (r : cresult) (budget : N) : prediction :=
  match r with
  | COk B =>
      match Vm.run flocq_ops (bld_of debug) (N.to_nat budget) (to_vm B) fresh_state with
      | (OErr e t, _) => PErr e (map (trace_loc B) t)
      | (OOk, _) => POk
      | (OAbort _, _) => PUnknown
      end
  | r => PCompile r
  end.
Definition compile_default (debug : bool) (m : module) : cresult :=
  compile m {| o_recursion_limit := default_limit; o_debug := debug |}.
Definition predict (debug : bool) (m : module) (budget : N) : prediction :=
  predict_of debug (compile_default debug m) budget.

(* every trace entry the compiler model records either resolves through the get_card model or is one of the two
   function-level forms; reported under code 1 (it is a statement about the models only) *)
Definition function_level (m : module) (l : loc) : bool :=
  match module_at (with_std m) (fst l) with
  | None => false
  | Some sub =>
      match nth_error (m_functions sub) (ci_function (snd l)) with
      | None => false
      | Some (_, f) =>
          match ci_indices (snd l) with
          | [] => true
          | [n] => Nat.eqb n (length (f_cards f))
          | _ => false
          end
      end
  end.
(* entries of the user's own functions only: the library's entries are the same in every case *)
Definition trace_resolves_of (m : module) (r : cresult) : bool :=
  match r with
  | COk B =>
      forallb (fun e => match fst (snd e) with
                        | n :: _ => if str_eqb n s_std then true
                                    else match model_kind m (snd e) with
                                         | RKNone _ => function_level m (snd e)
                                         | _ => true
                                         end
                        | [] => match model_kind m (snd e) with
                                | RKNone _ => function_level m (snd e)
                                | _ => true
                                end
                        end) (Compiler.p_trace B)
  | _ => true
  end.
Definition model_trace_resolves (debug : bool) (m : module) : bool :=
  trace_resolves_of m (compile_default debug m).

(* ------------------------------------------------------------------ the specification oracle *)
Definition resolves (r : resolved) : bool := match r_kind r with RKNone _ => false | _ => true end.
Definition is_callstyle (k : rkind) : bool :=
  match k with RKCall _ | RKDyn _ | RKNative _ => true | _ => false end.

Definition in_main (t : loc) (r : resolved) : bool :=
  is_nil (fst t) && opt_eqb str_eqb (r_fname r) (Some s_main).

Definition last_seg (s : str) : str := last (split_c c_dot s) [].

(* the call card [k] can have called the function in which the entry [prev] lies *)
Definition calls_fn (k : rkind) (prev : resolved) : bool :=
  match k with
  | RKCall n | RKDyn (Some n) =>
      opt_eqb str_eqb (Some (last_seg n)) (r_fname prev) && negb (r_in_closure prev)
  | RKDyn None => true
  | _ => false
  end.

(* trace[i+1..] after the entry [prev]; the last entry may be the program entry (the frame of Vm::run) *)
Fixpoint chain_free (prev : loc * resolved) (tr : list (loc * resolved)) : bool :=
  match tr with
  | [] => true
  | (t, r) :: tr' =>
      match tr' with
      | [] => calls_fn (r_kind r) (snd prev)
              || (in_main t r && in_main (fst prev) (snd prev) && negb (r_in_closure (snd prev)) && resolves r)
      | _ => calls_fn (r_kind r) (snd prev) && chain_free (t, r) tr'
      end
  end.

Fixpoint drop_eq (l : loc) (tr : list (loc * resolved)) : list (loc * resolved) :=
  match tr with
  | (t, r) :: tr' => if loc_eqb t l then drop_eq l tr' else tr
  | [] => []
  end.

Fixpoint chain_exact (items : list (loc * bool)) (tr : list (loc * resolved)) : bool :=
  match items with
  | [] => match tr with
          | [] => true
          | [(t, r)] => in_main t r && resolves r
          | _ => false
          end
  | (l, star) :: rest =>
      match tr with
      | [] => false
      | (t, r) :: tr' =>
          loc_eqb t l && is_callstyle (r_kind r) && chain_exact rest (if star then drop_eq l tr' else tr')
      end
  end.

Definition chain_ok (c : chainspec) (hd : loc * resolved) (tl : list (loc * resolved)) : bool :=
  match c with
  | CExact items => chain_exact items tl
  | CFree => chain_free hd tl
  end.

Definition same_fn (a b : loc) : bool :=
  list_eqb str_eqb (fst a) (fst b) && Nat.eqb (ci_function (snd a)) (ci_function (snd b)).

Definition head_ok (h : head) (planted : option loc) (t : loc) (r : resolved) : bool :=
  match h with
  | HPlanted => opt_eqb loc_eqb (Some t) planted && opt_eqb N.eqb (r_self r) (Some 0) && resolves r
  | HUnder => r_under r && resolves r &&
              match planted with Some p => same_fn t p | None => false end
  | HAny => resolves r
  end.

(* class 10: a function-level head *)
Definition strikes_anywhere (e : err) : bool :=
  match e with ETimeout | EStackoverflow => true | _ => false end.
Definition function_level_head (t : loc) (r : resolved) : bool :=
  match r_kind r, r_fname r with
  | RKNone 1, Some _ =>
      match ci_indices (snd t) with
      | [n] => (N.of_nat n =? r_ncards r) && in_main t r
      | _ => false
      end
  | RKNone 2, Some _ => is_nil (ci_indices (snd t)) && (r_ncards r =? 0)
  | _, _ => false
  end.

(* class 12: the error of a nested run surfaces at the CallNative card of a re-entrant native *)
Definition reentrant_names : list str :=
  [name_call0; name_call1; name_rb1; name_min; name_max; name_sort].
(* the items after the LAST (outermost) occurrence of [l] *)
Fixpoint after_loc (l : loc) (items : list (loc * bool)) : option (list (loc * bool)) :=
  match items with
  | [] => None
  | (l', _) :: rest =>
      match after_loc l rest with
      | Some r => Some r
      | None => if loc_eqb l l' then Some rest else None
      end
  end.
Definition nested_trace_dropped (c : chainspec) (e : err) (hd : loc * resolved) (tl : list (loc * resolved)) : bool :=
  match e, r_kind (snd hd) with
  | ETaskFailure n _, RKNative n' =>
      str_eqb n n' && existsb (str_eqb n) reentrant_names &&
      match c with
      | CExact items =>
          match after_loc (fst hd) items with
          | Some rest => chain_exact rest tl
          | None => false
          end
      | CFree => chain_free hd tl
      end
  | ETaskFailure n _, RKDyn _ =>
      (* the same, the re-entrant native having been called as a native function VALUE: the head is the DynamicCall
         card that called it *)
      existsb (str_eqb n) reentrant_names &&
      match c with
      | CExact items =>
          match after_loc (fst hd) items with
          | Some rest => chain_exact rest tl
          | None => false
          end
      | CFree => chain_free hd tl
      end
  | _, _ => false
  end.

Definition run_oracle (planted : option loc) (h : head) (c : chainspec) (e : err)
           (trace : list loc) (res : list resolved) : list N :=
  if negb (Nat.eqb (length trace) (length res)) then [3]
  else
    match zip trace res with
    | [] => [2]                                   (* no location at all *)
    | (t, r) :: tl =>
        if head_ok h planted t r && chain_ok c (t, r) tl then []
        else if strikes_anywhere e && function_level_head t r &&
                match h with HPlanted => false | _ => true end && chain_free (t, r) tl then [10]
        else if nested_trace_dropped c e (t, r) tl then [12]
        else [2]
    end.

Definition comp_oracle (planted : option loc) (l : option loc) (res : option resolved) : list N :=
  match planted with
  | Some p =>
      match l, res with
      | Some t, Some r =>
          if loc_eqb t p && opt_eqb N.eqb (r_self r) (Some 0) && resolves r then [] else [2]
      | _, _ => [2]
      end
  | None =>
      (* an error of the module, not of a card (bad import, duplicate name ...): the default location *)
      match l with
      | Some t => if loc_eqb t loc_default then [] else [2]
      | None => []
      end
  end.

(* ------------------------------------------------------------------ check1 *)
Definition cerr_eqb (a b : cerr) : bool :=
  match a, b with
  | ENoMain, ENoMain | EEmptyProgram, EEmptyProgram | ETooManyLocals, ETooManyLocals
  | EEmptyVariable, EEmptyVariable => true
  | ETooManyCards x, ETooManyCards y | ERecursionLimitReached x, ERecursionLimitReached y => x =? y
  | EDuplicateName x, EDuplicateName y | EDuplicateModule x, EDuplicateModule y
  | EInvalidJump x, EInvalidJump y | EBadFunctionName x, EBadFunctionName y
  | EBadImport x, EBadImport y | EAmbigousImport x, EAmbigousImport y
  | EBadVariableName x, EBadVariableName y => str_eqb x y
  | ESuperLimitReached, ESuperLimitReached | ETooManyUpvalues, ETooManyUpvalues => true
  | _, _ => false
  end.

Definition model_codes_run (debug : bool) (m : module) (budget : N) (e : err) (trace : list loc)
           (res : list resolved) : list N :=
  let r := compile_default debug m in
  (match predict_of debug r budget with
   | PErr e' t' => if err_eqb e e' && list_eqb loc_eqb trace t' then [] else [1]
   | PUnknown => [3]
   | _ => [1]
   end) ++
  (if kinds_agree m trace res then [] else [1]) ++
  (if trace_resolves_of m r then [] else [1]) ++
  (match r with COk B => if keys_increasing (Compiler.p_trace B) then [] else [1] | _ => [] end).

Definition model_codes_comp (debug : bool) (m : module) (e : cerr) (l : option loc) (res : option resolved) : list N :=
  (match compile_default debug m with
   | CErr e' l' => if cerr_eqb e e' && opt_eqb loc_eqb l l' then [] else [1]
   | _ => [1]
   end) ++
  (match l, res with
   | Some t, Some r => if rkind_eqb (model_kind m t) (r_kind r) then [] else [1]
   | None, None => []
   | _, _ => [3]
   end).

Definition check1 (c : c15case) : list N :=
  match c with
  | C15Run debug m budget planted h ch e trace res =>
      if negb (module_in_domain m) then [3]
      else
        (* a known-class code never hides a disagreement of the models on the same case *)
        match model_codes_run debug m budget e trace res with
        | [] => run_oracle planted h ch e trace res
        | mc => mc ++ filter (fun c => c <? 10) (run_oracle planted h ch e trace res)
        end
  | C15Comp debug m planted e l res =>
      if negb (module_in_domain m) then [3]
      else model_codes_comp debug m e l res ++ comp_oracle planted l res
  end.

Definition check_all := CheckUtil.check_all check1.
