(* C10: the executable side conditions of the full well-formedness theorem of the compiler model
   (CompilerFull.compile_wellformed).  Definitions only.

   [program_utf8]: the strings that the compiler copies into the data section - string literals,
   native function names, and the names of ReadVar / SetVar cards (their `.`-separated property
   shorthands become string literals) - are valid UTF-8.  True for every module built from Rust
   `String`s.
   [var_handles_collision_free n]: Handle::from_u32 is injective on the variable ids 0 .. n-1 (the keys
   of `variables.names`). *)
From Coq Require Import List NArith ZArith Bool.
From Cao Require Import ListUtil CheckUtil Bits CardAst Bytecode Compiler Wellformed.
Import ListNotations.
Local Open Scope N_scope.

Fixpoint card_utf8 (c : card) : bool :=
  match c with
  | CStringLiteral s | CNativeFunction s | CReadVar s => utf8_valid s
  | CSetVar name v => utf8_valid name && card_utf8 v
  | CBin _ a b => card_utf8 a && card_utf8 b
  | CUn _ a => card_utf8 a
  | CTri _ a b c => card_utf8 a && card_utf8 b && card_utf8 c
  | CCallNative _ args | CCall _ args | CComposite _ args | CArray args | CClosure _ args =>
      forallb card_utf8 args
  | CDynamicCall f args => card_utf8 f && forallb card_utf8 args
  | CSetGlobalVar _ v => card_utf8 v
  | CRepeat _ n b => card_utf8 n && card_utf8 b
  | CForEach _ _ _ it b => card_utf8 it && card_utf8 b
  | _ => true
  end.

Definition fir_utf8 (f : function_ir) : bool := forallb card_utf8 (fi_cards f).

(* on the flattened program (which includes the standard library, like [program_in_range]) *)
Definition program_utf8 (M : module) (o : options) : bool :=
  match into_ir_stream M (o_recursion_limit o) with
  | inr fs => forallb fir_utf8 fs
  | inl _ => true
  end.

(* 0, 1, .., n-1 *)
Fixpoint n_range (k : nat) : list N :=
  match k with
  | O => []
  | S k' => n_range k' ++ [N.of_nat k']
  end.
Definition var_handles_collision_free (n : nat) : bool :=
  nodup_N (map handle_from_u32 (n_range n)).

(* the same conditions stated on the module tree itself: every card of every function of M and of its
   submodules satisfies P.  [module_in_range M] = integer / float literals fit i64 / 64 bits and the
   strings copied into the data section are valid UTF-8; it implies program_in_range M o and
   program_utf8 M o for every o (CompilerFlatten.module_in_range_program). *)
Fixpoint module_all (P : card -> bool) (m : module) : bool :=
  match m with
  | Module subs funs _ =>
      forallb (fun nf => forallb P (f_cards (snd nf))) funs &&
      (fix go (l : list (str * module)) : bool :=
         match l with
         | [] => true
         | (_, sub) :: r => module_all P sub && go r
         end) subs
  end.
Definition module_in_range (M : module) : bool := module_all card_rng M && module_all card_utf8 M.
