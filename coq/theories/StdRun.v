(* Vocabulary for the statements of C09 about the reference semantics (definitions only):
   "the evaluation of task t from state s ends with r" for enough fuel, pure callbacks given by an
   oracle, well-formed tables, the functions of the std module as they sit in a program. *)
From Coq Require Import List NArith ZArith Bool Arith.
From Cao Require Import CheckUtil Bits CardAst Table Value StdlibGen RefSem StdSpec.
Import ListNotations.

(* the evaluation ends with r (which is not "out of fuel") for some fuel and step limit - and
   then for every larger fuel and limit (RefSemProofs.eval_fuel_monotone) *)
Definition runs (P : list fentry) (host : list str) (t : task) (s : state) (r : res) : Prop :=
  exists f l, eval P host l f t s = r /\ r <> RFuel.

(* s' is s after something that neither touched the heap, the globals nor the host log: it may
   have created variables (cells) and closures, and taken steps *)
Record extends (s s' : state) : Prop := {
  ext_heap : st_heap s' = st_heap s;
  ext_globals : st_globals s' = st_globals s;
  ext_log : st_log s' = st_log s;
  ext_cells : exists x, st_cells s' = st_cells s ++ x;
  ext_clos : exists x, st_clos s' = st_clos s ++ x }.

(* the callable value cbv is a PURE callback whose result is given by the oracle cb: called with
   any arguments in any state it returns cb args and leaves heap, globals and log as they were *)
Definition pure_cb (P : list fentry) (host : list str) (cbv : value) (cb : list value -> value) : Prop :=
  forall args s, exists s', runs P host (TkCallVal cbv args) s (ok [cb args] empty_env s') /\ extends s s'.

(* the same, demanded only for the argument lists that satisfy A (a key function is only ever
   called with two arguments) *)
Definition pure_cb_on (P : list fentry) (host : list str) (A : list value -> Prop) (cbv : value)
           (cb : list value -> value) : Prop :=
  forall args s, A args ->
    exists s', runs P host (TkCallVal cbv args) s (ok [cb args] empty_env s') /\ extends s s'.
Definition two_args (args : list value) : Prop := length args = 2.

(* tables as the language builds them: distinct keys, each a proper key value *)
Definition key_ok (k : tkey) : Prop := to_key (of_key k) = Some k.
Definition wf_table (tb : otable value) : Prop := NoDup (map fst tb) /\ Forall key_ok (map fst tb).

(* a value that does not point outside the heap h *)
Definition val_in_heap (h : list (otable value)) (v : value) : Prop :=
  match v with VTable q => q < length h | _ => True end.

Definition v_idx (i : nat) : value := VInt (Z.of_nat i).
Definition k_idx (i : nat) : tkey := KInt (Z.of_nat i).

(* the function [name] of the std module sits at index idx of the program *)
Definition std_fn (name : str) : option function := assoc name (m_functions std_module).
Definition has_std (P : list fentry) (idx : nat) (name : str) : Prop :=
  exists fe f, nth_error P idx = Some fe /\ std_fn name = Some f /\ fe_fn fe = f.

Definition s_filter : str := [102; 105; 108; 116; 101; 114]%N.
Definition s_map : str := [109; 97; 112]%N.
Definition s_any : str := [97; 110; 121]%N.

(* what the library answers for an optional row / key *)
Definition row_value_table (e : tkey * value) : otable value := row_table (of_key (fst e)) (snd e).
Definition opt_key_value (o : option tkey) : value := match o with Some k => of_key k | None => VNil end.
