(* Executable correspondence checker for C14: runs the model and the list specification on
   the operation history the harness ran against the implementation. *)
From Cao Require Export CheckUtil Stacks.
Local Open Scope N_scope.

Definition sv := option Z.
Definition sv_eqb : sv -> sv -> bool := opt_eqb Z.eqb.

Definition vpush (v : sv) : vop sv := VPush v.
Definition vset i (v : sv) : vop sv := VSet i v.
Definition vval (v : sv) : vout sv := OVal v.
Definition vvals (l : list sv) : vout sv := OVals l.
Definition vnat n : vout sv := ONat _ n.
Definition vtopo o : vout sv := OTop _ o.
Definition vpop : vop sv := VPop _.
Definition vpopn n : vop sv := VPopN _ n.
Definition vpopoff n : vop sv := VPopOff _ n.
Definition vget n : vop sv := VGet _ n.
Definition vlast : vop sv := VLast _.
Definition vpeek n : vop sv := VPeek _ n.
Definition vclear : vop sv := VClear _.
Definition vclearuntil n : vop sv := VClearUntil _ n.
Definition vlen : vop sv := VLen _.
Definition viter : vop sv := VIter _.
Definition vtop : vop sv := VTop _.
Definition vunit : vout sv := OUnit _.
Definition vfull : vout sv := OFull _.
Definition voob a b : vout sv := OOob _ a b.
(* the implementation panicked during this operation: an output that neither the model nor the specification ever
   produces (their OOob carries the capacity, which is >= 1), so the case gets codes 1 and 2 *)
Definition vpanicked : vout sv := OOob _ 0 0.

Definition vout_eqb (a b : vout sv) : bool :=
  match a, b with
  | OUnit _, OUnit _ => true
  | OFull _, OFull _ => true
  | OOob _ c i, OOob _ c' i' => Nat.eqb c c' && Nat.eqb i i'
  | OVal v, OVal v' => sv_eqb v v'
  | OVals l, OVals l' => list_eqb sv_eqb l l'
  | ONat _ n, ONat _ n' => Nat.eqb n n'
  | OTop _ o, OTop _ o' => opt_eqb Nat.eqb o o'
  | _, _ => false
  end.

Definition bpush (x : N) : bop N := BPush x.
Definition bsome (x : N) : bout N := BSome x.
Definition bnat n : bout N := BNat _ n.
Definition blist (l : list N) : bout N := BList l.
Definition bpop : bop N := BPop _.
Definition blast : bop N := BLast _.
Definition bclear : bop N := BClear _.
Definition blen : bop N := BLen _.
Definition biter : bop N := BIter _.
Definition biterback : bop N := BIterBack _.
Definition bok : bout N := BOk _.
Definition bfull : bout N := BFull _.
Definition bnone : bout N := BNone _.

Definition bout_eqb (a b : bout N) : bool :=
  match a, b with
  | BOk _, BOk _ => true
  | BFull _, BFull _ => true
  | BSome x, BSome y => N.eqb x y
  | BNone _, BNone _ => true
  | BNat _ n, BNat _ m => Nat.eqb n m
  | BList l, BList l' => list_eqb N.eqb l l'
  | _, _ => false
  end.

Inductive c14case :=
| VsCase (cap : nat) (ops : list (vop sv)) (obs : list (vout sv))
| BsCase (cap : nat) (ops : list (bop N)) (obs : list (bout N * list N)).

Definition check1 (c : c14case) : list N :=
  match c with
  | VsCase cap ops obs =>
      let m := snd (vs_run None (vs_new None cap) ops) in
      (if list_eqb vout_eqb m obs then [] else [1]) ++
      match sp_run None cap [] ops with
      | None => [3]
      | Some (_, outs) => if list_eqb vout_eqb outs obs then [] else [2]
      end
  | BsCase cap ops obs =>
      let e := list_eqb (pair_eqb bout_eqb (list_eqb N.eqb)) in
      (if e (snd (bs_run (bs_new N cap) ops)) obs then [] else [1]) ++
      (if e (snd (bsp_run cap [] ops)) obs then [] else [2])
  end.

Definition check_all := CheckUtil.check_all check1.
