(* C01, simulation, VM half for fragment F10 (C01SimDefs10: F9 plus calls as statement cards).  The development follows
   C01SimF9b; what is new is the JUNK: the values call statements leave on the stack above the locals of the running
   frame.  The part of the stack that belongs to the running frame is  lstack R ++ J  (locals, then junk); a call
   statement appends its value to J, the declaration of a local overwrites the lowest junk value (or extends the stack
   when there is none), everything else works above J.  [cont10 nb ... nb]: at a normal end the junk has grown by at most nb
   values (nb = njunk of the card).  At the end of a body the Pops remove as many values as there are locals - from the
   top, junk first -; what stays under the closing ScalarNil is cut by Return ([mid] in calls_ok9).
   The meaning of the calls is C01SimF9b.calls_ok9 (it is generic in the call semantics). *)
From Coq Require Import List NArith ZArith Bool Lia.
From Cao Require Import ListUtil CheckUtil Bits Stacks Bytecode Compiler CompilerProofs CompilerWf CompilerOk CompilerResolve CardAst.
From Cao Require Import Vm VmProofs C04VmProofs C01SimVm C01SimVmLocals C01SimDefs C01SimRef C01SimF1 C01SimDefs2 C01SimF2.
From Cao Require Import C01SimDefs4 C01SimDefs5 C01SimRef5 C01SimF5 C01SimVm9 C01SimDefs9 C01SimF9 C01SimF9b C01SimDefs10.
From Cao Require RefSem.
Import ListNotations.
Local Open Scope N_scope.

Arguments N.add : simpl never.
Arguments N.of_nat : simpl never.
Arguments N.to_nat : simpl never.

Lemma gsimple_app10 a b : gsimple (a ++ b) <-> gsimple a /\ gsimple b.
Proof. unfold gsimple. apply Forall_app. Qed.

Lemma upd_junk {A} (b l : list A) j0 J1 v : upd (b ++ l ++ j0 :: J1) (length b + length l) v = b ++ (l ++ [v]) ++ J1.
Proof.
  rewrite upd_app_r9. replace (length l) with (length l + 0)%nat by lia. rewrite upd_app_r9. cbn [upd].
  rewrite <- app_assoc. reflexivity.
Qed.

Section Run10b.
Variable F : fops.
Variable bld : build.
Variable P : program.
Variable T : list (N * N).
Variable names : list str.
Variable FT : ftab.

Hypothesis T_lt : forall h id, nm_find h T = Some id -> id < two32.
Hypothesis T_inj : forall h1 h2 id, nm_find h1 T = Some id -> nm_find h2 T = Some id -> h1 = h2.
Hypothesis names_inj : handles_inj names = true.
Hypothesis P_small : code_len P < 2147483648.

Notation seg' := (seg P).
Notation grel' := (grel T names).
Notation steps9' := (steps9 F bld P cap).
Notation names_ok l := (forall n, In n l -> In n names /\ nm_find (handle_of_bytes n) T <> None).
Notation fail9' := (fail9 F bld P).
Notation calls_ok9' := (calls_ok9 F bld P T names FT).

Section Body.
Variable cs : callsem9.
Variable sg : sig9.
Variable need dn : nat.
Hypothesis Hcalls : calls_ok9' cs sg need dn.
Variable below : list value.
Variable rest : list frame.
Hypothesis Hdn : (length rest + 1 + dn < call_stack_size)%nat.

Definition rhs_res10 (start : N) (R : lstore) (J : list value) (gv : list (option value)) (top : frame) (hp : heap) (endp : N)
           (res : option RefSem.value * gl) : Prop :=
  match res with
  | (Some v, g1) => exists k gv1 top1 hp1,
      steps9' k (start, below ++ lstack R ++ J, gv, top :: rest, hp)
                (endp, (below ++ lstack R ++ J) ++ [to_vm v], gv1, top1 :: rest, hp1) /\
      fr_off top1 = fr_off top /\ grel' g1 gv1 /\ gsimple g1 /\ simple v
  | (None, g1) => exists k c1,
      steps9' k (start, below ++ lstack R ++ J, gv, top :: rest, hp) c1 /\ fail9' c1 /\ grel' g1 (gl9 c1) /\ gsimple g1
  end.



(* a pure expression on the locals of the frame *)
Lemma expr_frame10 e pre R J g gv top hp :
  expr_f1 e = true -> seg' pre (code_expr5 T (lnames R) e) -> names_ok (expr_gnames (lnames R) e) ->
  N.to_nat (fr_off top) = length below -> (S (length below + length R + length J + depth e) < cap)%nat ->
  grel' g gv -> gsimple (R ++ g) ->
  match ev (R ++ g) e with
  | Some v => steps9' (length (code_expr5 T (lnames R) e)) (bytes pre, below ++ lstack R ++ J, gv, top :: rest, hp)
                      (bytes (pre ++ code_expr5 T (lnames R) e), (below ++ lstack R ++ J) ++ [to_vm v], gv, top :: rest, hp) /\
              simple v
  | None => exists k c1, steps9' k (bytes pre, below ++ lstack R ++ J, gv, top :: rest, hp) c1 /\ fail9' c1 /\ gl9 c1 = gv
  end.
Proof.
  intros He Hseg Hn Hoff Hroom Hrel Hsimp.
  pose proof (expr_f1_sim9 F bld P T names T_lt names_inj top rest hp e He pre (below ++ lstack R ++ J) R g gv Hseg Hn) as H.
  rewrite Hoff in H.
  specialize (H (holds9_lstack below R J) Hrel Hsimp ltac:(rewrite !app_length, lstack_length; lia)).
  destruct (ev (R ++ g) e) as [v|] eqn:Ev.
  - split; [apply (lift9 F bld P); exact H | eapply ev_simple; eauto].
  - destruct H as (k & c1 & nm & _ & A & B & C). destruct c1 as [[ip1 stk1] g1].
    exists k, (ip1, stk1, g1, top :: rest, hp). split; [apply (lift9 F bld P); exact A|].
    split; [exact (lift_err9 F bld P _ _ _ _ B) | exact C].
Qed.

Lemma rhs_pure10 e pre R J g gv top hp :
  expr_f1 e = true -> seg' pre (code_expr5 T (lnames R) e) -> names_ok (expr_gnames (lnames R) e) ->
  N.to_nat (fr_off top) = length below -> (S (length below + length R + length J + depth e) < cap)%nat ->
  grel' g gv -> gsimple (R ++ g) ->
  rhs_res10 (bytes pre) R J gv top hp (bytes (pre ++ code_expr5 T (lnames R) e)) (ev (R ++ g) e, g).
Proof.
  intros He Hseg Hn Hoff Hroom Hrel Hsimp.
  pose proof (expr_frame10 e pre R J g gv top hp He Hseg Hn Hoff Hroom Hrel Hsimp) as H.
  pose proof (proj2 (proj1 (gsimple_app10 R g) Hsimp)) as Hsg.
  unfold rhs_res10. destruct (ev (R ++ g) e) as [v|].
  - destruct H as [H Hv]. exists (length (code_expr5 T (lnames R) e)), gv, top, hp. auto.
  - destruct H as (k & c1 & A & B & C). exists k, c1. rewrite C. auto.
Qed.

Lemma rhs_sim10 r pre R J g gv top hp :
  rhs9 sg r = true -> seg' pre (code_rhs9 T FT (lnames R) r) -> names_ok (rhs_gnames9 (lnames R) r) ->
  N.to_nat (fr_off top) = length below -> (S (length below + length R + length J + rhs_depth9 r) + need < cap)%nat ->
  grel' g gv -> gsimple (R ++ g) ->
  rhs_res10 (bytes pre) R J gv top hp (bytes (pre ++ code_rhs9 T FT (lnames R) r)) (run_rhs9 cs R g r).
Proof.
  intros Hr Hseg Hn Hoff Hroom Hrel Hsimp.
  destruct r; try (apply rhs_pure10; solve [assumption | cbn [rhs_depth9] in Hroom; lia]); try discriminate Hr.
  (* CCall *)
  cbn [rhs9 code_rhs9 rhs_gnames9 rhs_depth9 run_rhs9] in *.
  apply andb_true_iff in Hr. destruct Hr as [Hargs Hsig].
  destruct (sm_find name sg) as [n|] eqn:Esg; [|discriminate Hsig]. apply Nat.eqb_eq in Hsig. subst n.
  destruct (Hcalls name _ Esg) as (h & pos & Eft & Hh & Hlab & Hcallee).
  rewrite Eft in *.
  pose proof (depth_args_len args) as Hda.
  assert (Har : N.of_nat (length args) mod two32 = N.of_nat (length args)).
  { apply N.mod_small. rewrite two32_eq. unfold cap, stack_size in Hroom. lia. }
  rewrite Har in *.
  set (ca := code_args9 T (lnames R) args) in *.
  pose proof (proj2 (proj1 (gsimple_app10 R g) Hsimp)) as Hsg.
  pose proof (args_sim9 F bld P T names T_lt names_inj top rest hp args Hargs pre (below ++ lstack R ++ J) R g gv
                (seg_app_l _ _ _ _ Hseg) Hn) as Ha.
  rewrite Hoff in Ha.
  specialize (Ha (holds9_lstack below R J) Hrel Hsimp ltac:(rewrite !app_length, lstack_length; lia)). fold ca in Ha.
  unfold rhs_res10.
  destruct (evs9 (R ++ g) args) as [vs|] eqn:Evs.
  - destruct Ha as [Ha Hlen]. apply (lift9 F bld P) in Ha.
    pose proof (evs9_simple _ _ _ Hsimp Evs) as Hvs.
    pose proof (seg_app_r _ _ _ _ Hseg) as Sfp. destruct (seg_cons9 P _ _ _ Sfp) as [Cfp Scf].
    pose proof (seg_instr _ _ _ _ Scf) as Ccf. rewrite bytes_snoc in Ccf. change (spanN (IFunctionPointer _ _)) with 9 in Ccf.
    set (ip := bytes (pre ++ ca)) in *.
    set (callee := mkFrame (ip + 9) (ip + 10) (N.of_nat (length (below ++ lstack R ++ J))) None).
    set (caller := mkFrame (fr_src top) (ip + 10) (fr_off top) (fr_clo top)).
    assert (Hend : bytes (pre ++ ca ++ [IFunctionPointer h (N.of_nat (length args)); ICallFunction]) = ip + 10).
    { unfold ip. rewrite !bytes_app. cbn [bytes]. change (spanN (IFunctionPointer _ _)) with 9. change (spanN ICallFunction) with 1. lia. }
    rewrite Hend.
    assert (Hlen' : length (map to_vm vs) = length args) by (rewrite map_length; exact Hlen).
    specialize (Hcallee vs g gv (below ++ lstack R ++ J) callee (caller :: rest) (hp ++ [OFun h (N.of_nat (length args))])
                  Hlen Hvs Hrel Hsg ltac:(cbn [fr_off callee]; apply Nat2N.id)
                  ltac:(rewrite !app_length, lstack_length; lia) ltac:(cbn [length]; lia)).
    assert (Hroom2 : (S (length ((below ++ lstack R ++ J) ++ map to_vm vs)) < cap)%nat)
      by (rewrite !app_length, lstack_length, Hlen'; lia).
    destruct (cs name vs g) as [[v|] g1].
    + destruct Hcallee as (k & gv' & fr' & hp' & ipr & mid & Hrun & Hfo & Hret & Hrel' & Hsg' & Hv).
      pose proof (call_return9g F bld P P_small ip h _ (below ++ lstack R ++ J) (map to_vm vs) gv top rest hp pos k ipr mid (to_vm v) gv' hp' fr'
                    Cfp Ccf Hh ltac:(rewrite Hlen'; reflexivity) ltac:(unfold cap, stack_size in Hroom; lia) Hroom2
                    ltac:(lia) Hlab Hrun Hfo Hret) as Hcr.
      eexists _, gv', caller, hp'. split; [eapply steps9_trans; [exact Ha | exact Hcr]|]. auto.
    + destruct Hcallee as (k & c1 & Hrun & Hfail & Hrel' & Hsg').
      pose proof (ex9_call F bld P cap ip h _ (below ++ lstack R ++ J) (map to_vm vs) gv top rest hp pos
                    Cfp Ccf Hh ltac:(rewrite Hlen'; reflexivity) ltac:(unfold cap, stack_size in Hroom; lia) Hroom2
                    ltac:(lia) Hlab) as Hcall.
      eexists _, c1. split; [eapply steps9_trans; [exact Ha | eapply steps9_trans; [exact Hcall | exact Hrun]]|]. auto.
  - destruct Ha as (k & c1 & nm & A & B & C). destruct c1 as [[ip1 stk1] g1]. cbn [snd] in C. subst g1.
    exists k, (ip1, stk1, gv, top :: rest, hp). split; [apply (lift9 F bld P); exact A|].
    split; [exact (lift_err9 F bld P _ _ _ _ B) | auto].
Qed.

(* ------------------------------------------------------------------ statements *)
Variable ret : bool.

Definition cont10 (nb : nat) (start : N) (R : lstore) (J : list value) (gv : list (option value)) (top : frame) (hp : heap) (endp : N)
           (out : out9) (R' : lstore) (g' : gl) : Prop :=
  gsimple (R' ++ g') /\
  match out with
  | ONorm9 => exists k gv' top' hp' J',
      steps9' k (start, below ++ lstack R ++ J, gv, top :: rest, hp) (endp, below ++ lstack R' ++ J', gv', top' :: rest, hp') /\
      fr_off top' = fr_off top /\ grel' g' gv' /\ (length J' <= length J + nb)%nat
  | ORet9 v => exists k gv' top' hp' ipr mid,
      steps9' k (start, below ++ lstack R ++ J, gv, top :: rest, hp) (ipr, below ++ mid ++ [to_vm v], gv', top' :: rest, hp') /\
      fr_off top' = fr_off top /\ code_at P ipr IReturn /\ grel' g' gv' /\ simple v
  | OErr9 => exists k c1, steps9' k (start, below ++ lstack R ++ J, gv, top :: rest, hp) c1 /\ fail9' c1 /\ grel' g' (gl9 c1)
  end.

(* a prefix that leaves the junk alone, resp. lets it grow by n1 *)
Lemma cont10_prepend_gen n1 nb k a b endp R J gv top hp R1 J1 gv1 top1 hp1 out R' g' :
  steps9' k (a, below ++ lstack R ++ J, gv, top :: rest, hp) (b, below ++ lstack R1 ++ J1, gv1, top1 :: rest, hp1) ->
  fr_off top1 = fr_off top -> (length J1 <= length J + n1)%nat ->
  cont10 nb b R1 J1 gv1 top1 hp1 endp out R' g' -> cont10 (n1 + nb) a R J gv top hp endp out R' g'.
Proof.
  intros Hst Hfo HJ [Hs H]. split; [exact Hs|]. destruct out.
  - destruct H as (k2 & gv' & top' & hp' & J' & H2 & Hf & Hr & Hl). exists (k + k2)%nat, gv', top', hp', J'.
    split; [eapply steps9_trans; eauto|]. split; [congruence | split; [exact Hr | lia]].
  - destruct H as (k2 & gv' & top' & hp' & ipr & mid & H2 & Hf & Hc & Hr & Hv). exists (k + k2)%nat, gv', top', hp', ipr, mid.
    split; [eapply steps9_trans; eauto|]. split; [congruence | auto].
  - destruct H as (k2 & c1 & H2 & He & Hr). exists (k + k2)%nat, c1. split; [eapply steps9_trans; eauto | auto].
Qed.
Lemma cont10_prepend nb k a b endp R J gv top hp gv1 top1 hp1 out R' g' :
  steps9' k (a, below ++ lstack R ++ J, gv, top :: rest, hp) (b, below ++ lstack R ++ J, gv1, top1 :: rest, hp1) ->
  fr_off top1 = fr_off top ->
  cont10 nb b R J gv1 top1 hp1 endp out R' g' -> cont10 nb a R J gv top hp endp out R' g'.
Proof. intros A B C. apply (cont10_prepend_gen 0 nb k a b endp R J gv top hp R J gv1 top1 hp1 out R' g' A B); [lia | exact C]. Qed.

Lemma cont10_weaken nb nb' a R J gv top hp endp out R' g' :
  (nb <= nb')%nat -> cont10 nb a R J gv top hp endp out R' g' -> cont10 nb' a R J gv top hp endp out R' g'.
Proof.
  intros Hle [Hs H]. split; [exact Hs|]. destruct out; [|exact H|exact H].
  destruct H as (k & gv' & top' & hp' & J' & H2 & Hf & Hr & Hl). exists k, gv', top', hp', J'. repeat split; auto. lia.
Qed.

Lemma cont10_done nb a R J g gv top hp : gsimple (R ++ g) -> grel' g gv -> cont10 nb a R J gv top hp a ONorm9 R g.
Proof. intros Hs Hr. split; [exact Hs|]. exists 0%nat, gv, top, hp, J. split; [constructor|]. repeat split; auto. lia. Qed.

(* a normal end continues with a jump *)
Lemma cont10_goto nb a R J gv top hp mid endp out R' g' :
  cont10 nb a R J gv top hp mid out R' g' -> code_at P mid (IGoto (u32_to_i32 endp)) -> endp < 2147483648 ->
  cont10 nb a R J gv top hp endp out R' g'.
Proof.
  intros [Hs H] Hc Hsmall. split; [exact Hs|]. destruct out; [|exact H|exact H].
  destruct H as (k & gv' & top' & hp' & J' & H2 & Hf & Hr & Hl). exists (k + 1)%nat, gv', top', hp', J'.
  split; [|auto]. eapply steps9_trans; [exact H2|]. apply steps9_1. apply exec1_exec9.
  apply (@ex_goto F bld P cap (top' :: rest) hp' None [] _ endp (below ++ lstack R' ++ J') gv' Hc Hsmall).
Qed.

Lemma cond_sim10 e pre (jump_if : bool) tgt restc R J g gv top hp :
  expr_f1 e = true ->
  seg' pre (code_expr5 T (lnames R) e ++ (if jump_if then IGotoIfTrue else IGotoIfFalse) (u32_to_i32 tgt) :: restc) ->
  tgt < 2147483648 -> names_ok (expr_gnames (lnames R) e) ->
  N.to_nat (fr_off top) = length below -> (S (length below + length R + length J + depth e) < cap)%nat ->
  grel' g gv -> gsimple (R ++ g) ->
  match ev (R ++ g) e with
  | Some v => steps9' (length (code_expr5 T (lnames R) e) + 1) (bytes pre, below ++ lstack R ++ J, gv, top :: rest, hp)
       (if Bool.eqb (RefSem.v_bool [] v) jump_if then tgt else bytes pre + bytes (code_expr5 T (lnames R) e) + 5,
        below ++ lstack R ++ J, gv, top :: rest, hp)
  | None => exists k c1, steps9' k (bytes pre, below ++ lstack R ++ J, gv, top :: rest, hp) c1 /\ fail9' c1 /\ gl9 c1 = gv
  end.
Proof.
  intros He Hseg Htgt Hn Hoff Hd Hrel Hsimp. destruct (seg_mid P _ _ _ _ Hseg) as (Se & Hc & _).
  pose proof (expr_frame10 e pre R J g gv top hp He Se Hn Hoff Hd Hrel Hsimp) as Hex.
  destruct (ev (R ++ g) e) as [v|] eqn:Ev; [|exact Hex]. destruct Hex as [Hex Hv].
  eapply steps9_trans; [exact Hex|]. apply steps9_1. apply exec1_exec9.
  pose proof (@ex_goto_if F bld P cap (top :: rest) hp None [] jump_if (bytes (pre ++ code_expr5 T (lnames R) e)) tgt
                (below ++ lstack R ++ J) (to_vm v) (RefSem.v_bool [] v) gv Hc Htgt (vm_not F hp v Hv)) as X.
  rewrite bytes_app in X. rewrite bytes_app. exact X.
Qed.

Definition stmt_sim10 (c : card) : Prop :=
  forall R g out R' g', stmt10 sg ret (lnames R) c = true -> run10 cs R g c = (out, R', g') ->
  forall pre J gv top hp,
    seg' pre (code10 T FT (lnames R) (bytes pre) c) -> names_ok (stmt_gnames10 (lnames R) c) ->
    N.to_nat (fr_off top) = length below ->
    (S (length below + length R + length J + stmt_depth10 c) + need < cap)%nat -> grel' g gv -> gsimple (R ++ g) ->
    cont10 (njunk c) (bytes pre) R J gv top hp (bytes (pre ++ code10 T FT (lnames R) (bytes pre) c)) out R' g' /\ lnames R' = lnames R.

Lemma if1_sim10 (jump_if : bool) e b R g out R' g' pre J gv top hp :
  stmt_sim10 b -> expr_f1 e = true -> stmt10 sg ret (lnames R) b = true ->
  let ce := code_expr5 T (lnames R) e in
  let cb := code10 T FT (lnames R) (bytes pre + bytes ce + 5) b in
  let tgt := bytes pre + bytes ce + 5 + bytes cb in
  let JI := (if jump_if then IGotoIfTrue else IGotoIfFalse) (u32_to_i32 tgt) in
  (match ev (R ++ g) e with
   | None => (OErr9, R, g)
   | Some v => if Bool.eqb (RefSem.v_bool [] v) jump_if then (ONorm9, R, g) else run10 cs R g b
   end) = (out, R', g') ->
  seg' pre (ce ++ JI :: cb) -> names_ok (expr_gnames (lnames R) e ++ stmt_gnames10 (lnames R) b) ->
  N.to_nat (fr_off top) = length below ->
  (S (length below + length R + length J + Nat.max (depth e) (stmt_depth10 b)) + need < cap)%nat -> grel' g gv -> gsimple (R ++ g) ->
  cont10 (njunk b) (bytes pre) R J gv top hp (bytes (pre ++ ce ++ JI :: cb)) out R' g' /\ lnames R' = lnames R.
Proof.
  intros IHb He Hb ce cb tgt JI Hrun Hseg Hn Hoff Hroom Hrel Hsimp.
  assert (HJ : spanN JI = 5) by (unfold JI; destruct jump_if; reflexivity).
  assert (Hend : bytes (pre ++ ce ++ JI :: cb) = tgt).
  { rewrite !bytes_app. cbn [bytes]. rewrite HJ. unfold tgt. lia. }
  assert (Hsmall : tgt < 2147483648) by (pose proof (seg_bound P P_small _ _ Hseg) as Hb'; rewrite Hend in Hb'; lia).
  assert (Hne : names_ok (expr_gnames (lnames R) e)) by (intros x Hx; apply Hn, in_or_app; auto).
  assert (Hnb : names_ok (stmt_gnames10 (lnames R) b)) by (intros x Hx; apply Hn, in_or_app; auto).
  pose proof (cond_sim10 e pre jump_if tgt cb R J g gv top hp He Hseg Hsmall Hne Hoff ltac:(lia) Hrel Hsimp) as Hcond.
  fold ce in Hcond.
  destruct (ev (R ++ g) e) as [v|] eqn:Ev.
  - destruct (Bool.eqb (RefSem.v_bool [] v) jump_if) eqn:Eb.
    + injection Hrun as <- <- <-. split; [|reflexivity]. rewrite Hend.
      eapply cont10_prepend; [exact Hcond | reflexivity | apply cont10_done; assumption].
    + destruct (seg_mid P _ _ _ _ Hseg) as (_ & _ & Sb).
      assert (Hpre' : bytes (pre ++ ce ++ [JI]) = bytes pre + bytes ce + 5).
      { rewrite !bytes_app. cbn [bytes]. rewrite HJ. lia. }
      destruct (IHb R g out R' g' Hb Hrun (pre ++ ce ++ [JI]) J gv top hp ltac:(rewrite Hpre'; exact Sb) Hnb Hoff ltac:(lia) Hrel Hsimp)
        as [Hbody Hl].
      rewrite Hpre' in Hbody. fold cb in Hbody. rewrite <- !app_assoc in Hbody. cbn [app] in Hbody.
      split; [|exact Hl]. eapply cont10_prepend; [exact Hcond | reflexivity | exact Hbody].
  - injection Hrun as <- <- <-. split; [|reflexivity]. destruct Hcond as (k & c1 & A & B & C).
    split; [exact Hsimp|]. exists k, c1. rewrite C. auto.
Qed.

Lemma rhs_err_cont10 nb a R J gv top hp e g1 endp :
  rhs_res10 a R J gv top hp e (None, g1) -> gsimple R -> cont10 nb a R J gv top hp endp OErr9 R g1.
Proof.
  intros (k & c1 & A & B & C & D) HR. split; [apply gsimple_app10; auto|]. exists k, c1. auto.
Qed.

Lemma stmt_sim10_all c : stmt_sim10 c.
Proof.
  induction c; try (intros R g out R' g' Hc; cbn [stmt10] in Hc; discriminate Hc);
    intros R g out R' g' Hc Hrun pre J gv top hp Hseg Hnames Hoff Hroom Hrel Hsimp; cbn [stmt10] in Hc;
    pose proof (proj1 (gsimple_app10 R g) Hsimp) as [HsR Hsg].
  - (* CBin: IfTrue, IfFalse *)
    destruct op; try discriminate Hc; apply andb_true_iff in Hc; destruct Hc as [He Hb];
      cbn [run10 code10 stmt_gnames10 stmt_depth10] in *; cbv zeta in *.
    + apply (if1_sim10 false c1 c2 R g out R' g' pre J gv top hp IHc2 He Hb); try assumption.
      etransitivity; [|exact Hrun]. destruct (ev (R ++ g) c1) as [v|]; [destruct (RefSem.v_bool [] v)|]; reflexivity.
    + apply (if1_sim10 true c1 c2 R g out R' g' pre J gv top hp IHc2 He Hb); try assumption.
      etransitivity; [|exact Hrun]. destruct (ev (R ++ g) c1) as [v|]; [destruct (RefSem.v_bool [] v)|]; reflexivity.
  - (* CUn UReturn *)
    destruct op; try discriminate Hc. apply andb_true_iff in Hc. destruct Hc as [_ Hr].
    cbn [run10 code10 stmt_gnames10 stmt_depth10] in *.
    set (cr := code_rhs9 T FT (lnames R) c) in *.
    pose proof (rhs_sim10 c pre R J g gv top hp Hr (seg_app_l _ _ _ _ Hseg) Hnames Hoff Hroom Hrel Hsimp) as Hrhs. fold cr in Hrhs.
    destruct (run_rhs9 cs R g c) as [[v|] g1]; injection Hrun as <- <- <-; (split; [|reflexivity]).
    + destruct Hrhs as (k & gv1 & top1 & hp1 & Hst & Hfo & Hrel1 & Hsg1 & Hv).
      split; [apply gsimple_app10; auto|]. exists k, gv1, top1, hp1, (bytes (pre ++ cr)), (lstack R ++ J).
      rewrite <- !app_assoc in Hst. rewrite <- !app_assoc. split; [exact Hst|]. split; [exact Hfo|].
      split; [exact (seg_instr _ _ _ _ (seg_app_r _ _ _ _ Hseg)) | auto].
    + eapply rhs_err_cont10; eauto.
  - (* CTri IfElse *)
    destruct op; try discriminate Hc. apply andb_true_iff in Hc. destruct Hc as [Hc Hb].
    apply andb_true_iff in Hc. destruct Hc as [He Ha].
    cbn [run10 code10 stmt_gnames10 stmt_depth10] in *; cbv zeta in *.
    set (ce := code_expr5 T (lnames R) c1) in *.
    set (ca := code10 T FT (lnames R) (bytes pre + bytes ce + 5) c2) in *.
    set (else_at := bytes pre + bytes ce + 5 + bytes ca + 5) in *.
    set (cb := code10 T FT (lnames R) else_at c3) in *.
    set (jf := IGotoIfFalse (u32_to_i32 else_at)) in *.
    set (jg := IGoto (u32_to_i32 (else_at + bytes cb))) in *.
    assert (Hend : bytes (pre ++ ce ++ jf :: ca ++ jg :: cb) = else_at + bytes cb).
    { rewrite !bytes_app. cbn [bytes]. rewrite bytes_app. cbn [bytes].
      change (spanN jf) with 5. change (spanN jg) with 5. unfold else_at. lia. }
    assert (Hsmall : else_at + bytes cb < 2147483648) by (pose proof (seg_bound P P_small _ _ Hseg) as Hb'; rewrite Hend in Hb'; lia).
    assert (Hne : names_ok (expr_gnames (lnames R) c1)) by (intros x Hx; apply Hnames, in_or_app; auto).
    assert (Hna : names_ok (stmt_gnames10 (lnames R) c2)) by (intros x Hx; apply Hnames, in_or_app; right; apply in_or_app; auto).
    assert (Hnb : names_ok (stmt_gnames10 (lnames R) c3)) by (intros x Hx; apply Hnames, in_or_app; right; apply in_or_app; auto).
    destruct (seg_mid P _ _ _ _ Hseg) as (_ & _ & Srest).
    destruct (seg_mid P _ _ _ _ Srest) as (Sa & Hcg & Sb).
    assert (Hpre1 : bytes (pre ++ ce ++ [jf]) = bytes pre + bytes ce + 5).
    { rewrite !bytes_app. cbn [bytes]. change (spanN jf) with 5. lia. }
    assert (Hpre2 : bytes ((pre ++ ce ++ [jf]) ++ ca ++ [jg]) = else_at).
    { rewrite bytes_app, Hpre1, bytes_app. cbn [bytes]. change (spanN jg) with 5. unfold else_at. lia. }
    pose proof (cond_sim10 c1 pre false else_at (ca ++ jg :: cb) R J g gv top hp He Hseg ltac:(lia) Hne Hoff ltac:(lia) Hrel Hsimp) as Hcond.
    fold ce in Hcond.
    destruct (ev (R ++ g) c1) as [v|] eqn:Ev.
    + destruct (RefSem.v_bool [] v) eqn:Ebv; cbn [Bool.eqb] in Hcond.
      * destruct (IHc2 R g out R' g' Ha Hrun (pre ++ ce ++ [jf]) J gv top hp ltac:(rewrite Hpre1; exact Sa) Hna Hoff ltac:(lia) Hrel Hsimp)
          as [Hbody Hl].
        rewrite Hpre1 in Hbody. fold ca in Hbody. split; [|exact Hl]. rewrite Hend.
        cbn [njunk]. apply (cont10_weaken (njunk c2)); [lia|].
        eapply cont10_prepend; [exact Hcond | reflexivity|].
        eapply cont10_goto; [exact Hbody | | exact Hsmall].
        rewrite bytes_app, Hpre1. rewrite bytes_app, Hpre1 in Hcg. exact Hcg.
      * destruct (IHc3 R g out R' g' Hb Hrun ((pre ++ ce ++ [jf]) ++ ca ++ [jg]) J gv top hp ltac:(rewrite Hpre2; exact Sb) Hnb Hoff
                    ltac:(lia) Hrel Hsimp) as [Hbody Hl].
        rewrite Hpre2 in Hbody. fold cb in Hbody.
        replace (((pre ++ ce ++ [jf]) ++ ca ++ [jg]) ++ cb) with (pre ++ ce ++ jf :: ca ++ jg :: cb) in Hbody
          by (rewrite <- ?app_assoc; cbn [app]; rewrite <- ?app_assoc; cbn [app]; reflexivity).
        split; [|exact Hl]. cbn [njunk]. apply (cont10_weaken (njunk c3)); [lia|].
        eapply cont10_prepend; [exact Hcond | reflexivity | exact Hbody].
    + injection Hrun as <- <- <-. split; [|reflexivity]. destruct Hcond as (k & c1' & A & B & C).
      split; [exact Hsimp|]. exists k, c1'. rewrite C. auto.
  - (* CCall: the value stays on the stack, above the junk that is there *)
    cbn [run10 code10 stmt_gnames10 stmt_depth10] in *.
    pose proof (rhs_sim10 (CCall name args) pre R J g gv top hp Hc Hseg Hnames Hoff Hroom Hrel Hsimp) as Hrhs.
    destruct (run_rhs9 cs R g (CCall name args)) as [[v|] g1]; injection Hrun as <- <- <-; (split; [|reflexivity]).
    + destruct Hrhs as (k & gv1 & top1 & hp1 & Hst & Hfo & Hrel1 & Hsg1 & Hv).
      split; [apply gsimple_app10; auto|]. exists k, gv1, top1, hp1, (J ++ [to_vm v]).
      rewrite <- !app_assoc in Hst. split; [exact Hst|]. repeat split; auto. rewrite app_length. cbn [length njunk]. lia.
    + eapply rhs_err_cont10; eauto.
  - (* CSetGlobalVar *)
    apply andb_true_iff in Hc. destruct Hc as [_ Hr].
    cbn [run10 code10 stmt_gnames10 stmt_depth10] in *.
    set (cr := code_rhs9 T FT (lnames R) c) in *.
    assert (Hnr : names_ok (rhs_gnames9 (lnames R) c)) by (intros x Hx; apply Hnames, in_or_app; auto).
    destruct (Hnames name) as [Hgin Hgfound]; [apply in_or_app; right; left; reflexivity|].
    pose proof (rhs_sim10 c pre R J g gv top hp Hr (seg_app_l _ _ _ _ Hseg) Hnr Hoff Hroom Hrel Hsimp) as Hrhs. fold cr in Hrhs.
    destruct (run_rhs9 cs R g c) as [[v|] g1]; injection Hrun as <- <- <-; (split; [|reflexivity]).
    + destruct Hrhs as (k & gv1 & top1 & hp1 & Hst & Hfo & Hrel1 & Hsg1 & Hv).
      unfold idT in *. destruct (nm_find (handle_of_bytes name) T) as [id|] eqn:Eid; [|congruence].
      assert (Hid : id < 4294967296) by (rewrite <- two32_eq; eapply T_lt; eauto).
      pose proof (seg_instr _ _ _ _ (seg_app_r _ _ _ _ Hseg)) as Hci.
      pose proof (@ex_set_global F bld P cap (top1 :: rest) hp1 None [] _ id (below ++ lstack R ++ J) (to_vm v) gv1 Hci Hid) as Hset.
      split; [apply gsimple_app10; split; [exact HsR | apply set_assoc_simple; assumption]|].
      exists (k + 1)%nat, (gset gv1 id (to_vm v)), top1, hp1, J. split; [|split; [exact Hfo | split; [apply grel_set; auto | lia]]].
      eapply steps9_trans; [exact Hst|]. apply steps9_1.
      rewrite (app_assoc pre), bytes_snoc. change (spanN (ISetGlobalVar id)) with 5. apply exec1_exec9. exact Hset.
    + eapply rhs_err_cont10; eauto.
  - (* CSetVar of an existing local *)
    apply andb_true_iff in Hc. destruct Hc as [Hc Hr]. apply andb_true_iff in Hc. destruct Hc as [Hx Hm].
    cbn [run10 code10 stmt_gnames10 stmt_depth10] in *.
    set (cr := code_rhs9 T FT (lnames R) c) in *.
    pose proof (rhs_sim10 c pre R J g gv top hp Hr (seg_app_l _ _ _ _ Hseg) Hnames Hoff Hroom Hrel Hsimp) as Hrhs. fold cr in Hrhs.
    destruct (lmem_some _ _ Hm) as [old Eold].
    destruct (slot_local name R old Eold) as (i & Hi & Hlt & _ & Hupd).
    destruct (run_rhs9 cs R g c) as [[v|] g1]; injection Hrun as <- <- <-.
    + destruct Hrhs as (k & gv1 & top1 & hp1 & Hst & Hfo & Hrel1 & Hsg1 & Hv).
      unfold sets_local. change (map fst R) with (lnames R). rewrite Hm.
      destruct (Hupd v) as [Hu Hl]. split; [|exact Hl].
      unfold set_slot in *. rewrite Hi in *.
      pose proof (seg_instr _ _ _ _ (seg_app_r _ _ _ _ Hseg)) as Hci.
      assert (Hi32 : N.of_nat i < 4294967296) by (rewrite lstack_length in Hlt; unfold cap, stack_size in *; lia).
      pose proof (ex9_set_local F bld P cap _ (N.of_nat i) (below ++ lstack R ++ J) (to_vm v) gv1 top1 rest hp1 Hci Hi32) as Hset.
      rewrite Hfo, Hoff, Nat2N.id in Hset. specialize (Hset ltac:(rewrite !app_length; lia)).
      rewrite upd_app_r9, upd_app_l', Hu in Hset by exact Hlt.
      split; [apply gsimple_app10; split; [apply set_assoc_simple; assumption | exact Hsg1]|].
      exists (k + 1)%nat, gv1, top1, hp1, J. split; [|repeat split; auto; lia].
      eapply steps9_trans; [exact Hst|]. apply steps9_1.
      rewrite (app_assoc pre), bytes_snoc. change (spanN (ISetLocalVar _)) with 5. exact Hset.
    + split; [|reflexivity]. eapply rhs_err_cont10; eauto.
Qed.

(* ------------------------------------------------------------------ the cards of a function body *)
Lemma cont10_endp nb nb' a R J gv top hp e1 e2 out R' g' :
  out <> ONorm9 -> cont10 nb a R J gv top hp e1 out R' g' -> cont10 nb' a R J gv top hp e2 out R' g'.
Proof. intros Ho [Hs H]. split; [exact Hs|]. destruct out; [congruence | exact H | exact H]. Qed.

Lemma top_sim10 c R g out R' g' :
  top10 sg ret (lnames R) c = true -> run10 cs R g c = (out, R', g') ->
  forall pre J gv top hp,
    seg' pre (code10 T FT (lnames R) (bytes pre) c) -> names_ok (stmt_gnames10 (lnames R) c) ->
    N.to_nat (fr_off top) = length below ->
    (S (S (length below + length R + length J) + stmt_depth10 c) + need < cap)%nat -> grel' g gv -> gsimple (R ++ g) ->
    cont10 (njunk c) (bytes pre) R J gv top hp (bytes (pre ++ code10 T FT (lnames R) (bytes pre) c)) out R' g' /\
    (out = ONorm9 -> lnames R' = names_next (lnames R) c).
Proof.
  intros Hc Hrun pre J gv top hp Hseg Hnames Hoff Hroom Hrel Hsimp.
  assert (Hstmt : stmt10 sg ret (lnames R) c = true -> names_next (lnames R) c = lnames R ->
                  cont10 (njunk c) (bytes pre) R J gv top hp (bytes (pre ++ code10 T FT (lnames R) (bytes pre) c)) out R' g' /\
                  (out = ONorm9 -> lnames R' = names_next (lnames R) c)).
  { intros H9 Hnx. destruct (stmt_sim10_all c R g out R' g' H9 Hrun pre J gv top hp Hseg Hnames Hoff ltac:(lia) Hrel Hsimp) as [A B].
    split; [exact A|]. intros _. rewrite Hnx. exact B. }
  destruct c; try (apply Hstmt; [exact Hc | reflexivity]).
  cbn [top10] in Hc. apply andb_true_iff in Hc. destruct Hc as [Hx Hr].
  destruct (lmem name (lnames R)) eqn:Hm.
  - apply Hstmt; [cbn [stmt10]; rewrite Hx, Hm, Hr; reflexivity | cbn [names_next]; rewrite Hm; reflexivity].
  - (* the declaration *)
    cbn [run10 code10 stmt_gnames10 stmt_depth10 names_next] in *. rewrite Hm.
    pose proof (proj1 (gsimple_app10 R g) Hsimp) as [HsR Hsg].
    set (cr := code_rhs9 T FT (lnames R) c) in *.
    pose proof (rhs_sim10 c pre R J g gv top hp Hr (seg_app_l _ _ _ _ Hseg) Hnames Hoff ltac:(lia) Hrel Hsimp) as Hrhs. fold cr in Hrhs.
    destruct (lmem_none _ _ Hm) as [_ Hs]. unfold set_slot in *. rewrite Hs in *.
    destruct (run_rhs9 cs R g c) as [[v|] g1]; injection Hrun as <- <- <-.
    + destruct Hrhs as (k & gv1 & top1 & hp1 & Hst & Hfo & Hrel1 & Hsg1 & Hv).
      unfold sets_local. change (map fst R) with (lnames R). rewrite Hm.
      split; [|intros _; reflexivity].
      pose proof (seg_instr _ _ _ _ (seg_app_r _ _ _ _ Hseg)) as Hci. rewrite lnames_length in *.
      assert (Hi32 : N.of_nat (length R) < 4294967296) by (unfold cap, stack_size in *; lia).
      split; [cbn [app]; constructor; [exact Hv | apply gsimple_app10; auto]|].
      destruct J as [|j0 J1].
      * pose proof (ex9_set_local_decl F bld P P_small _ (N.of_nat (length R)) (below ++ lstack R) (to_vm v) gv1 top1 rest hp1 Hci Hi32) as Hset.
        rewrite Hfo, Hoff, Nat2N.id in Hset.
        specialize (Hset ltac:(rewrite !app_length, lstack_length; lia)
                         ltac:(rewrite !app_length, lstack_length; cbn [length] in Hroom; lia)).
        exists (k + 1)%nat, gv1, top1, hp1, (@nil value). split; [|repeat split; auto; cbn [length]; lia].
        eapply steps9_trans; [exact Hst|]. apply steps9_1.
        rewrite (app_assoc pre), bytes_snoc. change (spanN (ISetLocalVar _)) with 5.
        rewrite lstack_cons, !app_nil_r. rewrite app_assoc. exact Hset.
      * pose proof (ex9_set_local F bld P cap _ (N.of_nat (length R)) (below ++ lstack R ++ j0 :: J1) (to_vm v) gv1 top1 rest hp1 Hci Hi32) as Hset.
        rewrite Hfo, Hoff, Nat2N.id in Hset.
        specialize (Hset ltac:(rewrite !app_length, lstack_length; cbn [length]; lia)).
        rewrite <- (lstack_length R), upd_junk in Hset.
        exists (k + 1)%nat, gv1, top1, hp1, J1. split; [|repeat split; auto; cbn [length]; lia].
        eapply steps9_trans; [exact Hst|]. apply steps9_1.
        rewrite (app_assoc pre), bytes_snoc. change (spanN (ISetLocalVar _)) with 5.
        rewrite lstack_cons. exact Hset.
    + split; [|discriminate]. eapply rhs_err_cont10; eauto.
Qed.

Lemma body_sim10 : forall cards R g out R' g',
  cards10 sg ret (lnames R) cards = true -> runs10 cs R g cards = (out, R', g') ->
  forall pre J gv top hp,
    seg' pre (code_top10 T FT (lnames R) (bytes pre) cards) -> names_ok (top_gnames10 (lnames R) cards) ->
    N.to_nat (fr_off top) = length below ->
    (forall c, In c cards -> (S (S (length below + length (names_end (lnames R) cards) + length J + njunks cards) + stmt_depth10 c) + need < cap)%nat) ->
    grel' g gv -> gsimple (R ++ g) ->
    cont10 (njunks cards) (bytes pre) R J gv top hp (bytes (pre ++ code_top10 T FT (lnames R) (bytes pre) cards)) out R' g' /\
    (out = ONorm9 -> lnames R' = names_end (lnames R) cards).
Proof.
  induction cards as [|c r IH]; intros R g out R' g' Hc Hrun pre J gv top hp Hseg Hnames Hoff Hd Hrel Hsimp.
  - cbn [runs10] in Hrun. injection Hrun as <- <- <-. cbn [code_top10 names_end]. rewrite app_nil_r.
    split; [apply cont10_done; assumption | reflexivity].
  - cbn [cards10] in Hc. apply andb_true_iff in Hc. destruct Hc as [Hc Hcr].
    cbn [runs10 code_top10 top_gnames10 names_end] in *. cbv zeta in *. change (njunks (c :: r)) with (njunk c + njunks r)%nat in *.
    set (cc := code10 T FT (lnames R) (bytes pre) c) in *.
    assert (Hnc : names_ok (stmt_gnames10 (lnames R) c)) by (intros x Hx; apply Hnames, in_or_app; auto).
    assert (Hnr : names_ok (top_gnames10 (names_next (lnames R) c) r)) by (intros x Hx; apply Hnames, in_or_app; auto).
    assert (Eb : bytes (pre ++ cc) = bytes pre + bytes cc) by apply bytes_app.
    pose proof (names_end_length9 r (names_next (lnames R) c)) as Hlen1.
    pose proof (names_next_length9 (lnames R) c) as Hlen0. rewrite lnames_length in Hlen0.
    assert (Hdc : (S (S (length below + length R + length J) + stmt_depth10 c) + need < cap)%nat).
    { specialize (Hd c (or_introl eq_refl)). lia. }
    destruct (run10 cs R g c) as [[o1 R1] g1] eqn:E1.
    destruct (top_sim10 c R g o1 R1 g1 Hc E1 pre J gv top hp (seg_app_l _ _ _ _ Hseg) Hnc Hoff Hdc Hrel Hsimp) as [H1 Hl1].
    fold cc in H1.
    destruct o1.
    + destruct H1 as [Hs1 (k1 & gv1 & top1 & hp1 & J1 & Hst1 & Hfo1 & Hr1 & HJ1)]. specialize (Hl1 eq_refl).
      destruct (IH R1 g1 out R' g' ltac:(rewrite Hl1; exact Hcr) Hrun (pre ++ cc) J1 gv1 top1 hp1
                   ltac:(rewrite Hl1, Eb; apply seg_app_r; exact Hseg) ltac:(rewrite Hl1; exact Hnr)
                   ltac:(rewrite Hfo1; exact Hoff)
                   ltac:(rewrite Hl1; intros c0 H0; specialize (Hd c0 (or_intror H0)); lia) Hr1 Hs1) as [H2 Hl2].
      rewrite Hl1, Eb in H2. rewrite <- app_assoc in H2. split; [|rewrite Hl1 in Hl2; exact Hl2].
      rewrite Eb in Hst1. eapply cont10_prepend_gen; [exact Hst1 | exact Hfo1 | exact HJ1 | exact H2].
    + injection Hrun as <- <- <-. split; [|discriminate]. eapply cont10_endp; [discriminate | exact H1].
    + injection Hrun as <- <- <-. split; [|discriminate]. eapply cont10_endp; [discriminate | exact H1].
Qed.

(* one Pop per local of the frame *)
Lemma pops10 l : forall pre gv calls hp,
  seg' pre (repeat IPop (length l)) ->
  steps9' (length l) (bytes pre, below ++ l, gv, calls, hp) (bytes (pre ++ repeat IPop (length l)), below, gv, calls, hp).
Proof.
  induction l as [|v l IH] using rev_ind; intros pre gv calls hp Hseg.
  - cbn [length repeat]. rewrite !app_nil_r. constructor.
  - rewrite app_length in *. cbn [length] in *. rewrite Nat.add_1_r in *. cbn [repeat] in *.
    pose proof (seg_instr _ _ _ _ Hseg) as Hc.
    change (IPop :: repeat IPop (length l)) with ([IPop] ++ repeat IPop (length l)) in Hseg.
    apply seg_app_r in Hseg.
    econstructor.
    { apply exec1_exec9. rewrite app_assoc. apply (@ex_pop F bld P cap calls hp None [] (bytes pre) (below ++ l) v gv Hc). }
    specialize (IH (pre ++ [IPop]) gv calls hp Hseg). rewrite bytes_snoc in IH. change (spanN IPop) with 1 in IH.
    rewrite <- app_assoc in IH. exact IH.
Qed.

End Body.

(* ------------------------------------------------------------------ functions *)
Definition need_fs10 (fs : list (str * function)) : nat :=
  fold_right (fun nf m => frame_need10 (snd nf) + m)%nat 0%nat fs.

(* where the functions are: the handle the call sites use, the label, the code, the global names *)
Fixpoint placed10 (fs : list (str * function)) : Prop :=
  match fs with
  | [] => True
  | (n, f) :: r =>
      (exists h pre, sm_find n FT = Some (h, N.of_nat (length (f_args f)) mod two32) /\ h < 4294967296 /\
                     assoc h (p_labels P) = Some (bytes pre) /\ seg' pre (code_fn10 T FT (bytes pre) f) /\
                     names_ok (fn_gnames10 f)) /\ placed10 r
  end.

Lemma stmt_depth_le10 cards c :
  In c cards -> (stmt_depth10 c <= fold_right (fun c m => Nat.max (stmt_depth10 c) m) 0 cards)%nat.
Proof. induction cards as [|x r IH]; cbn [In fold_right]; [tauto|]. intros [->|H]; [lia | specialize (IH H); lia]. Qed.

Lemma combine_facts10 : forall (a : list str) (b : list RefSem.value), length a = length b ->
  lnames (combine a b) = a /\ map (fun nv : str * RefSem.value => to_vm (snd nv)) (combine a b) = map to_vm b /\
  (Forall simple b -> gsimple (combine a b)).
Proof.
  induction a as [|x a IH]; intros [|y b] H; cbn in H; try discriminate H.
  - repeat split. intros _. constructor.
  - destruct (IH b ltac:(lia)) as (A & B & C). cbn [combine lnames map fst snd]. fold (lnames (combine a b)).
    rewrite A, B. repeat split. intros Hs. inversion Hs; subst. constructor; [assumption | apply C; assumption].
Qed.

Lemma fn_sim10 f r need dn :
  calls_ok9' (sem10 r) (sig_of r) need dn -> fn_ok10 r f = true ->
  forall pre, seg' pre (code_fn10 T FT (bytes pre) f) -> names_ok (fn_gnames10 f) ->
  forall vals g gv below fr rest hp,
    length vals = length (f_args f) -> Forall simple vals -> grel' g gv -> gsimple g ->
    N.to_nat (fr_off fr) = length below -> (length below + (frame_need10 f + need) < cap)%nat ->
    (length rest + S dn < call_stack_size)%nat ->
    match call10 (sem10 r) f vals g with
    | (Some v, g') => exists k gv' fr' hp' ipr mid,
        steps9' k (bytes pre, below ++ map to_vm vals, gv, fr :: rest, hp)
                  (ipr, below ++ mid ++ [to_vm v], gv', fr' :: rest, hp') /\
        fr_off fr' = fr_off fr /\ code_at P ipr IReturn /\ grel' g' gv' /\ gsimple g' /\ simple v
    | (None, g') => exists k c1,
        steps9' k (bytes pre, below ++ map to_vm vals, gv, fr :: rest, hp) c1 /\ fail9' c1 /\ grel' g' (gl9 c1) /\ gsimple g'
    end.
Proof.
  intros Hcalls Hok pre Hseg Hnm vals g gv below fr rest hp Hlen Hvs Hrel Hsg Hoff Hroom Hdn.
  unfold fn_ok10 in Hok. apply andb_true_iff in Hok. destruct Hok as [_ Hcards].
  unfold call10, code_fn10, fn_gnames10, frame_need10 in *.
  set (R0 := combine (f_args f) (rev vals)).
  destruct (combine_facts10 (f_args f) (rev vals) ltac:(rewrite rev_length; lia)) as (HlnR0 & HmapR0 & HsR0). fold R0 in HlnR0, HmapR0, HsR0.
  assert (HlsR0 : lstack R0 = map to_vm vals).
  { unfold lstack. rewrite HmapR0, map_rev, rev_involutive. reflexivity. }
  assert (HlenR0 : length R0 = length (f_args f)) by (rewrite <- (lnames_length R0), HlnR0; reflexivity).
  specialize (HsR0 ltac:(apply Forall_rev; exact Hvs)).
  assert (Hsimp0 : gsimple (R0 ++ g)) by (apply gsimple_app10; auto).
  set (cards := f_cards f) in *. set (ct := code_top10 T FT (f_args f) (bytes pre) cards) in *.
  set (npop := length (names_end (f_args f) cards)) in *.
  destruct (runs10 (sem10 r) R0 g cards) as [[out R'] g1] eqn:Erun.
  destruct (body_sim10 (sem10 r) (sig_of r) need dn Hcalls below rest ltac:(lia) true cards R0 g out R' g1
              ltac:(rewrite HlnR0; exact Hcards) Erun pre (@nil value) gv fr hp ltac:(rewrite HlnR0; eapply seg_app_l; exact Hseg)
              ltac:(rewrite HlnR0; exact Hnm) Hoff) as [[Hs Hc] Hl]; [|exact Hrel | exact Hsimp0|].
  { rewrite HlnR0. intros c Hin. pose proof (stmt_depth_le10 cards c Hin). fold npop. cbn [length]. lia. }
  rewrite HlsR0, HlnR0, app_nil_r in Hc. fold ct in Hc.
  pose proof (proj2 (proj1 (gsimple_app10 R' g1) Hs)) as Hsg1.
  destruct out.
  - destruct Hc as (k & gv' & fr' & hp' & J' & Hst & Hfo & Hrel' & HJ'). specialize (Hl eq_refl). rewrite HlnR0 in Hl.
    assert (Hnp : length (lstack R') = npop) by (rewrite lstack_length, <- (lnames_length R'), Hl; reflexivity).
    set (L := lstack R' ++ J') in *.
    set (mid := firstn (length J') L). set (l2 := skipn (length J') L).
    assert (HL : L = mid ++ l2) by (symmetry; apply firstn_skipn).
    assert (HlenL : length L = (npop + length J')%nat) by (unfold L; rewrite app_length, Hnp; reflexivity).
    assert (Hl2 : length l2 = npop) by (unfold l2; rewrite skipn_length; lia).
    assert (Hmid : length mid = length J') by (unfold mid; apply firstn_length_le; lia).
    assert (HL' : below ++ L = (below ++ mid) ++ l2) by (rewrite HL, app_assoc; reflexivity).
    rewrite HL' in Hst.
    pose proof (seg_app_r _ _ _ _ Hseg) as Stail. fold ct in Stail.
    assert (Spop : seg' (pre ++ ct) (repeat IPop (length l2))) by (rewrite Hl2; eapply seg_app_l; exact Stail).
    pose proof (pops10 dn (below ++ mid) rest ltac:(lia) l2 (pre ++ ct) gv' (fr' :: rest) hp' Spop) as Hpops. rewrite Hl2 in Hpops.
    pose proof (seg_app_r _ _ _ _ Stail) as Snil. destruct (seg_cons9 P _ _ _ Snil) as [Cnil Sret].
    pose proof (seg_instr _ _ _ _ Sret) as Cret. rewrite bytes_snoc in Cret. change (spanN IScalarNil) with 1 in Cret.
    assert (Hroom1 : (S (length (below ++ mid)) < cap)%nat) by (rewrite app_length, Hmid; cbn [length] in HJ'; lia).
    pose proof (@ex_scalar_nil F bld P cap (fr' :: rest) hp' None [] _ (below ++ mid) gv' Cnil Hroom1) as Hnil.
    exists (k + npop + 1)%nat, gv', fr', hp', (bytes ((pre ++ ct) ++ repeat IPop npop) + 1), mid.
    split; [|cbn; auto 6].
    rewrite (app_assoc below mid).
    eapply steps9_trans; [eapply steps9_trans; [exact Hst | exact Hpops]|]. apply steps9_1. apply exec1_exec9. exact Hnil.
  - destruct Hc as (k & gv' & fr' & hp' & ipr & mid & Hst & Hfo & Hret & Hrel' & Hv).
    exists k, gv', fr', hp', ipr, mid. auto 8.
  - destruct Hc as (k & c1 & Hst & Hf & Hrel'). exists k, c1. auto.
Qed.

Lemma fns_sim10 fs : fns_ok10 fs = true -> placed10 fs -> calls_ok9' (sem10 fs) (sig_of fs) (need_fs10 fs) (length fs).
Proof.
  induction fs as [|[n f] r IH]; intros Hok Hpl.
  - intros name k Hf. discriminate Hf.
  - cbn [fns_ok10] in Hok. apply andb_true_iff in Hok. destruct Hok as [Hf Hr].
    destruct Hpl as [(h & pre & Eft & Hh & Hlab & Hseg & Hnm) Hpr].
    specialize (IH Hr Hpr).
    intros name k Hfind. cbn [sig_of map sm_find fst snd] in Hfind. cbn [sem10].
    destruct (str_eqb name n) eqn:E.
    + apply str_eqb_eq in E. subst name. injection Hfind as <-.
      exists h, (bytes pre). split; [exact Eft|]. split; [exact Hh|]. split; [exact Hlab|].
      intros vals g gv below fr rest hp L1 L2 L3 L4 L5 L6 L7.
      apply (fn_sim10 f r (need_fs10 r) (length r) IH Hf pre Hseg Hnm vals g gv below fr rest hp L1 L2 L3 L4 L5);
        [cbn [need_fs10 fold_right snd] in L6; exact L6 | cbn [length] in L7; lia].
    + destruct (IH name k Hfind) as (h' & pos & A & B & C & D). exists h', pos.
      split; [exact A|]. split; [exact B|]. split; [exact C|].
      intros vals g gv below fr rest hp L1 L2 L3 L4 L5 L6 L7. cbn [need_fs10 fold_right snd length] in L6, L7.
      apply D; auto; unfold need_fs10; lia.
Qed.

(* the functions of a module, laid out one behind the other, are where their handles and labels say *)
Lemma placed10_intro : forall fs i pre post,
  p_code P = encode (pre ++ code_fns10 T FT (bytes pre) fs ++ post) ->
  labels_ok9 (p_labels P) i (bases10 T FT (bytes pre) fs) ->
  (forall j n f, nth_error fs j = Some (n, f) ->
     sm_find n FT = Some (handle_from_u64 (i + N.of_nat j), N.of_nat (length (f_args f)) mod two32)) ->
  (forall n f, In (n, f) fs -> names_ok (fn_gnames10 f)) ->
  placed10 fs.
Proof.
  induction fs as [|[n f] r IH]; intros i pre post Hcode Hlab Hft Hnm; [exact I|].
  cbn [code_fns10 bases10 labels_ok9 placed10] in *. cbv zeta in *.
  set (cf := code_fn10 T FT (bytes pre) f) in *. destruct Hlab as [Hl Hlr].
  split.
  - exists (handle_from_u64 i), pre.
    split; [rewrite <- (N.add_0_r i); exact (Hft 0%nat n f eq_refl)|].
    split; [rewrite <- two32_eq; apply handle_from_u64_lt|].
    split; [rewrite assoc_nm_find; exact Hl|].
    split; [exists (code_fns10 T FT (bytes pre + bytes cf) r ++ post); rewrite Hcode, <- !app_assoc; reflexivity|].
    apply (Hnm n f). left. reflexivity.
  - apply (IH (i + 1) (pre ++ cf) post).
    + rewrite Hcode, bytes_app, <- !app_assoc. reflexivity.
    + rewrite bytes_app. exact Hlr.
    + intros j n' f' Hj. replace (i + 1 + N.of_nat j) with (i + N.of_nat (S j)) by lia. exact (Hft (S j) n' f' Hj).
    + intros n' f' Hin. apply (Hnm n' f'). right. exact Hin.
Qed.

End Run10b.
