(* C04 - "running is total", Part E.3b: the stdlib natives __min, __max, __sort.
   They never abort and leave a state that satisfies vm_inv (under the contract of the nested run).  Unlike the
   other natives they are not shown to keep the heap ACYCLIC (the row / table they build holds values whose rank
   after the callbacks is not known), so their result is [nres_ok0], without that part. *)
From Coq Require Import NArith ZArith List Lia Bool.
From Cao Require Import ListUtil Bits Stacks Vm VmProofs C04VmProofs C04VmProofs2 C04VmProofs3 C04VmProofs4 C04VmProofs5
  C04VmProofs6.
Import ListNotations.

Lemma insert_pairs_mentions eq l : forall t0 t', insert_pairs eq t0 l = Some t' ->
  forall x, tmentions t' x -> tmentions t0 x \/ In x (map fst l) \/ In x (map snd l).
Proof.
  induction l as [|[k v] r IH]; intros t0 t' H x Hx; cbn [insert_pairs] in H.
  - inversion H; subst. left; exact Hx.
  - destruct (tinsert eq t0 k v) as [t1|] eqn:E; [|discriminate].
    destruct (IH _ _ H x Hx) as [H1|[H1|H1]].
    + destruct (tinsert_mentions _ _ _ _ _ E x H1) as [H2|[->| ->]]; [left; exact H2 | right; left; left; reflexivity | right; right; left; reflexivity].
    + right; left; right; exact H1.
    + right; right; right; exact H1.
Qed.

Lemma insert_all_mentions eq l : forall t0 t', insert_all eq t0 l = Some t' ->
  forall x, tmentions t' x -> tmentions t0 x \/ In x (map (fun y => fst (snd y)) l) \/ In x (map (fun y => snd (snd y)) l).
Proof.
  induction l as [|[key [k v]] r IH]; intros t0 t' H x Hx; cbn [insert_all] in H.
  - inversion H; subst. left; exact Hx.
  - destruct (tinsert eq t0 k v) as [t1|] eqn:E; [|discriminate].
    destruct (IH _ _ H x Hx) as [H1|[H1|H1]].
    + destruct (tinsert_mentions _ _ _ _ _ E x H1) as [H2|[->| ->]]; [left; exact H2 | right; left; left; reflexivity | right; right; left; reflexivity].
    + right; left; right; exact H1.
    + right; right; right; exact H1.
Qed.

Section Std.
Variable F : fops.
Variable bld : build.
Variable P : program.
Variable reenter : N -> state -> rres.
Variable start : N -> Prop.
Variable OKA : abort -> Prop.

Notation ipok := (ipok P start).
Notation vm_inv0 := (vm_inv0 P start).
Notation vm_inv := (vm_inv P start).
Notation ninv := (ninv P start).
Notation nst_ok := (nst_ok P start).
Notation nres_ok := (nres_ok P start OKA).

Definition nres_ok0 (s : state) (r : nres) : Prop :=
  match r with
  | NStop a _ => OKA a
  | NOk v s' => vm_inv s' /\ length (st_heap s) <= length (st_heap s') /\ val_ok (st_heap s') v
  | NErr _ s' => vm_inv s' /\ length (st_heap s) <= length (st_heap s')
  end.

Lemma nres_ok_weaken s r : nres_ok s r -> nres_ok0 s r.
Proof.
  destruct r; cbn [C04VmProofs6.nres_ok nres_ok0]; [| |tauto].
  - intros [[Hn Hl] Hv]. split; [apply Hn | split; assumption].
  - intros [Hn Hl]. split; [apply Hn | exact Hl].
Qed.
Lemma nres_ok0_mono s s1 r : length (st_heap s) <= length (st_heap s1) -> nres_ok0 s1 r -> nres_ok0 s r.
Proof.
  intros Hl. destruct r; cbn [nres_ok0]; [| |tauto].
  - intros (A & B & C). split; [exact A | split; [lia | exact C]].
  - intros (A & B). split; [exact A | lia].
Qed.

Hypothesis Hcode : code_ok P start.
Hypothesis Hre : reenter_ok P reenter start OKA.
Hypothesis Hlen : (0 < code_len P)%N.

Notation self f := (call_native_fuel F P reenter (S f)).

(* the private copy of the table: a new table, ranked like the original *)
Lemma snapshot_ok s a t : ninv s -> hget (st_heap s) a = Some (OTable t) ->
  match snapshot F s t with
  | None => False
  | Some (s', ct) => nst_ok s s' /\ (forall x, tmentions ct x -> val_ok (st_heap s') x)
  end.
Proof.
  intros Hn Ea. pose proof Hn as ([Hi Hc] & [rk Hr] & Hsimple). pose proof (vi_heap P start s Hi) as Hhc.
  unfold snapshot.
  pose proof (veq0_tot F (st_heap s) (ex_intro _ rk Hr) Hhc) as veq1.
  assert (Ht : forall v, tmentions t v -> val_ok (st_heap s) v) by (intros v Hv; apply (Hhc a _ Ea); exact Hv).
  destruct (titer_go_tot _ _ veq1 (tmap t) (tkeys t)) as [l El].
  { intros k Hk. apply Ht. left; exact Hk. } { intros k Hk. apply Ht. right; right; exact Hk. }
  unfold titer. rewrite El.
  destruct (salloc s (OTable (mkTable [] []))) as [s1 c] eqn:E1.
  destruct (inv_salloc P start _ _ _ _ E1 Hi) as (I1 & Hh1 & Hcadr & Hc1 & _); [intros v Hv'; destruct (empty_mentions v Hv')|].
  set (rk1 := rk_set rk c (rk a)).
  assert (Hr1 : ranked (st_heap s1) rk1).
  { rewrite Hh1. unfold rk1. rewrite Hcadr. apply ranked_alloc; [exact Hr | exact Hhc | apply (Hr a t Ea) |].
    intros t0 E v. inversion E; subst. apply empty_mentions. }
  pose proof (vi_heap P start s1 I1) as Hhc1.
  pose proof (veq0_tot F (st_heap s1) (ex_intro _ rk1 Hr1) Hhc1) as veq2.
  assert (Hl : forall kv, In kv l -> tmentions t (fst kv) /\ tmentions t (snd kv)) by (apply (titer_mentions _ t l El)).
  assert (Ht1 : forall v, tmentions t v -> val_ok (st_heap s1) v) by (intros v Hv; rewrite Hh1; apply val_ok_app, Ht; exact Hv).
  destruct (insert_pairs_tot _ _ veq2 l (mkTable [] [])) as (ct & Ect & _);
    [intros k Hk; destruct Hk | intros kv Hkv; apply Ht1, (Hl kv Hkv) |].
  rewrite Ect.
  assert (Hc1' : hget (st_heap s1) c = Some (OTable (mkTable [] []))) by (rewrite Hh1, Hcadr; apply hget_app_new).
  assert (Hm : forall x, tmentions ct x -> tmentions t x).
  { intros x Hx. destruct (insert_pairs_mentions _ _ _ _ Ect x Hx) as [H|[H|H]]; [destruct (empty_mentions x H) | |];
      apply in_map_iff in H; destruct H as (kv & <- & Hkv); apply (Hl kv Hkv). }
  split; [split|].
  - split; [split|split].
    + apply (inv_set_table P start s1 c _ ct I1 Hc1'). intros x Hx. apply Ht1, Hm, Hx.
    + cbn [set_table set_heap st_calls]. rewrite Hc1. exact Hc.
    + exists rk1. apply (ranked_set_table _ _ _ _ _ Hr1 Hc1'). intros x Hx.
      unfold rk1 at 2. unfold rk_set. rewrite N.eqb_refl.
      rewrite Hh1. unfold rk1. rewrite Hcadr. rewrite vdepth_alloc; [apply (Hr a t Ea), Hm, Hx | apply Ht, Hm, Hx].
    + apply natives_simple_hset; [|intros; discriminate]. rewrite Hh1. apply natives_simple_alloc; [exact Hsimple | intros; discriminate].
  - cbn [set_table set_heap st_heap]. rewrite hset_length, Hh1, app_length. lia.
  - intros x Hx. cbn [set_table set_heap st_heap]. apply (val_ok_len (st_heap s1)); [rewrite hset_length; apply Nat.le_refl|].
    apply Ht1, Hm, Hx.
Qed.

(* pushing a row and calling the key function *)
Lemma call_key_ok f key_fn k v s : ninv s -> val_ok (st_heap s) key_fn -> val_ok (st_heap s) k -> val_ok (st_heap s) v ->
  match spush s v with
  | None => True
  | Some s1 =>
      match spush s1 k with
      | None => ninv s1 /\ st_heap s1 = st_heap s
      | Some s2 => nres_ok s (run_function P reenter (self f) key_fn s2) /\ ninv s1 /\ st_heap s1 = st_heap s
      end
  end.
Proof.
  intros Hn Hf Hk Hv. destruct (spush s v) as [s1|] eqn:E1; [|exact I].
  destruct (ninv_spush P start _ _ _ Hn E1 Hv) as [Hn1 Hh1].
  destruct (spush s1 k) as [s2|] eqn:E2; [|split; assumption].
  destruct (ninv_spush P start _ _ _ Hn1 E2 ltac:(rewrite Hh1; exact Hk)) as [Hn2 Hh2].
  split; [|split; assumption].
  apply (nres_ok_mono P start OKA s s2); [rewrite Hh2, Hh1; apply Nat.le_refl|].
  apply (run_function_ok F P reenter start OKA Hcode Hre Hlen f key_fn s2 Hn2). rewrite Hh2, Hh1. exact Hf.
Qed.

Definition pairs_ok (h : heap) (l : list (value * value)) : Prop :=
  forall kv, In kv l -> val_ok h (fst kv) /\ val_ok h (snd kv).
Lemma pairs_ok_len h h' l : length h <= length h' -> pairs_ok h l -> pairs_ok h' l.
Proof. intros Hl H kv Hkv. destruct (H kv Hkv). split; eapply val_ok_len; eauto. Qed.

Lemma minmax_go_ok f less key_fn : forall l j i best s,
  ninv s -> val_ok (st_heap s) key_fn -> val_ok (st_heap s) best -> pairs_ok (st_heap s) l ->
  match minmax_go F P reenter (self f) less key_fn l j i best s with
  | MMOk _ s' => nst_ok s s'
  | MMFail r => nres_ok s r
  end.
Proof.
  induction l as [|[k v] rest IH]; intros j i best s Hn Hf Hb Hl; cbn [minmax_go]; [apply nst_ok_refl; exact Hn|].
  destruct (Hl (k, v) (or_introl eq_refl)) as [Hk Hv]. cbn [fst snd] in Hk, Hv.
  pose proof (call_key_ok f key_fn k v s Hn Hf Hk Hv) as Hcall.
  destruct (spush s v) as [s1|]; [|apply nst_ok_refl; exact Hn].
  destruct (spush s1 k) as [s2|]; [|destruct Hcall as [Hn1 Hh1]; split; [exact Hn1 | rewrite Hh1; apply Nat.le_refl]].
  destruct Hcall as (Hr & _ & _).
  destruct (run_function P reenter (self f) key_fn s2) as [key s3|e s3|]; [| exact Hr | exact Hr].
  destruct Hr as [[Hn3 Hl3] Hkey].
  pose proof (vcmp_no_crash2 F (st_heap s3) key best (proj1 (proj2 Hn3)) (vi_heap P start s3 (proj1 (proj1 Hn3))) Hkey
                (val_ok_len _ _ _ Hl3 Hb)) as Hcmp.
  assert (Hrest : pairs_ok (st_heap s3) rest).
  { eapply pairs_ok_len; [exact Hl3|]. intros kv Hkv. apply Hl. right; exact Hkv. }
  assert (Hf3 : val_ok (st_heap s3) key_fn) by (eapply val_ok_len; eauto).
  assert (Hstep : forall i' b', val_ok (st_heap s3) b' ->
            match minmax_go F P reenter (self f) less key_fn rest (S j) i' b' s3 with
            | MMOk _ s' => nst_ok s s'
            | MMFail r => nres_ok s r
            end).
  { intros i' b' Hb'. specialize (IH (S j) i' b' s3 Hn3 Hf3 Hb' Hrest).
    destruct (minmax_go _ _ _ _ _ _ _ _ _ _ _); [eapply nst_ok_trans; [split; [exact Hn3 | exact Hl3] | exact IH]|].
    eapply nres_ok_mono; [exact Hl3 | exact IH]. }
  destruct (vcmp F (st_heap s3) key best) as [c| |]; [| |congruence].
  - destruct (match c with Lt => less | Gt => negb less | Eq => false end); apply Hstep; [exact Hkey | eapply val_ok_len; eauto].
  - apply Hstep. eapply val_ok_len; eauto.
Qed.

(* {"key": k, "value": v} *)
Lemma make_row_ok0 s k v : ninv s -> val_ok (st_heap s) k -> val_ok (st_heap s) v -> nres_ok0 s (make_row F s k v).
Proof.
  intros Hn Hk Hv. pose proof Hn as ([Hi Hc] & Hac & _). pose proof (vi_heap P start s Hi) as Hhc. unfold make_row.
  destruct (salloc s (OTable (mkTable [] []))) as [s3 row] eqn:E3.
  destruct (inv_salloc P start _ _ _ _ E3 Hi) as (I3 & Hh3 & Hrow & Hc3 & _); [intros x Hx; destruct (empty_mentions x Hx)|].
  destruct (salloc s3 (OStr str_key)) as [s4 ka] eqn:E4.
  destruct (inv_salloc P start _ _ _ _ E4 I3 I) as (I4 & Hh4 & Hka & Hc4 & _).
  assert (A3 : heap_acyclic (st_heap s3)).
  { rewrite Hh3. apply heap_acyclic_alloc; auto. intros t0 E x. inversion E; subst. apply empty_mentions. }
  assert (A4 : heap_acyclic (st_heap s4)).
  { rewrite Hh4. apply heap_acyclic_alloc; [exact A3 | apply (vi_heap P start s3 I3) | intros t0 E; discriminate]. }
  cbv zeta.
  assert (K4 : hget (st_heap s4) ka = Some (OStr str_key)) by (rewrite Hh4, Hka; apply hget_app_new).
  pose proof (veq0_tot F (st_heap s4) A4 (vi_heap P start s4 I4)) as veq4.
  destruct (tinsert_tot _ _ veq4 (mkTable [] []) (VObj ka) k) as [t1 T1]; [cbn [val_ok]; rewrite K4; discriminate | intros x Hx; destruct Hx|].
  rewrite T1.
  destruct (salloc s4 (OStr str_value)) as [s5 va] eqn:E5.
  destruct (inv_salloc P start _ _ _ _ E5 I4 I) as (I5 & Hh5 & Hva & Hc5 & _).
  assert (A5 : heap_acyclic (st_heap s5)).
  { rewrite Hh5. apply heap_acyclic_alloc; [exact A4 | apply (vi_heap P start s4 I4) | intros t0 E; discriminate]. }
  pose proof (veq0_tot F (st_heap s5) A5 (vi_heap P start s5 I5)) as veq5.
  assert (Hka5 : val_ok (st_heap s5) (VObj ka)) by (cbn [val_ok]; rewrite Hh5, hget_app_old; rewrite K4; discriminate).
  assert (Hva5 : val_ok (st_heap s5) (VObj va)) by (cbn [val_ok]; rewrite Hh5, Hva, hget_app_new; discriminate).
  assert (Hlen5 : length (st_heap s) <= length (st_heap s5)) by (rewrite Hh5, Hh4, Hh3, !app_length; lia).
  destruct (tinsert_tot _ _ veq5 t1 (VObj va) v Hva5) as [t2 T2].
  { eapply tinsert_keys; [exact T1 | | intros x Hx; destruct Hx].
    cbn [val_ok]. rewrite Hh5, hget_app_old; rewrite K4; discriminate. }
  rewrite T2. cbn [nres_ok0].
  assert (R3 : hget (st_heap s3) row = Some (OTable (mkTable [] []))) by (rewrite Hh3, Hrow; apply hget_app_new).
  assert (R4 : hget (st_heap s4) row = Some (OTable (mkTable [] []))) by (rewrite Hh4, hget_app_old; [exact R3 | rewrite R3; discriminate]).
  assert (R5 : hget (st_heap s5) row = Some (OTable (mkTable [] []))) by (rewrite Hh5, hget_app_old; [exact R4 | rewrite R4; discriminate]).
  split; [split|split].
  - apply (inv_set_table P start s5 row _ t2 I5 R5). intros x Hx.
    destruct (tinsert_mentions _ _ _ _ _ T2 x Hx) as [H|[->| ->]]; [| exact Hva5 | eapply val_ok_len; eauto].
    destruct (tinsert_mentions _ _ _ _ _ T1 x H) as [H1|[->| ->]]; [destruct (empty_mentions x H1) | exact Hka5 | eapply val_ok_len; eauto].
  - cbn [set_table set_heap st_calls]. rewrite Hc5, Hc4, Hc3. exact Hc.
  - cbn [set_table set_heap st_heap]. rewrite hset_length. exact Hlen5.
  - cbn [val_ok set_table set_heap st_heap]. rewrite hget_hset_same; congruence.
Qed.

Lemma titer_ok s t : ninv s -> (forall x, tmentions t x -> val_ok (st_heap s) x) ->
  exists l, titer (veq0 F (st_heap s)) t = Some l /\ pairs_ok (st_heap s) l.
Proof.
  intros Hn Ht. pose proof Hn as ([Hi _] & Hac & _).
  pose proof (veq0_tot F (st_heap s) Hac (vi_heap P start s Hi)) as veq1.
  destruct (titer_go_tot _ _ veq1 (tmap t) (tkeys t)) as [l El].
  { intros k Hk. apply Ht. left; exact Hk. } { intros k Hk. apply Ht. right; right; exact Hk. }
  exists l. split; [exact El|]. intros kv Hkv. destruct (titer_mentions _ t l El kv Hkv). split; apply Ht; assumption.
Qed.

Lemma native_minmax_ok0 f less iterable key_fn s : ninv s ->
  val_ok (st_heap s) iterable -> val_ok (st_heap s) key_fn ->
  nres_ok0 s (native_minmax F P reenter (self f) less iterable key_fn s).
Proof.
  intros Hn Hit Hf. unfold native_minmax.
  assert (Hsame : nres_ok0 s (NOk iterable s)) by (split; [apply Hn | split; [apply Nat.le_refl | exact Hit]]).
  destruct iterable as [| | |a]; try exact Hsame. cbn [val_ok] in Hit.
  destruct (hget (st_heap s) a) as [o|] eqn:Ea; [|congruence]. destruct o as [t| | | | |]; try exact Hsame.
  pose proof (snapshot_ok s a t Hn Ea) as Hsn. destruct (snapshot F s t) as [[s0 entries]|]; [|contradiction].
  destruct Hsn as [[Hn0 Hl0] Hent]. apply (nres_ok0_mono s s0 _ Hl0).
  destruct (titer_ok s0 entries Hn0 Hent) as (l & -> & Hl).
  destruct l as [|[k0 v0] rest]; [split; [apply Hn0 | split; [apply Nat.le_refl | exact I]]|].
  destruct (Hl (k0, v0) (or_introl eq_refl)) as [Hk0 Hv0]. cbn [fst snd] in Hk0, Hv0.
  assert (Hf0 : val_ok (st_heap s0) key_fn) by (eapply val_ok_len; eauto).
  pose proof (call_key_ok f key_fn k0 v0 s0 Hn0 Hf0 Hk0 Hv0) as Hcall.
  destruct (spush s0 v0) as [s1|]; [|split; [apply Hn0 | apply Nat.le_refl]].
  destruct (spush s1 k0) as [s2|]; [|destruct Hcall as [Hn1 Hh1]; split; [apply Hn1 | rewrite Hh1; apply Nat.le_refl]].
  destruct Hcall as (Hr & _ & _).
  destruct (run_function P reenter (self f) key_fn s2) as [key0 s3|e s3|]; [| apply nres_ok_weaken; exact Hr | exact Hr].
  destruct Hr as [[Hn3 Hl3] Hkey0]. apply (nres_ok0_mono s0 s3 _ Hl3).
  assert (Hrest : pairs_ok (st_heap s3) rest).
  { eapply pairs_ok_len; [exact Hl3|]. intros kv Hkv. apply Hl. right; exact Hkv. }
  pose proof (minmax_go_ok f less key_fn rest 1 0 key0 s3 Hn3 (val_ok_len _ _ _ Hl3 Hf0) Hkey0 Hrest) as Hgo.
  destruct (minmax_go _ _ _ _ _ _ _ _ _ _ _) as [i s4|r]; [|apply nres_ok_weaken; exact Hgo].
  destruct Hgo as [Hn4 Hl4]. apply (nres_ok0_mono s3 s4 _ Hl4).
  assert (Hent4 : forall x, tmentions entries x -> val_ok (st_heap s4) x).
  { intros x Hx. eapply val_ok_len; [|apply Hent; exact Hx]. lia. }
  assert (Hkk : val_ok (st_heap s4) (tnth_key entries i)).
  { apply tnth_key_ok. intros x Hx. apply Hent4. right; right; exact Hx. }
  pose proof (veq0_tot F (st_heap s4) (proj1 (proj2 Hn4)) (vi_heap P start s4 (proj1 (proj1 Hn4)))) as veq4.
  destruct (tget_tot _ _ veq4 entries (tnth_key entries i) Hkk) as [r Er]; [intros x Hx; apply Hent4; left; exact Hx|].
  rewrite Er. apply make_row_ok0; [exact Hn4 | exact Hkk |].
  destruct r as [v|]; [|exact I]. apply Hent4. eapply tget_mentions; eauto.
Qed.

(* ---- __sort ---- *)
Definition keyed_ok (h : heap) (l : list (value * (value * value))) : Prop :=
  forall x, In x l -> val_ok h (fst x) /\ val_ok h (fst (snd x)) /\ val_ok h (snd (snd x)).

Lemma sort_keys_ok f key_fn : forall l s, ninv s -> val_ok (st_heap s) key_fn -> pairs_ok (st_heap s) l ->
  match sort_keys P reenter (self f) key_fn l s with
  | SKOk keyed s' => nst_ok s s' /\ keyed_ok (st_heap s') keyed
  | SKFail r => nres_ok s r
  end.
Proof.
  induction l as [|[k v] rest IH]; intros s Hn Hf Hl; cbn [sort_keys].
  - split; [apply nst_ok_refl; exact Hn | intros x []].
  - destruct (Hl (k, v) (or_introl eq_refl)) as [Hk Hv]. cbn [fst snd] in Hk, Hv.
    pose proof (call_key_ok f key_fn k v s Hn Hf Hk Hv) as Hcall.
    destruct (spush s v) as [s1|]; [|apply nst_ok_refl; exact Hn].
    destruct (spush s1 k) as [s2|]; [|destruct Hcall as [Hn1 Hh1]; split; [exact Hn1 | rewrite Hh1; apply Nat.le_refl]].
    destruct Hcall as (Hr & _ & _).
    destruct (run_function P reenter (self f) key_fn s2) as [key s3|e s3|]; [| exact Hr | exact Hr].
    destruct Hr as [[Hn3 Hl3] Hkey].
    assert (Hrest : pairs_ok (st_heap s3) rest).
    { eapply pairs_ok_len; [exact Hl3|]. intros kv Hkv. apply Hl. right; exact Hkv. }
    specialize (IH s3 Hn3 (val_ok_len _ _ _ Hl3 Hf) Hrest).
    destruct (sort_keys _ _ _ _ rest s3) as [l' s4|r]; [|eapply nres_ok_mono; [exact Hl3 | exact IH]].
    destruct IH as [[Hn4 Hl4] Hk4]. split; [split; [exact Hn4 | lia]|].
    intros x [<-|Hx]; [|apply Hk4; exact Hx]. cbn [fst snd].
    split; [apply (val_ok_len (st_heap s3)); [exact Hl4 | exact Hkey]|].
    split; apply (val_ok_len (st_heap s)); try lia; assumption.
Qed.

Lemma sort_key_le_tot h a b : val_ok h a -> val_ok h b -> exists r, sort_key_le F h a b = Some r.
Proof.
  intros Ha Hb. unfold sort_key_le. destruct (is_nan_value F a), (is_nan_value F b); try (eexists; reflexivity).
  assert (Hnum : forall v, val_ok h v -> exists x, sort_number F h v = Some x /\ is_obj x = false /\ val_ok h x).
  { intros v Hv. destruct v as [| | |c]; cbn [sort_number to_i64].
    - eexists; split; [reflexivity | split; [reflexivity | exact I]].
    - eexists; split; [reflexivity | split; [reflexivity | exact I]].
    - eexists; split; [reflexivity | split; [reflexivity | exact I]].
    - destruct (vobj_len_some h c Hv) as [i ->]. eexists; split; [reflexivity | split; [reflexivity | exact I]]. }
  destruct (Hnum a Ha) as (x & -> & Hx & Vx). destruct (Hnum b Hb) as (y & -> & Hy & Vy).
  pose proof (vcmp_no_crash F h x y Vx Vy) as Hc.
  destruct (vcmp F h x y) as [[]| |]; try (eexists; reflexivity).
  exfalso. apply Hc; [|reflexivity]. intros [H1 H2]. congruence.
Qed.

Lemma sort_insert_tot h x : forall l, val_ok h (fst x) -> (forall y, In y l -> val_ok h (fst y)) ->
  exists r, sort_insert F h x l = Some r /\ forall z, In z r -> z = x \/ In z l.
Proof.
  induction l as [|y r IH]; intros Hx Hl; cbn [sort_insert].
  - eexists; split; [reflexivity|]. intros z [<-|[]]. left; reflexivity.
  - destruct (sort_key_le_tot h (fst y) (fst x) (Hl y (or_introl eq_refl)) Hx) as [[] ->].
    + destruct IH as (r' & -> & Hr'); [exact Hx | intros z Hz; apply Hl; right; exact Hz|].
      eexists; split; [reflexivity|]. intros z [<-|Hz]; [right; left; reflexivity|].
      destruct (Hr' z Hz); [left; assumption | right; right; assumption].
    + eexists; split; [reflexivity|]. intros z [<-|Hz]; [left; reflexivity | right; exact Hz].
Qed.

Lemma stable_sort_tot h : forall l acc, (forall y, In y l -> val_ok h (fst y)) -> (forall y, In y acc -> val_ok h (fst y)) ->
  exists r, stable_sort F h l acc = Some r /\ forall z, In z r -> In z l \/ In z acc.
Proof.
  induction l as [|x r IH]; intros acc Hl Ha; cbn [stable_sort].
  - eexists; split; [reflexivity|]. intros z Hz. right; exact Hz.
  - destruct (sort_insert_tot h x acc (Hl x (or_introl eq_refl)) Ha) as (acc' & -> & Hacc').
    destruct (IH acc') as (res & -> & Hres).
    + intros y Hy. apply Hl. right; exact Hy.
    + intros y Hy. destruct (Hacc' y Hy) as [->|H]; [apply Hl; left; reflexivity | apply Ha; exact H].
    + eexists; split; [reflexivity|]. intros z Hz. destruct (Hres z Hz) as [H|H]; [left; right; exact H|].
      destruct (Hacc' z H) as [->|H']; [left; left; reflexivity | right; exact H'].
Qed.

Lemma native_sorted_ok0 f iterable key_fn s : ninv s ->
  val_ok (st_heap s) iterable -> val_ok (st_heap s) key_fn ->
  nres_ok0 s (native_sorted F P reenter (self f) iterable key_fn s).
Proof.
  intros Hn Hit Hf. unfold native_sorted.
  assert (Hsame : nres_ok0 s (NOk iterable s)) by (split; [apply Hn | split; [apply Nat.le_refl | exact Hit]]).
  destruct iterable as [| | |a]; try exact Hsame. cbn [val_ok] in Hit.
  destruct (hget (st_heap s) a) as [o|] eqn:Ea; [|congruence]. destruct o as [t| | | | |]; try exact Hsame.
  pose proof (snapshot_ok s a t Hn Ea) as Hsn. destruct (snapshot F s t) as [[s0 entries]|]; [|contradiction].
  destruct Hsn as [[Hn0 Hl0] Hent]. apply (nres_ok0_mono s s0 _ Hl0).
  destruct (titer_ok s0 entries Hn0 Hent) as (l & -> & Hl).
  pose proof (sort_keys_ok f key_fn l s0 Hn0 (val_ok_len _ _ _ Hl0 Hf) Hl) as Hsk.
  destruct (sort_keys _ _ _ _ l s0) as [keyed s1|r]; [|apply nres_ok_weaken; exact Hsk].
  destruct Hsk as [[Hn1 Hl1] Hkeyed]. apply (nres_ok0_mono s0 s1 _ Hl1).
  destruct (stable_sort_tot (st_heap s1) keyed []) as (sorted & -> & Hsorted);
    [intros y Hy; apply (Hkeyed y Hy) | intros y [] |].
  pose proof Hn1 as ([I1 Hc1] & Hac1 & _).
  destruct (salloc s1 (OTable (mkTable [] []))) as [s2 out] eqn:E2.
  destruct (inv_salloc P start _ _ _ _ E2 I1) as (I2 & Hh2 & Hout & Hc2 & _); [intros x Hx; destruct (empty_mentions x Hx)|].
  assert (A2 : heap_acyclic (st_heap s2)).
  { rewrite Hh2. apply heap_acyclic_alloc; [exact Hac1 | apply (vi_heap P start s1 I1) |]. intros t0 E x. inversion E; subst. apply empty_mentions. }
  pose proof (veq0_tot F (st_heap s2) A2 (vi_heap P start s2 I2)) as veq2.
  assert (Hs2 : keyed_ok (st_heap s2) sorted).
  { intros x Hx. destruct (Hsorted x Hx) as [H|[]]. destruct (Hkeyed x H) as (A & B & C).
    rewrite Hh2. repeat split; apply val_ok_app; assumption. }
  destruct (insert_all_tot _ _ veq2 sorted (mkTable [] [])) as (t' & Et' & _);
    [intros x Hx; destruct Hx | intros x Hx; apply (Hs2 x Hx) |].
  rewrite Et'.
  assert (Hout2 : hget (st_heap s2) out = Some (OTable (mkTable [] []))) by (rewrite Hh2, Hout; apply hget_app_new).
  cbn [nres_ok0]. split; [split|split].
  - apply (inv_set_table P start s2 out _ t' I2 Hout2). intros x Hx.
    destruct (insert_all_mentions _ _ _ _ Et' x Hx) as [H|[H|H]];
      [destruct (empty_mentions x H) | |]; apply in_map_iff in H; destruct H as (y & <- & Hy); apply (Hs2 y Hy).
  - cbn [set_table set_heap st_calls]. rewrite Hc2. exact Hc1.
  - cbn [set_table set_heap st_heap]. rewrite hset_length, Hh2, app_length. lia.
  - cbn [val_ok set_table set_heap st_heap]. rewrite hget_hset_same; congruence.
Qed.

(* ---- every native ---- *)
Lemma body_all_ok0 f n s : ninv s ->
  nres_ok0 s (native_body F P reenter (self f) n s).
Proof.
  intros Hn. destruct (covered_native n) eqn:Ec.
  - apply nres_ok_weaken. apply (body_reentrant_ok F P reenter start OKA Hcode Hre Hlen f n s Hn Ec).
  - pose proof (vi_closed P start s (proj1 (proj1 Hn))) as Hcl.
    destruct n; try discriminate; cbn [native_body]; cbv zeta;
      first [apply native_minmax_ok0 | apply native_sorted_ok0]; try exact Hn; apply speek_ok; exact Hcl.
Qed.

Lemma wrap_ok0 s n (r : nres) : nres_ok0 s r ->
  nres_ok0 s (match r with
              | NOk v s1 => let s1 := spop_n s1 (native_arity n) in
                            match spush s1 v with Some s2 => NOk v s2 | None => NErr EStackoverflow s1 end
              | NErr e s1 => NErr (ETaskFailure (native_name n) e) (spop_n s1 (native_arity n))
              | NStop a s1 => NStop a s1
              end).
Proof.
  destruct r as [v s1|e s1|]; cbn [nres_ok0]; [| |tauto].
  - intros ([I1 Hc1] & Hl & Hv). cbv zeta. pose proof (inv_spop_n P start s1 (native_arity n) I1) as I2.
    destruct (spush _ v) as [s2|] eqn:E; cbn [nres_ok0].
    + destruct (inv_spush P start _ _ _ E I2 Hv) as (I3 & Hh & Hca & _).
      split; [split; [exact I3 | rewrite Hca; exact Hc1] | split; [rewrite Hh; exact Hl | rewrite Hh; exact Hv]].
    + split; [split; [exact I2 | exact Hc1] | exact Hl].
  - intros ([I1 Hc1] & Hl). split; [split; [apply inv_spop_n; exact I1 | exact Hc1] | exact Hl].
Qed.

Theorem call_native_ok0 h s : ninv s -> nres_ok0 s (call_native F P reenter h s).
Proof.
  intros Hn. unfold call_native. rewrite (call_native_fuel_S F P reenter 7).
  destruct (find_native h all_natives) as [n|] eqn:E; [|split; [apply Hn | apply Nat.le_refl]].
  apply wrap_ok0. apply (body_all_ok0 6 n s Hn).
Qed.

End Std.
