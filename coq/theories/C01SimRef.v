(* C01, simulation, reference half: what RefSem.eval_program computes on a program of fragment F1,
   expressed with the direct evaluator of C01SimDefs ([ev], [run_cards]).  The evaluator of RefSem
   is fuelled: every statement has the form "out of fuel, or the expected result". *)
From Coq Require Import List NArith ZArith Bool Lia.
From Cao Require Import CheckUtil Bits CardAst Table TableProofs StdlibGen RefSem C01SimDefs.
Import ListNotations.

Definition env0 : env := {| e_scopes := [[]]; e_up := [] |}.

(* states of the fragment: no table was ever allocated, the globals hold nil and integers *)
Definition gs (s : state) : Prop :=
  st_heap s = [] /\ Forall (fun nv => simple (snd nv)) (st_globals s).

Lemma gs_bump s : gs s -> gs (bump s).
Proof. unfold gs. cbn. tauto. Qed.

Lemma simple_of_bool b : simple (v_of_bool b).
Proof. exact I. Qed.

Lemma v_cmp_simple x y : simple x -> simple y -> exists c, v_cmp [] x y = Some c.
Proof. destruct x, y; cbn; intros [] []; eauto. Qed.
Lemma v_eq_simple x y : simple x -> simple y -> exists r, v_eq [] eq_depth x y = Some r.
Proof. destruct x, y; cbn; intros [] []; eauto. Qed.

Lemma binval_simple op x y : simple x -> simple y -> simple (binval op x y).
Proof.
  intros Hx Hy. destruct (v_cmp_simple x y Hx Hy) as [c Hc], (v_eq_simple x y Hx Hy) as [r Hr].
  destruct op; unfold binval; rewrite ?Hc, ?Hr; try exact I;
    destruct x, y; try contradiction; exact I.
Qed.

Lemma assoc_simple g n v : Forall (fun nv : str * value => simple (snd nv)) g -> assoc n g = Some v -> simple v.
Proof.
  induction 1 as [|[k x] r Hx _ IH]; cbn [assoc]; [discriminate|].
  destruct (str_eqb n k); [intros E; injection E as <-; exact Hx | exact IH].
Qed.

Lemma ev_simple g e v : Forall (fun nv : str * value => simple (snd nv)) g -> ev g e = Some v -> simple v.
Proof.
  intros Hg. revert v. induction e; intros w; cbn [ev]; try (intro X; discriminate X).
  - (* CBin *)
    destruct (ev g e1) as [x|]; [|discriminate]. destruct (ev g e2) as [y|]; [|discriminate].
    intros E; injection E as <-. apply binval_simple; auto.
  - (* CUn *)
    destruct op; try discriminate. destruct (ev g e) as [x|]; [|discriminate].
    intros E; injection E as <-. exact I.
  - intros E; injection E as <-. exact I.
  - intros E; injection E as <-. exact I.
  - apply assoc_simple, Hg.
Qed.

Lemma set_assoc_simple g n v :
  Forall (fun nv : str * value => simple (snd nv)) g -> simple v ->
  Forall (fun nv : str * value => simple (snd nv)) (set_assoc n v g).
Proof.
  induction 1 as [|[k x] r Hx Hr IH]; intros Hv; cbn [set_assoc].
  - constructor; [exact Hv | constructor].
  - destruct (str_eqb n k); constructor; auto.
Qed.

(* the value of a binary operator on values of the fragment, in a state without tables *)
Lemma binop_value_simple op s e x y :
  op_f1 op = true -> st_heap s = [] -> simple x -> simple y ->
  binop_value op s e x y = ok [binval op x y] e s.
Proof.
  intros Hop Hh Hx Hy.
  destruct (v_cmp_simple x y Hx Hy) as [c Hc], (v_eq_simple x y Hx Hy) as [r Hr].
  destruct op; try discriminate Hop; unfold binop_value, binval; rewrite Hh, ?Hc, ?Hr; reflexivity.
Qed.

Lemma split_no_dot n : existsb (N.eqb c_dot) n = false -> split_once_c c_dot n = None.
Proof.
  induction n as [|x r IH]; cbn [existsb split_once_c]; [reflexivity|].
  intros H. apply orb_false_iff in H. destruct H as [H1 H2].
  rewrite N.eqb_sym in H1. rewrite H1, (IH H2). reflexivity.
Qed.

Section Eval.
Variable P : list fentry.
Variable host : list str.
Variable limit : N.
Variable fi : nat.

Notation evalf := (eval P host limit).

(* results of an operand list *)
Fixpoint evs (g : list (str * value)) (es : list card) : option (list value) :=
  match es with
  | [] => Some []
  | e :: r => match ev g e with
              | None => None
              | Some v => match evs g r with Some vs => Some (v :: vs) | None => None end
              end
  end.

Definition expr_res (r : res) (s : state) (e : card) : Prop :=
  r = RFuel \/
  (exists v s', r = ok [v] env0 s' /\ ev (st_globals s) e = Some v /\ st_globals s' = st_globals s /\ st_heap s' = []) \/
  (exists s', r = err EVarNotFound env0 s' /\ ev (st_globals s) e = None /\ st_globals s' = st_globals s /\ st_heap s' = []).

Definition args_res (r : res) (s : state) (es : list card) : Prop :=
  r = RFuel \/
  (exists vs s', r = ok vs env0 s' /\ evs (st_globals s) es = Some vs /\ st_globals s' = st_globals s /\ st_heap s' = []) \/
  (exists s', r = err EVarNotFound env0 s' /\ evs (st_globals s) es = None /\ st_globals s' = st_globals s /\ st_heap s' = []).

Definition expr_good (e : card) : Prop := forall fuel s, gs s -> expr_res (evalf fuel (TkCard fi env0 e) s) s e.

Lemma eval_args es : Forall expr_good es -> forall fuel s, gs s ->
  args_res (evalf fuel (TkArgs false fi env0 es) s) s es.
Proof.
  induction 1 as [|e r He _ IH]; intros fuel s Hs.
  - destruct fuel as [|f]; [left; reflexivity|]. cbn [eval]. unfold F.
    destruct (limit <? st_steps s)%N; [left; reflexivity|]. right; left.
    exists [], (bump s). destruct Hs as [Hh Hg]. repeat split; auto.
  - destruct fuel as [|f]; [left; reflexivity|]. cbn [eval]. unfold F.
    destruct (limit <? st_steps s)%N; [left; reflexivity|].
    pose proof (He f (bump s) (gs_bump _ Hs)) as [E|[(v & s1 & E & Hv & Hg1 & Hh1)|(s1 & E & Hv & Hg1 & Hh1)]];
      rewrite E; cbn [bnd ok err bump st_globals] in *.
    + left; reflexivity.
    + assert (Hs1 : gs s1) by (split; [exact Hh1 | rewrite Hg1; apply Hs]).
      pose proof (IH f s1 Hs1) as [E2|[(vs & s2 & E2 & Hvs & Hg2 & Hh2)|(s2 & E2 & Hvs & Hg2 & Hh2)]];
        rewrite E2; cbn [bnd ok err]; try rewrite Hg1 in *.
      * left; reflexivity.
      * right; left. exists (v :: vs), s2. cbn [evs]. rewrite Hv, Hvs. repeat split; auto; congruence.
      * right; right. exists s2. cbn [evs]. rewrite Hv, Hvs. repeat split; auto; congruence.
    + right; right. exists s1. cbn [evs]. rewrite Hv. repeat split; auto.
Qed.

Lemma eval_card_binop rec op a b s :
  op_f1 op = true ->
  eval_card P rec fi env0 (CBin op a b) s =
  bnd (rec (TkArgs false fi env0 [a; b]) s) (fun vs e1 s1 => two vs (fun x y => binop_value op s1 e1 x y)).
Proof. destruct op; intros H; try discriminate H; reflexivity. Qed.

Lemma expr_f1_good e : expr_f1 e = true -> expr_good e.
Proof.
  induction e; intros He; cbn [expr_f1] in He; try discriminate He; intros fuel s Hs;
    (destruct fuel as [|f]; [left; reflexivity|]); cbn [eval]; unfold F;
    (destruct (limit <? st_steps s)%N; [left; reflexivity|]);
    pose proof (gs_bump _ Hs) as Hb; cbn [F].
  - (* CBin *)
    apply andb_true_iff in He. destruct He as [He He2]. apply andb_true_iff in He. destruct He as [Hop He1].
    rewrite eval_card_binop by exact Hop.
    assert (Hgood : Forall expr_good [e1; e2]) by (apply Forall_cons; [auto | apply Forall_cons; [auto | apply Forall_nil]]).
    pose proof (eval_args _ Hgood f (bump s) Hb) as [E|[(vs & s1 & E & Hv & Hg1 & Hh1)|(s1 & E & Hv & Hg1 & Hh1)]];
      rewrite E; cbn [bnd ok err bump st_globals evs] in *.
    + left; reflexivity.
    + destruct (ev (st_globals s) e1) as [x|] eqn:E1; [|discriminate].
      destruct (ev (st_globals s) e2) as [y|] eqn:E2; [|discriminate]. injection Hv as <-.
      cbn [two]. destruct Hs as [_ Hgl].
      rewrite binop_value_simple; auto; [|eapply ev_simple; eauto|eapply ev_simple; eauto].
      right; left. exists (binval op x y), s1. cbn [ev]. rewrite E1, E2. auto.
    + right; right. exists s1. cbn [ev].
      destruct (ev (st_globals s) e1) as [x|]; [|auto]. destruct (ev (st_globals s) e2) as [y|]; [discriminate|auto].
  - (* CUn *)
    destruct op; try discriminate He. cbn [eval_card].
    assert (Hgood : Forall expr_good [e]) by (apply Forall_cons; [auto | apply Forall_nil]).
    pose proof (eval_args _ Hgood f (bump s) Hb) as [E|[(vs & s1 & E & Hv & Hg1 & Hh1)|(s1 & E & Hv & Hg1 & Hh1)]];
      rewrite E; cbn [bnd ok err bump st_globals evs] in *.
    + left; reflexivity.
    + destruct (ev (st_globals s) e) as [x|] eqn:E1; [|discriminate]. injection Hv as <-. cbn [one].
      rewrite Hh1. right; left. eexists _, s1. cbn [ev]. rewrite E1. auto.
    + right; right. exists s1. cbn [ev]. destruct (ev (st_globals s) e); [discriminate|auto].
  - (* CScalarNil *)
    right; left. exists VNil, (bump s). destruct Hb. cbn. auto.
  - (* CScalarInt *)
    right; left. exists (VInt i), (bump s). destruct Hb. cbn. auto.
  - (* CReadVar *)
    unfold var_ok in He. apply andb_true_iff in He. destruct He as [Hne Hdot].
    apply negb_true_iff in Hne, Hdot.
    cbn [eval_card]. unfold read_var. rewrite (split_no_dot _ Hdot).
    assert (Hne' : is_empty name = false) by (destruct name; [discriminate Hne | reflexivity]).
    rewrite Hne'. unfold lookup_var, env0. cbn [e_scopes e_up lookup_scopes assoc orelse].
    cbn [bump st_globals]. destruct Hb as [Hbh Hbg]. cbn [ev].
    destruct (assoc name (st_globals s)) as [x|] eqn:Ea; cbn [get_props].
    + right; left. exists x, (bump s). auto.
    + right; right. exists (bump s). auto.
Qed.

(* ---- statements ---- *)
Definition seq_res (r : res) (s : state) (cards : list card) : Prop :=
  r = RFuel \/
  (exists s', r = ok [] env0 s' /\ run_cards (st_globals s) cards = (true, st_globals s') /\ gs s') \/
  (exists s', r = err EVarNotFound env0 s' /\ run_cards (st_globals s) cards = (false, st_globals s') /\ gs s').

Lemma eval_stmt c : stmt_f1 c = true -> forall fuel s, gs s ->
  seq_res (evalf fuel (TkCard fi env0 c) s) s [c].
Proof.
  intros Hc fuel s Hs. destruct c; try discriminate Hc; cbn [stmt_f1] in Hc;
    (destruct fuel as [|f]; [left; reflexivity|]); cbn [eval]; unfold F;
    (destruct (limit <? st_steps s)%N; [left; reflexivity|]);
    pose proof (gs_bump _ Hs) as Hb; cbn [F eval_card].
  - (* Comment *)
    right; left. exists (bump s). cbn. auto.
  - (* SetGlobalVar *)
    apply andb_true_iff in Hc. destruct Hc as [Hne He]. apply negb_true_iff in Hne.
    assert (Hne' : is_empty name = false) by (destruct name; [discriminate Hne | reflexivity]).
    assert (Hgood : Forall expr_good [c]) by (apply Forall_cons; [apply expr_f1_good, He | apply Forall_nil]).
    pose proof (eval_args _ Hgood f (bump s) Hb) as [E|[(vs & s1 & E & Hv & Hg1 & Hh1)|(s1 & E & Hv & Hg1 & Hh1)]];
      rewrite E; cbn [bnd ok err bump st_globals evs] in *.
    + left; reflexivity.
    + destruct (ev (st_globals s) c) as [x|] eqn:E1; [|discriminate]. injection Hv as <-. cbn [one].
      rewrite Hne'. right; left. eexists. split; [reflexivity|]. cbn [run_cards]. rewrite E1.
      cbn [set_globals st_globals]. rewrite Hg1. split; [reflexivity|].
      split; cbn; [exact Hh1|]. destruct Hs as [_ Hgl]. apply set_assoc_simple; [exact Hgl | eapply ev_simple; eauto].
    + right; right. exists s1. split; [reflexivity|]. cbn [run_cards].
      destruct (ev (st_globals s) c); [discriminate|]. rewrite Hg1. split; [reflexivity|].
      split; [exact Hh1 | rewrite Hg1; apply Hs].
Qed.

Lemma run_cards_cons g c r :
  stmt_f1 c = true ->
  run_cards g (c :: r) = let '(b, g1) := run_cards g [c] in if b then run_cards g1 r else (false, g1).
Proof.
  destruct c; try discriminate; intros _; cbn [run_cards]; [reflexivity|].
  destruct (ev g c); reflexivity.
Qed.

Lemma eval_seq cards : forallb stmt_f1 cards = true -> forall fuel s, gs s ->
  seq_res (evalf fuel (TkSeq fi env0 cards) s) s cards.
Proof.
  induction cards as [|c r IH]; intros Hc fuel s Hs;
    (destruct fuel as [|f]; [left; reflexivity|]); cbn [eval]; unfold F;
    (destruct (limit <? st_steps s)%N; [left; reflexivity|]);
    pose proof (gs_bump _ Hs) as Hb; cbn [F].
  - right; left. exists (bump s). cbn. auto.
  - cbn [forallb] in Hc. apply andb_true_iff in Hc. destruct Hc as [Hc Hr].
    unfold seq_res. rewrite (run_cards_cons _ _ _ Hc).
    pose proof (eval_stmt _ Hc f _ Hb) as [E|[(s1 & E & Hrun & Hs1)|(s1 & E & Hrun & Hs1)]];
      rewrite E; cbn [bnd ok err bump st_globals] in *; try rewrite Hrun.
    + left; reflexivity.
    + pose proof (IH Hr f s1 Hs1) as [E2|[(s2 & E2 & Hrun2 & Hs2)|(s2 & E2 & Hrun2 & Hs2)]];
        rewrite E2; cbn [bnd ok err app].
      * left; reflexivity.
      * right; left. exists s2. auto.
      * right; right. exists s2. auto.
    + right; right. exists s1. auto.
Qed.
End Eval.

(* ------------------------------------------------------------------ the program level *)
Lemma flatten_std_some : exists l, flatten 63 std_module [s_std] = Some l.
Proof. vm_compute. eexists. reflexivity. Qed.

Lemma flatten_f1 d f stdl :
  flatten d std_module [s_std] = Some stdl ->
  flatten (S d) (Module [(s_std, std_module)] [(s_main, f)] []) [] =
  Some ({| fe_name := s_main; fe_ns := []; fe_imports := []; fe_fn := f |} :: stdl).
Proof.
  intros H. cbn [flatten mk_imports map ns_prefix flat_map fst snd app]. rewrite H, app_nil_r. reflexivity.
Qed.

Lemma str_eqb_main name : Compiler.str_eqb name Compiler.s_main = true -> name = s_main.
Proof.
  intros H. apply (proj1 (list_eqb_spec N.eqb N.eqb_eq name Compiler.s_main)) in H. exact H.
Qed.

Lemma to_tree_simple d v : simple v -> to_tree d [] v = vm_tree (to_vm v).
Proof. destruct d, v; cbn; intros []; reflexivity. Qed.

(* the observation of a program of F1 *)
Theorem eval_program_f1 fuel M host o :
  in_f1 M = true -> eval_program fuel M host = PObs o ->
  exists g, run_cards [] (main_cards M) = (match ob_kind o with KOk => true | _ => false end, g) /\
            (ob_kind o = KOk \/ ob_kind o = KErr EVarNotFound) /\
            Forall (fun nv => simple (snd nv)) g /\
            ob_globals o = map (fun nv => (fst nv, vm_tree (to_vm (snd nv)))) g.
Proof.
  intros HM. destruct M as [subs funs imps]. cbn [in_f1] in HM.
  destruct subs; [|discriminate]. destruct funs as [|[name f] [|]]; try discriminate.
  destruct imps; [|discriminate].
  apply andb_true_iff in HM. destruct HM as [HM Hcards]. apply andb_true_iff in HM. destruct HM as [Hname _].
  apply str_eqb_main in Hname. subst name.
  destruct flatten_std_some as [stdl Hstd].
  unfold eval_program, program_of, add_std. cbn [app].
  change 64%nat with (S 63). rewrite (flatten_f1 63 f stdl Hstd).
  cbn [find_index fe_name]. change (str_eqb s_main s_main) with true. cbv iota.
  cbn [nth_error fe_fn main_cards].
  set (P := _ :: stdl).
  intros H.
  assert (Hgs : gs init_state) by (split; [reflexivity | constructor]).
  pose proof (eval_seq P host (step_limit fuel) 0 _ Hcards fuel _ Hgs) as [E|[(s1 & E & Hrun & Hs1)|(s1 & E & Hrun & Hs1)]];
    fold env0 in H; rewrite E in H; cbn [ok err] in H; try discriminate H.
  - injection H as <-. exists (st_globals s1). cbn [ob_kind ob_globals observe]. destruct Hs1 as [Hh Hg].
    repeat split; auto. rewrite Hh. apply map_ext_in. intros [n v] Hin.
    rewrite Forall_forall in Hg. pose proof (Hg _ Hin) as Hv. cbn [snd] in Hv.
    destruct v; try contradiction; reflexivity.
  - injection H as <-. exists (st_globals s1). cbn [ob_kind ob_globals observe]. destruct Hs1 as [Hh Hg].
    repeat split; auto. rewrite Hh. apply map_ext_in. intros [n v] Hin.
    rewrite Forall_forall in Hg. pose proof (Hg _ Hin) as Hv. cbn [snd] in Hv.
    destruct v; try contradiction; reflexivity.
Qed.
