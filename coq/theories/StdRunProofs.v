(* Basic facts about [runs] / [extends] (vocabulary of StdRun.v), shared by C09Natives.v and
   C09Cards.v. *)
From Coq Require Import List NArith ZArith Bool Arith Lia.
From Cao Require Import CheckUtil Bits CardAst Table TableProofs Value StdlibGen RefSem RefSemProofs StdSpec StdRun.
Import ListNotations.

Lemma eval_S P host l f t s : eval P host l (S f) t s = F P host l (eval P host l f) t s.
Proof. reflexivity. Qed.

(* an evaluation that did not run out of fuel started below the step limit *)
Lemma eval_bound P host l f t s r : eval P host l f t s = r -> r <> RFuel -> (st_steps s <= l)%N.
Proof.
  destruct f as [|f]; cbn [eval]; [intros <- H; contradiction H; reflexivity|].
  unfold F. destruct (N.ltb_spec l (st_steps s)) as [H | H]; [intros <- N; contradiction N; reflexivity | lia].
Qed.

(* more fuel, a larger limit: the same answer *)
Lemma eval_lift P host l f t s r l' f' :
  eval P host l f t s = r -> r <> RFuel -> f <= f' -> (l <= l')%N -> eval P host l' f' t s = r.
Proof. intros. eapply eval_fuel_monotone; eassumption. Qed.

(* one unfolding of the evaluator: to show [runs t s r] give fuel and limit for the body *)
Lemma runs_intro P host t s r f l :
  (st_steps s <= l)%N -> F P host l (eval P host l f) t s = r -> r <> RFuel -> runs P host t s r.
Proof. intros _ E N. exists (S f), l. split; [exact E | exact N]. Qed.

Lemma F_unfold P host l rec t s0 :
  (st_steps s0 <= l)%N ->
  F P host l rec t s0 =
  let s := bump s0 in
  match t with
  | TkCard fi e c => eval_card P rec fi e c s
  | TkSeq fi e cs =>
      match cs with
      | [] => ok [] e s
      | c :: r => bnd (rec (TkCard fi e c) s) (fun v1 e1 s1 =>
                  bnd (rec (TkSeq fi e1 r) s1) (fun v2 e2 s2 => ok (v1 ++ v2) e2 s2))
      end
  | TkArgs lenient fi e cs =>
      match cs with
      | [] => ok [] e s
      | c :: r => bnd (rec (TkCard fi e c) s) (fun v1 e1 s1 =>
                    match v1, lenient with
                    | [v], _ => bnd (rec (TkArgs lenient fi e1 r) s1) (fun v2 e2 s2 => ok (v :: v2) e2 s2)
                    | [], true => bnd (rec (TkArgs lenient fi e1 r) s1) (fun v2 e2 s2 => ok (VNil :: v2) e2 s2)
                    | _, _ => RUnspec 1
                    end)
      end
  | TkWhile fi e cond body =>
      bnd (rec (TkArgs false fi e [cond]) s) (fun vs e1 s1 => one vs (fun v =>
        if v_bool (st_heap s1) v
        then bnd (rec (TkCard fi e1 body) s1) (fun _ e2 s2 => rec (TkWhile fi e2 cond body) s2)
        else ok [] e1 s1))
  | TkRepeat fi e i n k body =>
      match v_cmp (st_heap s) (VInt k) n with
      | Some (Some Lt) =>
          let '(e1, s1) := declare_opt i (VInt k) (push_scope e) s in
          bnd (rec (TkCard fi e1 body) s1) (fun _ _ s2 =>
            rec (TkRepeat fi e i n (wrap64 (k + 1)) body) s2)
      | Some _ => ok [] e s
      | None => RUnspec 8
      end
  | TkForEach fi e iv kv vv p k body =>
      match nth_error (st_heap s) p with
      | None => RUnspec 5
      | Some tb =>
          match nth_error tb k with
          | None => ok [] e s
          | Some (key, val) =>
              let '(e1, s1) := declare_opt vv val (push_scope e) s in
              let '(e2, s2) := declare_opt kv (of_key key) e1 s1 in
              let '(e3, s3) := declare_opt iv (VInt (Z.of_nat k)) e2 s2 in
              bnd (rec (TkCard fi e3 body) s3) (fun _ _ s4 =>
                rec (TkForEach fi e iv kv vv p (S k) body) s4)
          end
      end
  | TkCallFn idx args =>
      match nth_error P idx with
      | Some fe => call_body rec idx (f_args (fe_fn fe)) (f_cards (fe_fn fe)) [] args s
      | None => RUnspec 5
      end
  | TkCallVal f args =>
      match f with
      | VFn idx => rec (TkCallFn idx args) s
      | VClosure c =>
          match nth_error (st_clos s) c with
          | Some cl => call_body rec (cl_fi cl) (cl_params cl) (cl_body cl) (cl_up cl) args s
          | None => RUnspec 5
          end
      | VNative name => rec (TkNative name args) s
      | _ => err EInvalidArgument empty_env s
      end
  | TkNative name args => eval_native host rec name args s
  | TkKeys keyfn entries acc =>
      match entries with
      | [] => ok (rev acc) empty_env s
      | (k, v) :: r =>
          bnd (rec (TkCallVal keyfn [v; of_key k]) s) (fun vs _ s1 => one vs (fun x =>
            rec (TkKeys keyfn r (x :: acc)) s1))
      end
  end.
Proof.
  intros H. unfold F. destruct (N.ltb_spec l (st_steps s0)) as [H' | _]; [lia | reflexivity].
Qed.

Lemma extends_refl s : extends s s.
Proof. split; try reflexivity; exists []; rewrite app_nil_r; reflexivity. Qed.

Lemma extends_trans a b c : extends a b -> extends b c -> extends a c.
Proof.
  intros [h1 g1 l1 [x1 c1] [y1 k1]] [h2 g2 l2 [x2 c2] [y2 k2]]. split; try congruence.
  - exists (x1 ++ x2). rewrite c2, c1, app_assoc. reflexivity.
  - exists (y1 ++ y2). rewrite k2, k1, app_assoc. reflexivity.
Qed.

Lemma extends_bump s : extends s (bump s).
Proof. split; cbn; try reflexivity; exists []; rewrite app_nil_r; reflexivity. Qed.

(* a cell that existed keeps its index and value *)
Lemma extends_cell s s' c v : extends s s' -> nth_error (st_cells s) c = Some v -> nth_error (st_cells s') c = Some v.
Proof.
  intros [_ _ _ [x E] _] H. rewrite E. rewrite nth_error_app1; [exact H|].
  apply nth_error_Some. congruence.
Qed.
