(* Proofs about the bytecode codec, the well-formedness checker and the compiler model. *)
From Coq Require Import List NArith ZArith Bool Lia.
From Cao Require Import ListUtil CheckUtil Bits CardAst Bytecode Compiler CompilerGen Wellformed.
Import ListNotations.

(* ------------------------------------------------------------------ little-endian codec *)
Lemma le_bytes_length w x : length (le_bytes w x) = w.
Proof. revert x; induction w as [|w IH]; intros x; cbn [le_bytes length]; auto. Qed.

Lemma le_to_N_le_bytes w x : (x < 256 ^ N.of_nat w)%N -> le_to_N (le_bytes w x) = x.
Proof.
  revert x; induction w as [|w IH]; intros x Hx.
  - cbn in *. lia.
  - cbn [le_bytes le_to_N].
    rewrite Nat2N.inj_succ, N.pow_succ_r' in Hx.
    rewrite IH.
    + rewrite N.add_comm. symmetry. apply N.div_mod. lia.
    + apply N.div_lt_upper_bound; lia.
Qed.

Lemma i64_roundtrip z :
  (- 9223372036854775808 <= z < 9223372036854775808)%Z -> u64_to_i64 (i64_to_u64 z) = z.
Proof.
  intros Hz. unfold u64_to_i64, i64_to_u64, two64.
  assert (H0 : (0 <= z mod 18446744073709551616 < 18446744073709551616)%Z) by (apply Z.mod_pos_bound; lia).
  rewrite N.mod_small by lia.
  rewrite Z2N.id by lia.
  destruct (Z_lt_dec z 0) as [Hn|Hn].
  - assert (E : (z mod 18446744073709551616 = z + 18446744073709551616)%Z).
    { symmetry. apply (Z.mod_unique z 18446744073709551616 (-1) (z + 18446744073709551616)); lia. }
    rewrite E. destruct (Z.ltb_spec (z + 18446744073709551616) 9223372036854775808); lia.
  - rewrite Z.mod_small by lia.
    destruct (Z.ltb_spec z 9223372036854775808); lia.
Qed.

Lemma i32_roundtrip z : (- 2147483648 <= z < 2147483648)%Z -> u32_to_i32 (i32_to_u32 z) = z.
Proof.
  intros Hz. unfold u32_to_i32, i32_to_u32, two32.
  assert (H0 : (0 <= z mod 4294967296 < 4294967296)%Z) by (apply Z.mod_pos_bound; lia).
  rewrite N.mod_small by lia.
  rewrite Z2N.id by lia.
  destruct (Z_lt_dec z 0) as [Hn|Hn].
  - assert (E : (z mod 4294967296 = z + 4294967296)%Z).
    { symmetry. apply (Z.mod_unique z 4294967296 (-1) (z + 4294967296)); lia. }
    rewrite E. destruct (Z.ltb_spec (z + 4294967296) 2147483648); lia.
  - rewrite Z.mod_small by lia.
    destruct (Z.ltb_spec z 2147483648); lia.
Qed.

Lemma i64_to_u64_fits z : fits 8 (i64_to_u64 z).
Proof.
  unfold fits, i64_to_u64.
  assert (H0 : (0 <= z mod 18446744073709551616 < 18446744073709551616)%Z) by (apply Z.mod_pos_bound; lia).
  change (256 ^ N.of_nat 8)%N with 18446744073709551616%N. lia.
Qed.
Lemma i32_to_u32_fits z : fits 4 (i32_to_u32 z).
Proof.
  unfold fits, i32_to_u32.
  assert (H0 : (0 <= z mod 4294967296 < 4294967296)%Z) by (apply Z.mod_pos_bound; lia).
  change (256 ^ N.of_nat 4)%N with 4294967296%N. lia.
Qed.

(* ------------------------------------------------------------------ instruction codec *)
Lemma op_of_code_op_code o : op_of_code (op_code o) = Some o.
Proof. destruct o; reflexivity. Qed.

Lemma instr_roundtrip i :
  instr_ok i ->
  Forall2 fits (op_widths (instr_op i)) (instr_args i) /\
  instr_of (instr_op i) (instr_args i) = Some i.
Proof.
  destruct i; cbn [instr_ok instr_op instr_args op_widths instr_of]; intros H;
    try (split; [exact H | reflexivity]).
  - split; [repeat constructor; apply i64_to_u64_fits | rewrite i64_roundtrip; auto].
  - split; [repeat constructor; apply i32_to_u32_fits | rewrite i32_roundtrip; auto].
  - split; [repeat constructor; apply i32_to_u32_fits | rewrite i32_roundtrip; auto].
  - split; [repeat constructor; apply i32_to_u32_fits | rewrite i32_roundtrip; auto].
Qed.

Lemma skipn_len_app {A} (l r : list A) n : n = length l -> skipn n (l ++ r) = r.
Proof. intros ->. induction l; cbn; auto. Qed.
Lemma firstn_len_app {A} (l r : list A) n : n = length l -> firstn n (l ++ r) = l.
Proof. intros ->. induction l; cbn; auto. f_equal; auto. Qed.

Lemma read_args_encode ws args rest :
  Forall2 fits ws args -> read_args ws (encode_args ws args ++ rest) = Some (args, rest).
Proof.
  intros H; induction H as [|w a ws args Hf _ IH]; cbn [read_args encode_args app]; auto.
  rewrite <- app_assoc.
  assert (Hl : w = length (le_bytes w a)) by (symmetry; apply le_bytes_length).
  replace (Nat.ltb (length (le_bytes w a ++ encode_args ws args ++ rest)) w) with false.
  2:{ symmetry. apply Nat.ltb_ge. rewrite app_length. lia. }
  rewrite (skipn_len_app _ _ w Hl), IH, (firstn_len_app _ _ w Hl).
  rewrite le_to_N_le_bytes by exact Hf. reflexivity.
Qed.

Lemma decode1_encode i rest :
  instr_ok i -> decode1 (encode_instr i ++ rest) = Some (i, rest).
Proof.
  intros Hok. destruct (instr_roundtrip i Hok) as [Hf Hi].
  unfold encode_instr, decode1. cbn [app].
  rewrite op_of_code_op_code, (read_args_encode _ _ rest Hf), Hi. reflexivity.
Qed.

Lemma encode_instr_length i : length (encode_instr i) >= 1.
Proof. unfold encode_instr. cbn [length]. lia. Qed.

Lemma decode_from_encode is :
  Forall instr_ok is ->
  forall fuel p, length (encode is) <= fuel -> decode_from fuel p (encode is) = Some (positions_from p is).
Proof.
  intros H; induction H as [|i is Hi _ IH]; intros fuel p Hfuel.
  - destruct fuel; reflexivity.
  - unfold encode in *. cbn [flat_map] in *. rewrite app_length in Hfuel.
    pose proof (encode_instr_length i) as Hl.
    destruct fuel as [|fuel]; [lia|].
    destruct (encode_instr i ++ flat_map encode_instr is) as [|b r] eqn:E.
    { destruct (encode_instr i); cbn in *; [lia | discriminate]. }
    cbn [decode_from]. rewrite <- E, decode1_encode by exact Hi.
    rewrite IH by lia. reflexivity.
Qed.

Theorem decode_encode is :
  Forall instr_ok is -> decode (encode is) = Some (positions is).
Proof. intros H. unfold decode, positions. apply decode_from_encode; auto. Qed.

(* the VM's operand widths and Instruction::span agree for every opcode *)
Lemma span_table_vs_vm :
  forall o n, In (o, n) span_table -> n = op_span o.
Proof.
  intros o n H. cbn in H.
  repeat (destruct H as [H|H]; [inversion H; subst; reflexivity|]).
  contradiction.
Qed.

(* ------------------------------------------------------------------ wf_check is sound *)
Lemma mem_N_In x (is : list (nat * instr)) :
  mem_N x (map (fun pi => N.of_nat (fst pi)) is) = true -> In (N.to_nat x) (map fst is).
Proof.
  unfold mem_N. intros H. apply existsb_exists in H. destruct H as [y [Hy E]].
  apply in_map_iff in Hy. destruct Hy as [pi [Hpi Hin]]. apply N.eqb_eq in E. subst.
  rewrite Nat2N.id. apply in_map; auto.
Qed.

Lemma nodup_N_NoDup l : nodup_N l = true -> NoDup l.
Proof.
  unfold nodup_N. induction l as [|x r IH]; intros H; [constructor|].
  apply andb_true_iff in H. destruct H as [H1 H2]. constructor; auto.
  intros Hin. apply negb_true_iff in H1.
  assert (existsb (N.eqb x) r = true); [|congruence].
  apply existsb_exists. exists x; split; auto. apply N.eqb_refl.
Qed.

Lemma ends_with_exit_spec is :
  ends_with_exit is = true -> exists is' p, is = is' ++ [(p, IExit)].
Proof.
  unfold ends_with_exit. intros H. destruct (rev is) as [|[p i] r] eqn:E; [discriminate|].
  destruct i; try discriminate. exists (rev r), p.
  rewrite <- (rev_involutive is), E. reflexivity.
Qed.

Theorem wf_check_gen_sound w B : wf_check_gen w B = true -> wellformed_gen w B.
Proof.
  unfold wf_check_gen, wellformed_gen. destruct (decode (p_bytecode B)) as [is|]; [|discriminate].
  intros H.
  apply andb_true_iff in H; destruct H as [H Htrace].
  apply andb_true_iff in H; destruct H as [H Hvars].
  apply andb_true_iff in H; destruct H as [H Hlab].
  apply andb_true_iff in H; destruct H as [Hexit Hinstr].
  rewrite forallb_forall in Hinstr, Hlab, Htrace.
  exists is. split; [reflexivity|]. split; [apply ends_with_exit_spec; auto|].
  split.
  { intros p i z Hin Hj. specialize (Hinstr _ Hin). cbn [snd] in Hinstr.
    apply andb_true_iff in Hinstr; destruct Hinstr as [Hinstr _].
    apply andb_true_iff in Hinstr; destruct Hinstr as [Hj' _].
    unfold jump_ok in Hj'. rewrite Hj in Hj'. apply andb_true_iff in Hj'. destruct Hj' as [Hz Hm].
    apply Z.leb_le in Hz. split; auto.
    apply mem_N_In in Hm. rewrite Z_N_nat in Hm. exact Hm. }
  split.
  { intros h pos Hin. specialize (Hlab _ Hin). apply mem_N_In in Hlab. exact Hlab. }
  split.
  { intros p i off Hin Hs. specialize (Hinstr _ Hin). cbn [snd] in Hinstr.
    apply andb_true_iff in Hinstr; destruct Hinstr as [Hinstr _].
    apply andb_true_iff in Hinstr; destruct Hinstr as [_ Hs'].
    unfold string_ok in Hs'. rewrite Hs in Hs'.
    destruct (read_str w (p_data B) off) as [s|]; [eauto | discriminate]. }
  split.
  { intros p i Hin. specialize (Hinstr _ Hin). cbn [snd] in Hinstr.
    apply andb_true_iff in Hinstr; destruct Hinstr as [_ Hi]. exact Hi. }
  split.
  { unfold vars_ok in Hvars.
    apply andb_true_iff in Hvars; destruct Hvars as [Hvars Hnames].
    apply andb_true_iff in Hvars; destruct Hvars as [Hvars Hids].
    apply andb_true_iff in Hvars; destruct Hvars as [Hvars Hnd3].
    apply andb_true_iff in Hvars; destruct Hvars as [Hvars Hnd2].
    apply andb_true_iff in Hvars; destruct Hvars as [Hlen Hnd1].
    rewrite forallb_forall in Hnames, Hids.
    split; [apply Nat.eqb_eq; auto|].
    split; [apply nodup_N_NoDup; auto|]. split; [apply nodup_N_NoDup; auto|].
    split; [apply nodup_N_NoDup; auto|].
    split.
    - intros h id Hin. specialize (Hids _ Hin). cbn [fst snd] in Hids.
      apply andb_true_iff in Hids. destruct Hids as [Hlt Hn]. apply N.ltb_lt in Hlt. split; auto.
      destruct (nm_find (handle_from_u32 id) (p_names B)) as [name|]; [|discriminate].
      exists name. split; auto. apply N.eqb_eq; auto.
    - intros k name Hin. specialize (Hnames _ Hin). cbn [fst snd] in Hnames.
      destruct (nm_find (handle_of_bytes name) (p_ids B)) as [id|]; [|discriminate].
      exists id. split; auto. apply N.eqb_eq; auto. }
  intros a l Hin. specialize (Htrace _ Hin). apply mem_N_In in Htrace. exact Htrace.
Qed.

Theorem wf_check_sound B : wf_check B = true -> wellformed B.
Proof. apply wf_check_gen_sound. Qed.

Theorem trace_complete_check_sound B : trace_complete_check B = true -> trace_complete B.
Proof.
  unfold trace_complete_check, trace_complete, untraced. intros H is p i Hd Hin Hn.
  rewrite Hd in H.
  destruct (existsb (fun al => N.eqb (fst al) (N.of_nat p)) (p_trace B)) eqn:E.
  - apply existsb_exists in E. destruct E as [[a l] [Hal Ea]]. cbn [fst] in Ea. apply N.eqb_eq in Ea.
    subst. eauto.
  - exfalso.
    assert (Hf : In (p, i) (filter (fun pi => needs_trace (snd pi)
                     && negb (mem_N (N.of_nat (fst pi)) (map fst (p_trace B)))) is)).
    { apply filter_In. split; auto. cbn [fst snd]. rewrite Hn. cbn [andb].
      apply negb_true_iff. unfold mem_N.
      destruct (existsb (N.eqb (N.of_nat p)) (map fst (p_trace B))) eqn:E2; auto.
      apply existsb_exists in E2. destruct E2 as [a [Ha Ea]]. apply in_map_iff in Ha.
      destruct Ha as [[a' l] [Ha' Hin']]. cbn [fst] in Ha'. subst a'.
      assert (existsb (fun al => N.eqb (fst al) (N.of_nat p)) (p_trace B) = true); [|congruence].
      apply existsb_exists. exists (a, l). split; auto. cbn [fst]. rewrite N.eqb_sym. exact Ea. }
    destruct (filter _ is); [contradiction | discriminate].
Qed.

(* ------------------------------------------------------------------ the model reproduces A-23 / A-24 *)
Lemma wellformed_strings w B is :
  wellformed_gen w B -> decode (p_bytecode B) = Some is ->
  forallb (fun pi => string_ok w (p_data B) (snd pi)) is = true.
Proof.
  intros (is' & Hd & _ & _ & _ & Hs & _) Hd'. rewrite Hd in Hd'. injection Hd' as ->.
  apply forallb_forall. intros [p i] Hin. cbn [snd]. unfold string_ok.
  destruct (str_operand i) as [off|] eqn:E; auto.
  destruct (Hs p i off Hin E) as [s ->]. reflexivity.
Qed.

Lemma trace_complete_check_complete B : trace_complete B -> trace_complete_check B = true.
Proof.
  unfold trace_complete, trace_complete_check, untraced. intros H.
  destruct (decode (p_bytecode B)) as [is|] eqn:Hd; [|reflexivity].
  destruct (filter _ is) as [|[p i] r] eqn:Ef; [reflexivity|]. exfalso.
  assert (Hin : In (p, i) (filter (fun pi => needs_trace (snd pi)
                   && negb (mem_N (N.of_nat (fst pi)) (map fst (p_trace B)))) is))
    by (rewrite Ef; left; reflexivity).
  apply filter_In in Hin. destruct Hin as [Hin Hc]. cbn [fst snd] in Hc.
  apply andb_true_iff in Hc. destruct Hc as [Hn Hm]. apply negb_true_iff in Hm.
  destruct (H is p i eq_refl Hin Hn) as [l Hl].
  assert (mem_N (N.of_nat p) (map fst (p_trace B)) = true); [|congruence].
  unfold mem_N. apply existsb_exists. exists (N.of_nat p). split; [|apply N.eqb_refl].
  apply in_map_iff. exists (N.of_nat p, l). split; auto.
Qed.

Definition default_options : options := {| o_recursion_limit := 64; o_debug := true |}.
Definition main_module (cards : list card) : module :=
  Module [] [(s_main, {| f_args := []; f_cards := cards |})] [].

(* A-23 (repaired in /repo by "string literals longer than 252 bytes can be read at run time"):
   `main = [StringLiteral("L" x 253)]` compiles into a program that is well-formed for a reader
   without window and ill-formed for the former reader with the MAX_STR_LEN window *)
Definition a23_module : module := main_module [CStringLiteral (repeat 76%N 253)].
Lemma a23_witness :
  exists B, compile a23_module default_options = COk B /\ wellformed_gen false B /\ ~ wellformed_gen true B.
Proof.
  destruct (compile a23_module default_options) as [B| | |] eqn:E; try (vm_compute in E; discriminate).
  exists B. split; [reflexivity|]. split.
  - apply wf_check_gen_sound. vm_compute in E. injection E as <-. vm_compute. reflexivity.
  - intros Hw. destruct (decode (p_bytecode B)) as [is|] eqn:Hd.
    + pose proof (wellformed_strings true B is Hw Hd) as Hs.
      vm_compute in E. injection E as <-. vm_compute in Hd. injection Hd as <-.
      vm_compute in Hs. discriminate.
    + destruct Hw as (is' & Hd' & _). congruence.
Qed.

(* A-24 (repaired in /repo by "the Pop / CloseUpvalue instructions emitted at scope end get a trace
   entry"): `main = [SetVar x := 1; Closure([], [ReadVar x])]` - x is captured, scope_end emits
   CloseUpvalue; every instruction of the result now has a trace entry *)
Definition a24_module : module :=
  main_module [CSetVar [120%N] (CScalarInt 1); CClosure [] [CReadVar [120%N]]].
Lemma a24_repaired :
  exists B, compile a24_module default_options = COk B /\ wellformed B /\ trace_complete B.
Proof.
  destruct (compile a24_module default_options) as [B| | |] eqn:E; try (vm_compute in E; discriminate).
  exists B. split; [reflexivity|]. split.
  - apply wf_check_sound. vm_compute in E. injection E as <-. vm_compute. reflexivity.
  - apply trace_complete_check_sound. vm_compute in E. injection E as <-. vm_compute. reflexivity.
Qed.
