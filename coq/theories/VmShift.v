(* C03 with re-entry, part 1 (definitions and the instructions that cannot re-enter): a run that ends with at least one unit of budget left (so no Timeout was raised at any
   nesting level, not even one swallowed by a native) is not affected by a larger budget: same outcome, same final
   state except that the remaining budget is larger by the difference.
   Method: [shift d] adds d to the remaining budget; every instruction, every native of the menu and run_function
   commute with [shift d] as long as the result still has budget left. *)
From Coq Require Import NArith ZArith List Lia Bool.
From Cao Require Import ListUtil Bits Stacks Vm VmWitness VmProofs.
Import ListNotations.

Set Implicit Arguments.

Definition sres_state (r : sres) : state :=
  match r with SNext _ s | SExit s | SErr _ _ s | SStop _ s => s end.
Definition nres_state (r : nres) : state :=
  match r with NOk _ s | NErr _ s | NStop _ s => s end.

Definition alive (s : state) : Prop := (1 <= st_rem s)%N.

Lemma paid_alive a b : paid (cr a) (cr b) -> alive b -> alive a.
Proof. unfold paid, cr, alive. cbn [fst snd]. lia. Qed.

Definition shift (d : N) (s : state) : state := set_rem s (st_rem s + d).
Definition sres_shift d (r : sres) : sres :=
  match r with
  | SNext ip s => SNext ip (shift d s) | SExit s => SExit (shift d s)
  | SErr e ip s => SErr e ip (shift d s) | SStop a s => SStop a (shift d s)
  end.
Definition rres_shift d (r : rres) : rres :=
  match r with
  | ROk s => ROk (shift d s) | RErr e ip s => RErr e ip (shift d s) | RStop a s => RStop a (shift d s)
  end.
Definition nres_shift d (r : nres) : nres :=
  match r with
  | NOk v s => NOk v (shift d s) | NErr e s => NErr e (shift d s) | NStop a s => NStop a (shift d s)
  end.
Definition closeres_shift d (r : closeres) : closeres :=
  match r with
  | ClOk s => ClOk (shift d s) | ClErr e s => ClErr e (shift d s) | ClStop a s => ClStop a (shift d s)
  end.


Ltac sh_cbn :=
  cbn [st_stack st_calls st_globals st_heap st_open st_log st_count st_rem shift set_rem set_stack set_calls
       set_globals set_heap set_open set_log tick log_push set_table sraw_set sraw_get spop_n
       sres_shift rres_shift nres_shift closeres_shift fst snd] in *.

Ltac sh_unfold :=
  unfold push_next, of_vres, binary_op, spush, spop, slast, scount, sget, sset, sclear_until, spop_w_offset,
         speek, salloc, halloc, push_frame, top_offset, write_local, sraw_get, sraw_set, spop_n, set_table,
         log_push in *.

(* brute force: no helper looks at the remaining budget, so both sides have the same scrutinees *)
Ltac sh_auto :=
  repeat first
    [ progress sh_unfold
    | progress sh_cbn
    | match goal with
      | |- context [match ?x with _ => _ end] =>
          lazymatch x with
          | context [match _ with _ => _ end] => fail
          | _ => destruct x eqn:?
          end
      end ];
  try reflexivity.


Section ShiftInstr.
  Variable d : N.
  Variable F : fops.
  Variable bld : build.
  Variable P : program.

  Lemma close_upvalues_go_shift fuel top : forall s,
    close_upvalues_go fuel top (shift d s) = closeres_shift d (close_upvalues_go fuel top s).
  Proof.
    induction fuel as [|f IH]; intros s; cbn [close_upvalues_go]; [reflexivity|].
    sh_cbn.
    destruct (st_open s) as [a|]; [|reflexivity].
    destruct (hget (st_heap s) a) as [[t|b|h ar|h|h ar ups|u]|]; try reflexivity.
    destruct (u_loc u) as [l|]; [|reflexivity].
    destruct (l <? top); [reflexivity|].
    match goal with |- close_upvalues_go f top ?x = _ =>
      match goal with |- _ = closeres_shift d (close_upvalues_go f top ?y) => change x with (shift d y) end end.
    apply IH.
  Qed.

  Lemma close_upvalues_from_shift top s :
    close_upvalues_from top (shift d s) = closeres_shift d (close_upvalues_from top s).
  Proof. unfold close_upvalues_from. sh_cbn. apply close_upvalues_go_shift. Qed.

  (* ---- instructions that cannot re-enter ---- *)
  Lemma binary_op_shift ip s op : binary_op ip (shift d s) op = sres_shift d (binary_op ip s op).
  Proof. sh_auto. Qed.
  Lemma push_next_shift ip s v : push_next ip (shift d s) v = sres_shift d (push_next ip s v).
  Proof. sh_auto. Qed.
  Lemma i_5_shift opc ip0 ip s : i_5 P opc ip0 ip (shift d s) = sres_shift d (i_5 P opc ip0 ip s).
  Proof. unfold i_5. sh_auto. Qed.
  Lemma i_6_shift opc ip0 ip s : i_6 P opc ip0 ip (shift d s) = sres_shift d (i_6 P opc ip0 ip s).
  Proof. unfold i_6. sh_auto. Qed.
  Lemma i_8_shift opc ip0 ip s : i_8 P opc ip0 ip (shift d s) = sres_shift d (i_8 P opc ip0 ip s).
  Proof. unfold i_8. sh_auto. Qed.
  Lemma i_17_shift opc ip0 ip s : i_17 P opc ip0 ip (shift d s) = sres_shift d (i_17 P opc ip0 ip s).
  Proof. unfold i_17. sh_auto. Qed.
  Lemma i_18_shift opc ip0 ip s : i_18 P opc ip0 ip (shift d s) = sres_shift d (i_18 P opc ip0 ip s).
  Proof. unfold i_18. sh_auto. Qed.
  Lemma i_19_shift opc ip0 ip s : i_19 P opc ip0 ip (shift d s) = sres_shift d (i_19 P opc ip0 ip s).
  Proof. unfold i_19. sh_auto. Qed.
  Lemma i_20_shift opc ip0 ip s : i_20 P opc ip0 ip (shift d s) = sres_shift d (i_20 P opc ip0 ip s).
  Proof. unfold i_20. sh_auto. Qed.
  Lemma i_21_shift opc ip0 ip s : i_21 opc ip0 ip (shift d s) = sres_shift d (i_21 opc ip0 ip s).
  Proof. unfold i_21. sh_auto. Qed.
  Lemma i_22_shift opc ip0 ip s : i_22 opc ip0 ip (shift d s) = sres_shift d (i_22 opc ip0 ip s).
  Proof.
    unfold i_22. sh_cbn. destruct (st_calls s) as [|fr rest]; [reflexivity|].
    change (set_calls (shift d s) rest) with (shift d (set_calls s rest)).
    rewrite close_upvalues_from_shift.
    destruct (close_upvalues_from (N.to_nat (fr_off fr)) (set_calls s rest)) as [s2|e s2|a s2]; sh_cbn;
      try reflexivity.
    sh_auto.
  Qed.
  Lemma i_23_shift opc ip0 ip s : i_23 opc ip0 ip (shift d s) = sres_shift d (i_23 opc ip0 ip s).
  Proof. unfold i_23. sh_auto. Qed.
  Lemma i_27_shift opc ip0 ip s : i_27 F opc ip0 ip (shift d s) = sres_shift d (i_27 F opc ip0 ip s).
  Proof. unfold i_27. sh_auto. Qed.
  Lemma i_28_shift opc ip0 ip s : i_28 bld P opc ip0 ip (shift d s) = sres_shift d (i_28 bld P opc ip0 ip s).
  Proof. unfold i_28. sh_auto. Qed.
  Lemma i_29_30_shift opc ip0 ip s :
    i_29_30 F bld P opc ip0 ip (shift d s) = sres_shift d (i_29_30 F bld P opc ip0 ip s).
  Proof. unfold i_29_30. sh_auto. Qed.
  Lemma i_31_shift opc ip0 ip s : i_31 opc ip0 ip (shift d s) = sres_shift d (i_31 opc ip0 ip s).
  Proof. unfold i_31. sh_auto. Qed.
  Lemma i_32_shift opc ip0 ip s : i_32 F opc ip0 ip (shift d s) = sres_shift d (i_32 F opc ip0 ip s).
  Proof. unfold i_32. sh_auto. Qed.
  Lemma i_33_shift opc ip0 ip s : i_33 F opc ip0 ip (shift d s) = sres_shift d (i_33 F opc ip0 ip s).
  Proof. unfold i_33. sh_auto. Qed.
  Lemma i_34_shift opc ip0 ip s : i_34 opc ip0 ip (shift d s) = sres_shift d (i_34 opc ip0 ip s).
  Proof. unfold i_34. sh_auto. Qed.
  Lemma i_35_shift opc ip0 ip s : i_35 P opc ip0 ip (shift d s) = sres_shift d (i_35 P opc ip0 ip s).
  Proof. unfold i_35. sh_auto. Qed.
  Lemma i_36_shift opc ip0 ip s : i_36 F bld P opc ip0 ip (shift d s) = sres_shift d (i_36 F bld P opc ip0 ip s).
  Proof. unfold i_36. sh_auto. Qed.
  Lemma i_37_42_shift opc ip0 ip s : i_37_42 P opc ip0 ip (shift d s) = sres_shift d (i_37_42 P opc ip0 ip s).
  Proof. unfold i_37_42. sh_auto. Qed.
  Lemma i_38_shift opc ip0 ip s : i_38 P opc ip0 ip (shift d s) = sres_shift d (i_38 P opc ip0 ip s).
  Proof. unfold i_38. sh_auto. Qed.
  Lemma i_39_shift opc ip0 ip s : i_39 F opc ip0 ip (shift d s) = sres_shift d (i_39 F opc ip0 ip s).
  Proof. unfold i_39. sh_auto. Qed.
  Lemma i_40_shift opc ip0 ip s : i_40 F opc ip0 ip (shift d s) = sres_shift d (i_40 F opc ip0 ip s).
  Proof. unfold i_40. sh_auto. Qed.
  Lemma i_41_shift opc ip0 ip s : i_41 F opc ip0 ip (shift d s) = sres_shift d (i_41 F opc ip0 ip s).
  Proof. unfold i_41. sh_auto. Qed.
  Lemma i_43_44_shift opc ip0 ip s : i_43_44 P opc ip0 ip (shift d s) = sres_shift d (i_43_44 P opc ip0 ip s).
  Proof. unfold i_43_44. sh_auto. Qed.
  Lemma i_45_shift opc ip0 ip s : i_45 P opc ip0 ip (shift d s) = sres_shift d (i_45 P opc ip0 ip s).
  Proof. unfold i_45. sh_auto. Qed.
  Lemma i_46_shift opc ip0 ip s : i_46 P opc ip0 ip (shift d s) = sres_shift d (i_46 P opc ip0 ip s).
  Proof.
    unfold i_46. destruct (op_u32 P ip); [|reflexivity]. unfold top_offset. sh_cbn.
    destruct (st_calls s); [reflexivity|].
    rewrite close_upvalues_from_shift. destruct (close_upvalues_from _ s); reflexivity.
  Qed.
End ShiftInstr.
