(* Model of the equality / hash / ordering / truthiness of runtime values:
     cao-lang/src/value.rs                         PartialEq, Hash, PartialOrd, try_cast_match, as_bool,
                                                   TryFrom<Value> for i64 / f64
     cao-lang/src/vm/runtime/cao_lang_object.rs    Hash, PartialEq, PartialOrd, len, is_empty
     cao-lang/src/vm/runtime/cao_lang_table.rs     len = keys.len(); iter = keys filtered by map.get(k)
     cao-lang/src/collections/hash_map.rs          CaoHasher (FNV-1a-32), hash(): 0 is remapped to 1
   over ACYCLIC values, represented as a tree.  Hand transcription; tied to the code by the C19
   correspondence check.

   Reals are Flocq binary64 values.  Every operation on them goes through their [spec_float]
   image [B2SF] and Coq's / Flocq's proof-free functions ([SFcompare], [SFeqb],
   [BinarySingleNaN.binary_round]); so the definitions below do not depend on the axioms of the
   real numbers.  [ValueProofs.v] relates them to [Bcompare], [B2R], [binary_normalize]. *)
From Coq Require Import ZArith NArith List Bool.
From Coq Require Import Floats.SpecFloat.
From Flocq Require Import IEEE754.Binary IEEE754.Bits.
From Flocq Require IEEE754.BinarySingleNaN.
From Cao Require Import CheckUtil Bits.
Import ListNotations.

Definition f64 := binary64.

Inductive tval :=
| TNil
| TInt (z : Z)                               (* Value::Integer, an i64 *)
| TReal (f : f64)                            (* Value::Real *)
| TStr (bytes : list N)                      (* Object/String: the UTF-8 bytes *)
| TTable (entries : list (tval * tval))      (* Object/Table: `keys` in insertion order, each with the
                                                value stored for it *)
| TFn (handle arity : N)                     (* Object/Function: Handle (u32), arity (u32) *)
| TNative (handle : N)                       (* Object/NativeFunction *)
| TClosure (id handle arity : N).            (* Object/Closure (function.handle, function.arity); closures
                                                have identity: [id] names the object (the harness
                                                numbers the closure objects of a case in first-seen
                                                order), the same id = the very same object *)

(* ---- f64 helpers, all on spec_float ---- *)
Definition sf (f : f64) : spec_float := B2SF 53 1024 f.
Definition sf_zero : spec_float := S754_zero false.
Definition sf_is_nan (x : spec_float) : bool := match x with S754_nan => true | _ => false end.
Definition sf_is_zero (x : spec_float) : bool := match x with S754_zero _ => true | _ => false end.

(* `i as f64` for an i64 / usize: round to nearest, ties to even (never overflows) *)
Definition sf_of_Z (i : Z) : spec_float :=
  match i with
  | Z0 => S754_zero false
  | Zpos m => BinarySingleNaN.binary_round 53 1024 BinarySingleNaN.mode_NE false m 0
  | Zneg m => BinarySingleNaN.binary_round 53 1024 BinarySingleNaN.mode_NE true m 0
  end.

Definition i64_min : Z := (-9223372036854775808)%Z.
Definition i64_max : Z := 9223372036854775807%Z.
(* `r as i64`: truncation towards zero, saturating, NaN -> 0 *)
Definition sf_to_i64 (x : spec_float) : Z :=
  match x with
  | S754_zero _ | S754_nan => 0%Z
  | S754_infinity s => if s then i64_min else i64_max
  | S754_finite s m e =>
      let a := match e with
               | Z0 => Zpos m
               | Zpos p => (Zpos m * 2 ^ Zpos p)%Z
               | Zneg p => (Zpos m / 2 ^ Zpos p)%Z
               end in
      let v := if s then (- a)%Z else a in
      Z.max i64_min (Z.min i64_max v)
  end.

Definition f64_bits (f : f64) : N := Z.to_N (bits_of_b64 f).

(* ---- shape ---- *)
Definition is_real (a : tval) : bool := match a with TReal _ => true | _ => false end.
Definition is_int (a : tval) : bool := match a with TInt _ => true | _ => false end.
Definition is_obj (a : tval) : bool :=
  match a with TNil | TInt _ | TReal _ => false | _ => true end.
Definition is_fn (a : tval) : bool :=
  match a with TFn _ _ | TNative _ | TClosure _ _ _ => true | _ => false end.

(* CaoLangObject::len: table = keys.len() (every inserted key, also those `iter` skips),
   string = byte length, functions = 0 *)
Definition tlen (a : tval) : nat :=
  match a with
  | TStr bs => length bs
  | TTable l => length l
  | _ => 0
  end.

(* ---- PartialEq ----
   CaoLangTable::iter yields (k, map.get(k)) for the keys k that the map still finds: a key k
   with k != k (a NaN, or a table showing a NaN) is never found, the entry is skipped; such keys
   still count in len().  [tself k] is that test (proved equal to [teq k k] in ValueProofs).
   Function objects are equal to themselves since the repair f13cfaa (finding A-40; the code
   before it is [tself_legacy] / [teq_legacy] at the end of this file). *)
Fixpoint tself (a : tval) : bool :=
  match a with
  | TNil | TInt _ | TStr _ => true
  | TReal f => negb (sf_is_nan (sf f))
  | TTable l =>
      (fix go (l : list (tval * tval)) : bool :=
         match l with
         | [] => true
         | (k, v) :: r => (if tself k then tself v else true) && go r
         end) l
  | TFn _ _ | TNative _ | TClosure _ _ _ => true
  end.

(* the entries `iter` yields *)
Definition tvis (l : list (tval * tval)) : list (tval * tval) :=
  filter (fun kv => tself (fst kv)) l.

(* impl PartialEq for Value / CaoLangObject.  Tables: equal len(), then the two iterators are
   zipped (the zip stops at the shorter one) and compared pairwise, key and value.
   Function: same handle and arity; NativeFunction: same handle; Closure: std::ptr::eq, the very
   same object (whatever handle and arity: they are a function of the object). *)
Fixpoint teq (a b : tval) : bool :=
  match a, b with
  | TNil, TNil => true
  | TInt x, TInt y => Z.eqb x y
  | TReal f, TReal g => SFeqb (sf f) (sf g)
  | TStr x, TStr y => list_eqb N.eqb x y
  | TTable l1, TTable l2 =>
      Nat.eqb (length l1) (length l2) &&
      (fix go (l1 l2 : list (tval * tval)) {struct l1} : bool :=
         match l1 with
         | [] => true
         | (k1, v1) :: r1 =>
             if tself k1 then
               (fix go2 (l2 : list (tval * tval)) : bool :=
                  match l2 with
                  | [] => true
                  | (k2, v2) :: r2 =>
                      if tself k2 then teq k1 k2 && teq v1 v2 && go r1 r2
                      else go2 r2
                  end) l2
             else go r1 l2
         end) l1 l2
  | TFn h ar, TFn h' ar' => N.eqb h h' && N.eqb ar ar'
  | TNative h, TNative h' => N.eqb h h'
  | TClosure i _ _, TClosure j _ _ => N.eqb i j
  | _, _ => false
  end.

(* ---- Hash: the bytes written to CaoHasher ----
   Nil: 0u8;  Integer: i64 -> 8 LE bytes;  Real: to_bits() u64 -> 8 LE bytes;
   String: `str::hash` = bytes then 0xff;  Table: for (k, v) in iter(): k, v  (no length prefix);
   Function: handle.value() u32 (4 LE bytes), arity u32;  NativeFunction: handle;
   Closure: function.handle, function.arity. *)
Fixpoint thash_bytes (a : tval) : list N :=
  match a with
  | TNil => [0%N]
  | TInt z => le_bytes 8 (i64_to_u64 z)
  | TReal f => le_bytes 8 (f64_bits f)
  | TStr bs => bs ++ [255%N]
  | TTable l =>
      (fix go (l : list (tval * tval)) : list N :=
         match l with
         | [] => []
         | (k, v) :: r =>
             (if tself k then thash_bytes k ++ thash_bytes v else []) ++ go r
         end) l
  | TFn h ar => le_bytes 4 h ++ le_bytes 4 ar
  | TNative h => le_bytes 4 h
  | TClosure _ h ar => le_bytes 4 h ++ le_bytes 4 ar
  end.

(* hash(): CaoHasher::default, the writes, finish; 0 -> 1.  Chained `write`s equal one write of
   the concatenation ([fnv_bytes_app] in ValueProofs). *)
Definition thash (a : tval) : N := nonzero_hash (fnv_bytes fnv_offset (thash_bytes a)).

(* ---- TryFrom<Value> for f64 / i64 (never fail) ---- *)
Definition to_sf (a : tval) : spec_float :=
  match a with
  | TNil => sf_zero
  | TInt i => sf_of_Z i
  | TReal f => sf f
  | _ => sf_of_Z (Z.of_nat (tlen a))
  end.

Definition to_i64 (a : tval) : Z :=
  match a with
  | TNil => 0%Z
  | TInt i => i
  | TReal f => sf_to_i64 (sf f)
  | _ => Z.of_nat (tlen a)
  end.

(* impl PartialOrd for CaoLangObject *)
Definition obj_cmp (a b : tval) : option comparison :=
  if teq a b then Some Eq
  else match Nat.compare (tlen a) (tlen b) with
       | Eq => None
       | c => Some c
       end.

Definition opp_oc (c : option comparison) : option comparison :=
  match c with Some c => Some (CompOpp c) | None => None end.

(* r.trunc() as an integer, and the sign of r - r.trunc() (Lt negative, Eq zero, Gt positive),
   of a finite or zero float *)
Definition sf_trunc_frac (x : spec_float) : Z * comparison :=
  match x with
  | S754_finite s m e =>
      match e with
      | Z0 => (if s then Zneg m else Zpos m, Eq)
      | Zpos p => ((if s then Zneg m else Zpos m) * 2 ^ Zpos p, Eq)%Z
      | Zneg p =>
          let q := (Zpos m / 2 ^ Zpos p)%Z in
          let r := (Zpos m mod 2 ^ Zpos p)%Z in
          (if s then (- q)%Z else q, if Z.eqb r 0 then Eq else if s then Lt else Gt)
      end
  | _ => (0%Z, Eq)
  end.

Definition two63 : Z := 9223372036854775808%Z.

(* fn cmp_int_real(i, r) of value.rs (repair d3f91fb of finding A-30): NaN -> None;
   r >= 2^63 -> Less; r < -2^63 -> Greater; otherwise i.cmp(r.trunc() as i64) - the cast is exact
   in that range - and a tie is decided by the sign of the fractional part. *)
Definition cmp_int_real (i : Z) (x : spec_float) : option comparison :=
  match x with
  | S754_nan => None
  | S754_infinity s => Some (if s then Gt else Lt)
  | _ =>
      let '(w, fs) := sf_trunc_frac x in
      if (two63 <=? w)%Z then Some Lt
      else if (w <? - two63)%Z || ((w =? - two63)%Z && match fs with Lt => true | _ => false end)
      then Some Gt
      else Some match Z.compare i w with
                | Eq => CompOpp fs        (* frac > 0: i < r;  frac < 0: i > r *)
                | c => c
                end
  end.

(* impl PartialOrd for Value.  A real on exactly one side: the other side as i64 (TryFrom: an
   integer itself, nil 0, an object its length) is compared with it exactly by cmp_int_real.
   Otherwise try_cast_match, inlined: two reals -> f64::partial_cmp; an integer on either side ->
   both as i64; two objects -> CaoLangObject::partial_cmp; anything else (Nil/Nil, Nil/object)
   -> None.  ([tcmp_legacy] below is the code before d3f91fb.) *)
Definition tcmp (a b : tval) : option comparison :=
  match a, b with
  | TReal f, TReal g => SFcompare (sf f) (sf g)
  | TReal f, _ => opp_oc (cmp_int_real (to_i64 b) (sf f))
  | _, TReal g => cmp_int_real (to_i64 a) (sf g)
  | _, _ =>
      if is_int a || is_int b then Some (Z.compare (to_i64 a) (to_i64 b))
      else if is_obj a && is_obj b then obj_cmp a b
      else None
  end.

(* before d3f91fb: a real on either side -> both as f64, the integer rounded (finding A-30) *)
Definition tcmp_legacy (a b : tval) : option comparison :=
  if is_real a || is_real b then SFcompare (to_sf a) (to_sf b)
  else if is_int a || is_int b then Some (Z.compare (to_i64 a) (to_i64 b))
  else if is_obj a && is_obj b then obj_cmp a b
  else None.

(* `a < b`, `a <= b` as the Less / LessOrEq cards evaluate them (PartialOrd's provided methods) *)
Definition tlt (a b : tval) : bool := match tcmp a b with Some Lt => true | _ => false end.
Definition tle (a b : tval) : bool := match tcmp a b with Some Lt | Some Eq => true | _ => false end.

(* Value::as_bool *)
Definition tbool (a : tval) : bool :=
  match a with
  | TNil => false
  | TInt i => negb (Z.eqb i 0)
  | TReal f => negb (SFeqb (sf f) sf_zero)
  | TStr bs => negb (Nat.eqb (length bs) 0)
  | TTable l => negb (Nat.eqb (length l) 0)
  | TFn _ _ | TNative _ | TClosure _ _ _ => true
  end.

(* ---- predicates used in the statements ---- *)
(* [tall p a]: p holds at a and at every key and value nested in it *)
Fixpoint tall (p : tval -> bool) (a : tval) : bool :=
  p a &&
  match a with
  | TTable l =>
      (fix go (l : list (tval * tval)) : bool :=
         match l with
         | [] => true
         | (k, v) :: r => tall p k && tall p v && go r
         end) l
  | _ => true
  end.

Definition node_not_nan (a : tval) : bool :=
  match a with TReal f => negb (sf_is_nan (sf f)) | _ => true end.
Definition node_not_fn (a : tval) : bool := negb (is_fn a).
Definition node_not_zero (a : tval) : bool :=
  match a with TReal f => negb (sf_is_zero (sf f)) | _ => true end.

(* the domain on which equality is an equivalence: no NaN anywhere inside *)
Definition no_nan (a : tval) : bool := tall node_not_nan a.
Definition no_fn (a : tval) : bool := tall node_not_fn a.
Definition no_zero_real (a : tval) : bool := tall node_not_zero a.

(* exact comparison of an integer with a spec_float, by cross-multiplication in Z (the
   specification oracle of the checker for mixed comparisons; [cmp_int_real] is proved equal to
   it on i64 in ValueProofs) *)
Definition Z_cmp_sf (i : Z) (x : spec_float) : option comparison :=
  match x with
  | S754_nan => None
  | S754_zero _ => Some (Z.compare i 0)
  | S754_infinity s => Some (if s then Gt else Lt)
  | S754_finite s m e =>
      let v := if s then Zneg m else Zpos m in
      Some match e with
           | Z0 => Z.compare i v
           | Zpos p => Z.compare i (v * 2 ^ Zpos p)
           | Zneg p => Z.compare (i * 2 ^ Zpos p) v
           end
  end.

(* ---- closure identities ----
   [tclos a]: every closure node of a as (id, (handle, arity)).  A set of values is coherent when
   an id names one object, i.e. determines handle and arity. *)
Fixpoint tclos (a : tval) : list (N * (N * N)) :=
  match a with
  | TClosure i h ar => [(i, (h, ar))]
  | TTable l =>
      (fix go (l : list (tval * tval)) : list (N * (N * N)) :=
         match l with
         | [] => []
         | (k, v) :: r => (tclos k ++ tclos v) ++ go r
         end) l
  | _ => []
  end.
Definition coherent (c : list (N * (N * N))) : Prop :=
  forall i x y, In (i, x) c -> In (i, y) c -> x = y.
Definition coherentb (c : list (N * (N * N))) : bool :=
  forallb (fun p => forallb (fun q =>
     if N.eqb (fst p) (fst q)
     then N.eqb (fst (snd p)) (fst (snd q)) && N.eqb (snd (snd p)) (snd (snd q)) else true) c) c.

(* ---- the code before the repair f13cfaa (finding A-40): function, closure and native function
   objects fell into `_ => false`, also against themselves; kept for the refutation lemmas ---- *)
Fixpoint tself_legacy (a : tval) : bool :=
  match a with
  | TNil | TInt _ | TStr _ => true
  | TReal f => negb (sf_is_nan (sf f))
  | TTable l =>
      (fix go (l : list (tval * tval)) : bool :=
         match l with
         | [] => true
         | (k, v) :: r => (if tself_legacy k then tself_legacy v else true) && go r
         end) l
  | TFn _ _ | TNative _ | TClosure _ _ _ => false
  end.

Fixpoint teq_legacy (a b : tval) : bool :=
  match a, b with
  | TNil, TNil => true
  | TInt x, TInt y => Z.eqb x y
  | TReal f, TReal g => SFeqb (sf f) (sf g)
  | TStr x, TStr y => list_eqb N.eqb x y
  | TTable l1, TTable l2 =>
      Nat.eqb (length l1) (length l2) &&
      (fix go (l1 l2 : list (tval * tval)) {struct l1} : bool :=
         match l1 with
         | [] => true
         | (k1, v1) :: r1 =>
             if tself_legacy k1 then
               (fix go2 (l2 : list (tval * tval)) : bool :=
                  match l2 with
                  | [] => true
                  | (k2, v2) :: r2 =>
                      if tself_legacy k2 then teq_legacy k1 k2 && teq_legacy v1 v2 && go r1 r2
                      else go2 r2
                  end) l2
             else go r1 l2
         end) l1 l2
  | _, _ => false
  end.

Fixpoint thash_bytes_legacy (a : tval) : list N :=
  match a with
  | TTable l =>
      (fix go (l : list (tval * tval)) : list N :=
         match l with
         | [] => []
         | (k, v) :: r =>
             (if tself_legacy k then thash_bytes_legacy k ++ thash_bytes_legacy v else []) ++ go r
         end) l
  | _ => thash_bytes a
  end.
Definition thash_legacy (a : tval) : N := nonzero_hash (fnv_bytes fnv_offset (thash_bytes_legacy a)).
