(* C04: the checks of the checked VM are not vacuous.
   (1) The corpus program "nested_budget" (VmWitness.v: main calls call1(spin, 12) three times, call1 re-enters the
       VM through run_function) runs through the checked VM without a failed check, nested runs included.
   (2) On the cyclic-table program of C04VmWitness.v (finding A-37) the check chk_store fails at the SetProperty
       that stores the table into itself: the checked VM stops there, before the comparison that aborts the VM. *)
From Coq Require Import NArith ZArith List.
From Cao Require Import ListUtil Bits Stacks Vm VmWitness C04VmProofs C04VmWitness C04VmChecked.
Import ListNotations.

Theorem checked_run_nested_ok : forall F bld,
  fst (run_c F bld nested_budget_program 1000 fresh_state) = OOk /\
  run F bld 1000 nested_budget_program fresh_state = run_c F bld nested_budget_program 1000 fresh_state.
Proof. intros F bld. destruct bld; vm_compute; split; reflexivity. Qed.

Theorem checked_run_cyclic_stops : forall F bld,
  fst (run_c F bld cyclic_prog 100 fresh_state) = OAbort AUnmodelled.
Proof. intros F bld. vm_compute. reflexivity. Qed.
