(* C01, simulation, fragment F2a: compile_correct for F1 plus IfTrue / IfFalse / IfElse. *)
From Coq Require Import List NArith ZArith Bool Lia.
From Cao Require Import ListUtil CheckUtil Bits CardAst Bytecode Compiler CompilerProofs CompilerWf CompilerResolve.
From Cao Require Import Stacks Vm VmProofs C04VmProofs C15Link.
From Cao Require RefSem.
From Cao Require Import C01SimKeep C01SimVm C01SimDefs C01SimComp C01SimRef C01SimF1 C01SimDefs2 C01SimComp2 C01SimRef2.
Import ListNotations.
Local Open Scope N_scope.

Section Run2.
Variable F : fops.
Variable bld : build.
Variable P : program.
Variable T : list (N * N).
Variable names : list str.

Hypothesis T_lt : forall h id, nm_find h T = Some id -> id < two32.
Hypothesis T_inj : forall h1 h2 id, nm_find h1 T = Some id -> nm_find h2 T = Some id -> h1 = h2.
Hypothesis names_inj : handles_inj names = true.
Hypothesis P_small : code_len P < 2147483648.

Notation steps' := (steps F bld P cap calls0 (@nil obj) None (@nil (list tval))).
Notation exec1' := (exec1 F bld P cap calls0 (@nil obj) None (@nil (list tval))).
Notation exec_err' := (exec_err F bld P cap calls0 (@nil obj) None (@nil (list tval))).
Notation seg' := (seg P).
Notation grel' := (grel T names).

Lemma seg_bound pre l : seg' pre l -> bytes (pre ++ l) <= code_len P.
Proof.
  intros [post E]. unfold code_len. rewrite E, encode_length, <- bytes_nbytes, !bytes_app. lia.
Qed.

Lemma seg_mid pre a i b :
  seg' pre (a ++ i :: b) -> seg' pre a /\ code_at P (bytes (pre ++ a)) i /\ seg' (pre ++ a ++ [i]) b.
Proof.
  intros H. split; [eapply seg_app_l; eauto|]. pose proof (seg_app_r _ _ _ _ H) as H2. split.
  - eapply seg_instr; eauto.
  - change (i :: b) with ([i] ++ b) in H2. apply seg_app_r in H2. rewrite <- app_assoc in H2. exact H2.
Qed.

Definition stmt_sim_res (pre : list instr) (c : card) (gr : list (str * RefSem.value)) (gv : list (option value)) : Prop :=
  let code := code_stmt2 T (bytes pre) c in
  let '(okf, gr') := run_stmt2 gr c in
  gsimple gr' /\
  if okf then
    exists k gv', (k <= length code)%nat /\ steps' k (bytes pre, [], gv) (bytes (pre ++ code), [], gv') /\ grel' gr' gv'
  else
    exists k c1 nm, (k < length code)%nat /\ steps' k (bytes pre, [], gv) c1 /\
                    exec_err' c1 (EVarNotFound nm) /\ grel' gr' (snd c1).

Definition stmt_sim (c : card) : Prop :=
  forall pre gr gv,
    seg' pre (code_stmt2 T (bytes pre) c) ->
    (forall n, In n (stmt_names2 c) -> In n names /\ nm_find (handle_of_bytes n) T <> None) ->
    (S (stmt_depth2 c) < cap)%nat ->
    grel' gr gv -> gsimple gr -> stmt_sim_res pre c gr gv.

(* the condition: evaluated on the empty stack, then the conditional jump *)
Lemma cond_sim e pre (jump_if : bool) tgt rest gr gv :
  expr_f1 e = true ->
  seg' pre (code_expr T e ++ (if jump_if then IGotoIfTrue else IGotoIfFalse) (u32_to_i32 tgt) :: rest) ->
  tgt < 2147483648 ->
  (forall n, In n (expr_names e) -> In n names /\ nm_find (handle_of_bytes n) T <> None) ->
  (S (depth e) < cap)%nat -> grel' gr gv -> gsimple gr ->
  match ev gr e with
  | Some v =>
      steps' (length (code_expr T e) + 1) (bytes pre, [], gv)
             (if Bool.eqb (RefSem.v_bool [] v) jump_if then tgt else bytes pre + bytes (code_expr T e) + 5, [], gv)
  | None => exists k c1 nm, (k < length (code_expr T e))%nat /\ steps' k (bytes pre, [], gv) c1 /\
                            exec_err' c1 (EVarNotFound nm) /\ snd c1 = gv
  end.
Proof.
  intros He Hseg Htgt Hn Hd Hrel Hsimp. destruct (seg_mid _ _ _ _ Hseg) as (Se & Hc & _).
  pose proof (expr_f1_sim F bld P T names T_lt names_inj e He pre [] gr gv Se Hn Hrel Hsimp
                          ltac:(cbn [length]; lia)) as Hex.
  destruct (ev gr e) as [v|] eqn:Ev; [|exact Hex].
  eapply steps_trans; [exact Hex|]. apply steps_1.
  pose proof (@ex_goto_if F bld P cap calls0 [] None [] jump_if (bytes (pre ++ code_expr T e)) tgt []
                (to_vm v) (RefSem.v_bool [] v) gv Hc Htgt (vm_not F [] v (ev_simple _ _ _ Hsimp Ev))) as X.
  rewrite bytes_app in X. rewrite bytes_app. exact X.
Qed.

Lemma code_stmt2_length T1 T2 b1 b2 c : length (code_stmt2 T1 b1 c) = length (code_stmt2 T2 b2 c).
Proof.
  revert b1 b2. induction c using card_ind'; intros b1 b2; cbn [code_stmt2]; try reflexivity.
  - destruct op; try reflexivity; cbv zeta; rewrite !app_length; cbn [length];
      rewrite (code_expr_length T1 T2 c1), (IHc2 _ (b2 + bytes (code_expr T2 c1) + 5)); reflexivity.
  - destruct op; try reflexivity. cbv zeta. rewrite !app_length. cbn [length]. rewrite !app_length. cbn [length].
    rewrite (code_expr_length T1 T2 c1), (IHc2 _ (b2 + bytes (code_expr T2 c1) + 5)).
    rewrite (IHc3 _ (b2 + bytes (code_expr T2 c1) + 5 + bytes (code_stmt2 T2 (b2 + bytes (code_expr T2 c1) + 5) c2) + 5)).
    reflexivity.
  - rewrite !app_length, (code_expr_length T1 T2). reflexivity.
  - (* Composite *)
    change (length (code_stmt2 T1 b1 (CComposite ty cards)) = length (code_stmt2 T2 b2 (CComposite ty cards))).
    rewrite !code_stmt2_composite. revert b1 b2.
    match goal with HF : Forall _ cards |- _ => induction HF as [|x r Hx _ IHr] end; intros b1 b2; [reflexivity|].
    cbn [code_main2]. cbv zeta. rewrite !app_length, (Hx b1 b2). f_equal. apply IHr.
Qed.

Definition cards_sim_res2 (pre : list instr) (cards : list card) (gr : list (str * RefSem.value)) (gv : list (option value)) : Prop :=
  let code := code_main2 T (bytes pre) cards in
  let '(okf, gr') := run_cards2 gr cards in
  gsimple gr' /\
  if okf then
    exists k gv', (k <= length code)%nat /\ steps' k (bytes pre, [], gv) (bytes (pre ++ code), [], gv') /\ grel' gr' gv'
  else
    exists k c1 nm, (k < length code)%nat /\ steps' k (bytes pre, [], gv) c1 /\
                    exec_err' c1 (EVarNotFound nm) /\ grel' gr' (snd c1).

Lemma cards_sim2_gen cards : Forall stmt_sim cards -> (forall c, In c cards -> (S (stmt_depth2 c) < cap)%nat) ->
  forall pre gr gv,
    seg' pre (code_main2 T (bytes pre) cards) ->
    (forall n, In n (main_names2 cards) -> In n names /\ nm_find (handle_of_bytes n) T <> None) ->
    grel' gr gv -> gsimple gr -> cards_sim_res2 pre cards gr gv.
Proof.
  induction 1 as [|c r Hc Hcr IH]; intros Hd pre gr gv Hseg Hnames Hrel Hsimp; unfold cards_sim_res2.
  - cbn [run_cards2 code_main2 length]. split; [exact Hsimp|]. exists 0%nat, gv. rewrite app_nil_r.
    split; [lia|]. split; [constructor | exact Hrel].
  - assert (Hdr : forall c0, In c0 r -> (S (stmt_depth2 c0) < cap)%nat) by (intros c0 H0; apply Hd; right; exact H0).
    specialize (Hd c (or_introl eq_refl)).
    cbn [code_main2 main_names2 flat_map run_cards2] in *. cbv zeta in *.
    set (cc := code_stmt2 T (bytes pre) c) in *.
    assert (Hnc : forall n, In n (stmt_names2 c) -> In n names /\ nm_find (handle_of_bytes n) T <> None)
      by (intros n Hn; apply Hnames, in_or_app; auto).
    assert (Hnr : forall n, In n (main_names2 r) -> In n names /\ nm_find (handle_of_bytes n) T <> None)
      by (intros n Hn; apply Hnames, in_or_app; auto).
    pose proof (Hc pre gr gv (seg_app_l _ _ _ _ Hseg) Hnc Hd Hrel Hsimp) as H1.
    unfold stmt_sim_res in H1. fold cc in H1.
    destruct (run_stmt2 gr c) as [okf g1]. destruct H1 as [Hs1 H1].
    destruct okf.
    + destruct H1 as (k1 & gv1 & Hk1 & Hst1 & Hr1).
      assert (Eb : bytes (pre ++ cc) = bytes pre + bytes cc) by apply bytes_app.
      pose proof (IH Hdr (pre ++ cc) g1 gv1 ltac:(rewrite Eb; apply seg_app_r; exact Hseg) Hnr Hr1 Hs1) as H2.
      unfold cards_sim_res2 in H2. rewrite Eb in H2.
      destruct (run_cards2 g1 r) as [okf2 g2]. destruct H2 as [Hs2 H2]. split; [exact Hs2|].
      destruct okf2.
      * destruct H2 as (k2 & gv2 & Hk2 & Hst2 & Hr2). exists (k1 + k2)%nat, gv2.
        split; [rewrite app_length; lia|]. split; [|exact Hr2].
        eapply steps_trans; [exact Hst1|]. rewrite Eb, app_assoc. exact Hst2.
      * destruct H2 as (k2 & c1 & nm & Hk2 & Hst2 & Herr & Hr2). exists (k1 + k2)%nat, c1, nm.
        split; [rewrite app_length; lia|]. split; [|auto].
        eapply steps_trans; [exact Hst1|]. rewrite Eb. exact Hst2.
    + split; [exact Hs1|]. destruct H1 as (k & c1 & nm & Hk & Hst & Herr & Hr').
      exists k, c1, nm. split; [rewrite app_length; lia | auto].
Qed.

Lemma stmt_f2_sim c : stmt_f2 c = true -> stmt_sim c.
Proof.
  induction c using card_ind'; intros Hc; cbn [stmt_f2] in Hc; try discriminate Hc;
    intros pre gr gv Hseg Hnames Hdepth Hrel Hsimp; unfold stmt_sim_res.
  - (* IfTrue / IfFalse *)
    destruct op; try discriminate Hc; apply andb_true_iff in Hc; destruct Hc as [He Hb];
      cbn [code_stmt2 run_stmt2 stmt_names2 stmt_depth2] in *; cbv zeta in *;
      set (ce := code_expr T c1) in *;
      set (cb := code_stmt2 T (bytes pre + bytes ce + 5) c2) in *.
    + (* IfTrue: GotoIfFalse *)
      assert (Htgt : bytes pre + bytes ce + 5 + bytes cb < 2147483648).
      { pose proof (seg_bound _ _ Hseg) as Hb'. rewrite !bytes_app in Hb'. cbn [bytes] in Hb'.
        change (spanN (IGotoIfFalse _)) with 5 in Hb'. lia. }
      assert (Hne : forall n, In n (expr_names c1) -> In n names /\ nm_find (handle_of_bytes n) T <> None)
        by (intros n Hn; apply Hnames, in_or_app; auto).
      pose proof (cond_sim c1 pre false _ cb gr gv He Hseg Htgt Hne ltac:(lia) Hrel Hsimp) as Hcond.
      destruct (ev gr c1) as [v|] eqn:Ev.
      * destruct (RefSem.v_bool [] v); cbn [Bool.eqb] in Hcond.
        -- (* the body runs *)
           destruct (seg_mid _ _ _ _ Hseg) as (_ & _ & Sb).
           assert (Hpre' : bytes (pre ++ ce ++ [IGotoIfFalse (u32_to_i32 (bytes pre + bytes ce + 5 + bytes cb))])
                           = bytes pre + bytes ce + 5).
           { rewrite !bytes_app. cbn [bytes]. change (spanN (IGotoIfFalse _)) with 5. lia. }
           assert (Hnb : forall n, In n (stmt_names2 c2) -> In n names /\ nm_find (handle_of_bytes n) T <> None)
             by (intros n Hn; apply Hnames, in_or_app; auto).
           pose proof (IHc2 Hb _ gr gv ltac:(rewrite Hpre'; exact Sb) Hnb ltac:(lia) Hrel Hsimp) as Hbody.
           unfold stmt_sim_res in Hbody. rewrite Hpre' in Hbody. fold cb in Hbody.
           destruct (run_stmt2 gr c2) as [okf gr']. destruct Hbody as [Hs' Hbody]. split; [exact Hs'|].
           destruct okf.
           ++ destruct Hbody as (k & gv' & Hk & Hst & Hr'). exists (length ce + 1 + k)%nat, gv'.
              split; [rewrite app_length; cbn [length]; lia|]. split; [|exact Hr'].
              eapply steps_trans; [exact Hcond|]. rewrite <- !app_assoc in Hst. cbn [app] in Hst.
              exact Hst.
           ++ destruct Hbody as (k & c1' & nm & Hk & Hst & Herr & Hr'). exists (length ce + 1 + k)%nat, c1', nm.
              split; [rewrite app_length; cbn [length]; lia|]. split; [|auto].
              eapply steps_trans; [exact Hcond|]. exact Hst.
        -- (* skipped *)
           split; [exact Hsimp|]. exists (length ce + 1)%nat, gv. split; [rewrite app_length; cbn [length]; lia|].
           split; [|exact Hrel]. rewrite !bytes_app. cbn [bytes]. change (spanN (IGotoIfFalse _)) with 5.
           replace (bytes pre + (bytes ce + (5 + bytes cb))) with (bytes pre + bytes ce + 5 + bytes cb) by lia. exact Hcond.
      * split; [exact Hsimp|]. destruct Hcond as (k & c1' & nm & Hk & Hst & Herr & Hg). fold ce in Hk.
        exists k, c1', nm. split; [rewrite app_length; lia|]. split; [exact Hst|]. split; [exact Herr|]. rewrite Hg; exact Hrel.
    + (* IfFalse: GotoIfTrue *)
      assert (Htgt : bytes pre + bytes ce + 5 + bytes cb < 2147483648).
      { pose proof (seg_bound _ _ Hseg) as Hb'. rewrite !bytes_app in Hb'. cbn [bytes] in Hb'.
        change (spanN (IGotoIfTrue _)) with 5 in Hb'. lia. }
      assert (Hne : forall n, In n (expr_names c1) -> In n names /\ nm_find (handle_of_bytes n) T <> None)
        by (intros n Hn; apply Hnames, in_or_app; auto).
      pose proof (cond_sim c1 pre true _ cb gr gv He Hseg Htgt Hne ltac:(lia) Hrel Hsimp) as Hcond.
      destruct (ev gr c1) as [v|] eqn:Ev.
      * destruct (RefSem.v_bool [] v); cbn [Bool.eqb] in Hcond.
        -- (* skipped *)
           split; [exact Hsimp|]. exists (length ce + 1)%nat, gv. split; [rewrite app_length; cbn [length]; lia|].
           split; [|exact Hrel]. rewrite !bytes_app. cbn [bytes]. change (spanN (IGotoIfTrue _)) with 5.
           replace (bytes pre + (bytes ce + (5 + bytes cb))) with (bytes pre + bytes ce + 5 + bytes cb) by lia. exact Hcond.
        -- (* the body runs *)
           destruct (seg_mid _ _ _ _ Hseg) as (_ & _ & Sb).
           assert (Hpre' : bytes (pre ++ ce ++ [IGotoIfTrue (u32_to_i32 (bytes pre + bytes ce + 5 + bytes cb))])
                           = bytes pre + bytes ce + 5).
           { rewrite !bytes_app. cbn [bytes]. change (spanN (IGotoIfTrue _)) with 5. lia. }
           assert (Hnb : forall n, In n (stmt_names2 c2) -> In n names /\ nm_find (handle_of_bytes n) T <> None)
             by (intros n Hn; apply Hnames, in_or_app; auto).
           pose proof (IHc2 Hb _ gr gv ltac:(rewrite Hpre'; exact Sb) Hnb ltac:(lia) Hrel Hsimp) as Hbody.
           unfold stmt_sim_res in Hbody. rewrite Hpre' in Hbody. fold cb in Hbody.
           destruct (run_stmt2 gr c2) as [okf gr']. destruct Hbody as [Hs' Hbody]. split; [exact Hs'|].
           destruct okf.
           ++ destruct Hbody as (k & gv' & Hk & Hst & Hr'). exists (length ce + 1 + k)%nat, gv'.
              split; [rewrite app_length; cbn [length]; lia|]. split; [|exact Hr'].
              eapply steps_trans; [exact Hcond|]. rewrite <- !app_assoc in Hst. cbn [app] in Hst.
              exact Hst.
           ++ destruct Hbody as (k & c1' & nm & Hk & Hst & Herr & Hr'). exists (length ce + 1 + k)%nat, c1', nm.
              split; [rewrite app_length; cbn [length]; lia|]. split; [|auto].
              eapply steps_trans; [exact Hcond|]. exact Hst.
      * split; [exact Hsimp|]. destruct Hcond as (k & c1' & nm & Hk & Hst & Herr & Hg). fold ce in Hk.
        exists k, c1', nm. split; [rewrite app_length; lia|]. split; [exact Hst|]. split; [exact Herr|]. rewrite Hg; exact Hrel.
  - (* IfElse *)
    destruct op; try discriminate Hc. apply andb_true_iff in Hc. destruct Hc as [Hc Hb].
    apply andb_true_iff in Hc. destruct Hc as [He Ha].
    cbn [code_stmt2 run_stmt2 stmt_names2 stmt_depth2] in *; cbv zeta in *.
    set (ce := code_expr T c1) in *.
    set (ca := code_stmt2 T (bytes pre + bytes ce + 5) c2) in *.
    set (else_at := bytes pre + bytes ce + 5 + bytes ca + 5) in *.
    set (cb := code_stmt2 T else_at c3) in *.
    set (jf := IGotoIfFalse (u32_to_i32 else_at)) in *.
    set (jg := IGoto (u32_to_i32 (else_at + bytes cb))) in *.
    assert (Hend : bytes (pre ++ ce ++ jf :: ca ++ jg :: cb) = else_at + bytes cb).
    { rewrite !bytes_app. cbn [bytes]. rewrite bytes_app. cbn [bytes].
      change (spanN jf) with 5. change (spanN jg) with 5. unfold else_at. lia. }
    assert (Hsmall : else_at + bytes cb < 2147483648).
    { pose proof (seg_bound _ _ Hseg) as Hb'. rewrite Hend in Hb'. lia. }
    assert (Hne : forall n, In n (expr_names c1) -> In n names /\ nm_find (handle_of_bytes n) T <> None)
      by (intros n Hn; apply Hnames, in_or_app; auto).
    assert (Hna : forall n, In n (stmt_names2 c2) -> In n names /\ nm_find (handle_of_bytes n) T <> None)
      by (intros n Hn; apply Hnames, in_or_app; right; apply in_or_app; auto).
    assert (Hnb : forall n, In n (stmt_names2 c3) -> In n names /\ nm_find (handle_of_bytes n) T <> None)
      by (intros n Hn; apply Hnames, in_or_app; right; apply in_or_app; auto).
    pose proof (cond_sim c1 pre false else_at (ca ++ jg :: cb) gr gv He Hseg ltac:(lia) Hne ltac:(lia) Hrel Hsimp) as Hcond.
    destruct (seg_mid _ _ _ _ Hseg) as (_ & _ & Srest).
    destruct (seg_mid _ _ _ _ Srest) as (Sa & Hcg & Sb).
    assert (Hpre1 : bytes (pre ++ ce ++ [jf]) = bytes pre + bytes ce + 5).
    { rewrite !bytes_app. cbn [bytes]. change (spanN jf) with 5. lia. }
    assert (Hpre2 : bytes ((pre ++ ce ++ [jf]) ++ ca ++ [jg]) = else_at).
    { rewrite bytes_app, Hpre1, bytes_app. cbn [bytes]. change (spanN jg) with 5. unfold else_at. lia. }
    destruct (ev gr c1) as [v|] eqn:Ev.
    + destruct (RefSem.v_bool [] v); cbn [Bool.eqb] in Hcond.
      * (* then *)
        pose proof (IHc2 Ha _ gr gv ltac:(rewrite Hpre1; exact Sa) Hna ltac:(lia) Hrel Hsimp) as Hbody.
        unfold stmt_sim_res in Hbody. rewrite Hpre1 in Hbody. fold ca in Hbody.
        destruct (run_stmt2 gr c2) as [okf gr']. destruct Hbody as [Hs' Hbody]. split; [exact Hs'|].
        destruct okf.
        -- destruct Hbody as (k & gv' & Hk & Hst & Hr'). exists (length ce + 1 + k + 1)%nat, gv'.
           split; [rewrite !app_length; cbn [length]; rewrite app_length; cbn [length]; lia|]. split; [|exact Hr'].
           eapply steps_trans; [eapply steps_trans; [exact Hcond | exact Hst]|].
           apply steps_1. rewrite Hend.
           apply (@ex_goto F bld P cap calls0 [] None [] _ (else_at + bytes cb) [] gv' Hcg Hsmall).
        -- destruct Hbody as (k & c1' & nm & Hk & Hst & Herr & Hr'). exists (length ce + 1 + k)%nat, c1', nm.
           split; [rewrite !app_length; cbn [length]; rewrite app_length; cbn [length]; lia|]. split; [|auto].
           eapply steps_trans; [exact Hcond|]. exact Hst.
      * (* else *)
        pose proof (IHc3 Hb _ gr gv ltac:(rewrite Hpre2; exact Sb) Hnb ltac:(lia) Hrel Hsimp) as Hbody.
        unfold stmt_sim_res in Hbody. rewrite Hpre2 in Hbody. fold cb in Hbody.
        destruct (run_stmt2 gr c3) as [okf gr']. destruct Hbody as [Hs' Hbody]. split; [exact Hs'|].
        destruct okf.
        -- destruct Hbody as (k & gv' & Hk & Hst & Hr'). exists (length ce + 1 + k)%nat, gv'.
           split; [rewrite !app_length; cbn [length]; rewrite app_length; cbn [length]; lia|]. split; [|exact Hr'].
           eapply steps_trans; [exact Hcond|].
           replace (pre ++ ce ++ jf :: ca ++ jg :: cb) with (((pre ++ ce ++ [jf]) ++ ca ++ [jg]) ++ cb)
             by (rewrite <- ?app_assoc; cbn [app]; rewrite <- ?app_assoc; cbn [app]; reflexivity).
           exact Hst.
        -- destruct Hbody as (k & c1' & nm & Hk & Hst & Herr & Hr'). exists (length ce + 1 + k)%nat, c1', nm.
           split; [rewrite !app_length; cbn [length]; rewrite app_length; cbn [length]; lia|]. split; [|auto].
           eapply steps_trans; [exact Hcond|]. exact Hst.
    + split; [exact Hsimp|]. destruct Hcond as (k & c1' & nm & Hk & Hst & Herr & Hg). fold ce in Hk.
      exists k, c1', nm. split; [rewrite app_length; lia|]. split; [exact Hst|]. split; [exact Herr|]. rewrite Hg; exact Hrel.
  - (* Comment *)
    cbn [run_stmt2 code_stmt2 length]. split; [exact Hsimp|]. exists 0%nat, gv. rewrite app_nil_r.
    split; [lia|]. split; [constructor | exact Hrel].
  - (* SetGlobalVar *)
    assert (Hd1 : depth_ok [CSetGlobalVar n c] = true).
    { cbn [depth_ok forallb stmt_depth andb]. cbn [stmt_depth2] in Hdepth. rewrite andb_true_r. apply Nat.ltb_lt. exact Hdepth. }
    pose proof (cards_sim F bld P T names T_lt T_inj names_inj [CSetGlobalVar n c]
                  ltac:(cbn [forallb stmt_f1]; rewrite Hc; reflexivity) Hd1 pre gr gv
                  ltac:(cbn [code_main flat_map]; rewrite app_nil_r; exact Hseg)
                  ltac:(cbn [main_names flat_map]; rewrite app_nil_r; exact Hnames) Hrel Hsimp) as H1.
    unfold cards_sim_res in H1. cbn [run_cards code_main flat_map] in H1. rewrite app_nil_r in H1.
    cbn [run_stmt2 code_stmt2 code_stmt] in *.
    destruct (ev gr c) as [v0|]; destruct H1 as [Hs' H1]; (split; [exact Hs'|]).
    + destruct H1 as (gv' & Hst & Hr'). eexists _, gv'. split; [apply le_n|]. split; [exact Hst | exact Hr'].
    + exact H1.
  - (* Composite *)
    assert (Hall : Forall stmt_sim cards).
    { match goal with HF : Forall _ cards |- _ => rename HF into HFall end. clear - HFall Hc.
      induction HFall as [|x r Hx _ IHr]; [constructor|].
      cbn [forallb] in Hc. apply andb_true_iff in Hc. destruct Hc as [H1 H2].
      constructor; [apply Hx, H1 | apply IHr, H2]. }
    assert (Hdep : forall c0, In c0 cards -> (S (stmt_depth2 c0) < cap)%nat).
    { intros c0 H0. pose proof (stmt_depth2_composite ty cards c0 H0). lia. }
    rewrite code_stmt2_composite in Hseg.
    pose proof (cards_sim2_gen cards Hall Hdep pre gr gv Hseg Hnames Hrel Hsimp) as H1.
    unfold cards_sim_res2 in H1. rewrite code_stmt2_composite, run_stmt2_composite. exact H1.
Qed.


Lemma cards_sim2 cards : forallb stmt_f2 cards = true -> depth_ok2 cards = true ->
  forall pre gr gv,
    seg' pre (code_main2 T (bytes pre) cards) ->
    (forall n, In n (main_names2 cards) -> In n names /\ nm_find (handle_of_bytes n) T <> None) ->
    grel' gr gv -> gsimple gr -> cards_sim_res2 pre cards gr gv.
Proof.
  intros Hc Hd. apply cards_sim2_gen.
  - clear Hd. induction cards as [|c r IH]; [constructor|].
    cbn [forallb] in Hc. apply andb_true_iff in Hc. destruct Hc as [H1 H2].
    constructor; [apply stmt_f2_sim, H1 | apply IH, H2].
  - intros c Hin. unfold depth_ok2 in Hd. rewrite forallb_forall in Hd. specialize (Hd c Hin).
    apply Nat.ltb_lt in Hd. exact Hd.
Qed.

End Run2.

(* ------------------------------------------------------------------ the theorem *)
Lemma code_main2_length T1 T2 b1 b2 cards : length (code_main2 T1 b1 cards) = length (code_main2 T2 b2 cards).
Proof.
  revert b1 b2. induction cards as [|c r IH]; intros b1 b2; cbn [code_main2]; [reflexivity|].
  cbv zeta. rewrite !app_length, (code_stmt2_length T1 T2 b1 b2 c).
  rewrite (IH _ (b2 + bytes (code_stmt2 T2 b2 c))). reflexivity.
Qed.

Theorem compile_correct_f2 F bld M B fuel host o budget :
  in_f2 M = true ->
  depth_ok2 (main_cards M) = true ->
  compile M default_options = COk B ->
  N.of_nat (length (Compiler.p_ids B)) < two32 ->
  N.of_nat (length (Compiler.p_bytecode B)) < 2147483648 ->
  RefSem.eval_program fuel M host = RefSem.PObs o ->
  (needed_f2 M <= budget)%nat ->
  let r := Vm.run F bld budget (C15Link.to_vm B) fresh_state in
  vm_kind (fst r) = Some (RefSem.ob_kind o) /\
  forall n, no_collision (main_names2 (main_cards M)) n ->
    option_map vm_tree (read_var_by_name (C15Link.to_vm B) (snd r) n) = RefSem.assoc n (RefSem.ob_globals o).
Proof.
  intros HM Hdepth HB Hlen Hsmall Href Hbud.
  destruct (compile_f2_shape M B HM HB Hlen) as (rest & Hbc & Hnames & Tinj & Tlt & Hinj).
  destruct (eval_program_f2 fuel M host o HM Href) as (g & Hrun & Hkind & Hgs & Hglob).
  pose proof (in_f2_cards M HM) as Hcards.
  set (T := Compiler.p_ids B) in *. set (cards := main_cards M) in *. set (names := main_names2 cards) in *.
  set (P := C15Link.to_vm B).
  assert (Hcode : p_code P = encode (code_main2 T 0 cards ++ IExit :: rest)) by exact Hbc.
  assert (Psmall : code_len P < 2147483648) by exact Hsmall.
  set (n := length (code_main2 T 0 cards)).
  assert (Hn : (n + 2 <= budget)%nat).
  { unfold needed_f2 in Hbud. fold cards in Hbud. rewrite (code_main2_length [] T 0 0) in Hbud. fold n in Hbud. lia. }
  intros r.
  set (re := run_at F bld P false (N.of_nat budget) 129).
  set (s2 := set_rem (set_calls fresh_state calls0) (N.of_nat budget)).
  assert (Hr : r = finish P (loop F bld P re budget 0 s2)).
  { subst r. unfold run, run_gen.
    change (push_frame fresh_state (mkFrame 0 0 0 None)) with (Some (set_calls fresh_state calls0)).
    change max_depth with (S 129). cbv beta iota zeta. rewrite run_at_S. cbn [st_rem set_rem]. rewrite Nat2N.id. reflexivity. }
  clearbody r. subst r.
  pose proof (St_entry (N.of_nat budget)) as HS2. fold s2 in HS2.
  assert (Hseg : seg P [] (code_main2 T (bytes []) cards)) by (exists (IExit :: rest); exact Hcode).
  assert (Hnm : forall x, In x (main_names2 cards) -> In x names /\ nm_find (handle_of_bytes x) T <> None)
    by (intros x Hx; split; [exact Hx | apply Hnames, Hx]).
  assert (Hrel0 : grel T names [] []).
  { intros x _. unfold gread. cbn [RefSem.assoc option_map].
    destruct (nm_find (handle_of_bytes x) T) as [id|]; [|reflexivity]. destruct (N.to_nat id); reflexivity. }
  pose proof (cards_sim2 F bld P T names Tlt Tinj Hinj Psmall cards Hcards Hdepth [] [] [] Hseg Hnm Hrel0 (Forall_nil _)) as Hsim.
  unfold cards_sim_res2 in Hsim. rewrite Hrun in Hsim. destruct Hsim as [_ Hsim].
  assert (Hread : forall s' gv', st_globals s' = gv' -> grel T names g gv' ->
            forall x, no_collision names x ->
            option_map vm_tree (read_var_by_name P (set_calls s' []) x) = RefSem.assoc x (RefSem.ob_globals o)).
  { intros s' gv' Hg' Hrel x Hx. rewrite Hglob, assoc_map_tree, (Hrel x Hx). f_equal.
    unfold read_var_by_name, gread. cbn [st_globals set_calls]. rewrite Hg', assoc_nm_find. reflexivity. }
  change (bytes []) with 0 in Hsim. fold n in Hsim.
  destruct (RefSem.ob_kind o) as [|kk] eqn:Ek.
  - destruct Hsim as (k & gv' & Hk & Hsteps & Hrel).
    destruct (loop_steps re Hsteps (budget - k) HS2) as (s' & HS' & El); [cbn [fst snd]; lia|].
    cbn [fst snd] in HS', El. replace (k + (budget - k))%nat with budget in El by lia.
    assert (Hex : code_at P (bytes (code_main2 T 0 cards)) IExit) by (eapply code_at_encode; exact Hcode).
    replace (budget - k)%nat with (S (budget - k - 1)) in El by lia.
    destruct (loop_exit F bld re (budget - k - 1) HS' Hex) as (s'' & Eex & _ & Hg''); [lia|].
    cbn [app] in El. rewrite Eex in El.
    rewrite El. cbn [finish outcome_of fst snd vm_kind]. split; [reflexivity|].
    eapply Hread; eauto.
  - destruct Hkind as [Hk|Hk]; [discriminate|]. injection Hk as ->.
    destruct Hsim as (k & c1 & nm & Hk & Hsteps & Herr & Hrel).
    destruct (loop_steps re Hsteps (budget - k) HS2) as (s' & HS' & El); [cbn [fst snd]; lia|].
    cbn [fst snd] in El. replace (k + (budget - k))%nat with budget in El by lia.
    replace (budget - k)%nat with (S (budget - k - 1)) in El by lia.
    destruct (@loop_err F bld P _ _ _ _ _ re (budget - k - 1) c1 _ s' _ Herr HS') as (s'' & Eerr & Hg''); [lia|].
    rewrite Eerr in El.
    rewrite El. cbn [finish outcome_of fst snd vm_kind kind_of_err]. split; [reflexivity|].
    eapply Hread; eauto.
Qed.
