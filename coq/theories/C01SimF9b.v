(* C01, simulation, VM half for fragment F9, second part: right-hand sides with calls and statements, in ANY frame.
   The running frame [top] has its part of the stack above [below] (fr_off top = length below); the frames under it
   ([rest]) and the heap are arbitrary.  A static call changes the return address stored in the running frame and
   allocates a function object, so the frame and the heap of the configurations reached are existentially quantified
   (the frame keeps its offset).
   [calls_ok9 cs sg need dn]: the VM meaning of the calls - for every function name of the signature [sg] the code at
   its label, started in a fresh frame on the argument values, reaches a Return instruction with the value [cs] gives on
   top of its part of the stack (or fails with VarNotFound), the globals related; [need] values of stack and [dn] frames
   suffice.  Under that hypothesis: [rhs_sim9] (right-hand sides: a pure expression or a call - arguments, FunctionPointer,
   CallFunction, the callee's run, Return), [stmt_sim9_all] (SetGlobalVar / SetVar / Return / IfTrue / IfFalse / IfElse; the
   outcome is a normal end, a Return instruction reached with the value on top, or a failing dispatch), [top_sim9] /
   [body_sim9] (the cards of a body, declarations of locals included), [pops9].
   Then the functions: [fn_sim9] (a function body run on its arguments, given the meaning of the calls to the later
   functions: it ends at a Return instruction - its own, or the ScalarNil; Return behind the Pops - with the caller's part of
   the stack intact), [fns_sim9] (calls_ok9 for a list of functions by induction: a function only calls later ones),
   [placed9] / [placed9_intro] (where the functions of a compiled module are: handle, label, code), [loop_fail9]. *)
From Coq Require Import List NArith ZArith Bool Lia.
From Cao Require Import ListUtil CheckUtil Bits Stacks Bytecode Compiler CompilerProofs CompilerWf CompilerOk CompilerResolve CardAst.
From Cao Require Import Vm VmProofs C04VmProofs C01SimVm C01SimVmLocals C01SimDefs C01SimRef C01SimF1 C01SimDefs2 C01SimF2.
From Cao Require Import C01SimDefs4 C01SimDefs5 C01SimRef5 C01SimF5 C01SimVm9 C01SimDefs9 C01SimF9.
From Cao Require RefSem.
Import ListNotations.
Local Open Scope N_scope.

Arguments N.add : simpl never.
Arguments N.of_nat : simpl never.
Arguments N.to_nat : simpl never.

Lemma upd_app_r9 {A} (l r : list A) i x : upd (l ++ r) (length l + i) x = l ++ upd r i x.
Proof. induction l as [|y l IH]; cbn [app length Nat.add upd]; [reflexivity | rewrite IH; reflexivity]. Qed.

Lemma depth_args_len args : (length args + 1 <= depth_args args)%nat.
Proof. induction args as [|a r IH]; cbn [depth_args length]; lia. Qed.

Lemma evs9_simple g es vs : gsimple g -> evs9 g es = Some vs -> Forall simple vs.
Proof.
  intros Hg. revert vs. induction es as [|e r IH]; intros vs; cbn [evs9].
  - intros H. injection H as <-. constructor.
  - destruct (ev g e) as [v|] eqn:Ev; [|discriminate]. destruct (evs9 g r) as [ws|]; [|discriminate].
    intros H. injection H as <-. constructor; [eapply ev_simple; eauto | apply IH; reflexivity].
Qed.

Lemma names_next_length9 Ln c : (length Ln <= length (names_next Ln c) <= S (length Ln))%nat.
Proof.
  destruct c; cbn [names_next]; try lia.
  match goal with |- context [lmem ?x Ln] => destruct (lmem x Ln) end; cbn [length]; lia.
Qed.
Lemma names_end_length9 cards : forall Ln, (length Ln <= length (names_end Ln cards))%nat.
Proof.
  induction cards as [|c r IH]; intros Ln; cbn [names_end]; [lia|].
  etransitivity; [|apply IH]. apply names_next_length9.
Qed.

Section Run9b.
Variable F : fops.
Variable bld : build.
Variable P : program.
Variable T : list (N * N).
Variable names : list str.
Variable FT : ftab.

Hypothesis T_lt : forall h id, nm_find h T = Some id -> id < two32.
Hypothesis T_inj : forall h1 h2 id, nm_find h1 T = Some id -> nm_find h2 T = Some id -> h1 = h2.
Hypothesis names_inj : handles_inj names = true.
Hypothesis P_small : code_len P < 2147483648.

Notation seg' := (seg P).
Notation grel' := (grel T names).
Notation steps9' := (steps9 F bld P cap).
Notation names_ok l := (forall n, In n l -> In n names /\ nm_find (handle_of_bytes n) T <> None).

Lemma seg_cons9 pre i l : seg' pre (i :: l) -> code_at P (bytes pre) i /\ seg' (pre ++ [i]) l.
Proof.
  intros H. split; [eapply seg_instr; exact H|]. change (i :: l) with ([i] ++ l) in H. apply seg_app_r in H. exact H.
Qed.

(* a dispatch that fails with VarNotFound, the globals unchanged *)
Definition fail9 (c : cfg9) : Prop :=
  exists nm, ip9 c < code_len P /\
    forall (reenter : N -> state -> rres) s rem, St cap (calls9 c) (heap9 c) None [] s (stk9 c) (gl9 c) rem ->
      exists ip' s', step F bld P reenter (ip9 c) s = SErr (EVarNotFound nm) ip' s' /\ st_globals s' = gl9 c.

Lemma lift9 calls hp n ip stk g ip' stk' g' :
  steps F bld P cap calls hp None [] n (ip, stk, g) (ip', stk', g') ->
  steps9' n (ip, stk, g, calls, hp) (ip', stk', g', calls, hp).
Proof. intros H. exact (steps_steps9 F bld P cap calls hp n _ _ H). Qed.

Lemma lift_err9 calls hp c1 nm :
  exec_err F bld P cap calls hp None [] c1 (EVarNotFound nm) ->
  fail9 (fst (fst c1), snd (fst c1), snd c1, calls, hp).
Proof. destruct c1 as [[ip stk] g]. intros [Hlt H]. exists nm. split; [exact Hlt | exact H]. Qed.

(* SetLocalVar i with the frame holding exactly i values: the declaration of a local *)
Lemma ex9_set_local_decl ip i stk v g top rest hp :
  code_at P ip (ISetLocalVar i) -> i < 4294967296 ->
  (N.to_nat (fr_off top) + N.to_nat i = length stk)%nat -> (S (length stk) < cap)%nat ->
  exec9 F bld P cap (ip, stk ++ [v], g, top :: rest, hp) (ip + 5, stk ++ [v], g, top :: rest, hp).
Proof.
  intros Hc Hi Heq Hroom. split; [eapply code_at_lt; eauto|]. cbn [ip9 stk9 gl9 calls9 heap9]. intros reenter s rem HS.
  pose proof HS as (Hok & Hst & _).
  assert (Eh : op_u32 P (ip + 1) = Some i) by (apply (code_at_operand1 (w := 4) Hc eq_refl eq_refl), fits4_lt, Hi).
  pose proof (code_at_opcode Hc) as Hopc. cbn [instr_op op_code] in Hopc. step_opc Hopc. unfold i_19. rewrite Eh. cbv zeta.
  rewrite (St_top_offset _ _ _ _ _ _ _ _ _ HS eq_refl).
  rewrite (VmCallProofs.spop_w_offset_abs s (N.to_nat (fr_off top)) stk v Hok Hst) by lia.
  destruct (St_pop _ _ HS) as (s1 & E1 & HS1).
  destruct (VmCallProofs.spop_exact s stk v Hok Hst) as (E1' & _). rewrite E1' in E1. injection E1 as <-.
  unfold write_local. rewrite Heq.
  destruct (@sset_St cap (top :: rest) hp None [] _ stk g rem (length stk) v HS1 (le_n _) Hroom) as (s2 & E2 & HS2).
  rewrite E2. rewrite Nat.eqb_refl in HS2.
  replace (ip + 1 + 4) with (ip + 5) by lia. eauto.
Qed.

(* a whole static call; the callee's frame may have changed its return address (calls of its own) *)
Lemma call_return9g ip h ar stk args g top rest hp pos n1 ipr mid v g' hp' callee' :
  code_at P ip (IFunctionPointer h ar) -> code_at P (ip + 9) ICallFunction ->
  h < 4294967296 -> ar = N.of_nat (length args) -> ar < 4294967296 ->
  (S (length (stk ++ args)) < cap)%nat -> (S (length rest) < call_stack_size)%nat ->
  assoc h (p_labels P) = Some pos ->
  let callee := mkFrame (ip + 9) (ip + 10) (N.of_nat (length stk)) None in
  let caller := mkFrame (fr_src top) (ip + 10) (fr_off top) (fr_clo top) in
  steps9' n1 (pos, stk ++ args, g, callee :: caller :: rest, hp ++ [OFun h ar])
             (ipr, stk ++ mid ++ [v], g', callee' :: caller :: rest, hp') ->
  fr_off callee' = fr_off callee ->
  code_at P ipr IReturn ->
  steps9' (2 + n1 + 1) (ip, stk ++ args, g, top :: rest, hp) (ip + 10, stk ++ [v], g', caller :: rest, hp').
Proof.
  intros Hc1 Hc2 Hh Har Har' Hroom Hdepth Hlab callee caller Hbody Hoff Hret.
  eapply steps9_trans; [eapply steps9_trans; [|exact Hbody]|].
  - exact (ex9_call F bld P cap ip h ar stk args g top rest hp pos Hc1 Hc2 Hh Har Har' Hroom Hdepth Hlab).
  - apply steps9_1.
    pose proof (ex9_return F bld P cap ipr stk mid v g' callee' caller rest hp' Hret) as X.
    cbn [fr_off fr_dst callee caller] in X. apply X.
    + rewrite Hoff. cbn [fr_off callee]. apply Nat2N.id.
    + rewrite app_length in Hroom. lia.
Qed.

(* ------------------------------------------------------------------ the meaning of the calls on the VM *)
Definition calls_ok9 (cs : callsem9) (sg : sig9) (need dn : nat) : Prop :=
  forall name n, sm_find name sg = Some n ->
    exists h pos, sm_find name FT = Some (h, N.of_nat n mod two32) /\ h < 4294967296 /\ assoc h (p_labels P) = Some pos /\
    forall vals g gv below fr rest hp,
      length vals = n -> Forall simple vals -> grel' g gv -> gsimple g ->
      N.to_nat (fr_off fr) = length below -> (length below + need < cap)%nat ->
      (length rest + dn < call_stack_size)%nat ->
      match cs name vals g with
      | (Some v, g') => exists k gv' fr' hp' ipr mid,
          steps9' k (pos, below ++ map to_vm vals, gv, fr :: rest, hp)
                    (ipr, below ++ mid ++ [to_vm v], gv', fr' :: rest, hp') /\
          fr_off fr' = fr_off fr /\ code_at P ipr IReturn /\ grel' g' gv' /\ gsimple g' /\ simple v
      | (None, g') => exists k c1,
          steps9' k (pos, below ++ map to_vm vals, gv, fr :: rest, hp) c1 /\ fail9 c1 /\ grel' g' (gl9 c1) /\ gsimple g'
      end.

Section Body.
Variable cs : callsem9.
Variable sg : sig9.
Variable need dn : nat.
Hypothesis Hcalls : calls_ok9 cs sg need dn.
Variable below : list value.
Variable rest : list frame.
Hypothesis Hdn : (length rest + 1 + dn < call_stack_size)%nat.

Definition rhs_res9 (start : N) (R : lstore) (gv : list (option value)) (top : frame) (hp : heap) (endp : N)
           (res : option RefSem.value * gl) : Prop :=
  match res with
  | (Some v, g1) => exists k gv1 top1 hp1,
      steps9' k (start, below ++ lstack R, gv, top :: rest, hp)
                (endp, (below ++ lstack R) ++ [to_vm v], gv1, top1 :: rest, hp1) /\
      fr_off top1 = fr_off top /\ grel' g1 gv1 /\ gsimple g1 /\ simple v
  | (None, g1) => exists k c1,
      steps9' k (start, below ++ lstack R, gv, top :: rest, hp) c1 /\ fail9 c1 /\ grel' g1 (gl9 c1) /\ gsimple g1
  end.

Lemma holds9_frame R : holds9 (length below) R (below ++ lstack R).
Proof. rewrite <- (app_nil_r (lstack R)). apply holds9_lstack. Qed.

Lemma gsimple_app9 a b : gsimple (a ++ b) <-> gsimple a /\ gsimple b.
Proof. unfold gsimple. apply Forall_app. Qed.

(* a pure expression on the locals of the frame *)
Lemma expr_frame9 e pre R g gv top hp :
  expr_f1 e = true -> seg' pre (code_expr5 T (lnames R) e) -> names_ok (expr_gnames (lnames R) e) ->
  N.to_nat (fr_off top) = length below -> (S (length below + length R + depth e) < cap)%nat ->
  grel' g gv -> gsimple (R ++ g) ->
  match ev (R ++ g) e with
  | Some v => steps9' (length (code_expr5 T (lnames R) e)) (bytes pre, below ++ lstack R, gv, top :: rest, hp)
                      (bytes (pre ++ code_expr5 T (lnames R) e), (below ++ lstack R) ++ [to_vm v], gv, top :: rest, hp) /\
              simple v
  | None => exists k c1, steps9' k (bytes pre, below ++ lstack R, gv, top :: rest, hp) c1 /\ fail9 c1 /\ gl9 c1 = gv
  end.
Proof.
  intros He Hseg Hn Hoff Hroom Hrel Hsimp.
  pose proof (expr_f1_sim9 F bld P T names T_lt names_inj top rest hp e He pre (below ++ lstack R) R g gv Hseg Hn) as H.
  rewrite Hoff in H.
  specialize (H (holds9_frame R) Hrel Hsimp ltac:(rewrite app_length, lstack_length; lia)).
  destruct (ev (R ++ g) e) as [v|] eqn:Ev.
  - split; [apply lift9; exact H | eapply ev_simple; eauto].
  - destruct H as (k & c1 & nm & _ & A & B & C). destruct c1 as [[ip1 stk1] g1].
    exists k, (ip1, stk1, g1, top :: rest, hp). split; [apply lift9; exact A|].
    split; [exact (lift_err9 _ _ _ _ B) | exact C].
Qed.

Lemma rhs_pure9 e pre R g gv top hp :
  expr_f1 e = true -> seg' pre (code_expr5 T (lnames R) e) -> names_ok (expr_gnames (lnames R) e) ->
  N.to_nat (fr_off top) = length below -> (S (length below + length R + depth e) < cap)%nat ->
  grel' g gv -> gsimple (R ++ g) ->
  rhs_res9 (bytes pre) R gv top hp (bytes (pre ++ code_expr5 T (lnames R) e)) (ev (R ++ g) e, g).
Proof.
  intros He Hseg Hn Hoff Hroom Hrel Hsimp.
  pose proof (expr_frame9 e pre R g gv top hp He Hseg Hn Hoff Hroom Hrel Hsimp) as H.
  pose proof (proj2 (proj1 (gsimple_app9 R g) Hsimp)) as Hsg.
  unfold rhs_res9. destruct (ev (R ++ g) e) as [v|].
  - destruct H as [H Hv]. exists (length (code_expr5 T (lnames R) e)), gv, top, hp. auto.
  - destruct H as (k & c1 & A & B & C). exists k, c1. rewrite C. auto.
Qed.

Lemma rhs_sim9 r pre R g gv top hp :
  rhs9 sg r = true -> seg' pre (code_rhs9 T FT (lnames R) r) -> names_ok (rhs_gnames9 (lnames R) r) ->
  N.to_nat (fr_off top) = length below -> (S (length below + length R + rhs_depth9 r) + need < cap)%nat ->
  grel' g gv -> gsimple (R ++ g) ->
  rhs_res9 (bytes pre) R gv top hp (bytes (pre ++ code_rhs9 T FT (lnames R) r)) (run_rhs9 cs R g r).
Proof.
  intros Hr Hseg Hn Hoff Hroom Hrel Hsimp.
  destruct r; try (apply rhs_pure9; solve [assumption | cbn [rhs_depth9] in Hroom; lia]); try discriminate Hr.
  (* CCall *)
  cbn [rhs9 code_rhs9 rhs_gnames9 rhs_depth9 run_rhs9] in *.
  apply andb_true_iff in Hr. destruct Hr as [Hargs Hsig].
  destruct (sm_find name sg) as [n|] eqn:Esg; [|discriminate Hsig]. apply Nat.eqb_eq in Hsig. subst n.
  destruct (Hcalls name _ Esg) as (h & pos & Eft & Hh & Hlab & Hcallee).
  rewrite Eft in *.
  pose proof (depth_args_len args) as Hda.
  assert (Har : N.of_nat (length args) mod two32 = N.of_nat (length args)).
  { apply N.mod_small. rewrite two32_eq. unfold cap, stack_size in Hroom. lia. }
  rewrite Har in *.
  set (ca := code_args9 T (lnames R) args) in *.
  pose proof (proj2 (proj1 (gsimple_app9 R g) Hsimp)) as Hsg.
  pose proof (args_sim9 F bld P T names T_lt names_inj top rest hp args Hargs pre (below ++ lstack R) R g gv
                (seg_app_l _ _ _ _ Hseg) Hn) as Ha.
  rewrite Hoff in Ha.
  specialize (Ha (holds9_frame R) Hrel Hsimp ltac:(rewrite app_length, lstack_length; lia)). fold ca in Ha.
  unfold rhs_res9.
  destruct (evs9 (R ++ g) args) as [vs|] eqn:Evs.
  - destruct Ha as [Ha Hlen]. apply lift9 in Ha.
    pose proof (evs9_simple _ _ _ Hsimp Evs) as Hvs.
    pose proof (seg_app_r _ _ _ _ Hseg) as Sfp. destruct (seg_cons9 _ _ _ Sfp) as [Cfp Scf].
    pose proof (seg_instr _ _ _ _ Scf) as Ccf. rewrite bytes_snoc in Ccf. change (spanN (IFunctionPointer _ _)) with 9 in Ccf.
    set (ip := bytes (pre ++ ca)) in *.
    set (callee := mkFrame (ip + 9) (ip + 10) (N.of_nat (length (below ++ lstack R))) None).
    set (caller := mkFrame (fr_src top) (ip + 10) (fr_off top) (fr_clo top)).
    assert (Hend : bytes (pre ++ ca ++ [IFunctionPointer h (N.of_nat (length args)); ICallFunction]) = ip + 10).
    { unfold ip. rewrite !bytes_app. cbn [bytes]. change (spanN (IFunctionPointer _ _)) with 9. change (spanN ICallFunction) with 1. lia. }
    rewrite Hend.
    assert (Hlen' : length (map to_vm vs) = length args) by (rewrite map_length; exact Hlen).
    specialize (Hcallee vs g gv (below ++ lstack R) callee (caller :: rest) (hp ++ [OFun h (N.of_nat (length args))])
                  Hlen Hvs Hrel Hsg ltac:(cbn [fr_off callee]; apply Nat2N.id)
                  ltac:(rewrite app_length, lstack_length; lia) ltac:(cbn [length]; lia)).
    assert (Hroom2 : (S (length ((below ++ lstack R) ++ map to_vm vs)) < cap)%nat)
      by (rewrite !app_length, lstack_length, Hlen'; lia).
    destruct (cs name vs g) as [[v|] g1].
    + destruct Hcallee as (k & gv' & fr' & hp' & ipr & mid & Hrun & Hfo & Hret & Hrel' & Hsg' & Hv).
      pose proof (call_return9g ip h _ (below ++ lstack R) (map to_vm vs) gv top rest hp pos k ipr mid (to_vm v) gv' hp' fr'
                    Cfp Ccf Hh ltac:(rewrite Hlen'; reflexivity) ltac:(unfold cap, stack_size in Hroom; lia) Hroom2
                    ltac:(lia) Hlab Hrun Hfo Hret) as Hcr.
      eexists _, gv', caller, hp'. split; [eapply steps9_trans; [exact Ha | exact Hcr]|]. auto.
    + destruct Hcallee as (k & c1 & Hrun & Hfail & Hrel' & Hsg').
      pose proof (ex9_call F bld P cap ip h _ (below ++ lstack R) (map to_vm vs) gv top rest hp pos
                    Cfp Ccf Hh ltac:(rewrite Hlen'; reflexivity) ltac:(unfold cap, stack_size in Hroom; lia) Hroom2
                    ltac:(lia) Hlab) as Hcall.
      eexists _, c1. split; [eapply steps9_trans; [exact Ha | eapply steps9_trans; [exact Hcall | exact Hrun]]|]. auto.
  - destruct Ha as (k & c1 & nm & A & B & C). destruct c1 as [[ip1 stk1] g1]. cbn [snd] in C. subst g1.
    exists k, (ip1, stk1, gv, top :: rest, hp). split; [apply lift9; exact A|].
    split; [exact (lift_err9 _ _ _ _ B) | auto].
Qed.

(* ------------------------------------------------------------------ statements *)
Variable ret : bool.

Definition cont9 (start : N) (R : lstore) (gv : list (option value)) (top : frame) (hp : heap) (endp : N)
           (out : out9) (R' : lstore) (g' : gl) : Prop :=
  gsimple (R' ++ g') /\
  match out with
  | ONorm9 => exists k gv' top' hp',
      steps9' k (start, below ++ lstack R, gv, top :: rest, hp) (endp, below ++ lstack R', gv', top' :: rest, hp') /\
      fr_off top' = fr_off top /\ grel' g' gv'
  | ORet9 v => exists k gv' top' hp' ipr mid,
      steps9' k (start, below ++ lstack R, gv, top :: rest, hp) (ipr, below ++ mid ++ [to_vm v], gv', top' :: rest, hp') /\
      fr_off top' = fr_off top /\ code_at P ipr IReturn /\ grel' g' gv' /\ simple v
  | OErr9 => exists k c1, steps9' k (start, below ++ lstack R, gv, top :: rest, hp) c1 /\ fail9 c1 /\ grel' g' (gl9 c1)
  end.

Lemma cont9_prepend k a b endp R gv top hp R1 gv1 top1 hp1 out R' g' :
  steps9' k (a, below ++ lstack R, gv, top :: rest, hp) (b, below ++ lstack R1, gv1, top1 :: rest, hp1) ->
  fr_off top1 = fr_off top ->
  cont9 b R1 gv1 top1 hp1 endp out R' g' -> cont9 a R gv top hp endp out R' g'.
Proof.
  intros Hst Hfo [Hs H]. split; [exact Hs|]. destruct out.
  - destruct H as (k2 & gv' & top' & hp' & H2 & Hf & Hr). exists (k + k2)%nat, gv', top', hp'.
    split; [eapply steps9_trans; eauto|]. split; [congruence | exact Hr].
  - destruct H as (k2 & gv' & top' & hp' & ipr & mid & H2 & Hf & Hc & Hr & Hv). exists (k + k2)%nat, gv', top', hp', ipr, mid.
    split; [eapply steps9_trans; eauto|]. split; [congruence | auto].
  - destruct H as (k2 & c1 & H2 & He & Hr). exists (k + k2)%nat, c1. split; [eapply steps9_trans; eauto | auto].
Qed.

Lemma cont9_done a R g gv top hp : gsimple (R ++ g) -> grel' g gv -> cont9 a R gv top hp a ONorm9 R g.
Proof. intros Hs Hr. split; [exact Hs|]. exists 0%nat, gv, top, hp. split; [constructor | auto]. Qed.

(* a normal end continues with a jump *)
Lemma cont9_goto a R gv top hp mid endp out R' g' :
  cont9 a R gv top hp mid out R' g' -> code_at P mid (IGoto (u32_to_i32 endp)) -> endp < 2147483648 ->
  cont9 a R gv top hp endp out R' g'.
Proof.
  intros [Hs H] Hc Hsmall. split; [exact Hs|]. destruct out; [|exact H|exact H].
  destruct H as (k & gv' & top' & hp' & H2 & Hf & Hr). exists (k + 1)%nat, gv', top', hp'.
  split; [|auto]. eapply steps9_trans; [exact H2|]. apply steps9_1. apply exec1_exec9.
  apply (@ex_goto F bld P cap (top' :: rest) hp' None [] _ endp (below ++ lstack R') gv' Hc Hsmall).
Qed.

Lemma cond_sim9 e pre (jump_if : bool) tgt restc R g gv top hp :
  expr_f1 e = true ->
  seg' pre (code_expr5 T (lnames R) e ++ (if jump_if then IGotoIfTrue else IGotoIfFalse) (u32_to_i32 tgt) :: restc) ->
  tgt < 2147483648 -> names_ok (expr_gnames (lnames R) e) ->
  N.to_nat (fr_off top) = length below -> (S (length below + length R + depth e) < cap)%nat ->
  grel' g gv -> gsimple (R ++ g) ->
  match ev (R ++ g) e with
  | Some v => steps9' (length (code_expr5 T (lnames R) e) + 1) (bytes pre, below ++ lstack R, gv, top :: rest, hp)
       (if Bool.eqb (RefSem.v_bool [] v) jump_if then tgt else bytes pre + bytes (code_expr5 T (lnames R) e) + 5,
        below ++ lstack R, gv, top :: rest, hp)
  | None => exists k c1, steps9' k (bytes pre, below ++ lstack R, gv, top :: rest, hp) c1 /\ fail9 c1 /\ gl9 c1 = gv
  end.
Proof.
  intros He Hseg Htgt Hn Hoff Hd Hrel Hsimp. destruct (seg_mid P _ _ _ _ Hseg) as (Se & Hc & _).
  pose proof (expr_frame9 e pre R g gv top hp He Se Hn Hoff Hd Hrel Hsimp) as Hex.
  destruct (ev (R ++ g) e) as [v|] eqn:Ev; [|exact Hex]. destruct Hex as [Hex Hv].
  eapply steps9_trans; [exact Hex|]. apply steps9_1. apply exec1_exec9.
  pose proof (@ex_goto_if F bld P cap (top :: rest) hp None [] jump_if (bytes (pre ++ code_expr5 T (lnames R) e)) tgt
                (below ++ lstack R) (to_vm v) (RefSem.v_bool [] v) gv Hc Htgt (vm_not F hp v Hv)) as X.
  rewrite bytes_app in X. rewrite bytes_app. exact X.
Qed.

Definition stmt_sim9 (c : card) : Prop :=
  forall R g out R' g', stmt9 sg ret (lnames R) c = true -> run9 cs R g c = (out, R', g') ->
  forall pre gv top hp,
    seg' pre (code9 T FT (lnames R) (bytes pre) c) -> names_ok (stmt_gnames9 (lnames R) c) ->
    N.to_nat (fr_off top) = length below ->
    (S (length below + length R + stmt_depth9 c) + need < cap)%nat -> grel' g gv -> gsimple (R ++ g) ->
    cont9 (bytes pre) R gv top hp (bytes (pre ++ code9 T FT (lnames R) (bytes pre) c)) out R' g' /\ lnames R' = lnames R.

Lemma if1_sim9 (jump_if : bool) e b R g out R' g' pre gv top hp :
  stmt_sim9 b -> expr_f1 e = true -> stmt9 sg ret (lnames R) b = true ->
  let ce := code_expr5 T (lnames R) e in
  let cb := code9 T FT (lnames R) (bytes pre + bytes ce + 5) b in
  let tgt := bytes pre + bytes ce + 5 + bytes cb in
  let J := (if jump_if then IGotoIfTrue else IGotoIfFalse) (u32_to_i32 tgt) in
  (match ev (R ++ g) e with
   | None => (OErr9, R, g)
   | Some v => if Bool.eqb (RefSem.v_bool [] v) jump_if then (ONorm9, R, g) else run9 cs R g b
   end) = (out, R', g') ->
  seg' pre (ce ++ J :: cb) -> names_ok (expr_gnames (lnames R) e ++ stmt_gnames9 (lnames R) b) ->
  N.to_nat (fr_off top) = length below ->
  (S (length below + length R + Nat.max (depth e) (stmt_depth9 b)) + need < cap)%nat -> grel' g gv -> gsimple (R ++ g) ->
  cont9 (bytes pre) R gv top hp (bytes (pre ++ ce ++ J :: cb)) out R' g' /\ lnames R' = lnames R.
Proof.
  intros IHb He Hb ce cb tgt J Hrun Hseg Hn Hoff Hroom Hrel Hsimp.
  assert (HJ : spanN J = 5) by (unfold J; destruct jump_if; reflexivity).
  assert (Hend : bytes (pre ++ ce ++ J :: cb) = tgt).
  { rewrite !bytes_app. cbn [bytes]. rewrite HJ. unfold tgt. lia. }
  assert (Hsmall : tgt < 2147483648) by (pose proof (seg_bound P P_small _ _ Hseg) as Hb'; rewrite Hend in Hb'; lia).
  assert (Hne : names_ok (expr_gnames (lnames R) e)) by (intros x Hx; apply Hn, in_or_app; auto).
  assert (Hnb : names_ok (stmt_gnames9 (lnames R) b)) by (intros x Hx; apply Hn, in_or_app; auto).
  pose proof (cond_sim9 e pre jump_if tgt cb R g gv top hp He Hseg Hsmall Hne Hoff ltac:(lia) Hrel Hsimp) as Hcond.
  fold ce in Hcond.
  destruct (ev (R ++ g) e) as [v|] eqn:Ev.
  - destruct (Bool.eqb (RefSem.v_bool [] v) jump_if) eqn:Eb.
    + injection Hrun as <- <- <-. split; [|reflexivity]. rewrite Hend.
      eapply cont9_prepend; [exact Hcond | reflexivity | apply cont9_done; assumption].
    + destruct (seg_mid P _ _ _ _ Hseg) as (_ & _ & Sb).
      assert (Hpre' : bytes (pre ++ ce ++ [J]) = bytes pre + bytes ce + 5).
      { rewrite !bytes_app. cbn [bytes]. rewrite HJ. lia. }
      destruct (IHb R g out R' g' Hb Hrun (pre ++ ce ++ [J]) gv top hp ltac:(rewrite Hpre'; exact Sb) Hnb Hoff ltac:(lia) Hrel Hsimp)
        as [Hbody Hl].
      rewrite Hpre' in Hbody. fold cb in Hbody. rewrite <- !app_assoc in Hbody. cbn [app] in Hbody.
      split; [|exact Hl]. eapply cont9_prepend; [exact Hcond | reflexivity | exact Hbody].
  - injection Hrun as <- <- <-. split; [|reflexivity]. destruct Hcond as (k & c1 & A & B & C).
    split; [exact Hsimp|]. exists k, c1. rewrite C. auto.
Qed.

Lemma rhs_err_cont9 a R gv top hp e g1 endp :
  rhs_res9 a R gv top hp e (None, g1) -> gsimple R -> cont9 a R gv top hp endp OErr9 R g1.
Proof.
  intros (k & c1 & A & B & C & D) HR. split; [apply gsimple_app9; auto|]. exists k, c1. auto.
Qed.

Lemma stmt_sim9_all c : stmt_sim9 c.
Proof.
  induction c; try (intros R g out R' g' Hc; cbn [stmt9] in Hc; discriminate Hc);
    intros R g out R' g' Hc Hrun pre gv top hp Hseg Hnames Hoff Hroom Hrel Hsimp; cbn [stmt9] in Hc;
    pose proof (proj1 (gsimple_app9 R g) Hsimp) as [HsR Hsg].
  - (* CBin: IfTrue, IfFalse *)
    destruct op; try discriminate Hc; apply andb_true_iff in Hc; destruct Hc as [He Hb];
      cbn [run9 code9 stmt_gnames9 stmt_depth9] in *; cbv zeta in *.
    + apply (if1_sim9 false c1 c2 R g out R' g' pre gv top hp IHc2 He Hb); try assumption.
      etransitivity; [|exact Hrun]. destruct (ev (R ++ g) c1) as [v|]; [destruct (RefSem.v_bool [] v)|]; reflexivity.
    + apply (if1_sim9 true c1 c2 R g out R' g' pre gv top hp IHc2 He Hb); try assumption.
      etransitivity; [|exact Hrun]. destruct (ev (R ++ g) c1) as [v|]; [destruct (RefSem.v_bool [] v)|]; reflexivity.
  - (* CUn UReturn *)
    destruct op; try discriminate Hc. apply andb_true_iff in Hc. destruct Hc as [_ Hr].
    cbn [run9 code9 stmt_gnames9 stmt_depth9] in *.
    set (cr := code_rhs9 T FT (lnames R) c) in *.
    pose proof (rhs_sim9 c pre R g gv top hp Hr (seg_app_l _ _ _ _ Hseg) Hnames Hoff Hroom Hrel Hsimp) as Hrhs. fold cr in Hrhs.
    destruct (run_rhs9 cs R g c) as [[v|] g1]; injection Hrun as <- <- <-; (split; [|reflexivity]).
    + destruct Hrhs as (k & gv1 & top1 & hp1 & Hst & Hfo & Hrel1 & Hsg1 & Hv).
      split; [apply gsimple_app9; auto|]. exists k, gv1, top1, hp1, (bytes (pre ++ cr)), (lstack R).
      rewrite <- app_assoc in Hst. split; [exact Hst|]. split; [exact Hfo|].
      split; [exact (seg_instr _ _ _ _ (seg_app_r _ _ _ _ Hseg)) | auto].
    + eapply rhs_err_cont9; eauto.
  - (* CTri IfElse *)
    destruct op; try discriminate Hc. apply andb_true_iff in Hc. destruct Hc as [Hc Hb].
    apply andb_true_iff in Hc. destruct Hc as [He Ha].
    cbn [run9 code9 stmt_gnames9 stmt_depth9] in *; cbv zeta in *.
    set (ce := code_expr5 T (lnames R) c1) in *.
    set (ca := code9 T FT (lnames R) (bytes pre + bytes ce + 5) c2) in *.
    set (else_at := bytes pre + bytes ce + 5 + bytes ca + 5) in *.
    set (cb := code9 T FT (lnames R) else_at c3) in *.
    set (jf := IGotoIfFalse (u32_to_i32 else_at)) in *.
    set (jg := IGoto (u32_to_i32 (else_at + bytes cb))) in *.
    assert (Hend : bytes (pre ++ ce ++ jf :: ca ++ jg :: cb) = else_at + bytes cb).
    { rewrite !bytes_app. cbn [bytes]. rewrite bytes_app. cbn [bytes].
      change (spanN jf) with 5. change (spanN jg) with 5. unfold else_at. lia. }
    assert (Hsmall : else_at + bytes cb < 2147483648) by (pose proof (seg_bound P P_small _ _ Hseg) as Hb'; rewrite Hend in Hb'; lia).
    assert (Hne : names_ok (expr_gnames (lnames R) c1)) by (intros x Hx; apply Hnames, in_or_app; auto).
    assert (Hna : names_ok (stmt_gnames9 (lnames R) c2)) by (intros x Hx; apply Hnames, in_or_app; right; apply in_or_app; auto).
    assert (Hnb : names_ok (stmt_gnames9 (lnames R) c3)) by (intros x Hx; apply Hnames, in_or_app; right; apply in_or_app; auto).
    destruct (seg_mid P _ _ _ _ Hseg) as (_ & _ & Srest).
    destruct (seg_mid P _ _ _ _ Srest) as (Sa & Hcg & Sb).
    assert (Hpre1 : bytes (pre ++ ce ++ [jf]) = bytes pre + bytes ce + 5).
    { rewrite !bytes_app. cbn [bytes]. change (spanN jf) with 5. lia. }
    assert (Hpre2 : bytes ((pre ++ ce ++ [jf]) ++ ca ++ [jg]) = else_at).
    { rewrite bytes_app, Hpre1, bytes_app. cbn [bytes]. change (spanN jg) with 5. unfold else_at. lia. }
    pose proof (cond_sim9 c1 pre false else_at (ca ++ jg :: cb) R g gv top hp He Hseg ltac:(lia) Hne Hoff ltac:(lia) Hrel Hsimp) as Hcond.
    fold ce in Hcond.
    destruct (ev (R ++ g) c1) as [v|] eqn:Ev.
    + destruct (RefSem.v_bool [] v) eqn:Ebv; cbn [Bool.eqb] in Hcond.
      * destruct (IHc2 R g out R' g' Ha Hrun (pre ++ ce ++ [jf]) gv top hp ltac:(rewrite Hpre1; exact Sa) Hna Hoff ltac:(lia) Hrel Hsimp)
          as [Hbody Hl].
        rewrite Hpre1 in Hbody. fold ca in Hbody. split; [|exact Hl]. rewrite Hend.
        eapply cont9_prepend; [exact Hcond | reflexivity|].
        eapply cont9_goto; [exact Hbody | | exact Hsmall].
        rewrite bytes_app, Hpre1. rewrite bytes_app, Hpre1 in Hcg. exact Hcg.
      * destruct (IHc3 R g out R' g' Hb Hrun ((pre ++ ce ++ [jf]) ++ ca ++ [jg]) gv top hp ltac:(rewrite Hpre2; exact Sb) Hnb Hoff
                    ltac:(lia) Hrel Hsimp) as [Hbody Hl].
        rewrite Hpre2 in Hbody. fold cb in Hbody.
        replace (((pre ++ ce ++ [jf]) ++ ca ++ [jg]) ++ cb) with (pre ++ ce ++ jf :: ca ++ jg :: cb) in Hbody
          by (rewrite <- ?app_assoc; cbn [app]; rewrite <- ?app_assoc; cbn [app]; reflexivity).
        split; [|exact Hl]. eapply cont9_prepend; [exact Hcond | reflexivity | exact Hbody].
    + injection Hrun as <- <- <-. split; [|reflexivity]. destruct Hcond as (k & c1' & A & B & C).
      split; [exact Hsimp|]. exists k, c1'. rewrite C. auto.
  - (* CSetGlobalVar *)
    apply andb_true_iff in Hc. destruct Hc as [_ Hr].
    cbn [run9 code9 stmt_gnames9 stmt_depth9] in *.
    set (cr := code_rhs9 T FT (lnames R) c) in *.
    assert (Hnr : names_ok (rhs_gnames9 (lnames R) c)) by (intros x Hx; apply Hnames, in_or_app; auto).
    destruct (Hnames name) as [Hgin Hgfound]; [apply in_or_app; right; left; reflexivity|].
    pose proof (rhs_sim9 c pre R g gv top hp Hr (seg_app_l _ _ _ _ Hseg) Hnr Hoff Hroom Hrel Hsimp) as Hrhs. fold cr in Hrhs.
    destruct (run_rhs9 cs R g c) as [[v|] g1]; injection Hrun as <- <- <-; (split; [|reflexivity]).
    + destruct Hrhs as (k & gv1 & top1 & hp1 & Hst & Hfo & Hrel1 & Hsg1 & Hv).
      unfold idT in *. destruct (nm_find (handle_of_bytes name) T) as [id|] eqn:Eid; [|congruence].
      assert (Hid : id < 4294967296) by (rewrite <- two32_eq; eapply T_lt; eauto).
      pose proof (seg_instr _ _ _ _ (seg_app_r _ _ _ _ Hseg)) as Hci.
      pose proof (@ex_set_global F bld P cap (top1 :: rest) hp1 None [] _ id (below ++ lstack R) (to_vm v) gv1 Hci Hid) as Hset.
      split; [apply gsimple_app9; split; [exact HsR | apply set_assoc_simple; assumption]|].
      exists (k + 1)%nat, (gset gv1 id (to_vm v)), top1, hp1. split; [|split; [exact Hfo | apply grel_set; auto]].
      eapply steps9_trans; [exact Hst|]. apply steps9_1.
      rewrite app_assoc, bytes_snoc. change (spanN (ISetGlobalVar id)) with 5. apply exec1_exec9. exact Hset.
    + eapply rhs_err_cont9; eauto.
  - (* CSetVar of an existing local *)
    apply andb_true_iff in Hc. destruct Hc as [Hc Hr]. apply andb_true_iff in Hc. destruct Hc as [Hx Hm].
    cbn [run9 code9 stmt_gnames9 stmt_depth9] in *.
    set (cr := code_rhs9 T FT (lnames R) c) in *.
    pose proof (rhs_sim9 c pre R g gv top hp Hr (seg_app_l _ _ _ _ Hseg) Hnames Hoff Hroom Hrel Hsimp) as Hrhs. fold cr in Hrhs.
    destruct (lmem_some _ _ Hm) as [old Eold].
    destruct (slot_local name R old Eold) as (i & Hi & Hlt & _ & Hupd).
    destruct (run_rhs9 cs R g c) as [[v|] g1]; injection Hrun as <- <- <-.
    + destruct Hrhs as (k & gv1 & top1 & hp1 & Hst & Hfo & Hrel1 & Hsg1 & Hv).
      unfold sets_local. change (map fst R) with (lnames R). rewrite Hm.
      destruct (Hupd v) as [Hu Hl]. split; [|exact Hl].
      unfold set_slot in *. rewrite Hi in *.
      pose proof (seg_instr _ _ _ _ (seg_app_r _ _ _ _ Hseg)) as Hci.
      assert (Hi32 : N.of_nat i < 4294967296) by (rewrite lstack_length in Hlt; unfold cap, stack_size in *; lia).
      pose proof (ex9_set_local F bld P cap _ (N.of_nat i) (below ++ lstack R) (to_vm v) gv1 top1 rest hp1 Hci Hi32) as Hset.
      rewrite Hfo, Hoff, Nat2N.id in Hset. specialize (Hset ltac:(rewrite app_length; lia)).
      rewrite upd_app_r9, Hu in Hset.
      split; [apply gsimple_app9; split; [apply set_assoc_simple; assumption | exact Hsg1]|].
      exists (k + 1)%nat, gv1, top1, hp1. split; [|auto].
      eapply steps9_trans; [exact Hst|]. apply steps9_1.
      rewrite app_assoc, bytes_snoc. change (spanN (ISetLocalVar _)) with 5. exact Hset.
    + split; [|reflexivity]. eapply rhs_err_cont9; eauto.
Qed.

(* ------------------------------------------------------------------ the cards of a function body *)
Lemma cont9_endp a R gv top hp e1 e2 out R' g' :
  out <> ONorm9 -> cont9 a R gv top hp e1 out R' g' -> cont9 a R gv top hp e2 out R' g'.
Proof. intros Ho [Hs H]. split; [exact Hs|]. destruct out; [congruence | exact H | exact H]. Qed.

Lemma top_sim9 c R g out R' g' :
  top9 sg ret (lnames R) c = true -> run9 cs R g c = (out, R', g') ->
  forall pre gv top hp,
    seg' pre (code9 T FT (lnames R) (bytes pre) c) -> names_ok (stmt_gnames9 (lnames R) c) ->
    N.to_nat (fr_off top) = length below ->
    (S (S (length below + length R) + stmt_depth9 c) + need < cap)%nat -> grel' g gv -> gsimple (R ++ g) ->
    cont9 (bytes pre) R gv top hp (bytes (pre ++ code9 T FT (lnames R) (bytes pre) c)) out R' g' /\
    (out = ONorm9 -> lnames R' = names_next (lnames R) c).
Proof.
  intros Hc Hrun pre gv top hp Hseg Hnames Hoff Hroom Hrel Hsimp.
  assert (Hstmt : stmt9 sg ret (lnames R) c = true -> names_next (lnames R) c = lnames R ->
                  cont9 (bytes pre) R gv top hp (bytes (pre ++ code9 T FT (lnames R) (bytes pre) c)) out R' g' /\
                  (out = ONorm9 -> lnames R' = names_next (lnames R) c)).
  { intros H9 Hnx. destruct (stmt_sim9_all c R g out R' g' H9 Hrun pre gv top hp Hseg Hnames Hoff ltac:(lia) Hrel Hsimp) as [A B].
    split; [exact A|]. intros _. rewrite Hnx. exact B. }
  destruct c; try (apply Hstmt; [exact Hc | reflexivity]).
  cbn [top9] in Hc. apply andb_true_iff in Hc. destruct Hc as [Hx Hr].
  destruct (lmem name (lnames R)) eqn:Hm.
  - apply Hstmt; [cbn [stmt9]; rewrite Hx, Hm, Hr; reflexivity | cbn [names_next]; rewrite Hm; reflexivity].
  - (* the declaration *)
    cbn [run9 code9 stmt_gnames9 stmt_depth9 names_next] in *. rewrite Hm.
    pose proof (proj1 (gsimple_app9 R g) Hsimp) as [HsR Hsg].
    set (cr := code_rhs9 T FT (lnames R) c) in *.
    pose proof (rhs_sim9 c pre R g gv top hp Hr (seg_app_l _ _ _ _ Hseg) Hnames Hoff ltac:(lia) Hrel Hsimp) as Hrhs. fold cr in Hrhs.
    destruct (lmem_none _ _ Hm) as [_ Hs]. unfold set_slot in *. rewrite Hs in *.
    destruct (run_rhs9 cs R g c) as [[v|] g1]; injection Hrun as <- <- <-.
    + destruct Hrhs as (k & gv1 & top1 & hp1 & Hst & Hfo & Hrel1 & Hsg1 & Hv).
      unfold sets_local. change (map fst R) with (lnames R). rewrite Hm.
      split; [|intros _; reflexivity].
      pose proof (seg_instr _ _ _ _ (seg_app_r _ _ _ _ Hseg)) as Hci. rewrite lnames_length in *.
      assert (Hi32 : N.of_nat (length R) < 4294967296) by (unfold cap, stack_size in *; lia).
      pose proof (ex9_set_local_decl _ (N.of_nat (length R)) (below ++ lstack R) (to_vm v) gv1 top1 rest hp1 Hci Hi32) as Hset.
      rewrite Hfo, Hoff, Nat2N.id in Hset.
      specialize (Hset ltac:(rewrite app_length, lstack_length; lia) ltac:(rewrite app_length, lstack_length; lia)).
      split; [cbn [app]; constructor; [exact Hv | apply gsimple_app9; auto]|].
      exists (k + 1)%nat, gv1, top1, hp1. split; [|auto].
      eapply steps9_trans; [exact Hst|]. apply steps9_1.
      rewrite app_assoc, bytes_snoc. change (spanN (ISetLocalVar _)) with 5.
      rewrite lstack_cons, app_assoc. exact Hset.
    + split; [|discriminate]. eapply rhs_err_cont9; eauto.
Qed.

Lemma body_sim9 : forall cards R g out R' g',
  cards9 sg ret (lnames R) cards = true -> runs9 cs R g cards = (out, R', g') ->
  forall pre gv top hp,
    seg' pre (code_top9 T FT (lnames R) (bytes pre) cards) -> names_ok (top_gnames9 (lnames R) cards) ->
    N.to_nat (fr_off top) = length below ->
    (forall c, In c cards -> (S (S (length below + length (names_end (lnames R) cards)) + stmt_depth9 c) + need < cap)%nat) ->
    grel' g gv -> gsimple (R ++ g) ->
    cont9 (bytes pre) R gv top hp (bytes (pre ++ code_top9 T FT (lnames R) (bytes pre) cards)) out R' g' /\
    (out = ONorm9 -> lnames R' = names_end (lnames R) cards).
Proof.
  induction cards as [|c r IH]; intros R g out R' g' Hc Hrun pre gv top hp Hseg Hnames Hoff Hd Hrel Hsimp.
  - cbn [runs9] in Hrun. injection Hrun as <- <- <-. cbn [code_top9 names_end]. rewrite app_nil_r.
    split; [apply cont9_done; assumption | reflexivity].
  - cbn [cards9] in Hc. apply andb_true_iff in Hc. destruct Hc as [Hc Hcr].
    cbn [runs9 code_top9 top_gnames9 names_end] in *. cbv zeta in *.
    set (cc := code9 T FT (lnames R) (bytes pre) c) in *.
    assert (Hnc : names_ok (stmt_gnames9 (lnames R) c)) by (intros x Hx; apply Hnames, in_or_app; auto).
    assert (Hnr : names_ok (top_gnames9 (names_next (lnames R) c) r)) by (intros x Hx; apply Hnames, in_or_app; auto).
    assert (Eb : bytes (pre ++ cc) = bytes pre + bytes cc) by apply bytes_app.
    pose proof (names_end_length9 r (names_next (lnames R) c)) as Hlen1.
    pose proof (names_next_length9 (lnames R) c) as Hlen0. rewrite lnames_length in Hlen0.
    assert (Hdc : (S (S (length below + length R) + stmt_depth9 c) + need < cap)%nat).
    { specialize (Hd c (or_introl eq_refl)). lia. }
    destruct (run9 cs R g c) as [[o1 R1] g1] eqn:E1.
    destruct (top_sim9 c R g o1 R1 g1 Hc E1 pre gv top hp (seg_app_l _ _ _ _ Hseg) Hnc Hoff Hdc Hrel Hsimp) as [H1 Hl1].
    fold cc in H1.
    destruct o1.
    + destruct H1 as [Hs1 (k1 & gv1 & top1 & hp1 & Hst1 & Hfo1 & Hr1)]. specialize (Hl1 eq_refl).
      destruct (IH R1 g1 out R' g' ltac:(rewrite Hl1; exact Hcr) Hrun (pre ++ cc) gv1 top1 hp1
                   ltac:(rewrite Hl1, Eb; apply seg_app_r; exact Hseg) ltac:(rewrite Hl1; exact Hnr)
                   ltac:(rewrite Hfo1; exact Hoff)
                   ltac:(rewrite Hl1; intros c0 H0; apply Hd; right; exact H0) Hr1 Hs1) as [H2 Hl2].
      rewrite Hl1, Eb in H2. rewrite <- app_assoc in H2. split; [|rewrite Hl1 in Hl2; exact Hl2].
      rewrite Eb in Hst1. eapply cont9_prepend; [exact Hst1 | exact Hfo1 | exact H2].
    + injection Hrun as <- <- <-. split; [|discriminate]. eapply cont9_endp; [discriminate | exact H1].
    + injection Hrun as <- <- <-. split; [|discriminate]. eapply cont9_endp; [discriminate | exact H1].
Qed.

(* one Pop per local of the frame *)
Lemma pops9 l : forall pre gv calls hp,
  seg' pre (repeat IPop (length l)) ->
  steps9' (length l) (bytes pre, below ++ l, gv, calls, hp) (bytes (pre ++ repeat IPop (length l)), below, gv, calls, hp).
Proof.
  induction l as [|v l IH] using rev_ind; intros pre gv calls hp Hseg.
  - cbn [length repeat]. rewrite !app_nil_r. constructor.
  - rewrite app_length in *. cbn [length] in *. rewrite Nat.add_1_r in *. cbn [repeat] in *.
    pose proof (seg_instr _ _ _ _ Hseg) as Hc.
    change (IPop :: repeat IPop (length l)) with ([IPop] ++ repeat IPop (length l)) in Hseg.
    apply seg_app_r in Hseg.
    econstructor.
    { apply exec1_exec9. rewrite app_assoc. apply (@ex_pop F bld P cap calls hp None [] (bytes pre) (below ++ l) v gv Hc). }
    specialize (IH (pre ++ [IPop]) gv calls hp Hseg). rewrite bytes_snoc in IH. change (spanN IPop) with 1 in IH.
    rewrite <- app_assoc in IH. exact IH.
Qed.

End Body.

(* ------------------------------------------------------------------ functions *)
Definition need_fs (fs : list (str * function)) : nat :=
  fold_right (fun nf m => frame_need9 (snd nf) + m)%nat 0%nat fs.

(* where the functions are: the handle the call sites use, the label, the code, the global names *)
Fixpoint placed9 (fs : list (str * function)) : Prop :=
  match fs with
  | [] => True
  | (n, f) :: r =>
      (exists h pre, sm_find n FT = Some (h, N.of_nat (length (f_args f)) mod two32) /\ h < 4294967296 /\
                     assoc h (p_labels P) = Some (bytes pre) /\ seg' pre (code_fn9 T FT (bytes pre) f) /\
                     names_ok (fn_gnames9 f)) /\ placed9 r
  end.

Lemma stmt_depth_le9 cards c :
  In c cards -> (stmt_depth9 c <= fold_right (fun c m => Nat.max (stmt_depth9 c) m) 0 cards)%nat.
Proof. induction cards as [|x r IH]; cbn [In fold_right]; [tauto|]. intros [->|H]; [lia | specialize (IH H); lia]. Qed.

Lemma combine_facts9 : forall (a : list str) (b : list RefSem.value), length a = length b ->
  lnames (combine a b) = a /\ map (fun nv : str * RefSem.value => to_vm (snd nv)) (combine a b) = map to_vm b /\
  (Forall simple b -> gsimple (combine a b)).
Proof.
  induction a as [|x a IH]; intros [|y b] H; cbn in H; try discriminate H.
  - repeat split. intros _. constructor.
  - destruct (IH b ltac:(lia)) as (A & B & C). cbn [combine lnames map fst snd]. fold (lnames (combine a b)).
    rewrite A, B. repeat split. intros Hs. inversion Hs; subst. constructor; [assumption | apply C; assumption].
Qed.

Lemma fn_sim9 f r need dn :
  calls_ok9 (sem9 r) (sig_of r) need dn -> fn_ok9 r f = true ->
  forall pre, seg' pre (code_fn9 T FT (bytes pre) f) -> names_ok (fn_gnames9 f) ->
  forall vals g gv below fr rest hp,
    length vals = length (f_args f) -> Forall simple vals -> grel' g gv -> gsimple g ->
    N.to_nat (fr_off fr) = length below -> (length below + (frame_need9 f + need) < cap)%nat ->
    (length rest + S dn < call_stack_size)%nat ->
    match call9 (sem9 r) f vals g with
    | (Some v, g') => exists k gv' fr' hp' ipr mid,
        steps9' k (bytes pre, below ++ map to_vm vals, gv, fr :: rest, hp)
                  (ipr, below ++ mid ++ [to_vm v], gv', fr' :: rest, hp') /\
        fr_off fr' = fr_off fr /\ code_at P ipr IReturn /\ grel' g' gv' /\ gsimple g' /\ simple v
    | (None, g') => exists k c1,
        steps9' k (bytes pre, below ++ map to_vm vals, gv, fr :: rest, hp) c1 /\ fail9 c1 /\ grel' g' (gl9 c1) /\ gsimple g'
    end.
Proof.
  intros Hcalls Hok pre Hseg Hnm vals g gv below fr rest hp Hlen Hvs Hrel Hsg Hoff Hroom Hdn.
  unfold fn_ok9 in Hok. apply andb_true_iff in Hok. destruct Hok as [_ Hcards].
  unfold call9, code_fn9, fn_gnames9, frame_need9 in *.
  set (R0 := combine (f_args f) (rev vals)).
  destruct (combine_facts9 (f_args f) (rev vals) ltac:(rewrite rev_length; lia)) as (HlnR0 & HmapR0 & HsR0). fold R0 in HlnR0, HmapR0, HsR0.
  assert (HlsR0 : lstack R0 = map to_vm vals).
  { unfold lstack. rewrite HmapR0, map_rev, rev_involutive. reflexivity. }
  assert (HlenR0 : length R0 = length (f_args f)) by (rewrite <- (lnames_length R0), HlnR0; reflexivity).
  specialize (HsR0 ltac:(apply Forall_rev; exact Hvs)).
  assert (Hsimp0 : gsimple (R0 ++ g)) by (apply gsimple_app9; auto).
  set (cards := f_cards f) in *. set (ct := code_top9 T FT (f_args f) (bytes pre) cards) in *.
  set (npop := length (names_end (f_args f) cards)) in *.
  destruct (runs9 (sem9 r) R0 g cards) as [[out R'] g1] eqn:Erun.
  destruct (body_sim9 (sem9 r) (sig_of r) need dn Hcalls below rest ltac:(lia) true cards R0 g out R' g1
              ltac:(rewrite HlnR0; exact Hcards) Erun pre gv fr hp ltac:(rewrite HlnR0; eapply seg_app_l; exact Hseg)
              ltac:(rewrite HlnR0; exact Hnm) Hoff) as [[Hs Hc] Hl]; [|exact Hrel | exact Hsimp0|].
  { rewrite HlnR0. intros c Hin. pose proof (stmt_depth_le9 cards c Hin). fold npop. lia. }
  rewrite HlsR0, HlnR0 in Hc. fold ct in Hc.
  pose proof (proj2 (proj1 (gsimple_app9 R' g1) Hs)) as Hsg1.
  destruct out.
  - destruct Hc as (k & gv' & fr' & hp' & Hst & Hfo & Hrel'). specialize (Hl eq_refl). rewrite HlnR0 in Hl.
    assert (Hnp : length (lstack R') = npop) by (rewrite lstack_length, <- (lnames_length R'), Hl; reflexivity).
    pose proof (seg_app_r _ _ _ _ Hseg) as Stail. fold ct in Stail.
    assert (Spop : seg' (pre ++ ct) (repeat IPop (length (lstack R')))) by (rewrite Hnp; eapply seg_app_l; exact Stail).
    pose proof (pops9 dn below rest ltac:(lia) (lstack R') (pre ++ ct) gv' (fr' :: rest) hp' Spop) as Hpops. rewrite Hnp in Hpops.
    pose proof (seg_app_r _ _ _ _ Stail) as Snil. destruct (seg_cons9 _ _ _ Snil) as [Cnil Sret].
    pose proof (seg_instr _ _ _ _ Sret) as Cret. rewrite bytes_snoc in Cret. change (spanN IScalarNil) with 1 in Cret.
    assert (Hroom1 : (S (length below) < cap)%nat) by lia.
    pose proof (@ex_scalar_nil F bld P cap (fr' :: rest) hp' None [] _ below gv' Cnil Hroom1) as Hnil.
    exists (k + npop + 1)%nat, gv', fr', hp', (bytes ((pre ++ ct) ++ repeat IPop npop) + 1), (@nil value).
    split; [|cbn; auto 6].
    eapply steps9_trans; [eapply steps9_trans; [exact Hst | exact Hpops]|]. apply steps9_1. apply exec1_exec9. exact Hnil.
  - destruct Hc as (k & gv' & fr' & hp' & ipr & mid & Hst & Hfo & Hret & Hrel' & Hv).
    exists k, gv', fr', hp', ipr, mid. auto 8.
  - destruct Hc as (k & c1 & Hst & Hf & Hrel'). exists k, c1. auto.
Qed.

Lemma fns_sim9 fs : fns_ok9 fs = true -> placed9 fs -> calls_ok9 (sem9 fs) (sig_of fs) (need_fs fs) (length fs).
Proof.
  induction fs as [|[n f] r IH]; intros Hok Hpl.
  - intros name k Hf. discriminate Hf.
  - cbn [fns_ok9] in Hok. apply andb_true_iff in Hok. destruct Hok as [Hf Hr].
    destruct Hpl as [(h & pre & Eft & Hh & Hlab & Hseg & Hnm) Hpr].
    specialize (IH Hr Hpr).
    intros name k Hfind. cbn [sig_of map sm_find fst snd] in Hfind. cbn [sem9].
    destruct (str_eqb name n) eqn:E.
    + apply str_eqb_eq in E. subst name. injection Hfind as <-.
      exists h, (bytes pre). split; [exact Eft|]. split; [exact Hh|]. split; [exact Hlab|].
      intros vals g gv below fr rest hp L1 L2 L3 L4 L5 L6 L7.
      apply (fn_sim9 f r (need_fs r) (length r) IH Hf pre Hseg Hnm vals g gv below fr rest hp L1 L2 L3 L4 L5);
        [cbn [need_fs fold_right snd] in L6; exact L6 | cbn [length] in L7; lia].
    + destruct (IH name k Hfind) as (h' & pos & A & B & C & D). exists h', pos.
      split; [exact A|]. split; [exact B|]. split; [exact C|].
      intros vals g gv below fr rest hp L1 L2 L3 L4 L5 L6 L7. cbn [need_fs fold_right snd length] in L6, L7.
      apply D; auto; unfold need_fs; lia.
Qed.

(* the functions of a module, laid out one behind the other, are where their handles and labels say *)
Lemma placed9_intro : forall fs i pre post,
  p_code P = encode (pre ++ code_fns9 T FT (bytes pre) fs ++ post) ->
  labels_ok9 (p_labels P) i (bases9 T FT (bytes pre) fs) ->
  (forall j n f, nth_error fs j = Some (n, f) ->
     sm_find n FT = Some (handle_from_u64 (i + N.of_nat j), N.of_nat (length (f_args f)) mod two32)) ->
  (forall n f, In (n, f) fs -> names_ok (fn_gnames9 f)) ->
  placed9 fs.
Proof.
  induction fs as [|[n f] r IH]; intros i pre post Hcode Hlab Hft Hnm; [exact I|].
  cbn [code_fns9 bases9 labels_ok9 placed9] in *. cbv zeta in *.
  set (cf := code_fn9 T FT (bytes pre) f) in *. destruct Hlab as [Hl Hlr].
  split.
  - exists (handle_from_u64 i), pre.
    split; [rewrite <- (N.add_0_r i); exact (Hft 0%nat n f eq_refl)|].
    split; [rewrite <- two32_eq; apply handle_from_u64_lt|].
    split; [rewrite assoc_nm_find; exact Hl|].
    split; [exists (code_fns9 T FT (bytes pre + bytes cf) r ++ post); rewrite Hcode, <- !app_assoc; reflexivity|].
    apply (Hnm n f). left. reflexivity.
  - apply (IH (i + 1) (pre ++ cf) post).
    + rewrite Hcode, bytes_app, <- !app_assoc. reflexivity.
    + rewrite bytes_app. exact Hlr.
    + intros j n' f' Hj. replace (i + 1 + N.of_nat j) with (i + N.of_nat (S j)) by lia. exact (Hft (S j) n' f' Hj).
    + intros n' f' Hin. apply (Hnm n' f'). right. exact Hin.
Qed.

(* the dispatch loop at a failing configuration *)
Lemma loop_fail9 (reenter : N -> state -> rres) fuel c s rem :
  fail9 c -> St cap (calls9 c) (heap9 c) None [] s (stk9 c) (gl9 c) rem -> 1 < rem ->
  exists nm s', loop F bld P reenter (S fuel) (ip9 c) s = Vm.RErr (EVarNotFound nm) (ip9 c) s' /\ st_globals s' = gl9 c.
Proof.
  intros (nm & Hlt & H) HS Hrem. exists nm. cbn [loop].
  assert (Hcl : (code_len P <=? ip9 c) = false) by (apply N.leb_gt; exact Hlt). rewrite Hcl.
  assert (Hr : st_rem s = rem) by (destruct HS as (_ & _ & _ & _ & _ & _ & _ & _ & Hr); exact Hr).
  rewrite Hr. cbn [st_rem set_rem].
  assert (Hz : (N.pred rem =? 0) = false) by (apply N.eqb_neq; lia). rewrite Hz.
  destruct (H reenter _ _ (St_tick (N.pred rem) HS)) as (ip' & s' & E & Hg). rewrite E. eauto.
Qed.

End Run9b.
