(* C02, link between the VM model and the collector model, part 2: [state_closed] (VmGcRoots.v) is an invariant
   of the VM model - it holds in [fresh_state] and in every cleared state, and every instruction (every opcode,
   every native of the menu, the stdlib natives, nested runs) keeps it, for ARBITRARY bytecode.  Along the way:
   the heap never shrinks during a run, so a value that was not dangling stays so. *)
From Coq Require Import NArith ZArith List Lia Bool.
From Cao Require Import ListUtil Bits Stacks Vm VmUpvalueProofs VmGcRoots.
Import ListNotations.


(* ------------------------------------------------------------------ *)
(* 1. monotonicity                                                     *)
(* ------------------------------------------------------------------ *)

Lemma aok_mono n n' a : n <= n' -> aok n a -> aok n' a.
Proof. unfold aok. lia. Qed.
Lemma vok_mono n n' v : n <= n' -> vok n v -> vok n' v.
Proof. destruct v; cbn; auto. apply aok_mono. Qed.
Lemma ook_mono n n' o : n <= n' -> ook n o -> ook n' o.
Proof. destruct o; cbn; auto. apply aok_mono. Qed.
Lemma gvok_mono n n' g : n <= n' -> gvok n g -> gvok n' g.
Proof. destruct g; cbn; auto. apply vok_mono. Qed.
Lemma pair_ok_mono n n' kv : n <= n' -> pair_ok n kv -> pair_ok n' kv.
Proof. intros L [A B]. split; eapply vok_mono; eauto. Qed.
Lemma table_ok_mono n n' t : n <= n' -> table_ok n t -> table_ok n' t.
Proof.
  intros L [A B]. split; eapply Forall_impl; try eassumption; intros x; [apply vok_mono|apply pair_ok_mono]; exact L.
Qed.
Lemma pre_ok_le n d m m' : m' <= m -> pre_ok n d m -> pre_ok n d m'.
Proof. intros L H i Hi. apply H. lia. Qed.

(* the stack array [d] of a heap of [n] cells becomes [d'] with [n'] cells: no valid prefix is lost *)
Definition dext (n : nat) (d : list value) (n' : nat) (d' : list value) : Prop :=
  n <= n' /\ forall m, pre_ok n d m -> pre_ok n' d' m.

Lemma dext_refl n d : dext n d n d.
Proof. split; auto. Qed.
Lemma dext_trans n1 d1 n2 d2 n3 d3 : dext n1 d1 n2 d2 -> dext n2 d2 n3 d3 -> dext n1 d1 n3 d3.
Proof. intros [A B] [C D]. split; [lia|auto]. Qed.
Lemma dext_grow n n' d : n <= n' -> dext n d n' d.
Proof. intros L. split; [exact L|]. intros m H i Hi. eapply vok_mono; [exact L|]. apply H. exact Hi. Qed.
Lemma dext_upd n d c v : vok n v -> dext n d n (upd d c v).
Proof.
  intros Hv. split; [lia|]. intros m H i Hi.
  destruct (Nat.eq_dec c i) as [->|Hne].
  - destruct (Nat.lt_ge_cases i (length d)) as [Hl|Hl].
    + rewrite nth_upd_same by exact Hl. exact Hv.
    + rewrite nth_overflow by (rewrite upd_length; exact Hl). exact I.
  - rewrite nth_upd_other by exact Hne. apply H. exact Hi.
Qed.

Lemma pre_ok_upd n d c v m : vok n v -> pre_ok n d m -> pre_ok n (upd d c v) m.
Proof. intros Hv. apply (dext_upd n d c v Hv). Qed.

Lemma pre_ok_upd_S n d c v : pre_ok n d c -> vok n v -> pre_ok n (upd d c v) (S c).
Proof.
  intros H Hv i Hi. destruct (Nat.eq_dec c i) as [->|Hne].
  - destruct (Nat.lt_ge_cases i (length d)) as [Hl|Hl].
    + rewrite nth_upd_same by exact Hl. exact Hv.
    + rewrite nth_overflow by (rewrite upd_length; exact Hl). exact I.
  - rewrite nth_upd_other by exact Hne. apply H. lia.
Qed.

Lemma obj_ok_ext n d n' d' o : dext n d n' d' -> obj_ok n d o -> obj_ok n' d' o.
Proof.
  intros [L E]. destruct o as [t|b|h ar|h|h ar ups|u]; cbn [obj_ok]; auto.
  - apply table_ok_mono. exact L.
  - intros H. eapply Forall_impl; [|exact H]. intros a. apply aok_mono. exact L.
  - intros (A & B & C). split; [eapply vok_mono; eauto|]. split; [eapply ook_mono; eauto|].
    destruct (u_loc u); auto.
Qed.
Lemma frame_ok_ext n d n' d' f : dext n d n' d' -> frame_ok n d f -> frame_ok n' d' f.
Proof. intros [L E] [A B]. split; [auto|eapply ook_mono; eauto]. Qed.

Lemma Forall_upd {A} (Q : A -> Prop) l i v : Forall Q l -> Q v -> Forall Q (upd l i v).
Proof.
  intros H Hv. revert i. induction H as [|x l Hx Hl IH]; intros [|i]; cbn [upd]; constructor; auto.
Qed.
Lemma Forall_nth_error {A} (Q : A -> Prop) l i x : Forall Q l -> nth_error l i = Some x -> Q x.
Proof. intros H E. rewrite Forall_forall in H. apply H. eapply nth_error_In. exact E. Qed.
Lemma Forall_remove_nth {A} (Q : A -> Prop) l i : Forall Q l -> Forall Q (remove_nth i l).
Proof.
  intros H. revert i. induction H as [|x l Hx Hl IH]; intros [|i]; cbn [remove_nth]; auto.
Qed.
Lemma Forall_removelast {A} (Q : A -> Prop) l : Forall Q l -> Forall Q (removelast l).
Proof.
  induction 1 as [|x l Hx Hl IH]; cbn [removelast]; [constructor|]. destruct l; [constructor|].
  constructor; assumption.
Qed.
Lemma Forall_nth_d {A} (Q : A -> Prop) l i d : Forall Q l -> Q d -> Q (nth i l d).
Proof.
  intros H Hd. destruct (nth_in_or_default i l d) as [Hin|Heq]; [|rewrite Heq; exact Hd]. rewrite Forall_forall in H. auto.
Qed.

(* ------------------------------------------------------------------ *)
(* 2. state transformers                                               *)
(* ------------------------------------------------------------------ *)

Ltac scn := unfold hl, sd in *;
  cbn [st_open st_heap st_calls st_stack st_globals set_stack set_calls set_globals set_heap set_open set_log
       set_rem tick vdata vcount log_push set_table fst snd] in *.

(* only the value stack changes *)
Lemma closed_set_stack s k :
  state_closed s -> dext (hl s) (sd s) (hl s) (vdata k) -> pre_ok (hl s) (vdata k) (vcount k) ->
  state_closed (set_stack s k).
Proof.
  intros [A B C D E] X Y. constructor; scn; auto.
  - eapply Forall_impl; [|exact B]. intros f. apply frame_ok_ext. exact X.
  - eapply Forall_impl; [|exact E]. intros o. apply obj_ok_ext. exact X.
Qed.

Lemma closed_set_calls s c :
  state_closed s -> Forall (frame_ok (hl s) (sd s)) c -> state_closed (set_calls s c).
Proof. intros [A B C D E] X. constructor; scn; auto. Qed.
Lemma closed_set_globals s g :
  state_closed s -> Forall (gvok (hl s)) g -> state_closed (set_globals s g).
Proof. intros [A B C D E] X. constructor; scn; auto. Qed.
Lemma closed_set_open s o : state_closed s -> ook (hl s) o -> state_closed (set_open s o).
Proof. intros [A B C D E] X. constructor; scn; auto. Qed.
Lemma closed_set_log s l : state_closed s -> state_closed (set_log s l).
Proof. intros [A B C D E]. constructor; scn; auto. Qed.
Lemma closed_log_push s e : state_closed s -> state_closed (log_push s e).
Proof. apply closed_set_log. Qed.
Lemma closed_set_rem s r : state_closed s -> state_closed (set_rem s r).
Proof. intros [A B C D E]. constructor; scn; auto. Qed.
Lemma closed_tick s : state_closed s -> state_closed (tick s).
Proof. intros [A B C D E]. constructor; scn; auto. Qed.

(* an object is overwritten (hset beyond the heap is a no-op) *)
Lemma closed_hset s a o :
  state_closed s -> obj_ok (hl s) (sd s) o -> state_closed (set_heap s (hset (st_heap s) a o)).
Proof.
  intros [A B C D E] X. constructor; scn; unfold hset; rewrite ?upd_length; auto.
  apply Forall_upd; assumption.
Qed.

(* a new object *)
Lemma closed_salloc s o s1 a :
  salloc s o = (s1, a) -> state_closed s -> obj_ok (S (hl s)) (sd s) o ->
  state_closed s1 /\ hl s1 = S (hl s) /\ a = N.of_nat (hl s) /\ sd s1 = sd s /\ st_stack s1 = st_stack s /\
  st_calls s1 = st_calls s.
Proof.
  unfold salloc, halloc. intros H [A B C D E] X. injection H as <- <-.
  assert (G : dext (hl s) (sd s) (S (hl s)) (sd s)) by (apply dext_grow; lia).
  split; [|scn; rewrite app_length; cbn [length]; repeat split; lia].
  constructor; scn; rewrite ?app_length; cbn [length]; rewrite ?Nat.add_1_r.
  - apply G. exact A.
  - eapply Forall_impl; [|exact B]. intros f. apply frame_ok_ext. exact G.
  - eapply Forall_impl; [|exact C]. intros g. apply gvok_mono. lia.
  - eapply ook_mono; [|exact D]. lia.
  - apply Forall_app. split; [|constructor; [exact X|constructor]].
    eapply Forall_impl; [|exact E]. intros ob. apply obj_ok_ext. exact G.
Qed.

Lemma closed_hget s a o : state_closed s -> hget (st_heap s) a = Some o -> obj_ok (hl s) (sd s) o.
Proof. intros [A B C D E] H. eapply Forall_nth_error; [exact E|exact H]. Qed.
Lemma hget_aok s a o : hget (st_heap s) a = Some o -> aok (hl s) a.
Proof. intros H. apply hget_lt in H. exact H. Qed.

(* ---- the value stack ---- *)
Lemma closed_slot s i : state_closed s -> i < vcount (st_stack s) -> vok (hl s) (nth i (sd s) VNil).
Proof. intros [A _ _ _ _] Hi. apply A. exact Hi. Qed.

Lemma spush_closed s v s1 :
  spush s v = Some s1 -> state_closed s -> vok (hl s) v -> state_closed s1 /\ st_heap s1 = st_heap s.
Proof.
  unfold spush, vs_push.
  destruct (S (vcount (st_stack s)) <? length (vdata (st_stack s))); intros H; cbv beta iota zeta in H; [|discriminate].
  injection H as <-. intros Hs Hv. split; [|reflexivity].
  apply closed_set_stack; cbn [vdata vcount]; [exact Hs|apply dext_upd; exact Hv|].
  apply pre_ok_upd_S; [apply Hs|exact Hv].
Qed.

Lemma vs_pop_closed s :
  state_closed s ->
  state_closed (set_stack s (fst (vs_pop VNil (st_stack s)))) /\ vok (hl s) (snd (vs_pop VNil (st_stack s))).
Proof.
  intros Hs. unfold vs_pop. destruct (vcount (st_stack s) =? 0) eqn:E; cbn [fst snd].
  - split; [|exact I]. destruct s as [[c d] ? ? ? ? ? ? ?]. exact Hs.
  - apply Nat.eqb_neq in E. split.
    + apply closed_set_stack; cbn [vdata vcount]; [exact Hs|apply dext_upd; exact I|].
      apply pre_ok_upd; [exact I|].
      eapply pre_ok_le; [|apply Hs]. lia.
    + apply closed_slot; [exact Hs|lia].
Qed.

Lemma spop_closed s s1 v :
  spop s = (s1, v) -> state_closed s -> state_closed s1 /\ st_heap s1 = st_heap s /\ vok (hl s) v.
Proof.
  unfold spop. intros H Hs. destruct (vs_pop_closed _ Hs) as [A B].
  destruct (vs_pop VNil (st_stack s)) as [k x]. injection H as <- <-. auto.
Qed.

Lemma sset_closed s i v s1 :
  sset s i v = Some s1 -> state_closed s -> vok (hl s) v -> state_closed s1 /\ st_heap s1 = st_heap s.
Proof.
  unfold sset, vs_step, vs_push. intros H Hs Hv.
  destruct (vcount (st_stack s) <? i); [discriminate|].
  destruct (Nat.eqb_spec i (vcount (st_stack s))) as [->|Hne].
  - destruct (S (vcount (st_stack s)) <? length (vdata (st_stack s))); cbv beta iota zeta in H; [|discriminate].
    injection H as <-. split; [|reflexivity].
    apply closed_set_stack; cbn [vdata vcount]; [exact Hs|apply dext_upd; exact Hv|].
    apply pre_ok_upd_S; [apply Hs|exact Hv].
  - injection H as <-. split; [|reflexivity].
    apply closed_set_stack; cbn [vdata vcount]; [exact Hs|apply dext_upd; exact Hv|].
    apply pre_ok_upd; [exact Hv|]. apply Hs.
Qed.
Lemma write_local_closed s off h v s1 :
  write_local s off h v = Some s1 -> state_closed s -> vok (hl s) v -> state_closed s1 /\ st_heap s1 = st_heap s.
Proof. apply sset_closed. Qed.

Lemma sclear_until_closed s h s1 v :
  sclear_until s h = (s1, v) -> state_closed s -> pre_ok (hl s) (sd s) h ->
  state_closed s1 /\ st_heap s1 = st_heap s /\ vok (hl s) v.
Proof.
  unfold sclear_until, vs_step. intros H Hs Hh. injection H as <- <-. split; [|split; [reflexivity|]].
  - apply closed_set_stack; cbn [vdata vcount]; [exact Hs|apply dext_refl|exact Hh].
  - unfold vs_last. destruct (0 <? vcount (st_stack s)) eqn:E; [|exact I].
    apply Nat.ltb_lt in E. apply closed_slot; [exact Hs|lia].
Qed.

Lemma spop_w_offset_closed s off s1 v :
  spop_w_offset s off = (s1, v) -> state_closed s -> state_closed s1 /\ st_heap s1 = st_heap s /\ vok (hl s) v.
Proof.
  unfold spop_w_offset, vs_step. intros H Hs. destruct (vcount (st_stack s) <=? off).
  - injection H as <- <-. split; [|split; [reflexivity|exact I]]. destruct s as [[c d] ? ? ? ? ? ? ?]. exact Hs.
  - destruct (vs_pop_closed _ Hs) as [A B]. destruct (vs_pop VNil (st_stack s)) as [k x].
    injection H as <- <-. auto.
Qed.

Lemma spop_n_closed s n : state_closed s -> state_closed (spop_n s n).
Proof.
  intros Hs. unfold spop_n, vs_pop_n. cbn [fst].
  apply closed_set_stack; cbn [vdata vcount]; [exact Hs|apply dext_refl|].
  eapply pre_ok_le; [|apply Hs]. lia.
Qed.
Lemma sraw_set_closed s i v : state_closed s -> vok (hl s) v -> state_closed (sraw_set s i v).
Proof.
  intros Hs Hv. unfold sraw_set. apply closed_set_stack; cbn [vdata vcount]; [exact Hs|apply dext_upd; exact Hv|].
  apply pre_ok_upd; [exact Hv|]. apply Hs.
Qed.

Lemma speek_vok s k : state_closed s -> vok (hl s) (speek s k).
Proof.
  intros Hs. unfold speek, vs_step. destruct (k <? vcount (st_stack s)) eqn:E; [|exact I].
  apply Nat.ltb_lt in E. apply closed_slot; [exact Hs|lia].
Qed.
Lemma slast_vok s : state_closed s -> vok (hl s) (slast s).
Proof.
  intros Hs. unfold slast, vs_last. destruct (0 <? vcount (st_stack s)) eqn:E; [|exact I].
  apply Nat.ltb_lt in E. apply closed_slot; [exact Hs|lia].
Qed.
Lemma sget_vok s i : state_closed s -> vok (hl s) (sget s i).
Proof.
  intros Hs. unfold sget, vs_step. destruct (vcount (st_stack s) <=? i) eqn:E; [exact I|].
  apply Nat.leb_gt in E. apply closed_slot; [exact Hs|exact E].
Qed.
(* the slot of an open upvalue *)
Lemma sraw_get_vok s a u l :
  state_closed s -> hget (st_heap s) a = Some (OUp u) -> u_loc u = Some l -> vok (hl s) (sraw_get s l).
Proof.
  intros Hs Ha Hl. pose proof (closed_hget _ _ _ Hs Ha) as (_ & _ & C). rewrite Hl in C. apply C. lia.
Qed.

(* ---- frames ---- *)
Lemma push_frame_closed s f s1 :
  push_frame s f = Some s1 -> state_closed s -> frame_ok (hl s) (sd s) f -> state_closed s1 /\ st_heap s1 = st_heap s.
Proof.
  unfold push_frame. destruct (_ <=? _); [discriminate|]. intros H Hs Hf. injection H as <-.
  split; [|reflexivity]. apply closed_set_calls; [exact Hs|]. constructor; [exact Hf|apply Hs].
Qed.
Lemma top_offset_pre s off : state_closed s -> top_offset s = Some off -> pre_ok (hl s) (sd s) off.
Proof.
  intros Hs. unfold top_offset. destruct (st_calls s) as [|f r] eqn:E; [discriminate|]. intros H. injection H as <-.
  pose proof (sc_calls Hs) as B. rewrite E in B. inversion B as [|? ? [X _] _]; subst. exact X.
Qed.
(* a frame whose offset is at most the height *)
Lemma frame_ok_below s off clo src dst :
  state_closed s -> N.to_nat off <= vcount (st_stack s) -> ook (hl s) clo ->
  frame_ok (hl s) (sd s) (mkFrame src dst off clo).
Proof. intros Hs L Hc. split; cbn [fr_off fr_clo]; [|exact Hc]. eapply pre_ok_le; [exact L|apply Hs]. Qed.

(* ------------------------------------------------------------------ *)
(* 3. tables                                                           *)
(* ------------------------------------------------------------------ *)
Section Tables.
  Variable eq : eqfun.
  Variable n : nat.

  Lemma map_find_ok k m i v :
    Forall (pair_ok n) m -> map_find eq k m = Some (Some (i, v)) -> vok n v.
  Proof.
    intros H. revert i. induction H as [|[k' v'] m [Hk Hv] Hm IH]; intros i; cbn [map_find]; [discriminate|].
    destruct (keq eq k' k) as [[|]|]; try discriminate.
    - intros E. injection E as _ <-. exact Hv.
    - destruct (map_find eq k m) as [[[j w]|]|]; try discriminate. intros E. injection E as _ <-. eapply IH. reflexivity.
  Qed.

  Lemma tget_ok t k r : table_ok n t -> tget eq t k = Some r -> vok n (match r with Some v => v | None => VNil end).
  Proof.
    intros [_ Hm]. unfold tget. destruct (map_find eq k (tmap t)) as [[[i v]|]|] eqn:E; try discriminate;
      intros H; injection H as <-; [|exact I]. eapply map_find_ok; eauto.
  Qed.

  Lemma tinsert_ok t k v t' : table_ok n t -> vok n k -> vok n v -> tinsert eq t k v = Some t' -> table_ok n t'.
  Proof.
    intros [Hk Hm] Vk Vv. unfold tinsert. destruct (map_find eq k (tmap t)) as [[[i w]|]|]; try discriminate;
      intros H; injection H as <-; split; cbn [tkeys tmap]; auto.
    - apply Forall_upd; [exact Hm|]. split; cbn [fst snd]; [|exact Vv].
      apply (Forall_nth_d (fun kv => vok n (fst kv)) (tmap t) i (VNil, VNil)); [|exact I].
      eapply Forall_impl; [|exact Hm]. intros x [X _]. exact X.
    - apply Forall_app. split; [exact Hk|constructor; [exact Vk|constructor]].
    - apply Forall_app. split; [exact Hm|constructor; [split; assumption|constructor]].
  Qed.

  Lemma tappend_ok t v t' : table_ok n t -> vok n v -> tappend eq t v = TOk t' -> table_ok n t'.
  Proof.
    intros Ht Vv. unfold tappend. destruct (tappend_idx _ _ _ _) as [[i|]|]; try discriminate.
    destruct (tinsert eq t (VInt i) v) as [t1|] eqn:E; [|discriminate]. intros H. injection H as <-.
    eapply (tinsert_ok t (VInt i)); [exact Ht|exact I|exact Vv|exact E].
  Qed.

  Lemma tpop_ok t t' v : table_ok n t -> tpop eq t = Some (t', v) -> table_ok n t' /\ vok n v.
  Proof.
    intros [Hk Hm]. unfold tpop. destruct (rev (tkeys t)) as [|key r].
    - intros H. injection H as <- <-. split; [split; assumption|exact I].
    - destruct (map_find eq key (tmap t)) as [[[i w]|]|] eqn:E; try discriminate; intros H; injection H as <- <-.
      + split; [|eapply map_find_ok; eauto]. split; cbn [tkeys tmap];
          [apply Forall_removelast; exact Hk|apply Forall_remove_nth; exact Hm].
      + split; [|exact I]. split; cbn [tkeys tmap]; [apply Forall_removelast; exact Hk|exact Hm].
  Qed.

  Lemma tnth_key_ok t i : table_ok n t -> vok n (tnth_key t i).
  Proof.
    intros [Hk _]. unfold tnth_key. destruct (_ <=? _); [exact I|]. apply Forall_nth_d; [exact Hk|exact I].
  Qed.

  Lemma titer_go_ok m ks l :
    Forall (pair_ok n) m -> Forall (vok n) ks -> titer_go eq m ks = Some l -> Forall (pair_ok n) l.
  Proof.
    intros Hm Hk. revert l. induction Hk as [|k r Vk Hr IH]; intros l; cbn [titer_go].
    - intros H. injection H as <-. constructor.
    - destruct (map_find eq k m) as [[[i v]|]|] eqn:E; try discriminate;
        destruct (titer_go eq m r) as [l0|]; try discriminate; intros H; injection H as <-; [|auto].
      constructor; [|auto]. split; cbn [fst snd]; [exact Vk|eapply map_find_ok; eauto].
  Qed.
  Lemma titer_ok t l : table_ok n t -> titer eq t = Some l -> Forall (pair_ok n) l.
  Proof. intros [Hk Hm]. apply titer_go_ok; assumption. Qed.

  Lemma table_ok_empty : table_ok n (mkTable [] []).
  Proof. split; constructor. Qed.

  Lemma insert_pairs_ok l : forall t t', table_ok n t -> Forall (pair_ok n) l -> insert_pairs eq t l = Some t' -> table_ok n t'.
  Proof.
    induction l as [|[k v] r IH]; intros t t' Ht Hl; cbn [insert_pairs].
    - intros H. injection H as <-. exact Ht.
    - inversion Hl as [|? ? [Vk Vv] Hr]; subst. destruct (tinsert eq t k v) as [t1|] eqn:E; [|discriminate].
      apply IH; [|exact Hr]. exact (tinsert_ok t k v t1 Ht Vk Vv E).
  Qed.
  Lemma to_array_go_ok l : forall t i t', table_ok n t -> Forall (pair_ok n) l -> to_array_go eq t i l = Some t' -> table_ok n t'.
  Proof.
    induction l as [|[k v] r IH]; intros t i t' Ht Hl; cbn [to_array_go].
    - intros H. injection H as <-. exact Ht.
    - inversion Hl as [|? ? [Vk Vv] Hr]; subst. destruct (tinsert eq t (VInt i) v) as [t1|] eqn:E; [|discriminate].
      apply IH; [|exact Hr]. exact (tinsert_ok t (VInt i) v t1 Ht I Vv E).
  Qed.
  Lemma insert_all_ok l : forall t t', table_ok n t -> Forall (fun x => pair_ok n (snd x)) l ->
    insert_all eq t l = Some t' -> table_ok n t'.
  Proof.
    induction l as [|[key [k v]] r IH]; intros t t' Ht Hl; cbn [insert_all].
    - intros H. injection H as <-. exact Ht.
    - inversion Hl as [|? ? [Vk Vv] Hr]; subst. cbn [fst snd] in *. destruct (tinsert eq t k v) as [t1|] eqn:E; [|discriminate].
      apply IH; [|exact Hr]. exact (tinsert_ok t k v t1 Ht Vk Vv E).
  Qed.
End Tables.

Lemma get_table_closed s v a t :
  get_table (st_heap s) v = TblOk a t -> state_closed s -> hget (st_heap s) a = Some (OTable t) /\ table_ok (hl s) t.
Proof.
  intros H Hs. unfold get_table in H. destruct v as [| | |b]; try discriminate.
  destruct (hget (st_heap s) b) as [[t0| | | | |]|] eqn:E; try discriminate. injection H as <- <-.
  split; [exact E|]. exact (closed_hget _ _ _ Hs E).
Qed.

Lemma closed_set_table s a t : state_closed s -> table_ok (hl s) t -> state_closed (set_table s a t).
Proof. intros Hs Ht. unfold set_table. apply closed_hset; assumption. Qed.

(* ------------------------------------------------------------------ *)
(* 4. results                                                          *)
(* ------------------------------------------------------------------ *)

(* [s'] is closed and its heap has at least [n0] cells; no claim about the state of an abort *)
Definition okm (n0 : nat) (s' : state) : Prop := state_closed s' /\ n0 <= hl s'.
Definition sres_c (n0 : nat) (r : sres) : Prop :=
  match r with SNext _ s' | SExit s' | SErr _ _ s' => okm n0 s' | SStop _ _ => True end.
Definition rres_c (n0 : nat) (r : rres) : Prop :=
  match r with ROk s' | RErr _ _ s' => okm n0 s' | RStop _ _ => True end.
Definition nres_c (n0 : nat) (r : nres) : Prop :=
  match r with NOk v s' => okm n0 s' /\ vok (hl s') v | NErr _ s' => okm n0 s' | NStop _ _ => True end.

Lemma okm_le n0 n1 s : n0 <= n1 -> okm n1 s -> okm n0 s.
Proof. intros L [A B]. split; [exact A|lia]. Qed.
Lemma sres_c_le n0 n1 r : n0 <= n1 -> sres_c n1 r -> sres_c n0 r.
Proof. intros L. destruct r; cbn [sres_c]; auto; apply okm_le; exact L. Qed.
Lemma rres_c_le n0 n1 r : n0 <= n1 -> rres_c n1 r -> rres_c n0 r.
Proof. intros L. destruct r; cbn [rres_c]; auto; apply okm_le; exact L. Qed.
Lemma nres_c_le n0 n1 r : n0 <= n1 -> nres_c n1 r -> nres_c n0 r.
Proof.
  intros L. destruct r; cbn [nres_c]; auto; [|apply okm_le; exact L].
  intros [A B]. split; [eapply okm_le; eauto|exact B].
Qed.

(* the same facts with heap lengths *)
Lemma spop_c s s1 v : spop s = (s1, v) -> state_closed s -> state_closed s1 /\ hl s1 = hl s /\ vok (hl s) v.
Proof. intros H Hs. destruct (spop_closed _ _ _ H Hs) as (A & B & C). unfold hl. rewrite B. auto. Qed.
Lemma spush_c s v s1 : spush s v = Some s1 -> state_closed s -> vok (hl s) v -> state_closed s1 /\ hl s1 = hl s.
Proof. intros H Hs Hv. destruct (spush_closed _ _ _ H Hs Hv) as (A & B). unfold hl. rewrite B. auto. Qed.
Lemma write_local_c s off h v s1 :
  write_local s off h v = Some s1 -> state_closed s -> vok (hl s) v -> state_closed s1 /\ hl s1 = hl s.
Proof. intros H Hs Hv. destruct (write_local_closed _ _ _ _ _ H Hs Hv) as (A & B). unfold hl. rewrite B. auto. Qed.
Lemma sclear_until_c s h s1 v :
  sclear_until s h = (s1, v) -> state_closed s -> pre_ok (hl s) (sd s) h ->
  state_closed s1 /\ hl s1 = hl s /\ vok (hl s) v.
Proof. intros H Hs Hp. destruct (sclear_until_closed _ _ _ _ H Hs Hp) as (A & B & C). unfold hl. rewrite B. auto. Qed.
Lemma spop_w_offset_c s off s1 v :
  spop_w_offset s off = (s1, v) -> state_closed s -> state_closed s1 /\ hl s1 = hl s /\ vok (hl s) v.
Proof. intros H Hs. destruct (spop_w_offset_closed _ _ _ _ H Hs) as (A & B & C). unfold hl. rewrite B. auto. Qed.
Lemma push_frame_c s f s1 :
  push_frame s f = Some s1 -> state_closed s -> frame_ok (hl s) (sd s) f ->
  state_closed s1 /\ hl s1 = hl s /\ sd s1 = sd s /\ st_stack s1 = st_stack s.
Proof.
  intros H Hs Hf. destruct (push_frame_closed _ _ _ H Hs Hf) as (A & B). unfold hl. rewrite B.
  unfold push_frame in H. destruct (_ <=? _); [discriminate|]. injection H as <-. auto.
Qed.
Lemma hl_spop_n s n : hl (spop_n s n) = hl s. Proof. reflexivity. Qed.
Lemma hl_log_push s e : hl (log_push s e) = hl s. Proof. reflexivity. Qed.
Lemma hl_set_table s a t : hl (set_table s a t) = hl s.
Proof. unfold hl, set_table, hset. cbn [st_heap set_heap]. apply upd_length. Qed.
Lemma hl_sraw_set s i v : hl (sraw_set s i v) = hl s. Proof. reflexivity. Qed.
Lemma hl_hset s a o : hl (set_heap s (hset (st_heap s) a o)) = hl s.
Proof. unfold hl, hset. cbn [st_heap set_heap]. apply upd_length. Qed.

(* objects that hold no address *)
Definition flat_obj (o : obj) : Prop :=
  match o with OStr _ | OFun _ _ | ONative _ => True | OClo _ _ ups => ups = [] | OTable t => t = mkTable [] [] | OUp _ => False end.
Lemma flat_obj_ok n d o : flat_obj o -> obj_ok n d o.
Proof.
  destruct o as [t| | | |h ar ups|u]; cbn; auto; try contradiction.
  - intros ->. split; constructor.
  - intros ->. constructor.
Qed.
Lemma salloc_flat s o s1 a :
  salloc s o = (s1, a) -> state_closed s -> flat_obj o ->
  state_closed s1 /\ hl s1 = S (hl s) /\ a = N.of_nat (hl s) /\ sd s1 = sd s /\ st_stack s1 = st_stack s /\
  st_calls s1 = st_calls s.
Proof. intros H Hs Ho. eapply closed_salloc; eauto. apply flat_obj_ok. exact Ho. Qed.
Lemma aok_new n : aok (S n) (N.of_nat n).
Proof. unfold aok. rewrite Nat2N.id. lia. Qed.

(* forward chaining over the helpers of the instruction functions *)
Ltac vtac :=
  first [ exact I | assumption
        | apply speek_vok; assumption | apply slast_vok; assumption | apply sget_vok; assumption
        | (eapply vok_mono; [|eassumption]; lia)
        | (eapply vok_mono; [|apply speek_vok; eassumption]; lia)
        | (cbn [vok]; match goal with H : ?a = N.of_nat ?n |- aok _ ?a => rewrite H; unfold aok; rewrite Nat2N.id; lia end) ].

Ltac flat_tac := first [ exact I | reflexivity | (destruct (_ =? _)%N; first [exact I | reflexivity]) ].

Ltac fwd :=
  repeat match goal with
  | H : spop ?s = (_, _), Hs : state_closed ?s |- _ =>
      let A := fresh "Hc" in let B := fresh "Hh" in let C := fresh "Hv" in
      destruct (spop_c _ _ _ H Hs) as (A & B & C); clear H
  | H : spop_w_offset ?s _ = (_, _), Hs : state_closed ?s |- _ =>
      let A := fresh "Hc" in let B := fresh "Hh" in let C := fresh "Hv" in
      destruct (spop_w_offset_c _ _ _ _ H Hs) as (A & B & C); clear H
  | H : spush ?s ?v = Some _, Hs : state_closed ?s |- _ =>
      let A := fresh "Hc" in let B := fresh "Hh" in
      destruct (spush_c _ _ _ H Hs ltac:(vtac)) as (A & B); clear H
  | H : write_local ?s _ _ ?v = Some _, Hs : state_closed ?s |- _ =>
      let A := fresh "Hc" in let B := fresh "Hh" in
      destruct (write_local_c _ _ _ _ _ H Hs ltac:(vtac)) as (A & B); clear H
  | H : salloc ?s ?o = (_, _), Hs : state_closed ?s |- _ =>
      let A := fresh "Hc" in let B := fresh "Hh" in let C := fresh "Ha" in
      destruct (salloc_flat _ _ _ _ H Hs ltac:(flat_tac)) as (A & B & C & _); clear H
  end.

Ltac hl_norm :=
  repeat first [rewrite hl_spop_n in * | rewrite hl_log_push in * | rewrite hl_set_table in * | rewrite hl_hset in * | rewrite hl_sraw_set in *];
  unfold hl in *;
  cbn [st_open st_heap st_calls st_stack st_globals set_stack set_calls set_globals set_heap set_open set_log
       set_rem tick] in *.

Ltac cl_tac :=
  repeat first
    [ assumption
    | apply closed_set_log | apply closed_log_push | apply closed_set_rem | apply closed_tick | apply spop_n_closed ].

Ltac fin :=
  cbn [sres_c rres_c nres_c];
  first [ exact I
        | (split; [split; [cl_tac|hl_norm; lia]|vtac])
        | (split; [cl_tac|hl_norm; lia]) ].

(* ------------------------------------------------------------------ *)
(* 5. instructions                                                     *)
(* ------------------------------------------------------------------ *)
Section Step.
  Variable F : fops.
  Variable bld : build.
  Variable P : program.
  Variable reenter : N -> state -> rres.
  Hypothesis reenter_ok : forall ip s, state_closed s -> rres_c (hl s) (reenter ip s).

  Lemma push_next_c n0 ip s v : state_closed s -> n0 <= hl s -> vok (hl s) v -> sres_c n0 (push_next ip s v).
  Proof. unfold push_next. intros Hs L Hv. destruct (spush s v) eqn:E; fwd; fin. Qed.

  (* the value-level operators return no object *)
  Definition plain_op (op : heap -> value -> value -> vres) : Prop :=
    forall h a b v, op h a b = VOk v -> forall n, vok n v.

  Lemma arith_plain o : plain_op (arith_op F o).
  Proof.
    intros h a b v. unfold arith_op. destruct (cast_match F h a b) as [[[] []]|]; try discriminate;
      try (intros E; injection E as <-; intros; exact I).
    destruct (i64_result _); [|discriminate]. intros E; injection E as <-; intros; exact I.
  Qed.
  Lemma div_plain : plain_op (div_op F).
  Proof.
    intros h a b v. unfold div_op. destruct (cast_match F h a b) as [[[] []]|]; try discriminate;
      intros E; injection E as <-; intros; exact I.
  Qed.
  Lemma eq_plain neg : plain_op (eq_op F neg).
  Proof. intros h a b v. unfold eq_op. destruct (veq0 F h a b); [|discriminate]. intros E; injection E as <-; intros; exact I. Qed.
  Lemma less_plain oe : plain_op (less_op F oe).
  Proof.
    intros h a b v. unfold less_op. destruct (vcmp F h a b) as [[]| |]; try discriminate;
      intros E; injection E as <-; intros; exact I.
  Qed.
  Lemma bool_plain f : plain_op (bool_op F f).
  Proof.
    intros h a b v. unfold bool_op. destruct (as_bool F h a); [|discriminate]. destruct (as_bool F h b); [|discriminate].
    intros E; injection E as <-; intros; exact I.
  Qed.

  Lemma binary_op_c ip s op : plain_op op -> state_closed s -> sres_c (hl s) (binary_op ip s op).
  Proof.
    intros Hop Hs. unfold binary_op. destruct (spop s) as [s1 b] eqn:E1. destruct (spop s1) as [s2 a] eqn:E2. fwd.
    destruct (op (st_heap s2) a b) as [v| | |] eqn:Eo; cbn [of_vres]; try exact I.
    apply push_next_c; [assumption|lia|]. eapply Hop. exact Eo.
  Qed.

  Ltac pn := apply push_next_c; [cl_tac|hl_norm; lia|try vtac].

  Lemma i_5_c : forall opc ip0 ip s, state_closed s -> sres_c (hl s) (i_5 P opc ip0 ip s).
  Proof. intros opc ip0 ip s Hs. unfold i_5. destruct (read_le _ _ _); [pn|exact I]. Qed.
  Lemma i_6_c : forall opc ip0 ip s, state_closed s -> sres_c (hl s) (i_6 P opc ip0 ip s).
  Proof. intros opc ip0 ip s Hs. unfold i_6. destruct (read_le _ _ _); [pn|exact I]. Qed.
  Lemma i_8_c : forall opc ip0 ip s, state_closed s -> sres_c (hl s) (i_8 P opc ip0 ip s).
  Proof.
    intros opc ip0 ip s Hs. unfold i_8. destruct (op_u32 P ip); [|exact I]. cbv zeta.
    destruct (read_str _ _); try fin. destruct (salloc s _) as [s1 a] eqn:E. fwd. pn.
  Qed.
  Lemma i_31_c : forall opc ip0 ip s, state_closed s -> sres_c (hl s) (i_31 opc ip0 ip s).
  Proof. intros opc ip0 ip s Hs. unfold i_31. destruct (salloc s _) as [s1 a] eqn:E. fwd. pn. Qed.
  Lemma i_37_42_c : forall opc ip0 ip s, state_closed s -> sres_c (hl s) (i_37_42 P opc ip0 ip s).
  Proof.
    intros opc ip0 ip s Hs. unfold i_37_42. destruct (op_u32 P ip); [|exact I]. destruct (op_u32 P (ip + 4)); [|exact I].
    cbv zeta. destruct (salloc s _) as [s1 a] eqn:E. fwd. pn.
  Qed.
  Lemma i_38_c : forall opc ip0 ip s, state_closed s -> sres_c (hl s) (i_38 P opc ip0 ip s).
  Proof.
    intros opc ip0 ip s Hs. unfold i_38. destruct (op_u32 P ip); [|exact I]. cbv zeta.
    destruct (read_str _ _); try fin. destruct (salloc s _) as [s1 a] eqn:E. fwd. pn.
  Qed.

  Lemma Forall_repeat {A} (Q : A -> Prop) x k : Q x -> Forall Q (repeat x k).
  Proof. intros H. induction k; cbn; constructor; auto. Qed.

  Lemma i_17_c : forall opc ip0 ip s, state_closed s -> sres_c (hl s) (i_17 P opc ip0 ip s).
  Proof.
    intros opc ip0 ip s Hs. unfold i_17. destruct (op_u32 P ip); [|exact I].
    destruct (spop s) as [s1 v] eqn:E. fwd. cbv zeta. cbn [sres_c]. split; [|hl_norm; lia].
    apply closed_set_globals; [assumption|]. apply Forall_upd; [|cbn [gvok]; vtac].
    destruct (_ <=? _); [|apply Hc]. apply Forall_app. split; [apply Hc|]. apply Forall_repeat. exact I.
  Qed.
  Lemma i_18_c : forall opc ip0 ip s, state_closed s -> sres_c (hl s) (i_18 P opc ip0 ip s).
  Proof.
    intros opc ip0 ip s Hs. unfold i_18. destruct (op_u32 P ip); [|exact I]. cbv zeta.
    destruct (nth_error _ _) as [[v|]|] eqn:E; try fin. pn.
    apply (Forall_nth_error (gvok (hl s)) _ _ _ (sc_globals Hs) E).
  Qed.
  Lemma i_19_c : forall opc ip0 ip s, state_closed s -> sres_c (hl s) (i_19 P opc ip0 ip s).
  Proof.
    intros opc ip0 ip s Hs. unfold i_19. destruct (op_u32 P ip); [|exact I]. cbv zeta.
    destruct (top_offset s); [|exact I]. destruct (spop_w_offset s n0) as [s1 v] eqn:E. fwd.
    destruct (write_local _ _ _ _) eqn:E2; fwd; fin.
  Qed.
  Lemma i_20_c : forall opc ip0 ip s, state_closed s -> sres_c (hl s) (i_20 P opc ip0 ip s).
  Proof.
    intros opc ip0 ip s Hs. unfold i_20. destruct (op_u32 P ip); [|exact I]. cbv zeta.
    destruct (top_offset s); [|exact I]. pn.
  Qed.
  Lemma i_21_c : forall opc ip0 ip s, state_closed s -> sres_c (hl s) (i_21 opc ip0 ip s).
  Proof.
    intros opc ip0 ip s Hs. unfold i_21. destruct (top_offset s) as [off|] eqn:Eo; [|exact I].
    destruct (sclear_until s off) as [s1 v] eqn:E. cbn [fst].
    destruct (sclear_until_c _ _ _ _ E Hs (top_offset_pre _ _ Hs Eo)) as (A & B & C). fin.
  Qed.
  Lemma i_23_c : forall opc ip0 ip s, state_closed s -> sres_c (hl s) (i_23 opc ip0 ip s).
  Proof.
    intros opc ip0 ip s Hs. unfold i_23. destruct (spop s) as [s1 b] eqn:E1. destruct (spop s1) as [s2 a] eqn:E2. fwd.
    destruct (spush s2 b) as [s3|] eqn:E3; [|exact I]. fwd. destruct (spush s3 a) as [s4|] eqn:E4; [|exact I]. fwd. fin.
  Qed.
  Lemma i_27_c : forall opc ip0 ip s, state_closed s -> sres_c (hl s) (i_27 F opc ip0 ip s).
  Proof.
    intros opc ip0 ip s Hs. unfold i_27. destruct (spop s) as [s1 v] eqn:E1. fwd.
    destruct (as_bool _ _ _); [pn|exact I].
  Qed.
  Lemma i_28_c : forall opc ip0 ip s, state_closed s -> sres_c (hl s) (i_28 bld P opc ip0 ip s).
  Proof.
    intros opc ip0 ip s Hs. unfold i_28. destruct (op_u32 P ip); [|exact I]. destruct (jump_target _ _); fin.
  Qed.
  Lemma i_29_30_c : forall opc ip0 ip s, state_closed s -> sres_c (hl s) (i_29_30 F bld P opc ip0 ip s).
  Proof.
    intros opc ip0 ip s Hs. unfold i_29_30. destruct (spop s) as [s1 v] eqn:E1. fwd.
    destruct (op_u32 P ip); [|exact I]. destruct (jump_target _ _); [|exact I]. destruct (as_bool _ _ _); fin.
  Qed.
  Lemma i_34_c : forall opc ip0 ip s, state_closed s -> sres_c (hl s) (i_34 opc ip0 ip s).
  Proof.
    intros opc ip0 ip s Hs. unfold i_34. destruct (spop s) as [s1 v] eqn:E1. fwd.
    destruct v; try pn. destruct (vobj_len _ _); [pn|exact I].
  Qed.

  (* ---- tables ---- *)
  Lemma i_32_c : forall opc ip0 ip s, state_closed s -> sres_c (hl s) (i_32 F opc ip0 ip s).
  Proof.
    intros opc ip0 ip s Hs. unfold i_32. destruct (spop s) as [s1 key] eqn:E1. destruct (spop s1) as [s2 inst] eqn:E2. fwd.
    destruct (get_table _ _) as [a t| |] eqn:Eg; try fin.
    destruct (get_table_closed _ _ _ _ Eg Hc0) as [Ha Ht].
    destruct (tget _ t key) as [r|] eqn:Et; [|exact I]. pn. eapply tget_ok; eauto.
  Qed.
  Lemma i_33_c : forall opc ip0 ip s, state_closed s -> sres_c (hl s) (i_33 F opc ip0 ip s).
  Proof.
    intros opc ip0 ip s Hs. unfold i_33. cbv zeta.
    pose proof (spop_n_closed s 3 Hs) as H3.
    destruct (get_table _ _) as [a t| |] eqn:Eg; try fin.
    destruct (get_table_closed _ _ _ _ Eg H3) as [Ha Ht].
    destruct (tinsert _ t _ _) as [t'|] eqn:Et; [|exact I]. cbn [sres_c]. split; [|hl_norm; lia].
    apply closed_set_table; [exact H3|]. eapply tinsert_ok; [exact Ht| | |exact Et]; rewrite hl_spop_n; apply speek_vok; exact Hs.
  Qed.
  Lemma i_40_c : forall opc ip0 ip s, state_closed s -> sres_c (hl s) (i_40 F opc ip0 ip s).
  Proof.
    intros opc ip0 ip s Hs. unfold i_40. cbv zeta.
    pose proof (spop_n_closed s 2 Hs) as H3.
    destruct (get_table _ _) as [a t| |] eqn:Eg; try fin.
    destruct (get_table_closed _ _ _ _ Eg H3) as [Ha Ht].
    destruct (tappend _ t _) as [t'| |] eqn:Et; try exact I. cbn [sres_c]. split; [|hl_norm; lia].
    apply closed_set_table; [exact H3|]. eapply tappend_ok; [exact Ht| |exact Et]. rewrite hl_spop_n; apply speek_vok; exact Hs.
  Qed.
  Lemma i_41_c : forall opc ip0 ip s, state_closed s -> sres_c (hl s) (i_41 F opc ip0 ip s).
  Proof.
    intros opc ip0 ip s Hs. unfold i_41. destruct (spop s) as [s1 inst] eqn:E1. fwd.
    destruct (get_table _ _) as [a t| |] eqn:Eg; try fin.
    destruct (get_table_closed _ _ _ _ Eg Hc) as [Ha Ht].
    destruct (tpop _ t) as [[t' v]|] eqn:Et; [|exact I].
    destruct (tpop_ok _ _ _ _ _ Ht Et) as [Ht' Hv'].
    apply push_next_c; [apply closed_set_table; assumption|hl_norm; lia|rewrite hl_set_table; exact Hv'].
  Qed.

  Lemma make_row_gen s3 row s4 ka s5 va k v t1 t2 s :
    state_closed s -> salloc s (OTable (mkTable [] [])) = (s3, row) -> salloc s3 (OStr str_key) = (s4, ka) ->
    salloc s4 (OStr str_value) = (s5, va) -> vok (hl s) k -> vok (hl s) v ->
    forall eq1 eq2, tinsert eq1 (mkTable [] []) (VObj ka) k = Some t1 -> tinsert eq2 t1 (VObj va) v = Some t2 ->
    state_closed (set_table s5 row t2) /\ hl (set_table s5 row t2) = 3 + hl s /\ vok (3 + hl s) (VObj row).
  Proof.
    intros Hs E3 E4 E5 Vk Vv eq1 eq2 T1 T2. fwd. rewrite hl_set_table.
    split; [|split; [lia|cbn [vok]; rewrite Ha; unfold aok; rewrite Nat2N.id; lia]].
    apply closed_set_table; [assumption|].
    eapply tinsert_ok; [| | |exact T2]; [|cbn [vok]; rewrite Ha1; unfold aok; rewrite Nat2N.id; lia|vtac].
    eapply tinsert_ok; [apply table_ok_empty| | |exact T1]; [cbn [vok]; rewrite Ha0; unfold aok; rewrite Nat2N.id; lia|vtac].
  Qed.

  Lemma i_39_c : forall opc ip0 ip s, state_closed s -> sres_c (hl s) (i_39 F opc ip0 ip s).
  Proof.
    intros opc ip0 ip s Hs. unfold i_39. cbv zeta.
    pose proof (spop_n_closed s 2 Hs) as H2.
    destruct (get_table _ _) as [a t| |] eqn:Eg; try fin.
    destruct (get_table_closed _ _ _ _ Eg H2) as [Ha Ht]. rewrite hl_spop_n in Ht.
    destruct (speek s 0); try fin. destruct (_ <? 0)%Z; [fin|].
    assert (Hk : vok (hl s) (if (z <? Z.of_nat (length (tkeys t)))%Z then tnth_key t (Z.to_nat z) else VNil)).
    { destruct (_ <? _)%Z; [apply tnth_key_ok; exact Ht|exact I]. }
    destruct (if (z <? Z.of_nat (length (tkeys t)))%Z then tget _ _ _ else _) as [r|] eqn:Er; [|exact I].
    assert (Hr : vok (hl s) (match r with Some v => v | None => VNil end)).
    { destruct (z <? Z.of_nat (length (tkeys t)))%Z; [eapply tget_ok; eauto|injection Er as <-; exact I]. }
    destruct (salloc (spop_n s 2) _) as [s3 row] eqn:E3.
    destruct (salloc s3 _) as [s4 ka] eqn:E4.
    destruct (salloc s4 _) as [s5 va] eqn:E5.
    destruct (tinsert _ _ _ _) as [t1|] eqn:T1; [|exact I]. destruct (tinsert _ t1 _ _) as [t2|] eqn:T2; [|exact I].
    destruct (make_row_gen _ _ _ _ _ _ _ _ _ _ _ H2 E3 E4 E5 Hk Hr _ _ T1 T2) as (A & B & C).
    rewrite hl_spop_n in *. apply push_next_c; [exact A|lia|rewrite B; exact C].
  Qed.

  Lemma i_35_c : forall opc ip0 ip s, state_closed s -> sres_c (hl s) (i_35 P opc ip0 ip s).
  Proof.
    intros opc ip0 ip s Hs. unfold i_35. destruct (op_u32 P ip); [|exact I]. destruct (op_u32 P (ip + 4)); [|exact I].
    cbv zeta. pose proof (slast_vok s Hs) as Hl.
    destruct (get_table _ _); try fin. destruct (top_offset s); [|exact I].
    destruct (write_local s _ _ _) as [s1|] eqn:E1; [|fin]. fwd.
    destruct (write_local s1 _ _ _) as [s2|] eqn:E2; [|fin]. fwd.
    destruct (op_u32 P (ip + 8)); [|exact I]. destruct (op_u32 P (ip + 8 + 4)); [|exact I].
    destruct (op_u32 P (ip + 8 + 8)); [|exact I].
    destruct (write_local s2 _ _ _) as [s3|] eqn:E3; [|fin]. fwd.
    destruct (write_local s3 _ _ _) as [s4|] eqn:E4; [|fin]. fwd.
    destruct (write_local s4 _ _ _) as [s5|] eqn:E5; [|fin]. fwd. fin.
  Qed.

  Lemma i_36_c : forall opc ip0 ip s, state_closed s -> sres_c (hl s) (i_36 F bld P opc ip0 ip s).
  Proof.
    intros opc ip0 ip s Hs. unfold i_36. destruct (op_u32 P ip); [|exact I]. destruct (op_u32 P (ip + 4)); [|exact I].
    destruct (op_u32 P (ip + 8)); [|exact I]. destruct (op_u32 P (ip + 12)); [|exact I].
    destruct (op_u32 P (ip + 16)); [|exact I]. cbv zeta.
    destruct (top_offset s) as [off|]; [|exact I]. destruct (to_i64 _ _ _) as [i|]; [|exact I].
    destruct (get_table _ _) as [a t| |] eqn:Eg; try fin.
    destruct (get_table_closed _ _ _ _ Eg Hs) as [Ha Ht].
    destruct (_ && _); [exact I|]. destruct (_ && _); [|pn].
    pose proof (tnth_key_ok (hl s) t (Z.to_nat i) Ht) as Hk.
    destruct (tget _ t _) as [r|] eqn:Et; [|exact I].
    pose proof (tget_ok _ _ _ _ _ Ht Et) as Hr.
    destruct (write_local s _ _ _) as [s1|] eqn:E1; [|fin]. fwd.
    destruct (write_local s1 _ _ _) as [s2|] eqn:E2; [|fin]. fwd.
    destruct (write_local s2 _ _ _) as [s3|] eqn:E3; [|fin]. fwd.
    destruct (i64_result _); [|exact I].
    destruct (write_local s3 _ _ _) as [s4|] eqn:E4; [|fin]. fwd. pn.
  Qed.

  (* ---- upvalues ---- *)
  Definition clres_c (s : state) (r : closeres) : Prop :=
    match r with
    | ClOk s' | ClErr _ s' =>
        state_closed s' /\ hl s' = hl s /\ st_stack s' = st_stack s /\ st_calls s' = st_calls s
    | ClStop _ _ => True
    end.

  Lemma close_go_c top : forall fuel s, state_closed s -> clres_c s (close_upvalues_go fuel top s).
  Proof.
    induction fuel as [|f IH]; intros s Hs; cbn [close_upvalues_go]; [exact I|].
    destruct (st_open s) as [a|] eqn:Eo; [|cbn; auto].
    destruct (hget (st_heap s) a) as [[t|b|h ar|h|h ar ups|u]|] eqn:Ea; try exact I;
      try (cbn [clres_c]; split; [apply closed_set_open; [exact Hs|exact I]|auto]).
    destruct (u_loc u) as [l|] eqn:El; [|exact I].
    destruct (l <? top); [cbn; auto|].
    pose proof (closed_hget _ _ _ Hs Ea) as (Uv & Un & _).
    cbv zeta.
    assert (H1 : state_closed (set_heap s (hset (st_heap s) a (OUp (mkUp None (sraw_get s l) (u_next u)))))).
    { apply closed_hset; [exact Hs|]. cbn [obj_ok u_val u_next u_loc].
      split; [eapply sraw_get_vok; eauto|]. split; [exact Un|exact I]. }
    assert (H2 : state_closed (set_open (set_heap s (hset (st_heap s) a (OUp (mkUp None (sraw_get s l) (u_next u)))))
                                        (u_next u))).
    { apply closed_set_open; [exact H1|]. rewrite hl_hset. exact Un. }
    specialize (IH _ H2).
    destruct (close_upvalues_go f top _) as [s'|e s'|ab s']; cbn [clres_c] in *; auto;
      destruct IH as (A & B & C & D); (split; [exact A|]); (split; [rewrite B; apply hl_hset|]);
      (split; [rewrite C; reflexivity|rewrite D; reflexivity]).
  Qed.

  Lemma i_46_c : forall opc ip0 ip s, state_closed s -> sres_c (hl s) (i_46 P opc ip0 ip s).
  Proof.
    intros opc ip0 ip s Hs. unfold i_46. destruct (op_u32 P ip) as [idx|]; [|exact I]. cbv zeta.
    destruct (top_offset s) as [off|]; [|exact I]. unfold close_upvalues_from.
    pose proof (close_go_c (off + N.to_nat idx) (S (length (st_heap s))) s Hs) as H.
    destruct (close_upvalues_go _ _ _) as [s'|e s'|ab s']; cbn [clres_c sres_c] in *; try exact I;
      destruct H as (A & B & _); (split; [exact A|lia]).
  Qed.

  Lemma i_22_c : forall opc ip0 ip s, state_closed s -> sres_c (hl s) (i_22 opc ip0 ip s).
  Proof.
    intros opc ip0 ip s Hs. unfold i_22. destruct (st_calls s) as [|fr rest] eqn:Ec; [fin|]. cbv zeta.
    pose proof (sc_calls Hs) as Hf. rewrite Ec in Hf. inversion Hf as [|? ? [Hoff Hclo] Hrest]; subst.
    assert (H1 : state_closed (set_calls s rest)) by (apply closed_set_calls; assumption).
    unfold close_upvalues_from.
    pose proof (close_go_c (N.to_nat (fr_off fr)) (S (length (st_heap (set_calls s rest)))) _ H1) as H.
    destruct (close_upvalues_go _ _ _) as [s2|e s2|ab s2]; cbn [clres_c] in H; [| |exact I].
    - destruct H as (A & B & C & D).
      destruct (sclear_until s2 _) as [s3 v] eqn:E3.
      assert (Hp : pre_ok (hl s2) (sd s2) (N.to_nat (fr_off fr))).
      { unfold sd. rewrite B, C. exact Hoff. }
      destruct (sclear_until_c _ _ _ _ E3 A Hp) as (A3 & B3 & C3).
      assert (Hh : hl s3 = hl s) by (rewrite B3, B; reflexivity).
      destruct rest as [|prev rest']; [cbn [sres_c]; split; [exact A3|lia]|].
      apply push_next_c; [exact A3|lia|rewrite B3; exact C3].
    - destruct H as (A & B & _). cbn [sres_c]. split; [exact A|]. rewrite B. apply Nat.le_refl.
  Qed.

  Lemma i_43_44_c : forall opc ip0 ip s, state_closed s -> sres_c (hl s) (i_43_44 P opc ip0 ip s).
  Proof.
    intros opc ip0 ip s Hs. unfold i_43_44. destruct (op_u32 P ip); [|exact I]. cbv zeta.
    destruct (opc =? 43)%N; cbv beta iota.
    - destruct (spop s) as [s1 wv] eqn:E1. fwd.
      destruct (st_calls s1) as [|fr rest]; [exact I|].
      destruct (fr_clo fr) as [ca|]; [|fin].
      destruct (hget (st_heap s1) ca) as [[t|b|h ar|h|h ar ups|u]|]; try exact I.
      destruct (nth_error ups _) as [ua|]; [|fin].
      destruct (hget (st_heap s1) ua) as [[t|b|h' ar'|h'|h' ar' ups'|u]|] eqn:Eu; try fin.
      pose proof (closed_hget _ _ _ Hc Eu) as (Uv & Un & _).
      destruct (u_loc u) as [l|] eqn:El; cbn [sres_c].
      + split; [apply sraw_set_closed; [assumption|vtac]|hl_norm; lia].
      + split; [|hl_norm; lia]. apply closed_hset; [assumption|]. cbn [obj_ok u_val u_next u_loc].
        split; [vtac|]. split; [exact Un|exact I].
    - destruct (st_calls s) as [|fr rest]; [exact I|].
      destruct (fr_clo fr) as [ca|]; [|fin].
      destruct (hget (st_heap s) ca) as [[t|b|h ar|h|h ar ups|u]|]; try exact I.
      destruct (nth_error ups _) as [ua|]; [|fin].
      destruct (hget (st_heap s) ua) as [[t|b|h' ar'|h'|h' ar' ups'|u]|] eqn:Eu; try fin.
      pose proof (closed_hget _ _ _ Hs Eu) as (Uv & Un & _).
      apply push_next_c; [exact Hs|lia|]. destruct (u_loc u) as [l|] eqn:El; [eapply sraw_get_vok; eauto|exact Uv].
  Qed.

  Lemma walk_open_ook n d h : Forall (obj_ok n d) h ->
    forall fuel loc prev cur p c, ook n prev -> ook n cur -> walk_open fuel h loc prev cur = WOk p c -> ook n p /\ ook n c.
  Proof.
    intros Hh. induction fuel as [|f IH]; intros loc prev cur p c Hp Hc; cbn [walk_open]; [discriminate|].
    destruct cur as [a|]; [|intros E; injection E as <- <-; auto].
    destruct (hget h a) as [[t|b|hh ar|hh|hh ar ups|u]|] eqn:Ea; try discriminate;
      try (intros E; injection E as <- <-; auto).
    destruct (u_loc u) as [l|]; [|discriminate].
    destruct (l <=? loc); [intros E; injection E as <- <-; auto|].
    apply IH; [exact Hc|]. pose proof (Forall_nth_error _ _ _ _ Hh Ea) as (_ & Un & _). exact Un.
  Qed.

  Lemma link_new_c s2 prev ua : state_closed s2 -> aok (hl s2) ua ->
    state_closed (link_new s2 prev ua) /\ hl (link_new s2 prev ua) = hl s2.
  Proof.
    intros H2 Hu. unfold link_new.
    assert (Ho : state_closed (set_open s2 (Some ua)) /\ hl (set_open s2 (Some ua)) = hl s2)
      by (split; [apply closed_set_open; assumption|reflexivity]).
    destruct prev as [pa|]; [|exact Ho].
    destruct (hget (st_heap s2) pa) as [[t|b|hh ar|hh|hh ar ups|pu]|] eqn:Ea; try exact Ho.
    pose proof (closed_hget _ _ _ H2 Ea) as (Pv & Pn & Pl).
    split; [|apply hl_hset]. apply closed_hset; [exact H2|]. cbn [obj_ok u_val u_next u_loc].
    split; [exact Pv|]. split; [exact Hu|exact Pl].
  Qed.

  Lemma i_45_c : forall opc ip0 ip s, state_closed s -> sres_c (hl s) (i_45 P opc ip0 ip s).
  Proof.
    intros opc ip0 ip s Hs. unfold i_45.
    destruct (read_le (p_code P) ip 1) as [index|]; [|exact I].
    destruct (read_le (p_code P) (ip + 1) 1) as [is_local|]; [|exact I].
    cbv zeta. destruct (spop s) as [s1 cv] eqn:E1. fwd.
    destruct cv as [| | |ca]; try fin.
    destruct (hget (st_heap s1) ca) as [[t|b|h ar|h|ch car cups|u]|] eqn:Eca; try fin.
    pose proof (closed_hget _ _ _ Hc Eca) as Hcups. cbn [obj_ok] in Hcups.
    destruct (negb (is_local =? 0)%N).
    - destruct (top_offset s1) as [off|]; [|exact I].
      destruct (Nat.leb_spec (scount s1) (off + N.to_nat index)) as [Lc|Lc]; [fin|].
      destruct (walk_open _ _ _ _ _) as [prev cur|ab] eqn:Ew; [|exact I].
      destruct (walk_open_ook (hl s1) (sd s1) (st_heap s1) (sc_heap Hc) _ _ None (st_open s1) _ _ I (sc_open Hc) Ew) as [Hp Hcur].
      destruct (match cur with Some a => _ | None => false end).
      + destruct cur as [a|]; [|exact I]. cbn [sres_c]. split; [|hl_norm; lia].
        apply closed_hset; [assumption|]. cbn [obj_ok]. apply Forall_app. split; [exact Hcups|].
        constructor; [exact Hcur|constructor].
      + destruct (salloc s1 _) as [s2 ua] eqn:Ea.
        assert (Hnew : obj_ok (S (hl s1)) (sd s1) (OUp (mkUp (Some (off + N.to_nat index)) VNil cur))).
        { cbn [obj_ok u_val u_next u_loc]. split; [exact I|]. split; [eapply ook_mono; [|exact Hcur]; lia|].
          intros i Hi. eapply vok_mono; [|apply (sc_stack Hc); unfold scount in Lc; lia]. lia. }
        destruct (closed_salloc _ _ _ _ Ea Hc Hnew) as (A & B & C & _).
        assert (Hua : aok (hl s2) ua) by (rewrite B, C; apply aok_new).
        destruct (link_new_c s2 prev ua A Hua) as [H3 H3h].
        cbv beta iota. cbn [sres_c]. split.
        * apply (closed_hset (link_new s2 prev ua)); [exact H3|]. cbn [obj_ok]. rewrite H3h. apply Forall_app.
          split; [|constructor; [exact Hua|constructor]].
          eapply Forall_impl; [|exact Hcups]. intros x. apply aok_mono. lia.
        * change (hl s <= hl (set_heap (link_new s2 prev ua)
                                  (hset (st_heap (link_new s2 prev ua)) ca (OClo ch car (cups ++ [ua]))))).
          rewrite hl_hset, H3h. lia.
    - destruct (st_calls s1) as [|fr rest] eqn:Ec; [exact I|].
      destruct (fr_clo fr) as [fa|]; [|exact I].
      destruct (hget (st_heap s1) fa) as [[t|b|h ar|h|h ar fups|u]|] eqn:Efa; try exact I.
      destruct (nth_error fups _) as [ua|] eqn:Enth; [|exact I]. cbn [sres_c]. split; [|hl_norm; lia].
      apply closed_hset; [assumption|]. cbn [obj_ok]. apply Forall_app. split; [exact Hcups|].
      constructor; [|constructor]. pose proof (closed_hget _ _ _ Hc Efa) as Hf. cbn [obj_ok] in Hf.
      eapply Forall_nth_error; eauto.
  Qed.

  (* ---- run_function and the natives ---- *)
  Lemma Forall_skipn' {A} (Q : A -> Prop) k : forall l, Forall Q l -> Forall Q (skipn k l).
  Proof. induction k as [|k IH]; intros l H; cbn [skipn]; [exact H|]. destruct l; [constructor|]. inversion H; auto. Qed.

  Lemma unwind_c x k : state_closed x -> state_closed (set_calls x (skipn k (st_calls x))).
  Proof. intros Hx. apply closed_set_calls; [exact Hx|]. apply Forall_skipn'. apply Hx. Qed.

  Lemma run_function_c (cn : N -> state -> nres) :
    (forall h s, state_closed s -> nres_c (hl s) (cn h s)) ->
    forall fv s, state_closed s -> nres_c (hl s) (run_function P reenter cn fv s).
  Proof.
    intros Hcn fv s Hs. unfold run_function.
    destruct fv as [|z|r|a]; try fin.
    destruct (hget (st_heap s) a) as [o|] eqn:Ea; [|exact I].
    assert (Haa : aok (hl s) a) by (eapply hget_aok; eauto).
    assert (Hgo : forall arity label clo, ook (hl s) clo ->
      nres_c (hl s)
        (if (code_len P =? 0)%N then NStop APanic s
         else match assoc label (p_labels P) with
              | None => NErr (EProcedureNotFound label) s
              | Some src =>
                  let len := N.of_nat (scount s) in
                  if (len <? arity)%N then NErr EMissingArgument s
                  else
                    let f := mkFrame src (last_pos P) (len - arity) clo in
                    match push_frame s f with
                    | None => NErr ECallStackOverflow s
                    | Some s1 =>
                        match push_frame s1 f with
                        | None => NErr ECallStackOverflow s
                        | Some s2 =>
                            let depth := length (st_calls s) in
                            let unwind (x : state) :=
                              set_calls x (skipn (length (st_calls x) - depth) (st_calls x)) in
                            match reenter src s2 with
                            | ROk s3 => let '(s5, v) := spop (unwind s3) in NOk v s5
                            | RErr e _ s3 => NErr e (unwind s3)
                            | RStop ab s3 => NStop ab s3
                            end
                        end
                    end
              end)).
    { intros arity label clo Hclo.
      destruct (code_len P =? 0)%N; [exact I|].
      destruct (assoc label (p_labels P)) as [src|]; [|fin].
      cbv zeta. destruct (N.ltb_spec (N.of_nat (scount s)) arity) as [Lt|Ge]; [fin|].
      assert (Hf : frame_ok (hl s) (sd s) (mkFrame src (last_pos P) (N.of_nat (scount s) - arity) clo)).
      { apply frame_ok_below; [exact Hs| |exact Hclo]. unfold scount in *. rewrite N2Nat.inj_sub, Nat2N.id. lia. }
      destruct (push_frame s _) as [s1|] eqn:E1; [|fin].
      destruct (push_frame_c _ _ _ E1 Hs Hf) as (A1 & B1 & C1 & D1).
      destruct (push_frame s1 _) as [s2|] eqn:E2; [|fin].
      assert (Hf1 : frame_ok (hl s1) (sd s1) (mkFrame src (last_pos P) (N.of_nat (scount s) - arity) clo))
        by (rewrite B1, C1; exact Hf).
      destruct (push_frame_c _ _ _ E2 A1 Hf1) as (A2 & B2 & _).
      pose proof (reenter_ok src s2 A2) as Hr.
      destruct (reenter src s2) as [s3|e ip3 s3|ab s3]; cbn [rres_c] in Hr; [| |exact I].
      - destruct Hr as [A3 B3]. destruct (spop _) as [s5 v] eqn:E5.
        destruct (spop_c _ _ _ E5 (unwind_c _ _ A3)) as (A5 & B5 & C5).
        change (hl (set_calls s3 (skipn (length (st_calls s3) - length (st_calls s)) (st_calls s3)))) with (hl s3) in *.
        cbn [nres_c]. split; [split; [exact A5|lia]|rewrite B5; exact C5].
      - destruct Hr as [A3 B3]. cbn [nres_c]. split; [apply unwind_c; exact A3|].
        change (hl s <= hl s3). lia. }
    destruct o as [t|b|h ar|h|h ar ups|u]; try fin.
    - apply Hgo. exact I.
    - pose proof (Hcn h s Hs) as Hc. destruct (cn h s) as [v s1|e s1|ab s1]; cbn [nres_c] in Hc |- *.
      + destruct Hc as [[A B] C]. destruct (spop s1) as [s2 v2] eqn:E.
        destruct (spop_c _ _ _ E A) as (A2 & B2 & C2). cbn [nres_c]. split; [split; [exact A2|lia]|rewrite B2; exact C2].
      + exact Hc.
      + exact I.
    - apply Hgo. exact Haa.
  Qed.

  Definition mmres_c (n : nat) (r : mmres) : Prop :=
    match r with MMOk _ s' => okm n s' | MMFail r => nres_c n r end.
  Lemma mmres_c_le n0 n1 r : n0 <= n1 -> mmres_c n1 r -> mmres_c n0 r.
  Proof. intros L. destruct r; cbn [mmres_c]; [apply okm_le|apply nres_c_le]; exact L. Qed.

  Lemma Forall_pair_mono n n' l : n <= n' -> Forall (pair_ok n) l -> Forall (pair_ok n') l.
  Proof. intros L H. eapply Forall_impl; [|exact H]. intros x. apply pair_ok_mono. exact L. Qed.

  Section StdC.
    Variable self : N -> state -> nres.
    Hypothesis Hrf : forall fv s, state_closed s -> nres_c (hl s) (run_function P reenter self fv s).

    Lemma minmax_go_c less key_fn : forall l j i best s, state_closed s -> Forall (pair_ok (hl s)) l ->
      mmres_c (hl s) (minmax_go F P reenter self less key_fn l j i best s).
    Proof.
      induction l as [|[k v] rest IH]; intros j i best s Hs Hl; cbn [minmax_go]; [split; [exact Hs|lia]|].
      inversion Hl as [|? ? [Vk Vv] Hrest]; subst. cbn [fst snd] in *.
      destruct (spush s v) as [s1|] eqn:E1; [|fin]. fwd.
      destruct (spush s1 k) as [s2|] eqn:E2; [|fin]. fwd.
      pose proof (Hrf key_fn s2 Hc0) as H.
      destruct (run_function P reenter self key_fn s2) as [key s3|e s3|ab s3]; cbn [nres_c mmres_c] in H |- *;
        [| |exact I].
      - destruct H as [[A B] C].
        assert (Hr3 : Forall (pair_ok (hl s3)) rest) by (eapply Forall_pair_mono; [|exact Hrest]; lia).
        destruct (vcmp F (st_heap s3) key best) as [[]| |]; cbv beta iota zeta; cbn [mmres_c nres_c]; try exact I;
          destruct less; cbn [negb]; cbv beta iota; (eapply mmres_c_le; [|apply IH; assumption]; lia).
      - eapply okm_le; [|exact H]. lia.
    Qed.

    Lemma make_row_c s k v : state_closed s -> vok (hl s) k -> vok (hl s) v -> nres_c (hl s) (make_row F s k v).
    Proof.
      intros Hs Vk Vv. unfold make_row.
      destruct (salloc s _) as [s3 row] eqn:E3. destruct (salloc s3 _) as [s4 ka] eqn:E4.
      destruct (tinsert _ _ _ k) as [t1|] eqn:T1; [|exact I].
      destruct (salloc s4 _) as [s5 va] eqn:E5.
      destruct (tinsert _ _ _ v) as [t2|] eqn:T2; [|exact I].
      destruct (make_row_gen _ _ _ _ _ _ _ _ _ _ _ Hs E3 E4 E5 Vk Vv _ _ T1 T2) as (A & B & C).
      cbn [nres_c]. split; [split; [exact A|rewrite B; lia]|rewrite B; exact C].
    Qed.

    Lemma snapshot_c s t s' ct : snapshot F s t = Some (s', ct) -> state_closed s -> table_ok (hl s) t ->
      state_closed s' /\ hl s' = S (hl s) /\ table_ok (hl s') ct.
    Proof.
      unfold snapshot. destruct (titer _ t) as [l|] eqn:Et; [|discriminate].
      destruct (salloc s _) as [s1 c] eqn:E1. destruct (insert_pairs _ _ l) as [ct'|] eqn:Ei; [|discriminate].
      intros H Hs Ht. injection H as <- <-. fwd. rewrite hl_set_table.
      assert (Hct : table_ok (hl s1) ct').
      { eapply insert_pairs_ok; [apply table_ok_empty| |exact Ei].
        eapply Forall_pair_mono; [|eapply titer_ok; [exact Ht|exact Et]]. lia. }
      split; [apply closed_set_table; assumption|]. split; [exact Hh|exact Hct].
    Qed.

    Lemma native_minmax_c less it kf s0 : state_closed s0 -> vok (hl s0) it ->
      nres_c (hl s0) (native_minmax F P reenter self less it kf s0).
    Proof.
      intros Hs0 Vit. unfold native_minmax. destruct it as [| | |a]; try fin.
      destruct (hget (st_heap s0) a) as [[t| | | | |]|] eqn:Ea; try fin.
      pose proof (closed_hget _ _ _ Hs0 Ea) as Ht. cbn [obj_ok] in Ht.
      destruct (snapshot F s0 t) as [[s entries]|] eqn:Esn; [|exact I].
      destruct (snapshot_c _ _ _ _ Esn Hs0 Ht) as (Hs & Hh & Hent).
      destruct (titer _ entries) as [[|[k0 v0] rest]|] eqn:Eti; try exact I.
      { cbn [nres_c]. split; [split; [exact Hs|lia]|exact I]. }
      pose proof (titer_ok _ _ _ _ Hent Eti) as Hl. inversion Hl as [|? ? [Vk0 Vv0] Hrest]; subst. cbn [fst snd] in *.
      destruct (spush s v0) as [s1|] eqn:E1; [|cbn [nres_c]; split; [exact Hs|lia]]. fwd.
      destruct (spush s1 k0) as [s2|] eqn:E2; [|cbn [nres_c]; split; [assumption|lia]]. fwd.
      pose proof (Hrf kf s2 Hc0) as H.
      destruct (run_function P reenter self kf s2) as [key0 s3|e s3|ab s3]; cbn [nres_c] in H |- *; [| |exact I].
      - destruct H as [[A B] C].
        assert (Hr3 : Forall (pair_ok (hl s3)) rest) by (eapply Forall_pair_mono; [|exact Hrest]; lia).
        pose proof (minmax_go_c less kf rest 1 0 key0 s3 A Hr3) as Hm.
        destruct (minmax_go F P reenter self less kf rest 1 0 key0 s3) as [i s4|r]; cbn [mmres_c] in Hm;
          [|eapply nres_c_le; [|exact Hm]; lia].
        destruct Hm as [A4 B4]. destruct (tget _ entries _) as [r|] eqn:Etg; [|exact I].
        eapply nres_c_le; [|apply make_row_c; [exact A4| |]]; [lia| |].
        + eapply vok_mono; [|apply tnth_key_ok; exact Hent]. lia.
        + eapply vok_mono; [|eapply tget_ok; [exact Hent|exact Etg]]. lia.
      - eapply okm_le; [|exact H]. lia.
    Qed.

    Definition skres_c (n : nat) (r : skres) : Prop :=
      match r with
      | SKOk keyed s' => okm n s' /\ Forall (fun x => pair_ok (hl s') (snd x)) keyed
      | SKFail r => nres_c n r
      end.

    Lemma sort_keys_c kf : forall l s, state_closed s -> Forall (pair_ok (hl s)) l ->
      skres_c (hl s) (sort_keys P reenter self kf l s).
    Proof.
      induction l as [|[k v] rest IH]; intros s Hs Hl; cbn [sort_keys].
      { cbn [skres_c]. split; [split; [exact Hs|lia]|constructor]. }
      inversion Hl as [|? ? [Vk Vv] Hrest]; subst. cbn [fst snd] in *.
      destruct (spush s v) as [s1|] eqn:E1; [|fin]. fwd.
      destruct (spush s1 k) as [s2|] eqn:E2; [|fin]. fwd.
      pose proof (Hrf kf s2 Hc0) as H.
      destruct (run_function P reenter self kf s2) as [key s3|e s3|ab s3]; cbn [nres_c skres_c] in H |- *; [| |exact I].
      - destruct H as [[A B] C].
        assert (Hr3 : Forall (pair_ok (hl s3)) rest) by (eapply Forall_pair_mono; [|exact Hrest]; lia).
        specialize (IH s3 A Hr3).
        destruct (sort_keys P reenter self kf rest s3) as [l' s4|r]; cbn [skres_c] in IH |- *.
        + destruct IH as [[A4 B4] C4]. split; [split; [exact A4|lia]|]. constructor; [|exact C4].
          cbn [snd]. split; cbn [fst snd]; (apply (vok_mono (hl s)); [lia|assumption]).
        + eapply nres_c_le; [|exact IH]. lia.
      - eapply okm_le; [|exact H]. lia.
    Qed.

    Lemma sort_insert_Forall (Q : value * (value * value) -> Prop) h x : forall l l',
      Forall Q l -> Q x -> sort_insert F h x l = Some l' -> Forall Q l'.
    Proof.
      induction l as [|y r IH]; intros l' Hl Hx; cbn [sort_insert].
      - intros E. injection E as <-. constructor; [exact Hx|constructor].
      - inversion Hl as [|? ? Hy Hr]; subst. destruct (sort_key_le F h (fst y) (fst x)) as [[|]|]; try discriminate.
        + destruct (sort_insert F h x r) as [r'|] eqn:Er; [|discriminate]. intros E. injection E as <-.
          constructor; [exact Hy|]. eapply IH; [exact Hr|exact Hx|reflexivity].
        + intros E. injection E as <-. constructor; [exact Hx|exact Hl].
    Qed.
    Lemma stable_sort_Forall (Q : value * (value * value) -> Prop) h : forall l acc r,
      Forall Q l -> Forall Q acc -> stable_sort F h l acc = Some r -> Forall Q r.
    Proof.
      induction l as [|x l IH]; intros acc r Hl Ha; cbn [stable_sort].
      - intros E. injection E as <-. exact Ha.
      - inversion Hl as [|? ? Hx Hl']; subst. destruct (sort_insert F h x acc) as [acc'|] eqn:Ei; [|discriminate].
        apply IH; [exact Hl'|]. eapply sort_insert_Forall; [exact Ha|exact Hx|exact Ei].
    Qed.

    Lemma native_sorted_c it kf s0 : state_closed s0 -> vok (hl s0) it ->
      nres_c (hl s0) (native_sorted F P reenter self it kf s0).
    Proof.
      intros Hs0 Vit. unfold native_sorted. destruct it as [| | |a]; try fin.
      destruct (hget (st_heap s0) a) as [[t| | | | |]|] eqn:Ea; try fin.
      pose proof (closed_hget _ _ _ Hs0 Ea) as Ht. cbn [obj_ok] in Ht.
      destruct (snapshot F s0 t) as [[s entries]|] eqn:Esn; [|exact I].
      destruct (snapshot_c _ _ _ _ Esn Hs0 Ht) as (Hs & Hh & Hent).
      destruct (titer _ entries) as [l|] eqn:Eti; [|exact I].
      pose proof (titer_ok _ _ _ _ Hent Eti) as Hl.
      pose proof (sort_keys_c kf l s Hs Hl) as Hk.
      destruct (sort_keys P reenter self kf l s) as [keyed s1|r]; cbn [skres_c] in Hk;
        [|eapply nres_c_le; [|exact Hk]; lia].
      destruct Hk as [[A1 B1] C1].
      destruct (stable_sort _ _ _ _) as [sorted|] eqn:Ess; [|exact I].
      pose proof (stable_sort_Forall _ _ _ _ _ C1 (Forall_nil _) Ess) as Hsorted.
      destruct (salloc s1 _) as [s2 out] eqn:E2.
      destruct (salloc_flat _ _ _ _ E2 A1 eq_refl) as (A2 & B2 & C2 & _).
      destruct (insert_all _ _ _) as [t'|] eqn:Eia; [|exact I]. cbn [nres_c].
      assert (Ht' : table_ok (hl s2) t').
      { eapply insert_all_ok; [apply table_ok_empty| |exact Eia].
        eapply Forall_impl; [|exact Hsorted]. intros x. apply pair_ok_mono. lia. }
      split; [split; [apply closed_set_table; assumption|rewrite hl_set_table; lia]|].
      rewrite hl_set_table. cbn [vok]. rewrite C2, B2. apply aok_new.
    Qed.
  End StdC.

  Lemma native_body_c (self : N -> state -> nres) :
    (forall h s, state_closed s -> nres_c (hl s) (self h s)) ->
    forall n s, state_closed s -> nres_c (hl s) (native_body F P reenter self n s).
  Proof.
    intros Hself n s Hs.
    pose proof (run_function_c self Hself) as Hrf.
    destruct n; cbn [native_body]; cbv zeta.
    - (* log1 *) fin.
    - (* sub2 *) destruct (to_i64 _ _ _); [|exact I]. destruct (to_i64 _ _ _); fin.
    - fin.
    - (* str1 *) destruct (as_str _ _); fin.
    - (* mix3 *) destruct (to_i64 _ _ _); [|exact I]. destruct (to_f64 _ _ _); fin.
    - (* call1 *)
      destruct (spush s _) as [s1|] eqn:E1; [|fin]. fwd.
      eapply nres_c_le; [|apply Hrf; assumption]. lia.
    - (* try1 *)
      destruct (spush s _) as [s1|] eqn:E1; [|fin]. fwd.
      pose proof (Hrf (speek s 1) s1 Hc) as H.
      destruct (run_function _ _ _ _ s1) as [v s2|e s2|ab s2]; cbn [nres_c] in H |- *; [| |exact I].
      + destruct H as [[A B] C]. split; [split; [exact A|lia]|exact C].
      + destruct H as [A B]. split; [split; [apply closed_log_push; exact A|rewrite hl_log_push; lia]|exact I].
    - (* call0 *) apply Hrf. exact Hs.
    - (* t4 *) destruct (as_str _ _); try fin.
      destruct (as_bool _ _ _); [|exact I]. destruct (to_f64 _ _ _); [|exact I]. destruct (to_i64 _ _ _); fin.
    - (* nil1 *) destruct (speek s 0); try fin; destruct (to_i64 _ _ _); fin.
    - (* tab1 *) destruct (get_table _ _); fin.
    - (* cat2 *) destruct (as_str _ _); try fin. destruct (as_str _ _); fin.
    - (* rb1 *)
      destruct (spush s _) as [s1|] eqn:E1; [|fin]. fwd.
      pose proof (Hrf (speek s 1) s1 Hc) as H.
      destruct (run_function _ _ _ _ s1) as [v s2|e s2|ab s2]; cbn [nres_c] in H |- *; [| |exact I].
      + destruct H as [[A B] C]. split; [split; [apply closed_log_push; exact A|rewrite hl_log_push; lia]|].
        rewrite hl_log_push. exact C.
      + destruct H as [A B]. split; [apply closed_log_push; exact A|rewrite hl_log_push; lia].
    - apply native_minmax_c; [exact Hrf|exact Hs|apply speek_vok; exact Hs].
    - apply native_minmax_c; [exact Hrf|exact Hs|apply speek_vok; exact Hs].
    - apply native_sorted_c; [exact Hrf|exact Hs|apply speek_vok; exact Hs].
    - (* to_array *)
      pose proof (speek_vok s 0 Hs) as Hv0.
      destruct (speek s 0) as [| | |a]; try fin.
      destruct (hget _ _) as [[t| | | | |]|] eqn:Ea; try fin.
      pose proof (closed_hget _ _ _ Hs Ea) as Ht. cbn [obj_ok] in Ht.
      destruct (salloc s _) as [s2 out] eqn:E2.
      destruct (salloc_flat _ _ _ _ E2 Hs eq_refl) as (A2 & B2 & C2 & _).
      destruct (titer _ _) as [l|] eqn:Eti; [|exact I].
      destruct (to_array_go _ _ _ _) as [t'|] eqn:Eta; [|exact I]. cbn [nres_c].
      assert (Ht' : table_ok (hl s2) t').
      { eapply to_array_go_ok; [apply table_ok_empty| |exact Eta].
        eapply titer_ok; [|exact Eti]. eapply table_ok_mono; [|exact Ht]. lia. }
      split; [split; [apply closed_hset; assumption|rewrite hl_hset; lia]|].
      rewrite hl_hset. cbn [vok]. rewrite C2, B2. apply aok_new.
  Qed.

  Lemma call_native_fuel_c fuel : forall h s, state_closed s -> nres_c (hl s) (call_native_fuel F P reenter fuel h s).
  Proof.
    induction fuel as [|f IH]; intros h s Hs; cbn [call_native_fuel]; [exact I|].
    destruct (find_native h all_natives) as [n|]; [|fin].
    pose proof (native_body_c _ IH n s Hs) as H.
    destruct (native_body _ _ _ _ n s) as [v s1|e s1|ab s1]; cbn [nres_c] in H.
    - cbv zeta. destruct H as [[A B] C].
      pose proof (spop_n_closed s1 (native_arity n) A) as A'.
      destruct (spush _ v) as [s2|] eqn:E; cbn [nres_c].
      + destruct (spush_c _ _ _ E A' C) as (A2 & B2). rewrite hl_spop_n in B2.
        split; [split; [exact A2|lia]|rewrite B2; exact C].
      + split; [exact A'|rewrite hl_spop_n; lia].
    - cbn [nres_c]. destruct H as [A B]. split; [apply spop_n_closed; exact A|rewrite hl_spop_n; lia].
    - exact I.
  Qed.

  Lemma native_step_c h ip s : state_closed s -> sres_c (hl s) (native_step F P reenter h ip s).
  Proof.
    intros Hs. unfold native_step, call_native. pose proof (call_native_fuel_c 8 h s Hs) as H.
    destruct (call_native_fuel _ _ _ _ h s); cbn [nres_c sres_c] in *; [apply H|exact H|exact I].
  Qed.

  Lemma i_4_c : forall opc ip0 ip s, state_closed s -> sres_c (hl s) (i_4 F P reenter opc ip0 ip s).
  Proof.
    intros opc ip0 ip s Hs. unfold i_4. destruct (op_u32 P ip); [|exact I]. apply native_step_c. exact Hs.
  Qed.

  Lemma i_11_c : forall opc ip0 ip s, state_closed s -> sres_c (hl s) (i_11 F P reenter opc ip0 ip s).
  Proof.
    intros opc ip0 ip s Hs. unfold i_11. destruct (spop s) as [s1 fv] eqn:E1. fwd.
    destruct fv as [|z|r|a]; try fin.
    destruct (hget (st_heap s1) a) as [o|] eqn:Ea; [|exact I].
    assert (Haa : aok (hl s1) a) by (eapply hget_aok; eauto).
    assert (Hgo : forall arity label clo, ook (hl s1) clo ->
      sres_c (hl s)
        match st_calls s1 with
        | [] => SStop APanic s1
        | top :: rest =>
            let s2 := set_calls s1 (mkFrame (fr_src top) ip (fr_off top) (fr_clo top) :: rest) in
            let len := N.of_nat (scount s2) in
            if (len <? arity)%N then SErr EMissingArgument ip s2
            else
              match push_frame s2 (mkFrame ip0 ip (len - arity) clo) with
              | None => SErr ECallStackOverflow ip s2
              | Some s3 =>
                  match assoc label (p_labels P) with
                  | None => SErr (EProcedureNotFound label) ip s3
                  | Some pos => SNext pos s3
                  end
              end
        end).
    { intros arity label clo Hclo.
      destruct (st_calls s1) as [|top rest] eqn:Ec; [exact I|]. cbv zeta.
      assert (H2 : state_closed (set_calls s1 (mkFrame (fr_src top) ip (fr_off top) (fr_clo top) :: rest))).
      { apply closed_set_calls; [exact Hc|]. pose proof (sc_calls Hc) as Hf. rewrite Ec in Hf.
        inversion Hf as [|? ? Ht Hr]; subst. constructor; [exact Ht|exact Hr]. }
      destruct (_ <? _)%N; [cbn [sres_c]; split; [exact H2|hl_norm; lia]|].
      destruct (push_frame _ _) as [s3|] eqn:E3; [|cbn [sres_c]; split; [exact H2|hl_norm; lia]].
      assert (Hf3 : frame_ok (hl s1) (sd s1)
                (mkFrame ip0 ip (N.of_nat (scount (set_calls s1 (mkFrame (fr_src top) ip (fr_off top) (fr_clo top) :: rest)))
                                  - arity) clo)).
      { apply frame_ok_below; [exact Hc| |exact Hclo]. unfold scount. cbn [st_stack set_calls].
        rewrite N2Nat.inj_sub, Nat2N.id. lia. }
      destruct (push_frame_c _ _ _ E3 H2 Hf3) as (A3 & B3 & _).
      change (hl (set_calls s1 (mkFrame (fr_src top) ip (fr_off top) (fr_clo top) :: rest))) with (hl s1) in B3.
      destruct (assoc label (p_labels P)); cbn [sres_c]; (split; [exact A3|lia]). }
    destruct o as [t|b|h ar|h|h ar ups|u]; try fin.
    - apply Hgo. exact I.
    - eapply sres_c_le; [|apply native_step_c; exact Hc]. lia.
    - apply Hgo. exact Haa.
  Qed.

  (* ---- every instruction ---- *)
  Theorem step_closed : forall ip s, state_closed s -> sres_c (hl s) (step F bld P reenter ip s).
  Proof.
    intros ip0 s Hs. unfold step. cbv zeta.
    destruct (nth (N.to_nat ip0) (p_code P) 255%N) as [|p] eqn:Eop; [apply binary_op_c; [apply arith_plain|exact Hs]|].
    do 6 (try destruct p as [p|p|]).
    all: first
      [ (apply i_11_c; exact Hs)
      | (apply binary_op_c; [first [apply arith_plain|apply div_plain|apply eq_plain|apply less_plain|apply bool_plain]|exact Hs])
      | (apply push_next_c; [exact Hs|apply Nat.le_refl|first [exact I|apply slast_vok; exact Hs]])
      | (apply i_4_c; exact Hs) | (apply i_5_c; exact Hs) | (apply i_6_c; exact Hs) | (apply i_8_c; exact Hs)
      | (apply i_17_c; exact Hs) | (apply i_18_c; exact Hs)
      | (apply i_19_c; exact Hs) | (apply i_20_c; exact Hs) | (apply i_21_c; exact Hs) | (apply i_22_c; exact Hs)
      | (apply i_23_c; exact Hs) | (apply i_27_c; exact Hs) | (apply i_28_c; exact Hs)
      | (apply i_29_30_c; exact Hs) | (apply i_31_c; exact Hs) | (apply i_32_c; exact Hs) | (apply i_33_c; exact Hs)
      | (apply i_34_c; exact Hs) | (apply i_35_c; exact Hs) | (apply i_36_c; exact Hs)
      | (apply i_37_42_c; exact Hs) | (apply i_38_c; exact Hs) | (apply i_39_c; exact Hs) | (apply i_40_c; exact Hs)
      | (apply i_41_c; exact Hs) | (apply i_43_44_c; exact Hs)
      | (apply i_45_c; exact Hs) | (apply i_46_c; exact Hs)
      | (destruct (spop s) as [s1 v1] eqn:E; cbn [fst]; fwd; fin)
      | (cbn [sres_c]; split; [exact Hs|apply Nat.le_refl])
      | exact I ].
  Qed.

  (* the dispatch loop keeps the invariant *)
  Lemma loop_closed : forall fuel ip s, state_closed s -> rres_c (hl s) (loop F bld P reenter fuel ip s).
  Proof.
    induction fuel as [|f IH]; intros ip s Hs; cbn [loop].
    - destruct (code_len P <=? ip)%N; [fin|].
      cbn [st_rem set_rem]. destruct (N.pred (st_rem s) =? 0)%N; [|exact I]. fin.
    - destruct (code_len P <=? ip)%N; [fin|].
      cbn [st_rem set_rem]. destruct (N.pred (st_rem s) =? 0)%N; [fin|].
      assert (Ht : state_closed (tick (set_rem s (N.pred (st_rem s))))) by (apply closed_tick, closed_set_rem; exact Hs).
      pose proof (step_closed ip _ Ht) as H.
      change (hl (tick (set_rem s (N.pred (st_rem s))))) with (hl s) in H.
      destruct (step F bld P reenter ip _) as [ip' s'|s'|e ip' s'|a s']; cbn [sres_c rres_c] in *; try exact H.
      destruct H as [A B]. eapply rres_c_le; [|apply IH; exact A]. exact B.
  Qed.
End Step.

(* ------------------------------------------------------------------ *)
(* 6. `run`                                                            *)
(* ------------------------------------------------------------------ *)

Lemma run_at_closed F bld P max_instr : forall depth ip s,
  state_closed s -> rres_c (hl s) (run_at F bld P false max_instr depth ip s).
Proof.
  induction depth as [|d IH]; intros ip s Hs; cbn [run_at]; [exact I|].
  unfold run_loop. apply loop_closed; [exact IH|exact Hs].
Qed.

Lemma fresh_state_closed : state_closed fresh_state.
Proof.
  constructor; unfold hl, sd, fresh_state, vs_new; cbn [st_heap st_open st_stack st_calls st_globals vdata vcount];
    try constructor.
  intros i Hi. lia.
Qed.

(* RuntimeData::clear: the dead slots keep dangling addresses, but nothing designates them any more *)
Lemma clear_state_closed s : state_closed (clear_state s).
Proof.
  constructor; unfold hl, sd, clear_state; cbn [st_heap st_open st_stack st_calls st_globals vs_step fst vdata vcount];
    try constructor.
  intros i Hi. lia.
Qed.

(* every state in which a run of the VM ends (normally or with an error) is closed, and the heap did not shrink *)
Theorem run_closed : forall F bld budget P s o s',
  state_closed s -> run F bld budget P s = (o, s') -> (forall a, o <> OAbort a) ->
  state_closed s' /\ hl s <= hl s'.
Proof.
  intros F bld budget P s o s' Hs Hr Hna. unfold run, run_gen in Hr.
  destruct (push_frame s _) as [s1|] eqn:E1.
  2:{ injection Hr as <- <-. split; [exact Hs|lia]. }
  assert (Hf : frame_ok (hl s) (sd s) (mkFrame 0 0 0 None)).
  { split; cbn; [|exact I]. intros i Hi. lia. }
  destruct (push_frame_c _ _ _ E1 Hs Hf) as (A1 & B1 & _).
  assert (H2 : state_closed (set_rem s1 (N.of_nat budget))) by (apply closed_set_rem; exact A1).
  pose proof (run_at_closed F bld P (N.of_nat budget) max_depth 0 _ H2) as H.
  change (hl (set_rem s1 (N.of_nat budget))) with (hl s1) in H.
  unfold finish, outcome_of in Hr.
  destruct (run_at F bld P false (N.of_nat budget) max_depth 0 _) as [x|e ip x|a x]; cbn [rres_c] in H.
  - injection Hr as <- <-. destruct H as [A B]. split; [apply closed_set_calls; [exact A|constructor]|].
    change (hl s <= hl x). lia.
  - injection Hr as <- <-. destruct H as [A B]. split; [apply closed_set_calls; [exact A|constructor]|].
    change (hl s <= hl x). lia.
  - injection Hr as <- <-. exfalso. eapply Hna. reflexivity.
Qed.
