(* C02, link between the VM model and the collector model, part 2: [state_closed] (VmGcRoots.v) is an invariant
   of the VM model - it holds in [fresh_state] and in every cleared state, and every instruction (every opcode,
   every native of the menu, the stdlib natives, nested runs) keeps it, for ARBITRARY bytecode.  Along the way:
   the heap never shrinks during a run, so a value that was not dangling stays so. *)
From Coq Require Import NArith ZArith List Lia Bool.
From Cao Require Import ListUtil Bits Stacks Vm VmUpvalueProofs VmGcRoots.
Import ListNotations.


(* ------------------------------------------------------------------ *)
(* 1. monotonicity                                                     *)
(* ------------------------------------------------------------------ *)

Lemma aok_mono n n' a : n <= n' -> aok n a -> aok n' a.
Proof. unfold aok. lia. Qed.
Lemma vok_mono n n' v : n <= n' -> vok n v -> vok n' v.
Proof. destruct v; cbn; auto. apply aok_mono. Qed.
Lemma ook_mono n n' o : n <= n' -> ook n o -> ook n' o.
Proof. destruct o; cbn; auto. apply aok_mono. Qed.
Lemma gvok_mono n n' g : n <= n' -> gvok n g -> gvok n' g.
Proof. destruct g; cbn; auto. apply vok_mono. Qed.
Lemma pair_ok_mono n n' kv : n <= n' -> pair_ok n kv -> pair_ok n' kv.
Proof. intros L [A B]. split; eapply vok_mono; eauto. Qed.
Lemma table_ok_mono n n' t : n <= n' -> table_ok n t -> table_ok n' t.
Proof.
  intros L [A B]. split; eapply Forall_impl; try eassumption; intros x; [apply vok_mono|apply pair_ok_mono]; exact L.
Qed.
Lemma pre_ok_le n d m m' : m' <= m -> pre_ok n d m -> pre_ok n d m'.
Proof. intros L H i Hi. apply H. lia. Qed.

(* the stack array [d] of a heap of [n] cells becomes [d'] with [n'] cells: no valid prefix is lost *)
Definition dext (n : nat) (d : list value) (n' : nat) (d' : list value) : Prop :=
  n <= n' /\ forall m, pre_ok n d m -> pre_ok n' d' m.

Lemma dext_refl n d : dext n d n d.
Proof. split; auto. Qed.
Lemma dext_trans n1 d1 n2 d2 n3 d3 : dext n1 d1 n2 d2 -> dext n2 d2 n3 d3 -> dext n1 d1 n3 d3.
Proof. intros [A B] [C D]. split; [lia|auto]. Qed.
Lemma dext_grow n n' d : n <= n' -> dext n d n' d.
Proof. intros L. split; [exact L|]. intros m H i Hi. eapply vok_mono; [exact L|]. apply H. exact Hi. Qed.
Lemma dext_upd n d c v : vok n v -> dext n d n (upd d c v).
Proof.
  intros Hv. split; [lia|]. intros m H i Hi.
  destruct (Nat.eq_dec c i) as [->|Hne].
  - destruct (Nat.lt_ge_cases i (length d)) as [Hl|Hl].
    + rewrite nth_upd_same by exact Hl. exact Hv.
    + rewrite nth_overflow by (rewrite upd_length; exact Hl). exact I.
  - rewrite nth_upd_other by exact Hne. apply H. exact Hi.
Qed.

Lemma pre_ok_upd n d c v m : vok n v -> pre_ok n d m -> pre_ok n (upd d c v) m.
Proof. intros Hv. apply (dext_upd n d c v Hv). Qed.

Lemma pre_ok_upd_S n d c v : pre_ok n d c -> vok n v -> pre_ok n (upd d c v) (S c).
Proof.
  intros H Hv i Hi. destruct (Nat.eq_dec c i) as [->|Hne].
  - destruct (Nat.lt_ge_cases i (length d)) as [Hl|Hl].
    + rewrite nth_upd_same by exact Hl. exact Hv.
    + rewrite nth_overflow by (rewrite upd_length; exact Hl). exact I.
  - rewrite nth_upd_other by exact Hne. apply H. lia.
Qed.

Lemma obj_ok_ext n d n' d' o : dext n d n' d' -> obj_ok n d o -> obj_ok n' d' o.
Proof.
  intros [L E]. destruct o as [t|b|h ar|h|h ar ups|u]; cbn [obj_ok]; auto.
  - apply table_ok_mono. exact L.
  - intros H. eapply Forall_impl; [|exact H]. intros a. apply aok_mono. exact L.
  - intros (A & B & C). split; [eapply vok_mono; eauto|]. split; [eapply ook_mono; eauto|].
    destruct (u_loc u); auto.
Qed.
Lemma frame_ok_ext n d n' d' f : dext n d n' d' -> frame_ok n d f -> frame_ok n' d' f.
Proof. intros [L E] [A B]. split; [auto|eapply ook_mono; eauto]. Qed.

Lemma Forall_upd {A} (Q : A -> Prop) l i v : Forall Q l -> Q v -> Forall Q (upd l i v).
Proof.
  intros H Hv. revert i. induction H as [|x l Hx Hl IH]; intros [|i]; cbn [upd]; constructor; auto.
Qed.
Lemma Forall_nth_error {A} (Q : A -> Prop) l i x : Forall Q l -> nth_error l i = Some x -> Q x.
Proof. intros H E. rewrite Forall_forall in H. apply H. eapply nth_error_In. exact E. Qed.
Lemma Forall_remove_nth {A} (Q : A -> Prop) l i : Forall Q l -> Forall Q (remove_nth i l).
Proof.
  intros H. revert i. induction H as [|x l Hx Hl IH]; intros [|i]; cbn [remove_nth]; auto.
Qed.
Lemma Forall_removelast {A} (Q : A -> Prop) l : Forall Q l -> Forall Q (removelast l).
Proof.
  induction 1 as [|x l Hx Hl IH]; cbn [removelast]; [constructor|]. destruct l; [constructor|].
  constructor; assumption.
Qed.
Lemma Forall_nth_d {A} (Q : A -> Prop) l i d : Forall Q l -> Q d -> Q (nth i l d).
Proof.
  intros H Hd. destruct (nth_in_or_default i l d) as [Hin|Heq]; [|rewrite Heq; exact Hd]. rewrite Forall_forall in H. auto.
Qed.

(* ------------------------------------------------------------------ *)
(* 2. state transformers                                               *)
(* ------------------------------------------------------------------ *)

Ltac scn := unfold hl, sd in *;
  cbn [st_open st_heap st_calls st_stack st_globals set_stack set_calls set_globals set_heap set_open set_log
       set_rem tick vdata vcount log_push set_table fst snd] in *.

(* only the value stack changes *)
Lemma closed_set_stack s k :
  state_closed s -> dext (hl s) (sd s) (hl s) (vdata k) -> pre_ok (hl s) (vdata k) (vcount k) ->
  state_closed (set_stack s k).
Proof.
  intros [A B C D E] X Y. constructor; scn; auto.
  - eapply Forall_impl; [|exact B]. intros f. apply frame_ok_ext. exact X.
  - eapply Forall_impl; [|exact E]. intros o. apply obj_ok_ext. exact X.
Qed.

Lemma closed_set_calls s c :
  state_closed s -> Forall (frame_ok (hl s) (sd s)) c -> state_closed (set_calls s c).
Proof. intros [A B C D E] X. constructor; scn; auto. Qed.
Lemma closed_set_globals s g :
  state_closed s -> Forall (gvok (hl s)) g -> state_closed (set_globals s g).
Proof. intros [A B C D E] X. constructor; scn; auto. Qed.
Lemma closed_set_open s o : state_closed s -> ook (hl s) o -> state_closed (set_open s o).
Proof. intros [A B C D E] X. constructor; scn; auto. Qed.
Lemma closed_set_log s l : state_closed s -> state_closed (set_log s l).
Proof. intros [A B C D E]. constructor; scn; auto. Qed.
Lemma closed_log_push s e : state_closed s -> state_closed (log_push s e).
Proof. apply closed_set_log. Qed.
Lemma closed_set_rem s r : state_closed s -> state_closed (set_rem s r).
Proof. intros [A B C D E]. constructor; scn; auto. Qed.
Lemma closed_tick s : state_closed s -> state_closed (tick s).
Proof. intros [A B C D E]. constructor; scn; auto. Qed.

(* an object is overwritten (hset beyond the heap is a no-op) *)
Lemma closed_hset s a o :
  state_closed s -> obj_ok (hl s) (sd s) o -> state_closed (set_heap s (hset (st_heap s) a o)).
Proof.
  intros [A B C D E] X. constructor; scn; unfold hset; rewrite ?upd_length; auto.
  apply Forall_upd; assumption.
Qed.

(* a new object *)
Lemma closed_salloc s o s1 a :
  salloc s o = (s1, a) -> state_closed s -> obj_ok (S (hl s)) (sd s) o ->
  state_closed s1 /\ hl s1 = S (hl s) /\ a = N.of_nat (hl s) /\ sd s1 = sd s /\ st_stack s1 = st_stack s /\
  st_calls s1 = st_calls s.
Proof.
  unfold salloc, halloc. intros H [A B C D E] X. injection H as <- <-.
  assert (G : dext (hl s) (sd s) (S (hl s)) (sd s)) by (apply dext_grow; lia).
  split; [|scn; rewrite app_length; cbn [length]; repeat split; lia].
  constructor; scn; rewrite ?app_length; cbn [length]; rewrite ?Nat.add_1_r.
  - apply G. exact A.
  - eapply Forall_impl; [|exact B]. intros f. apply frame_ok_ext. exact G.
  - eapply Forall_impl; [|exact C]. intros g. apply gvok_mono. lia.
  - eapply ook_mono; [|exact D]. lia.
  - apply Forall_app. split; [|constructor; [exact X|constructor]].
    eapply Forall_impl; [|exact E]. intros ob. apply obj_ok_ext. exact G.
Qed.

Lemma closed_hget s a o : state_closed s -> hget (st_heap s) a = Some o -> obj_ok (hl s) (sd s) o.
Proof. intros [A B C D E] H. eapply Forall_nth_error; [exact E|exact H]. Qed.
Lemma hget_aok s a o : hget (st_heap s) a = Some o -> aok (hl s) a.
Proof. intros H. apply hget_lt in H. exact H. Qed.

(* ---- the value stack ---- *)
Lemma closed_slot s i : state_closed s -> i < vcount (st_stack s) -> vok (hl s) (nth i (sd s) VNil).
Proof. intros [A _ _ _ _] Hi. apply A. exact Hi. Qed.

Lemma spush_closed s v s1 :
  spush s v = Some s1 -> state_closed s -> vok (hl s) v -> state_closed s1 /\ st_heap s1 = st_heap s.
Proof.
  unfold spush, vs_push.
  destruct (S (vcount (st_stack s)) <? length (vdata (st_stack s))); intros H; cbv beta iota zeta in H; [|discriminate].
  injection H as <-. intros Hs Hv. split; [|reflexivity].
  apply closed_set_stack; cbn [vdata vcount]; [exact Hs|apply dext_upd; exact Hv|].
  apply pre_ok_upd_S; [apply Hs|exact Hv].
Qed.

Lemma vs_pop_closed s :
  state_closed s ->
  state_closed (set_stack s (fst (vs_pop VNil (st_stack s)))) /\ vok (hl s) (snd (vs_pop VNil (st_stack s))).
Proof.
  intros Hs. unfold vs_pop. destruct (vcount (st_stack s) =? 0) eqn:E; cbn [fst snd].
  - split; [|exact I]. destruct s as [[c d] ? ? ? ? ? ? ?]. exact Hs.
  - apply Nat.eqb_neq in E. split.
    + apply closed_set_stack; cbn [vdata vcount]; [exact Hs|apply dext_upd; exact I|].
      apply pre_ok_upd; [exact I|].
      eapply pre_ok_le; [|apply Hs]. lia.
    + apply closed_slot; [exact Hs|lia].
Qed.

Lemma spop_closed s s1 v :
  spop s = (s1, v) -> state_closed s -> state_closed s1 /\ st_heap s1 = st_heap s /\ vok (hl s) v.
Proof.
  unfold spop. intros H Hs. destruct (vs_pop_closed _ Hs) as [A B].
  destruct (vs_pop VNil (st_stack s)) as [k x]. injection H as <- <-. auto.
Qed.

Lemma sset_closed s i v s1 :
  sset s i v = Some s1 -> state_closed s -> vok (hl s) v -> state_closed s1 /\ st_heap s1 = st_heap s.
Proof.
  unfold sset, vs_step, vs_push. intros H Hs Hv.
  destruct (vcount (st_stack s) <? i); [discriminate|].
  destruct (Nat.eqb_spec i (vcount (st_stack s))) as [->|Hne].
  - destruct (S (vcount (st_stack s)) <? length (vdata (st_stack s))); cbv beta iota zeta in H; [|discriminate].
    injection H as <-. split; [|reflexivity].
    apply closed_set_stack; cbn [vdata vcount]; [exact Hs|apply dext_upd; exact Hv|].
    apply pre_ok_upd_S; [apply Hs|exact Hv].
  - injection H as <-. split; [|reflexivity].
    apply closed_set_stack; cbn [vdata vcount]; [exact Hs|apply dext_upd; exact Hv|].
    apply pre_ok_upd; [exact Hv|]. apply Hs.
Qed.
Lemma write_local_closed s off h v s1 :
  write_local s off h v = Some s1 -> state_closed s -> vok (hl s) v -> state_closed s1 /\ st_heap s1 = st_heap s.
Proof. apply sset_closed. Qed.

Lemma sclear_until_closed s h s1 v :
  sclear_until s h = (s1, v) -> state_closed s -> pre_ok (hl s) (sd s) h ->
  state_closed s1 /\ st_heap s1 = st_heap s /\ vok (hl s) v.
Proof.
  unfold sclear_until, vs_step. intros H Hs Hh. injection H as <- <-. split; [|split; [reflexivity|]].
  - apply closed_set_stack; cbn [vdata vcount]; [exact Hs|apply dext_refl|exact Hh].
  - unfold vs_last. destruct (0 <? vcount (st_stack s)) eqn:E; [|exact I].
    apply Nat.ltb_lt in E. apply closed_slot; [exact Hs|lia].
Qed.

Lemma spop_w_offset_closed s off s1 v :
  spop_w_offset s off = (s1, v) -> state_closed s -> state_closed s1 /\ st_heap s1 = st_heap s /\ vok (hl s) v.
Proof.
  unfold spop_w_offset, vs_step. intros H Hs. destruct (vcount (st_stack s) <=? off).
  - injection H as <- <-. split; [|split; [reflexivity|exact I]]. destruct s as [[c d] ? ? ? ? ? ? ?]. exact Hs.
  - destruct (vs_pop_closed _ Hs) as [A B]. destruct (vs_pop VNil (st_stack s)) as [k x].
    injection H as <- <-. auto.
Qed.

Lemma spop_n_closed s n : state_closed s -> state_closed (spop_n s n).
Proof.
  intros Hs. unfold spop_n, vs_pop_n. cbn [fst].
  apply closed_set_stack; cbn [vdata vcount]; [exact Hs|apply dext_refl|].
  eapply pre_ok_le; [|apply Hs]. lia.
Qed.
Lemma sraw_set_closed s i v : state_closed s -> vok (hl s) v -> state_closed (sraw_set s i v).
Proof.
  intros Hs Hv. unfold sraw_set. apply closed_set_stack; cbn [vdata vcount]; [exact Hs|apply dext_upd; exact Hv|].
  apply pre_ok_upd; [exact Hv|]. apply Hs.
Qed.

Lemma speek_vok s k : state_closed s -> vok (hl s) (speek s k).
Proof.
  intros Hs. unfold speek, vs_step. destruct (k <? vcount (st_stack s)) eqn:E; [|exact I].
  apply Nat.ltb_lt in E. apply closed_slot; [exact Hs|lia].
Qed.
Lemma slast_vok s : state_closed s -> vok (hl s) (slast s).
Proof.
  intros Hs. unfold slast, vs_last. destruct (0 <? vcount (st_stack s)) eqn:E; [|exact I].
  apply Nat.ltb_lt in E. apply closed_slot; [exact Hs|lia].
Qed.
Lemma sget_vok s i : state_closed s -> vok (hl s) (sget s i).
Proof.
  intros Hs. unfold sget, vs_step. destruct (vcount (st_stack s) <=? i) eqn:E; [exact I|].
  apply Nat.leb_gt in E. apply closed_slot; [exact Hs|exact E].
Qed.
(* the slot of an open upvalue *)
Lemma sraw_get_vok s a u l :
  state_closed s -> hget (st_heap s) a = Some (OUp u) -> u_loc u = Some l -> vok (hl s) (sraw_get s l).
Proof.
  intros Hs Ha Hl. pose proof (closed_hget _ _ _ Hs Ha) as (_ & _ & C). rewrite Hl in C. apply C. lia.
Qed.

(* ---- frames ---- *)
Lemma push_frame_closed s f s1 :
  push_frame s f = Some s1 -> state_closed s -> frame_ok (hl s) (sd s) f -> state_closed s1 /\ st_heap s1 = st_heap s.
Proof.
  unfold push_frame. destruct (_ <=? _); [discriminate|]. intros H Hs Hf. injection H as <-.
  split; [|reflexivity]. apply closed_set_calls; [exact Hs|]. constructor; [exact Hf|apply Hs].
Qed.
Lemma top_offset_pre s off : state_closed s -> top_offset s = Some off -> pre_ok (hl s) (sd s) off.
Proof.
  intros Hs. unfold top_offset. destruct (st_calls s) as [|f r] eqn:E; [discriminate|]. intros H. injection H as <-.
  pose proof (sc_calls Hs) as B. rewrite E in B. inversion B as [|? ? [X _] _]; subst. exact X.
Qed.
(* a frame whose offset is at most the height *)
Lemma frame_ok_below s off clo src dst :
  state_closed s -> N.to_nat off <= vcount (st_stack s) -> ook (hl s) clo ->
  frame_ok (hl s) (sd s) (mkFrame src dst off clo).
Proof. intros Hs L Hc. split; cbn [fr_off fr_clo]; [|exact Hc]. eapply pre_ok_le; [exact L|apply Hs]. Qed.

(* ------------------------------------------------------------------ *)
(* 3. tables                                                           *)
(* ------------------------------------------------------------------ *)
Section Tables.
  Variable eq : eqfun.
  Variable n : nat.

  Lemma map_find_ok k m i v :
    Forall (pair_ok n) m -> map_find eq k m = Some (Some (i, v)) -> vok n v.
  Proof.
    intros H. revert i. induction H as [|[k' v'] m [Hk Hv] Hm IH]; intros i; cbn [map_find]; [discriminate|].
    destruct (keq eq k' k) as [[|]|]; try discriminate.
    - intros E. injection E as _ <-. exact Hv.
    - destruct (map_find eq k m) as [[[j w]|]|]; try discriminate. intros E. injection E as _ <-. eapply IH. reflexivity.
  Qed.

  Lemma tget_ok t k r : table_ok n t -> tget eq t k = Some r -> vok n (match r with Some v => v | None => VNil end).
  Proof.
    intros [_ Hm]. unfold tget. destruct (map_find eq k (tmap t)) as [[[i v]|]|] eqn:E; try discriminate;
      intros H; injection H as <-; [|exact I]. eapply map_find_ok; eauto.
  Qed.

  Lemma tinsert_ok t k v t' : table_ok n t -> vok n k -> vok n v -> tinsert eq t k v = Some t' -> table_ok n t'.
  Proof.
    intros [Hk Hm] Vk Vv. unfold tinsert. destruct (map_find eq k (tmap t)) as [[[i w]|]|]; try discriminate;
      intros H; injection H as <-; split; cbn [tkeys tmap]; auto.
    - apply Forall_upd; [exact Hm|]. split; cbn [fst snd]; [|exact Vv].
      apply (Forall_nth_d (fun kv => vok n (fst kv)) (tmap t) i (VNil, VNil)); [|exact I].
      eapply Forall_impl; [|exact Hm]. intros x [X _]. exact X.
    - apply Forall_app. split; [exact Hk|constructor; [exact Vk|constructor]].
    - apply Forall_app. split; [exact Hm|constructor; [split; assumption|constructor]].
  Qed.

  Lemma tappend_ok t v t' : table_ok n t -> vok n v -> tappend eq t v = TOk t' -> table_ok n t'.
  Proof.
    intros Ht Vv. unfold tappend. destruct (tappend_idx _ _ _ _) as [[i|]|]; try discriminate.
    destruct (tinsert eq t (VInt i) v) as [t1|] eqn:E; [|discriminate]. intros H. injection H as <-.
    eapply (tinsert_ok t (VInt i)); [exact Ht|exact I|exact Vv|exact E].
  Qed.

  Lemma tpop_ok t t' v : table_ok n t -> tpop eq t = Some (t', v) -> table_ok n t' /\ vok n v.
  Proof.
    intros [Hk Hm]. unfold tpop. destruct (rev (tkeys t)) as [|key r].
    - intros H. injection H as <- <-. split; [split; assumption|exact I].
    - destruct (map_find eq key (tmap t)) as [[[i w]|]|] eqn:E; try discriminate; intros H; injection H as <- <-.
      + split; [|eapply map_find_ok; eauto]. split; cbn [tkeys tmap];
          [apply Forall_removelast; exact Hk|apply Forall_remove_nth; exact Hm].
      + split; [|exact I]. split; cbn [tkeys tmap]; [apply Forall_removelast; exact Hk|exact Hm].
  Qed.

  Lemma tnth_key_ok t i : table_ok n t -> vok n (tnth_key t i).
  Proof.
    intros [Hk _]. unfold tnth_key. destruct (_ <=? _); [exact I|]. apply Forall_nth_d; [exact Hk|exact I].
  Qed.

  Lemma titer_go_ok m ks l :
    Forall (pair_ok n) m -> Forall (vok n) ks -> titer_go eq m ks = Some l -> Forall (pair_ok n) l.
  Proof.
    intros Hm Hk. revert l. induction Hk as [|k r Vk Hr IH]; intros l; cbn [titer_go].
    - intros H. injection H as <-. constructor.
    - destruct (map_find eq k m) as [[[i v]|]|] eqn:E; try discriminate;
        destruct (titer_go eq m r) as [l0|]; try discriminate; intros H; injection H as <-; [|auto].
      constructor; [|auto]. split; cbn [fst snd]; [exact Vk|eapply map_find_ok; eauto].
  Qed.
  Lemma titer_ok t l : table_ok n t -> titer eq t = Some l -> Forall (pair_ok n) l.
  Proof. intros [Hk Hm]. apply titer_go_ok; assumption. Qed.

  Lemma table_ok_empty : table_ok n (mkTable [] []).
  Proof. split; constructor. Qed.

  Lemma insert_pairs_ok l : forall t t', table_ok n t -> Forall (pair_ok n) l -> insert_pairs eq t l = Some t' -> table_ok n t'.
  Proof.
    induction l as [|[k v] r IH]; intros t t' Ht Hl; cbn [insert_pairs].
    - intros H. injection H as <-. exact Ht.
    - inversion Hl as [|? ? [Vk Vv] Hr]; subst. destruct (tinsert eq t k v) as [t1|] eqn:E; [|discriminate].
      apply IH; [|exact Hr]. exact (tinsert_ok t k v t1 Ht Vk Vv E).
  Qed.
  Lemma to_array_go_ok l : forall t i t', table_ok n t -> Forall (pair_ok n) l -> to_array_go eq t i l = Some t' -> table_ok n t'.
  Proof.
    induction l as [|[k v] r IH]; intros t i t' Ht Hl; cbn [to_array_go].
    - intros H. injection H as <-. exact Ht.
    - inversion Hl as [|? ? [Vk Vv] Hr]; subst. destruct (tinsert eq t (VInt i) v) as [t1|] eqn:E; [|discriminate].
      apply IH; [|exact Hr]. exact (tinsert_ok t (VInt i) v t1 Ht I Vv E).
  Qed.
  Lemma insert_all_ok l : forall t t', table_ok n t -> Forall (fun x => pair_ok n (snd x)) l ->
    insert_all eq t l = Some t' -> table_ok n t'.
  Proof.
    induction l as [|[key [k v]] r IH]; intros t t' Ht Hl; cbn [insert_all].
    - intros H. injection H as <-. exact Ht.
    - inversion Hl as [|? ? [Vk Vv] Hr]; subst. cbn [fst snd] in *. destruct (tinsert eq t k v) as [t1|] eqn:E; [|discriminate].
      apply IH; [|exact Hr]. exact (tinsert_ok t k v t1 Ht Vk Vv E).
  Qed.
End Tables.

Lemma get_table_closed s v a t :
  get_table (st_heap s) v = TblOk a t -> state_closed s -> hget (st_heap s) a = Some (OTable t) /\ table_ok (hl s) t.
Proof.
  intros H Hs. unfold get_table in H. destruct v as [| | |b]; try discriminate.
  destruct (hget (st_heap s) b) as [[t0| | | | |]|] eqn:E; try discriminate. injection H as <- <-.
  split; [exact E|]. exact (closed_hget _ _ _ Hs E).
Qed.

Lemma closed_set_table s a t : state_closed s -> table_ok (hl s) t -> state_closed (set_table s a t).
Proof. intros Hs Ht. unfold set_table. apply closed_hset; assumption. Qed.
